(* C05 — the checker on the model, stage 4: the final sequential read.
   (A) Regression for a corrected ORACLE defect: Exec.final_data used to run the final reader with a
       constant fuel of 400 rounds; on a case whose live chain has more than ~133 blocks the
       model's final read gave up, [final] = [] and clause S5 failed although done = true and
       known_class = None.  The fuel is now derived from the state (Exec.final_fuel).
   (B) For every case: what the final read returns (if it finishes; [] otherwise) has no duplicate
       identity, consists of values sitting in slots of the final heap, each slice being the
       published prefix of one block; hence clauses nodupb (concat final) and
       forallb (slice_genuine tbl None) final of Spec.spec_run hold on the model.               *)
From Coq Require Import List NArith Bool Arith Lia.
Import ListNotations.
Require Import MV.Common.Interleave MV.Common.InterleaveTrace MV.C05.Model MV.C05.Spec MV.C05.Exec.
Require Import MV.C05.ProofsSeq MV.C05.ProofsInv MV.C05.ProofsCor MV.C05.ProofsUniq MV.C05.ProofsCons MV.C05.ProofsProg
               MV.C05.ProofsSnap MV.C05.ProofsOrder MV.C05.ProofsSpec MV.C05.ProofsTrace1 MV.C05.ProofsTrace2 MV.C05.ProofsTrace3.
Local Open Scope nat_scope.

(* ---- (A) regression for the oracle defect: with the state-derived fuel the oversized case's final
   read finishes and accounts for all 8700 pushes (with the old constant 400 it returned []) *)
Definition oversized_case : case := ([[XMany 1 8700]], repeat 0%N (N.to_nat 35000)).

Lemma oversized_case_facts :
  known_class oversized_case = None /\
  (let '(_, rss, done, final, _) := run_case oversized_case in
   done = true /\ length final = N.to_nat 136 /\
   length (cleared_out rss ++ concat final) = N.to_nat 8700 /\ length (all_pushes (progs_of oversized_case) 0) = N.to_nat 8700).
Proof. vm_compute. repeat split; reflexivity. Qed.

(* ---- (B) the fresh reader on a fixed shared state *)
Section Final.
  Variable B : nat.
  Hypothesis HB : 1 <= B.
  Variable fxc : bool.
  Notation step := (step B true fxc).
  Variable s0 : shared.
  Variable ls0 : list local.
  Hypothesis HA : All B (s0, ls0).

  Definition block_prefix (sl : list val) : Prop :=
    exists b, b < length (heap s0) /\ sl = data_of (getb (heap s0) b) (tones (bdone (getb (heap s0) b))).
  Definition fin_walk (b : nat) (acc : list (list val)) (strict : bool) : Prop :=
    b < length (heap s0) /\ above (heap s0) acc b strict /\ Forall block_prefix acc.

  Definition fin_ok (l : local) : Prop :=
    match pcl l with
    | Start => todo l = [CData] /\ results l = []
    | W0 false => todo l = [] /\ results l = []
    | W1 false b acc | W2 false b _ acc | WS false b acc | WD false b acc => todo l = [] /\ results l = [] /\ fin_walk b acc true
    | WN false b acc => todo l = [] /\ results l = [] /\ fin_walk b acc false
    | Done => exists sl, results l = [RData sl] /\ NoDup (map vid (concat sl)) /\
                         (forall x, In x (concat sl) -> exists d i, slot (heap s0) d i = Some x) /\ Forall block_prefix sl
    | _ => False
    end.

  Definition FinInv (c : @config shared local) : Prop := fst c = s0 /\ exists l, snd c = [l] /\ fin_ok l.

  Lemma Forall_rev' {A} (P : A -> Prop) l : Forall P l -> Forall P (rev l).
  Proof. rewrite !Forall_forall. intros H x Hx. apply H. apply in_rev. exact Hx. Qed.

  Lemma fin_done l acc b st : todo l = [] -> results l = [] -> fin_walk b acc st -> fin_ok (finish l (walk_res false acc)).
  Proof.
    intros Ht Hr (_ & [Hnd Hab] & Hbp). unfold finish, fin_ok. rewrite Ht, Hr. cbn [enter mk pcl results walk_res].
    exists (rev acc). split; [reflexivity|split; [apply nodup_concat_rev; exact Hnd|split; [|apply Forall_rev'; exact Hbp]]].
    intros x Hx. rewrite in_concat in Hx. destruct Hx as (y & Hy & Hxy). apply in_rev in Hy.
    destruct (Hab x) as (d & i & Hs & _); [rewrite in_concat; eauto|eauto].
  Qed.

  Theorem FinInv_step : step_preserves step FinInv.
  Proof.
    intros s ls t l s' l' (Hs & l1 & Hls & Hok) Hl Hst. cbn [fst snd] in *. subst s ls.
    destruct t as [|t]; [|destruct t; discriminate Hl]. cbn in Hl. inversion Hl; subst l1. clear Hl. cbn [upd].
    pose proof HA as (HI & _). pose proof HI as (HO & _ & _).
    unfold fin_ok in Hok. unfold Model.step in Hst.
    destruct (pcl l) eqn:Epc; try contradiction; try (destruct clr; try contradiction).
    - (* Start *) destruct Hok as [Ht Hr]. inversion Hst; subst s' l'. split; [reflexivity|]. eexists. split; [reflexivity|].
      rewrite Ht, Hr. unfold fin_ok. cbn. auto.
    - (* 530 *) destruct Hok as [Ht Hr]. destruct (tail s0) as [b|] eqn:Et; inversion Hst; subst s' l'; (split; [reflexivity|]); eexists; (split; [reflexivity|]).
      + unfold fin_ok. cbn [goto mk pcl todo results]. repeat split; auto; try constructor.
        * apply (proj1 (proj2 (proj2 HO)) b Et). * intros x [].
      + unfold finish, fin_ok. rewrite Ht, Hr. cbn. exists []. repeat split; auto; try constructor. intros x [].
    - (* 504 *) destruct Hok as (Ht & Hr & Hw).
      destruct (Nat.eqb (tones (bdone (getb (heap s0) b))) B); inversion Hst; subst s' l'; (split; [reflexivity|]); eexists; (split; [reflexivity|]);
        unfold fin_ok; cbn [goto mk pcl todo results]; auto.
    - (* 505 *) destruct Hok as (Ht & Hr & Hw).
      destruct (Nat.eqb (Nat.min (bw (getb (heap s0) b)) B) len); inversion Hst; subst s' l'; (split; [reflexivity|]); eexists; (split; [reflexivity|]);
        unfold fin_ok; cbn [goto mk pcl todo results]; auto.
    - (* spin *) destruct Hok as (Ht & Hr & Hw). inversion Hst; subst s' l'. split; [reflexivity|]. eexists. split; [reflexivity|].
      unfold fin_ok. cbn [goto mk pcl todo results]. auto.
    - (* 506 *) destruct Hok as (Ht & Hr & (Hb & Hab & Hbp)). inversion Hst; subst s' l'. split; [reflexivity|]. eexists. split; [reflexivity|].
      unfold fin_ok. cbn [goto mk pcl todo results]. split; [exact Ht|split; [exact Hr|]].
      split; [exact Hb|split; [apply (above_read B HB s0 ls0 b acc HA Hb Hab)|]].
      constructor; [exists b; auto|exact Hbp].
    - (* 532 *) destruct Hok as (Ht & Hr & Hw). destruct (bnxt (getb (heap s0) b)) as [nb|] eqn:En; inversion Hst; subst s' l'; (split; [reflexivity|]); eexists; (split; [reflexivity|]).
      + destruct Hw as (Hb & [Hnd Hab] & Hbp). destruct (proj1 (proj2 HO) b nb Hb En) as [Hlt _].
        unfold fin_ok. cbn [goto mk pcl todo results]. split; [exact Ht|split; [exact Hr|]].
        split; [lia|split; [|exact Hbp]]. split; [exact Hnd|]. intros x Hx. destruct (Hab x Hx) as (d & i & Hsl & Hd). exists d, i. split; [exact Hsl|lia].
      + eapply fin_done; eauto.
    - (* Done *) discriminate Hst.
  Qed.

  Lemma FinInv_init m : FinInv (s0, [init_local m [CData]]).
  Proof. split; [reflexivity|]. eexists. split; [reflexivity|]. unfold fin_ok. cbn. auto. Qed.

  Theorem final_read_props :
    let f := final_data B true fxc s0 in
    NoDup (map vid (concat f)) /\ (forall x, In x (concat f) -> exists d i, slot (heap s0) d i = Some x) /\ Forall block_prefix f.
  Proof.
    unfold final_data.
    pose proof (exec_rr_inv step site FinInv FinInv_step (final_fuel s0) _ (FinInv_init 4294967295%N)) as H.
    destruct (exec_rr step site (final_fuel s0) (s0, [init_local 4294967295%N [CData]])) as [cf tr']. cbn [fst] in H.
    destruct H as (_ & l & Hls & Hok). rewrite Hls.
    assert (Triv : NoDup (map vid (concat (@nil (list val)))) /\ (forall x, In x (concat (@nil (list val))) -> exists d i, slot (heap s0) d i = Some x) /\ Forall block_prefix [])
      by (cbn; repeat split; [constructor|intros x []|constructor]).
    unfold fin_ok in Hok. destruct (pcl l); try contradiction; try (destruct clr; try contradiction);
      try (destruct Hok as (_ & Hr & _) || destruct Hok as (_ & Hr); rewrite Hr; exact Triv).
    destruct Hok as (sl & Hr & H1 & H2 & H3). rewrite Hr. auto.
  Qed.
End Final.

(* ---- the two clauses about [final] that need no positions beyond the slot-write ledger *)
Theorem spec_final_read_on_model (c : case) :
  let '(tr, _, _, final, _) := run_case c in
  nodupb (concat final) = true /\ forallb (slice_genuine (pinfos tr 0 (progs_of c)) None) final = true.
Proof.
  unfold run_case, out_gen. assert (HB : 1 <= BS) by (unfold BS; lia).
  pose proof (exec_full_trace (step BS true true) site (RW BS (progs_of c)) (RW_step BS HB true (progs_of c))
                (RW_noop BS (progs_of c)) rr_fuel (map N.to_nat (snd c)) (init_config (progs_of c))
                (RW_init BS HB true (progs_of c))) as H.
  fold (run_gen BS true true c) in H. destruct (run_gen BS true true c) as [[s ls] tr]. cbn [fst snd] in H.
  destruct H as (HA & (_ & R2 & _) & [_ HS]). cbn [fst snd] in *.
  destruct (final_read_props BS HB true s ls HA) as (Hnd & Hsl & _). cbv zeta in Hnd, Hsl.
  split; [apply nodupb_iff; exact Hnd|].
  apply forallb_forall. intros sl Hin. unfold slice_genuine. apply forallb_forall. intros x Hx.
  destruct (Hsl x) as (d & i & Hs); [rewrite in_concat; eauto|].
  destruct (R2 d i x Hs) as (p & Hp & Hk). destruct (HS d i x Hs) as (w & Hw).
  destruct x as [[xt xk] xv]. cbn [fst snd] in *.
  destruct (pinfos_find tr (progs_of c) 0%N (N.to_nat xt) p (N.to_nat xk) xv Hp Hk) as (pi & Hf & Hpw).
  rewrite N.add_0_l in Hf, Hpw. repeat rewrite N2Nat.id in Hf. repeat rewrite N2Nat.id in Hpw. rewrite Hf, Hpw.
  unfold ordv in Hw. cbn [fst snd] in Hw. rewrite (nth_error_nth _ _ _ Hp) in Hw. rewrite Hw. reflexivity.
Qed.
