(* C05 — property theorems.  The lock-free bucket never loses, duplicates or invents a sample.

   Model: MV.C05.Model (one step per shared-memory access of bucket.rs, block size B a parameter,
   [step B fxa fxc]; the code in /repo is [step 64 true true]).  [reach B fxc ps c]: configuration
   c is reached from the initial configuration of the thread programs ps (any number of threads,
   any call lists) by SOME schedule, so every theorem over [reach] holds for every interleaving,
   at every atomic step.

   FULL STATEMENT NOT PROVED (kept here so that it is not lost; see level_note):
     C05_conservation_except_late_claim :
       forall B ps c, 1 <= B -> reach B true ps c -> late (fst c) = false ->
         NoDup (identities handed to clear_with callbacks in c)  /\
         Permutation (identities whose push executed its 503 step in c)
                     (handed to clears in c ++ published in blocks reachable from tail
                      ++ published in blocks of chains detached by a clearer that has not read them yet)
     together with the ownership invariant it needs (J4: a detached chain is walked by exactly the
     clearer whose 541 CAS succeeded; (J3) partition of identities), and
     C05_snapshot_sees_completed / C05_is_empty_sound (a completed snapshot hands out every
     identity published before its first step and not detached before it; is_empty = true likewise,
     for fewer than B threads) and C05_spec_ok_on_model (spec_ok holds on every model run outside
     the late-claim class).  What IS proved for all schedules is C05_conservation_partial below:
     the per-block protocol (J2/J5), uniqueness of claims, the chain structure (J1) and that reads
     hand out written slots only; the sequential refinement C05_sequential_bag is complete.      *)
From Coq Require Import List NArith Bool Arith Permutation.
Import ListNotations.
Require Import MV.Common.Interleave MV.C05.Model MV.C05.Spec MV.C05.Exec.
Require Import MV.C05.ProofsSeq MV.C05.ProofsInv MV.C05.ProofsCor.
Local Open Scope nat_scope.

(* (1) complete calls, run one after the other by any threads, are exactly the bag operations:
   push adds its value, data_with shows everything, clear_with takes everything, is_empty iff
   nothing is in the bag; for every block size B >= 1 *)
Theorem C05_sequential_bag : forall B calls, 1 <= B ->
  exists s', seq_exec B init_shared calls s' (fst (bag_run B [] calls)) /\
             SeqState B s' (snd (bag_run B [] calls)).
Proof. intros B calls HB. apply (seq_bag B HB calls init_shared []). apply SeqState_init. Qed.

Theorem C05_sequential_call : forall B s cs m k c td rs, 1 <= B -> SeqState B s cs ->
  exists s', steps B s (enter m k (c :: td) rs) s' (enter m (k + 1)%N td (bag_res c cs :: rs)) /\
             SeqState B s' (bag_next B (m, k) c cs).
Proof. intros B s cs m k c td rs HB. apply seq_call. exact HB. Qed.

Theorem C05_bag_push_adds : forall B x cs, Permutation (concat (push_contents B x cs)) (x :: concat cs).
Proof. exact push_contents_perm. Qed.

Theorem C05_sequential_run_unique : forall B s l s1 l1 s2 l2,
  steps B s l s1 l1 -> steps B s l s2 l2 -> step B true true s1 l1 = None -> step B true true s2 l2 = None ->
  s1 = s2 /\ l1 = l2.
Proof. exact steps_det. Qed.

(* (2)+(3) the protocol and chain invariants hold after every schedule *)
Theorem C05_conservation_partial : forall B fxc ps sched, 1 <= B ->
  Inv B (fst (exec (step B true fxc) site (init_config ps) sched)).
Proof. intros B fxc ps sched HB. apply reachable_Inv. exact HB. Qed.

Theorem C05_invariant_every_step : forall B fxc, 1 <= B -> step_preserves (step B true fxc) (Inv B).
Proof. intros B fxc HB. apply inv_step. exact HB. Qed.

(* no read-before-written: a published bit implies a written slot *)
Theorem C05_published_slot_is_written : forall B fxc ps c b i, 1 <= B -> reach B fxc ps c ->
  b < length (heap (fst c)) -> nth i (bdone (getb (heap (fst c)) b)) false = true ->
  exists x, nth i (bslot (getb (heap (fst c)) b)) None = Some x.
Proof. intros B fxc ps c b i HB R. pose proof (reach_Inv B HB fxc ps c R) as HI. eapply published_written; eauto. Qed.

(* claims are unique per (block, index) *)
Theorem C05_claims_unique : forall B fxc ps c t u l l' b i, 1 <= B -> reach B fxc ps c ->
  nth_error (snd c) t = Some l -> nth_error (snd c) u = Some l' -> t <> u ->
  inflight b i l = 1 -> inflight b i l' = 1 -> False.
Proof. intros B fxc ps c t u l l' b i HB R. pose proof (reach_Inv B HB fxc ps c R) as HI. eapply claims_unique; eauto. Qed.

(* the write index counts the claims: below it a slot is published or has exactly one thread in
   flight; at or above it the slot is untouched *)
Theorem C05_write_index_counts_claims : forall B fxc ps c b i, 1 <= B -> reach B fxc ps c ->
  b < length (heap (fst c)) -> i < B -> claim_ok (heap (fst c)) (snd c) b i.
Proof. intros B fxc ps c b i HB R. pose proof (reach_Inv B HB fxc ps c R) as (_ & HC & _). apply HC. Qed.

(* the publishing thread finds its own value in its slot *)
Theorem C05_writer_publishes_own_value : forall B fxc ps c t l x b i, 1 <= B -> reach B fxc ps c ->
  nth_error (snd c) t = Some l -> pcl l = P4 x b i ->
  nth i (bslot (getb (heap (fst c)) b)) None = Some x /\ nth i (bdone (getb (heap (fst c)) b)) false = false /\
  i < bw (getb (heap (fst c)) b) /\ i < B.
Proof. intros B fxc ps c t l x b i HB R. pose proof (reach_Inv B HB fxc ps c R) as HI. eapply writer_finds_own_value; eauto. Qed.

(* what the read at site 506 hands to the callback are written slots below the published length *)
Theorem C05_delivery_reads_written_slots : forall B fxc ps c b v, 1 <= B -> reach B fxc ps c ->
  b < length (heap (fst c)) ->
  In v (data_of (getb (heap (fst c)) b) (tones (bdone (getb (heap (fst c)) b)))) ->
  exists j, j < tones (bdone (getb (heap (fst c)) b)) /\ nth j (bslot (getb (heap (fst c)) b)) None = Some v.
Proof. intros B fxc ps c b v HB R. pose proof (reach_Inv B HB fxc ps c R) as HI. eapply delivery_reads_written_slots; eauto. Qed.

(* the chain from tail is finite, strictly decreasing (acyclic) and every block behind another
   block is full *)
Theorem C05_chain_acyclic_nonhead_full : forall B fxc ps c, 1 <= B -> reach B fxc ps c ->
  exists ids, Chain (heap (fst c)) (tail (fst c)) ids /\
              (forall b d, In b ids -> bnxt (getb (heap (fst c)) b) = Some d -> B <= bw (getb (heap (fst c)) d)).
Proof. intros B fxc ps c HB R. pose proof (reach_Inv B HB fxc ps c R) as HI. eapply chain_exists; eauto. Qed.

(* the open finding: inside the class the property fails (witness replayed on the real code:
   corpus/C05/b-late-claim-lost.json) *)
Theorem C05_late_claim_refutes : exists c, known_class c = Some 1%N /\ spec_ok c (run_case c) = false.
Proof. exact late_claim_refutes. Qed.

(* the two repaired defects: the model of the code before each fix violates the property outside
   the late-claim class, the model of the code after the fix does not (same case) *)
Theorem C05_handover_refuted_before_fix :
  late_claim_gen 2 false true handover_case = false /\ spec_gen 2 false true handover_case = false /\
  spec_gen 2 true true handover_case = true.
Proof. exact handover_refuted_before_fix. Qed.

Theorem C05_is_empty_refuted_before_fix :
  late_claim_gen BS true false hidden_case = false /\ spec_gen BS true false hidden_case = false /\
  spec_gen BS true true hidden_case = true.
Proof. exact is_empty_refuted_before_fix. Qed.

(* satisfiable on a non-trivial run: hand-over raced by a snapshot, a clear and is_empty *)
Theorem C05_example_run_ok : known_class example_case = None /\ spec_ok example_case (run_case example_case) = true.
Proof. exact example_ok. Qed.
