(* C05 — property theorems (placeholder while the model is being validated). *)
From Coq Require Import List NArith Bool Arith.
Import ListNotations.
Require Import MV.Common.Interleave MV.C05.Model MV.C05.Spec MV.C05.Exec.

Theorem C05_placeholder : forall n : nat, n = n.
Proof. reflexivity. Qed.
