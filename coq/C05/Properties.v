(* C05 — property theorems.  The lock-free bucket never loses, duplicates or invents a sample.

   Model: MV.C05.Model (one step per shared-memory access of bucket.rs, block size B a parameter,
   [step B fxa fxc]; the code in /repo is [step 64 true true]).  [reach B fxc ps c]: configuration
   c is reached from the initial configuration of the thread programs ps (any number of threads,
   any call lists) by SOME schedule, so every theorem over [reach] holds for every interleaving,
   at every atomic step.

   C05_conservation_except_late_claim (below) is now proved in full for every schedule: the
   hypothesis [late (fst c) = false] says that no fetch_add returned an index < B on a block not
   reachable from tail (the ghost flag is set by exactly that event and never reset); for model
   runs of a case this is [known_class c = None] (C05_conservation_on_model_runs).
   PROVED (section 13): C05_spec_ok_on_model, the trace-level checker spec_ok accepts every model
   run outside the class; its meaning and its clauses are in sections
   (8) and (9) (C05_spec_ok_sound, C05_spec_clauses_on_model_every_case and its clauses).              *)
From Coq Require Import List NArith Bool Arith Permutation Lia.
Import ListNotations.
Require Import MV.Common.Interleave MV.C05.Model MV.C05.Spec MV.C05.Exec.
Require Import MV.C05.ProofsSeq MV.C05.ProofsInv MV.C05.ProofsCor MV.C05.ProofsUniq MV.C05.ProofsCons MV.C05.ProofsProg MV.C05.ProofsSnap MV.C05.ProofsEmpty MV.C05.ProofsOrder MV.C05.ProofsSpec MV.C05.ProofsTrace1 MV.C05.ProofsTrace2 MV.C05.ProofsTrace3 MV.C05.ProofsTrace4 MV.C05.ProofsTrace5 MV.C05.ProofsTrace6 MV.C05.ProofsTrace7 MV.C05.ProofsTrace8 MV.C05.ProofsTrace9 MV.C05.ProofsTrace10 MV.C05.ProofsTrace11 MV.C05.ProofsTrace12 MV.C05.ProofsTrace13 MV.C05.ProofsTrace14 MV.C05.ProofsTrace15.
Local Open Scope nat_scope.

(* (1) complete calls, run one after the other by any threads, are exactly the bag operations:
   push adds its value, data_with shows everything, clear_with takes everything, is_empty iff
   nothing is in the bag; for every block size B >= 1 *)
Theorem C05_sequential_bag : forall B calls, 1 <= B ->
  exists s', seq_exec B init_shared calls s' (fst (bag_run B [] calls)) /\
             SeqState B s' (snd (bag_run B [] calls)).
Proof. intros B calls HB. apply (seq_bag B HB calls init_shared []). apply SeqState_init. Qed.

Theorem C05_sequential_call : forall B s cs m k c td rs, 1 <= B -> SeqState B s cs ->
  exists s', steps B s (enter m k (c :: td) rs) s' (enter m (k + 1)%N td (bag_res c cs :: rs)) /\
             SeqState B s' (bag_next B (m, k) c cs).
Proof. intros B s cs m k c td rs HB. apply seq_call. exact HB. Qed.

(* the HistogramFn entry point record_many(v, n) (run by the machine as n consecutive push calls,
   Exec.expand_prog): it adds exactly n copies of v, one per call index k, k+1, ..; n = 0 changes
   nothing.  record(v) is push(v). *)
Theorem C05_sequential_record_many : forall B s cs m k v n, 1 <= B -> SeqState B s cs ->
  exists s' cs', seq_exec B s (many_calls m k v n) s' (repeat RPush n) /\ SeqState B s' cs' /\
                 Permutation (concat cs') (many_vals m k v n ++ concat cs) /\
                 (n = 0 -> s' = s /\ cs' = cs).
Proof. intros B s cs m k v n HB. apply seq_record_many. exact HB. Qed.

Theorem C05_record_many_expansion : forall v n k (m : N),
  expand_prog [XMany v n] = map (fun x => snd x) (many_calls m k v (N.to_nat n)).
Proof.
  intros v n k m. unfold expand_prog. cbn [flat_map]. rewrite app_nil_r. revert k.
  induction (N.to_nat n) as [|j IH]; intros k; cbn; auto. rewrite <- IH. reflexivity.
Qed.

Theorem C05_record_many_example_run_ok :
  known_class record_many_case = None /\ spec_ok record_many_case (run_case record_many_case) = true.
Proof. exact record_many_example. Qed.

Theorem C05_bag_push_adds : forall B x cs, Permutation (concat (push_contents B x cs)) (x :: concat cs).
Proof. exact push_contents_perm. Qed.

Theorem C05_sequential_run_unique : forall B s l s1 l1 s2 l2,
  steps B s l s1 l1 -> steps B s l s2 l2 -> step B true true s1 l1 = None -> step B true true s2 l2 = None ->
  s1 = s2 /\ l1 = l2.
Proof. exact steps_det. Qed.

(* (2)+(3) the protocol and chain invariants hold after every schedule *)
Theorem C05_protocol_invariant_every_schedule : forall B fxc ps sched, 1 <= B ->
  Inv B (fst (exec (step B true fxc) site (init_config ps) sched)).
Proof. intros B fxc ps sched HB. apply reachable_Inv. exact HB. Qed.

Theorem C05_invariant_every_step : forall B fxc, 1 <= B -> step_preserves (step B true fxc) (Inv B).
Proof. intros B fxc HB. apply inv_step. exact HB. Qed.

(* no read-before-written: a published bit implies a written slot *)
Theorem C05_published_slot_is_written : forall B fxc ps c b i, 1 <= B -> reach B fxc ps c ->
  b < length (heap (fst c)) -> nth i (bdone (getb (heap (fst c)) b)) false = true ->
  exists x, nth i (bslot (getb (heap (fst c)) b)) None = Some x.
Proof. intros B fxc ps c b i HB R. pose proof (reach_Inv B HB fxc ps c R) as HI. eapply published_written; eauto. Qed.

(* claims are unique per (block, index) *)
Theorem C05_claims_unique : forall B fxc ps c t u l l' b i, 1 <= B -> reach B fxc ps c ->
  nth_error (snd c) t = Some l -> nth_error (snd c) u = Some l' -> t <> u ->
  inflight b i l = 1 -> inflight b i l' = 1 -> False.
Proof. intros B fxc ps c t u l l' b i HB R. pose proof (reach_Inv B HB fxc ps c R) as HI. eapply claims_unique; eauto. Qed.

(* the write index counts the claims: below it a slot is published or has exactly one thread in
   flight; at or above it the slot is untouched *)
Theorem C05_write_index_counts_claims : forall B fxc ps c b i, 1 <= B -> reach B fxc ps c ->
  b < length (heap (fst c)) -> i < B -> claim_ok (heap (fst c)) (snd c) b i.
Proof. intros B fxc ps c b i HB R. pose proof (reach_Inv B HB fxc ps c R) as (_ & HC & _). apply HC. Qed.

(* the publishing thread finds its own value in its slot *)
Theorem C05_writer_publishes_own_value : forall B fxc ps c t l x b i, 1 <= B -> reach B fxc ps c ->
  nth_error (snd c) t = Some l -> pcl l = P4 x b i ->
  nth i (bslot (getb (heap (fst c)) b)) None = Some x /\ nth i (bdone (getb (heap (fst c)) b)) false = false /\
  i < bw (getb (heap (fst c)) b) /\ i < B.
Proof. intros B fxc ps c t l x b i HB R. pose proof (reach_Inv B HB fxc ps c R) as HI. eapply writer_finds_own_value; eauto. Qed.

(* what the read at site 506 hands to the callback are written slots below the published length *)
Theorem C05_delivery_reads_written_slots : forall B fxc ps c b v, 1 <= B -> reach B fxc ps c ->
  b < length (heap (fst c)) ->
  In v (data_of (getb (heap (fst c)) b) (tones (bdone (getb (heap (fst c)) b)))) ->
  exists j, j < tones (bdone (getb (heap (fst c)) b)) /\ nth j (bslot (getb (heap (fst c)) b)) None = Some v.
Proof. intros B fxc ps c b v HB R. pose proof (reach_Inv B HB fxc ps c R) as HI. eapply delivery_reads_written_slots; eauto. Qed.

(* the chain from tail is finite, strictly decreasing (acyclic) and every block behind another
   block is full *)
Theorem C05_chain_acyclic_nonhead_full : forall B fxc ps c, 1 <= B -> reach B fxc ps c ->
  exists ids, Chain (heap (fst c)) (tail (fst c)) ids /\
              (forall b d, In b ids -> bnxt (getb (heap (fst c)) b) = Some d -> B <= bw (getb (heap (fst c)) d)).
Proof. intros B fxc ps c HB R. pose proof (reach_Inv B HB fxc ps c R) as HI. eapply chain_exists; eauto. Qed.

(* (4a) UNIQUENESS OF DELIVERY, every schedule, with or without late claims: the invariant [All]
   = protocol invariant + (Q1) push identities are (thread, call index) + (Q2/Q3) an identity
   occurs in at most one slot of the heap + (Q4 = J4) the chains hanging off tail and off every
   clearing thread are pairwise disjoint + (Q5) every identity handed to a clear sits in a retired
   block and is counted at most once over ALL clearing reads of ALL threads *)
Theorem C05_uniqueness_invariant_every_schedule : forall B fxc ps sched, 1 <= B ->
  All B (fst (exec (step B true fxc) site (init_config ps) sched)).
Proof. intros B fxc ps sched HB. apply reachable_All. exact HB. Qed.

Theorem C05_no_identity_cleared_twice : forall B fxc ps c id, 1 <= B -> reach B fxc ps c ->
  sumf (cnt id) (snd c) <= 1.
Proof.
  intros B fxc ps c id HB (sched & ->). pose proof (reachable_All B HB fxc ps sched) as (_ & _ & _ & _ & _ & [H _]). apply H.
Qed.

Theorem C05_clears_of_one_thread_have_no_duplicates : forall B fxc ps c u l, 1 <= B -> reach B fxc ps c ->
  nth_error (snd c) u = Some l -> NoDup (map vid (cleared_local l)).
Proof. intros B fxc ps c u l HB (sched & ->) Hl. eapply cleared_nodup_thread; eauto. apply reachable_All. exact HB. Qed.

Theorem C05_clears_of_two_threads_are_disjoint : forall B fxc ps c u v l l' x x', 1 <= B -> reach B fxc ps c ->
  u <> v -> nth_error (snd c) u = Some l -> nth_error (snd c) v = Some l' ->
  In x (cleared_local l) -> In x' (cleared_local l') -> vid x = vid x' -> False.
Proof.
  intros B fxc ps c u v l l' x x' HB (sched & ->). pose proof (reachable_All B HB fxc ps sched) as HA.
  intros. eapply cleared_disjoint_threads; eauto.
Qed.

(* J4: a detached chain is owned by exactly the clearer whose CAS succeeded *)
Theorem C05_detached_chains_have_one_owner : forall B fxc ps c, 1 <= B -> reach B fxc ps c -> Q4 c.
Proof. intros B fxc ps c HB (sched & ->). pose proof (reachable_All B HB fxc ps sched) as (_ & _ & _ & _ & H & _). exact H. Qed.

(* an identity occurs in at most one slot of the whole heap *)
Theorem C05_identity_in_one_slot : forall B fxc ps c, 1 <= B -> reach B fxc ps c -> Q3 c.
Proof. intros B fxc ps c HB (sched & ->). pose proof (reachable_All B HB fxc ps sched) as (_ & _ & _ & H & _). exact H. Qed.

(* no fabrication: whatever sits in a slot is the value a push call of the program was given,
   tagged (thread, index of that call); and so is whatever was handed to a clear *)
Theorem C05_no_fabrication : forall B fxc ps sched, 1 <= B ->
  let c := fst (exec (step B true fxc) site (init_config ps) sched) in
  (forall b i x, slot (heap (fst c)) b i = Some x -> genuine ps x) /\
  (forall x, cleared_in (snd c) x -> genuine ps x).
Proof.
  intros B fxc ps sched HB c. pose proof (reachable_R B HB fxc ps sched) as (_ & R2 & _). fold c in R2.
  split; [exact R2|]. intros x (u & l & Hl & Hx).
  pose proof (reachable_All B HB fxc ps sched) as (_ & _ & _ & _ & _ & [_ H5b]). fold c in H5b.
  destruct (H5b u l x Hl Hx) as (b & i & Hs & _). eauto.
Qed.

(* (4) CONSERVATION, every schedule without a late claim, any number of threads, every B >= 1.
   For every COMPLETED push call (thread u, call index k below u's current call index, the
   program says push v):  its identity sits in a published slot of exactly one block b;  b is
   either still owned (reachable from tail = resident in the live chain, or reachable from the
   clearing thread that detached it and has not read it yet) or the value has been handed to a
   clear;  never both;  and it is handed out at most once over all clearing reads of all threads. *)
Theorem C05_conservation_except_late_claim : forall B fxc ps sched u l p k v, 1 <= B ->
  let c := fst (exec (step B true fxc) site (init_config ps) sched) in
  late (fst c) = false ->
  nth_error (snd c) u = Some l -> nth_error ps u = Some p ->
  k < N.to_nat (cidx l) -> nth_error p k = Some (CPush v) ->
  exists b i, slot (heap (fst c)) b i = Some (N.of_nat u, N.of_nat k, v) /\ pub (heap (fst c)) b i /\
              (forall b' i' x', slot (heap (fst c)) b' i' = Some x' -> vid x' = (N.of_nat u, N.of_nat k) -> b' = b /\ i' = i) /\
              (~ Owned c b -> cleared_in (snd c) (N.of_nat u, N.of_nat k, v)) /\
              (cleared_in (snd c) (N.of_nat u, N.of_nat k, v) -> ~ Owned c b) /\
              sumf (cnt (N.of_nat u, N.of_nat k)) (snd c) <= 1.
Proof.
  intros B fxc ps sched u l p k v HB c HL Hl Hp Hk Hn.
  pose proof (reachable_R B HB fxc ps sched) as (_ & _ & R3). fold c in R3.
  pose proof (reachable_AllK B HB fxc ps sched) as HK. fold c in HK.
  destruct (conservation B c HK HL) as (C1 & C2 & C3 & _).
  pose proof HK as [(_ & _ & _ & H3 & _) _].
  destruct (R3 u l p k v Hl Hp Hk Hn) as (b & i & Hs & Hpb).
  exists b, i. split; [exact Hs|split; [exact Hpb|split; [|split; [|split]]]].
  - intros b' i' x' Hs' E. apply (H3 b' i' b i x' _ Hs' Hs). exact E.
  - intros Hno. eapply C1; eauto.
  - intros Hc. destruct (C2 _ Hc) as (b' & i' & Hs' & Hno & Hu).
    destruct (Hu b i _ Hs eq_refl) as [-> _]. exact Hno.
  - apply C3.
Qed.

(* the same partition stated on the heap: published value outside the owned region <-> handed
   to a clear (once); retired blocks are complete (nothing in flight, nothing more to come) *)
Theorem C05_published_partition : forall B fxc ps sched, 1 <= B ->
  let c := fst (exec (step B true fxc) site (init_config ps) sched) in
  late (fst c) = false ->
  (forall b i x, slot (heap (fst c)) b i = Some x -> pub (heap (fst c)) b i -> ~ Owned c b -> cleared_in (snd c) x) /\
  (forall x, cleared_in (snd c) x ->
             exists b i, slot (heap (fst c)) b i = Some x /\ ~ Owned c b /\
                         forall b' i' x', slot (heap (fst c)) b' i' = Some x' -> vid x' = vid x -> b' = b /\ i' = i) /\
  (forall id, sumf (cnt id) (snd c) <= 1) /\
  (forall d, d < length (heap (fst c)) -> ~ Owned c d -> complete B (heap (fst c)) d).
Proof. intros B fxc ps sched HB c HL. apply conservation; [apply reachable_AllK; exact HB|exact HL]. Qed.

(* the runs the check evaluates (schedule + round-robin tail, B = 64): outside the known class
   the conservation invariant holds at the end of the run *)
Theorem C05_conservation_on_model_runs : forall c, known_class c = None ->
  let cf := fst (run_gen BS true true c) in
  late (fst cf) = false /\ AllK BS cf /\ R (progs_of c) cf.
Proof.
  intros c Hk cf. assert (HB : 1 <= BS) by (unfold BS; lia).
  split; [|split].
  - unfold known_class, late_claim_gen in Hk. fold cf in Hk. destruct (late (fst cf)); [discriminate|reflexivity].
  - unfold cf, run_gen. apply invariant_exec_full; [exact (AllK_step BS HB true)|exact (AllK_init BS HB true (progs_of c))].
  - unfold cf, run_gen.
    apply (invariant_exec_full (step BS true true) site (fun c0 => All BS c0 /\ R (progs_of c) c0)
             (R_step BS HB true (progs_of c)) rr_fuel (map N.to_nat (snd c)) (init_config (progs_of c))).
    split; [exact (All_init BS HB true (progs_of c))|exact (R_init BS HB (progs_of c))].
Qed.

(* (5) SNAPSHOTS, every schedule (concurrent clears, hand-overs, late claims all allowed).
   Let c be any reachable configuration in which thread t has just executed the first step (530)
   of a data_with call: pc W1 false b0 [] - it holds the tail pointer b0 it loaded
   (snapshot_first_step: the step from W0 false with tail = Some b0 leads there and changes
   nothing).  Every value that is published at that moment in a block reachable from b0 (= every
   identity whose push completed before the snapshot's first step and was resident in the live
   chain) is, in every later configuration, either already handed to the callback / still ahead
   in the part of the chain the thread has not read, or - once the call has returned - in the
   slices the call was handed.  A clear that detaches the chain in between takes nothing away
   from the snapshot. Before fix f69617a this is false: C05_handover_refuted_before_fix. *)
Theorem C05_snapshot_sees_completed : forall B fxc ps sched0 sched t l b0, 1 <= B ->
  let c := fst (exec (step B true fxc) site (init_config ps) sched0) in
  nth_error (snd c) t = Some l -> pcl l = W1 false b0 [] ->
  let c' := fst (exec (step B true fxc) site c sched) in
  forall l', nth_error (snd c') t = Some l' ->
  (results l' = results l /\
   exists acc o, walk_pos (heap (fst c')) l' = Some (acc, o) /\
     forall d i x, Reach (heap (fst c)) (Some b0) d -> slot (heap (fst c)) d i = Some x -> pub (heap (fst c)) d i ->
                   In x (concat acc) \/ Reach (heap (fst c')) o d) \/
  (exists rs1 sl, results l' = rs1 ++ RData sl :: results l /\
     forall d i x, Reach (heap (fst c)) (Some b0) d -> slot (heap (fst c)) d i = Some x -> pub (heap (fst c)) d i ->
                   In x (concat sl)).
Proof.
  intros B fxc ps sched0 sched t l b0 HB c Hl Hpc c' l' Hl'.
  apply (snapshot_sees_completed B HB fxc c t l b0 sched (reachable_All B HB fxc ps sched0) Hl Hpc l' Hl').
Qed.

Theorem C05_snapshot_first_step : forall B fxc s l b0,
  pcl l = W0 false -> tail s = Some b0 -> step B true fxc s l = Some (s, goto l (W1 false b0 [])).
Proof. intros. apply snapshot_first_step; auto. Qed.

(* (6) is_empty (code after fixes 1a8142c and 0248974), every schedule, ANY number of threads.  c: thread t
   has just executed its 520 step on a non-empty bucket (pc E1 b0).  If that call later returns TRUE
   then nothing that was published at c sits in any block reachable from b0 (every push that
   completed before the call began and was resident in the live chain would have been seen); if it
   returns FALSE, some slot is published.  Before fix 0248974 this needed "at most B threads"
   (C05_is_empty_beyond_B_threads_refuted_before_fix). *)
Theorem C05_is_empty_sound : forall B ps sched0 sched t l b0, 1 <= B ->
  let c := fst (exec (step B true true) site (init_config ps) sched0) in
  nth_error (snd c) t = Some l -> pcl l = E1 b0 ->
  let h := heap (fst c) in
  let c' := fst (exec (step B true true) site c sched) in
  forall l' rs1 r, nth_error (snd c') t = Some l' -> results l' = rs1 ++ REmpty r :: results l ->
  (r = true -> forall d i, Reach h (Some b0) d -> ~ pub h d i) /\
  (r = false -> exists d i, pub (heap (fst c')) d i).
Proof.
  intros B ps sched0 sched t l b0 HB c Hl Hpc h c' l' rs1 r Hl' Er.
  apply (is_empty_sound B HB c t l b0 sched (reachable_All B HB true ps sched0) Hl Hpc l' rs1 r Hl' Er).
Qed.

(* (7) order inside a block: the slice handed out at 506 is slot 0 .. slot (len-1), and slot
   order is claim order (a fetch_add returns the write index and bumps it; the write index never
   decreases; every index claimed so far is below it) *)
Theorem C05_block_order : forall B fxc ps sched0, 1 <= B ->
  let c := fst (exec (step B true fxc) site (init_config ps) sched0) in
  forall b, b < length (heap (fst c)) ->
  (let k := getb (heap (fst c)) b in
   let data := data_of k (tones (bdone k)) in
   length data = tones (bdone k) /\
   forall j, j < tones (bdone k) -> exists x, slot (heap (fst c)) b j = Some x /\ nth j data garbage = x) /\
  (forall i, i < B ->
     (pub (heap (fst c)) b i \/ exists t l, nth_error (snd c) t = Some l /\ inflight b i l = 1) ->
     i < bw (getb (heap (fst c)) b)) /\
  (forall sched, let c' := fst (exec (step B true fxc) site c sched) in
     b < length (heap (fst c')) /\ bw (getb (heap (fst c)) b) <= bw (getb (heap (fst c')) b)) /\
  (forall l x sec, pcl l = P2 x b sec -> bw (getb (heap (fst c)) b) < B ->
     exists s', step B true fxc (fst c) l = Some (s', goto l (P3 x b (bw (getb (heap (fst c)) b)))) /\
                bw (getb (heap s') b) = S (bw (getb (heap (fst c)) b))).
Proof.
  intros B fxc ps sched0 HB c b Hb. pose proof (reachable_Inv B HB fxc ps sched0) as HI. fold c in HI.
  destruct c as [s ls] eqn:Ec. cbn [fst snd] in *.
  split; [apply (slice_in_slot_order B HB s ls b HI Hb)|].
  split; [intros i Hi H; apply (claimed_below_write_index B HB s ls b i HI Hb Hi H)|].
  split; [intros sched; apply (write_index_monotone B HB fxc (s, ls) b sched HI Hb)|].
  intros l x sec E Hlt. exact (claim_returns_write_index B fxc s l x b sec E Hlt Hb).
Qed.

(* (8) the executable checker.  Soundness: what spec_ok = true on an OBSERVED run (implementation
   or model) means at the Prop level, for the clauses that do not involve trace positions: no
   anomaly; results shaped like the programs; no identity handed to clearing reads twice; no
   duplicate in the final read; and, when everybody finished, the identities of all push calls
   of the programs are exactly those handed to clears plus those of the final read (no
   duplicates, same number, every push present). *)
Theorem C05_spec_ok_sound : forall (c : case) tr rss done final anom,
  spec_ok c (tr, rss, done, final, anom) = true ->
  anom = 0%N /\ all2 follows (progs_of c) rss = true /\
  NoDup (map vid (cleared_out rss)) /\ NoDup (map vid (concat final)) /\
  (done = true ->
     NoDup (map vid (cleared_out rss ++ concat final)) /\
     (forall x, In x (all_pushes (progs_of c) 0) -> In (vid x) (map vid (cleared_out rss ++ concat final))) /\
     length (cleared_out rss ++ concat final) = length (all_pushes (progs_of c) 0)).
Proof. intros c tr rss done final anom H. apply (spec_ok_sound (progs_of c) tr rss done final anom H). Qed.

(* the part of "the model satisfies the checker" that the invariants give: clause S1 (no identity
   handed to clears twice) is true on the model's run of EVERY case, in or out of the known class *)
Theorem C05_spec_no_double_clear_on_model : forall c : case,
  let '(tr, rss, _, _, _) := run_case c in
  nodupb (flat_map handed (filter is_clear (rcalls tr 0 rss))) = true.
Proof. exact no_double_clear_on_model. Qed.

(* (9) the checker on the model: clauses of Spec.spec_run proved of the model's own run of EVERY case
   (every schedule, round-robin tail included; no known-class hypothesis needed for these).
   The full statement, C05_spec_ok_on_model : forall c, known_class c = None -> spec_ok c (run_case c) = true,
   is proved in section (13).  In this section: S0 (no anomaly; results shaped like the programs), S1
   for the threads (no identity handed to clears twice; no single read handed an identity twice), S2
   for the slices handed to the threads' callbacks (each has its 506 position; every value is in the
   push table with a slot-write position strictly earlier: written-before-read and no fabrication on
   trace positions).  The final read and S4 are in section (10), S5 in (11), S3 in (12)-(13). *)
Theorem C05_spec_shape_on_model : forall c : case,
  let '(_, rss, _, _, _) := run_case c in all2 follows (progs_of c) rss = true.
Proof. exact spec_shape_on_model. Qed.

Theorem C05_spec_written_before_read_on_model : forall c : case,
  let '(tr, rss, _, _, _) := run_case c in
  forallb (fun rc => forallb (fun qs => slice_genuine (pinfos tr 0 (progs_of c)) (fst qs) (snd qs) &&
                                         match fst qs with Some _ => true | None => false end) (rsl rc))
          (rcalls tr 0 rss) = true.
Proof. exact spec_written_before_read_on_model. Qed.

Theorem C05_spec_reads_no_dup_on_model : forall c : case,
  let '(tr, rss, _, _, _) := run_case c in
  forallb (fun rc => nodupb (handed rc)) (rcalls tr 0 rss) = true.
Proof. exact spec_reads_no_dup_on_model. Qed.

(* (10) second stage of the checker on the model.
   CORRECTED ORACLE DEFECT: Exec.final_data used to give the final reader a constant 400 rounds of
   fuel, so on a case whose live chain has more than ~133 blocks (8700 pushes) the model's final
   read gave up, final = [] and clause S5 failed with done = true and known_class = None.  The
   fuel is now Exec.final_fuel (4 * blocks allocated + 8), proved sufficient
   (C05_final_read_finishes); C05_oversized_final_read_regression is the old witness.
   Proved in this stage, on every case: the clauses about the FINAL read that do not depend on it
   having finished (no duplicate, every value in the push table with a slot-write position) and
   clause S4 (claim positions strictly increase along every slice: thread slices and final read).
   S3 (snapshot / is_empty completeness on trace positions, under done) is
   C05_spec_completeness_on_model in section (13); S5 is C05_spec_conservation_on_model in (11). *)
Theorem C05_oversized_final_read_regression :
  known_class oversized_case = None /\
  (let '(_, rss, done, final, _) := run_case oversized_case in
   done = true /\ length final = N.to_nat 136 /\
   length (cleared_out rss ++ concat final) = N.to_nat 8700 /\ length (all_pushes (progs_of oversized_case) 0) = N.to_nat 8700).
Proof. exact oversized_case_facts. Qed.

Theorem C05_spec_final_read_on_model : forall c : case,
  let '(tr, _, _, final, _) := run_case c in
  nodupb (concat final) = true /\ forallb (slice_genuine (pinfos tr 0 (progs_of c)) None) final = true.
Proof. exact spec_final_read_on_model. Qed.

Theorem C05_spec_claim_order_on_model : forall c : case,
  let '(tr, rss, _, final, _) := run_case c in
  forallb (fun rc => forallb (fun qs => slice_ordered (pinfos tr 0 (progs_of c)) (snd qs)) (rsl rc)) (rcalls tr 0 rss) = true /\
  forallb (slice_ordered (pinfos tr 0 (progs_of c))) final = true.
Proof. exact spec_claim_order_on_model. Qed.

(* everything of spec_run except S3 and S5, on the model's run of every case *)
Theorem C05_spec_clauses_on_model_every_case : forall c : case,
  let '(tr, rss, done, final, anom) := run_case c in
  let tbl := pinfos tr 0 (progs_of c) in
  let rc := rcalls tr 0 rss in
  (anom =? 0)%N && all2 follows (progs_of c) rss
  && nodupb (flat_map handed (filter is_clear rc)) && forallb (fun c0 => nodupb (handed c0)) rc && nodupb (concat final)
  && forallb (fun c0 => forallb (fun qs => slice_genuine tbl (fst qs) (snd qs) &&
                                          match fst qs with Some _ => true | None => false end) (rsl c0)) rc
  && forallb (slice_genuine tbl None) final
  && forallb (fun c0 => forallb (fun qs => slice_ordered tbl (snd qs)) (rsl c0)) rc
  && forallb (slice_ordered tbl) final = true.
Proof.
  intros c. pose proof (spec_shape_on_model c) as H1. pose proof (no_double_clear_on_model c) as H2.
  pose proof (spec_reads_no_dup_on_model c) as H3. pose proof (spec_written_before_read_on_model c) as H4.
  pose proof (spec_final_read_on_model c) as H5. pose proof (spec_claim_order_on_model c) as H6.
  unfold run_case, out_gen in *. destruct (run_gen BS true true c) as [cf tr]. cbv zeta.
  destruct H5 as [H5a H5b]. destruct H6 as [H6a H6b].
  rewrite H1, H2, H3, H4, H5a, H5b, H6a, H6b. reflexivity.
Qed.

(* (11) third stage.  The final read finishes: whenever every thread of a reachable configuration is
   Done, the fresh reader of Exec.final_data, run with the state-derived fuel Exec.final_fuel, reaches
   Done; every published slot of a block reachable from tail is in what it returns, and it returns
   nothing else. *)
Theorem C05_final_read_finishes : forall B fxc s ls, 1 <= B -> All B (s, ls) ->
  (forall u l, nth_error ls u = Some l -> pcl l = Done) ->
  let f := final_data B true fxc s in
  (forall d i x, Reach (heap s) (tail s) d -> slot (heap s) d i = Some x -> pub (heap s) d i -> In x (concat f)) /\
  (forall x, In x (concat f) -> exists d i, slot (heap s) d i = Some x /\ Reach (heap s) (tail s) d).
Proof. intros B fxc s ls HB HA Hd. exact (final_read_finishes B HB fxc s ls HA Hd). Qed.

(* clause S5 of the checker on the model: outside the late-claim class, when the run is done, the
   push identities of the programs are exactly those handed to clears plus those of the final read *)
Theorem C05_spec_conservation_on_model : forall c : case, known_class c = None ->
  let '(tr, rss, done, final, _) := run_case c in
  done = true ->
  let rhs := flat_map handed (filter is_clear (rcalls tr 0 rss)) ++ concat final in
  nodupb rhs && forallb (fun i => memb (px i) rhs) (pinfos tr 0 (progs_of c))
  && Nat.eqb (length rhs) (length (pinfos tr 0 (progs_of c))) = true.
Proof. exact spec_conservation_on_model. Qed.

(* (12) fourth stage: clause S3.
   Defect C05-is-empty-lookback-one-block (fixed by 0248974): with more than B = 64 concurrent pushers
   the is_empty of the code before the fix - head block and ONE successor - returned true over 64
   completed resident pushes (67-thread witness, reproduced on the real code); the chain-walking
   is_empty returns false on the same schedule and the whole checker accepts the run.
   S3 itself (C05_spec_completeness_on_model) and the conjunction are proved in section (13); here:
   the publication column of the push table is tied to the configuration
   (C05_spec_pub_positions_on_model). *)
Theorem C05_is_empty_beyond_B_threads_refuted_before_fix :
  length (fst many_case) = 67 /\ known_class many_case = None /\
  (let cf := fst (exec_full (step_lookback1 BS) site rr_fuel (init_config (progs_of many_case)) (map N.to_nat (snd many_case))) in
   option_map results (nth_error (snd cf) 66) = Some [REmpty true] /\
   length (concat (final_data BS true true (fst cf))) = 129) /\
  (let '(_, rss, done, final, _) := run_case many_case in
   nth 66 rss [] = [REmpty false] /\ done = true /\ length (concat final) = 129) /\
  spec_ok many_case (run_case many_case) = true.
Proof. exact is_empty_beyond_B_threads_refuted_before_fix. Qed.

(* a racing scheduled case inside the hypotheses: 65 pushes crossing the block boundary, is_empty in
   the hand-over window, a snapshot overlapping the 65th push, a clear at the end *)
Theorem C05_race_example_run_ok :
  length (fst race_case) <= 64 /\ known_class race_case = None /\ spec_ok race_case (run_case race_case) = true.
Proof. exact race_example. Qed.

Theorem C05_spec_pub_positions_on_model : forall c : case,
  let '(tr, _, _, _, _) := run_case c in
  let cf := fst (run_gen BS true true c) in
  forall i w, In i (pinfos tr 0 (progs_of c)) -> ppub i = Some w ->
    w < length tr /\ genuine (progs_of c) (px i) /\
    exists b j, slot (heap (fst cf)) b j = Some (px i) /\ pub (heap (fst cf)) b j.
Proof. exact spec_pub_positions_on_model. Qed.

(* (13) final stage.  S3 for data_with calls, for every case whose programs contain no clear_with: every
   push-table entry whose 503 position lies below the call's 530 position is in the slices the call was
   handed (the snapshot invariant of C05_snapshot_sees_completed run along the trace with the
   obligation set "genuine push, 503 position below the call's start"; without clears every block
   stays reachable from tail, so the `clears` disjunct of Spec.accounts is not needed).  No `done`
   hypothesis: only completed calls appear in the results.
   What is still not proved of S3 is listed under the next theorem. *)
Theorem C05_spec_snapshot_completeness_on_model_no_clear : forall c : case,
  (forall p, In p (progs_of c) -> ~ In CClear p) ->
  let '(tr, rss, _, _, _) := run_case c in
  let tbl := pinfos tr 0 (progs_of c) in
  let rc := rcalls tr 0 rss in
  forallb (fun r => if (rkind r =? 0)%N then accounts tbl (filter is_clear rc) (rstart r) (handed r) else true) rc = true.
Proof. exact spec_snapshot_completeness_no_clear. Qed.

(* Clause S3 of the checker for is_empty calls that return TRUE, on the model, for every case whose
   programs contain no clear_with: for every such call, no genuine push whose publication (its 503
   position) lies before the call's first step (its 520 position) exists at all -- `accounts` with
   nothing handed out.  Proof: the 520 positions of a thread are put in the trace ledger next to its
   REmpty results; the thread-bound-free invariant of C05_is_empty_sound (chain walk with look-back)
   is run along the trace with the obligation set "genuine push, 503 position below the call's
   start"; a call that finishes with `true` has discharged every obligation, so the set was empty.
   Without clears every block stays reachable from tail, so the `clears` disjunct of Spec.accounts
   is not needed.
   What is still not proved of S3 is listed under C05_spec_is_empty_completeness_on_model_no_clear. *)
Theorem C05_spec_is_empty_true_completeness_on_model_no_clear : forall c : case,
  (forall p, In p (progs_of c) -> ~ In CClear p) ->
  let '(tr, rss, _, _, _) := run_case c in
  let tbl := pinfos tr 0 (progs_of c) in
  let rc := rcalls tr 0 rss in
  forallb (fun r => if (rkind r =? 2)%N then accounts tbl (filter is_clear rc) (rstart r) (handed r) else true) rc = true.
Proof. exact spec_is_empty_true_completeness_no_clear. Qed.

(* Clause S3 of the checker for is_empty calls that return FALSE (rkind 3), on the model, for EVERY
   case (clears or not, late-claim class or not, done or not): some push-table entry has its 503
   position strictly below the call's last read (Spec.empty_end: the last of the thread's steps at
   521 / 507 / 508 that follow the call's 520 step).  Proof: run along the trace with the conditional
   no-op rule of Common/InterleaveTraceCond (a no-op entry is only emitted for a thread whose step is
   None, and step is never None at E1/E2/E3), next to a ledger of the 520 positions: while a thread
   is inside an is_empty call all its trace entries after the 520 step are at 521/507/508, so at the
   finishing step empty_end equals that step's index (ProofsTrace11.Run_end; empty_end is monotone
   under trace extension, empty_end_mono); a `false` answer has read a block with a set bit
   (emp_false); a set bit is a written slot of a genuine push that is past its 503 step (heap_ok,
   Q2, claim_ok), so its thread has a 503 position in the trace so far (set_bit_pub, via the
   publication ledger RP), and the thread's first push carries the first such position in the push
   table (pinfos_first, the converse of pinfos_ppub). *)
Theorem C05_spec_is_empty_false_needs_publication_on_model : forall c : case,
  let '(tr, rss, _, _, _) := run_case c in
  let tbl := pinfos tr 0 (progs_of c) in
  let rc := rcalls tr 0 rss in
  forallb (fun r => if (rkind r =? 3)%N then existsb (fun i => olt (ppub i) (rend r)) tbl else true) rc = true.
Proof. exact spec_is_empty_false_needs_publication. Qed.

(* Both is_empty halves of S3 on the model for every case whose programs contain no clear_with.
   (Cases WITH clears: C05_spec_completeness_on_model below.) *)
Theorem C05_spec_is_empty_completeness_on_model_no_clear : forall c : case,
  (forall p, In p (progs_of c) -> ~ In CClear p) ->
  let '(tr, rss, _, _, _) := run_case c in
  let tbl := pinfos tr 0 (progs_of c) in
  let rc := rcalls tr 0 rss in
  forallb (fun r => if (rkind r =? 2)%N then accounts tbl (filter is_clear rc) (rstart r) (handed r)
                    else if (rkind r =? 3)%N then existsb (fun i => olt (ppub i) (rend r)) tbl else true) rc = true.
Proof. exact spec_is_empty_completeness_no_clear. Qed.

(* A case whose programs contain no clear_with is never in the late-claim class: every block stays
   reachable from tail (NCI), so no fetch_add lands on a detached block and the ghost flag `late`
   stays false along every schedule. *)
Theorem C05_no_clear_not_late_claim : forall c : case,
  (forall p, In p (progs_of c) -> ~ In CClear p) -> known_class c = None.
Proof. exact no_clear_not_late. Qed.

(* THE CONJUNCTION for programs without clear_with: the trace-level checker spec_ok accepts the
   model's run of EVERY case whose programs contain no clear_with (such a case is never in the
   late-claim class, C05_no_clear_not_late_claim): S0, S1, S2, S4 (C05_spec_clauses_on_model_every_case),
   S3 for data_with (C05_spec_snapshot_completeness_on_model_no_clear) and for is_empty
   (C05_spec_is_empty_completeness_on_model_no_clear), S5 (C05_spec_conservation_on_model).
   (Special case of C05_spec_ok_on_model below, without the class hypothesis.) *)
Theorem C05_spec_ok_on_model_no_clear : forall c : case,
  (forall p, In p (progs_of c) -> ~ In CClear p) ->
  spec_ok c (run_case c) = true.
Proof.
  intros c Hnc. pose proof (C05_no_clear_not_late_claim c Hnc) as Hk.
  pose proof (C05_spec_clauses_on_model_every_case c) as P. pose proof (C05_spec_conservation_on_model c Hk) as S5.
  pose proof (C05_spec_snapshot_completeness_on_model_no_clear c Hnc) as S30.
  pose proof (C05_spec_is_empty_completeness_on_model_no_clear c Hnc) as S3e.
  unfold spec_ok. destruct (run_case c) as [[[[tr rss] done] final] anom]. cbv zeta in *. unfold spec_run. cbv zeta.
  rewrite P. cbn [andb]. destruct done; [|reflexivity]. rewrite (S5 eq_refl), andb_true_r.
  apply forallb_forall. intros r Hr.
  pose proof (proj1 (forallb_forall _ _) S30 r Hr) as H0. pose proof (proj1 (forallb_forall _ _) S3e r Hr) as H2. cbv beta in H0, H2.
  destruct (rkind r =? 0)%N; [exact H0|]. cbn [orb]. exact H2.
Qed.

(* Clause S3 of the checker on the model, EVERY case outside the late-claim class, when the run is
   done: every data_with call and every is_empty = true call accounts for every push whose 503
   position lies below the call's start - the identity is in the slices handed to the call, or in
   the `handed` of a clear call whose `rcas` lies below the start; every is_empty = false call has a
   publication below its last read.
   Proof (ProofsTrace13-15): the DETACH LEDGER on the trace - a thread inside a clearing walk has its
   detaching CAS as the last of its 541 positions and all 506 positions of the call above it; a
   completed clear call that handed out something has a first 506 position q1 and
   `last_below p541 q1` (= Spec's rcas) is its CAS position (RG_step).  `Att tr c x p`: x is attributed to
   a clear whose CAS position is below p - pending in a published slot on the clearer's chain, in its
   accumulator, or in a completed call; Att is stable under every step outside the class (Att_step:
   at the delivering read 506 the block is complete, K of C05_conservation_except_late_claim, so the
   pending slot is in the slice) and covers every published slot of a block not reachable from tail
   (detached: such a block is owned by a clearer or, by K, already delivered).  The snapshot and
   is_empty invariants of C05_snapshot_sees_completed / C05_is_empty_sound are run along the trace
   with the obligation set "genuine, 503 position below the start, not attributed below the start":
   at the start every obligation is reachable from tail (unattributed_reach).  On the finished run an
   attribution is a clear rcall with that rcas and the identity in its handed (Att_end). *)
Theorem C05_spec_completeness_on_model : forall c : case, known_class c = None ->
  let '(tr, rss, done, _, _) := run_case c in
  done = true ->
  let tbl := pinfos tr 0 (progs_of c) in
  let rc := rcalls tr 0 rss in
  forallb (fun r => if ((rkind r =? 0) || (rkind r =? 2))%N then accounts tbl (filter is_clear rc) (rstart r) (handed r)
                    else if (rkind r =? 3)%N then existsb (fun i => olt (ppub i) (rend r)) tbl else true) rc = true.
Proof.
  intros c Hk. pose proof (spec_snapshot_completeness c Hk) as S0. pose proof (spec_is_empty_true_completeness c Hk) as S2.
  pose proof (C05_spec_is_empty_false_needs_publication_on_model c) as S3.
  destruct (run_case c) as [[[[tr rss] done] final] anom]. intros Hd. specialize (S0 Hd). specialize (S2 Hd). cbv zeta in *.
  apply forallb_forall. intros r Hr.
  pose proof (proj1 (forallb_forall _ _) S0 r Hr) as H0. pose proof (proj1 (forallb_forall _ _) S2 r Hr) as H2.
  pose proof (proj1 (forallb_forall _ _) S3 r Hr) as H3. cbv beta in H0, H2, H3.
  destruct (rkind r =? 0)%N; [exact H0|]. cbn [orb]. destruct (rkind r =? 2)%N; [exact H2|exact H3].
Qed.

(* THE CONJUNCTION: the trace-level checker spec_ok (S0-S5) accepts the model's run of every case
   outside the late-claim class.  With C05_spec_ok_sound (what acceptance means) and the
   correspondence check (the real code's outputs equal the model's on every replayed schedule) this
   ties the executable property judged on the implementation to the invariants proved on the model. *)
Theorem C05_spec_ok_on_model : forall c : case, known_class c = None -> spec_ok c (run_case c) = true.
Proof.
  intros c Hk. pose proof (C05_spec_clauses_on_model_every_case c) as P. pose proof (C05_spec_conservation_on_model c Hk) as S5.
  pose proof (C05_spec_completeness_on_model c Hk) as S3.
  unfold spec_ok. destruct (run_case c) as [[[[tr rss] done] final] anom]. cbv zeta in *. unfold spec_run. cbv zeta.
  rewrite P. cbn [andb]. destruct done; [|reflexivity]. rewrite (S5 eq_refl), (S3 eq_refl). reflexivity.
Qed.

(* Block::len must be trailing_ones, not count_ones: in a reachable configuration where a snapshot
   stands at 506 after a passed quiescence test, a popcount length hands out an unwritten slot,
   the trailing-ones length does not (cf. C05_delivery_reads_written_slots, which covers the window
   between the quiescence test and the read for every schedule) *)
Theorem C05_popcount_len_refuted :
  let cf := fst (exec (step BS true true) site (init_config [[CPush 1%N]; [CPush 2%N]; [CData]]) popcount_sched) in
  let k := getb (heap (fst cf)) 0 in
  option_map pcl (nth_error (snd cf) 2) = Some (WD false 0 []) /\
  count_true (bdone k) = 1 /\ tones (bdone k) = 0 /\
  data_of k (count_true (bdone k)) = [garbage] /\ data_of k (tones (bdone k)) = [].
Proof. exact popcount_len_reads_unwritten. Qed.

(* the open finding: inside the class the property fails (witness replayed on the real code:
   corpus/C05/b-late-claim-lost.json) *)
Theorem C05_late_claim_refutes : exists c, known_class c = Some 1%N /\ spec_ok c (run_case c) = false.
Proof. exact late_claim_refutes. Qed.

(* the two repaired defects: the model of the code before each fix violates the property outside
   the late-claim class, the model of the code after the fix does not (same case) *)
Theorem C05_handover_refuted_before_fix :
  late_claim_gen 2 false true handover_case = false /\ spec_gen 2 false true handover_case = false /\
  spec_gen 2 true true handover_case = true.
Proof. exact handover_refuted_before_fix. Qed.

Theorem C05_is_empty_refuted_before_fix :
  late_claim_gen BS true false hidden_case = false /\ spec_gen BS true false hidden_case = false /\
  spec_gen BS true true hidden_case = true.
Proof. exact is_empty_refuted_before_fix. Qed.

(* satisfiable on a non-trivial run: hand-over raced by a snapshot, a clear and is_empty *)
Theorem C05_example_run_ok : known_class example_case = None /\ spec_ok example_case (run_case example_case) = true.
Proof. exact example_ok. Qed.
