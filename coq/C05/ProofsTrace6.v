(* C05 — the final sequential read finishes and returns exactly the published slots of the live
   chain, whenever every thread of the run is done (nothing in flight):
   with the fuel Exec.final_fuel s = 4 * (blocks ever allocated) + 8 the fresh reader run by
   Exec.final_data reaches Done; every published slot of a block reachable from tail is in the
   slices it returns, and every value it returns sits in a slot of such a block.
   Measure: block ids strictly decrease along the chain, and on a quiescent block the reader
   needs at most 4 steps (504, 505, 506, 532), never the spin step.                              *)
From Coq Require Import List NArith Bool Arith Lia.
Import ListNotations.
Require Import MV.Common.Interleave MV.C05.Model MV.C05.Spec MV.C05.Exec.
Require Import MV.C05.ProofsSeq MV.C05.ProofsInv MV.C05.ProofsCor MV.C05.ProofsUniq MV.C05.ProofsCons MV.C05.ProofsProg
               MV.C05.ProofsSnap MV.C05.ProofsOrder MV.C05.ProofsTrace2.
Local Open Scope nat_scope.

Lemma Reach_next h o b nb : Reach h o b -> bnxt (getb h b) = Some nb -> Reach h o nb.
Proof.
  intros R E. induction R as [b|c b R IH].
  - apply r_next. rewrite E. constructor.
  - apply r_next. apply IH. exact E.
Qed.

Lemma pc_eq_Done (p : pc) : p = Done \/ p <> Done.
Proof. destruct p; try (right; discriminate). left. reflexivity. Qed.

Section FinalRun.
  Variable B : nat.
  Hypothesis HB : 1 <= B.
  Variable fxc : bool.
  Notation step := (step B true fxc).
  Variable s0 : shared.
  Variable ls0 : list local.
  Hypothesis HA : All B (s0, ls0).
  Hypothesis Hdone : forall u l, nth_error ls0 u = Some l -> pcl l = Done.
  Notation h := (heap s0).
  Notation tl := (tail s0).

  Lemma no_inflight b i : sumf (inflight b i) ls0 = 0.
  Proof.
    assert (G : forall ls, (forall u l, nth_error ls u = Some l -> pcl l = Done) -> sumf (inflight b i) ls = 0).
    { induction ls as [|y r IH]; intros H; cbn; auto. rewrite IH by (intros u l Hl; apply (H (S u) l Hl)).
      unfold inflight. rewrite (H 0 y eq_refl). reflexivity. }
    apply G. exact Hdone.
  Qed.

  Lemma quiet_pub b i : b < length h -> i < B -> i < bw (getb h b) -> pub h b i.
  Proof.
    intros Hb Hi Hw. pose proof (proj1 (proj2 (proj1 HA)) b i Hb Hi) as Hc. cbn [fst snd] in Hc. unfold claim_ok in Hc.
    replace (Nat.ltb i (bw (getb h b))) with true in Hc by (symmetry; apply Nat.ltb_lt; exact Hw).
    unfold pub. destruct (nth i (bdone (getb h b)) false); [reflexivity|]. rewrite no_inflight in Hc. discriminate.
  Qed.

  Lemma pub_below b i : b < length h -> pub h b i -> i < B /\ i < bw (getb h b).
  Proof.
    intros Hb Hp. destruct (proj1 (proj1 (proj1 HA)) b Hb) as [Ld _]. cbn [fst] in Ld.
    assert (Hi : i < B).
    { destruct (Nat.lt_ge_cases i B); auto. unfold pub in Hp. rewrite nth_overflow in Hp by lia. discriminate. }
    split; [exact Hi|]. pose proof (proj1 (proj2 (proj1 HA)) b i Hb Hi) as Hc. cbn [fst snd] in Hc. unfold claim_ok in Hc.
    destruct (Nat.ltb i (bw (getb h b))) eqn:E; [apply Nat.ltb_lt in E; exact E|]. destruct Hc as (Hf & _). unfold pub in Hp. congruence.
  Qed.

  Lemma quiet_tones b : b < length h -> tones (bdone (getb h b)) = Nat.min (bw (getb h b)) B.
  Proof.
    intros Hb. destruct (proj1 (proj1 (proj1 HA)) b Hb) as [Ld _]. cbn [fst] in Ld.
    apply Nat.le_antisymm.
    - destruct (Nat.le_gt_cases (tones (bdone (getb h b))) (Nat.min (bw (getb h b)) B)) as [|Hgt]; auto. exfalso.
      assert (Hp : pub h b (Nat.min (bw (getb h b)) B)) by (apply (tones_nth B HB); exact Hgt).
      destruct (pub_below b _ Hb Hp). lia.
    - apply (tones_ge B HB); [lia|]. intros j Hj. apply quiet_pub; auto; lia.
  Qed.

  Definition Ob (d i : nat) (x : val) : Prop := Reach h tl d /\ slot h d i = Some x /\ pub h d i.
  Definition cov (acc : list (list val)) (o : option nat) : Prop :=
    (forall d i x, Ob d i x -> In x (concat acc) \/ Reach h o d) /\
    (forall x, In x (concat acc) -> exists d i, slot h d i = Some x /\ Reach h tl d).

  Definition fq_ok (l : local) : Prop :=
    match pcl l with
    | Start => todo l = [CData] /\ results l = []
    | W0 false => todo l = [] /\ results l = []
    | W1 false b acc | WD false b acc => todo l = [] /\ results l = [] /\ b < length h /\ Reach h tl b /\ cov acc (Some b)
    | W2 false b len acc => todo l = [] /\ results l = [] /\ b < length h /\ Reach h tl b /\ cov acc (Some b) /\ len = tones (bdone (getb h b))
    | WN false b acc => todo l = [] /\ results l = [] /\ b < length h /\ Reach h tl b /\ cov acc (bnxt (getb h b))
    | Done => exists sl, results l = [RData sl] /\ (forall d i x, Ob d i x -> In x (concat sl)) /\
                         (forall x, In x (concat sl) -> exists d i, slot h d i = Some x /\ Reach h tl d)
    | _ => False
    end.

  Definition rem (l : local) : nat :=
    match pcl l with
    | Start => 4 * length h + 6
    | W0 _ => 4 * length h + 5
    | W1 _ b _ => 4 * b + 4
    | W2 _ b _ _ => 4 * b + 3
    | WD _ b _ => 4 * b + 2
    | WN _ b _ => 4 * b + 1
    | _ => 0
    end.

  Lemma fq_step l : fq_ok l -> pcl l <> Done -> exists l', step s0 l = Some (s0, l') /\ fq_ok l' /\ rem l' < rem l.
  Proof.
    intros Hok Hnd. pose proof HA as (HI & _). pose proof HI as (HO & _ & _).
    unfold fq_ok in Hok. unfold Model.step, rem.
    destruct (pcl l) eqn:Epc; try contradiction; try (destruct clr; try contradiction); try congruence.
    - (* Start *) destruct Hok as [Ht Hr]. eexists. split; [reflexivity|]. rewrite Ht, Hr. unfold fq_ok, rem. cbn. split; [auto|lia].
    - (* 530 *) destruct Hok as [Ht Hr]. destruct tl as [b|] eqn:Et; eexists; (split; [reflexivity|]).
      + assert (Hb : b < length h) by (apply (proj1 (proj2 (proj2 HO)) b Et)).
        unfold fq_ok, rem. cbn [goto mk pcl todo results]. split; [|lia].
        split; [exact Ht|split; [exact Hr|split; [exact Hb|split; [rewrite Et; constructor|]]]].
        split; [intros d i x (R & _); right; rewrite <- Et; exact R|intros x []].
      + unfold finish, fq_ok, rem. rewrite Ht, Hr. cbn. split; [|lia]. exists []. split; [reflexivity|]. split; [|intros x []].
        intros d i x (R & _). rewrite Et in R. destruct (Reach_None _ _ R).
    - (* 504 *) destruct Hok as (Ht & Hr & Hb & HR & Hc).
      destruct (Nat.eqb (tones (bdone (getb h b))) B); eexists; (split; [reflexivity|]); unfold fq_ok, rem; cbn [goto mk pcl todo results];
        (split; [auto 10|lia]).
    - (* 505: a quiescent block passes *) destruct Hok as (Ht & Hr & Hb & HR & Hc & ->).
      rewrite (quiet_tones b Hb), Nat.eqb_refl. eexists. split; [reflexivity|]. unfold fq_ok, rem. cbn [goto mk pcl todo results].
      split; [auto 10|lia].
    - (* 506 *) destruct Hok as (Ht & Hr & Hb & HR & [Hc1 Hc2]). eexists. split; [reflexivity|]. unfold fq_ok, rem. cbn [goto mk pcl todo results].
      split; [|lia]. split; [exact Ht|split; [exact Hr|split; [exact Hb|split; [exact HR|]]]]. split.
      + intros d i x HOb. destruct (Hc1 d i x HOb) as [Hin|R]; [left; cbn [concat]; apply in_or_app; right; exact Hin|].
        destruct (Nat.eq_dec d b) as [->|Hne]; [|right; inversion R; subst; [contradiction Hne; reflexivity|assumption]].
        left. cbn [concat]. apply in_or_app. left.
        destruct HOb as (_ & Hs & Hp). destruct (pub_below b i Hb Hp) as [Hi Hw].
        eapply (In_data B HB); eauto. rewrite (quiet_tones b Hb). lia.
      + intros x Hx. cbn [concat] in Hx. apply in_app_or in Hx. destruct Hx as [Hx|Hx]; [|apply Hc2; exact Hx].
        destruct (delivery_reads_written_slots B HB (s0, ls0) b x HI Hb Hx) as (j & _ & Hs). exists b, j. split; [exact Hs|exact HR].
    - (* 532 *) destruct Hok as (Ht & Hr & Hb & HR & [Hc1 Hc2]). destruct (bnxt (getb h b)) as [nb|] eqn:En; eexists; (split; [reflexivity|]).
      + destruct (proj1 (proj2 HO) b nb Hb En) as [Hlt _]. unfold fq_ok, rem. cbn [goto mk pcl todo results]. split; [|lia].
        split; [exact Ht|split; [exact Hr|split; [lia|split; [eapply Reach_next; eauto|split; [exact Hc1|exact Hc2]]]]].
      + unfold finish, fq_ok, rem. rewrite Ht, Hr. cbn. split; [|lia]. exists (rev acc). split; [reflexivity|]. split.
        * intros d i x HOb. destruct (Hc1 d i x HOb) as [Hin|R]; [|destruct (Reach_None _ _ R)].
          rewrite in_concat in *. destruct Hin as (y & Hy & Hxy). exists y. split; auto. apply in_rev in Hy. exact Hy.
        * intros x Hx. apply Hc2. rewrite in_concat in *. destruct Hx as (y & Hy & Hxy). exists y. split; auto. apply in_rev. exact Hy.
  Qed.

  Lemma rem_pos l : fq_ok l -> pcl l <> Done -> 0 < rem l.
  Proof. intros Hok Hnd. destruct (fq_step l Hok Hnd) as (l' & _ & _ & H). lia. Qed.

  (* the single-thread round-robin: one step per round until Done *)
  Lemma run_single : forall f l, fq_ok l -> rem l <= f ->
    exists l', fst (exec_rr step site f (s0, [l])) = (s0, [l']) /\ pcl l' = Done /\ fq_ok l'.
  Proof.
    induction f as [|f IH]; intros l Hok Hr.
    - exists l. cbn [exec_rr fst]. split; [reflexivity|]. split; [|exact Hok].
      destruct (pc_eq_Done (pcl l)) as [E|E]; [exact E|]. pose proof (rem_pos l Hok E). lia.
    - destruct (pc_eq_Done (pcl l)) as [E|E].
      + exists l. split; [|split; [exact E|exact Hok]]. cbn [exec_rr]. unfold all_done, finished. cbn [snd length seq forallb nth_error fst].
        unfold Model.step. rewrite E. reflexivity.
      + destruct (fq_step l Hok E) as (l' & Hst & Hok' & Hlt).
        destruct (IH l' Hok' ltac:(lia)) as (l'' & Hrun & Hd & Hok'').
        exists l''. split; [|split; [exact Hd|exact Hok'']].
        cbn [exec_rr]. unfold all_done, finished. cbn [snd length seq forallb nth_error fst]. rewrite Hst. cbn [andb].
        cbn [rr_round]. unfold finished. cbn [snd nth_error fst]. rewrite Hst.
        unfold step_thread. cbn [snd nth_error fst]. rewrite Hst. cbn [upd rr_round].
        destruct (exec_rr step site f (s0, [l'])) as [c2 es] eqn:E2. cbn [fst] in *. exact Hrun.
  Qed.

  Theorem final_read_finishes :
    let f := final_data B true fxc s0 in
    (* every published slot of the live chain is in the final read *)
    (forall d i x, Reach h tl d -> slot h d i = Some x -> pub h d i -> In x (concat f)) /\
    (* and the final read contains nothing else *)
    (forall x, In x (concat f) -> exists d i, slot h d i = Some x /\ Reach h tl d).
  Proof.
    unfold final_data.
    assert (H0 : fq_ok (init_local 4294967295%N [CData])) by (unfold fq_ok; cbn; auto).
    destruct (run_single (final_fuel s0) _ H0 ltac:(unfold rem, final_fuel; cbn; lia)) as (l' & Hrun & Hd & Hok).
    destruct (exec_rr step site (final_fuel s0) (s0, [init_local 4294967295%N [CData]])) as [cf tr']. cbn [fst] in Hrun. subst cf.
    cbn [snd]. unfold fq_ok in Hok. rewrite Hd in Hok. destruct Hok as (sl & Hr & H1 & H2). rewrite Hr.
    split; [intros d i x R Hs Hp; apply (H1 d i x); unfold Ob; auto|exact H2].
  Qed.
End FinalRun.
