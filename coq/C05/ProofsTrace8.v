(* C05 — the checker on the model, stage 8: clause S3.
   (A) Regression for defect C05-is-empty-lookback-one-block (fixed by 0248974): with 67 threads - 64
       completed pushes resident, all 64 slots of the successor block claimed and unpublished, a
       fresh head - the is_empty of the code before the fix (head block and ONE successor) returned
       true; the chain-walking is_empty returns false.
   (B) A racing scheduled example inside the hypotheses: spec_ok = true.
   (C) S3 for data_with calls (snapshot completeness on trace positions) on the model's run of
       every case whose programs contain no clear_with, when the run is done.                    *)
From Coq Require Import List NArith Bool Arith Lia.
Import ListNotations.
Require Import MV.Common.Interleave MV.Common.InterleaveTrace MV.C05.Model MV.C05.Spec MV.C05.Exec.
Require Import MV.C05.ProofsSeq MV.C05.ProofsInv MV.C05.ProofsCor MV.C05.ProofsUniq MV.C05.ProofsCons MV.C05.ProofsProg
               MV.C05.ProofsSnap MV.C05.ProofsEmpty MV.C05.ProofsOrder MV.C05.ProofsSpec MV.C05.ProofsTrace1 MV.C05.ProofsTrace2 MV.C05.ProofsTrace3
               MV.C05.ProofsTrace4 MV.C05.ProofsTrace6 MV.C05.ProofsTrace7.
Local Open Scope nat_scope.

(* ---- (A) *)
Definition many_progs : list (list xcall) :=
  [XMany 1 64] :: repeat [XCall (CPush 2)] 64 ++ [[XCall (CPush 3)]; [XCall CEmpty]].
Definition many_sched : list N :=
  repeat 0%N 258
  ++ [1; 1; 1; 1; 1]%N
  ++ flat_map (fun t => [N.of_nat t; N.of_nat t; N.of_nat t]) (seq 2 63)
  ++ [65; 65; 65; 65; 65]%N
  ++ [66; 66; 66; 66; 66]%N.
Definition many_case : case := (many_progs, many_sched).

(* before fix 0248974 (one look-back, ProofsEmpty.step_lookback1) is_empty answered TRUE on this schedule
   although 64 completed pushes were resident; the code after the fix answers FALSE and the whole
   checker accepts the run *)
Lemma is_empty_beyond_B_threads_refuted_before_fix :
  length (fst many_case) = 67 /\ known_class many_case = None /\
  (let cf := fst (exec_full (step_lookback1 BS) site rr_fuel (init_config (progs_of many_case)) (map N.to_nat (snd many_case))) in
   option_map results (nth_error (snd cf) 66) = Some [REmpty true] /\
   length (concat (final_data BS true true (fst cf))) = 129) /\
  (let '(_, rss, done, final, _) := run_case many_case in
   nth 66 rss [] = [REmpty false] /\ done = true /\ length (concat final) = 129) /\
  spec_ok many_case (run_case many_case) = true.
Proof. vm_compute. repeat split; reflexivity. Qed.

(* ---- (B) thread 0 pushes 65 values (crossing the block boundary); is_empty runs inside the
   hand-over window (after 512, before the first claim on the fresh block), a snapshot overlaps
   the 65th push, a clear runs last *)
Definition race_case : case :=
  (plain [pushes 65; [CEmpty]; [CData]; [CClear]],
   (repeat 0 258 ++ [0; 0; 0] ++ [1; 1; 1; 1; 1] ++ [2; 2; 2; 2] ++ [0; 0] ++ [2; 2; 2] ++ [0] ++ repeat 2 8 ++ repeat 3 12)%N).

Lemma race_example :
  length (fst race_case) <= 64 /\ known_class race_case = None /\ spec_ok race_case (run_case race_case) = true.
Proof. vm_compute. repeat split; auto. repeat constructor. Qed.

(* ---- (C) the publication column of the push table *)
Lemma zip_ppub t claims : forall p k0 ws ds i, In i (zip_pinfo (push_calls t p k0) claims ws ds) ->
  exists k v, nth_error p k = Some (CPush v) /\ px i = (t, (k0 + N.of_nat k)%N, v) /\ ppub i = nth_error ds (npush (firstn k p)).
Proof.
  induction p as [|c r IH]; intros k0 ws ds i H; cbn [push_calls] in H; [destruct H|].
  assert (Skip : is_push c = false -> In i (zip_pinfo (push_calls t r (k0 + 1)%N) claims ws ds) ->
                 exists k v, nth_error (c :: r) k = Some (CPush v) /\ px i = (t, (k0 + N.of_nat k)%N, v) /\ ppub i = nth_error ds (npush (firstn k (c :: r)))).
  { intros Hc Hin. destruct (IH _ _ _ _ Hin) as (k & v & Hk & Hp & Hd). exists (S k), v. split; [exact Hk|]. split.
    - rewrite Hp. f_equal. f_equal. lia.
    - rewrite Hd. unfold npush. cbn [firstn filter]. rewrite Hc. reflexivity. }
  destruct c as [v0| | |]; try (apply Skip; [reflexivity|exact H]).
  cbn [zip_pinfo] in H. destruct H as [<-|H].
  - exists 0, v0. cbn [px ppub]. split; [reflexivity|split; [f_equal; f_equal; lia|destruct ds; reflexivity]].
  - destruct (IH _ _ _ _ H) as (k & v & Hk & Hp & Hd). exists (S k), v. split; [exact Hk|]. split.
    + rewrite Hp. f_equal. f_equal. lia.
    + rewrite Hd. unfold npush. cbn [firstn filter is_push length]. destruct ds; [destruct (length _); reflexivity|reflexivity].
Qed.

Lemma pinfos_ppub tr : forall ps t0 i, In i (pinfos tr t0 ps) ->
  exists u p k v, nth_error ps u = Some p /\ nth_error p k = Some (CPush v) /\ px i = ((t0 + N.of_nat u)%N, N.of_nat k, v) /\
                  ppub i = nth_error (positions tr 0 (t0 + N.of_nat u)%N 503) (npush (firstn k p)).
Proof.
  induction ps as [|q r IH]; intros t0 i H; cbn [pinfos] in H; [destruct H|]. apply in_app_or in H. destruct H as [H|H].
  - destruct (zip_ppub _ _ _ _ _ _ _ H) as (k & v & Hk & Hp & Hd). exists 0, q, k, v. rewrite N.add_0_r, N.add_0_l in *. auto.
  - destruct (IH _ _ H) as (u & p & k & v & Hu & Hk & Hp & Hd). exists (S u), p, k, v.
    replace (t0 + N.of_nat (S u))%N with (t0 + 1 + N.of_nat u)%N by lia. auto.
Qed.

(* ---- the publication ledger: #503-steps of a thread = pushes among its completed calls; hence an
   entry of the push table that has a publication position is a completed push, and its value sits
   in a published slot (building block for S3: "published before position p") *)
Lemma npush_firstn_lt p : forall k j, npush (firstn k p) < npush (firstn j p) -> k < j.
Proof.
  intros k j H. destruct (Nat.lt_ge_cases k j) as [|Hge]; auto. exfalso.
  assert (M : forall a b, a <= b -> npush (firstn a p) <= npush (firstn b p)).
  { clear. intros a b Hab. revert a b Hab. induction p as [|c r IH]; intros a b Hab; [destruct a, b; cbn; lia|].
    destruct a; [unfold npush; cbn; lia|]. destruct b; [lia|]. unfold npush in *. cbn [firstn filter].
    specialize (IH a b ltac:(lia)). destruct (is_push c); cbn [length]; lia. }
  specialize (M j k Hge). lia.
Qed.

Section Pub.
  Variable B : nat.
  Hypothesis HB : 1 <= B.
  Variable fxc : bool.
  Variable ps : list (list call).
  Notation step := (step B true fxc).

  Definition RP (c : @config shared local) (tr : list (N * N)) : Prop :=
    All B c /\ R ps c /\ F ps c /\
    forall u l, nth_error (snd c) u = Some l ->
      length (positions tr 0 (N.of_nat u) 503) = npush (firstn (N.to_nat (cidx l)) (nth u ps [])).

  Theorem RP_step : trace_step_preserves step site RP.
  Proof.
    intros s ls t l s' l' tr (HA & HR & HF & HS) Hl Hst.
    destruct (F_step B HB fxc ps s ls t l s' l' (conj HA (conj HR HF)) Hl Hst) as (HA' & HR' & HF').
    split; [exact HA'|split; [exact HR'|split; [exact HF'|]]]. cbn [fst snd] in *.
    pose proof HA as (HI & _). pose proof HR as (R1 & _). destruct (R1 t l Hl) as (pt & Hpt & Hsk).
    assert (Hnth : nth t ps [] = pt) by (apply nth_error_nth; exact Hpt).
    intros u y Hy. rewrite positions_snoc. cbn [fst snd].
    destruct (nth_error_upd_cases _ _ _ _ _ Hy) as [[-> ->]|[Hne E]].
    - rewrite N.eqb_refl. cbn [andb]. rewrite Hnth. specialize (HS t l Hl). rewrite Hnth in HS.
      destruct (step_result_kind B fxc s l s' l' Hst) as [[Er Ec]|(r & c & Er & Ec & Hcur & Hk)].
      + (* the call index stays: not a 503 step *)
        rewrite Ec. replace (N.eqb (site l) 503) with false; [rewrite app_nil_r; exact HS|].
        symmetry. apply N.eqb_neq. intros E503. unfold site in E503.
        destruct (pcl l) eqn:Epc; try discriminate E503; try (destruct clr; discriminate E503).
        unfold Model.step in Hst. rewrite Epc in Hst. inversion Hst; subst. unfold finish in Ec. rewrite cidx_enter in Ec. lia.
      + rewrite Ec, N2Nat.inj_add. cbn [N.to_nat Pos.to_nat Pos.iter_op]. rewrite Nat.add_1_r.
        rewrite Hcur in Hsk. cbn [app] in Hsk. rewrite (npush_firstn_S pt _ c (proj2 (skipn_S _ _ _ _ Hsk))).
        destruct c as [v| | |]; cbn [is_push].
        * destruct (step_finish_push B HB fxc s ls t l s' l' v HI Hl Hst Ec Hcur) as (x & b & i & Epc & _).
          unfold site. rewrite Epc. cbn [N.eqb Pos.eqb]. rewrite app_length. cbn [length]. lia.
        * replace (N.eqb (site l) 503) with false; [rewrite app_nil_r; lia|]. symmetry. apply N.eqb_neq. intros E503. unfold site in E503.
          destruct (pcl l); try discriminate E503; try (destruct clr; discriminate E503); discriminate Hcur.
        * replace (N.eqb (site l) 503) with false; [rewrite app_nil_r; lia|]. symmetry. apply N.eqb_neq. intros E503. unfold site in E503.
          destruct (pcl l); try discriminate E503; try (destruct clr; discriminate E503); discriminate Hcur.
        * replace (N.eqb (site l) 503) with false; [rewrite app_nil_r; lia|]. symmetry. apply N.eqb_neq. intros E503. unfold site in E503.
          destruct (pcl l); try discriminate E503; try (destruct clr; discriminate E503); discriminate Hcur.
    - replace (N.eqb (N.of_nat t) (N.of_nat u)) with false by (symmetry; apply N.eqb_neq; lia). cbn [andb]. rewrite app_nil_r. apply (HS u y E).
  Qed.

  Theorem RP_noop : trace_noop_preserves RP.
  Proof.
    intros c tr t (HA & HR & HF & HS). split; [exact HA|split; [exact HR|split; [exact HF|]]].
    intros u l Hl. rewrite positions_snoc. cbn [fst snd].
    replace (N.eqb noop_site 503) with false by reflexivity. rewrite andb_false_r, app_nil_r. apply (HS u l Hl).
  Qed.

  Lemma RP_init : RP (init_config ps) [].
  Proof.
    split; [exact (All_init B HB fxc ps)|split; [exact (R_init B HB ps)|split]].
    - first [exact (F_init B HB ps) | exact (F_init B ps) | exact (F_init ps)].
    - intros u l Hl. cbn [snd init_config] in Hl. destruct (init_local_facts _ _ _ _ Hl) as (p & _ & _ & E2 & _). rewrite E2. reflexivity.
  Qed.
End Pub.

Theorem spec_pub_positions_on_model (c : case) :
  let '(tr, _, _, _, _) := run_case c in
  let cf := fst (run_gen BS true true c) in
  forall i w, In i (pinfos tr 0 (progs_of c)) -> ppub i = Some w ->
    w < length tr /\ genuine (progs_of c) (px i) /\
    exists b j, slot (heap (fst cf)) b j = Some (px i) /\ pub (heap (fst cf)) b j.
Proof.
  unfold run_case, out_gen. assert (HB : 1 <= BS) by (unfold BS; lia).
  pose proof (exec_full_trace (step BS true true) site (RP BS (progs_of c)) (RP_step BS HB true (progs_of c))
                (RP_noop BS (progs_of c)) rr_fuel (map N.to_nat (snd c)) (init_config (progs_of c))
                (RP_init BS HB true (progs_of c))) as H.
  fold (run_gen BS true true c) in H. destruct (run_gen BS true true c) as [[s ls] tr]. cbn [fst snd] in *.
  destruct H as (HA & (R1 & R2 & R3) & [HLen _] & HS). cbn [fst snd] in *.
  intros i w Hi Hw. destruct (pinfos_ppub tr _ _ _ Hi) as (u & p & k & v & Hu & Hk & Hpx & Hpp). rewrite N.add_0_l in *.
  rewrite Hw in Hpp. symmetry in Hpp.
  split; [apply nth_error_In in Hpp; apply positions_lt in Hpp; lia|].
  split; [rewrite Hpx; exists p; cbn [fst snd]; rewrite !Nat2N.id; auto|].
  assert (Hl : exists l, nth_error ls u = Some l).
  { destruct (nth_error ls u) as [l|] eqn:El; [eauto|]. apply nth_error_None in El. assert (u < length (progs_of c)) by (apply nth_error_Some; congruence). lia. }
  destruct Hl as [l Hl]. pose proof (HS u l Hl) as Hc. rewrite (nth_error_nth _ _ _ Hu) in Hc.
  assert (Hkc : k < N.to_nat (cidx l)).
  { apply (npush_firstn_lt p). rewrite <- Hc. apply nth_error_Some. congruence. }
  destruct (R3 u l p k v Hl Hu Hkc Hk) as (b & j & Hs & Hp). exists b, j. rewrite Hpx. auto.
Qed.
