(* C05 — stage 15: clause S3 for data_with (rkind 0) and is_empty = true (rkind 2) calls on the model's run of
   every case outside the late-claim class when the run is done: a push published before the call's
   start is handed to the call or sits in the `handed` of a clear call whose `rcas` lies before the
   start (the attribution of ProofsTrace13 read off the finished run).                             *)
From Coq Require Import List NArith Arith Lia Bool.
Import ListNotations.
Require Import MV.Common.Interleave MV.Common.InterleaveTrace MV.C05.Model MV.C05.Spec MV.C05.Exec.
Require Import MV.C05.ProofsSeq MV.C05.ProofsInv MV.C05.ProofsCor MV.C05.ProofsUniq MV.C05.ProofsCons MV.C05.ProofsProg
               MV.C05.ProofsSnap MV.C05.ProofsEmpty MV.C05.ProofsOrder MV.C05.ProofsSpec MV.C05.ProofsTrace1 MV.C05.ProofsTrace2
               MV.C05.ProofsTrace3 MV.C05.ProofsTrace4 MV.C05.ProofsTrace5 MV.C05.ProofsTrace6 MV.C05.ProofsTrace7 MV.C05.ProofsTrace8 MV.C05.ProofsTrace9
               MV.C05.ProofsTrace10 MV.C05.ProofsTrace12 MV.C05.ProofsTrace13 MV.C05.ProofsTrace14.
Local Open Scope nat_scope.

Lemma rcalls_thread_clear tr t : forall rs1 P506 p530 p540 p541 p520 sl rs2,
  exists c, In c (rcalls_thread tr t (rs1 ++ RClear sl :: rs2) P506 p530 p540 p541 p520) /\ rkind c = 1%N /\ handed c = concat sl /\
    rcas c = match nth_error P506 (length (slices_of rs1)) with
             | Some q => match sl with [] => None | _ :: _ => last_below p541 q None end
             | None => None end.
Proof.
  induction rs1 as [|r rs1 IH]; intros P506 p530 p540 p541 p520 sl rs2.
  - cbn [app rcalls_thread]. eexists. split; [left; reflexivity|]. cbn [rkind rcas slices_of flat_map length].
    split; [reflexivity|split; [unfold handed; cbn [rsl]; apply handed_zip|destruct P506; reflexivity]].
  - destruct r as [|sl'|sl'|b]; cbn [app rcalls_thread].
    + destruct (IH P506 p530 p540 p541 p520 sl rs2) as (c & Hin & H). exists c. split; [exact Hin|exact H].
    + destruct (IH (skipn (length sl') P506) (tl p530) p540 p541 p520 sl rs2) as (c & Hin & H1 & H2 & H3). exists c.
      split; [right; exact Hin|split; [exact H1|split; [exact H2|]]]. rewrite H3, nth_error_skipn.
      cbn [slices_of flat_map]. rewrite app_length. reflexivity.
    + destruct (IH (skipn (length sl') P506) p530 (tl p540) p541 p520 sl rs2) as (c & Hin & H1 & H2 & H3). exists c.
      split; [right; exact Hin|split; [exact H1|split; [exact H2|]]]. rewrite H3, nth_error_skipn.
      cbn [slices_of flat_map]. rewrite app_length. reflexivity.
    + destruct (IH P506 p530 p540 p541 (tl p520) sl rs2) as (c & Hin & H). exists c. split; [right; exact Hin|exact H].
Qed.

Lemma in_rcalls tr : forall rss t0 u rs c, nth_error rss u = Some rs ->
  In c (rcalls_thread tr (t0 + N.of_nat u) rs (positions tr 0 (t0 + N.of_nat u) 506) (positions tr 0 (t0 + N.of_nat u) 530)
          (positions tr 0 (t0 + N.of_nat u) 540) (positions tr 0 (t0 + N.of_nat u) 541) (positions tr 0 (t0 + N.of_nat u) 520)) ->
  In c (rcalls tr t0 rss).
Proof.
  induction rss as [|q r IH]; intros t0 u rs c Hu Hc; [destruct u; discriminate|]. cbn [rcalls]. apply in_or_app. destruct u as [|u].
  - cbn in Hu. inversion Hu; subst q. left. rewrite N.add_0_r in Hc. exact Hc.
  - right. cbn in Hu. apply (IH (t0 + 1)%N u rs c Hu). replace (t0 + 1 + N.of_nat u)%N with (t0 + N.of_nat (S u))%N by lia. exact Hc.
Qed.

(* the attribution read off a finished run *)
Lemma Att_end tr s ls x p : (forall u l, nth_error ls u = Some l -> pcl l = Done) -> Att tr (s, ls) x p ->
  existsb (fun c0 => olt (rcas c0) (Some p) && memb x (handed c0)) (filter is_clear (rcalls tr 0 (map (fun l => rev (results l)) ls))) = true.
Proof.
  intros Hd (v & l & q & Hv & Hq & [(Hw & _)|(rs1 & sl & rs2 & q1 & Hd2 & Hx & H1 & H2)]); cbn [fst snd] in *.
  - exfalso. unfold in_cwalk in Hw. rewrite (Hd v l Hv) in Hw. exact Hw.
  - destruct (rcalls_thread_clear tr (0 + N.of_nat v)%N rs1 (positions tr 0 (0 + N.of_nat v) 506) (positions tr 0 (0 + N.of_nat v) 530)
                (positions tr 0 (0 + N.of_nat v) 540) (positions tr 0 (0 + N.of_nat v) 541) (positions tr 0 (0 + N.of_nat v) 520) sl rs2)
      as (c0 & Hin & Hk & Hh & Hc).
    rewrite <- Hd2 in Hin.
    assert (Hu : nth_error (map (fun l => rev (results l)) ls) v = Some (rev (results l))) by (rewrite nth_error_map, Hv; reflexivity).
    pose proof (in_rcalls tr _ 0%N v _ c0 Hu Hin) as Hrc.
    apply existsb_exists. exists c0. split; [apply filter_In; split; [exact Hrc|unfold is_clear; rewrite Hk; reflexivity]|].
    rewrite N.add_0_l in Hc. rewrite Hc, H1. destruct sl as [|a sl']; [destruct Hx|]. rewrite H2. cbn [olt].
    apply andb_true_iff. split; [apply Nat.ltb_lt; exact Hq|]. apply memb_iff. rewrite Hh. apply in_map. exact Hx.
Qed.

Lemma all_Done s ls : all_done (step BS true true) (s, ls) = true -> forall u l, nth_error ls u = Some l -> pcl l = Done.
Proof.
  intros Hdone u l Hl. unfold all_done in Hdone. rewrite forallb_forall in Hdone.
  assert (Hu : In u (seq 0 (length ls))) by (apply in_seq; split; [lia|]; cbn; apply nth_error_Some; congruence).
  specialize (Hdone u Hu). unfold finished in Hdone. cbn [fst snd] in Hdone. rewrite Hl in Hdone.
  destruct (step BS true true s l) as [[? ?]|] eqn:Es; [discriminate|]. eapply step_none_done; eauto.
Qed.

Theorem spec_snapshot_completeness (c : case) : known_class c = None ->
  let '(tr, rss, done, _, _) := run_case c in
  done = true ->
  let tbl := pinfos tr 0 (progs_of c) in
  let rc := rcalls tr 0 rss in
  forallb (fun r => if (rkind r =? 0)%N then accounts tbl (filter is_clear rc) (rstart r) (handed r) else true) rc = true.
Proof.
  intros Hk. unfold run_case, out_gen. assert (HB : 1 <= BS) by (unfold BS; lia).
  pose proof (exec_full_trace (step BS true true) site (RHd BS (progs_of c)) (RHd_step BS HB (progs_of c))
                (RHd_noop BS HB (progs_of c)) rr_fuel (map N.to_nat (snd c)) (init_config (progs_of c))
                (RHd_init BS HB (progs_of c))) as H.
  fold (run_gen BS true true c) in H.
  assert (HL : late (fst (fst (run_gen BS true true c))) = false).
  { unfold known_class, late_claim_gen in Hk. destruct (late (fst (fst (run_gen BS true true c)))); [discriminate|reflexivity]. }
  destruct (run_gen BS true true c) as [[s ls] tr]. cbn [fst snd] in *. intros Hdone. cbv zeta.
  destruct H as (HG & HD). specialize (HD HL). pose proof (all_Done s ls Hdone) as Hd.
  apply forallb_forall. intros r Hr. destruct (N.eqb_spec (rkind r) 0) as [Hk0|]; [|reflexivity].
  destruct (rcalls_in tr _ _ _ Hr) as (u & rs & Hu & Hc). rewrite N.add_0_l in Hc.
  rewrite nth_error_map in Hu. destruct (nth_error ls u) as [l|] eqn:El; [|discriminate]. cbn in Hu. inversion Hu; subst rs.
  destruct (rcalls_thread_data tr _ _ _ _ _ _ _ _ Hc Hk0) as (m & sl & Hm & Hs & Hh).
  destruct (HD u l El) as (_ & _ & D3). cbv zeta in D3. cbn [fst snd] in D3.
  unfold accounts. apply forallb_forall. intros i Hi.
  destruct (olt (ppub i) (rstart r)) eqn:Eo; [|reflexivity].
  destruct (ppub i) as [w|] eqn:Ew; [|discriminate]. destruct (rstart r) as [p|] eqn:Ep; [|discriminate]. cbn in Eo. apply Nat.ltb_lt in Eo.
  destruct (pinfos_ppub tr _ _ _ Hi) as (u' & q & k & v & Hu' & Hkq & Hpx & Hpp). rewrite N.add_0_l in *.
  destruct (existsb (fun c0 => olt (rcas c0) (Some p) && memb (px i) (handed c0)) (filter is_clear (rcalls tr 0 (map (fun l0 => rev (results l0)) ls)))) eqn:Ee;
    [apply orb_true_r|]. rewrite orb_false_r. apply memb_iff. rewrite Hh. apply in_map.
  apply (D3 m sl p Hm (eq_sym Hs) (px i)).
  - rewrite Hpx. exists q. cbn [fst snd]. rewrite !Nat2N.id. auto.
  - exists w. split; [|exact Eo]. rewrite Hpx. cbn [fst]. unfold ordv. cbn [fst snd]. rewrite !Nat2N.id, (nth_error_nth _ _ _ Hu'). rewrite <- Hpp. exact Ew.
  - intros A. rewrite (Att_end tr s ls (px i) p Hd A) in Ee. discriminate.
Qed.

Theorem spec_is_empty_true_completeness (c : case) : known_class c = None ->
  let '(tr, rss, done, _, _) := run_case c in
  done = true ->
  let tbl := pinfos tr 0 (progs_of c) in
  let rc := rcalls tr 0 rss in
  forallb (fun r => if (rkind r =? 2)%N then accounts tbl (filter is_clear rc) (rstart r) (handed r) else true) rc = true.
Proof.
  intros Hk. unfold run_case, out_gen. assert (HB : 1 <= BS) by (unfold BS; lia).
  pose proof (exec_full_trace (step BS true true) site (RHe BS (progs_of c)) (RHe_step BS HB (progs_of c))
                (RHe_noop BS HB (progs_of c)) rr_fuel (map N.to_nat (snd c)) (init_config (progs_of c))
                (RHe_init BS HB (progs_of c))) as H.
  fold (run_gen BS true true c) in H.
  assert (HL : late (fst (fst (run_gen BS true true c))) = false).
  { unfold known_class, late_claim_gen in Hk. destruct (late (fst (fst (run_gen BS true true c)))); [discriminate|reflexivity]. }
  destruct (run_gen BS true true c) as [[s ls] tr]. cbn [fst snd] in *. intros Hdone. cbv zeta.
  destruct H as (HG & HD). specialize (HD HL). pose proof (all_Done s ls Hdone) as Hd.
  apply forallb_forall. intros r Hr. destruct (N.eqb_spec (rkind r) 2) as [Hk2|]; [|reflexivity].
  destruct (rcalls_in tr _ _ _ Hr) as (u & rs & Hu & Hc). rewrite N.add_0_l in Hc.
  rewrite nth_error_map in Hu. destruct (nth_error ls u) as [l|] eqn:El; [|discriminate]. cbn in Hu. inversion Hu; subst rs.
  destruct (rcalls_thread_empty tr _ _ _ _ _ _ _ _ Hc Hk2) as (m & Hm & Hs & Hh).
  destruct (HD u l El) as (_ & _ & D3). cbv zeta in D3. cbn [fst snd] in D3.
  unfold accounts. apply forallb_forall. intros i Hi.
  destruct (olt (ppub i) (rstart r)) eqn:Eo; [|reflexivity].
  destruct (ppub i) as [w|] eqn:Ew; [|discriminate]. destruct (rstart r) as [p|] eqn:Ep; [|discriminate]. cbn in Eo. apply Nat.ltb_lt in Eo.
  destruct (pinfos_ppub tr _ _ _ Hi) as (u' & q & k & v & Hu' & Hkq & Hpx & Hpp). rewrite N.add_0_l in *.
  destruct (existsb (fun c0 => olt (rcas c0) (Some p) && memb (px i) (handed c0)) (filter is_clear (rcalls tr 0 (map (fun l0 => rev (results l0)) ls)))) eqn:Ee;
    [apply orb_true_r|]. exfalso.
  apply (D3 m p Hm (eq_sym Hs) (px i)).
  - rewrite Hpx. exists q. cbn [fst snd]. rewrite !Nat2N.id. auto.
  - exists w. split; [|exact Eo]. rewrite Hpx. cbn [fst]. unfold ordv. cbn [fst snd]. rewrite !Nat2N.id, (nth_error_nth _ _ _ Hu'). rewrite <- Hpp. exact Ew.
  - intros A. rewrite (Att_end tr s ls (px i) p Hd A) in Ee. discriminate.
Qed.
