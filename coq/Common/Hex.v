(* Hex-string literals for byte strings: cases.v files write  hx "68656c6c6f"  instead of a list
   literal (a string literal is lexed in one go; a list of N numerals is parsed element by element). *)
From Coq Require Import List NArith String Ascii Bool.
Import ListNotations.
Open Scope bool_scope.

Definition hexval (c : ascii) : N :=
  let n := N_of_ascii c in
  if (48 <=? n)%N && (n <=? 57)%N then (n - 48)%N
  else if (97 <=? n)%N && (n <=? 102)%N then (n - 87)%N
  else if (65 <=? n)%N && (n <=? 70)%N then (n - 55)%N
  else 0%N.

Fixpoint hx (s : string) : list N :=
  match s with
  | String a (String b r) => (hexval a * 16 + hexval b)%N :: hx r
  | _ => []
  end.

Example hx_ex : hx "68656c6C6f" = [104; 101; 108; 108; 111]%N.
Proof. reflexivity. Qed.
