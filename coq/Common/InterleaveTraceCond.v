(* Variant of InterleaveTrace.v whose no-op hypothesis is CONDITIONAL: a (t, noop_site) entry is only
   ever appended when thread t does not exist or has finished (its step is None), so a relation may
   use that fact (e.g. "every entry of thread u after position p is at one of the sites of the call
   u is inside", which an unconditional no-op entry of u would break).  Same conclusion as
   exec_full_trace.  Used by C05_spec_is_empty_false_needs_publication_on_model (coq/C05/ProofsTrace11.v). *)
From Coq Require Import List NArith Arith Lia.
Import ListNotations.
Require Import MV.Common.Interleave.

Section TraceCond.
  Context {shared local : Type}.
  Variable step : shared -> local -> option (shared * local).
  Variable site : local -> N.
  Notation config := (@config shared local).

  Variable R : config -> list (N * N) -> Prop.

  Definition trace_step_preserves_c : Prop :=
    forall s ls t l s' l' tr, R (s, ls) tr -> nth_error ls t = Some l -> step s l = Some (s', l') ->
                              R (s', upd ls t l') (tr ++ [(N.of_nat t, site l)]).
  Definition trace_noop_preserves_cond : Prop :=
    forall s ls tr t, R (s, ls) tr ->
      (nth_error ls t = None \/ exists l, nth_error ls t = Some l /\ step s l = None) ->
      R (s, ls) (tr ++ [(N.of_nat t, noop_site)]).

  Hypothesis Hstep : trace_step_preserves_c.
  Hypothesis Hnoop : trace_noop_preserves_cond.

  Lemma step_thread_trace_c c t tr :
    R c tr -> R (fst (step_thread step site c t)) (tr ++ [snd (step_thread step site c t)]).
  Proof.
    destruct c as [s ls]. intros H. unfold step_thread. cbn [fst snd].
    destruct (nth_error ls t) as [l|] eqn:E; [|apply Hnoop; [exact H|left; exact E]].
    destruct (step s l) as [[s' l']|] eqn:E2; [|apply Hnoop; [exact H|right; exists l; split; assumption]].
    cbn [fst snd]. eapply Hstep; eauto.
  Qed.

  Lemma exec_trace_c sched : forall c tr,
    R c tr -> R (fst (exec step site c sched)) (tr ++ snd (exec step site c sched)).
  Proof.
    induction sched as [|t r IH]; intros c tr H; cbn [exec fst snd]; [rewrite app_nil_r; exact H|].
    pose proof (step_thread_trace_c c t tr H) as H1.
    destruct (step_thread step site c t) as [c1 e]. cbn [fst snd] in H1.
    specialize (IH c1 _ H1). destruct (exec step site c1 r) as [c2 es]. cbn [fst snd] in *.
    rewrite <- app_assoc in IH. exact IH.
  Qed.

  Lemma rr_round_trace_c ts : forall c tr,
    R c tr -> R (fst (rr_round step site c ts)) (tr ++ snd (rr_round step site c ts)).
  Proof.
    induction ts as [|t r IH]; intros c tr H; cbn [rr_round fst snd]; [rewrite app_nil_r; exact H|].
    destruct (finished step c t); [apply IH; exact H|].
    pose proof (step_thread_trace_c c t tr H) as H1.
    destruct (step_thread step site c t) as [c1 e]. cbn [fst snd] in H1.
    specialize (IH c1 _ H1). destruct (rr_round step site c1 r) as [c2 es]. cbn [fst snd] in *.
    rewrite <- app_assoc in IH. exact IH.
  Qed.

  Lemma exec_rr_trace_c fuel : forall c tr,
    R c tr -> R (fst (exec_rr step site fuel c)) (tr ++ snd (exec_rr step site fuel c)).
  Proof.
    induction fuel as [|f IH]; intros c tr H; cbn [exec_rr]; [cbn [fst snd]; rewrite app_nil_r; exact H|].
    destruct (all_done step c); [cbn [fst snd]; rewrite app_nil_r; exact H|].
    pose proof (rr_round_trace_c (seq 0 (length (snd c))) c tr H) as H1.
    destruct (rr_round step site c (seq 0 (length (snd c)))) as [c1 es]. cbn [fst snd] in H1.
    specialize (IH c1 _ H1). destruct (exec_rr step site f c1) as [c2 es']. cbn [fst snd] in *.
    rewrite <- app_assoc in IH. exact IH.
  Qed.

  Theorem exec_full_trace_cond fuel sched c :
    R c [] -> R (fst (exec_full step site fuel c sched)) (snd (exec_full step site fuel c sched)).
  Proof.
    intros H. unfold exec_full.
    pose proof (exec_trace_c sched c [] H) as H1.
    destruct (exec step site c sched) as [c1 es]. cbn [fst snd app] in H1.
    pose proof (exec_rr_trace_c fuel c1 es H1) as H2.
    destruct (exec_rr step site fuel c1) as [c2 es']. exact H2.
  Qed.
End TraceCond.
