(* Generic interleaving semantics used by the concurrent models (C02, C03 memo, C05, C06, C10,
   C16, C20).  A thread is a local state; [step sh l] performs ONE atomic step of that thread
   (None = the thread has finished).  A schedule is an arbitrary list of thread indices; a
   scheduled thread that has finished, or an index out of range, is a no-op.  Theorems quantify
   over every schedule, every number of threads and every initial local state.
   Memory model: sequentially consistent interleaving (DESIGN.md 3.2).                          *)
From Coq Require Import List NArith Arith Lia.
Import ListNotations.

Section Interleave.
  Context {shared local : Type}.
  Variable step : shared -> local -> option (shared * local).
  Variable site : local -> N.      (* the yield site the thread is parked at (for schedule replay) *)

  Definition config := (shared * list local)%type.

  Fixpoint upd (ls : list local) (t : nat) (l : local) : list local :=
    match ls, t with
    | [], _ => []
    | _ :: r, O => l :: r
    | x :: r, S t' => x :: upd r t' l
    end.

  Definition noop_site : N := 4294967295.

  (* one scheduled step; also returns the trace entry (thread, site executed) *)
  Definition step_thread (c : config) (t : nat) : config * (N * N) :=
    match nth_error (snd c) t with
    | None => (c, (N.of_nat t, noop_site))
    | Some l =>
        match step (fst c) l with
        | None => (c, (N.of_nat t, noop_site))
        | Some (s', l') => ((s', upd (snd c) t l'), (N.of_nat t, site l))
        end
    end.

  Fixpoint exec (c : config) (sched : list nat) : config * list (N * N) :=
    match sched with
    | [] => (c, [])
    | t :: r => let '(c1, e) := step_thread c t in let '(c2, es) := exec c1 r in (c2, e :: es)
    end.

  Definition finished (c : config) (t : nat) : bool :=
    match nth_error (snd c) t with
    | None => true
    | Some l => match step (fst c) l with None => true | Some _ => false end
    end.

  Definition all_done (c : config) : bool := forallb (finished c) (seq 0 (length (snd c))).

  (* deterministic tail used by the harness after the schedule is exhausted: rounds of one step
     per unfinished thread, lowest index first *)
  Fixpoint rr_round (c : config) (ts : list nat) : config * list (N * N) :=
    match ts with
    | [] => (c, [])
    | t :: r =>
        if finished c t then rr_round c r
        else let '(c1, e) := step_thread c t in let '(c2, es) := rr_round c1 r in (c2, e :: es)
    end.

  Fixpoint exec_rr (fuel : nat) (c : config) : config * list (N * N) :=
    match fuel with
    | O => (c, [])
    | S f =>
        if all_done c then (c, [])
        else let '(c1, es) := rr_round c (seq 0 (length (snd c))) in
             let '(c2, es') := exec_rr f c1 in (c2, es ++ es')
    end.

  Definition exec_full (fuel : nat) (c : config) (sched : list nat) : config * list (N * N) :=
    let '(c1, es) := exec c sched in let '(c2, es') := exec_rr fuel c1 in (c2, es ++ es').

  (* ---- every schedule preserves an invariant that every single step preserves *)
  Definition step_preserves (Inv : config -> Prop) : Prop :=
    forall s ls t l s' l', Inv (s, ls) -> nth_error ls t = Some l -> step s l = Some (s', l') ->
                           Inv (s', upd ls t l').

  Lemma step_thread_inv (Inv : config -> Prop) :
    step_preserves Inv -> forall c t, Inv c -> Inv (fst (step_thread c t)).
  Proof.
    intros H [s ls] t Hc. unfold step_thread. cbn [fst snd].
    destruct (nth_error ls t) as [l|] eqn:E; [|exact Hc].
    destruct (step s l) as [[s' l']|] eqn:E2; [|exact Hc].
    cbn [fst]. eapply H; eauto.
  Qed.

  Theorem invariant_all_schedules (Inv : config -> Prop) :
    step_preserves Inv -> forall sched c, Inv c -> Inv (fst (exec c sched)).
  Proof.
    intros H sched. induction sched as [|t r IH]; intros c Hc; [exact Hc|].
    cbn [exec]. pose proof (step_thread_inv Inv H c t Hc) as H1.
    destruct (step_thread c t) as [c1 e]. cbn [fst] in H1.
    specialize (IH c1 H1). destruct (exec c1 r) as [c2 es]. exact IH.
  Qed.

  Lemma rr_round_inv (Inv : config -> Prop) :
    step_preserves Inv -> forall ts c, Inv c -> Inv (fst (rr_round c ts)).
  Proof.
    intros H ts. induction ts as [|t r IH]; intros c Hc; [exact Hc|].
    cbn [rr_round]. destruct (finished c t); [apply IH; exact Hc|].
    pose proof (step_thread_inv Inv H c t Hc) as H1.
    destruct (step_thread c t) as [c1 e]. cbn [fst] in H1.
    specialize (IH c1 H1). destruct (rr_round c1 r) as [c2 es]. exact IH.
  Qed.

  Lemma exec_rr_inv (Inv : config -> Prop) :
    step_preserves Inv -> forall fuel c, Inv c -> Inv (fst (exec_rr fuel c)).
  Proof.
    intros H fuel. induction fuel as [|f IH]; intros c Hc; [exact Hc|].
    cbn [exec_rr]. destruct (all_done c); [exact Hc|].
    pose proof (rr_round_inv Inv H (seq 0 (length (snd c))) c Hc) as H1.
    destruct (rr_round c (seq 0 (length (snd c)))) as [c1 es]. cbn [fst] in H1.
    specialize (IH c1 H1). destruct (exec_rr f c1) as [c2 es']. exact IH.
  Qed.

  Theorem invariant_exec_full (Inv : config -> Prop) :
    step_preserves Inv -> forall fuel sched c, Inv c -> Inv (fst (exec_full fuel c sched)).
  Proof.
    intros H fuel sched c Hc. unfold exec_full.
    pose proof (invariant_all_schedules Inv H sched c Hc) as H1.
    destruct (exec c sched) as [c1 es]. cbn [fst] in H1.
    pose proof (exec_rr_inv Inv H fuel c1 H1) as H2.
    destruct (exec_rr fuel c1) as [c2 es']. exact H2.
  Qed.

  (* list helpers for instances *)
  Lemma nth_error_upd_same ls t l l0 : nth_error ls t = Some l0 -> nth_error (upd ls t l) t = Some l.
  Proof. revert t. induction ls as [|x r IH]; intros [|t] H; cbn in *; try discriminate; auto. Qed.

  Lemma nth_error_upd_other ls t u l : t <> u -> nth_error (upd ls t l) u = nth_error ls u.
  Proof.
    revert t u. induction ls as [|x r IH]; intros [|t] [|u] H; cbn; auto; try congruence.
  Qed.

  Lemma upd_length ls t l : length (upd ls t l) = length ls.
  Proof. revert t. induction ls as [|x r IH]; intros [|t]; cbn; auto. Qed.
End Interleave.

(* ---- helpers about [upd], outside the section (generic in the element type) *)
Lemma upd_split {A} (ls : list A) t l l' :
  nth_error ls t = Some l ->
  exists l1 l2, ls = l1 ++ l :: l2 /\ upd ls t l' = l1 ++ l' :: l2 /\ length l1 = t.
Proof.
  revert t. induction ls as [|x r IH]; intros [|t] H; cbn in H; try discriminate.
  - inversion H; subst. exists [], r. repeat split.
  - destruct (IH t H) as (l1 & l2 & E1 & E2 & E3). exists (x :: l1), l2.
    cbn. rewrite E1 at 1. rewrite E2. repeat split. congruence.
Qed.

Fixpoint sumf {A} (f : A -> nat) (ls : list A) : nat :=
  match ls with [] => 0 | x :: r => f x + sumf f r end.

Lemma sumf_app {A} (f : A -> nat) l1 l2 : sumf f (l1 ++ l2) = sumf f l1 + sumf f l2.
Proof. induction l1; cbn; lia. Qed.

Lemma sumf_zero {A} (f : A -> nat) ls : sumf f ls = 0 -> Forall (fun x => f x = 0) ls.
Proof. induction ls as [|x r IH]; cbn; intros H; constructor; [lia|apply IH; lia]. Qed.

Lemma sumf_upd {A} (f : A -> nat) ls t l l' :
  nth_error ls t = Some l -> sumf f (upd ls t l') + f l = sumf f ls + f l'.
Proof.
  intros H. destruct (upd_split ls t l l' H) as (l1 & l2 & E1 & E2 & _).
  rewrite E2, E1, !sumf_app. cbn. lia.
Qed.

(* if the f-sum is exactly f l for the element at position t, every other element has f = 0 *)
Lemma sumf_unique {A} (f : A -> nat) ls t l :
  nth_error ls t = Some l -> sumf f ls = f l ->
  forall u x, u <> t -> nth_error ls u = Some x -> f x = 0.
Proof.
  intros H Hs u x Hne Hu.
  destruct (upd_split ls t l l H) as (l1 & l2 & E1 & _ & E3).
  rewrite E1, sumf_app in Hs. cbn in Hs.
  assert (F1 : Forall (fun x => f x = 0) l1) by (apply sumf_zero; lia).
  assert (F2 : Forall (fun x => f x = 0) l2) by (apply sumf_zero; lia).
  rewrite E1 in Hu. rewrite Forall_forall in F1, F2.
  destruct (Nat.lt_ge_cases u (length l1)) as [Hlt|Hge].
  - rewrite nth_error_app1 in Hu by exact Hlt. apply F1. eapply nth_error_In; eauto.
  - rewrite nth_error_app2 in Hu by exact Hge.
    destruct (u - length l1) as [|k] eqn:Ek; [lia|]. cbn in Hu. apply F2. eapply nth_error_In; eauto.
Qed.

Lemma Forall_upd {A} (P : A -> Prop) ls t l' : Forall P ls -> P l' -> Forall P (upd ls t l').
Proof.
  revert t. induction ls as [|x r IH]; intros [|t] H H'; cbn; auto; inversion H; subst; constructor; auto.
Qed.

Lemma Forall_nth_error {A} (P : A -> Prop) ls t l : Forall P ls -> nth_error ls t = Some l -> P l.
Proof. intros H E. rewrite Forall_forall in H. apply H. eapply nth_error_In; eauto. Qed.

(* pointwise version: update position t, and show P for position-indexed predicates *)
Lemma nth_error_upd_cases {A} (ls : list A) t l' u x :
  nth_error (upd ls t l') u = Some x -> (u = t /\ x = l') \/ (u <> t /\ nth_error ls u = Some x).
Proof.
  revert t u. induction ls as [|y r IH]; intros [|t] [|u] H; cbn in H; try discriminate.
  - inversion H; auto.
  - right. split; [lia|exact H].
  - right. split; [lia|exact H].
  - destruct (IH t u H) as [[-> ->]|[Hne E]]; [left; auto|right; split; [lia|exact E]].
Qed.

Lemma sumf_ge {A} (f : A -> nat) ls t l : nth_error ls t = Some l -> (f l <= sumf f ls)%nat.
Proof.
  intros H. destruct (upd_split ls t l l H) as (l1 & l2 & E1 & _ & _). rewrite E1, sumf_app. cbn. lia.
Qed.

(* ---- the round-robin tail is itself a schedule: exec_full reaches what some schedule reaches *)
Section RRisSchedule.
  Context {shared local : Type}.
  Variable step : shared -> local -> option (shared * local).
  Variable site : local -> N.

  Lemma exec_app c s1 : forall s2,
    fst (exec step site c (s1 ++ s2)) = fst (exec step site (fst (exec step site c s1)) s2).
  Proof.
    revert c. induction s1 as [|t r IH]; intros c s2; [reflexivity|].
    cbn [app exec]. destruct (step_thread step site c t) as [c1 e].
    specialize (IH c1 s2). destruct (exec step site c1 (r ++ s2)) as [c2 es].
    destruct (exec step site c1 r) as [c3 es3]. cbn [fst] in *. exact IH.
  Qed.

  Lemma step_thread_finished c t : finished step c t = true -> fst (step_thread step site c t) = c.
  Proof.
    unfold finished, step_thread. destruct (nth_error (snd c) t); [|reflexivity].
    destruct (step (fst c) l); [discriminate|reflexivity].
  Qed.

  Lemma rr_round_is_exec ts : forall c, fst (rr_round step site c ts) = fst (exec step site c ts).
  Proof.
    induction ts as [|t r IH]; intros c; [reflexivity|]. cbn [rr_round exec].
    destruct (finished step c t) eqn:F.
    - rewrite IH. pose proof (step_thread_finished c t F) as E.
      destruct (step_thread step site c t) as [c1 e]. cbn [fst] in E. subst c1.
      destruct (exec step site c r). reflexivity.
    - destruct (step_thread step site c t) as [c1 e]. specialize (IH c1).
      destruct (rr_round step site c1 r), (exec step site c1 r). exact IH.
  Qed.

  Lemma exec_rr_is_exec fuel : forall c, exists s, fst (exec_rr step site fuel c) = fst (exec step site c s).
  Proof.
    induction fuel as [|f IH]; intros c; [exists []; reflexivity|].
    cbn [exec_rr]. destruct (all_done step c); [exists []; reflexivity|].
    pose proof (rr_round_is_exec (seq 0 (length (snd c))) c) as E.
    destruct (rr_round step site c (seq 0 (length (snd c)))) as [c1 es]. cbn [fst] in E.
    destruct (IH c1) as [s Hs]. destruct (exec_rr step site f c1) as [c2 es']. cbn [fst] in *.
    exists (seq 0 (length (snd c)) ++ s). rewrite exec_app, <- E. exact Hs.
  Qed.

  Theorem exec_full_is_exec fuel c sched :
    exists s, fst (exec_full step site fuel c sched) = fst (exec step site c (sched ++ s)).
  Proof.
    unfold exec_full. destruct (exec step site c sched) as [c1 es] eqn:E1.
    destruct (exec_rr_is_exec fuel c1) as [s Hs]. destruct (exec_rr step site fuel c1) as [c2 es'].
    exists s. rewrite exec_app, E1. cbn [fst] in *. exact Hs.
  Qed.
End RRisSchedule.
