(* C11 — property theorems (statements only; proofs are in Proofs*.v).

   Reading guide.  [run F limit st0 evs = Some (sf, obs)] : the transport model, started in its
   initial state with the code after the fixes (F = fixed), processes the whole event sequence
   [evs] (wake-ups with what they drained, accepts, writable notifications, each with the results
   of its conn.write calls) and ends in [sf]; [obs] are the boundary observations (|clients|,
   client_count, should_send) after every event.  Every prefix of a run is a run, so a statement
   about the final state of an arbitrary run is a statement about every event boundary.
   [ev_wf] only says that the metric frames drained from the channel are length-delimited
   messages ([enc body]).  [sent c] is everything client c's socket accepted; [split_frames] is the
   Spec decoder; [pfx c] is the part of the frame in flight that was already accepted.           *)
From Coq Require Import List NArith ZArith Bool.
Import ListNotations.
Require Import MV.C11.Model MV.C11.Spec MV.C11.Exec MV.C11.ProofsFraming MV.C11.ProofsInv
        MV.C11.ProofsState MV.C11.ProofsCount MV.C11.ProofsOrder MV.C11.ProofsWire MV.C11.ProofsReflect
        MV.C11.ProofsStream MV.C11.ProofsBook MV.C11.ProofsMain MV.C11.ProofsSpecOk MV.C11.ProofsGone MV.C11.ProofsGoneTrack MV.C11.ProofsGoneSpec MV.C11.Wake.
From Coq Require Import Permutation.
Open Scope N_scope.

Theorem C11_frame_roundtrip : forall bodies, split_frames (concat (map enc bodies)) = (bodies, []).
Proof. exact frame_roundtrip. Qed.

Theorem C11_frame_roundtrip_torn_tail : forall bodies p, tail_ok p ->
  split_frames (concat (map enc bodies) ++ p) = (bodies, p).
Proof. exact split_frames_concat. Qed.

Theorem C11_stream_integrity : forall limit evs sf obs,
  Forall ev_wf evs -> run fixed limit st0 evs = Some (sf, obs) ->
  forall t c, In (t, c) (clients sf) ->
  exists bodies,
    sent c = concat (map enc bodies) ++ pfx c /\
    Subseq (map enc bodies) (enq c) /\
    ((wbuf c = None /\ pfx c = []) \/
     (exists r b, wbuf c = Some r /\ r <> [] /\ pfx c ++ r = enc b)) /\
    split_frames (sent c) = (bodies, pfx c).
Proof. exact stream_integrity. Qed.

Theorem C11_prefix_metadata_then_metrics_in_order : forall limit evs1 order evs2 s1 s2 sf obs1 obs2 cf,
  Forall ev_wf evs1 -> Forall ev_wf evs2 ->
  run fixed limit st0 evs1 = Some (s1, obs1) ->
  step fixed limit s1 (EAccept order) = Some s2 ->
  run fixed limit s2 evs2 = Some (sf, obs2) ->
  lookup (next_token s1) (clients sf) = Some cf ->
  exists ms bodies,
    gen_meta (metadata s1) order = Some ms /\
    enq cf = ms ++ wake_frames evs2 /\
    sent cf = concat (map enc bodies) ++ pfx cf /\
    split_frames (sent cf) = (bodies, pfx cf) /\
    Subseq (map enc bodies) (ms ++ wake_frames evs2) /\
    (overflowed cf = false -> exists rest, ms ++ wake_frames evs2 = map enc bodies ++ rest).
Proof. exact queue_order. Qed.

Theorem C11_client_count_exact : forall F limit evs sf obs,
  fix_dec F = true -> run F limit st0 evs = Some (sf, obs) ->
  client_count sf = Z.of_N (len (clients sf)) /\
  should_send sf = (0 <? Z.of_N (len (clients sf)))%Z /\
  obs_ok obs = true.
Proof. exact client_count_exact. Qed.

Theorem C11_starts_for_every_limit : forall limit, init fixed limit = Running st0.
Proof. exact starts_for_every_limit. Qed.

Theorem C11_capacity_refuted_before_fix : init before_cap None = Panicked.
Proof. exact cap_refuted_before_fix. Qed.

Theorem C11_decrement_refuted_before_fix :
  exists sf obs, run before_dec (Some 8) st0 dec_witness = Some (sf, obs) /\
                 map fst (clients sf) = [3] /\ client_count sf = 0%Z /\ should_send sf = false.
Proof. exact dec_refuted_before_fix. Qed.

Theorem C11_wouldblock_refuted_before_fix :
  exists sf obs c, Forall ev_wf block_witness /\
    run before_block None st0 block_witness = Some (sf, obs) /\
    lookup 2 (clients sf) = Some c /\ torn c = true.
Proof. exact block_refuted_before_fix. Qed.

Theorem C11_interrupted_refuted_before_fix :
  exists sf obs c, Forall ev_wf intr_witness /\
    run before_intr None st0 intr_witness = Some (sf, obs) /\
    lookup 2 (clients sf) = Some c /\ torn c = true.
Proof. exact interrupted_refuted_before_fix. Qed.

Theorem C11_zero_buffer_refuted_before_fix : forall s metas frames ws, metas <> [] \/ frames <> [] ->
  step_wake before_zero (Some 0) s metas frames ws = None.
Proof. exact zero_refuted_before_fix. Qed.

Theorem C11_zero_buffer_is_one_after_fix : lim_of fixed (Some 0) = 1.
Proof. exact zero_after_fix. Qed.

(* the wire format: the Spec decoder inverts the Model encoders *)
Theorem C11_fields_roundtrip : forall l, Forall ok_field l -> fields (enc_fields l) = Some l.
Proof. exact fields_roundtrip. Qed.

Theorem C11_metadata_roundtrip : forall name m,
  decode_event (meta_body name m) = Some (DMeta (mkDMeta name (m_type m) (m_unit m) (m_desc m))).
Proof. exact meta_roundtrip. Qed.

(* name, labels (as collected into the BTreeMap), operation kind and value intact, for every
   name, label list, timestamp and value (doubles as 64-bit patterns) *)
Theorem C11_metric_roundtrip : forall i secs nanos, op_ok (mi_op i) ->
  split_frames (enc_metric i secs nanos) = ([metric_body i secs nanos], []) /\
  decode_event (metric_body i secs nanos) =
  Some (DMetric (mkDMetric (mi_name i) (btree_of (mi_labels i)) (fst (op_num (mi_op i))) (snd (op_num (mi_op i))))).
Proof. exact metric_frame_roundtrip. Qed.

(* reflection of the stream clause: a stream with the shape established by C11_stream_integrity
   and C11_prefix_metadata_then_metrics_in_order passes the boolean check of Spec.v *)
Theorem C11_stream_log_ok_reflect : forall x ML KL ML1 KL1 s p,
  s = concat (map enc (map mbody ML1 ++ map kbody KL1)) ++ p ->
  tail_ok p -> (x_stay x = true -> p = []) ->
  Forall item_ok KL1 ->
  Subseq ML1 ML -> Subseq KL1 KL ->
  Permutation (map dm ML) (x_log_metas x) ->
  x_metric_bodies x = map kbody KL ->
  (x_stay x && x_full x = true -> ML1 = ML /\ KL1 = KL) ->
  stream_log_ok x s = true.
Proof. exact stream_log_ok_reflect. Qed.

Theorem C11_spec_ok_sound : forall c o, spec_ok c o = true ->
  o_served o = true /\ o_quiet o = true /\ Forall obs_good (o_obs o) /\
  streams_ok c (c_clients c) (o_streams o) = true.
Proof. exact spec_ok_sound. Qed.

Theorem C11_stream_ok_whole_frames : forall x s, stream_ok x s = true -> x_stay x = true ->
  exists bodies es, split_frames s = (bodies, []) /\ decode_all bodies = Some es.
Proof. exact stream_ok_whole. Qed.

(* The model's own run passes spec_ok.  [case_wf c]: the recorded events are a run of the model
   (not stuck), every wake-up frame is an encoded metric (ev_ok; follows from the recorded inputs by
   C11_recorded_events_ok), the run ends quiet (every client marked as staying is flushed), and every
   client entry of the case names the accept that created it (token = 2 + number of accepts before
   it), is STILL CONNECTED in the model's final state (the named hypothesis [still_connected] inside
   client_wf: streams of clients the model has moved to `gone` are not covered) and was discarded
   for exactly when the log says so.  [harness_ok c]: the log agrees with the harness's describes and
   emissions (a predicate on the case alone). *)
Theorem C11_spec_ok_on_model : forall c, case_wf c -> harness_ok c = true -> spec_ok c (run_case c) = true.
Proof. exact spec_ok_on_model. Qed.

Theorem C11_recorded_events_ok : forall c, Forall cevent_ok (c_cevents c) -> Forall ev_ok (c_events c).
Proof. exact recorded_events_ok. Qed.

(* the hypotheses of C11_spec_ok_on_model (still_connected included) hold on a concrete case with
   metadata, two short-write steps and a metric *)
Theorem C11_spec_ok_on_model_example :
  case_wf ex_case /\ harness_ok ex_case = true /\ spec_ok ex_case (run_case ex_case) = true.
Proof. exact (conj ex_case_wf (conj ex_case_harness ex_case_spec_ok)). Qed.

Theorem C11_example_run :
  Forall ev_wf ex_events /\
  exists sf obs c, run fixed (Some 2) st0 ex_events = Some (sf, obs) /\
    lookup 2 (clients sf) = Some c /\ overflowed c = false /\ obs_ok obs = true /\
    split_frames (sent c) = ([[10; 11; 10; 1; 109; 16; 1; 26; 1; 115; 34; 1; 100]; [7; 7]; [8; 8]; [7; 7]], []).
Proof. exact example_run. Qed.

(* Clients the model has REMOVED by the end of a run (write error / zero write: the `gone` ghost).
   What such a client's socket accepted is whole frames plus a proper prefix of one frame (as the
   Spec allows for a client that left), in order a subsequence of what was enqueued for it, and what
   was enqueued for it is a prefix of (metadata at its accept ++ frames fanned out after its
   accept): nothing from after its removal. *)
Theorem C11_removed_client_stream : forall limit evs1 order evs2 s1 s2 sf o1 o2,
  Forall ev_wf evs1 -> Forall ev_wf evs2 ->
  run fixed limit st0 evs1 = Some (s1, o1) ->
  step fixed limit s1 (EAccept order) = Some s2 ->
  run fixed limit s2 evs2 = Some (sf, o2) ->
  lookup (next_token s1) (clients sf) = None ->
  exists ms cg bs rest,
    gen_meta (metadata s1) order = Some ms /\
    lookup (next_token s1) (gone sf) = Some cg /\
    sent cg = concat (map enc bs) ++ pfx cg /\ tail_ok (pfx cg) /\
    split_frames (sent cg) = (bs, pfx cg) /\
    Subseq (map enc bs) (enq cg) /\
    ms ++ wake_frames evs2 = enq cg ++ rest.
Proof. exact removed_client_stream. Qed.

(* C11_spec_ok_on_model without the still_connected hypothesis: [case_wf_all] is [case_wf] with
   "the client is still in the model's `clients`" replaced by "the model has a record of the client,
   connected or removed" (find_client).  What remains is only the meaning of the mark: a client
   marked as STAYING (connected and reading until the end) is connected in the model's final state;
   for a staying client that the model had removed the statement would be false (spec_ok demands its
   stream whole and complete).  C11_spec_ok_on_model is the special case (C11_case_wf_weaken). *)
Theorem C11_spec_ok_on_model_all_clients : forall c,
  case_wf_all c -> harness_ok c = true -> spec_ok c (run_case c) = true.
Proof. exact spec_ok_on_model_all. Qed.

Theorem C11_case_wf_weaken : forall c, case_wf c -> case_wf_all c.
Proof. exact case_wf_weaken. Qed.

(* satisfiable with a client the model has removed (token 2: write error during a fan-out) *)
Theorem C11_spec_ok_on_model_removed_example :
  (case_wf_all ex_case_gone /\
   exists sf obs, run fixed (Some 2) st0 (c_events ex_case_gone) = Some (sf, obs) /\
                  lookup 2 (clients sf) = None /\ lookup 2 (gone sf) <> None) /\
  harness_ok ex_case_gone = true /\ spec_ok ex_case_gone (run_case ex_case_gone) = true.
Proof. exact (conj ex_case_gone_wf ex_case_gone_spec_ok). Qed.

(* The emitter -> transport wake-up handshake, in the separate interleaving model of Wake.v
   (push_metric = try_send then wake; mio waker; the WAKER arm's receive loop; any number of
   emitting threads, any schedule, any channel capacity).  This small model is not tied to the code
   by trace validation; the free-running engine of the check is its only tie to /repo. *)
Theorem C11_wake_always_never_stuck : forall n cap ls s,
  wrun WakeAlways cap (winit n) ls = Some s -> ~ stuck s.
Proof. exact wake_always_never_stuck. Qed.

Theorem C11_wake_if_was_empty_gets_stuck :
  exists s, wrun WakeIfWasEmpty 4096 (winit 1) lost_wakeup_schedule = Some s /\ stuck s.
Proof. exact wake_if_was_empty_gets_stuck. Qed.
