(* C11 — the emitter -> transport wake-up handshake (State::push_metric / State::wake, mio Waker,
   the WAKER arm's receive loop), as a small separate interleaving model.  Definitions and proofs.

   chan     number of messages in the metrics channel
   pending  the waker's readiness is set and not yet consumed by poll()
   tp       the transport thread: Parked (in / on its way to poll()) or Draining (inside the WAKER
            arm's receive loop)
   ems      one program counter per emitting thread inside push_metric:
            EIdle (not in push_metric), EChecked b (seeded variant only: has read is_empty()),
            ESent (try_send done, wake() not yet called)
   Every label is one atomic step of one thread; a schedule is any list of labels.               *)
From Coq Require Import List Bool Arith Lia.
Import ListNotations.

Inductive epc := EIdle | EChecked (was_empty : bool) | ESent.
Inductive tpc := Parked | Draining.
Record wstate := mkW { chan : nat; pending : bool; tp : tpc; ems : list epc }.

(* the code (wake after every try_send) and the variant that wakes only if the channel was seen empty *)
Inductive proto := WakeAlways | WakeIfWasEmpty.

Inductive wlabel := Emit (i : nat) | Poll | Recv | DrainEmpty | LimitBreak.

Fixpoint set_nth {A} (i : nat) (x : A) (l : list A) : list A :=
  match l, i with
  | [], _ => []
  | _ :: r, O => x :: r
  | y :: r, S k => y :: set_nth k x r
  end.

Definition push (cap : nat) (n : nat) : nat := if n <? cap then S n else n.   (* try_send; full: dropped *)

Definition wstep (P : proto) (cap : nat) (s : wstate) (l : wlabel) : option wstate :=
  match l with
  | Emit i =>
    match nth_error (ems s) i with
    | None => None
    | Some EIdle =>
      match P with
      | WakeAlways => Some (mkW (push cap (chan s)) (pending s) (tp s) (set_nth i ESent (ems s)))
      | WakeIfWasEmpty => Some (mkW (chan s) (pending s) (tp s) (set_nth i (EChecked (chan s =? 0)) (ems s)))
      end
    | Some (EChecked b) =>
      match P with
      | WakeAlways => None                    (* the code has no such program point *)
      | WakeIfWasEmpty =>
        Some (mkW (push cap (chan s)) (pending s) (tp s) (set_nth i (if b then ESent else EIdle) (ems s)))
      end
    | Some ESent => Some (mkW (chan s) true (tp s) (set_nth i EIdle (ems s)))          (* waker.wake() *)
    end
  | Poll =>                                   (* poll() returns the WAKER event and consumes it *)
    match tp s, pending s with
    | Parked, true => Some (mkW (chan s) false Draining (ems s))
    | _, _ => None
    end
  | Recv =>                                   (* try_recv() = Ok *)
    match tp s, chan s with
    | Draining, S n => Some (mkW n (pending s) Draining (ems s))
    | _, _ => None
    end
  | DrainEmpty =>                             (* try_recv() = Empty: leave the loop, back to poll() *)
    match tp s, chan s with
    | Draining, O => Some (mkW O (pending s) Parked (ems s))
    | _, _ => None
    end
  | LimitBreak =>                             (* buffered_pmsgs.len() >= buffer_limit: state.wake(); break *)
    match tp s with
    | Draining => Some (mkW (chan s) true Parked (ems s))
    | Parked => None
    end
  end.

Fixpoint wrun (P : proto) (cap : nat) (s : wstate) (ls : list wlabel) : option wstate :=
  match ls with
  | [] => Some s
  | l :: r => match wstep P cap s l with Some s' => wrun P cap s' r | None => None end
  end.

Definition winit (n : nat) : wstate := mkW 0 false Parked (repeat EIdle n).

(* a message sits in the channel, the transport is parked with no wake-up on its way, and no
   emitter is about to send one *)
Definition stuck (s : wstate) : Prop :=
  chan s > 0 /\ pending s = false /\ tp s = Parked /\ Forall (fun e => e = EIdle) (ems s).

Definition winv (s : wstate) : Prop :=
  chan s > 0 -> pending s = true \/ tp s = Draining \/ In ESent (ems s).

Lemma set_nth_In {A} (x : A) : forall l i y, nth_error l i = Some y -> In x (set_nth i x l).
Proof.
  induction l as [|z l IH]; intros [|i] y H; cbn in *; try discriminate; auto.
  right. eapply IH; eauto.
Qed.

Lemma wstep_inv cap s l s' : winv s -> wstep WakeAlways cap s l = Some s' -> winv s'.
Proof.
  intros I St. unfold winv. destruct l as [i| | | |]; cbn [wstep] in St.
  - destruct (nth_error (ems s) i) as [[|b|]|] eqn:N; try discriminate; injection St as <-; cbn; intros _.
    + right; right. eapply set_nth_In; eauto.
    + auto.
  - destruct (tp s), (pending s); try discriminate. injection St as <-. cbn. auto.
  - destruct (tp s), (chan s); try discriminate. injection St as <-. cbn. auto.
  - destruct (tp s), (chan s); try discriminate. injection St as <-. cbn. lia.
  - destruct (tp s); try discriminate. injection St as <-. cbn. auto.
Qed.

Lemma wrun_inv cap : forall ls s s', winv s -> wrun WakeAlways cap s ls = Some s' -> winv s'.
Proof.
  induction ls as [|l ls IH]; intros s s' I R; cbn [wrun] in R.
  - injection R as <-. auto.
  - destruct (wstep WakeAlways cap s l) as [w|] eqn:St; [|discriminate].
    apply (IH w s'); auto. eapply wstep_inv; eauto.
Qed.

Lemma winv_not_stuck s : winv s -> ~ stuck s.
Proof.
  intros I (C & P & T & E). destruct (I C) as [H|[H|H]]; try congruence.
  eapply Forall_forall in E; eauto. discriminate.
Qed.

(* with a wake-up after every try_send no schedule of any number of emitters against the transport
   leaves a message in the channel with the transport parked and nobody about to wake it *)
Theorem wake_always_never_stuck n cap ls s :
  wrun WakeAlways cap (winit n) ls = Some s -> ~ stuck s.
Proof.
  intros R. apply winv_not_stuck. eapply wrun_inv; eauto. unfold winv, winit. cbn. lia.
Qed.

(* the variant loses a wake-up: the emitter reads is_empty() = false, the transport takes the last
   message and parks, the emitter's try_send lands with nobody woken *)
Definition lost_wakeup_schedule : list wlabel :=
  [Emit 0; Emit 0; Emit 0;        (* first push: sees empty, sends, wakes *)
   Emit 0;                        (* second push: is_empty() = false *)
   Poll; Recv; DrainEmpty;        (* transport drains the channel and goes back to poll() *)
   Emit 0].                       (* try_send; no wake *)
Theorem wake_if_was_empty_gets_stuck :
  exists s, wrun WakeIfWasEmpty 4096 (winit 1) lost_wakeup_schedule = Some s /\ stuck s.
Proof.
  eexists. split; [vm_compute; reflexivity|]. repeat split; cbn; auto.
Qed.
