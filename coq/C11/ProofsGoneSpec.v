(* C11 — spec_ok on the model's own run, also for clients the model has removed by the end. *)
From Coq Require Import List NArith ZArith Bool Lia Permutation.
Import ListNotations.
Require Import MV.C11.Model MV.C11.Spec MV.C11.Exec MV.C11.ProofsFraming MV.C11.ProofsInv
        MV.C11.ProofsState MV.C11.ProofsCount MV.C11.ProofsOrder MV.C11.ProofsWire MV.C11.ProofsReflect
        MV.C11.ProofsStream MV.C11.ProofsBook MV.C11.ProofsMain MV.C11.ProofsSpecOk
        MV.C11.ProofsGone MV.C11.ProofsGoneTrack.
Open Scope N_scope.

(* everything the accept at index a fixes about a run *)
Lemma accept_setup limit evs a order sf obs x :
  run fixed limit st0 evs = Some (sf, obs) -> Forall ev_ok evs ->
  nth_error evs a = Some (EAccept order) ->
  x_log_metas x = log_metas (firstn a evs) ->
  x_metric_bodies x = log_metric_bodies (skipn (S a) evs) ->
  exists s1 s2 o2 ML KL,
    run fixed limit s2 (skipn (S a) evs) = Some (sf, o2) /\
    next_token s1 = 2 + accepts (firstn a evs) /\
    cnt_inv s1 /\ gone_fresh s1 /\ cs_inv (clients s2) /\ Forall ev_wf (skipn (S a) evs) /\
    clients s2 = clients s1 ++ [(next_token s1, fresh (map (fun nm => enc (mbody nm)) ML))] /\
    gone s2 = gone s1 /\ next_token s2 = next_token s1 + 1 /\
    Permutation (map dm ML) (x_log_metas x) /\
    wake_frames (skipn (S a) evs) = map (fun it => enc (kbody it)) KL /\ Forall item_ok KL /\
    x_metric_bodies x = map kbody KL.
Proof.
  intros R Ok Nth Xm Xk.
  pose proof (nth_error_cut _ _ _ Nth) as Cut.
  remember (firstn a evs) as evs1. remember (skipn (S a) evs) as evs2.
  clear Heqevs1 Heqevs2. subst evs.
  apply Forall_app in Ok. destruct Ok as [Ok1 Ok2']. inversion Ok2' as [|? ? _ Ok2]; subst.
  destruct (run_app _ _ _ _ _ _ _ R) as (s1 & o1 & o2 & R1 & R2').
  cbn [run] in R2'. destruct (step fixed limit s1 (EAccept order)) as [s2|] eqn:St; [|discriminate].
  destruct (run fixed limit s2 evs2) as [[sf' o2']|] eqn:R2; [|discriminate].
  injection R2' as -> _.
  assert (W1 : Forall ev_wf evs1) by (eapply Forall_impl; [|exact Ok1]; apply ev_ok_wf).
  assert (W2 : Forall ev_wf evs2) by (eapply Forall_impl; [|exact Ok2]; apply ev_ok_wf).
  pose proof (run_next_token _ _ _ _ _ _ R1) as Nt. change (next_token st0) with 2 in Nt.
  pose proof (run_inv _ _ _ _ _ st0_inv W1 R1) as I1.
  assert (I2 : cs_inv (clients s2)) by (eapply step_inv; eauto; exact I).
  destruct (run_cnt fixed limit eq_refl _ _ _ _ st0_cnt R1) as [C1 _].
  assert (G1 : gone_fresh s1).
  { eapply (run_gone_fresh fixed limit eq_refl); [exact st0_cnt| |exact R1]. constructor. }
  assert (Nd : NoDup (map fst (metadata s1))).
  { eapply run_md_nodup; [exact R1|]. constructor. }
  destruct (accept_metas _ _ _ _ _ St Nd) as (ML & G' & Perm).
  pose proof (run_md_view _ _ _ _ _ _ R1) as Mv. change (md_view (metadata st0)) with (@nil dmeta) in Mv.
  rewrite <- log_metas_fold in Mv. rewrite Mv, <- Xm in Perm.
  destruct (wake_items _ Ok2) as (KL & Ew & HK).
  pose proof (log_bodies_items _ _ Ew) as Lb. rewrite <- Xk in Lb.
  exists s1, s2, o2', ML, KL.
  cbn [step] in St. unfold step_accept in St. destruct (negb _); [discriminate|].
  rewrite G' in St. injection St as <-. cbn [clients gone next_token increment_clients].
  repeat split; auto. all: destruct C1; auto.
Qed.

(* a stream of the removed-client shape passes the (inexact) stream check of a client that left *)
Lemma shape_stream_ok x ML KL bs s p :
  x_stay x = false ->
  s = concat (map enc bs) ++ p -> tail_ok p ->
  Subseq (map enc bs) (map (fun nm => enc (mbody nm)) ML ++ map (fun it => enc (kbody it)) KL) ->
  Forall item_ok KL ->
  Permutation (map dm ML) (x_log_metas x) ->
  x_metric_bodies x = map kbody KL ->
  stream_log_ok x s = true.
Proof.
  intros Hs -> Tp Hsub HK Perm Lb.
  destruct (Subseq_app_split _ _ _ Hsub) as (l1 & l2 & El & S1 & S2).
  destruct (Subseq_map_inv _ _ _ S1) as (ML1 & -> & S1').
  destruct (Subseq_map_inv _ _ _ S2) as (KL1 & -> & S2').
  rewrite map_enc_bodies in El.
  apply (stream_log_ok_reflect x ML KL ML1 KL1 _ p); auto.
  - rewrite El. reflexivity.
  - rewrite Hs. discriminate.
  - eapply Subseq_Forall; eauto.
  - rewrite Hs. cbn. discriminate.
Qed.

Lemma Subseq_prefix {A} (a r : list A) : Subseq a (a ++ r).
Proof. rewrite <- (app_nil_r a) at 1. apply Subseq_app; [apply Subseq_refl|apply Subseq_nil_l]. Qed.

(* a client the model has removed by the end of the run *)
Lemma gone_stream_ok limit evs a order t sf obs k x :
  run fixed limit st0 evs = Some (sf, obs) ->
  Forall ev_ok evs ->
  nth_error evs a = Some (EAccept order) ->
  t = 2 + accepts (firstn a evs) ->
  lookup t (clients sf) = None -> lookup t (gone sf) = Some k ->
  x_log_metas x = log_metas (firstn a evs) ->
  x_metric_bodies x = log_metric_bodies (skipn (S a) evs) ->
  x_stay x = false ->
  stream_log_ok x (sent k) = true.
Proof.
  intros R Ok Nth Ht Lc Lg Xm Xk Hs.
  destruct (accept_setup _ _ _ _ _ _ _ R Ok Nth Xm Xk)
    as (s1 & s2 & o2 & ML & KL & R2 & Nt & C1 & G1 & I2 & W2 & Ec & Eg & En & Perm & Ew & HK & Lb).
  rewrite <- Nt in Ht. subst t.
  assert (L1 : lookup (next_token s1) (clients s1) = None).
  { eapply lookup_fresh_none; [exact (cn_fresh _ C1)|lia]. }
  assert (L2 : lookup (next_token s1) (clients s2) = Some (fresh (map (fun nm => enc (mbody nm)) ML))).
  { rewrite Ec, lookup_app_none by exact L1. cbn [lookup]. rewrite N.eqb_refl. reflexivity. }
  assert (Gn : lookup (next_token s1) (gone s2) = None).
  { rewrite Eg. eapply lookup_fresh_none; [exact G1|lia]. }
  assert (Lt : next_token s1 < next_token s2) by lia.
  destruct (run_track _ _ _ _ _ _ _ I2 W2 R2 Lt L2 Gn) as [(cf & Lf & _)|(_ & cg & rest & Lg' & Gi & Eq)].
  { congruence. }
  rewrite Lg in Lg'. injection Lg' as <-.
  destruct Gi as (bs & Hsent & Tp & Hsub). cbn [fresh enq] in Eq. rewrite Ew in Eq.
  eapply (shape_stream_ok x ML KL bs); eauto.
  eapply Subseq_trans; [exact Hsub|]. rewrite Eq. apply Subseq_prefix.
Qed.

(* ---------------------------------------------------------------- cases, without still_connected *)
(* as client_wf, but the client may be one the model has removed; only a client marked as staying
   (connected and reading until the end) must still be connected in the model's final state *)
Definition client_wf_all (c : case) (sf : state) (i : cinfo) : Prop :=
  exists t order k,
    ci_tok i = Some t /\
    nth_error (c_events c) (ci_at i) = Some (EAccept order) /\
    t = 2 + accepts (firstn (ci_at i) (c_events c)) /\
    find_client sf t = Some k /\
    (ci_stay i = true -> lookup t (clients sf) = Some k) /\
    overflowed k = existsb (N.eqb t) (c_drops c).

Definition case_wf_all (c : case) : Prop :=
  exists sf obs,
    run fixed (c_limit c) st0 (c_events c) = Some (sf, obs) /\
    Forall ev_ok (c_events c) /\
    o_quiet (run_case c) = true /\
    Forall (client_wf_all c sf) (c_clients c).

Lemma case_wf_weaken c : case_wf c -> case_wf_all c.
Proof.
  intros (sf & obs & R & Ok & Q & Cw). exists sf, obs. repeat split; auto.
  eapply Forall_impl; [|exact Cw]. intros i (t & order & k & Ht & Nth & Et & L & Ov).
  exists t, order, k. repeat split; auto. unfold find_client. rewrite L. reflexivity.
Qed.

Theorem spec_ok_on_model_all c : case_wf_all c -> harness_ok c = true -> spec_ok c (run_case c) = true.
Proof.
  intros (sf & obs & R & Ok & Q & Cw) Hh. unfold spec_ok. rewrite (run_case_eq _ _ _ R) in *.
  cbn [o_served o_quiet o_obs o_streams] in *. rewrite Q.
  destruct (client_count_exact fixed _ _ _ _ eq_refl R) as (_ & _ & ->). cbn [andb].
  apply streams_ok_map. intros i Hin.
  eapply Forall_forall in Cw; [|exact Hin].
  destruct Cw as (t & order & k & Ht & Nth & Et & Fc & Hst & Ov).
  unfold stream_ok. apply andb_true_iff. split.
  2:{ unfold harness_ok in Hh. eapply forallb_forall in Hh; eauto. }
  assert (Mc : model_client sf i = Some k) by (unfold model_client; rewrite Ht; exact Fc).
  rewrite Mc.
  destruct (lookup t (clients sf)) as [k'|] eqn:L.
  - (* still connected *)
    assert (k' = k) by (unfold find_client in Fc; rewrite L in Fc; congruence). subst k'.
    eapply (connected_stream_ok (c_limit c) (c_events c) (ci_at i) order t sf obs k); eauto.
    + cbn [expect_of x_stay]. intros Hs. eapply forallb_forall in Q; [|exact Hin].
      rewrite Hs, Mc in Q. exact Q.
    + cbn [expect_of x_full]. rewrite Ht, Ov. intros H. apply negb_true_iff in H. exact H.
  - (* removed by the model *)
    assert (Lg : lookup t (gone sf) = Some k) by (unfold find_client in Fc; rewrite L in Fc; exact Fc).
    assert (Hs : ci_stay i = false).
    { destruct (ci_stay i) eqn:E; auto. specialize (Hst eq_refl). congruence. }
    eapply (gone_stream_ok (c_limit c) (c_events c) (ci_at i) order t sf obs k); eauto.
Qed.

(* ---------------------------------------------------------------- Prop-level statement for removed clients *)
Theorem removed_client_stream limit evs1 order evs2 s1 s2 sf o1 o2 :
  Forall ev_wf evs1 -> Forall ev_wf evs2 ->
  run fixed limit st0 evs1 = Some (s1, o1) ->
  step fixed limit s1 (EAccept order) = Some s2 ->
  run fixed limit s2 evs2 = Some (sf, o2) ->
  lookup (next_token s1) (clients sf) = None ->
  exists ms cg bs rest,
    gen_meta (metadata s1) order = Some ms /\
    lookup (next_token s1) (gone sf) = Some cg /\
    sent cg = concat (map enc bs) ++ pfx cg /\ tail_ok (pfx cg) /\
    split_frames (sent cg) = (bs, pfx cg) /\
    Subseq (map enc bs) (enq cg) /\
    ms ++ wake_frames evs2 = enq cg ++ rest.
Proof.
  intros W1 W2 R1 St R2 Lc.
  pose proof (run_inv _ _ _ _ _ st0_inv W1 R1) as I1.
  assert (I2 : cs_inv (clients s2)) by (eapply step_inv; eauto; exact I).
  destruct (run_cnt fixed limit eq_refl _ _ _ _ st0_cnt R1) as [C1 _].
  assert (G1 : gone_fresh s1).
  { eapply (run_gone_fresh fixed limit eq_refl); [exact st0_cnt| |exact R1]. constructor. }
  cbn [step] in St. unfold step_accept in St. destruct (negb _); [discriminate|].
  destruct (gen_meta (metadata s1) order) as [ms|] eqn:G; [|discriminate]. injection St as <-.
  cbn [clients gone next_token increment_clients] in *.
  assert (L1 : lookup (next_token s1) (clients s1) = None).
  { eapply lookup_fresh_none; [exact (cn_fresh _ C1)|lia]. }
  assert (Gn : lookup (next_token s1) (gone s1) = None).
  { eapply lookup_fresh_none; [exact G1|lia]. }
  match type of R2 with run _ _ ?s _ = _ =>
    destruct (run_track limit (next_token s1) evs2 s sf o2 (fresh ms)) as [(cf & Lf & _)|(_ & cg & rest & Lg & Gi & Eq)]; auto
  end.
  - cbn [next_token]. lia.
  - cbn [clients]. rewrite lookup_app_none by exact L1. cbn [lookup]. rewrite N.eqb_refl. reflexivity.
  - congruence.
  - destruct Gi as (bs & Hsent & Tp & Hsub). exists ms, cg, bs, rest. cbn [fresh enq] in Eq.
    repeat split; auto. rewrite Hsent. apply split_frames_concat. exact Tp.
Qed.

(* ---------------------------------------------------------------- the hypotheses are satisfiable with a removed client *)
Definition ex_case_gone : case :=
  mkCase (Some 2)
         [CAccept []; CAccept [];
          CWake [] [ex_item] [ex_logged] [(2, [WErr]); (3, [Wrote 22])]]
         []
         [mkCinfo (Some 2) 0 false [] [([49], [mkDMetric [97] [([116], [49])] 4 1])];
          mkCinfo (Some 3) 1 true [] [([49], [mkDMetric [97] [([116], [49])] 4 1])]].

Lemma ex_case_gone_wf : case_wf_all ex_case_gone /\
  exists sf obs, run fixed (Some 2) st0 (c_events ex_case_gone) = Some (sf, obs) /\
                 lookup 2 (clients sf) = None /\ lookup 2 (gone sf) <> None.
Proof.
  split.
  - eexists. eexists. split; [vm_compute; reflexivity|]. split; [|split].
    + unfold ex_case_gone, c_events. cbn [c_cevents map to_event].
      do 2 (constructor; [exact I|]). constructor; [|constructor].
      cbn [ev_ok]. replace (enc_items [ex_item] [ex_logged]) with [enc (kbody (ex_item, 5, 7))] by (vm_compute; reflexivity).
      constructor; [|constructor]. exists (ex_item, 5, 7). split; [exact I|reflexivity].
    + vm_compute. reflexivity.
    + constructor; [|constructor; [|constructor]].
      * eexists. eexists. eexists. split; [reflexivity|]. split; [vm_compute; reflexivity|].
        split; [vm_compute; reflexivity|]. split; [vm_compute; reflexivity|]. split; [discriminate|vm_compute; reflexivity].
      * eexists. eexists. eexists. split; [reflexivity|]. split; [vm_compute; reflexivity|].
        split; [vm_compute; reflexivity|]. split; [vm_compute; reflexivity|]. split; [intros _; vm_compute; reflexivity|vm_compute; reflexivity].
  - eexists. eexists. split; [vm_compute; reflexivity|]. split; [vm_compute; reflexivity|vm_compute; discriminate].
Qed.

Lemma ex_case_gone_spec_ok : harness_ok ex_case_gone = true /\ spec_ok ex_case_gone (run_case ex_case_gone) = true.
Proof.
  assert (H : harness_ok ex_case_gone = true) by (vm_compute; reflexivity).
  split; [exact H|]. apply spec_ok_on_model_all; [apply ex_case_gone_wf|exact H].
Qed.
