(* C11 — the stream invariant holds for every connected client at every event boundary. *)
From Coq Require Import List NArith ZArith Bool Lia.
Import ListNotations.
Require Import MV.C11.Model MV.C11.Spec MV.C11.ProofsFraming MV.C11.ProofsInv.
Open Scope N_scope.

Definition cs_inv (cs : list (token * client)) : Prop := Forall (fun tc => cinv (snd tc)) cs.
Definition ev_wf (e : event) : Prop :=
  match e with EWake _ frames _ => Forall wf_frame frames | _ => True end.

Lemma fan_out_inv lim frames ws : Forall wf_frame frames -> forall cs cs' rm, cs_inv cs ->
  fan_out fixed lim frames ws cs = Some (cs', rm) ->
  Forall (fun tc => In (fst tc) rm \/ cinv (snd tc)) cs' /\ map fst cs' = map fst cs.
Proof.
  intros Wf. induction cs as [|[t c] cs IH]; intros cs' rm I F.
  - injection F as <- <-. split; auto.
  - cbn [fan_out] in F. inversion I as [|? ? Ic Ics]; subst. cbn [snd] in Ic.
    destruct (fan_one fixed lim frames (ws_for t ws) c) as [[d c']|] eqn:F1; [|discriminate].
    destruct (fan_out fixed lim frames ws cs) as [[cs1 rm1]|] eqn:F2; [|discriminate].
    injection F as <- <-. destruct (IH _ _ Ics eq_refl) as [IH1 IH2].
    split; [|cbn [map fst]; congruence].
    constructor.
    + cbn [fst snd]. destruct d; [left; cbn; auto|right].
      apply (fan_one_inv _ _ _ _ _ Ic Wf F1).
    + eapply Forall_impl; [|exact IH1]. cbn beta. intros tc [H|H]; auto.
      left. destruct d; cbn [In]; auto.
Qed.

Lemma remove_tok_In {A} t (l : list (token * A)) tc :
  In tc (remove_tok t l) -> In tc l /\ fst tc <> t.
Proof.
  induction l as [|[k v] l IH]; cbn [remove_tok In]; [tauto|].
  destruct (k =? t) eqn:E.
  - intros H. destruct (IH H). auto.
  - cbn [In]. intros [<-|H].
    + split; auto. cbn [fst]. apply N.eqb_neq; auto.
    + destruct (IH H). auto.
Qed.

Lemma lookup_none_remove {A} t (l : list (token * A)) : lookup t l = None -> remove_tok t l = l.
Proof.
  induction l as [|[k v] l IH]; cbn [lookup remove_tok]; auto.
  destruct (k =? t); [discriminate|]. intros H. rewrite IH; auto.
Qed.

Lemma remove_client_clients s t : clients (remove_client s t) = remove_tok t (clients s).
Proof.
  unfold remove_client. destruct (lookup t (clients s)) eqn:E; cbn; auto.
  symmetry. apply lookup_none_remove; auto.
Qed.

Lemma fold_remove_In : forall rm s tc, In tc (clients (fold_left remove_client rm s)) ->
  In tc (clients s) /\ ~ In (fst tc) rm.
Proof.
  induction rm as [|t rm IH]; intros s tc H; cbn [fold_left] in H.
  - split; auto.
  - destruct (IH _ _ H) as [H1 H2]. rewrite remove_client_clients in H1.
    destruct (remove_tok_In _ _ _ H1) as [H3 H4]. split; auto.
    cbn [In]. intros [E|E]; auto.
Qed.

Lemma enc_meta_wf n m : wf_frame (enc_meta n m).
Proof. unfold enc_meta. eexists. reflexivity. Qed.

Lemma gen_meta_wf md : forall order ms, gen_meta md order = Some ms -> Forall wf_frame ms.
Proof.
  induction order as [|n r IH]; intros ms G; cbn [gen_meta] in G.
  - injection G as <-. constructor.
  - destruct (meta_lookup n md); [|discriminate]. destruct (gen_meta md r); [|discriminate].
    injection G as <-. constructor; auto. apply enc_meta_wf.
Qed.

Lemma fresh_inv ms : Forall wf_frame ms -> cinv (fresh ms).
Proof.
  intros W. constructor; cbn; auto.
  - apply Subseq_refl.
Qed.

Lemma step_inv limit s e s' : cs_inv (clients s) -> ev_wf e ->
  step fixed limit s e = Some s' -> cs_inv (clients s').
Proof.
  intros I W St. destruct e as [metas frames ws|order|t ws]; cbn [step] in St.
  - unfold step_wake in St. destruct (_ || _); [discriminate|].
    destruct frames as [|f fr].
    + injection St as <-. cbn. auto.
    + remember (f :: fr) as frames. cbn [clients] in St.
      destruct (fan_out fixed (lim_of fixed limit) frames ws (clients s)) as [[cs' rm]|] eqn:F; [|discriminate].
      injection St as <-. cbn [fix_dec fixed].
      destruct (fan_out_inv _ _ _ W _ _ _ I F) as [H1 _].
      apply Forall_forall. intros tc Hin.
      destruct (fold_remove_In _ _ _ Hin) as [H2 H3]. cbn [clients] in H2.
      eapply Forall_forall in H1; [|exact H2]. destruct H1; tauto.
  - unfold step_accept in St.
    destruct (negb _); [discriminate|].
    destruct (gen_meta (metadata s) order) as [ms|] eqn:G; [|discriminate].
    injection St as <-. cbn [clients increment_clients].
    apply Forall_app; split; auto. constructor; [|constructor]. cbn [snd].
    apply fresh_inv. eapply gen_meta_wf; eauto.
  - unfold step_writable in St.
    destruct (lookup t (clients s)) as [c|] eqn:L; [|discriminate].
    destruct (drive fixed ws c) as [[[d c'] ws']|] eqn:D; [|discriminate].
    destruct ws'; [|discriminate]. injection St as <-.
    assert (Ic : cinv c).
    { clear - I L. induction (clients s) as [|[k v] l IH]; [discriminate|].
      cbn [lookup] in L. inversion I; subst. destruct (k =? t); auto. injection L as <-. auto. }
    destruct d.
    + rewrite remove_client_clients. cbn [clients].
      apply Forall_forall. intros tc Hin. destruct (remove_tok_In _ _ _ Hin) as [H1 H2].
      apply in_map_iff in H1. destruct H1 as ([k v] & E & H1).
      destruct (k =? t) eqn:Ek.
      * subst tc. cbn [fst] in H2. apply N.eqb_eq in Ek. congruence.
      * subst tc. eapply Forall_forall in I; [|exact H1]. auto.
    + cbn [clients]. apply Forall_forall. intros tc Hin.
      apply in_map_iff in Hin. destruct Hin as ([k v] & E & H1).
      destruct (k =? t) eqn:Ek; subst tc; cbn [snd].
      * apply (drive_inv _ _ _ _ Ic D).
      * eapply Forall_forall in I; [|exact H1]. auto.
Qed.

Lemma run_inv limit : forall evs s sf obs, cs_inv (clients s) -> Forall ev_wf evs ->
  run fixed limit s evs = Some (sf, obs) -> cs_inv (clients sf).
Proof.
  induction evs as [|e evs IH]; intros s sf obs I W R; cbn [run] in R.
  - injection R as <- _. auto.
  - inversion W; subst.
    destruct (step fixed limit s e) as [s'|] eqn:St; [|discriminate].
    destruct (run fixed limit s' evs) as [[sf' obs']|] eqn:R'; [|discriminate].
    injection R as <- _. apply (IH s' sf' obs'); auto. eapply step_inv; eauto.
Qed.

(* what the invariant says about the bytes on the wire *)
Lemma wf_all_enc l : Forall wf_frame l -> exists bs, l = map enc bs.
Proof.
  induction 1 as [|f l [b ->] _ [bs ->]]; [exists []; auto|]. exists (b :: bs). auto.
Qed.

Lemma cinv_stream c : cinv c ->
  exists bodies,
    sent c = concat (map enc bodies) ++ pfx c /\
    written c = map enc bodies /\
    Subseq (map enc bodies) (enq c) /\
    (overflowed c = false -> exists rest, enq c = map enc bodies ++ rest) /\
    ((wbuf c = None /\ pfx c = []) \/
     (exists r b, wbuf c = Some r /\ r <> [] /\ pfx c ++ r = enc b)) /\
    split_frames (sent c) = (bodies, pfx c).
Proof.
  intros [S W Sub Full Wf].
  assert (Wseq : Forall wf_frame (fseq c)) by (eapply Subseq_Forall; eauto).
  unfold fseq in Wseq. apply Forall_app in Wseq. destruct Wseq as [Ww Wr].
  destruct (wf_all_enc _ Ww) as [bs Hbs]. exists bs.
  assert (T : (wbuf c = None /\ pfx c = []) \/
              (exists r b, wbuf c = Some r /\ r <> [] /\ pfx c ++ r = enc b)).
  { unfold inflight in Wr. destruct (wbuf c) as [r|]; [right|left; auto].
    apply Forall_app in Wr. destruct Wr as [Wi _]. inversion Wi as [|? ? [b Hb] _]; subst.
    exists r, b. auto. }
  rewrite S, Hbs. repeat split; auto.
  - rewrite <- Hbs. eapply Subseq_trans; [|exact Sub]. unfold fseq.
    rewrite <- (app_nil_r (written c)) at 1. apply Subseq_app; [apply Subseq_refl|apply Subseq_nil_l].
  - intros Ho. rewrite <- (Full Ho). unfold fseq. rewrite Hbs. eauto.
  - apply split_frames_concat. destruct T as [[_ ->]|(r & b & _ & Hr & E)]; [left; auto|right; eauto].
Qed.
