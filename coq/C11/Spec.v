(* C11 — the property, written independently of the transport model: an independent decoder of the
   wire format (length-delimited protobuf `Event`s) and what a client's byte stream must look like,
   relative to (a) what the exporter drained from its channel after accepting the client (the log)
   and (b) what the harness threads emitted. *)
From Coq Require Import List NArith ZArith Bool.
Import ListNotations.
Require Export MV.C11.Wire.
Open Scope N_scope.

Definition sbytes := list N.
Definition slen {A} (l : list A) : N := N.of_nat (length l).

(* ---- LEB128 and length-delimited splitting *)
Fixpoint decode_varint (s : sbytes) : option (N * sbytes) :=
  match s with
  | [] => None
  | b :: r =>
    if b <? 128 then Some (b, r)
    else match decode_varint r with
         | Some (v, r') => Some (b - 128 + 128 * v, r')
         | None => None
         end
  end.

(* whole message bodies in order, and the undecodable / incomplete rest *)
Fixpoint split_fuel (fuel : nat) (s : sbytes) : list sbytes * sbytes :=
  match fuel with
  | O => ([], s)
  | S k =>
    match s with
    | [] => ([], [])
    | _ =>
      match decode_varint s with
      | None => ([], s)
      | Some (n, r) =>
        if slen r <? n then ([], s)
        else let '(fs, t) := split_fuel k (skipn (N.to_nat n) r) in
             (firstn (N.to_nat n) r :: fs, t)
      end
    end
  end.
Definition split_frames (s : sbytes) : list sbytes * sbytes := split_fuel (S (length s)) s.

(* ---- protobuf wire format *)

Fixpoint le_num (s : sbytes) : N := match s with [] => 0 | b :: r => b + 256 * le_num r end.

Fixpoint parse_fields (fuel : nat) (s : sbytes) : option (list (N * wv)) :=
  match fuel with
  | O => None
  | S k =>
    match s with
    | [] => Some []
    | _ =>
      match decode_varint s with
      | None => None
      | Some (tag, r) =>
        let f := tag / 8 in
        let rest_with (v : wv) (r' : sbytes) :=
          match parse_fields k r' with Some l => Some ((f, v) :: l) | None => None end in
        match tag mod 8 with
        | 0 => match decode_varint r with Some (v, r') => rest_with (VInt v) r' | None => None end
        | 1 => if slen r <? 8 then None else rest_with (V64 (le_num (firstn 8 r))) (skipn 8 r)
        | 2 => match decode_varint r with
               | Some (n, r') => if slen r' <? n then None
                                 else rest_with (VLen (firstn (N.to_nat n) r')) (skipn (N.to_nat n) r')
               | None => None
               end
        | 5 => if slen r <? 4 then None else rest_with (V32 (le_num (firstn 4 r))) (skipn 4 r)
        | _ => None
        end
      end
    end
  end.
Definition fields (s : sbytes) := parse_fields (S (length s)) s.

Fixpoint last_field (f : N) (l : list (N * wv)) : option wv :=
  match l with
  | [] => None
  | (k, v) :: r => match last_field f r with Some x => Some x | None => if k =? f then Some v else None end
  end.
Definition str_field (f : N) (l : list (N * wv)) : option sbytes :=
  match last_field f l with Some (VLen b) => Some b | _ => None end.
Definition str_or_empty (f : N) (l : list (N * wv)) : sbytes :=
  match str_field f l with Some b => b | None => [] end.

(* decoded events *)
Record dmeta := mkDMeta { dm_name : sbytes; dm_type : N; dm_unit : option sbytes; dm_desc : option sbytes }.
Record dmetric := mkDMetric { dk_name : sbytes; dk_labels : list (sbytes * sbytes); dk_op : N; dk_val : N }.
Inductive devent := DMeta (m : dmeta) | DMetric (m : dmetric).

Definition decode_meta (b : sbytes) : option dmeta :=
  match fields b with
  | None => None
  | Some l =>
    Some (mkDMeta (str_or_empty 1 l)
                  (match last_field 2 l with Some (VInt n) => n | _ => 0 end)
                  (str_field 3 l) (str_field 4 l))
  end.

Definition decode_label (b : sbytes) : option (sbytes * sbytes) :=
  match fields b with
  | None => None
  | Some l => Some (str_or_empty 1 l, str_or_empty 2 l)
  end.

Fixpoint decode_labels (l : list (N * wv)) : option (list (sbytes * sbytes)) :=
  match l with
  | [] => Some []
  | (3, VLen b) :: r =>
    match decode_label b, decode_labels r with
    | Some kv, Some kvs => Some (kv :: kvs)
    | _, _ => None
    end
  | _ :: r => decode_labels r
  end.

(* the operation: exactly one field 4..9 (uint64 for 4,5; double bit pattern for 6..9) *)
Fixpoint decode_ops (l : list (N * wv)) : list (N * N) :=
  match l with
  | [] => []
  | (f, VInt n) :: r => if (4 <=? f) && (f <=? 5) then (f, n) :: decode_ops r else decode_ops r
  | (f, V64 n) :: r => if (6 <=? f) && (f <=? 9) then (f, n) :: decode_ops r else decode_ops r
  | _ :: r => decode_ops r
  end.

Definition decode_metric (b : sbytes) : option dmetric :=
  match fields b with
  | None => None
  | Some l =>
    match decode_labels l, decode_ops l with
    | Some kvs, [(op, v)] => Some (mkDMetric (str_or_empty 1 l) kvs op v)
    | _, _ => None
    end
  end.

Definition decode_event (body : sbytes) : option devent :=
  match fields body with
  | Some [(1, VLen m)] => match decode_meta m with Some d => Some (DMeta d) | None => None end
  | Some [(2, VLen m)] => match decode_metric m with Some d => Some (DMetric d) | None => None end
  | _ => None
  end.

(* ---- list helpers *)
Fixpoint sb_eqb (a b : sbytes) : bool :=
  match a, b with
  | [], [] => true
  | x :: r, y :: r' => (x =? y) && sb_eqb r r'
  | _, _ => false
  end.
Definition osb_eqb (a b : option sbytes) : bool :=
  match a, b with Some x, Some y => sb_eqb x y | None, None => true | _, _ => false end.

Section Lists.
  Context {A : Type} (eqb : A -> A -> bool).
  Fixpoint list_eqb (a b : list A) : bool :=
    match a, b with
    | [], [] => true
    | x :: r, y :: r' => eqb x y && list_eqb r r'
    | _, _ => false
    end.
  (* a is a subsequence of b (order preserved, multiplicity respected) *)
  Fixpoint subseqb (a b : list A) : bool :=
    match b with
    | [] => match a with [] => true | _ => false end
    | y :: b' =>
      match a with
      | [] => true
      | x :: a' => if eqb x y then subseqb a' b' else subseqb a b'
      end
    end.
  Fixpoint remove1 (x : A) (l : list A) : option (list A) :=
    match l with
    | [] => None
    | y :: r => if eqb x y then Some r
                else match remove1 x r with Some r' => Some (y :: r') | None => None end
    end.
  (* a is a sub-multiset of b; returns what is left of b *)
  Fixpoint submset (a b : list A) : option (list A) :=
    match a with
    | [] => Some b
    | x :: r => match remove1 x b with Some b' => submset r b' | None => None end
    end.
  Definition permb (a b : list A) : bool := match submset a b with Some [] => true | _ => false end.
  Definition submsetb (a b : list A) : bool := match submset a b with Some _ => true | None => false end.
End Lists.

Definition dmeta_eqb (a b : dmeta) : bool :=
  sb_eqb (dm_name a) (dm_name b) && (dm_type a =? dm_type b) && osb_eqb (dm_unit a) (dm_unit b)
  && osb_eqb (dm_desc a) (dm_desc b).
Definition label_eqb (a b : sbytes * sbytes) : bool := sb_eqb (fst a) (fst b) && sb_eqb (snd a) (snd b).
Definition dmetric_eqb (a b : dmetric) : bool :=
  sb_eqb (dk_name a) (dk_name b) && list_eqb label_eqb (dk_labels a) (dk_labels b)
  && (dk_op a =? dk_op b) && (dk_val a =? dk_val b).

(* ---- the shape of one client's stream *)
Fixpoint decode_all (bodies : list sbytes) : option (list devent) :=
  match bodies with
  | [] => Some []
  | b :: r => match decode_event b, decode_all r with
              | Some e, Some es => Some (e :: es)
              | _, _ => None
              end
  end.

(* metadata messages first, then only metric messages *)
Fixpoint split_meta (es : list devent) : list dmeta * list devent :=
  match es with
  | DMeta m :: r => let '(ms, t) := split_meta r in (m :: ms, t)
  | _ => ([], es)
  end.
Fixpoint all_metrics (es : list devent) : option (list dmetric) :=
  match es with
  | [] => Some []
  | DMetric m :: r => match all_metrics r with Some l => Some (m :: l) | None => None end
  | DMeta _ :: _ => None
  end.

Definition is_meta_body (b : sbytes) : bool :=
  match decode_event b with Some (DMeta _) => true | _ => false end.

Definition thread_of (m : dmetric) : option sbytes :=
  match filter (fun kv => sb_eqb (fst kv) [116]) (dk_labels m) with   (* label "t" *)
  | [(_, v)] => Some v
  | _ => None
  end.

(* what one client must have received.
   [stay]  the client was connected and reading until the end (else it left: any prefix, possibly torn)
   [full]  nothing was discarded for it (no drop-oldest logged) *)
Record expect := mkExpect {
  x_stay : bool;
  x_full : bool;
  x_log_metas : list dmeta;             (* log: metadata the exporter had taken from its channel before its accept *)
  x_metric_bodies : list sbytes;        (* log: metric messages drained from the channel after its accept *)
  x_metas : list dmeta;                 (* harness: describes issued before it connected *)
  x_threads : list (sbytes * list dmetric)   (* harness: per emitting thread, what it emitted after the client was accepted *)
}.

Definition of_thread (t : sbytes) (ms : list dmetric) : list dmetric :=
  filter (fun m => match thread_of m with Some v => sb_eqb v t | None => false end) ms.

(* the stream against the log: whole frames; the metadata the exporter knew at the accept (any
   order, each once) and then the metric messages it drained after the accept, in order, none
   twice, none torn; all of them if nothing was discarded for the client and it stayed *)
Definition stream_log_ok (x : expect) (s : sbytes) : bool :=
  let '(bodies, rest) := split_frames s in
  (if x_stay x then match rest with [] => true | _ => false end else true) &&
  match decode_all bodies with
  | None => false
  | Some es =>
    let '(ms, t) := split_meta es in
    match all_metrics t with
    | None => false                       (* metadata after a metric, or garbage *)
    | Some ks =>
      let kb := skipn (length ms) bodies in
      let exact := x_stay x && x_full x in
      (if exact then permb dmeta_eqb ms (x_log_metas x) else submsetb dmeta_eqb ms (x_log_metas x)) &&
      (if exact then list_eqb sb_eqb kb (x_metric_bodies x) else subseqb sb_eqb kb (x_metric_bodies x))
    end
  end.

(* the log against the harness (no stream involved): what the exporter took from its channel is
   what was described before the client connected and, per emitting thread and in emission order,
   what was emitted after it was accepted, with name, labels, operation and value intact *)
Definition log_harness_ok (x : expect) : bool :=
  permb dmeta_eqb (x_log_metas x) (x_metas x) &&
  match decode_all (x_metric_bodies x) with
  | None => false
  | Some es =>
    match all_metrics es with
    | None => false
    | Some ks =>
      forallb (fun k => match thread_of k with
                        | Some t => existsb (fun tl => sb_eqb (fst tl) t) (x_threads x)
                        | None => false end) ks &&
      forallb (fun tl => list_eqb dmetric_eqb (of_thread (fst tl) ks) (snd tl)) (x_threads x)
    end
  end.

Definition stream_ok (x : expect) (s : sbytes) : bool := stream_log_ok x s && log_harness_ok x.

(* every event boundary: client_count = |clients| and should_send = (|clients| > 0) *)
Definition obs_ok (obs : list (Z * Z * bool)) : bool :=
  forallb (fun '(n, c, s) => (c =? n)%Z && Bool.eqb s (0 <? n)%Z) obs.
