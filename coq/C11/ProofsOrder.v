(* C11 — what a connected client has been queued: the metadata known at its accept (in the
   HashMap's iteration order) followed by every metric frame fanned out since, in fan-out order.
   Holds for every setting of the fixes. *)
From Coq Require Import List NArith ZArith Bool Lia.
Import ListNotations.
Require Import MV.C11.Model MV.C11.Spec MV.C11.ProofsCount.
Open Scope N_scope.

Definition ev_frames (e : event) : list frame :=
  match e with EWake _ frames _ => frames | _ => [] end.
Definition wake_frames (evs : list event) : list frame := flat_map ev_frames evs.

Lemma take_enq c buf c1 : take c = Some (buf, c1) -> enq c1 = enq c.
Proof.
  unfold take. destruct (wbuf c); [intros H; injection H as <- <-; auto|].
  destruct (msgs c); [discriminate|]. intros H; injection H as <- <-; auto.
Qed.

Lemma drive_enq F : forall ws c d c' ws', drive F ws c = Some (d, c', ws') -> enq c' = enq c.
Proof.
  induction ws as [|w ws IH]; intros c d c' ws' D; cbn [drive] in D.
  - destruct (take c) as [[buf c1]|]; [discriminate|]. injection D as _ <- _. auto.
  - destruct (take c) as [[buf c1]|] eqn:T.
    2:{ injection D as _ <- _. auto. }
    apply take_enq in T.
    destruct w as [n| | |].
    + destruct (n =? 0); [injection D as _ <- _; auto|].
      destruct (n <? len buf); [injection D as _ <- _; auto|].
      apply IH in D. cbn in D. congruence.
    + injection D as _ <- _. destruct (fix_block F); auto.
    + apply IH in D. destruct (fix_intr F); cbn in D; congruence.
    + injection D as _ <- _. auto.
Qed.

Lemma fan_one_enq F lim frames ws c c' : len frames <= lim ->
  fan_one F lim frames ws c = Some (false, c') -> enq c' = enq c ++ frames.
Proof.
  intros L H. unfold fan_one in H.
  destruct (drive F ws c) as [[[d c1] ws1]|] eqn:D1; [|discriminate].
  destruct d. { destruct ws1; discriminate. }
  match type of H with match drive F ws1 ?x with _ => _ end = _ => set (c2 := x) in * end.
  destruct (drive F ws1 c2) as [[[d c3] ws3]|] eqn:D2; [|discriminate].
  destruct ws3; [|discriminate]. injection H as -> <-.
  apply drive_enq in D1. apply drive_enq in D2. rewrite D2. subst c2. cbn. rewrite D1.
  f_equal. unfold nfirst. apply firstn_all2. unfold len in *. lia.
Qed.

Lemma fan_out_lookup F lim frames ws t : forall cs cs' rm c,
  fan_out F lim frames ws cs = Some (cs', rm) -> lookup t cs = Some c ->
  exists d c', fan_one F lim frames (ws_for t ws) c = Some (d, c') /\
               lookup t cs' = Some c' /\ (d = true -> In t rm).
Proof.
  induction cs as [|[k v] cs IH]; intros cs' rm c H L; cbn [fan_out lookup] in *; [discriminate|].
  destruct (fan_one F lim frames (ws_for k ws) v) as [[d v']|] eqn:F1; [|discriminate].
  destruct (fan_out F lim frames ws cs) as [[cs1 rm1]|] eqn:F2; [|discriminate].
  injection H as <- <-. cbn [lookup]. destruct (k =? t) eqn:E.
  - apply N.eqb_eq in E. subst k. injection L as <-. exists d, v'. repeat split; auto.
    intros ->. cbn. auto.
  - destruct (IH _ _ _ eq_refl L) as (d' & c' & H1 & H2 & H3). exists d', c'. repeat split; auto.
    intros Hd. specialize (H3 Hd). destruct d; cbn; auto.
Qed.

Lemma lookup_remove_tok {A} t t' (l : list (token * A)) :
  lookup t (remove_tok t' l) = if t' =? t then None else lookup t l.
Proof.
  induction l as [|[k v] l IH]; cbn [lookup remove_tok]; [destruct (t' =? t); auto|].
  destruct (k =? t') eqn:E1.
  - rewrite IH. apply N.eqb_eq in E1. subst k. destruct (t' =? t); auto.
  - cbn [lookup]. rewrite IH. destruct (k =? t) eqn:E2; auto.
    apply N.eqb_eq in E2. subst k. rewrite N.eqb_sym, E1. auto.
Qed.

Lemma remove_client_lookup s t t' :
  lookup t (clients (remove_client s t')) = if t' =? t then None else lookup t (clients s).
Proof.
  unfold remove_client. destruct (lookup t' (clients s)) eqn:L; cbn [clients decrement_clients].
  - apply lookup_remove_tok.
  - destruct (t' =? t) eqn:E; auto. apply N.eqb_eq in E. subst. auto.
Qed.

Lemma fold_remove_lookup t : forall rm s,
  lookup t (clients (fold_left remove_client rm s)) =
  if existsb (fun k => k =? t) rm then None else lookup t (clients s).
Proof.
  induction rm as [|k rm IH]; intros s; cbn [fold_left existsb]; auto.
  rewrite IH, remove_client_lookup. destruct (k =? t); cbn [orb]; auto.
  destruct (existsb (fun k0 => k0 =? t) rm); auto.
Qed.

Lemma fold_remove_next : forall rm s, next_token (fold_left remove_client rm s) = next_token s.
Proof.
  induction rm as [|k rm IH]; intros s; cbn [fold_left]; auto. rewrite IH.
  unfold remove_client. destruct (lookup k (clients s)); auto.
Qed.

Lemma lookup_app_l {A} t (l r : list (token * A)) c : lookup t l = Some c -> lookup t (l ++ r) = Some c.
Proof. induction l as [|[k v] l IH]; cbn [lookup app]; [discriminate|]. destruct (k =? t); auto. Qed.

Lemma lookup_app_none {A} t (l r : list (token * A)) : lookup t l = None -> lookup t (l ++ r) = lookup t r.
Proof. induction l as [|[k v] l IH]; cbn [lookup app]; auto. destruct (k =? t); [discriminate|auto]. Qed.

Lemma lookup_map_update t t' c' (l : list (token * client)) :
  lookup t (map (fun '(k, v) => if k =? t' then (k, c') else (k, v)) l) =
  match lookup t l with Some c => Some (if t =? t' then c' else c) | None => None end.
Proof.
  induction l as [|[k v] l IH]; cbn; auto.
  destruct (k =? t') eqn:E1; cbn; destruct (k =? t) eqn:E2; auto.
  - apply N.eqb_eq in E2. subst k. rewrite E1. auto.
  - apply N.eqb_eq in E2. subst k. rewrite E1. auto.
Qed.

Lemma lookup_keys {A} t (l l' : list (token * A)) :
  map fst l' = map fst l -> lookup t l = None -> lookup t l' = None.
Proof.
  revert l'. induction l as [|[k v] l IH]; intros [|[k' v'] l'] E; cbn [map fst lookup] in *; auto; try discriminate.
  injection E as -> E. destruct (k =? t); [discriminate|]. auto.
Qed.

Lemma ntimes_dec_clients n : forall s0, clients (ntimes n decrement_clients s0) = clients s0.
Proof. induction n; intros; cbn [ntimes]; auto. rewrite IHn. reflexivity. Qed.
Lemma ntimes_dec_next n : forall s0, next_token (ntimes n decrement_clients s0) = next_token s0.
Proof. induction n; intros; cbn [ntimes]; auto. rewrite IHn. reflexivity. Qed.
Lemma maybe_dec_clients (b : bool) n s0 :
  clients (if b then s0 else ntimes n decrement_clients s0) = clients s0.
Proof. destruct b; auto. apply ntimes_dec_clients. Qed.
Lemma maybe_dec_next (b : bool) n s0 :
  next_token (if b then s0 else ntimes n decrement_clients s0) = next_token s0.
Proof. destruct b; auto. apply ntimes_dec_next. Qed.

(* one step, for a client that is connected before it *)
Lemma step_enq F limit s e s' t c : step F limit s e = Some s' -> lookup t (clients s) = Some c ->
  lookup t (clients s') = None \/
  exists c', lookup t (clients s') = Some c' /\ enq c' = enq c ++ ev_frames e.
Proof.
  intros St L. destruct e as [metas frames ws|order|t' ws]; cbn [step ev_frames] in *.
  - unfold step_wake in St. destruct (_ || _) eqn:Lim; [discriminate|].
    apply orb_false_iff in Lim. destruct Lim as [Lim _]. apply N.ltb_ge in Lim. destruct frames as [|f fr].
    + injection St as <-. cbn [clients]. right. exists c. rewrite app_nil_r. auto.
    + remember (f :: fr) as frames. cbn [clients] in St.
      destruct (fan_out F (lim_of F limit) frames ws (clients s)) as [[cs' rm]|] eqn:Fo; [|discriminate].
      injection St as <-. rewrite fold_remove_lookup.
      destruct (existsb (fun k => k =? t) rm) eqn:Ex; auto. right.
      destruct (fan_out_lookup _ _ _ _ t _ _ _ _ Fo L) as (d & c' & F1 & L' & Hd).
      rewrite maybe_dec_clients. cbn [clients]. exists c'. split; auto.
      destruct d.
      * exfalso. specialize (Hd eq_refl). assert (existsb (fun k => k =? t) rm = true); [|congruence].
        apply existsb_exists. exists t. split; auto. apply N.eqb_refl.
      * eapply fan_one_enq; eauto.
  - unfold step_accept in St. destruct (negb _); [discriminate|].
    destruct (gen_meta (metadata s) order); [|discriminate]. injection St as <-. cbn [clients increment_clients].
    right. exists c. rewrite app_nil_r. split; auto. apply lookup_app_l; auto.
  - unfold step_writable in St.
    destruct (lookup t' (clients s)) as [ct|] eqn:Lt; [|discriminate].
    destruct (drive F ws ct) as [[[d c'] ws']|] eqn:D; [|discriminate].
    destruct ws'; [|discriminate]. injection St as <-.
    assert (Hup : exists c2, lookup t (map (fun '(k, v) => if k =? t' then (k, c') else (k, v)) (clients s)) = Some c2 /\ enq c2 = enq c).
    { rewrite lookup_map_update, L. eexists; split; eauto. destruct (t =? t') eqn:E; auto.
      apply N.eqb_eq in E. subst. apply drive_enq in D. congruence. }
    destruct Hup as (c2 & H1 & H2). rewrite app_nil_r.
    destruct d.
    + rewrite remove_client_lookup. cbn [clients]. destruct (t' =? t); auto. right. eauto.
    + cbn [clients]. right. eauto.
Qed.

(* tokens are never reused: a token below next_token that is not connected stays unconnected *)
Lemma step_none F limit s e s' t : step F limit s e = Some s' -> t < next_token s ->
  lookup t (clients s) = None -> lookup t (clients s') = None /\ t < next_token s'.
Proof.
  intros St Lt L. destruct e as [metas frames ws|order|t' ws]; cbn [step] in *.
  - unfold step_wake in St. destruct (_ || _); [discriminate|].
    destruct frames as [|f fr].
    + injection St as <-. auto.
    + remember (f :: fr) as frames. cbn [clients] in St.
      destruct (fan_out F (lim_of F limit) frames ws (clients s)) as [[cs' rm]|] eqn:Fo; [|discriminate].
      injection St as <-. rewrite fold_remove_lookup, fold_remove_next. split.
      * destruct (existsb (fun k0 => k0 =? t) rm); auto.
        rewrite maybe_dec_clients. cbn [clients]. eapply lookup_keys; [|exact L]. eapply fan_out_keys; eauto.
      * rewrite maybe_dec_next. auto.
  - unfold step_accept in St. destruct (negb _); [discriminate|].
    destruct (gen_meta (metadata s) order); [|discriminate]. injection St as <-. cbn [clients next_token increment_clients].
    split; [|lia]. rewrite lookup_app_none; auto. cbn [lookup].
    destruct (next_token s =? t) eqn:E; auto. apply N.eqb_eq in E. lia.
  - unfold step_writable in St.
    destruct (lookup t' (clients s)) as [ct|] eqn:Lt'; [|discriminate].
    destruct (drive F ws ct) as [[[d c'] ws']|] eqn:D; [|discriminate].
    destruct ws'; [|discriminate]. injection St as <-.
    assert (H1 : lookup t (map (fun '(k, v) => if k =? t' then (k, c') else (k, v)) (clients s)) = None).
    { rewrite lookup_map_update, L. auto. }
    destruct d.
    + rewrite remove_client_lookup. cbn [clients]. split.
      * destruct (t' =? t); auto.
      * unfold remove_client. cbn [clients].
        match goal with |- context [match ?x with _ => _ end] => destruct x end; cbn; auto.
    + cbn [clients next_token]. auto.
Qed.

Lemma run_none F limit t : forall evs s sf obs, run F limit s evs = Some (sf, obs) ->
  t < next_token s -> lookup t (clients s) = None -> lookup t (clients sf) = None.
Proof.
  induction evs as [|e evs IH]; intros s sf obs R Lt L; cbn [run] in R.
  - injection R as <- _. auto.
  - destruct (step F limit s e) as [s'|] eqn:St; [|discriminate].
    destruct (run F limit s' evs) as [[sf' obs']|] eqn:R'; [|discriminate].
    injection R as <- _. destruct (step_none _ _ _ _ _ _ St Lt L). eapply IH; eauto.
Qed.

Lemma step_next F limit s e s' t : step F limit s e = Some s' -> t < next_token s -> t < next_token s'.
Proof.
  intros St Lt. destruct e as [metas frames ws|order|t' ws]; cbn [step] in *.
  - unfold step_wake in St. destruct (_ || _); [discriminate|].
    destruct frames as [|f fr]; [injection St as <-; auto|].
    remember (f :: fr) as frames. cbn [clients] in St.
    destruct (fan_out F (lim_of F limit) frames ws (clients s)) as [[cs' rm]|]; [|discriminate].
    injection St as <-. rewrite fold_remove_next, maybe_dec_next. auto.
  - unfold step_accept in St. destruct (negb _); [discriminate|].
    destruct (gen_meta (metadata s) order); [|discriminate]. injection St as <-.
    cbn [next_token increment_clients]. lia.
  - unfold step_writable in St.
    destruct (lookup t' (clients s)) as [ct|]; [|discriminate].
    destruct (drive F ws ct) as [[[d c'] ws']|]; [|discriminate].
    destruct ws'; [|discriminate]. injection St as <-.
    destruct d; auto. unfold remove_client. cbn [clients].
    match goal with |- context [match ?x with _ => _ end] => destruct x end; cbn; auto.
Qed.

Lemma run_enq F limit t : forall evs s sf obs c cf, run F limit s evs = Some (sf, obs) ->
  t < next_token s -> lookup t (clients s) = Some c -> lookup t (clients sf) = Some cf ->
  enq cf = enq c ++ wake_frames evs.
Proof.
  induction evs as [|e evs IH]; intros s sf obs c cf R Lt L Lf; cbn [run] in R.
  - injection R as <- _. rewrite L in Lf. injection Lf as <-. cbn. rewrite app_nil_r. auto.
  - destruct (step F limit s e) as [s'|] eqn:St; [|discriminate].
    destruct (run F limit s' evs) as [[sf' obs']|] eqn:R'; [|discriminate].
    injection R as <- _. pose proof (step_next _ _ _ _ _ _ St Lt) as Lt'.
    destruct (step_enq _ _ _ _ _ _ _ St L) as [N|(c' & L' & E')].
    + rewrite (run_none _ _ _ _ _ _ _ R' Lt' N) in Lf. discriminate.
    + rewrite (IH _ _ _ _ _ R' Lt' L' Lf), E'. cbn [wake_frames flat_map]. rewrite app_assoc. reflexivity.
Qed.

(* the client accepted by `EAccept order` in state s1 *)
Theorem accepted_client_queue F limit s1 order s2 evs sf obs cf :
  step F limit s1 (EAccept order) = Some s2 ->
  Forall (fun k => k < next_token s1) (map fst (clients s1)) ->
  run F limit s2 evs = Some (sf, obs) ->
  lookup (next_token s1) (clients sf) = Some cf ->
  exists ms, gen_meta (metadata s1) order = Some ms /\ enq cf = ms ++ wake_frames evs.
Proof.
  intros St Fr R Lf. cbn [step] in St. unfold step_accept in St.
  destruct (negb _); [discriminate|].
  destruct (gen_meta (metadata s1) order) as [ms|] eqn:G; [|discriminate].
  injection St as <-. exists ms. split; auto.
  assert (L : lookup (next_token s1) (clients s1) = None).
  { apply lookup_notin. intros H. eapply Forall_forall in Fr; eauto. lia. }
  rewrite (run_enq F limit (next_token s1) _ _ _ _ (fresh ms) cf R); auto.
  - cbn [next_token]. lia.
  - cbn [clients increment_clients]. rewrite lookup_app_none; auto. cbn [lookup]. rewrite N.eqb_refl. reflexivity.
Qed.
