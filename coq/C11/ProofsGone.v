(* C11 — clients the model has removed: what a removed client was sent is whole frames (plus a
   proper prefix of one frame), a subsequence of what was enqueued for it, and what was enqueued for
   it is a prefix of (metadata at its accept ++ frames fanned out after it). *)
From Coq Require Import List NArith ZArith Bool Lia Permutation.
Import ListNotations.
Require Import MV.C11.Model MV.C11.Spec MV.C11.Exec MV.C11.ProofsFraming MV.C11.ProofsInv
        MV.C11.ProofsState MV.C11.ProofsCount MV.C11.ProofsOrder.
Open Scope N_scope.

(* the invariant that survives a removal: the record of a removed client *)
Definition ginv (c : client) : Prop :=
  exists bs, sent c = concat (map enc bs) ++ pfx c /\ tail_ok (pfx c) /\ Subseq (map enc bs) (enq c).

Lemma cinv_ginv c : cinv c -> ginv c.
Proof.
  intros I. destruct (cinv_stream _ I) as (bs & H1 & _ & H3 & _ & T & _). exists bs. repeat split; auto.
  destruct T as [[_ ->]|(r & b & _ & Hr & E)]; [left; auto|right; eauto].
Qed.

(* the state in which drive_connection returns `true`: the buffer taken is dropped with the client *)
Lemma take_ginv c buf c1 : cinv c -> take c = Some (buf, c1) -> ginv c1 /\ enq c1 = enq c.
Proof.
  intros I T. destruct (take_spec _ _ _ I T) as (Hw & Hne & Hs & Hwr & Hp & He & Ho & Hseq).
  split; auto. destruct (cinv_stream _ I) as (bs & H1 & H2 & H3 & _).
  exists bs. rewrite Hs, Hp, He. repeat split; auto.
  right. assert (Hin : In (pfx c ++ buf) (fseq c)).
  { rewrite Hseq, Hp. apply in_or_app; right. left. reflexivity. }
  pose proof (Subseq_In _ _ _ (ci_sub _ I) Hin) as Hin'.
  pose proof (ci_wf _ I) as Wf. eapply Forall_forall in Wf; [|exact Hin']. destruct Wf as [b Hb].
  exists b, buf. auto.
Qed.

Lemma back_inv c buf c1 : cinv c -> take c = Some (buf, c1) ->
  cinv (set_wbuf c1 buf) /\ enq (set_wbuf c1 buf) = enq c.
Proof.
  intros I T. destruct (take_spec _ _ _ I T) as (Hw & Hne & Hs & Hwr & Hp & He & Ho & Hseq).
  pose proof (ci_sent _ I) as Isent.
  assert (Fb : fseq (set_wbuf c1 buf) = fseq c).
  { rewrite Hseq. unfold fseq, inflight, set_wbuf; cbn. reflexivity. }
  split; [|unfold set_wbuf; cbn; auto].
  apply (cinv_transfer c); auto; unfold set_wbuf; cbn; auto.
  rewrite Hs, Hwr, Hp. auto.
Qed.

Lemma complete_inv c buf c1 : cinv c -> take c = Some (buf, c1) ->
  cinv (complete c1 buf) /\ enq (complete c1 buf) = enq c.
Proof.
  intros I T. destruct (take_spec _ _ _ I T) as (Hw & Hne & Hs & Hwr & Hp & He & Ho & Hseq).
  pose proof (ci_sent _ I) as Isent.
  assert (Hf : fseq (complete c1 buf) = fseq c).
  { rewrite Hseq. unfold fseq, inflight, complete; cbn. rewrite Hw, <- app_assoc. reflexivity. }
  split; [|unfold complete; cbn; auto].
  apply (cinv_transfer c); auto; unfold complete; cbn.
  - rewrite concat_app. cbn [concat]. rewrite Hs, Hwr, Hp, Isent, !app_nil_r, app_assoc. reflexivity.
  - rewrite Hw. reflexivity.
Qed.

Lemma drive_done : forall ws c c' ws', cinv c -> drive fixed ws c = Some (true, c', ws') ->
  ginv c' /\ enq c' = enq c.
Proof.
  induction ws as [|w ws IH]; intros c c' ws' I D; cbn [drive] in D.
  - destruct (take c) as [[buf c1]|]; discriminate.
  - destruct (take c) as [[buf c1]|] eqn:T; [|discriminate].
    destruct w as [n| | |].
    + destruct (n =? 0).
      * injection D as <- _. eapply take_ginv; eauto.
      * destruct (n <? len buf); [discriminate|].
        destruct (complete_inv _ _ _ I T) as [I2 E2]. destruct (IH _ _ _ I2 D) as [G E]. split; congruence.
    + discriminate.
    + cbn [fix_intr fixed] in D.
      destruct (back_inv _ _ _ I T) as [I2 E2]. destruct (IH _ _ _ I2 D) as [G E]. split; congruence.
    + injection D as <- _. eapply take_ginv; eauto.
Qed.

(* the client record after `msgs.drain(0..to_drain); msgs.extend(...)` *)
Definition enqueue (lim : N) (frames : list frame) (c1 : client) : client :=
  let m := len (msgs c1) in
  let available := if m <? lim then lim - m else 0 in
  let to_drain := len frames - available in
  mkClient (wbuf c1) (nskip to_drain (msgs c1) ++ nfirst lim frames) (sent c1) (written c1) (pfx c1)
           (enq c1 ++ nfirst lim frames) (overflowed c1 || (0 <? to_drain)).

Lemma enqueue_inv lim frames c1 : cinv c1 -> Forall wf_frame frames -> cinv (enqueue lim frames c1).
Proof.
  intros I1 Wf. destruct I1 as [S W Sub Full Wf1]. unfold enqueue. constructor; cbn; auto.
  - unfold fseq, inflight in *; cbn.
    rewrite !app_assoc. apply Subseq_app; [|apply Subseq_refl].
    eapply Subseq_trans; [|exact Sub]. rewrite <- !app_assoc.
    apply Subseq_app; [apply Subseq_refl|]. apply Subseq_app; [apply Subseq_refl|].
    apply Subseq_skipn.
  - intros Ho. apply orb_false_iff in Ho. destruct Ho as [Ho Hd]. apply N.ltb_ge in Hd.
    unfold fseq, inflight in *; cbn.
    match goal with |- context [nskip ?k _] => assert (k = 0) as -> by lia end.
    rewrite nskip_0, <- (Full Ho), <- !app_assoc. reflexivity.
  - apply Forall_app; split; auto. unfold nfirst.
    match goal with |- Forall _ (firstn ?k _) => rewrite <- (firstn_skipn k frames) in Wf end.
    apply Forall_app in Wf. apply Wf.
Qed.

(* one client's share of a fan-out, whatever its outcome *)
Lemma fan_one_any lim frames ws c d c' : cinv c -> Forall wf_frame frames -> len frames <= lim ->
  fan_one fixed lim frames ws c = Some (d, c') ->
  ginv c' /\ (enq c' = enq c ++ frames \/ (d = true /\ enq c' = enq c)).
Proof.
  intros I Wf L F. unfold fan_one in F.
  destruct (drive fixed ws c) as [[[d1 c1] ws1]|] eqn:D1; [|discriminate].
  destruct d1.
  { destruct ws1; [|discriminate]. injection F as <- <-.
    destruct (drive_done _ _ _ _ I D1). auto. }
  destruct (drive_inv _ _ _ _ I D1) as (I1 & F1 & E1 & O1).
  match type of F with match drive fixed ws1 ?x with _ => _ end = _ => change x with (enqueue lim frames c1) in F end.
  pose proof (enqueue_inv lim frames c1 I1 Wf) as I2.
  assert (E2 : enq (enqueue lim frames c1) = enq c ++ frames).
  { unfold enqueue; cbn. rewrite E1. f_equal. apply nfirst_all. exact L. }
  destruct (drive fixed ws1 (enqueue lim frames c1)) as [[[d2 c3] ws3]|] eqn:D2; [|discriminate].
  destruct ws3; [|discriminate]. injection F as <- <-.
  destruct d2.
  - destruct (drive_done _ _ _ _ I2 D2) as [G E]. split; auto. left. congruence.
  - destruct (drive_inv _ _ _ _ I2 D2) as (I3 & _ & E3 & _). split; [apply cinv_ginv; auto|]. left. congruence.
Qed.
