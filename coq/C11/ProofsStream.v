(* C11 — reflection of the stream clause: a byte stream of the shape that C11_stream_integrity and
   C11_prefix_metadata_then_metrics_in_order establish for the model (whole encoded frames; a
   subsequence of the metadata frames generated at the accept followed by a subsequence of the
   metric frames fanned out since; everything if nothing was discarded) passes the boolean
   stream_log_ok of Spec.v. *)
From Coq Require Import List NArith ZArith Bool Lia Permutation.
Import ListNotations.
Require Import MV.C11.Model MV.C11.Spec MV.C11.ProofsFraming MV.C11.ProofsInv MV.C11.ProofsWire
        MV.C11.ProofsReflect.
Open Scope N_scope.

Definition mbody (nm : bytes * meta) : bytes := meta_body (fst nm) (snd nm).
Definition kbody (it : mitem * N * N) : bytes := metric_body (fst (fst it)) (snd (fst it)) (snd it).
Definition dm (nm : bytes * meta) : dmeta := dmeta_of (fst nm) (snd nm).
Definition dk (it : mitem * N * N) : dmetric :=
  let i := fst (fst it) in dmetric_of (mi_name i) (btree_of (mi_labels i)) (mi_op i).
Definition item_ok (it : mitem * N * N) : Prop := op_ok (mi_op (fst (fst it))).

Lemma decode_all_shape A : forall B, Forall item_ok B ->
  decode_all (map mbody A ++ map kbody B) = Some (map (fun x => DMeta (dm x)) A ++ map (fun x => DMetric (dk x)) B).
Proof.
  induction A as [|a A IH]; intros B Ok; cbn [map app decode_all].
  - induction Ok as [|b B Hb _ IHB]; cbn [map decode_all]; auto.
    unfold kbody at 1. rewrite metric_roundtrip by exact Hb. rewrite IHB. reflexivity.
  - unfold mbody at 1. rewrite meta_roundtrip, IH by auto. reflexivity.
Qed.

Lemma split_meta_shape A B :
  split_meta (map (fun x => DMeta (dm x)) A ++ map (fun x => DMetric (dk x)) B) =
  (map dm A, map (fun x => DMetric (dk x)) B).
Proof.
  induction A as [|a A IH]; cbn [map app split_meta].
  - destruct B; reflexivity.
  - rewrite IH. reflexivity.
Qed.

Lemma all_metrics_shape B : all_metrics (map (fun x => DMetric (dk x)) B) = Some (map dk B).
Proof. induction B as [|b B IH]; cbn [map all_metrics]; auto. rewrite IH. reflexivity. Qed.

Theorem stream_log_ok_reflect x ML KL ML1 KL1 s p :
  s = concat (map enc (map mbody ML1 ++ map kbody KL1)) ++ p ->
  tail_ok p -> (x_stay x = true -> p = []) ->
  Forall item_ok KL1 ->
  Subseq ML1 ML -> Subseq KL1 KL ->
  Permutation (map dm ML) (x_log_metas x) ->
  x_metric_bodies x = map kbody KL ->
  (x_stay x && x_full x = true -> ML1 = ML /\ KL1 = KL) ->
  stream_log_ok x s = true.
Proof.
  intros -> Tp Hp Ok S1 S2 P E Ex. unfold stream_log_ok.
  rewrite split_frames_concat by exact Tp.
  assert ((if x_stay x then match p with [] => true | _ :: _ => false end else true) = true) as ->.
  { destruct (x_stay x); auto. rewrite (Hp eq_refl). auto. }
  rewrite decode_all_shape by auto. rewrite split_meta_shape, all_metrics_shape.
  rewrite map_length, <- (map_length mbody ML1), skipn_len_app. cbn [andb].
  destruct (x_stay x && x_full x) eqn:Exact.
  - destruct (Ex eq_refl) as [-> ->]. rewrite E.
    rewrite (permb_complete dmeta_eqb dmeta_eqb_refl dmeta_eqb_eq _ _ P).
    rewrite (list_eqb_refl sb_eqb sb_eqb_refl). reflexivity.
  - rewrite E. apply andb_true_iff. split.
    + destruct (Subseq_perm_rest _ _ (Subseq_map dm _ _ S1)) as [r Pr].
      apply (submsetb_complete dmeta_eqb dmeta_eqb_refl dmeta_eqb_eq _ r).
      rewrite Pr. exact P.
    + apply (subseqb_complete sb_eqb sb_eqb_refl). apply Subseq_map. exact S2.
Qed.
