(* C11 — the property clauses, assembled from the invariants. *)
From Coq Require Import List NArith ZArith Bool Lia.
Import ListNotations.
Require Import MV.C11.Model MV.C11.Spec MV.C11.Exec MV.C11.ProofsFraming MV.C11.ProofsInv
        MV.C11.ProofsState MV.C11.ProofsCount MV.C11.ProofsOrder.
Open Scope N_scope.

Lemma lookup_In {A} t (l : list (token * A)) c : lookup t l = Some c -> In (t, c) l.
Proof.
  induction l as [|[k v] l IH]; cbn [lookup In]; [discriminate|].
  destruct (k =? t) eqn:E; auto. apply N.eqb_eq in E. intros H. injection H as <-. subst. auto.
Qed.

Lemma st0_inv : cs_inv (clients st0).
Proof. constructor. Qed.

Lemma stream_integrity limit evs sf obs :
  Forall ev_wf evs -> run fixed limit st0 evs = Some (sf, obs) ->
  forall t c, In (t, c) (clients sf) ->
  exists bodies,
    sent c = concat (map enc bodies) ++ pfx c /\
    Subseq (map enc bodies) (enq c) /\
    ((wbuf c = None /\ pfx c = []) \/
     (exists r b, wbuf c = Some r /\ r <> [] /\ pfx c ++ r = enc b)) /\
    split_frames (sent c) = (bodies, pfx c).
Proof.
  intros W R t c Hin. pose proof (run_inv _ _ _ _ _ st0_inv W R) as I.
  eapply Forall_forall in I; [|exact Hin]. cbn [snd] in I.
  destruct (cinv_stream _ I) as (bs & H1 & H2 & H3 & H4 & H5 & H6). exists bs. auto.
Qed.

Lemma queue_order limit evs1 order evs2 s1 s2 sf obs1 obs2 cf :
  Forall ev_wf evs1 -> Forall ev_wf evs2 ->
  run fixed limit st0 evs1 = Some (s1, obs1) ->
  step fixed limit s1 (EAccept order) = Some s2 ->
  run fixed limit s2 evs2 = Some (sf, obs2) ->
  lookup (next_token s1) (clients sf) = Some cf ->
  exists ms bodies,
    gen_meta (metadata s1) order = Some ms /\
    enq cf = ms ++ wake_frames evs2 /\
    sent cf = concat (map enc bodies) ++ pfx cf /\
    split_frames (sent cf) = (bodies, pfx cf) /\
    Subseq (map enc bodies) (ms ++ wake_frames evs2) /\
    (overflowed cf = false -> exists rest, ms ++ wake_frames evs2 = map enc bodies ++ rest).
Proof.
  intros W1 W2 R1 St R2 L.
  pose proof (run_inv _ _ _ _ _ st0_inv W1 R1) as I1.
  assert (I2 : cs_inv (clients s2)) by (eapply step_inv; eauto; exact I).
  pose proof (run_inv _ _ _ _ _ I2 W2 R2) as I3.
  destruct (run_cnt fixed limit eq_refl _ _ _ _ st0_cnt R1) as [[_ Fr _ _] _].
  destruct (accepted_client_queue _ _ _ _ _ _ _ _ _ St Fr R2 L) as (ms & G & E).
  apply lookup_In in L. eapply Forall_forall in I3; [|exact L]. cbn [snd] in I3.
  destruct (cinv_stream _ I3) as (bs & H1 & H2 & H3 & H4 & H5 & H6).
  exists ms, bs. rewrite <- E. repeat split; auto.
Qed.

Lemma client_count_exact F limit evs sf obs :
  fix_dec F = true -> run F limit st0 evs = Some (sf, obs) ->
  client_count sf = Z.of_N (len (clients sf)) /\
  should_send sf = (0 <? Z.of_N (len (clients sf)))%Z /\
  obs_ok obs = true.
Proof.
  intros HF R. destruct (run_cnt F limit HF _ _ _ _ st0_cnt R) as [[_ _ C S] O].
  unfold len. rewrite nat_N_Z. repeat split; auto.
  - rewrite S, C. reflexivity.
  - apply obs_ok_iff; auto.
Qed.

Lemma starts_for_every_limit : forall limit, init fixed limit = Running st0.
Proof. reflexivity. Qed.

(* ---- before the fixes *)
Definition before_cap := mkFixes false true true true true.
Definition before_dec := mkFixes true false true true true.
Definition before_intr := mkFixes true true false true true.
Definition before_block := mkFixes true true true false true.
Definition before_zero := mkFixes true true true true false.

(* buffer_size(Some(0)) before the fix: no wake-up can take anything from the channel *)
Lemma zero_refuted_before_fix : forall s metas frames ws, metas <> [] \/ frames <> [] ->
  step_wake before_zero (Some 0) s metas frames ws = None.
Proof.
  intros s metas frames ws H. unfold step_wake.
  change (lim_of before_zero (Some 0)) with 0.
  assert (((0 <? len frames) || ((0 =? 0) && negb (len metas =? 0))) = true) as ->; [|reflexivity].
  destruct H as [H|H].
  - destruct metas; [congruence|]. rewrite orb_true_iff. right. reflexivity.
  - destruct frames; [congruence|]. reflexivity.
Qed.
Lemma zero_after_fix : lim_of fixed (Some 0) = 1.
Proof. reflexivity. Qed.

Lemma cap_refuted_before_fix : init before_cap None = Panicked.
Proof. vm_compute. reflexivity. Qed.

Definition f1 : frame := enc [7; 7].
Definition f2 : frame := enc [8; 8].

(* two clients, one write error on the fan-out path: the survivor is gated off *)
Definition dec_witness : list event :=
  [EAccept []; EAccept []; EWake [] [f1] [(2, [WErr]); (3, [Wrote 3])]].
Lemma dec_refuted_before_fix :
  exists sf obs, run before_dec (Some 8) st0 dec_witness = Some (sf, obs) /\
                 map fst (clients sf) = [3] /\ client_count sf = 0%Z /\ should_send sf = false.
Proof. eexists. eexists. vm_compute. repeat split. Qed.
Lemma dec_witness_after_fix :
  exists sf obs, run fixed (Some 8) st0 dec_witness = Some (sf, obs) /\
                 map fst (clients sf) = [3] /\ client_count sf = 1%Z /\ should_send sf = true.
Proof. eexists. eexists. vm_compute. repeat split. Qed.

Lemma witness_wf (evs : list event) :
  forallb (fun e => match e with
                    | EWake _ frames _ => forallb (fun f => match split_frames f with
                                                            | ([b], []) => bytes_eqb (enc b) f
                                                            | _ => false end) frames
                    | _ => true end) evs = true -> Forall ev_wf evs.
Proof.
  intros H. apply Forall_forall. intros e Hin. eapply forallb_forall in H; [|exact Hin].
  destruct e; cbn; auto. apply Forall_forall. intros f Hf. eapply forallb_forall in H; [|exact Hf].
  destruct (split_frames f) as [[|b [|? ?]] [|? ?]]; try discriminate. exists b.
  clear - H. revert H. generalize (enc b). intros l. revert f.
  induction l as [|x l IH]; intros [|y f]; cbn [bytes_eqb]; try discriminate; auto.
  intros H. apply andb_true_iff in H. destruct H as [H1 H2]. apply N.eqb_eq in H1. subst.
  f_equal. auto.
Qed.

(* a short write, then EAGAIN / EINTR on the remainder: the remainder is dropped and the next
   frame follows a torn one *)
Definition block_witness : list event :=
  [EAccept []; EWake [] [f1] [(2, [Wrote 1])]; EWake [] [f2] [(2, [WouldBlock; Wrote 3])]].
Definition intr_witness : list event :=
  [EAccept []; EWake [] [f1] [(2, [Wrote 1])]; EWake [] [f2] [(2, [Interrupted; Wrote 3])]].

Definition torn (c : client) : bool :=
  negb (subseqb sb_eqb (map enc (fst (split_frames (sent c)))) (enq c)).

Lemma block_refuted_before_fix :
  exists sf obs c, Forall ev_wf block_witness /\
    run before_block None st0 block_witness = Some (sf, obs) /\
    lookup 2 (clients sf) = Some c /\ torn c = true.
Proof.
  eexists. eexists. eexists. split; [apply witness_wf; vm_compute; reflexivity|].
  vm_compute. repeat split.
Qed.
Lemma interrupted_refuted_before_fix :
  exists sf obs c, Forall ev_wf intr_witness /\
    run before_intr None st0 intr_witness = Some (sf, obs) /\
    lookup 2 (clients sf) = Some c /\ torn c = true.
Proof.
  eexists. eexists. eexists. split; [apply witness_wf; vm_compute; reflexivity|].
  vm_compute. repeat split.
Qed.
(* after the fixes the remainder is retried (one more write result is consumed): whole frames *)
Definition block_witness' : list event :=
  [EAccept []; EWake [] [f1] [(2, [Wrote 1])]; EWake [] [f2] [(2, [WouldBlock; Wrote 2; Wrote 3])]].
Definition intr_witness' : list event :=
  [EAccept []; EWake [] [f1] [(2, [Wrote 1])]; EWake [] [f2] [(2, [Interrupted; Wrote 2; Wrote 3])]].
Lemma witnesses_after_fix :
  (exists sf obs c, run fixed None st0 block_witness' = Some (sf, obs) /\
     lookup 2 (clients sf) = Some c /\ split_frames (sent c) = ([[7; 7]; [8; 8]], [])) /\
  (exists sf obs c, run fixed None st0 intr_witness' = Some (sf, obs) /\
     lookup 2 (clients sf) = Some c /\ split_frames (sent c) = ([[7; 7]; [8; 8]], [])).
Proof. split; eexists; eexists; eexists; vm_compute; repeat split. Qed.

(* ---- spec_ok *)
Lemma spec_ok_sound c o : spec_ok c o = true ->
  o_served o = true /\ o_quiet o = true /\ Forall obs_good (o_obs o) /\
  streams_ok c (c_clients c) (o_streams o) = true.
Proof.
  unfold spec_ok. intros H. repeat (apply andb_true_iff in H; destruct H as [H ?]).
  repeat split; auto. apply obs_ok_iff; auto.
Qed.

Lemma stream_ok_whole x s : stream_ok x s = true -> x_stay x = true ->
  exists bodies es, split_frames s = (bodies, []) /\ decode_all bodies = Some es.
Proof.
  unfold stream_ok, stream_log_ok. destruct (split_frames s) as [bodies rest] eqn:E. intros H Hs. rewrite Hs in H.
  apply andb_true_iff in H. destruct H as [H _]. apply andb_true_iff in H. destruct H as [H1 H2]. destruct rest; [|discriminate H1].
  destruct (decode_all bodies) as [es|] eqn:E2; [|discriminate H2]. exists bodies, es. split; auto.
Qed.

(* the model's own output satisfies the counter clause of spec_ok and is never a panic *)
Lemma spec_ok_on_model_partial c :
  o_served (run_case c) = true /\ obs_ok (o_obs (run_case c)) = true.
Proof.
  unfold run_case, run_case_with. cbn [init fixed fix_cap].
  destruct (run fixed (c_limit c) st0 (c_events c)) as [[sf obs]|] eqn:R; cbn; auto.
  split; auto. eapply client_count_exact; eauto. reflexivity.
Qed.

(* a concrete non-trivial run: metadata known at accept, a short write, EAGAIN, drop-oldest *)
Definition ex_events : list event :=
  [EWake [([109], 1, Some [115], [100])] [] [];
   EAccept [[109]];
   EWritable 2 [Wrote 5]; EWritable 2 [Wrote 9];
   EWake [] [f1; f2] [(2, [Wrote 3; WouldBlock])];
   EWake [] [f1] [(2, [Wrote 1; Wrote 2; Wrote 3])]].
Lemma example_run :
  Forall ev_wf ex_events /\
  exists sf obs c, run fixed (Some 2) st0 ex_events = Some (sf, obs) /\
    lookup 2 (clients sf) = Some c /\ overflowed c = false /\ obs_ok obs = true /\
    split_frames (sent c) = ([[10; 11; 10; 1; 109; 16; 1; 26; 1; 115; 34; 1; 100]; [7; 7]; [8; 8]; [7; 7]], []).
Proof.
  split; [apply witness_wf; vm_compute; reflexivity|].
  eexists. eexists. eexists. vm_compute. repeat split.
Qed.
