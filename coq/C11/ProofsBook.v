(* C11 — bookkeeping between the model's run and the Spec's view of the log: splitting a run at an
   accept, the token an accept hands out, the metadata map against log_metas, the frames of
   wake-ups against log_metric_bodies. *)
From Coq Require Import List NArith ZArith Bool Lia Permutation.
Import ListNotations.
Require Import MV.C11.Model MV.C11.Spec MV.C11.Exec MV.C11.ProofsFraming MV.C11.ProofsInv
        MV.C11.ProofsState MV.C11.ProofsCount MV.C11.ProofsOrder MV.C11.ProofsWire MV.C11.ProofsReflect
        MV.C11.ProofsStream.
Open Scope N_scope.

(* ---------------------------------------------------------------- splitting runs *)
Lemma run_app F limit : forall e1 e2 s sf obs, run F limit s (e1 ++ e2) = Some (sf, obs) ->
  exists s1 o1 o2, run F limit s e1 = Some (s1, o1) /\ run F limit s1 e2 = Some (sf, o2).
Proof.
  induction e1 as [|e e1 IH]; intros e2 s sf obs R; cbn [app run] in *.
  - eauto.
  - destruct (step F limit s e) as [s'|]; [|discriminate].
    destruct (run F limit s' (e1 ++ e2)) as [[sf' obs']|] eqn:R'; [|discriminate].
    injection R as <- <-. destruct (IH _ _ _ _ R') as (s1 & o1 & o2 & R1 & R2).
    rewrite R1. eauto.
Qed.

Lemma nth_error_cut {A} : forall (l : list A) n a, nth_error l n = Some a ->
  l = firstn n l ++ a :: skipn (S n) l.
Proof.
  induction l as [|x l IH]; intros [|n] a H; cbn in *; try discriminate.
  - injection H as ->. reflexivity.
  - f_equal. apply IH. exact H.
Qed.

Definition is_accept (e : event) : bool := match e with EAccept _ => true | _ => false end.
Definition accepts (evs : list event) : N := len (filter is_accept evs).

Lemma remove_client_next s t : next_token (remove_client s t) = next_token s.
Proof. unfold remove_client. destruct (lookup t (clients s)); reflexivity. Qed.
Lemma remove_client_metadata s t : metadata (remove_client s t) = metadata s.
Proof. unfold remove_client. destruct (lookup t (clients s)); reflexivity. Qed.
Lemma fold_remove_metadata : forall rm s, metadata (fold_left remove_client rm s) = metadata s.
Proof. induction rm; intros; cbn [fold_left]; auto. rewrite IHrm. apply remove_client_metadata. Qed.
Lemma ntimes_dec_metadata n : forall s0, metadata (ntimes n decrement_clients s0) = metadata s0.
Proof. induction n; intros; cbn [ntimes]; auto. rewrite IHn. reflexivity. Qed.

Lemma step_next_token F limit s e s' : step F limit s e = Some s' ->
  next_token s' = next_token s + (if is_accept e then 1 else 0).
Proof.
  intros St. destruct e as [metas frames ws|order|t ws]; cbn [step is_accept] in *.
  - unfold step_wake in St. destruct (_ || _); [discriminate|].
    destruct frames as [|f fr]; [injection St as <-; cbn; lia|].
    remember (f :: fr) as frames. cbn [clients] in St.
    destruct (fan_out F (lim_of F limit) frames ws (clients s)) as [[cs' rm]|]; [|discriminate].
    injection St as <-. rewrite fold_remove_next, maybe_dec_next. cbn. lia.
  - unfold step_accept in St. destruct (negb _); [discriminate|].
    destruct (gen_meta (metadata s) order); [|discriminate]. injection St as <-. reflexivity.
  - unfold step_writable in St.
    destruct (lookup t (clients s)) as [ct|]; [|discriminate].
    destruct (drive F ws ct) as [[[d c'] ws']|]; [|discriminate].
    destruct ws'; [|discriminate]. injection St as <-.
    destruct d; [rewrite remove_client_next|]; cbn; lia.
Qed.

Lemma run_next_token F limit : forall evs s sf obs, run F limit s evs = Some (sf, obs) ->
  next_token sf = next_token s + accepts evs.
Proof.
  induction evs as [|e evs IH]; intros s sf obs R; cbn [run] in R.
  - injection R as <- _. unfold accepts. cbn. lia.
  - destruct (step F limit s e) as [s'|] eqn:St; [|discriminate].
    destruct (run F limit s' evs) as [[sf' obs']|] eqn:R'; [|discriminate].
    injection R as <- _. rewrite (IH _ _ _ R'), (step_next_token _ _ _ _ _ St).
    unfold accepts, len. cbn [filter]. destruct (is_accept e); cbn [length]; lia.
Qed.

(* ---------------------------------------------------------------- metadata map vs log_metas *)
Definition md_view (md : list (bytes * meta)) : list dmeta := map dm md.

Lemma meta_insert_view n ty u d : forall md,
  md_view (meta_insert n ty u d md) = log_meta_insert n ty u d (md_view md).
Proof.
  induction md as [|[k m] md IH]; cbn [meta_insert md_view map log_meta_insert]; auto.
  unfold dm at 2. cbn [fst snd dmeta_of dm_name]. rewrite bytes_eqb_sb.
  destruct (sb_eqb k n) eqn:E.
  - apply sb_eqb_eq in E. subst. reflexivity.
  - cbn [map]. f_equal. exact IH.
Qed.

Definition ins_model (md : list (bytes * meta)) (it : meta_item) :=
  let '(n, ty, u, d) := it in meta_insert n ty u d md.
Definition ins_log (md : list dmeta) (it : meta_item) :=
  let '(n, ty, u, d) := it in log_meta_insert n ty u d md.

Lemma fold_insert_view : forall metas md,
  md_view (fold_left ins_model metas md) = fold_left ins_log metas (md_view md).
Proof.
  induction metas as [|[[[n ty] u] d] metas IH]; intros md; cbn [fold_left]; auto.
  rewrite IH. cbn [ins_model ins_log]. rewrite meta_insert_view. reflexivity.
Qed.

Definition log_step (md : list dmeta) (e : event) : list dmeta :=
  match e with EWake metas _ _ => fold_left ins_log metas md | _ => md end.

Lemma step_metadata F limit s e s' : step F limit s e = Some s' ->
  metadata s' = match e with EWake metas _ _ => fold_left ins_model metas (metadata s) | _ => metadata s end.
Proof.
  intros St. destruct e as [metas frames ws|order|t ws]; cbn [step] in *.
  - unfold step_wake in St. destruct (_ || _); [discriminate|].
    destruct frames as [|f fr]; [injection St as <-; reflexivity|].
    remember (f :: fr) as frames. cbn [clients] in St.
    destruct (fan_out F (lim_of F limit) frames ws (clients s)) as [[cs' rm]|]; [|discriminate].
    injection St as <-. rewrite fold_remove_metadata.
    destruct (fix_dec F); [reflexivity|]. rewrite ntimes_dec_metadata. reflexivity.
  - unfold step_accept in St. destruct (negb _); [discriminate|].
    destruct (gen_meta (metadata s) order); [|discriminate]. injection St as <-. reflexivity.
  - unfold step_writable in St.
    destruct (lookup t (clients s)) as [ct|]; [|discriminate].
    destruct (drive F ws ct) as [[[d c'] ws']|]; [|discriminate].
    destruct ws'; [|discriminate]. injection St as <-.
    destruct d; [rewrite remove_client_metadata|]; reflexivity.
Qed.

Lemma run_md_view F limit : forall evs s sf obs, run F limit s evs = Some (sf, obs) ->
  md_view (metadata sf) = fold_left log_step evs (md_view (metadata s)).
Proof.
  induction evs as [|e evs IH]; intros s sf obs R; cbn [run fold_left] in *.
  - injection R as <- _. reflexivity.
  - destruct (step F limit s e) as [s'|] eqn:St; [|discriminate].
    destruct (run F limit s' evs) as [[sf' obs']|] eqn:R'; [|discriminate].
    injection R as <- _. rewrite (IH _ _ _ R'). f_equal.
    rewrite (step_metadata _ _ _ _ _ St). destruct e; cbn [log_step]; auto.
    apply fold_insert_view.
Qed.

Lemma log_metas_fold evs : log_metas evs = fold_left log_step evs [].
Proof. reflexivity. Qed.

(* keys of the metadata map stay distinct *)
Lemma meta_insert_keys n ty u d : forall md k,
  In k (map fst (meta_insert n ty u d md)) -> In k (map fst md) \/ k = n.
Proof.
  induction md as [|[k' m] md IH]; intros k; cbn [meta_insert map fst In].
  - intros [<-|[]]. auto.
  - destruct (bytes_eqb k' n); cbn [map fst In].
    + tauto.
    + intros [<-|H]; auto. destruct (IH _ H); auto.
Qed.
Lemma meta_insert_nodup n ty u d : forall md, NoDup (map fst md) -> NoDup (map fst (meta_insert n ty u d md)).
Proof.
  induction md as [|[k m] md IH]; intros N; cbn [meta_insert map fst].
  - constructor; [intros []|constructor].
  - inversion N; subst. destruct (bytes_eqb k n) eqn:E; cbn [map fst].
    + constructor; auto.
    + constructor; auto. intros H. destruct (meta_insert_keys _ _ _ _ _ _ H) as [H'|H']; auto.
      subst. rewrite bytes_eqb_sb, sb_eqb_refl in E. discriminate.
Qed.
Lemma fold_insert_nodup : forall metas md, NoDup (map fst md) -> NoDup (map fst (fold_left ins_model metas md)).
Proof.
  induction metas as [|[[[n ty] u] d] metas IH]; intros md N; cbn [fold_left]; auto.
  apply IH. cbn [ins_model]. apply meta_insert_nodup; auto.
Qed.
Lemma run_md_nodup F limit : forall evs s sf obs, run F limit s evs = Some (sf, obs) ->
  NoDup (map fst (metadata s)) -> NoDup (map fst (metadata sf)).
Proof.
  induction evs as [|e evs IH]; intros s sf obs R N; cbn [run] in R.
  - injection R as <- _. auto.
  - destruct (step F limit s e) as [s'|] eqn:St; [|discriminate].
    destruct (run F limit s' evs) as [[sf' obs']|] eqn:R'; [|discriminate].
    injection R as <- _. apply (IH _ _ _ R'). rewrite (step_metadata _ _ _ _ _ St).
    destruct e; auto. apply fold_insert_nodup; auto.
Qed.

Lemma meta_lookup_In n : forall md m, meta_lookup n md = Some m -> In (n, m) md.
Proof.
  induction md as [|[k m'] md IH]; intros m H; cbn [meta_lookup] in H; [discriminate|].
  destruct (bytes_eqb k n) eqn:E.
  - injection H as <-. rewrite bytes_eqb_sb in E. apply sb_eqb_eq in E. subst. left; auto.
  - right. auto.
Qed.

Lemma gen_meta_spec md : forall order ms, gen_meta md order = Some ms ->
  exists ML, ms = map (fun nm => enc (mbody nm)) ML /\ map fst ML = order /\ incl ML md.
Proof.
  induction order as [|n r IH]; intros ms G; cbn [gen_meta] in G.
  - injection G as <-. exists []. repeat split; auto. intros x [].
  - destruct (meta_lookup n md) as [m|] eqn:L; [|discriminate].
    destruct (gen_meta md r) as [fs|]; [|discriminate]. injection G as <-.
    destruct (IH _ eq_refl) as (ML & -> & Hk & Hi). exists ((n, m) :: ML). repeat split.
    + cbn [map fst]. congruence.
    + intros x [<-|H]; auto. apply meta_lookup_In; auto.
Qed.

Lemma nodupb_NoDup : forall l, nodupb l = true -> NoDup l.
Proof.
  induction l as [|x l IH]; cbn [nodupb]; intros H; constructor.
  - apply andb_true_iff in H. destruct H as [H _]. apply negb_true_iff in H.
    intros Hin. assert (existsb (bytes_eqb x) l = true); [|congruence].
    apply existsb_exists. exists x. split; auto. rewrite bytes_eqb_sb. apply sb_eqb_refl.
  - apply andb_true_iff in H. apply IH, H.
Qed.

(* the metadata frames generated at an accept: every entry of the map once, in some order *)
Lemma accept_metas s order s2 F limit : step F limit s (EAccept order) = Some s2 ->
  NoDup (map fst (metadata s)) ->
  exists ML, gen_meta (metadata s) order = Some (map (fun nm => enc (mbody nm)) ML) /\
             Permutation (map dm ML) (md_view (metadata s)).
Proof.
  intros St N. cbn [step] in St. unfold step_accept in St.
  destruct (nodupb order && (len order =? len (metadata s))) eqn:C; cbn [negb] in St; [|discriminate].
  destruct (gen_meta (metadata s) order) as [ms|] eqn:G; [|discriminate].
  destruct (gen_meta_spec _ _ _ G) as (ML & -> & Hk & Hi). exists ML. split; auto.
  apply Permutation_map. apply andb_true_iff in C. destruct C as [C1 C2].
  apply NoDup_Permutation_bis; auto.
  - apply (NoDup_map_inv fst). rewrite Hk. apply nodupb_NoDup; auto.
  - apply N.eqb_eq in C2. unfold len in C2. apply Nat2N.inj in C2.
    rewrite <- (map_length fst ML), Hk, C2. lia.
Qed.

(* ---------------------------------------------------------------- wake-up frames vs the log's bodies *)
Definition frame_ok (f : frame) : Prop := exists it, item_ok it /\ f = enc (kbody it).
Definition ev_ok (e : event) : Prop := match e with EWake _ frames _ => Forall frame_ok frames | _ => True end.

Lemma ev_ok_wf e : ev_ok e -> ev_wf e.
Proof.
  destruct e; cbn; auto. intros H. eapply Forall_impl; [|exact H].
  intros f (it & _ & ->). eexists. reflexivity.
Qed.

Lemma frames_items frames : Forall frame_ok frames ->
  exists L, frames = map (fun it => enc (kbody it)) L /\ Forall item_ok L.
Proof.
  induction 1 as [|f fs (it & Hi & ->) _ (L & -> & HL)]; [exists []; auto|].
  exists (it :: L). split; auto.
Qed.

Lemma wake_items : forall evs, Forall ev_ok evs ->
  exists KL, wake_frames evs = map (fun it => enc (kbody it)) KL /\ Forall item_ok KL.
Proof.
  induction 1 as [|e evs He _ (KL & E & HK)]; [exists []; auto|].
  unfold wake_frames in *. cbn [flat_map]. rewrite E.
  destruct e as [metas frames ws| |]; cbn [ev_frames app]; eauto.
  destruct (frames_items _ He) as (L & -> & HL). exists (L ++ KL). rewrite map_app. split; auto.
  apply Forall_app; auto.
Qed.

Lemma body_of_enc b : body_of (enc b) = b.
Proof.
  unfold body_of. pose proof (frame_roundtrip [b]) as H. cbn [map concat] in H.
  rewrite app_nil_r in H. rewrite H. reflexivity.
Qed.

Lemma log_bodies_wake evs : log_metric_bodies evs = map body_of (wake_frames evs).
Proof.
  unfold log_metric_bodies, wake_frames. induction evs as [|e evs IH]; cbn [flat_map map]; auto.
  rewrite map_app, IH. destruct e; reflexivity.
Qed.

Lemma log_bodies_items evs KL : wake_frames evs = map (fun it => enc (kbody it)) KL ->
  log_metric_bodies evs = map kbody KL.
Proof.
  intros E. rewrite log_bodies_wake, E, map_map. apply map_ext. intros. apply body_of_enc.
Qed.
