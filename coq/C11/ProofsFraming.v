(* C11 — the length-delimited framing: the Spec decoder inverts the Model encoder, also in front
   of a torn tail. *)
From Coq Require Import List NArith ZArith Bool Lia.
Import ListNotations.
Require Import MV.C11.Model MV.C11.Spec.
Open Scope N_scope.

Lemma firstn_len_app {A} (b r : list A) : firstn (length b) (b ++ r) = b.
Proof. induction b; cbn [length firstn app]; [destruct r|]; congruence. Qed.
Lemma skipn_len_app {A} (b r : list A) : skipn (length b) (b ++ r) = r.
Proof. induction b; cbn [length skipn app]; auto. Qed.

Lemma varint_fuel_nonempty k n : varint_fuel k n <> [].
Proof. destruct k; cbn [varint_fuel]; [|destruct (n <? 128)]; discriminate. Qed.

Lemma varint_fuel_dec : forall k n r, n < 2 ^ N.of_nat k ->
  decode_varint (varint_fuel k n ++ r) = Some (n, r).
Proof.
  induction k; intros n r H.
  - change (N.of_nat 0) with 0 in H. rewrite N.pow_0_r in H. assert (n = 0) by lia. subst.
    reflexivity.
  - cbn [varint_fuel]. destruct (n <? 128) eqn:E.
    + cbn [app decode_varint]. rewrite E. reflexivity.
    + apply N.ltb_ge in E. cbn [app decode_varint].
      assert (n mod 128 < 128) by (apply N.mod_lt; discriminate).
      destruct (n mod 128 + 128 <? 128) eqn:E2; [apply N.ltb_lt in E2; exfalso; clear - E2; revert E2; generalize (n mod 128); intros; lia|].
      rewrite IHk.
      * f_equal. f_equal. pose proof (N.div_mod n 128) as DM. clear - DM H0. revert DM H0. generalize (n mod 128) (n / 128). intros; lia.
      * apply N.div_lt_upper_bound; [discriminate|].
        rewrite Nat2N.inj_succ, N.pow_succ_r' in H.
        assert (0 < 2 ^ N.of_nat k) by (apply N.neq_0_lt_0, N.pow_nonzero; discriminate).
        generalize dependent (2 ^ N.of_nat k). intros; lia.
Qed.

Lemma size_bound n : n < 2 ^ N.of_nat (N.to_nat (N.size n)).
Proof. rewrite N2Nat.id. apply N.size_gt. Qed.

Lemma varint_dec n r : decode_varint (varint n ++ r) = Some (n, r).
Proof. apply varint_fuel_dec, size_bound. Qed.

Lemma varint_nonempty n : varint n <> [].
Proof. apply varint_fuel_nonempty. Qed.

Lemma enc_nonempty b : enc b <> [].
Proof. unfold enc. pose proof (varint_nonempty (len b)). destruct (varint (len b)); [congruence|discriminate]. Qed.

(* a prefix of an encoded varint followed by a body: if the varint decoder succeeds on it, it has
   read the whole varint *)
Lemma varint_fuel_prefix : forall k n p r body v q, n < 2 ^ N.of_nat k ->
  p ++ r = varint_fuel k n ++ body -> decode_varint p = Some (v, q) -> v = n /\ q ++ r = body.
Proof.
  induction k; intros n p r body v q H E D.
  - change (N.of_nat 0) with 0 in H. rewrite N.pow_0_r in H. assert (n = 0) by lia. subst.
    cbn [varint_fuel app] in E. destruct p as [|b0 p']; [discriminate|].
    cbn [app] in E. injection E as -> E. cbn [decode_varint] in D. cbn in D. injection D as <- <-. auto.
  - cbn [varint_fuel] in E. destruct p as [|b0 p']; [discriminate|].
    destruct (n <? 128) eqn:E1.
    + cbn [app] in E. injection E as -> E. cbn [decode_varint] in D. rewrite E1 in D.
      injection D as <- <-. auto.
    + apply N.ltb_ge in E1. cbn [app] in E. injection E as -> E. cbn [decode_varint] in D.
      assert (n mod 128 < 128) by (apply N.mod_lt; discriminate).
      destruct (n mod 128 + 128 <? 128) eqn:E2; [apply N.ltb_lt in E2; exfalso; clear - E2; revert E2; generalize (n mod 128); intros; lia|].
      destruct (decode_varint p') as [[v' q']|] eqn:D'; [|discriminate].
      injection D as <- <-.
      destruct (IHk (n / 128) p' r body v' q') as [-> ?]; auto.
      * apply N.div_lt_upper_bound; [discriminate|].
        rewrite Nat2N.inj_succ, N.pow_succ_r' in H.
        assert (0 < 2 ^ N.of_nat k) by (apply N.neq_0_lt_0, N.pow_nonzero; discriminate).
        generalize dependent (2 ^ N.of_nat k). intros; lia.
      * split; auto. pose proof (N.div_mod n 128) as DM. clear - DM H0. change (match n / 128 with 0 => 0 | N.pos q => N.pos q~0~0~0~0~0~0~0 end) with (128 * (n / 128)). revert DM H0. generalize (n mod 128) (n / 128). intros; lia.
Qed.

(* the unread tail of a stream: nothing, or a proper prefix of one encoded message *)
Definition tail_ok (p : bytes) : Prop := p = [] \/ exists b r, r <> [] /\ p ++ r = enc b.

Lemma split_tail : forall m p, tail_ok p -> split_fuel (S m) p = ([], p).
Proof.
  intros m p [->|(b & r & Hr & E)]; [reflexivity|].
  cbn [split_fuel]. destruct p as [|x p']; [reflexivity|].
  destruct (decode_varint (x :: p')) as [[v q]|] eqn:D; [|reflexivity].
  unfold enc, varint in E.
  destruct (varint_fuel_prefix _ _ _ _ _ _ _ (size_bound (len b)) E D) as [-> Hq].
  assert (slen q <? len b = true) as ->; [|reflexivity].
  apply N.ltb_lt. unfold slen, len. rewrite <- Hq, app_length.
  destruct r; [congruence|]. cbn [length]. lia.
Qed.

Lemma split_concat : forall bs fuel p, (length bs < fuel)%nat -> tail_ok p ->
  split_fuel fuel (concat (map enc bs) ++ p) = (bs, p).
Proof.
  induction bs as [|b bs IH]; intros fuel p Hf Hp.
  - destruct fuel; [lia|]. cbn [map concat app]. apply split_tail; auto.
  - destruct fuel as [|m]; [lia|]. cbn [map concat]. cbn [split_fuel].
    rewrite <- app_assoc.
    destruct (enc b ++ concat (map enc bs) ++ p) as [|x s] eqn:Es.
    { exfalso. apply (enc_nonempty b). destruct (enc b); [auto|discriminate]. }
    rewrite <- Es. unfold enc at 1. rewrite <- app_assoc, varint_dec.
    assert (slen (b ++ concat (map enc bs) ++ p) <? len b = false) as ->.
    { apply N.ltb_ge. unfold slen, len. rewrite app_length. lia. }
    unfold len. rewrite Nat2N.id, firstn_len_app, skipn_len_app.
    rewrite IH; auto. cbn [length] in Hf. lia.
Qed.

Lemma concat_enc_length bs p : (length bs <= length (concat (map enc bs) ++ p))%nat.
Proof.
  induction bs as [|b bs IH]; cbn [map concat length]; [lia|].
  rewrite <- app_assoc, app_length. pose proof (enc_nonempty b). destruct (enc b); [congruence|].
  cbn [length]. lia.
Qed.

Theorem split_frames_concat bs p : tail_ok p ->
  split_frames (concat (map enc bs) ++ p) = (bs, p).
Proof.
  intros. unfold split_frames. apply split_concat; auto.
  pose proof (concat_enc_length bs p). lia.
Qed.

Theorem frame_roundtrip bs : split_frames (concat (map enc bs)) = (bs, []).
Proof.
  rewrite <- (app_nil_r (concat (map enc bs))) at 1. apply split_frames_concat. left; auto.
Qed.
