(* C11 — the vocabulary shared by the Model's encoder and the Spec's decoder: a protobuf field
   value by wire type.  Type only. *)
From Coq Require Import NArith List.
Inductive wv := VInt (n : N) | V64 (n : N) | VLen (b : list N) | V32 (n : N).
