(* C11 — the Spec's protobuf decoder inverts the Model's encoders: generic fields, Metadata
   messages, Metric messages (name, labels, operation kind and value intact). *)
From Coq Require Import List NArith ZArith Bool Lia.
Import ListNotations.
Require Import MV.C11.Model MV.C11.Spec MV.C11.ProofsFraming.
Open Scope N_scope.

Definition ok_field (fv : N * wv) : Prop :=
  fst fv < 16 /\ match snd fv with V64 n => n < 2 ^ 64 | V32 _ => False | _ => True end.

Lemma tag_facts f wt : f < 16 -> wt < 8 ->
  (f * 8 + wt <? 128) = true /\ (f * 8 + wt) / 8 = f /\ (f * 8 + wt) mod 8 = wt.
Proof.
  intros Hf Hw. repeat split.
  - apply N.ltb_lt. lia.
  - symmetry. apply (N.div_unique _ 8 f wt); lia.
  - symmetry. apply (N.mod_unique _ 8 f wt); lia.
Qed.

Lemma firstn_exact {A} k (l r : list A) : length l = k -> firstn k (l ++ r) = l.
Proof. intros <-. apply firstn_len_app. Qed.
Lemma skipn_exact {A} k (l r : list A) : length l = k -> skipn k (l ++ r) = r.
Proof. intros <-. apply skipn_len_app. Qed.

Lemma le_bytes_length k n : length (le_bytes k n) = k.
Proof. revert n; induction k; intros; cbn [le_bytes length]; auto. Qed.

Lemma le_num_le_bytes : forall k n, le_num (le_bytes k n) = n mod 256 ^ N.of_nat k.
Proof.
  induction k; intros n.
  - cbn. rewrite N.mod_1_r. reflexivity.
  - cbn [le_bytes le_num]. rewrite IHk, Nat2N.inj_succ, N.pow_succ_r'.
    rewrite N.mod_mul_r; [reflexivity|discriminate|]. apply N.pow_nonzero. discriminate.
Qed.

Lemma parse_step k fv rest : ok_field fv ->
  parse_fields (S k) (enc_field fv ++ rest) =
  match parse_fields k rest with Some l => Some (fv :: l) | None => None end.
Proof.
  destruct fv as [f v]. intros [Hf Hv]. cbn [fst snd] in *. unfold enc_field. cbn [fst snd].
  destruct v as [n|n|s|n]; [| | |tauto].
  - (* varint *)
    destruct (tag_facts f 0 Hf ltac:(lia)) as (T1 & T2 & T3). rewrite N.add_0_r in *.
    cbn [app parse_fields decode_varint]. rewrite T1, T2, T3. rewrite varint_dec.
    destruct (parse_fields k rest); reflexivity.
  - (* fixed64 *)
    destruct (tag_facts f 1 Hf ltac:(lia)) as (T1 & T2 & T3).
    cbn [app parse_fields decode_varint]. rewrite T1, T2, T3.
    assert (slen (le_bytes 8 n ++ rest) <? 8 = false) as ->.
    { apply N.ltb_ge. unfold slen. rewrite app_length, le_bytes_length. lia. }
    rewrite (firstn_exact 8), (skipn_exact 8) by apply le_bytes_length.
    rewrite le_num_le_bytes. change (256 ^ N.of_nat 8) with (2 ^ 64). rewrite N.mod_small by auto.
    destruct (parse_fields k rest); reflexivity.
  - (* length-delimited *)
    destruct (tag_facts f 2 Hf ltac:(lia)) as (T1 & T2 & T3).
    cbn [app parse_fields decode_varint]. rewrite T1, T2, T3. rewrite <- app_assoc, varint_dec.
    assert (slen (s ++ rest) <? len s = false) as ->.
    { apply N.ltb_ge. unfold slen, len. rewrite app_length. lia. }
    unfold len. rewrite Nat2N.id, firstn_len_app, skipn_len_app.
    destruct (parse_fields k rest); reflexivity.
Qed.

Lemma enc_field_nonempty fv : enc_field fv <> [].
Proof. unfold enc_field. destruct (snd fv); discriminate. Qed.

Lemma enc_fields_length l : (length l <= length (enc_fields l))%nat.
Proof.
  induction l as [|fv l IH]; cbn [enc_fields flat_map length]; [lia|].
  rewrite app_length. pose proof (enc_field_nonempty fv). destruct (enc_field fv); [congruence|].
  cbn [length]. unfold enc_fields in IH. lia.
Qed.

Lemma parse_enc_fields : forall l k, Forall ok_field l -> (length l < k)%nat ->
  parse_fields k (enc_fields l) = Some l.
Proof.
  induction l as [|fv l IH]; intros k Ok Hk; (destruct k as [|k]; [lia|]).
  - reflexivity.
  - inversion Ok; subst. change (enc_fields (fv :: l)) with (enc_field fv ++ enc_fields l).
    rewrite parse_step by auto. rewrite IH; auto. cbn [length] in Hk. lia.
Qed.

Theorem fields_roundtrip l : Forall ok_field l -> fields (enc_fields l) = Some l.
Proof.
  intros Ok. unfold fields. apply parse_enc_fields; auto.
  pose proof (enc_fields_length l). lia.
Qed.

(* ---- last_field on concatenations *)
Lemma last_field_app f a b :
  last_field f (a ++ b) = match last_field f b with Some x => Some x | None => last_field f a end.
Proof.
  induction a as [|[k v] a IH]; cbn [app last_field].
  - destruct (last_field f b); reflexivity.
  - rewrite IH. destruct (last_field f b); reflexivity.
Qed.
Lemma last_field_none f l : Forall (fun fv => fst fv <> f) l -> last_field f l = None.
Proof.
  induction 1 as [|[k v] l H _ IH]; cbn [last_field]; auto. rewrite IH.
  cbn [fst] in H. apply N.eqb_neq in H. rewrite H. reflexivity.
Qed.

Lemma ok_opt_str f s : f < 16 -> Forall ok_field (opt_str f s).
Proof. intros. destruct s; cbn; repeat constructor; auto. Qed.
Lemma ok_opt_int f n : f < 16 -> Forall ok_field (opt_int f n).
Proof. intros. unfold opt_int. destruct (n =? 0); repeat constructor; auto. Qed.

(* ---- Metadata *)
Definition dmeta_of (name : bytes) (m : meta) : dmeta := mkDMeta name (m_type m) (m_unit m) (m_desc m).

Lemma meta_fields_ok name m : Forall ok_field (meta_fields name m).
Proof.
  unfold meta_fields. repeat (apply Forall_app; split).
  - apply ok_opt_str; lia.
  - apply ok_opt_int; lia.
  - destruct (m_unit m); repeat constructor; cbn; lia.
  - destruct (m_desc m); repeat constructor; cbn; lia.
Qed.

Lemma decode_meta_fields name m :
  decode_meta (enc_fields (meta_fields name m)) = Some (dmeta_of name m).
Proof.
  unfold decode_meta. rewrite fields_roundtrip by apply meta_fields_ok.
  unfold dmeta_of, meta_fields, opt_int, str_or_empty, str_field.
  destruct m as [ty u d]. cbn [m_type m_unit m_desc].
  destruct (ty =? 0) eqn:Et; [apply N.eqb_eq in Et; subst ty|];
    destruct name as [|x name]; destruct u as [u|]; destruct d as [d|]; cbn; reflexivity.
Qed.

Theorem meta_roundtrip name m : decode_event (meta_body name m) = Some (DMeta (dmeta_of name m)).
Proof.
  unfold decode_event, meta_body. rewrite fields_roundtrip.
  - rewrite decode_meta_fields. reflexivity.
  - repeat constructor; cbn; lia.
Qed.

(* ---- Metric *)
Definition op_ok (o : mop) : Prop :=
  match o with
  | IncrementCounter _ | SetCounter _ => True
  | IncrementGauge b | DecrementGauge b | SetGauge b | RecordHistogram b => b < 2 ^ 64
  end.
Definition op_num (o : mop) : N * N :=
  match o with
  | IncrementCounter v => (4, v) | SetCounter v => (5, v)
  | IncrementGauge b => (6, b) | DecrementGauge b => (7, b) | SetGauge b => (8, b) | RecordHistogram b => (9, b)
  end.
Definition dmetric_of (name : bytes) (labels : list (bytes * bytes)) (o : mop) : dmetric :=
  mkDMetric name labels (fst (op_num o)) (snd (op_num o)).

Lemma label_fields_ok kv : Forall ok_field (label_fields kv).
Proof. unfold label_fields. apply Forall_app; split; apply ok_opt_str; lia. Qed.

Lemma decode_label_enc kv : decode_label (enc_fields (label_fields kv)) = Some kv.
Proof.
  unfold decode_label. rewrite fields_roundtrip by apply label_fields_ok.
  destruct kv as [[|a k] [|b v]]; cbn; reflexivity.
Qed.

Definition label_entry (kv : bytes * bytes) : N * wv := (3, VLen (enc_fields (label_fields kv))).

Lemma op_field_ok o : op_ok o -> ok_field (op_field o).
Proof. unfold ok_field, op_field, op_ok. destruct o; cbn [fst snd]; intros; split; auto; lia. Qed.

Lemma metric_fields_ok name secs nanos labels o : op_ok o ->
  Forall ok_field (metric_fields name secs nanos labels o).
Proof.
  intros Ho. unfold metric_fields. repeat (apply Forall_app; split).
  - apply ok_opt_str; lia.
  - repeat constructor; cbn; lia.
  - apply Forall_forall. intros fv Hin. apply in_map_iff in Hin. destruct Hin as (kv & <- & _).
    split; cbn; auto; lia.
  - repeat constructor; apply op_field_ok; auto.
Qed.

Lemma decode_labels_tail labels o :
  decode_labels (map label_entry labels ++ [op_field o]) = Some labels.
Proof.
  induction labels as [|kv labels IH]; cbn [map app].
  - destruct o; reflexivity.
  - unfold label_entry at 1. cbn [decode_labels]. rewrite decode_label_enc, IH. reflexivity.
Qed.
Lemma decode_ops_tail labels o :
  decode_ops (map label_entry labels ++ [op_field o]) = [op_num o].
Proof.
  induction labels as [|kv labels IH]; cbn [map app].
  - destruct o; reflexivity.
  - unfold label_entry at 1. cbn [decode_ops]. exact IH.
Qed.

Lemma decode_metric_fields name secs nanos labels o : op_ok o ->
  decode_metric (enc_fields (metric_fields name secs nanos labels o)) = Some (dmetric_of name labels o).
Proof.
  intros Ho. unfold decode_metric. rewrite fields_roundtrip by (apply metric_fields_ok; auto).
  unfold metric_fields. fold label_entry.
  assert (L : decode_labels (opt_str 1 name ++ [(2, VLen (enc_fields (ts_fields secs nanos)))] ++
                             map label_entry labels ++ [op_field o]) = Some labels).
  { destruct name; cbn [opt_str app decode_labels]; apply decode_labels_tail. }
  assert (O : decode_ops (opt_str 1 name ++ [(2, VLen (enc_fields (ts_fields secs nanos)))] ++
                          map label_entry labels ++ [op_field o]) = [op_num o]).
  { destruct name; cbn [opt_str app decode_ops]; apply decode_ops_tail. }
  rewrite L, O. unfold dmetric_of. destruct (op_num o) as [f v] eqn:E. cbn [fst snd].
  f_equal. f_equal. unfold str_or_empty, str_field. rewrite last_field_app.
  rewrite last_field_none.
  - destruct name; reflexivity.
  - constructor; [cbn; discriminate|]. apply Forall_app; split.
    + apply Forall_forall. intros fv Hin. apply in_map_iff in Hin. destruct Hin as (kv & <- & _). cbn. discriminate.
    + constructor; [|constructor]. destruct o; cbn; discriminate.
Qed.

Theorem metric_roundtrip i secs nanos : op_ok (mi_op i) ->
  decode_event (metric_body i secs nanos) =
  Some (DMetric (dmetric_of (mi_name i) (btree_of (mi_labels i)) (mi_op i))).
Proof.
  intros Ho. unfold decode_event, metric_body. rewrite fields_roundtrip.
  - rewrite decode_metric_fields by auto. reflexivity.
  - repeat constructor; cbn; lia.
Qed.

(* through the framing: what a reader of the wire sees for one encoded metric *)
Theorem metric_frame_roundtrip i secs nanos : op_ok (mi_op i) ->
  split_frames (enc_metric i secs nanos) = ([metric_body i secs nanos], []) /\
  decode_event (metric_body i secs nanos) =
  Some (DMetric (dmetric_of (mi_name i) (btree_of (mi_labels i)) (mi_op i))).
Proof.
  intros Ho. split; [|apply metric_roundtrip; auto].
  unfold enc_metric. pose proof (frame_roundtrip [metric_body i secs nanos]) as H.
  cbn [map concat] in H. rewrite app_nil_r in H. exact H.
Qed.
