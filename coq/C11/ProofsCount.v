(* C11 — client_count = |clients| and should_send = (|clients| > 0) at every event boundary
   (fixed code), for every event sequence, oracle and limit, whatever the fixes for the write
   path are. *)
From Coq Require Import List NArith ZArith Bool Lia Permutation.
Import ListNotations.
Require Import MV.C11.Model MV.C11.Spec.
Open Scope N_scope.

Record cnt_inv (s : state) : Prop := mkCnt {
  cn_nodup : NoDup (map fst (clients s));
  cn_fresh : Forall (fun t => t < next_token s) (map fst (clients s));
  cn_count : client_count s = Z.of_nat (length (clients s));
  cn_send : should_send s = (0 <? client_count s)%Z
}.

Lemma lookup_notin {A} t (l : list (token * A)) : ~ In t (map fst l) -> lookup t l = None.
Proof.
  induction l as [|[k v] l IH]; cbn [map fst In lookup]; auto.
  intros H. destruct (k =? t) eqn:E; [apply N.eqb_eq in E; tauto|]. apply IH. tauto.
Qed.

Lemma remove_tok_keys {A} t (l : list (token * A)) k :
  In k (map fst (remove_tok t l)) -> In k (map fst l).
Proof.
  induction l as [|[k' v] l IH]; cbn [remove_tok map fst In]; auto.
  destruct (k' =? t); cbn [map fst In]; tauto.
Qed.

Lemma remove_tok_nodup {A} t (l : list (token * A)) :
  NoDup (map fst l) -> NoDup (map fst (remove_tok t l)).
Proof.
  induction l as [|[k v] l IH]; cbn [remove_tok map fst]; auto.
  intros N. inversion N; subst. destruct (k =? t); auto.
  cbn [map fst]. constructor; auto. intros H. apply remove_tok_keys in H. auto.
Qed.

Lemma remove_tok_id {A} t (l : list (token * A)) : lookup t l = None -> remove_tok t l = l.
Proof.
  induction l as [|[k v] l IH]; cbn [lookup remove_tok]; auto.
  destruct (k =? t); [discriminate|]. intros H. rewrite IH; auto.
Qed.

Lemma remove_tok_length {A} t (l : list (token * A)) c :
  NoDup (map fst l) -> lookup t l = Some c -> S (length (remove_tok t l)) = length l.
Proof.
  induction l as [|[k v] l IH]; cbn [lookup remove_tok map fst length]; [discriminate|].
  intros N L. inversion N; subst. destruct (k =? t) eqn:E.
  - apply N.eqb_eq in E. subst. rewrite remove_tok_id; auto. apply lookup_notin; auto.
  - cbn [length]. rewrite IH; auto.
Qed.

Lemma remove_client_cnt s t : cnt_inv s -> cnt_inv (remove_client s t).
Proof.
  intros [N F C S]. unfold remove_client. destruct (lookup t (clients s)) as [c|] eqn:L.
  2:{ constructor; auto. }
  pose proof (remove_tok_length _ _ _ N L) as Len.
  constructor; cbn.
  - apply remove_tok_nodup; auto.
  - apply Forall_forall. intros k Hk. apply remove_tok_keys in Hk.
    eapply Forall_forall in F; eauto.
  - rewrite C. lia.
  - rewrite S, C. destruct (Z.of_nat (length (clients s)) =? 1)%Z eqn:E.
    + apply Z.eqb_eq in E. rewrite E. reflexivity.
    + apply Z.eqb_neq in E. symmetry.
      assert (H1 : (0 <? Z.of_nat (length (clients s)))%Z = true) by (apply Z.ltb_lt; lia).
      rewrite H1. apply Z.ltb_lt. lia.
Qed.

Lemma fold_remove_cnt : forall rm s, cnt_inv s -> cnt_inv (fold_left remove_client rm s).
Proof. induction rm; intros; cbn [fold_left]; auto. apply IHrm, remove_client_cnt; auto. Qed.

Lemma fan_out_keys F lim frames ws : forall cs cs' rm,
  fan_out F lim frames ws cs = Some (cs', rm) -> map fst cs' = map fst cs.
Proof.
  induction cs as [|[t c] cs IH]; intros cs' rm H; cbn [fan_out] in H.
  - injection H as <- <-. auto.
  - destruct (fan_one F lim frames (ws_for t ws) c) as [[d c']|]; [|discriminate].
    destruct (fan_out F lim frames ws cs) as [[cs1 rm1]|]; [|discriminate].
    injection H as <- <-. cbn [map fst]. f_equal. eapply IH; eauto.
Qed.

Lemma map_update_keys t c' (l : list (token * client)) :
  map fst (map (fun '(k, v) => if k =? t then (k, c') else (k, v)) l) = map fst l.
Proof. induction l as [|[k v] l IH]; cbn; auto. destruct (k =? t); cbn; rewrite IH; auto. Qed.

Lemma cnt_same_keys s cs md : cnt_inv s -> map fst cs = map fst (clients s) ->
  cnt_inv (mkState cs md (client_count s) (should_send s) (next_token s) (gone s)).
Proof.
  intros [N F C S] E. constructor; cbn; try rewrite E; auto.
  rewrite C. f_equal. rewrite <- (map_length fst cs), E, map_length. reflexivity.
Qed.

(* the write-path fixes do not matter here; the decrement fix does *)
Definition dec_fixed (F : fixes) : Prop := fix_dec F = true.

Lemma step_cnt F limit s e s' : dec_fixed F -> cnt_inv s -> step F limit s e = Some s' -> cnt_inv s'.
Proof.
  intros HF I St. destruct e as [metas frames ws|order|t ws]; cbn [step] in St.
  - unfold step_wake in St. destruct (_ || _); [discriminate|].
    destruct frames as [|f fr].
    + injection St as <-. apply cnt_same_keys; auto.
    + remember (f :: fr) as frames. cbn [clients] in St.
      destruct (fan_out F (lim_of F limit) frames ws (clients s)) as [[cs' rm]|] eqn:Fo; [|discriminate].
      injection St as <-. rewrite HF. apply fold_remove_cnt. apply cnt_same_keys; auto.
      eapply fan_out_keys; eauto.
  - unfold step_accept in St. destruct (negb _); [discriminate|].
    destruct (gen_meta (metadata s) order) as [ms|]; [|discriminate].
    injection St as <-. destruct I as [N Fr C S]. constructor; cbn.
    + rewrite map_app. cbn [map fst].
      apply (Permutation.Permutation_NoDup (l := next_token s :: map fst (clients s))).
      * apply Permutation.Permutation_cons_append.
      * constructor; auto. intros H. eapply Forall_forall in Fr; eauto. lia.
    + rewrite map_app. apply Forall_app; split.
      * eapply Forall_impl; [|exact Fr]. cbn beta. intros; lia.
      * cbn [map fst]. constructor; auto. lia.
    + rewrite C, app_length. cbn [length]. lia.
    + symmetry. apply Z.ltb_lt. rewrite C. lia.
  - unfold step_writable in St.
    destruct (lookup t (clients s)) as [c|]; [|discriminate].
    destruct (drive F ws c) as [[[d c'] ws']|]; [|discriminate].
    destruct ws'; [|discriminate]. injection St as <-.
    assert (I1 : cnt_inv (mkState (map (fun '(k, v) => if k =? t then (k, c') else (k, v)) (clients s))
                                  (metadata s) (client_count s) (should_send s) (next_token s) (gone s))).
    { apply cnt_same_keys; auto. apply map_update_keys. }
    destruct d; auto. apply remove_client_cnt; auto.
Qed.

Definition obs_good (o : Z * Z * bool) : Prop :=
  let '(n, c, s) := o in c = n /\ s = (0 <? n)%Z.

Lemma observe_good s : cnt_inv s -> obs_good (observe s).
Proof.
  intros [N F C S]. unfold observe, obs_good, len. rewrite nat_N_Z. split; auto. rewrite S, C. auto.
Qed.

Lemma run_cnt F limit : dec_fixed F -> forall evs s sf obs, cnt_inv s ->
  run F limit s evs = Some (sf, obs) -> cnt_inv sf /\ Forall obs_good obs.
Proof.
  intros HF. induction evs as [|e evs IH]; intros s sf obs I R; cbn [run] in R.
  - injection R as <- <-. auto.
  - destruct (step F limit s e) as [s'|] eqn:St; [|discriminate].
    destruct (run F limit s' evs) as [[sf' obs']|] eqn:R'; [|discriminate].
    injection R as <- <-. pose proof (step_cnt _ _ _ _ _ HF I St) as I'.
    destruct (IH s' sf' obs' I' R') as [H1 H2]. split; auto.
    constructor; auto. apply observe_good; auto.
Qed.

Lemma st0_cnt : cnt_inv st0.
Proof. constructor; cbn; auto; constructor. Qed.

Lemma obs_ok_iff obs : obs_ok obs = true <-> Forall obs_good obs.
Proof.
  unfold obs_ok. rewrite forallb_forall, Forall_forall. split; intros H [[n c] s] Hin.
  - specialize (H _ Hin). cbn in H. apply andb_true_iff in H. destruct H as [H1 H2].
    apply Z.eqb_eq in H1. apply eqb_prop in H2. split; auto.
  - specialize (H _ Hin). destruct H as [-> ->]. cbn. rewrite Z.eqb_refl, eqb_reflx. auto.
Qed.
