(* C11 — the model's own run passes spec_ok. *)
From Coq Require Import List NArith ZArith Bool Lia Permutation.
Import ListNotations.
Require Import MV.C11.Model MV.C11.Spec MV.C11.Exec MV.C11.ProofsFraming MV.C11.ProofsInv
        MV.C11.ProofsState MV.C11.ProofsCount MV.C11.ProofsOrder MV.C11.ProofsWire MV.C11.ProofsReflect
        MV.C11.ProofsStream MV.C11.ProofsBook MV.C11.ProofsMain.
Open Scope N_scope.

Lemma flushed_inv k : flushed k = true -> wbuf k = None /\ msgs k = [].
Proof. unfold flushed. destruct (wbuf k); [discriminate|]. destruct (msgs k); [auto|discriminate]. Qed.

Lemma map_enc_bodies ML KL :
  map (fun nm => enc (mbody nm)) ML ++ map (fun it => enc (kbody it)) KL =
  map enc (map mbody ML ++ map kbody KL).
Proof. rewrite map_app, !map_map. reflexivity. Qed.

(* a client that is connected at the end of the run *)
Lemma connected_stream_ok limit evs a order t sf obs k x :
  run fixed limit st0 evs = Some (sf, obs) ->
  Forall ev_ok evs ->
  nth_error evs a = Some (EAccept order) ->
  t = 2 + accepts (firstn a evs) ->
  lookup t (clients sf) = Some k ->
  x_log_metas x = log_metas (firstn a evs) ->
  x_metric_bodies x = log_metric_bodies (skipn (S a) evs) ->
  (x_stay x = true -> flushed k = true) ->
  (x_full x = true -> overflowed k = false) ->
  stream_log_ok x (sent k) = true.
Proof.
  intros R Ok Nth Ht L Xm Xk Hstay Hfull.
  pose proof (nth_error_cut _ _ _ Nth) as Cut.
  remember (firstn a evs) as evs1. remember (skipn (S a) evs) as evs2.
  clear Heqevs1 Heqevs2. subst evs.
  apply Forall_app in Ok. destruct Ok as [Ok1 Ok2']. inversion Ok2' as [|? ? _ Ok2]; subst.
  destruct (run_app _ _ _ _ _ _ _ R) as (s1 & o1 & o2 & R1 & R2').
  cbn [run] in R2'. destruct (step fixed limit s1 (EAccept order)) as [s2|] eqn:St; [|discriminate].
  destruct (run fixed limit s2 evs2) as [[sf' o2']|] eqn:R2; [|discriminate].
  injection R2' as -> _.
  assert (W1 : Forall ev_wf evs1) by (eapply Forall_impl; [|exact Ok1]; apply ev_ok_wf).
  assert (W2 : Forall ev_wf evs2) by (eapply Forall_impl; [|exact Ok2]; apply ev_ok_wf).
  (* the token *)
  pose proof (run_next_token _ _ _ _ _ _ R1) as Nt. change (next_token st0) with 2 in Nt.
  rewrite <- Nt in L.
  (* invariants *)
  pose proof (run_inv _ _ _ _ _ st0_inv W1 R1) as I1.
  assert (I2 : cs_inv (clients s2)) by (eapply step_inv; eauto; exact I).
  pose proof (run_inv _ _ _ _ _ I2 W2 R2) as I3.
  destruct (run_cnt fixed limit eq_refl _ _ _ _ st0_cnt R1) as [[_ Fr _ _] _].
  destruct (accepted_client_queue _ _ _ _ _ _ _ _ _ St Fr R2 L) as (ms & G & Eq).
  assert (Nd : NoDup (map fst (metadata s1))).
  { eapply run_md_nodup; [exact R1|]. constructor. }
  destruct (accept_metas _ _ _ _ _ St Nd) as (ML & G' & Perm).
  rewrite G' in G. injection G as <-.
  pose proof (run_md_view _ _ _ _ _ _ R1) as Mv. change (md_view (metadata st0)) with (@nil dmeta) in Mv.
  rewrite <- log_metas_fold in Mv. rewrite Mv, <- Xm in Perm.
  destruct (wake_items _ Ok2) as (KL & Ew & HK).
  pose proof (log_bodies_items _ _ Ew) as Lb. rewrite <- Xk in Lb.
  (* the client *)
  pose proof L as Lin. apply lookup_In in Lin. eapply Forall_forall in I3; [|exact Lin]. cbn [snd] in I3.
  destruct (cinv_stream _ I3) as (bs & Hsent & Hwr & Hsub & _ & T & _).
  rewrite Eq, Ew, map_enc_bodies in Hsub.
  assert (Tp : tail_ok (pfx k)).
  { destruct T as [[_ ->]|(r & b & _ & Hr & E)]; [left; auto|right; eauto]. }
  assert (Hp : x_stay x = true -> pfx k = []).
  { intros Hs. destruct (flushed_inv _ (Hstay Hs)) as [Hw _]. pose proof (ci_wbuf _ I3) as W.
    rewrite Hw in W. exact W. }
  destruct (x_stay x && x_full x) eqn:Exact.
  - (* everything queued has been written *)
    apply andb_true_iff in Exact. destruct Exact as [Es Ef].
    destruct (flushed_inv _ (Hstay Es)) as [Hw Hm].
    pose proof (ci_full _ I3 (Hfull Ef)) as Full. unfold fseq, inflight in Full.
    rewrite Hw, Hm in Full. cbn [app] in Full. rewrite app_nil_r in Full.
    rewrite Hwr, Eq, Ew, map_enc_bodies in Full.
    apply (stream_log_ok_reflect x ML KL ML KL (sent k) (pfx k)); auto.
    + rewrite Hsent, Full. reflexivity.
    + apply Subseq_refl.
    + apply Subseq_refl.
  - rewrite <- map_enc_bodies in Hsub.
    destruct (Subseq_app_split _ _ _ Hsub) as (l1 & l2 & El & S1 & S2).
    destruct (Subseq_map_inv _ _ _ S1) as (ML1 & -> & S1').
    destruct (Subseq_map_inv _ _ _ S2) as (KL1 & -> & S2').
    rewrite map_enc_bodies in El.
    apply (stream_log_ok_reflect x ML KL ML1 KL1 (sent k) (pfx k)); auto.
    + rewrite Hsent, El. reflexivity.
    + eapply Subseq_Forall; eauto.
    + rewrite Exact. discriminate.
Qed.

(* ---------------------------------------------------------------- cases *)
(* how a client entry of a case relates to the log and to the model's final state *)
Definition client_wf (c : case) (sf : state) (i : cinfo) : Prop :=
  exists t order k,
    ci_tok i = Some t /\
    nth_error (c_events c) (ci_at i) = Some (EAccept order) /\
    t = 2 + accepts (firstn (ci_at i) (c_events c)) /\
    lookup t (clients sf) = Some k /\                       (* [still_connected] *)
    overflowed k = existsb (N.eqb t) (c_drops c).

Definition case_wf (c : case) : Prop :=
  exists sf obs,
    run fixed (c_limit c) st0 (c_events c) = Some (sf, obs) /\
    Forall ev_ok (c_events c) /\
    o_quiet (run_case c) = true /\
    Forall (client_wf c sf) (c_clients c).

Lemma run_case_eq c sf obs : run fixed (c_limit c) st0 (c_events c) = Some (sf, obs) ->
  run_case c =
  mkOut true
        (forallb (fun i => negb (ci_stay i) || match model_client sf i with Some k => flushed k | None => false end)
                 (c_clients c))
        false
        (map (fun i => match model_client sf i with Some k => sent k | None => [] end) (c_clients c))
        obs.
Proof. intros R. unfold run_case, run_case_with. cbn [init fixed fix_cap]. rewrite R. reflexivity. Qed.

Lemma streams_ok_map c (f : cinfo -> bytes) : forall cs,
  (forall i, In i cs -> stream_ok (expect_of c i) (f i) = true) -> streams_ok c cs (map f cs) = true.
Proof.
  induction cs as [|i cs IH]; intros H; cbn [map streams_ok]; auto.
  rewrite H by (left; auto). apply IH. intros; apply H; right; auto.
Qed.

Theorem spec_ok_on_model c : case_wf c -> harness_ok c = true -> spec_ok c (run_case c) = true.
Proof.
  intros (sf & obs & R & Ok & Q & Cw) Hh. unfold spec_ok. rewrite (run_case_eq _ _ _ R) in *.
  cbn [o_served o_quiet o_obs o_streams] in *. rewrite Q.
  destruct (client_count_exact fixed _ _ _ _ eq_refl R) as (_ & _ & ->). cbn [andb].
  apply streams_ok_map. intros i Hin.
  eapply Forall_forall in Cw; [|exact Hin].
  destruct Cw as (t & order & k & Ht & Nth & Et & L & Ov).
  unfold stream_ok. apply andb_true_iff. split.
  2:{ unfold harness_ok in Hh. eapply forallb_forall in Hh; eauto. }
  assert (Mc : model_client sf i = Some k).
  { unfold model_client, find_client. rewrite Ht, L. reflexivity. }
  rewrite Mc.
  eapply (connected_stream_ok (c_limit c) (c_events c) (ci_at i) order t sf obs k); eauto.
  - (* stayed -> flushed *)
    cbn [expect_of x_stay]. intros Hs. eapply forallb_forall in Q; [|exact Hin].
    rewrite Hs, Mc in Q. exact Q.
  - (* nothing reported as discarded -> the model discarded nothing *)
    cbn [expect_of x_full]. rewrite Ht, Ov. intros H. apply negb_true_iff in H. exact H.
Qed.

(* ---------------------------------------------------------------- the hypotheses are satisfiable *)
Definition ex_item : mitem := mkItem [97] [([116], [49])] (IncrementCounter 1).
Definition ex_logged : frame := enc_metric ex_item 5 7.
Definition ex_case : case :=
  mkCase (Some 2)
         [CWake [([109], 1, Some [115], [100])] [] [] [];
          CAccept [[109]];
          CWritable 2 [Wrote 5];
          CWritable 2 [Wrote 9];
          CWake [] [ex_item] [ex_logged] [(2, [Wrote 22])]]
         []
         [mkCinfo (Some 2) 1 true
                  [mkDMeta [109] 1 (Some [115]) (Some [100])]
                  [([49], [mkDMetric [97] [([116], [49])] 4 1])]].

Lemma ex_case_wf : case_wf ex_case.
Proof.
  eexists. eexists. split; [vm_compute; reflexivity|]. split; [|split].
  - unfold ex_case, c_events. cbn [c_cevents map to_event].
    constructor; [cbn; constructor|]. do 3 (constructor; [exact I|]). constructor; [|constructor].
    cbn [ev_ok]. replace (enc_items [ex_item] [ex_logged]) with [enc (kbody (ex_item, 5, 7))] by (vm_compute; reflexivity).
    constructor; [|constructor]. exists (ex_item, 5, 7). split; [exact I|reflexivity].
  - vm_compute. reflexivity.
  - constructor; [|constructor]. eexists. eexists. eexists.
    split; [reflexivity|]. split; [vm_compute; reflexivity|]. split; [vm_compute; reflexivity|].
    split; vm_compute; reflexivity.
Qed.

Lemma ex_case_harness : harness_ok ex_case = true.
Proof. vm_compute. reflexivity. Qed.

Lemma ex_case_spec_ok : spec_ok ex_case (run_case ex_case) = true.
Proof. apply spec_ok_on_model; [apply ex_case_wf|apply ex_case_harness]. Qed.

(* the events recorded by the harness satisfy ev_ok whenever the logged double values are 64-bit patterns *)
Definition cevent_ok (e : cevent) : Prop :=
  match e with CWake _ items _ _ => Forall (fun i => op_ok (mi_op i)) items | _ => True end.

Lemma enc_items_ok : forall items logged, Forall (fun i => op_ok (mi_op i)) items ->
  Forall frame_ok (enc_items items logged).
Proof.
  induction items as [|i items IH]; intros logged H; cbn [enc_items]; [constructor|].
  inversion H; subst. destruct (ts_of (hd [] logged)) as [secs nanos]. constructor; auto.
  exists (i, secs, nanos). split; auto.
Qed.

Lemma recorded_events_ok c : Forall cevent_ok (c_cevents c) -> Forall ev_ok (c_events c).
Proof.
  unfold c_events. induction 1 as [|e l He _ IH]; cbn [map]; constructor; auto.
  destruct e; cbn [to_event ev_ok]; auto. apply enc_items_ok. exact He.
Qed.
