From Coq Require Import List NArith ZArith Bool.
Import ListNotations.
Require Import MV.C11.Model MV.C11.Spec MV.C11.Exec MV.C11.ProofsFraming MV.C11.ProofsInv
        MV.C11.ProofsState MV.C11.ProofsCount MV.C11.ProofsOrder MV.C11.ProofsWire MV.C11.ProofsReflect
        MV.C11.ProofsStream MV.C11.ProofsBook MV.C11.ProofsMain MV.C11.ProofsSpecOk MV.C11.ProofsGone MV.C11.ProofsGoneTrack MV.C11.ProofsGoneSpec MV.C11.Wake.
From Coq Require Import Permutation.
Open Scope N_scope.
Require Import MV.C11.Properties.

Check (C11_frame_roundtrip : forall bodies, split_frames (concat (map enc bodies)) = (bodies, [])).
Print Assumptions C11_frame_roundtrip.
Check (C11_frame_roundtrip_torn_tail : forall bodies p, tail_ok p ->
  split_frames (concat (map enc bodies) ++ p) = (bodies, p)).
Print Assumptions C11_frame_roundtrip_torn_tail.
Check (C11_stream_integrity : forall limit evs sf obs,
  Forall ev_wf evs -> run fixed limit st0 evs = Some (sf, obs) ->
  forall t c, In (t, c) (clients sf) ->
  exists bodies,
    sent c = concat (map enc bodies) ++ pfx c /\
    Subseq (map enc bodies) (enq c) /\
    ((wbuf c = None /\ pfx c = []) \/
     (exists r b, wbuf c = Some r /\ r <> [] /\ pfx c ++ r = enc b)) /\
    split_frames (sent c) = (bodies, pfx c)).
Print Assumptions C11_stream_integrity.
Check (C11_prefix_metadata_then_metrics_in_order : forall limit evs1 order evs2 s1 s2 sf obs1 obs2 cf,
  Forall ev_wf evs1 -> Forall ev_wf evs2 ->
  run fixed limit st0 evs1 = Some (s1, obs1) ->
  step fixed limit s1 (EAccept order) = Some s2 ->
  run fixed limit s2 evs2 = Some (sf, obs2) ->
  lookup (next_token s1) (clients sf) = Some cf ->
  exists ms bodies,
    gen_meta (metadata s1) order = Some ms /\
    enq cf = ms ++ wake_frames evs2 /\
    sent cf = concat (map enc bodies) ++ pfx cf /\
    split_frames (sent cf) = (bodies, pfx cf) /\
    Subseq (map enc bodies) (ms ++ wake_frames evs2) /\
    (overflowed cf = false -> exists rest, ms ++ wake_frames evs2 = map enc bodies ++ rest)).
Print Assumptions C11_prefix_metadata_then_metrics_in_order.
Check (C11_client_count_exact : forall F limit evs sf obs,
  fix_dec F = true -> run F limit st0 evs = Some (sf, obs) ->
  client_count sf = Z.of_N (len (clients sf)) /\
  should_send sf = (0 <? Z.of_N (len (clients sf)))%Z /\
  obs_ok obs = true).
Print Assumptions C11_client_count_exact.
Check (C11_starts_for_every_limit : forall limit, init fixed limit = Running st0).
Print Assumptions C11_starts_for_every_limit.
Check (C11_capacity_refuted_before_fix : init before_cap None = Panicked).
Print Assumptions C11_capacity_refuted_before_fix.
Check (C11_decrement_refuted_before_fix : exists sf obs, run before_dec (Some 8) st0 dec_witness = Some (sf, obs) /\
                 map fst (clients sf) = [3] /\ client_count sf = 0%Z /\ should_send sf = false).
Print Assumptions C11_decrement_refuted_before_fix.
Check (C11_wouldblock_refuted_before_fix : exists sf obs c, Forall ev_wf block_witness /\
    run before_block None st0 block_witness = Some (sf, obs) /\
    lookup 2 (clients sf) = Some c /\ torn c = true).
Print Assumptions C11_wouldblock_refuted_before_fix.
Check (C11_interrupted_refuted_before_fix : exists sf obs c, Forall ev_wf intr_witness /\
    run before_intr None st0 intr_witness = Some (sf, obs) /\
    lookup 2 (clients sf) = Some c /\ torn c = true).
Print Assumptions C11_interrupted_refuted_before_fix.
Check (C11_zero_buffer_refuted_before_fix : forall s metas frames ws, metas <> [] \/ frames <> [] ->
  step_wake before_zero (Some 0) s metas frames ws = None).
Print Assumptions C11_zero_buffer_refuted_before_fix.
Check (C11_zero_buffer_is_one_after_fix : lim_of fixed (Some 0) = 1).
Print Assumptions C11_zero_buffer_is_one_after_fix.
Check (C11_fields_roundtrip : forall l, Forall ok_field l -> fields (enc_fields l) = Some l).
Print Assumptions C11_fields_roundtrip.
Check (C11_metadata_roundtrip : forall name m,
  decode_event (meta_body name m) = Some (DMeta (mkDMeta name (m_type m) (m_unit m) (m_desc m)))).
Print Assumptions C11_metadata_roundtrip.
Check (C11_metric_roundtrip : forall i secs nanos, op_ok (mi_op i) ->
  split_frames (enc_metric i secs nanos) = ([metric_body i secs nanos], []) /\
  decode_event (metric_body i secs nanos) =
  Some (DMetric (mkDMetric (mi_name i) (btree_of (mi_labels i)) (fst (op_num (mi_op i))) (snd (op_num (mi_op i)))))).
Print Assumptions C11_metric_roundtrip.
Check (C11_stream_log_ok_reflect : forall x ML KL ML1 KL1 s p,
  s = concat (map enc (map mbody ML1 ++ map kbody KL1)) ++ p ->
  tail_ok p -> (x_stay x = true -> p = []) ->
  Forall item_ok KL1 ->
  Subseq ML1 ML -> Subseq KL1 KL ->
  Permutation (map dm ML) (x_log_metas x) ->
  x_metric_bodies x = map kbody KL ->
  (x_stay x && x_full x = true -> ML1 = ML /\ KL1 = KL) ->
  stream_log_ok x s = true).
Print Assumptions C11_stream_log_ok_reflect.
Check (C11_spec_ok_sound : forall c o, spec_ok c o = true ->
  o_served o = true /\ o_quiet o = true /\ Forall obs_good (o_obs o) /\
  streams_ok c (c_clients c) (o_streams o) = true).
Print Assumptions C11_spec_ok_sound.
Check (C11_stream_ok_whole_frames : forall x s, stream_ok x s = true -> x_stay x = true ->
  exists bodies es, split_frames s = (bodies, []) /\ decode_all bodies = Some es).
Print Assumptions C11_stream_ok_whole_frames.
Check (C11_spec_ok_on_model : forall c, case_wf c -> harness_ok c = true -> spec_ok c (run_case c) = true).
Print Assumptions C11_spec_ok_on_model.
Check (C11_recorded_events_ok : forall c, Forall cevent_ok (c_cevents c) -> Forall ev_ok (c_events c)).
Print Assumptions C11_recorded_events_ok.
Check (C11_spec_ok_on_model_example : case_wf ex_case /\ harness_ok ex_case = true /\ spec_ok ex_case (run_case ex_case) = true).
Print Assumptions C11_spec_ok_on_model_example.
Check (C11_example_run : Forall ev_wf ex_events /\
  exists sf obs c, run fixed (Some 2) st0 ex_events = Some (sf, obs) /\
    lookup 2 (clients sf) = Some c /\ overflowed c = false /\ obs_ok obs = true /\
    split_frames (sent c) = ([[10; 11; 10; 1; 109; 16; 1; 26; 1; 115; 34; 1; 100]; [7; 7]; [8; 8]; [7; 7]], [])).
Print Assumptions C11_example_run.
Check (C11_removed_client_stream : forall limit evs1 order evs2 s1 s2 sf o1 o2,
  Forall ev_wf evs1 -> Forall ev_wf evs2 ->
  run fixed limit st0 evs1 = Some (s1, o1) ->
  step fixed limit s1 (EAccept order) = Some s2 ->
  run fixed limit s2 evs2 = Some (sf, o2) ->
  lookup (next_token s1) (clients sf) = None ->
  exists ms cg bs rest,
    gen_meta (metadata s1) order = Some ms /\
    lookup (next_token s1) (gone sf) = Some cg /\
    sent cg = concat (map enc bs) ++ pfx cg /\ tail_ok (pfx cg) /\
    split_frames (sent cg) = (bs, pfx cg) /\
    Subseq (map enc bs) (enq cg) /\
    ms ++ wake_frames evs2 = enq cg ++ rest).
Print Assumptions C11_removed_client_stream.
Check (C11_spec_ok_on_model_all_clients : forall c,
  case_wf_all c -> harness_ok c = true -> spec_ok c (run_case c) = true).
Print Assumptions C11_spec_ok_on_model_all_clients.
Check (C11_case_wf_weaken : forall c, case_wf c -> case_wf_all c).
Print Assumptions C11_case_wf_weaken.
Check (C11_spec_ok_on_model_removed_example : (case_wf_all ex_case_gone /\
   exists sf obs, run fixed (Some 2) st0 (c_events ex_case_gone) = Some (sf, obs) /\
                  lookup 2 (clients sf) = None /\ lookup 2 (gone sf) <> None) /\
  harness_ok ex_case_gone = true /\ spec_ok ex_case_gone (run_case ex_case_gone) = true).
Print Assumptions C11_spec_ok_on_model_removed_example.
Check (C11_wake_always_never_stuck : forall n cap ls s,
  wrun WakeAlways cap (winit n) ls = Some s -> ~ stuck s).
Print Assumptions C11_wake_always_never_stuck.
Check (C11_wake_if_was_empty_gets_stuck : exists s, wrun WakeIfWasEmpty 4096 (winit 1) lost_wakeup_schedule = Some s /\ stuck s).
Print Assumptions C11_wake_if_was_empty_gets_stuck.
