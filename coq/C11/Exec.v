(* C11 — executable entry points used by the correspondence check (trace validation). *)
From Coq Require Import List NArith ZArith Bool.
Import ListNotations.
Require Export MV.C11.Model MV.C11.Spec.
Open Scope N_scope.

(* one harness client: its exporter token (None: never accepted), the index of its Accept in the
   event list, whether it stayed connected and reading to the end, and what the harness expects it
   to receive *)
Record cinfo := mkCinfo {
  ci_tok : option token;
  ci_at : nat;
  ci_stay : bool;
  ci_metas : list dmeta;
  ci_threads : list (sbytes * list dmetric)
}.

(* a recorded scenario: configuration, the transport thread's inputs in program order, the
   tokens for which the exporter reported discarding queued messages, the clients *)
Record case := mkCase {
  c_limit : option N;
  c_events : list event;
  c_drops : list token;
  c_clients : list cinfo
}.

Record OUT := mkOut {
  o_served : bool;                 (* the transport thread reached its loop and accepted every client *)
  o_quiet : bool;                  (* every staying client's queue was written out (and read) *)
  o_stuck : bool;                  (* model only: the log is not a possible run of the model *)
  o_streams : list bytes;          (* per client: the bytes it read / the model's `sent` *)
  o_obs : list (Z * Z * bool)      (* per event boundary: |clients|, client_count, should_send *)
}.

Definition find_client (s : state) (t : token) : option client :=
  match lookup t (clients s) with
  | Some c => Some c
  | None => lookup t (gone s)
  end.

Definition flushed (c : client) : bool :=
  match wbuf c, msgs c with None, [] => true | _, _ => false end.

Definition run_case_with (fixed : fixes) (c : case) : OUT :=
  match init fixed (c_limit c) with
  | Panicked => mkOut false false false [] []
  | Running s0 =>
    match run fixed (c_limit c) s0 (c_events c) with
    | None => mkOut true false true [] []
    | Some (sf, obs) =>
      let cl i := match ci_tok i with Some t => find_client sf t | None => None end in
      mkOut true
            (forallb (fun i => negb (ci_stay i) || match cl i with Some k => flushed k | None => false end)
                     (c_clients c))
            false
            (map (fun i => match cl i with Some k => sent k | None => [] end) (c_clients c))
            obs
    end
  end.

Definition run_case (c : case) : OUT := run_case_with fixed c.

Fixpoint prefixb (a b : bytes) : bool :=
  match a, b with
  | [], _ => true
  | x :: r, y :: r' => (x =? y) && prefixb r r'
  | _, _ => false
  end.

Fixpoint streams_agree (cs : list cinfo) (m o : list bytes) : bool :=
  match cs, m, o with
  | [], [], [] => true
  | i :: cs', sm :: m', so :: o' =>
    (if ci_stay i then sb_eqb sm so else prefixb so sm) && streams_agree cs' m' o'
  | _, _, _ => false
  end.

Definition obs_eqb (a b : Z * Z * bool) : bool :=
  let '(n, c, s) := a in let '(n', c', s') := b in (n =? n')%Z && (c =? c')%Z && Bool.eqb s s'.

(* model output [m] against observed output [o] *)
Definition agree (c : case) (m o : OUT) : bool :=
  negb (o_stuck m) && Bool.eqb (o_served m) (o_served o) &&
  (if o_served o then
     implb (o_quiet o) (o_quiet m) && list_eqb obs_eqb (o_obs m) (o_obs o) &&
     streams_agree (c_clients c) (o_streams m) (o_streams o)
   else true).

(* ---- the spec's view of the log: what the exporter took from its channel before / after an accept *)
Fixpoint log_meta_insert (n : sbytes) (ty : N) (u : option sbytes) (d : sbytes) (l : list dmeta) : list dmeta :=
  match l with
  | [] => [mkDMeta n ty u (Some d)]
  | m :: r => if sb_eqb (dm_name m) n then mkDMeta n (dm_type m) u (Some d) :: r
              else m :: log_meta_insert n ty u d r
  end.
Definition log_metas (evs : list event) : list dmeta :=
  fold_left (fun md e => match e with
                         | EWake metas _ _ => fold_left (fun md '(n, ty, u, d) => log_meta_insert n ty u d md) metas md
                         | _ => md end) evs [].
Definition body_of (f : bytes) : sbytes :=
  match split_frames f with ([b], []) => b | _ => f end.
Definition log_metric_bodies (evs : list event) : list sbytes :=
  flat_map (fun e => match e with EWake _ frames _ => map body_of frames | _ => [] end) evs.

Definition expect_of (c : case) (i : cinfo) : expect :=
  mkExpect (ci_stay i)
           (match ci_tok i with Some t => negb (existsb (N.eqb t) (c_drops c)) | None => true end)
           (log_metas (firstn (ci_at i) (c_events c)))
           (log_metric_bodies (skipn (S (ci_at i)) (c_events c)))
           (ci_metas i) (ci_threads i).

Fixpoint streams_ok (c : case) (cs : list cinfo) (o : list bytes) : bool :=
  match cs, o with
  | [], [] => true
  | i :: cs', s :: o' => stream_ok (expect_of c i) s && streams_ok c cs' o'
  | _, _ => false
  end.

(* the property in executable form, evaluated on an observed output *)
Definition spec_ok (c : case) (o : OUT) : bool :=
  o_served o && o_quiet o && obs_ok (o_obs o) && streams_ok c (c_clients c) (o_streams o).

Definition known_class (c : case) : option N := None.

Definition verdicts (l : list (N * case * OUT)) : list (N * bool * bool * option N) :=
  map (fun '(i, c, o) => (i, agree c (run_case c) o, spec_ok c o, known_class c)) l.
