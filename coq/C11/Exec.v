(* C11 — executable entry points used by the correspondence check (trace validation). *)
From Coq Require Import List NArith ZArith Bool.
Import ListNotations.
Require Export MV.C11.Model MV.C11.Spec.
Open Scope N_scope.

(* one harness client: its exporter token (None: never accepted), the index of its Accept in the
   event list, whether it stayed connected and reading to the end, and what the harness expects it
   to receive *)
Record cinfo := mkCinfo {
  ci_tok : option token;
  ci_at : nat;
  ci_stay : bool;
  ci_metas : list dmeta;
  ci_threads : list (sbytes * list dmetric)
}.

(* the recorded inputs of the transport thread: as [event], but a wake-up carries the inputs of
   convert_metric_to_protobuf_encoded (as logged before encoding) next to the frames it produced
   (as logged after encoding) *)
Inductive cevent :=
| CWake (metas : list meta_item) (items : list mitem) (logged : list frame) (ws : list (token * list wres))
| CAccept (order : list bytes)
| CWritable (t : token) (ws : list wres).

(* the wall-clock timestamp inside a logged metric frame (an input of the model: SystemTime::now()) *)
Definition int_field (f : N) (l : list (N * wv)) : N :=
  match last_field f l with Some (VInt n) => n | _ => 0 end.
Definition ts_of (f : frame) : N * N :=
  match split_frames f with
  | ([b], []) =>
    match fields b with
    | Some [(2, VLen m)] =>
      match fields m with
      | Some l => match str_field 2 l with
                  | Some t => match fields t with Some tl => (int_field 1 tl, int_field 2 tl) | None => (0, 0) end
                  | None => (0, 0)
                  end
      | None => (0, 0)
      end
    | _ => (0, 0)
    end
  | _ => (0, 0)
  end.

Fixpoint enc_items (items : list mitem) (logged : list frame) : list frame :=
  match items with
  | [] => []
  | i :: r =>
    let '(secs, nanos) := ts_of (hd [] logged) in
    enc_metric i secs nanos :: enc_items r (tl logged)
  end.

Definition to_event (e : cevent) : event :=
  match e with
  | CWake metas items logged ws => EWake metas (enc_items items logged) ws
  | CAccept order => EAccept order
  | CWritable t ws => EWritable t ws
  end.

(* a recorded scenario: configuration, the transport thread's inputs in program order, the
   tokens for which the exporter reported discarding queued messages, the clients *)
Record case := mkCase {
  c_limit : option N;
  c_cevents : list cevent;
  c_drops : list token;
  c_clients : list cinfo
}.
Definition c_events (c : case) : list event := map to_event (c_cevents c).

(* the model's encoding of every metric equals, byte for byte, what the exporter produced *)
Definition encodings_agree (c : case) : bool :=
  forallb (fun e => match e with
                    | CWake _ items logged _ => list_eqb sb_eqb (enc_items items logged) logged
                    | _ => true end) (c_cevents c).

Record OUT := mkOut {
  o_served : bool;                 (* the transport thread reached its loop and accepted every client *)
  o_quiet : bool;                  (* every staying client's queue was written out (and read) *)
  o_stuck : bool;                  (* model only: the log is not a possible run of the model *)
  o_streams : list bytes;          (* per client: the bytes it read / the model's `sent` *)
  o_obs : list (Z * Z * bool)      (* per event boundary: |clients|, client_count, should_send *)
}.

Definition find_client (s : state) (t : token) : option client :=
  match lookup t (clients s) with
  | Some c => Some c
  | None => lookup t (gone s)
  end.

Definition flushed (c : client) : bool :=
  match wbuf c, msgs c with None, [] => true | _, _ => false end.

Definition model_client (sf : state) (i : cinfo) : option client :=
  match ci_tok i with Some t => find_client sf t | None => None end.

Definition run_case_with (fixed : fixes) (c : case) : OUT :=
  match init fixed (c_limit c) with
  | Panicked => mkOut false false false [] []
  | Running s0 =>
    match run fixed (c_limit c) s0 (c_events c) with
    | None => mkOut true false true [] []
    | Some (sf, obs) =>
      let cl := model_client sf in
      mkOut true
            (forallb (fun i => negb (ci_stay i) || match cl i with Some k => flushed k | None => false end)
                     (c_clients c))
            false
            (map (fun i => match cl i with Some k => sent k | None => [] end) (c_clients c))
            obs
    end
  end.

Definition run_case (c : case) : OUT := run_case_with fixed c.

Fixpoint prefixb (a b : bytes) : bool :=
  match a, b with
  | [], _ => true
  | x :: r, y :: r' => (x =? y) && prefixb r r'
  | _, _ => false
  end.

Fixpoint streams_agree (cs : list cinfo) (m o : list bytes) : bool :=
  match cs, m, o with
  | [], [], [] => true
  | i :: cs', sm :: m', so :: o' =>
    (if ci_stay i then sb_eqb sm so else prefixb so sm) && streams_agree cs' m' o'
  | _, _, _ => false
  end.

Definition obs_eqb (a b : Z * Z * bool) : bool :=
  let '(n, c, s) := a in let '(n', c', s') := b in (n =? n')%Z && (c =? c')%Z && Bool.eqb s s'.

(* the model discards queued messages for exactly the clients for which the exporter said so *)
Definition drops_agree (c : case) : bool :=
  match run fixed (c_limit c) st0 (c_events c) with
  | Some (sf, _) =>
    forallb (fun i => match ci_tok i, model_client sf i with
                      | Some t, Some k => Bool.eqb (overflowed k) (existsb (N.eqb t) (c_drops c))
                      | _, _ => true end) (c_clients c)
  | None => true
  end.

(* model output [m] against observed output [o] *)
Definition agree (c : case) (m o : OUT) : bool :=
  negb (o_stuck m) && Bool.eqb (o_served m) (o_served o) && encodings_agree c && drops_agree c &&
  (if o_served o then
     implb (o_quiet o) (o_quiet m) && list_eqb obs_eqb (o_obs m) (o_obs o) &&
     streams_agree (c_clients c) (o_streams m) (o_streams o)
   else true).

(* ---- the spec's view of the log: what the exporter took from its channel before / after an accept *)
Fixpoint log_meta_insert (n : sbytes) (ty : N) (u : option sbytes) (d : sbytes) (l : list dmeta) : list dmeta :=
  match l with
  | [] => [mkDMeta n ty u (Some d)]
  | m :: r => if sb_eqb (dm_name m) n then mkDMeta n (dm_type m) u (Some d) :: r
              else m :: log_meta_insert n ty u d r
  end.
Definition log_metas (evs : list event) : list dmeta :=
  fold_left (fun md e => match e with
                         | EWake metas _ _ => fold_left (fun md '(n, ty, u, d) => log_meta_insert n ty u d md) metas md
                         | _ => md end) evs [].
Definition body_of (f : bytes) : sbytes :=
  match split_frames f with ([b], []) => b | _ => f end.
Definition log_metric_bodies (evs : list event) : list sbytes :=
  flat_map (fun e => match e with EWake _ frames _ => map body_of frames | _ => [] end) evs.

Definition expect_of (c : case) (i : cinfo) : expect :=
  mkExpect (ci_stay i)
           (match ci_tok i with Some t => negb (existsb (N.eqb t) (c_drops c)) | None => true end)
           (log_metas (firstn (ci_at i) (c_events c)))
           (log_metric_bodies (skipn (S (ci_at i)) (c_events c)))
           (ci_metas i) (ci_threads i).

Fixpoint streams_ok (c : case) (cs : list cinfo) (o : list bytes) : bool :=
  match cs, o with
  | [], [] => true
  | i :: cs', s :: o' => stream_ok (expect_of c i) s && streams_ok c cs' o'
  | _, _ => false
  end.

Fixpoint streams_log_ok (c : case) (cs : list cinfo) (o : list bytes) : bool :=
  match cs, o with
  | [], [] => true
  | i :: cs', s :: o' => stream_log_ok (expect_of c i) s && streams_log_ok c cs' o'
  | _, _ => false
  end.
(* the log against the harness's expectations: a predicate on the case alone *)
Definition harness_ok (c : case) : bool := forallb (fun i => log_harness_ok (expect_of c i)) (c_clients c).

(* the property in executable form, evaluated on an observed output *)
Definition spec_ok (c : case) (o : OUT) : bool :=
  o_served o && o_quiet o && obs_ok (o_obs o) && streams_ok c (c_clients c) (o_streams o).

Definition known_class (c : case) : option N := None.

Definition verdicts (l : list (N * case * OUT)) : list (N * bool * bool * option N) :=
  map (fun '(i, c, o) => (i, agree c (run_case c) o, spec_ok c o, known_class c)) l.
