(* C11 — following one client through a run until the end or until the model removes it. *)
From Coq Require Import List NArith ZArith Bool Lia Permutation.
Import ListNotations.
Require Import MV.C11.Model MV.C11.Spec MV.C11.Exec MV.C11.ProofsFraming MV.C11.ProofsInv
        MV.C11.ProofsState MV.C11.ProofsCount MV.C11.ProofsOrder MV.C11.ProofsMain MV.C11.ProofsGone.
Open Scope N_scope.

Lemma remove_client_gone s k :
  gone (remove_client s k) =
  match lookup k (clients s) with Some c => gone s ++ [(k, c)] | None => gone s end.
Proof. unfold remove_client. destruct (lookup k (clients s)); reflexivity. Qed.

(* where a token ends up in `gone` after the removal pass *)
Lemma fold_remove_gone t : forall rm s,
  lookup t (gone (fold_left remove_client rm s)) =
  match lookup t (gone s) with
  | Some g => Some g
  | None => if existsb (fun k => k =? t) rm then lookup t (clients s) else None
  end.
Proof.
  induction rm as [|k rm IH]; intros s; cbn [fold_left existsb].
  - destruct (lookup t (gone s)); reflexivity.
  - rewrite IH, remove_client_gone, remove_client_lookup.
    destruct (lookup t (gone s)) as [g|] eqn:G.
    + destruct (lookup k (clients s)); [rewrite (lookup_app_l _ _ _ _ G)|rewrite G]; reflexivity.
    + destruct (k =? t) eqn:E.
      * apply N.eqb_eq in E. subst k. cbn [orb].
        destruct (lookup t (clients s)) as [c|] eqn:L.
        -- rewrite lookup_app_none by exact G. cbn [lookup]. rewrite N.eqb_refl. reflexivity.
        -- rewrite G. destruct (existsb (fun k0 => k0 =? t) rm); reflexivity.
      * cbn [orb]. destruct (lookup k (clients s)) as [c|].
        -- rewrite lookup_app_none by exact G. cbn [lookup]. rewrite E. reflexivity.
        -- rewrite G. reflexivity.
Qed.

(* `gone` only grows, by clients that were connected *)
Lemma fold_remove_gone_app : forall rm s, exists l,
  gone (fold_left remove_client rm s) = gone s ++ l /\
  Forall (fun tc => In (fst tc) (map fst (clients s))) l.
Proof.
  induction rm as [|k rm IH]; intros s; cbn [fold_left].
  - exists []. rewrite app_nil_r. auto.
  - destruct (IH (remove_client s k)) as (l & E & Fl). rewrite E, remove_client_gone.
    assert (Fl' : Forall (fun tc => In (fst tc) (map fst (clients s))) l).
    { eapply Forall_impl; [|exact Fl]. cbn beta. intros tc H. rewrite remove_client_clients in H.
      eapply remove_tok_keys; eauto. }
    destruct (lookup k (clients s)) as [c|] eqn:L.
    + exists ((k, c) :: l). rewrite <- app_assoc. split; auto. constructor; auto.
      cbn [fst]. apply lookup_In in L. apply (in_map fst) in L. exact L.
    + exists l. auto.
Qed.

Lemma ntimes_dec_gone n : forall s0, gone (ntimes n decrement_clients s0) = gone s0.
Proof. induction n; intros; cbn [ntimes]; auto. rewrite IHn. reflexivity. Qed.

Lemma step_gone_app F limit s e s' : step F limit s e = Some s' ->
  exists l, gone s' = gone s ++ l /\ Forall (fun tc => In (fst tc) (map fst (clients s))) l.
Proof.
  intros St. destruct e as [metas frames ws|order|t ws]; cbn [step] in St.
  - unfold step_wake in St. destruct (_ || _); [discriminate|].
    destruct frames as [|f fr].
    { injection St as <-. exists []. cbn. rewrite app_nil_r. auto. }
    remember (f :: fr) as frames. cbn [clients] in St.
    destruct (fan_out F (lim_of F limit) frames ws (clients s)) as [[cs' rm]|] eqn:Fo; [|discriminate].
    injection St as <-.
    match goal with |- context [fold_left remove_client rm ?s0] => destruct (fold_remove_gone_app rm s0) as (l & E & Fl) end.
    exists l. rewrite E. split.
    + destruct (fix_dec F); [reflexivity|]. rewrite ntimes_dec_gone. reflexivity.
    + eapply Forall_impl; [|exact Fl]. cbn beta. intros tc H.
      rewrite maybe_dec_clients in H. cbn [clients] in H. rewrite (fan_out_keys _ _ _ _ _ _ _ Fo) in H. exact H.
  - unfold step_accept in St. destruct (negb _); [discriminate|].
    destruct (gen_meta (metadata s) order); [|discriminate]. injection St as <-.
    exists []. cbn. rewrite app_nil_r. auto.
  - unfold step_writable in St.
    destruct (lookup t (clients s)) as [ct|]; [|discriminate].
    destruct (drive F ws ct) as [[[d c'] ws']|]; [|discriminate].
    destruct ws'; [|discriminate]. injection St as <-.
    destruct d; [|exists []; cbn; rewrite app_nil_r; auto].
    rewrite remove_client_gone. cbn [clients gone].
    match goal with |- context [match ?x with _ => _ end] => destruct x as [c2|] eqn:L end.
    + exists [(t, c2)]. split; auto. constructor; auto. cbn [fst].
      apply lookup_In in L. apply (in_map fst) in L. rewrite map_update_keys in L. exact L.
    + exists []. rewrite app_nil_r. auto.
Qed.

Lemma step_gone_keep F limit s e s' t g : step F limit s e = Some s' ->
  lookup t (gone s) = Some g -> lookup t (gone s') = Some g.
Proof.
  intros St G. destruct (step_gone_app _ _ _ _ _ St) as (l & -> & _). apply lookup_app_l; auto.
Qed.

(* tokens in `gone` are below next_token *)
Definition gone_fresh (s : state) : Prop := Forall (fun k => k < next_token s) (map fst (gone s)).

Lemma step_gone_fresh F limit s e s' : fix_dec F = true -> cnt_inv s -> gone_fresh s ->
  step F limit s e = Some s' -> gone_fresh s'.
Proof.
  intros HF C G St. unfold gone_fresh in *.
  destruct (step_gone_app _ _ _ _ _ St) as (l & -> & Fl). rewrite map_app. apply Forall_app; split.
  - eapply Forall_impl; [|exact G]. cbn beta. intros k H. eapply step_next; eauto.
  - apply Forall_forall. intros k Hk. apply in_map_iff in Hk. destruct Hk as (tc & <- & Hin).
    eapply Forall_forall in Fl; [|exact Hin]. pose proof (cn_fresh _ C) as Fr.
    eapply Forall_forall in Fr; [|exact Fl]. eapply step_next; eauto.
Qed.

Lemma run_gone_fresh F limit : fix_dec F = true -> forall evs s sf obs, cnt_inv s -> gone_fresh s ->
  run F limit s evs = Some (sf, obs) -> gone_fresh sf.
Proof.
  intros HF. induction evs as [|e evs IH]; intros s sf obs C G R; cbn [run] in R.
  - injection R as <- _. auto.
  - destruct (step F limit s e) as [s'|] eqn:St; [|discriminate].
    destruct (run F limit s' evs) as [[sf' obs']|] eqn:R'; [|discriminate].
    injection R as <- _. apply (IH s' sf' obs'); auto.
    + eapply step_cnt; eauto.
    + eapply step_gone_fresh; eauto.
Qed.

Lemma lookup_fresh_none {A} t (l : list (token * A)) n :
  Forall (fun k => k < n) (map fst l) -> n <= t -> lookup t l = None.
Proof.
  intros F H. apply lookup_notin. intros Hin. eapply Forall_forall in F; eauto. lia.
Qed.

Lemma run_gone_keep F limit t g : forall evs s sf obs, run F limit s evs = Some (sf, obs) ->
  lookup t (gone s) = Some g -> lookup t (gone sf) = Some g.
Proof.
  induction evs as [|e evs IH]; intros s sf obs R G; cbn [run] in R.
  - injection R as <- _. auto.
  - destruct (step F limit s e) as [s'|] eqn:St; [|discriminate].
    destruct (run F limit s' evs) as [[sf' obs']|] eqn:R'; [|discriminate].
    injection R as <- _. apply (IH s' sf' obs'); auto. eapply step_gone_keep; eauto.
Qed.

Lemma cs_inv_lookup cs t c : cs_inv cs -> lookup t cs = Some c -> cinv c.
Proof. intros I L. apply lookup_In in L. eapply Forall_forall in I; [|exact L]. exact I. Qed.

(* one event, for a client that is connected before it: it stays connected (and was enqueued the
   event's frames), or it is moved to `gone` with the removed-client invariant *)
Lemma step_track limit s e s' t c : cs_inv (clients s) -> ev_wf e ->
  step fixed limit s e = Some s' -> lookup t (clients s) = Some c -> lookup t (gone s) = None ->
  (exists c', lookup t (clients s') = Some c' /\ enq c' = enq c ++ ev_frames e /\ lookup t (gone s') = None) \/
  (lookup t (clients s') = None /\ exists cg, lookup t (gone s') = Some cg /\ ginv cg /\
     (enq cg = enq c ++ ev_frames e \/ enq cg = enq c)).
Proof.
  intros I W St L G. pose proof (cs_inv_lookup _ _ _ I L) as Ic.
  destruct e as [metas frames ws|order|t' ws]; cbn [step ev_frames] in *.
  - unfold step_wake in St. destruct (_ || _) eqn:Lim; [discriminate|].
    apply orb_false_iff in Lim. destruct Lim as [Lim _]. apply N.ltb_ge in Lim.
    destruct frames as [|f fr].
    { injection St as <-. cbn [clients gone]. left. exists c. rewrite app_nil_r. auto. }
    remember (f :: fr) as frames. cbn [clients] in St.
    destruct (fan_out fixed (lim_of fixed limit) frames ws (clients s)) as [[cs' rm]|] eqn:Fo; [|discriminate].
    injection St as <-. cbn [fix_dec fixed].
    rewrite fold_remove_lookup, fold_remove_gone. cbn [clients gone]. rewrite G.
    destruct (fan_out_lookup _ _ _ _ t _ _ _ _ Fo L) as (d & c' & F1 & L' & Hd).
    destruct (fan_one_any _ _ _ _ _ _ Ic W Lim F1) as [Gi Eq]. rewrite L'.
    destruct (existsb (fun k => k =? t) rm) eqn:Ex.
    + right. split; auto. exists c'. split; auto. split; auto. destruct Eq as [E|[_ E]]; auto.
    + left. exists c'. split; auto. split; auto. destruct Eq as [E|[Hd' E]]; auto.
      exfalso. specialize (Hd Hd'). assert (existsb (fun k => k =? t) rm = true); [|congruence].
      apply existsb_exists. exists t. split; auto. apply N.eqb_refl.
  - unfold step_accept in St. destruct (negb _); [discriminate|].
    destruct (gen_meta (metadata s) order); [|discriminate]. injection St as <-.
    cbn [clients gone increment_clients]. left. exists c. rewrite app_nil_r.
    split; [apply lookup_app_l; auto|auto].
  - unfold step_writable in St.
    destruct (lookup t' (clients s)) as [ct|] eqn:Lt; [|discriminate].
    destruct (drive fixed ws ct) as [[[d c2] ws']|] eqn:D; [|discriminate].
    destruct ws'; [|discriminate]. injection St as <-. rewrite app_nil_r.
    assert (Lu : lookup t (map (fun '(k, v) => if k =? t' then (k, c2) else (k, v)) (clients s)) =
                 Some (if t =? t' then c2 else c)) by (rewrite lookup_map_update, L; reflexivity).
    assert (Lu' : lookup t' (map (fun '(k, v) => if k =? t' then (k, c2) else (k, v)) (clients s)) = Some c2).
    { rewrite lookup_map_update, Lt, N.eqb_refl. reflexivity. }
    destruct d.
    + rewrite remove_client_lookup, remove_client_gone. cbn [clients gone]. rewrite Lu'.
      destruct (t' =? t) eqn:E.
      * apply N.eqb_eq in E. subst t'. rewrite Lt in L. injection L as ->.
        right. split; auto. exists c2. destruct (drive_done _ _ _ _ Ic D) as [Gi Eq].
        split; [|auto]. rewrite lookup_app_none by exact G. cbn [lookup]. rewrite N.eqb_refl. reflexivity.
      * left. rewrite Lu. rewrite N.eqb_sym, E. exists c. split; auto. split; auto.
        rewrite lookup_app_none by exact G. cbn [lookup]. rewrite E. reflexivity.
    + cbn [clients gone]. left. rewrite Lu. eexists. split; [reflexivity|]. split; auto.
      destruct (t =? t') eqn:E; auto. apply N.eqb_eq in E. subst t'. rewrite Lt in L. injection L as ->.
      eapply drive_enq; eauto.
Qed.

Lemma run_track limit t : forall evs s sf obs c, cs_inv (clients s) -> Forall ev_wf evs ->
  run fixed limit s evs = Some (sf, obs) -> t < next_token s ->
  lookup t (clients s) = Some c -> lookup t (gone s) = None ->
  (exists cf, lookup t (clients sf) = Some cf /\ enq cf = enq c ++ wake_frames evs) \/
  (lookup t (clients sf) = None /\ exists cg rest, lookup t (gone sf) = Some cg /\ ginv cg /\
     enq c ++ wake_frames evs = enq cg ++ rest).
Proof.
  induction evs as [|e evs IH]; intros s sf obs c I W R Lt L G; cbn [run] in R.
  - injection R as <- _. left. exists c. cbn. rewrite app_nil_r. auto.
  - inversion W as [|? ? We Wr]; subst.
    destruct (step fixed limit s e) as [s'|] eqn:St; [|discriminate].
    destruct (run fixed limit s' evs) as [[sf' obs']|] eqn:R'; [|discriminate].
    injection R as <- _. pose proof (step_inv _ _ _ _ I We St) as I'.
    pose proof (step_next _ _ _ _ _ _ St Lt) as Lt'.
    change (wake_frames (e :: evs)) with (ev_frames e ++ wake_frames evs).
    destruct (step_track _ _ _ _ _ _ I We St L G) as [(c' & L' & E' & G')|(N & cg & Lg & Gi & Eg)].
    + destruct (IH _ _ _ _ I' Wr R' Lt' L' G') as [(cf & Lf & Ef)|(Nf & cg & rest & Lg & Gi & Eg)].
      * left. exists cf. split; auto. rewrite Ef, E', app_assoc. reflexivity.
      * right. split; auto. exists cg, rest. split; auto. split; auto. rewrite <- Eg, E', app_assoc. reflexivity.
    + right. split; [eapply run_none; eauto|].
      pose proof (run_gone_keep _ _ _ _ _ _ _ _ R' Lg) as Lg'.
      destruct Eg as [Eg|Eg].
      * exists cg, (wake_frames evs). split; auto. split; auto. rewrite Eg, app_assoc. reflexivity.
      * exists cg, (ev_frames e ++ wake_frames evs). split; auto. split; auto. rewrite Eg. reflexivity.
Qed.
