(* C11 — the per-client stream invariant of the transport model (fixed code), for all event
   sequences, write-result oracles and limits. *)
From Coq Require Import List NArith ZArith Bool Lia.
Import ListNotations.
Require Import MV.C11.Model MV.C11.Spec MV.C11.ProofsFraming.
Open Scope N_scope.

(* ---------------------------------------------------------------- subsequences *)
Inductive Subseq {A} : list A -> list A -> Prop :=
| sub_nil : Subseq [] []
| sub_take x a b : Subseq a b -> Subseq (x :: a) (x :: b)
| sub_skip x a b : Subseq a b -> Subseq a (x :: b).

Lemma Subseq_refl {A} (l : list A) : Subseq l l.
Proof. induction l; constructor; auto. Qed.
Lemma Subseq_nil_l {A} (l : list A) : Subseq [] l.
Proof. induction l; constructor; auto. Qed.
Lemma Subseq_app {A} (a b c d : list A) : Subseq a b -> Subseq c d -> Subseq (a ++ c) (b ++ d).
Proof. induction 1; intros; cbn [app]; auto; constructor; auto. Qed.
Lemma Subseq_In {A} (a b : list A) x : Subseq a b -> In x a -> In x b.
Proof. induction 1; cbn [In]; intuition. Qed.
Lemma Subseq_trans {A} (a b c : list A) : Subseq a b -> Subseq b c -> Subseq a c.
Proof.
  intros H1 H2. revert a H1. induction H2; intros a0 H1.
  - auto.
  - inversion H1; subst; constructor; auto.
  - constructor; auto.
Qed.
Lemma Subseq_skipn {A} k (l : list A) : Subseq (skipn k l) l.
Proof.
  revert l; induction k; intros l; cbn [skipn]; [apply Subseq_refl|].
  destruct l; [constructor|]. constructor; auto.
Qed.
Lemma Subseq_Forall {A} (P : A -> Prop) (a b : list A) : Subseq a b -> Forall P b -> Forall P a.
Proof. intros S F. apply Forall_forall. intros x Hx. eapply Forall_forall in F; eauto. eapply Subseq_In; eauto. Qed.

(* ---------------------------------------------------------------- the client invariant *)
Definition wf_frame (f : frame) : Prop := exists b, f = enc b.

Definition inflight (c : client) : list frame :=
  match wbuf c with Some r => [pfx c ++ r] | None => [] end.
(* every frame the client has been, is being, or will be sent, in order *)
Definition fseq (c : client) : list frame := written c ++ inflight c ++ msgs c.

Record cinv (c : client) : Prop := mkCinv {
  ci_sent : sent c = concat (written c) ++ pfx c;
  ci_wbuf : match wbuf c with Some r => r <> [] | None => pfx c = [] end;
  ci_sub : Subseq (fseq c) (enq c);
  ci_full : overflowed c = false -> fseq c = enq c;
  ci_wf : Forall wf_frame (enq c)
}.

Lemma wf_nonempty f : wf_frame f -> f <> [].
Proof. intros [b ->]. apply enc_nonempty. Qed.

Lemma cinv_transfer c c' :
  cinv c -> fseq c' = fseq c -> enq c' = enq c -> overflowed c' = overflowed c ->
  sent c' = concat (written c') ++ pfx c' ->
  match wbuf c' with Some r => r <> [] | None => pfx c' = [] end -> cinv c'.
Proof.
  intros [S W Sub Full Wf] Hs He Ho Hsent Hw. constructor; auto.
  - rewrite Hs, He; auto.
  - rewrite Hs, He, Ho; auto.
  - rewrite He; auto.
Qed.

Lemma nskip_nonempty {A} n (l : list A) : n < len l -> nskip n l <> [].
Proof.
  unfold nskip, len. intros H E. apply (f_equal (@length A)) in E.
  rewrite skipn_length in E. cbn [length] in E. lia.
Qed.
Lemma nfirst_nskip {A} n (l : list A) : nfirst n l ++ nskip n l = l.
Proof. apply firstn_skipn. Qed.
Lemma nfirst_all {A} n (l : list A) : len l <= n -> nfirst n l = l.
Proof. unfold nfirst, len. intros. apply firstn_all2. lia. Qed.
Lemma nskip_0 {A} (l : list A) : nskip 0 l = l.
Proof. unfold nskip. rewrite N.min_0_l. reflexivity. Qed.

(* what `take` leaves: the buffer about to be written is the rest of the frame in flight *)
Lemma take_spec c buf c1 : cinv c -> take c = Some (buf, c1) ->
  wbuf c1 = None /\ buf <> [] /\ sent c1 = sent c /\ written c1 = written c /\ pfx c1 = pfx c /\
  enq c1 = enq c /\ overflowed c1 = overflowed c /\
  fseq c = written c1 ++ [pfx c1 ++ buf] ++ msgs c1.
Proof.
  intros I T. destruct I as [S W Sub Full Wf]. unfold take in T. unfold fseq, inflight in *.
  destruct (wbuf c) as [b|] eqn:Eb.
  - injection T as <- <-. cbn. repeat split; auto.
  - destruct (msgs c) as [|f r] eqn:Em; [discriminate|]. injection T as <- <-. cbn.
    repeat split; auto.
    + apply wf_nonempty. eapply Forall_forall; [exact Wf|]. eapply Subseq_In; [exact Sub|].
      apply in_or_app; right. cbn. auto.
    + rewrite W. reflexivity.
Qed.

Lemma drive_inv : forall ws c c' ws', cinv c -> drive fixed ws c = Some (false, c', ws') ->
  cinv c' /\ fseq c' = fseq c /\ enq c' = enq c /\ overflowed c' = overflowed c.
Proof.
  induction ws as [|w ws IH]; intros c c' ws' I D.
  - cbn [drive] in D. destruct (take c) as [[buf c1]|]; [discriminate|].
    injection D as <- <-. auto.
  - cbn [drive] in D. destruct (take c) as [[buf c1]|] eqn:T.
    2:{ injection D as <- <-. auto. }
    destruct (take_spec _ _ _ I T) as (Hw & Hne & Hs & Hwr & Hp & He & Ho & Hseq).
    pose proof (ci_sent _ I) as Isent.
    (* putting the buffer back (WouldBlock / Interrupted after the fix) *)
    assert (Iback : cinv (set_wbuf c1 buf) /\ fseq (set_wbuf c1 buf) = fseq c).
    { assert (Fb : fseq (set_wbuf c1 buf) = fseq c).
      { rewrite Hseq. unfold fseq, inflight, set_wbuf; cbn. reflexivity. }
      split; auto.
      apply (cinv_transfer c); auto; unfold set_wbuf; cbn; auto.
      rewrite Hs, Hwr, Hp. auto. }
    destruct w as [n| | |].
    + destruct (n =? 0); [discriminate|]. destruct (n <? len buf) eqn:Ln.
      * injection D as <- <-. apply N.ltb_lt in Ln.
        assert (Hf : fseq (partial c1 buf n) = fseq c).
        { rewrite Hseq. unfold fseq, inflight, partial; cbn. rewrite <- app_assoc, nfirst_nskip. reflexivity. }
        split; [|repeat split; auto].
        apply (cinv_transfer c); auto; unfold partial; cbn.
        -- rewrite Hs, Hwr, Hp, Isent, <- app_assoc. reflexivity.
        -- apply nskip_nonempty; auto.
      * assert (I2 : cinv (complete c1 buf) /\ fseq (complete c1 buf) = fseq c).
        { assert (Hf : fseq (complete c1 buf) = fseq c).
          { rewrite Hseq. unfold fseq, inflight, complete; cbn. rewrite Hw, <- app_assoc. reflexivity. }
          split; auto.
          apply (cinv_transfer c); auto; unfold complete; cbn.
          - rewrite concat_app. cbn [concat]. rewrite Hs, Hwr, Hp, Isent, !app_nil_r, app_assoc. reflexivity.
          - rewrite Hw. reflexivity. }
        destruct I2 as [I2 F2]. destruct (IH _ _ _ I2 D) as (I3 & F3 & E3 & O3).
        split; auto. unfold complete in E3, O3; cbn in E3, O3. repeat split; congruence.
    + cbn [fix_block fixed] in D. injection D as <- <-. destruct Iback as [I2 F2].
      split; auto. all: unfold set_wbuf; cbn; auto.
    + cbn [fix_intr fixed] in D. destruct Iback as [I2 F2].
      destruct (IH _ _ _ I2 D) as (I3 & F3 & E3 & O3).
      split; auto. unfold set_wbuf in E3, O3; cbn in E3, O3. repeat split; congruence.
    + discriminate.
Qed.

(* one client's share of a fan-out *)
Lemma fan_one_inv lim frames ws c c' : cinv c -> Forall wf_frame frames ->
  fan_one fixed lim frames ws c = Some (false, c') ->
  cinv c' /\ enq c' = enq c ++ nfirst lim frames.
Proof.
  intros I Wf F. unfold fan_one in F.
  destruct (drive fixed ws c) as [[[d c1] ws1]|] eqn:D1; [|discriminate].
  destruct d. { destruct ws1; discriminate. }
  destruct (drive_inv _ _ _ _ I D1) as (I1 & F1 & E1 & O1).
  match type of F with match drive fixed ws1 ?x with _ => _ end = _ => set (c2 := x) in * end.
  destruct (drive fixed ws1 c2) as [[[d c3] ws3]|] eqn:D2; [|discriminate].
  destruct ws3; [|discriminate]. injection F as -> <-.
  assert (I2 : cinv c2).
  { destruct I1 as [S W Sub Full Wf1]. subst c2. constructor; cbn; auto.
    - unfold fseq, inflight in *; cbn.
      rewrite !app_assoc. apply Subseq_app; [|apply Subseq_refl].
      eapply Subseq_trans; [|exact Sub]. rewrite <- !app_assoc.
      apply Subseq_app; [apply Subseq_refl|]. apply Subseq_app; [apply Subseq_refl|].
      apply Subseq_skipn.
    - intros Ho. apply orb_false_iff in Ho. destruct Ho as [Ho Hd]. apply N.ltb_ge in Hd.
      unfold fseq, inflight in *; cbn.
      match goal with |- context [nskip ?k _] => assert (k = 0) as -> by lia end.
      rewrite nskip_0, <- (Full Ho), <- !app_assoc. reflexivity.
    - apply Forall_app; split; auto. unfold nfirst.
      match goal with |- Forall _ (firstn ?k _) => rewrite <- (firstn_skipn k frames) in Wf end.
      apply Forall_app in Wf. apply Wf. }
  destruct (drive_inv _ _ _ _ I2 D2) as (I3 & F3 & E3 & O3).
  split; auto. rewrite E3. subst c2; cbn. rewrite E1. reflexivity.
Qed.
