(* C11 — reflection lemmas for the boolean checks of Spec.v (subsequence, sub-multiset,
   permutation, equality). *)
From Coq Require Import List NArith ZArith Bool Lia Permutation.
Import ListNotations.
Require Import MV.C11.Model MV.C11.Spec MV.C11.ProofsInv.
Open Scope N_scope.

Lemma sb_eqb_refl a : sb_eqb a a = true.
Proof. induction a; cbn [sb_eqb]; auto. rewrite N.eqb_refl. auto. Qed.
Lemma sb_eqb_eq a : forall b, sb_eqb a b = true -> a = b.
Proof.
  induction a as [|x a IH]; intros [|y b]; cbn [sb_eqb]; try discriminate; auto.
  intros H. apply andb_true_iff in H. destruct H as [H1 H2]. apply N.eqb_eq in H1. f_equal; auto.
Qed.
Lemma bytes_eqb_sb a : forall b, bytes_eqb a b = sb_eqb a b.
Proof. induction a as [|x a IH]; intros [|y b]; cbn [bytes_eqb sb_eqb]; auto; rewrite IH; auto. Qed.
Lemma osb_eqb_refl a : osb_eqb a a = true.
Proof. destruct a; cbn; auto. apply sb_eqb_refl. Qed.
Lemma osb_eqb_eq a b : osb_eqb a b = true -> a = b.
Proof. destruct a, b; cbn; try discriminate; auto. intros H. f_equal. apply sb_eqb_eq; auto. Qed.
Lemma dmeta_eqb_refl a : dmeta_eqb a a = true.
Proof. unfold dmeta_eqb. rewrite sb_eqb_refl, N.eqb_refl, !osb_eqb_refl. auto. Qed.
Lemma dmeta_eqb_eq a b : dmeta_eqb a b = true -> a = b.
Proof.
  unfold dmeta_eqb. intros H. repeat (apply andb_true_iff in H; destruct H as [H ?]).
  destruct a, b; cbn in *. apply sb_eqb_eq in H. apply N.eqb_eq in H2.
  apply osb_eqb_eq in H1. apply osb_eqb_eq in H0. congruence.
Qed.

Section Reflect.
  Context {A : Type} (eqb : A -> A -> bool).
  Hypothesis eqb_refl : forall x, eqb x x = true.
  Hypothesis eqb_eq : forall x y, eqb x y = true -> x = y.

  Lemma list_eqb_refl l : list_eqb eqb l l = true.
  Proof. induction l; cbn [list_eqb]; auto. rewrite eqb_refl. auto. Qed.

  Lemma Subseq_tail (x : A) a b : Subseq (x :: a) b -> Subseq a b.
  Proof.
    intros H. remember (x :: a) as l. revert x a Heql. induction H; intros; try discriminate.
    - injection Heql as -> ->. constructor; auto.
    - constructor. eapply IHSubseq; eauto.
  Qed.

  Lemma subseqb_complete : forall b a, Subseq a b -> subseqb eqb a b = true.
  Proof.
    induction b as [|y b IH]; intros a H.
    - inversion H; subst. reflexivity.
    - cbn [subseqb]. destruct a as [|x a]; auto.
      inversion H; subst.
      + rewrite eqb_refl. auto.
      + destruct (eqb x y) eqn:E; auto. apply IH. eapply Subseq_tail; eauto.
  Qed.

  Lemma remove1_perm x : forall b, In x b -> exists b', remove1 eqb x b = Some b' /\ Permutation b (x :: b').
  Proof.
    induction b as [|y b IH]; intros Hin; [destruct Hin|]. cbn [remove1].
    destruct (eqb x y) eqn:E.
    - apply eqb_eq in E. subst. eauto.
    - destruct Hin as [->|Hin]; [rewrite eqb_refl in E; discriminate|].
      destruct (IH Hin) as (b' & -> & P). eexists; split; eauto.
      rewrite P. apply perm_swap.
  Qed.

  Lemma submset_complete : forall a r c, Permutation (a ++ r) c ->
    exists l, submset eqb a c = Some l /\ Permutation r l.
  Proof.
    induction a as [|x a IH]; intros r c P; cbn [submset app] in *; eauto.
    assert (Hin : In x c) by (eapply Permutation_in; [exact P|left; auto]).
    destruct (remove1_perm x c Hin) as (c' & -> & P').
    apply IH. eapply Permutation_cons_inv. rewrite P. exact P'.
  Qed.

  Lemma permb_complete a c : Permutation a c -> permb eqb a c = true.
  Proof.
    intros P. unfold permb. rewrite <- (app_nil_r a) in P.
    destruct (submset_complete _ _ _ P) as (l & -> & Pl). apply Permutation_nil in Pl. subst. auto.
  Qed.

  Lemma submsetb_complete a r c : Permutation (a ++ r) c -> submsetb eqb a c = true.
  Proof. intros P. unfold submsetb. destruct (submset_complete _ _ _ P) as (l & -> & _). auto. Qed.
End Reflect.

Lemma Subseq_perm_rest {A} (a b : list A) : Subseq a b -> exists r, Permutation (a ++ r) b.
Proof.
  induction 1.
  - exists []. auto.
  - destruct IHSubseq as [r P]. exists r. cbn [app]. auto.
  - destruct IHSubseq as [r P]. exists (x :: r). rewrite <- Permutation_middle. auto.
Qed.

Lemma Subseq_app_split {A} (l a b : list A) : Subseq l (a ++ b) ->
  exists l1 l2, l = l1 ++ l2 /\ Subseq l1 a /\ Subseq l2 b.
Proof.
  revert l. induction a as [|x a IH]; intros l H; cbn [app] in H.
  - exists [], l. repeat split; auto. constructor.
  - inversion H; subst.
    + match goal with S : Subseq _ _ |- _ => destruct (IH _ S) as (l1 & l2 & -> & S1 & S2) end.
      exists (x :: l1), l2. repeat split; auto. constructor; auto.
    + match goal with S : Subseq _ _ |- _ => destruct (IH _ S) as (l1 & l2 & -> & S1 & S2) end.
      exists l1, l2. repeat split; auto. constructor; auto.
Qed.

Lemma Subseq_map_inv {A B} (f : A -> B) : forall (b : list A) (l : list B), Subseq l (map f b) ->
  exists a, l = map f a /\ Subseq a b.
Proof.
  induction b as [|y b IH]; intros l H; cbn [map] in H.
  - inversion H; subst. exists []. split; auto. constructor.
  - inversion H; subst.
    + match goal with S : Subseq _ _ |- _ => destruct (IH _ S) as (a' & -> & S') end.
      exists (y :: a'). split; auto. constructor; auto.
    + match goal with S : Subseq _ _ |- _ => destruct (IH _ S) as (a' & -> & S') end.
      exists a'. split; auto. constructor; auto.
Qed.

Lemma Subseq_map {A B} (f : A -> B) (a b : list A) : Subseq a b -> Subseq (map f a) (map f b).
Proof. induction 1; cbn [map]; constructor; auto. Qed.
