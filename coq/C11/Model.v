(* C11 — model of metrics-exporter-tcp/src/lib.rs: the transport thread (run_transport), its
   per-client write machine (drive_connection), the client-count bookkeeping of State, and the
   length-delimited protobuf framing of metadata messages.  Definitions only.

   Nondeterminism enters only through the events: what a wake-up drained from the channel, the
   HashMap iteration order at an accept, which client became writable, and the result of every
   `conn.write` (an oracle, given per client token because the per-client steps of one fan-out touch
   disjoint state).  Metric frames are opaque byte strings (they contain a wall-clock timestamp).

   `fixes` selects, per defect, the code before (false) / after (true) its `fix:` commit; the
   theorems are about `fixed`, the `_before_fix` lemmas about the other settings. *)
From Coq Require Import List NArith ZArith Bool.
Import ListNotations.
Require Export MV.C11.Wire.
Open Scope N_scope.

Definition bytes := list N.
Definition frame := bytes.
Definition token := N.
Definition len {A} (l : list A) : N := N.of_nat (length l).
(* counts are clamped to the list length before conversion to nat (buffer_limit may be usize::MAX) *)
Definition nfirst {A} (n : N) (l : list A) := firstn (N.to_nat (N.min n (len l))) l.
Definition nskip {A} (n : N) (l : list A) := skipn (N.to_nat (N.min n (len l))) l.

(* ---------------------------------------------------------------- framing (prost, LEB128) *)
Fixpoint varint_fuel (fuel : nat) (n : N) : bytes :=
  match fuel with
  | O => [n]
  | S k => if n <? 128 then [n] else (n mod 128 + 128) :: varint_fuel k (n / 128)
  end.
Definition varint (n : N) : bytes := varint_fuel (N.to_nat (N.size n)) n.
(* encode_length_delimited *)
Definition enc (body : bytes) : frame := varint (len body) ++ body.
(* protobuf fields with a one-byte tag (field numbers < 16), as prost writes them *)
Fixpoint le_bytes (k : nat) (n : N) : bytes :=
  match k with O => [] | S k' => n mod 256 :: le_bytes k' (n / 256) end.
Definition enc_field (fv : N * wv) : bytes :=
  match snd fv with
  | VInt n => (fst fv * 8) :: varint n
  | V64 n => (fst fv * 8 + 1) :: le_bytes 8 n
  | VLen s => (fst fv * 8 + 2) :: varint (len s) ++ s
  | V32 n => (fst fv * 8 + 5) :: le_bytes 4 n
  end.
Definition enc_fields (l : list (N * wv)) : bytes := flat_map enc_field l.
(* a proto3 string field is omitted when empty *)
Definition opt_str (f : N) (s : bytes) : list (N * wv) :=
  match s with [] => [] | _ => [(f, VLen s)] end.
Definition opt_int (f : N) (n : N) : list (N * wv) := if n =? 0 then [] else [(f, VInt n)].

Record meta := mkMeta { m_type : N; m_unit : option bytes; m_desc : option bytes }.

(* convert_metadata_to_protobuf_encoded: proto3 scalars are omitted when default, oneof members
   are always written *)
Definition meta_fields (name : bytes) (m : meta) : list (N * wv) :=
  opt_str 1 name ++ opt_int 2 (m_type m) ++
  (match m_unit m with Some u => [(3, VLen u)] | None => [] end) ++
  (match m_desc m with Some d => [(4, VLen d)] | None => [] end).
Definition meta_body (name : bytes) (m : meta) : bytes :=
  enc_fields [(1, VLen (enc_fields (meta_fields name m)))].      (* Event { metadata = 1 } *)
Definition enc_meta (name : bytes) (m : meta) : frame := enc (meta_body name m).

Fixpoint bytes_eqb (a b : bytes) : bool :=
  match a, b with
  | [], [] => true
  | x :: r, y :: r' => (x =? y) && bytes_eqb r r'
  | _, _ => false
  end.

(* convert_metric_to_protobuf_encoded *)
Inductive mop :=
| IncrementCounter (v : N) | SetCounter (v : N)
| IncrementGauge (bits : N) | DecrementGauge (bits : N) | SetGauge (bits : N) | RecordHistogram (bits : N).
Definition op_field (o : mop) : N * wv :=
  match o with
  | IncrementCounter v => (4, VInt v) | SetCounter v => (5, VInt v)
  | IncrementGauge b => (6, V64 b) | DecrementGauge b => (7, V64 b)
  | SetGauge b => (8, V64 b) | RecordHistogram b => (9, V64 b)
  end.
(* the inputs: key name, labels in the key's order, operation *)
Record mitem := mkItem { mi_name : bytes; mi_labels : list (bytes * bytes); mi_op : mop }.

(* key.labels().collect::<BTreeMap<_, _>>(): ordered by key (bytewise), a later label with an
   equal key replaces the value *)
Fixpoint bytes_ltb (a b : bytes) : bool :=
  match a, b with
  | [], [] => false
  | [], _ :: _ => true
  | _ :: _, [] => false
  | x :: r, y :: r' => if x <? y then true else if y <? x then false else bytes_ltb r r'
  end.
Fixpoint bt_insert (k v : bytes) (l : list (bytes * bytes)) : list (bytes * bytes) :=
  match l with
  | [] => [(k, v)]
  | (k', v') :: r =>
    if bytes_ltb k k' then (k, v) :: l
    else if bytes_eqb k k' then (k', v) :: r
    else (k', v') :: bt_insert k v r
  end.
Definition btree_of (labels : list (bytes * bytes)) : list (bytes * bytes) :=
  fold_left (fun m kv => bt_insert (fst kv) (snd kv) m) labels [].

Definition label_fields (kv : bytes * bytes) : list (N * wv) := opt_str 1 (fst kv) ++ opt_str 2 (snd kv).
(* prost_types::Timestamp { seconds = 1, nanos = 2 } from SystemTime::now() (after 1970) *)
Definition ts_fields (secs nanos : N) : list (N * wv) := opt_int 1 secs ++ opt_int 2 nanos.
Definition metric_fields (name : bytes) (secs nanos : N) (labels : list (bytes * bytes)) (o : mop)
  : list (N * wv) :=
  opt_str 1 name ++ [(2, VLen (enc_fields (ts_fields secs nanos)))] ++
  map (fun kv => (3, VLen (enc_fields (label_fields kv)))) labels ++ [op_field o].
Definition metric_body (i : mitem) (secs nanos : N) : bytes :=
  enc_fields [(2, VLen (enc_fields (metric_fields (mi_name i) secs nanos (btree_of (mi_labels i)) (mi_op i))))].
Definition enc_metric (i : mitem) (secs nanos : N) : frame := enc (metric_body i secs nanos).

(* ---------------------------------------------------------------- per-client write machine *)
Inductive wres := Wrote (n : N) | WouldBlock | Interrupted | WErr.

Record fixes := mkFixes { fix_cap : bool; fix_dec : bool; fix_intr : bool; fix_block : bool; fix_zero : bool }.
Definition fixed := mkFixes true true true true true.

Record client := mkClient {
  wbuf : option bytes;      (* remainder of a partially written frame *)
  msgs : list frame;        (* queue of whole frames (droppable) *)
  sent : bytes;             (* ghost: everything the socket accepted *)
  written : list frame;     (* ghost: frames written completely, in order *)
  pfx : bytes;              (* ghost: the part of the frame in flight that the socket accepted *)
  enq : list frame;         (* ghost: every frame ever put into msgs, in order *)
  overflowed : bool         (* ghost: drop-oldest ever discarded something *)
}.

Definition fresh (ms : list frame) : client := mkClient None ms [] [] [] ms false.

(* `wbuf.take()` or else `msgs.pop_front()` *)
Definition take (c : client) : option (bytes * client) :=
  match wbuf c with
  | Some b => Some (b, mkClient None (msgs c) (sent c) (written c) (pfx c) (enq c) (overflowed c))
  | None =>
    match msgs c with
    | f :: r => Some (f, mkClient None r (sent c) (written c) (pfx c) (enq c) (overflowed c))
    | [] => None
    end
  end.

Definition set_wbuf (c : client) (b : bytes) : client :=
  mkClient (Some b) (msgs c) (sent c) (written c) (pfx c) (enq c) (overflowed c).
Definition partial (c : client) (buf : bytes) (n : N) : client :=
  mkClient (Some (nskip n buf)) (msgs c) (sent c ++ nfirst n buf) (written c) (pfx c ++ nfirst n buf)
           (enq c) (overflowed c).
Definition complete (c : client) (buf : bytes) : client :=
  mkClient (wbuf c) (msgs c) (sent c ++ buf) (written c ++ [pfx c ++ buf]) [] (enq c) (overflowed c).

(* drive_connection; returns (done, client, unused write results); None = the oracle ran out *)
Fixpoint drive (F : fixes) (ws : list wres) (c : client) {struct ws}
  : option (bool * client * list wres) :=
  match take c with
  | None => Some (false, c, ws)                       (* "client write queue drained" *)
  | Some (buf, c1) =>
    match ws with
    | [] => None
    | w :: ws' =>
      match w with
      | Wrote n =>
        if n =? 0 then Some (true, c1, ws')           (* zero write: closed *)
        else if n <? len buf then Some (false, partial c1 buf n, ws')
        else drive F ws' (complete c1 buf)
      | WouldBlock =>
        Some (false, if fix_block F then set_wbuf c1 buf else c1, ws')
      | Interrupted =>
        drive F ws' (if fix_intr F then set_wbuf c1 buf else c1)
      | WErr => Some (true, c1, ws')
      end
    end
  end.

(* ---------------------------------------------------------------- transport state *)
Record state := mkState {
  clients : list (token * client);      (* HashMap<Token, (conn, wbuf, msgs)> *)
  metadata : list (bytes * meta);       (* HashMap<KeyName, (type, unit, desc)> *)
  client_count : Z;                     (* AtomicUsize, as Z so that underflow is visible *)
  should_send : bool;
  next_token : N;
  gone : list (token * client)          (* ghost: removed clients with their final record *)
}.

Definition usize_max : N := 18446744073709551615.
Definition blimit (limit : option N) : N := match limit with Some n => n | None => usize_max end.
(* build(): after the fix a configured size of zero is raised to one *)
Definition lim_of (F : fixes) (limit : option N) : N :=
  blimit (if fix_zero F then match limit with Some n => Some (N.max n 1) | None => None end else limit).

Inductive outcome := Running (s : state) | Panicked.

(* run_transport up to the loop: VecDeque::<Bytes>::with_capacity(buffer_limit) panics with
   "capacity overflow" when buffer_limit * size_of::<Bytes>() (32) exceeds isize::MAX *)
Definition st0 : state := mkState [] [] 0%Z false 2 [].
Definition init (F : fixes) (limit : option N) : outcome :=
  if fix_cap F then Running st0
  else if lim_of F limit * 32 <=? 9223372036854775807 then Running st0 else Panicked.

Definition increment_clients (s : state) : state :=
  mkState (clients s) (metadata s) (client_count s + 1)%Z true (next_token s) (gone s).
Definition decrement_clients (s : state) : state :=
  let count := client_count s in
  mkState (clients s) (metadata s) (count - 1)%Z
          (if (count =? 1)%Z then false else should_send s) (next_token s) (gone s).


Fixpoint lookup {A} (t : token) (l : list (token * A)) : option A :=
  match l with
  | [] => None
  | (k, v) :: r => if k =? t then Some v else lookup t r
  end.
Fixpoint remove_tok {A} (t : token) (l : list (token * A)) : list (token * A) :=
  match l with
  | [] => []
  | (k, v) :: r => if k =? t then remove_tok t r else (k, v) :: remove_tok t r
  end.

(* metadata.entry(key).or_insert_with(|| (metric_type, None, None)); *uentry = unit; *dentry = Some(desc) *)
Fixpoint meta_insert (name : bytes) (ty : N) (u : option bytes) (d : bytes) (l : list (bytes * meta))
  : list (bytes * meta) :=
  match l with
  | [] => [(name, mkMeta ty u (Some d))]
  | (k, m) :: r =>
    if bytes_eqb k name then (k, mkMeta (m_type m) u (Some d)) :: r
    else (k, m) :: meta_insert name ty u d r
  end.
Fixpoint meta_lookup (name : bytes) (l : list (bytes * meta)) : option meta :=
  match l with
  | [] => None
  | (k, m) :: r => if bytes_eqb k name then Some m else meta_lookup name r
  end.

Definition meta_item := (bytes * N * option bytes * bytes)%type.

Inductive event :=
| EWake (metas : list meta_item) (frames : list frame) (ws : list (token * list wres))
| EAccept (order : list bytes)
| EWritable (t : token) (ws : list wres).

(* generate_metadata_messages, in the iteration order `order` of the HashMap *)
Fixpoint gen_meta (md : list (bytes * meta)) (order : list bytes) : option (list frame) :=
  match order with
  | [] => Some []
  | n :: r =>
    match meta_lookup n md, gen_meta md r with
    | Some m, Some fs => Some (enc_meta n m :: fs)
    | _, _ => None
    end
  end.
Fixpoint nodupb (l : list bytes) : bool :=
  match l with
  | [] => true
  | x :: r => negb (existsb (bytes_eqb x) r) && nodupb r
  end.

Definition step_accept (s : state) (order : list bytes) : option state :=
  if negb (nodupb order && (len order =? len (metadata s))) then None else
  match gen_meta (metadata s) order with
  | None => None
  | Some ms =>
    let t := next_token s in
    let s1 := increment_clients s in
    Some (mkState (clients s1 ++ [(t, fresh ms)]) (metadata s1) (client_count s1) (should_send s1)
                  (t + 1) (gone s1))
  end.

(* the body of `for (token, (conn, wbuf, msgs)) in clients.iter_mut()` for one client;
   returns (pushed to clients_to_remove, client) *)
Definition fan_one (F : fixes) (lim : N) (frames : list frame) (ws : list wres) (c : client)
  : option (bool * client) :=
  match drive F ws c with
  | None => None
  | Some (true, c1, ws1) => match ws1 with [] => Some (true, c1) | _ => None end
  | Some (false, c1, ws1) =>
    let m := len (msgs c1) in
    let available := if m <? lim then lim - m else 0 in
    let to_drain := len frames - available in              (* saturating_sub *)
    let c2 := mkClient (wbuf c1) (nskip to_drain (msgs c1) ++ nfirst lim frames) (sent c1)
                       (written c1) (pfx c1) (enq c1 ++ nfirst lim frames)
                       (overflowed c1 || (0 <? to_drain)) in
    match drive F ws1 c2 with
    | Some (d, c3, []) => Some (d, c3)
    | _ => None
    end
  end.

Definition ws_for (t : token) (ws : list (token * list wres)) : list wres :=
  match lookup t ws with Some l => l | None => [] end.

(* the fan-out loop: updated clients and clients_to_remove *)
Fixpoint fan_out (F : fixes) (lim : N) (frames : list frame) (ws : list (token * list wres))
         (cs : list (token * client)) : option (list (token * client) * list token) :=
  match cs with
  | [] => Some ([], [])
  | (t, c) :: r =>
    match fan_one F lim frames (ws_for t ws) c, fan_out F lim frames ws r with
    | Some (d, c'), Some (cs', rm) => Some ((t, c') :: cs', if d then t :: rm else rm)
    | _, _ => None
    end
  end.

Fixpoint ntimes {A} (n : nat) (f : A -> A) (a : A) : A :=
  match n with O => a | S k => ntimes k f (f a) end.

Definition remove_client (s : state) (t : token) : state :=
  match lookup t (clients s) with
  | Some c =>
    decrement_clients
      (mkState (remove_tok t (clients s)) (metadata s) (client_count s) (should_send s) (next_token s)
               (gone s ++ [(t, c)]))
  | None => s
  end.

Definition step_wake (F : fixes) (limit : option N) (s : state) (metas : list meta_item)
           (frames : list frame) (ws : list (token * list wres)) : option state :=
  let lim := lim_of F limit in
  (* the receive loop stops taking messages once buffered_pmsgs.len() >= buffer_limit; with a
     limit of zero it takes nothing at all (and the channel accepts nothing) *)
  if (lim <? len frames) || ((lim =? 0) && negb (len metas =? 0)) then None else
  let md := fold_left (fun md '(n, ty, u, d) => meta_insert n ty u d md) metas (metadata s) in
  let s1 := mkState (clients s) md (client_count s) (should_send s) (next_token s) (gone s) in
  match frames with
  | [] => Some s1                                              (* "no pmsgs buffered": continue *)
  | _ =>
    match fan_out F lim frames ws (clients s1) with
    | None => None
    | Some (cs', rm) =>
      let s2 := mkState cs' md (client_count s) (should_send s) (next_token s) (gone s) in
      (* before the fix: state.decrement_clients() at both `done` sites inside the loop *)
      let s3 := if fix_dec F then s2 else ntimes (length rm) decrement_clients s2 in
      Some (fold_left remove_client rm s3)
    end
  end.

Definition step_writable (F : fixes) (s : state) (t : token) (ws : list wres) : option state :=
  match lookup t (clients s) with
  | None => None
  | Some c =>
    match drive F ws c with
    | Some (d, c', []) =>
      let cs' := map (fun '(k, v) => if k =? t then (k, c') else (k, v)) (clients s) in
      let s1 := mkState cs' (metadata s) (client_count s) (should_send s) (next_token s) (gone s) in
      Some (if d then remove_client s1 t else s1)
    | _ => None
    end
  end.

Definition step (F : fixes) (limit : option N) (s : state) (e : event) : option state :=
  match e with
  | EWake metas frames ws => step_wake F limit s metas frames ws
  | EAccept order => step_accept s order
  | EWritable t ws => step_writable F s t ws
  end.

(* boundary observation: (|clients|, client_count, should_send) *)
Definition observe (s : state) : Z * Z * bool :=
  (Z.of_N (len (clients s)), client_count s, should_send s).

Fixpoint run (F : fixes) (limit : option N) (s : state) (evs : list event)
  : option (state * list (Z * Z * bool)) :=
  match evs with
  | [] => Some (s, [])
  | e :: r =>
    match step F limit s e with
    | None => None
    | Some s' =>
      match run F limit s' r with
      | Some (sf, obs) => Some (sf, observe s' :: obs)
      | None => None
      end
    end
  end.
