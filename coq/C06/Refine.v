(* C06 — the sharded machine [step] is simulated, step by step and hence along every schedule, by
   the single-map reference machine [sstep] of Spec.v.  The abstraction relation [Rel] says: every
   hash band of the single map IS the corresponding shard (same entries, same order), the storage
   allocators agree, and the constructions recorded by the reference machine are the EvCreate events
   of the ghost log.  Thread-local states (program counters, accumulators, results) are EQUAL. *)
From Coq Require Import List NArith Bool Arith Lia Permutation.
Import ListNotations.
Require Import MV.Common.Interleave MV.C06.Model MV.C06.Spec MV.C06.Lists MV.C06.Proofs MV.C06.Proofs2 MV.C06.Proofs3 MV.C06.Sim.
Local Open Scope nat_scope.

Section Refine.
  Context {key : Type}.
  Variable hash : key -> N.
  Variable keq : key -> key -> bool.
  Variable k : N.
  Hypothesis KC : key_contract hash keq.

  Notation reg := (@reg key).
  Notation sreg := (@sreg key).
  Notation entry := (@entry key).
  Notation event := (@event key).
  Notation op := (@op key).
  Notation local := (@local key).
  Notation step := (step hash keq k).
  Notation sstep := (sstep hash keq k).
  Notation Inv := (Inv hash keq k).
  Notation ix := (shard_ix k).
  Notation bnd := (band hash k).
  Notation sband := (s_band hash k).
  Notation kq key0 := (fun e : entry => keq key0 (fst e)).

  Let keq_refl := proj1 KC.
  Let keq_sym := proj1 (proj2 KC).
  Let keq_trans := proj1 (proj2 (proj2 KC)).
  Let hash_ok := proj2 (proj2 (proj2 KC)).

  Definition creates (lg : list event) : list (kind * key * sid) :=
    flat_map (fun ev => match ev with EvCreate kd x s => [(kd, x, s)] | _ => [] end) lg.

  Record Rel (r : reg) (sr : sreg) : Prop := {
    R_inv : Inv r;
    R_band : forall kd j, j < nshards k -> sband (smap sr kd) j = get_shard r kd j;
    R_next : s_next sr = next_sid r;
    R_cons : s_cons sr = creates (log r)
  }.

  (* ---- band algebra on the single map ---- *)
  Lemma sband_app (a b : list entry) j : sband (a ++ b) j = sband a j ++ sband b j.
  Proof. unfold s_band. apply filter_app. Qed.

  Lemma sband_remove_first (g : entry -> bool) i (m : list entry) j :
    (forall e, In e m -> g e = true -> bnd e = i) ->
    sband (remove_first g m) j = if Nat.eqb j i then remove_first g (sband m j) else sband m j.
  Proof.
    unfold s_band. induction m as [|e r IH]; intros H; cbn [remove_first filter]; [destruct (Nat.eqb j i); reflexivity|].
    assert (H' : forall e0, In e0 r -> g e0 = true -> bnd e0 = i) by (intros e0 He0; apply H; right; exact He0).
    specialize (IH H'). destruct (g e) eqn:G.
    - pose proof (H e (or_introl eq_refl) G) as B. destruct (Nat.eqb j i) eqn:J.
      + apply Nat.eqb_eq in J. subst j. rewrite B, Nat.eqb_refl. cbn [remove_first]. rewrite G. reflexivity.
      + apply Nat.eqb_neq in J. rewrite B. destruct (Nat.eqb i j) eqn:J2; [apply Nat.eqb_eq in J2; congruence|reflexivity].
    - cbn [filter]. destruct (Nat.eqb (bnd e) j) eqn:B.
      + rewrite IH. destruct (Nat.eqb j i); [cbn [remove_first]; rewrite G|]; reflexivity.
      + exact IH.
  Qed.

  Lemma sband_filter_band (f : entry -> bool) i (m : list entry) j :
    sband (s_filter_band hash k m i f) j = if Nat.eqb j i then filter f (sband m j) else sband m j.
  Proof.
    unfold s_band, s_filter_band. induction m as [|e r IH]; cbn [filter]; [destruct (Nat.eqb j i); reflexivity|].
    destruct (Nat.eqb (bnd e) i) eqn:B1.
    - apply Nat.eqb_eq in B1. destruct (f e) eqn:F; cbn [filter].
      + destruct (Nat.eqb (bnd e) j) eqn:B2.
        * apply Nat.eqb_eq in B2. assert (J : Nat.eqb j i = true) by (apply Nat.eqb_eq; congruence). rewrite IH, J. cbn [filter]. rewrite F. reflexivity.
        * rewrite IH. reflexivity.
      + destruct (Nat.eqb (bnd e) j) eqn:B2.
        * apply Nat.eqb_eq in B2. assert (J : Nat.eqb j i = true) by (apply Nat.eqb_eq; congruence). rewrite IH, J. cbn [filter]. rewrite F. reflexivity.
        * exact IH.
    - cbn [filter]. destruct (Nat.eqb (bnd e) j) eqn:B2.
      + apply Nat.eqb_eq in B2. apply Nat.eqb_neq in B1. assert (J : Nat.eqb j i = false) by (apply Nat.eqb_neq; congruence).
        rewrite IH, J. reflexivity.
      + exact IH.
  Qed.

  Lemma cf_sband_implied (g : entry -> bool) (m : list entry) j :
    (forall e, In e m -> g e = true -> bnd e = j) -> cf g (sband m j) = cf g m.
  Proof.
    unfold cf, s_band. induction m as [|e r IH]; intros H; cbn [filter]; [reflexivity|].
    assert (H' : forall e0, In e0 r -> g e0 = true -> bnd e0 = j) by (intros e0 He0; apply H; right; exact He0).
    specialize (IH H'). destruct (Nat.eqb (bnd e) j) eqn:B; cbn [filter]; destruct (g e) eqn:G; cbn [length]; try lia.
    apply Nat.eqb_neq in B. exfalso. apply B. apply H; [left; reflexivity|exact G].
  Qed.

  (* ---- shards after a put ---- *)
  Lemma get_put_same (r : reg) kd i s : i < length (shards_of r kd) -> get_shard (put_shard r kd i s) kd i = s.
  Proof. intros L. unfold get_shard. rewrite shards_put_same. apply nth_set_nth_same. exact L. Qed.
  Lemma get_put_other_ix (r : reg) kd i s j : i <> j -> get_shard (put_shard r kd i s) kd j = get_shard r kd j.
  Proof. intros N. unfold get_shard. rewrite shards_put_same. apply nth_set_nth_other. exact N. Qed.
  Lemma get_put_other_kind (r : reg) kd i s kd' j : kd <> kd' -> get_shard (put_shard r kd i s) kd' j = get_shard r kd' j.
  Proof. intros N. unfold get_shard. rewrite shards_put_other by exact N. reflexivity. Qed.

  Lemma smap_set_same (sr : sreg) kd m : smap (set_smap sr kd m) kd = m.
  Proof. destruct kd; reflexivity. Qed.
  Lemma smap_set_other (sr : sreg) kd kd' m : kd <> kd' -> smap (set_smap sr kd m) kd' = smap sr kd'.
  Proof. destruct kd, kd'; intros H; try reflexivity; congruence. Qed.
  Lemma next_set (sr : sreg) kd m : s_next (set_smap sr kd m) = s_next sr.
  Proof. destruct kd; reflexivity. Qed.
  Lemma cons_set (sr : sreg) kd m : s_cons (set_smap sr kd m) = s_cons sr.
  Proof. destruct kd; reflexivity. Qed.

  Lemma creates_removes kd (rm : list entry) lg : creates (map (fun e => EvRemove kd (fst e) (snd e)) rm ++ lg) = creates lg.
  Proof. unfold creates. induction rm as [|e r IH]; cbn [map app flat_map]; [reflexivity|exact IH]. Qed.

  (* ---- membership / uniqueness transfer ---- *)
  Lemma bnd_lt (e : entry) : bnd e < nshards k.
  Proof. unfold band. apply ix_lt. Qed.

  Lemma rel_in r sr kd e : Rel r sr -> (In e (smap sr kd) <-> In e (abs r kd)).
  Proof.
    intros HR. split; intros H.
    - apply in_abs. exists (bnd e). rewrite <- (R_band _ _ HR kd (bnd e) (bnd_lt e)).
      unfold s_band. apply filter_In. split; [exact H|apply Nat.eqb_refl].
    - apply in_abs in H. destruct H as (j & H).
      assert (L : j < nshards k).
      { destruct (lt_dec j (nshards k)) as [L|L]; [exact L|]. unfold get_shard in H.
        rewrite nth_overflow in H by (rewrite (I_len _ _ _ _ (R_inv _ _ HR)); lia). destruct H. }
      rewrite <- (R_band _ _ HR kd j L) in H. unfold s_band in H. apply filter_In in H. apply H.
  Qed.

  Lemma keq_band key0 (e : entry) : keq key0 (fst e) = true -> bnd e = ix (hash key0).
  Proof. intros K. unfold band. rewrite <- (hash_ok _ _ K). reflexivity. Qed.

  Lemma cf_shard_le (g : entry -> bool) (r : reg) kd j : cf g (get_shard r kd j) <= cf g (abs r kd).
  Proof.
    unfold get_shard, abs. generalize (shards_of r kd). intros l. revert j.
    induction l as [|y t IH]; intros [|j]; cbn [nth concat]; rewrite ?cf_app; try (unfold cf; cbn; lia).
    specialize (IH j). lia.
  Qed.

  Lemma rel_uniq r sr kd key0 : Rel r sr -> cnt keq (smap sr kd) key0 <= 1.
  Proof.
    intros HR. rewrite cnt_cf.
    rewrite <- (cf_sband_implied (kq key0) (smap sr kd) (ix (hash key0))) by (intros e _ K; apply keq_band; exact K).
    rewrite (R_band _ _ HR kd _ (ix_lt k (hash key0))).
    pose proof (cf_shard_le (kq key0) r kd (ix (hash key0))).
    pose proof (I_uniq _ _ _ _ (R_inv _ _ HR) kd key0) as U. rewrite cnt_cf in U. lia.
  Qed.

  Lemma rel_lookup r sr kd key0 : Rel r sr ->
    find (matches hash keq (hash key0) key0) (get_shard r kd (ix (hash key0))) = s_find keq (smap sr kd) key0.
  Proof.
    intros HR. unfold s_find. destruct (find (matches _ _ _ _) _) as [e|] eqn:F.
    - destruct (lookup_some hash keq k r kd key0 e F) as [He Ke]. symmetry.
      apply (find_unique (kq key0) (smap sr kd) e); [apply (rel_in r sr kd e HR); exact He|exact Ke|].
      apply (rel_uniq r sr kd key0 HR).
    - symmetry. apply find_all_false. intros e He. apply (rel_in r sr kd e HR) in He.
      exact (lookup_none hash keq k hash_ok r kd key0 (R_inv _ _ HR) F e He).
  Qed.

  (* ---- Rel is preserved by each primitive ---- *)
  Lemma Rel_add_ret r sr kd key0 s : Rel r sr -> Rel (add_log r [EvRet kd key0 s]) sr.
  Proof.
    intros [H1 H2 H3 H4]. constructor.
    - apply Inv_add_ret. exact H1.
    - intros kd' j L. rewrite get_add_log. apply H2. exact L.
    - exact H3.
    - exact H4.
  Qed.

  Lemma smap_create (sr : sreg) kd key0 kd' :
    smap (s_create sr kd key0) kd' = if kind_eqb kd kd' then s_insert (smap sr kd) (key0, s_next sr) else smap sr kd'.
  Proof. destruct kd, kd'; reflexivity. Qed.

  Lemma Rel_insert r sr kd key0 : Rel r sr ->
    find (matches hash keq (hash key0) key0) (get_shard r kd (ix (hash key0))) = None ->
    Rel (insert r kd (ix (hash key0)) key0) (s_create sr kd key0).
  Proof.
    intros HR F. pose proof HR as [H1 H2 H3 H4]. set (i := ix (hash key0)).
    assert (L : i < length (shards_of r kd)) by (rewrite (I_len _ _ _ _ H1); apply ix_lt).
    constructor.
    - apply insert_Inv; assumption.
    - intros kd' j Lj. unfold insert. rewrite get_add_log, get_bump, smap_create.
      destruct (kind_eq_dec kd kd') as [<-|Nk].
      + rewrite kind_eqb_refl. unfold s_insert. rewrite sband_app, H2 by exact Lj. rewrite H3.
        destruct (Nat.eq_dec i j) as [<-|Nj].
        * rewrite get_put_same by exact L. f_equal. unfold s_band. cbn [filter]. unfold band. cbn [fst]. fold i.
          rewrite Nat.eqb_refl. reflexivity.
        * rewrite get_put_other_ix by exact Nj. unfold s_band. cbn [filter]. unfold band. cbn [fst]. fold i.
          destruct (Nat.eqb i j) eqn:E; [apply Nat.eqb_eq in E; congruence|]. apply app_nil_r.
      + rewrite kind_eqb_neq by exact Nk. rewrite get_put_other_kind by exact Nk. apply H2. exact Lj.
    - unfold insert. cbn [s_create s_next next_sid add_log bump_sid]. rewrite next_put. destruct kd; cbn [s_next set_smap]; rewrite H3; reflexivity.
    - unfold insert. cbn [log add_log bump_sid app]. rewrite log_put. cbn [creates flat_map app]. fold (creates (log r)).
      destruct kd; cbn [s_cons s_create set_smap]; rewrite H3, H4; reflexivity.
  Qed.

  Lemma Rel_remove r sr kd key0 found : Rel r sr ->
    find (matches hash keq (hash key0) key0) (get_shard r kd (ix (hash key0))) = Some found ->
    Rel (remove hash keq r kd (ix (hash key0)) (hash key0) key0 found) (set_smap sr kd (s_remove keq (smap sr kd) key0)).
  Proof.
    intros HR F. pose proof HR as [H1 H2 H3 H4]. set (i := ix (hash key0)).
    assert (L : i < length (shards_of r kd)) by (rewrite (I_len _ _ _ _ H1); apply ix_lt).
    constructor.
    - apply remove_Inv; assumption.
    - intros kd' j Lj. unfold remove. rewrite get_add_log. destruct (kind_eq_dec kd kd') as [<-|Nk].
      + rewrite smap_set_same. unfold s_remove.
        rewrite (sband_remove_first (kq key0) i) by (intros e _ K; apply keq_band; exact K).
        rewrite H2 by exact Lj. destruct (Nat.eq_dec i j) as [<-|Nj].
        * rewrite Nat.eqb_refl, get_put_same by exact L. symmetry. apply remove_first_ext.
          intros e _. unfold matches. destruct (keq key0 (fst e)) eqn:K; [|apply andb_false_r].
          rewrite <- (hash_ok _ _ K), N.eqb_refl. reflexivity.
        * rewrite get_put_other_ix by exact Nj. destruct (Nat.eqb j i) eqn:E; [apply Nat.eqb_eq in E; congruence|reflexivity].
      + rewrite smap_set_other by exact Nk. rewrite get_put_other_kind by exact Nk. apply H2. exact Lj.
    - rewrite next_set. unfold remove. cbn [next_sid add_log]. rewrite next_put. exact H3.
    - rewrite cons_set. unfold remove. cbn [log add_log app]. rewrite log_put. cbn [creates flat_map app]. exact H4.
  Qed.

  Lemma Rel_filter r sr kd i f : Rel r sr -> i < nshards k ->
    Rel (filter_shard r kd i f) (set_smap sr kd (s_filter_band hash k (smap sr kd) i f)).
  Proof.
    intros HR Li. pose proof HR as [H1 H2 H3 H4].
    assert (L : i < length (shards_of r kd)) by (rewrite (I_len _ _ _ _ H1); exact Li).
    constructor.
    - apply filter_Inv; assumption.
    - intros kd' j Lj. rewrite filter_is_shrink. unfold shrink. rewrite get_add_log. destruct (kind_eq_dec kd kd') as [<-|Nk].
      + rewrite smap_set_same, sband_filter_band, H2 by exact Lj. destruct (Nat.eq_dec i j) as [<-|Nj].
        * rewrite Nat.eqb_refl, get_put_same by exact L. reflexivity.
        * rewrite get_put_other_ix by exact Nj. destruct (Nat.eqb j i) eqn:E; [apply Nat.eqb_eq in E; congruence|reflexivity].
      + rewrite smap_set_other by exact Nk. rewrite get_put_other_kind by exact Nk. apply H2. exact Lj.
    - rewrite next_set, filter_is_shrink. unfold shrink. cbn [next_sid add_log]. rewrite next_put. exact H3.
    - rewrite cons_set, filter_is_shrink. unfold shrink. cbn [log add_log]. rewrite log_put, creates_removes. exact H4.
  Qed.

  (* ---- one step ---- *)
  Lemma sweep_sim (r : reg) (sr : sreg) (l : local) o j acc x r' l' :
    sweep_next k r l o j acc x = Some (r', l') -> ssweep_next k sr l o j acc x = Some (sr, l') /\ r' = r.
  Proof. unfold sweep_next, ssweep_next. destruct (Nat.ltb _ _); intros H; inversion H; subst; auto. Qed.

  Lemma sim_some r sr (l : local) r' l' : Rel r sr -> step r l = Some (r', l') ->
    exists sr', sstep sr l = Some (sr', l') /\ Rel r' sr'.
  Proof.
    intros HR. unfold Model.step, Spec.sstep. destruct (pcl l) as [|j acc]; [intros H; inversion H; subst; eauto|].
    destruct (todo l) as [|o rest]; [discriminate|].
    destruct o as [kd key0|kd key0|kd key0|kd p| |kd|kd|kd key0]; cbv zeta.
    - rewrite (rel_lookup r sr kd key0 HR). destruct (s_find keq (smap sr kd) key0) as [e|] eqn:F.
      + intros H; inversion H; subst. eexists. split; [reflexivity|]. apply Rel_add_ret. exact HR.
      + destruct j; intros H; inversion H; subst; [eauto|].
        rewrite <- (R_next _ _ HR). eexists. split; [reflexivity|]. apply Rel_add_ret. apply Rel_insert; [exact HR|].
        rewrite (rel_lookup r sr kd key0 HR). exact F.
    - rewrite (rel_lookup r sr kd key0 HR). intros H; inversion H; subst. eauto.
    - rewrite (rel_lookup r sr kd key0 HR). destruct (s_find keq (smap sr kd) key0) as [e|] eqn:F; intros H; inversion H; subst; [|eauto].
      eexists. split; [reflexivity|]. apply Rel_remove; [exact HR|]. rewrite (rel_lookup r sr kd key0 HR). exact F.
    - destruct (nth_error _ _) as [[kd' i]|] eqn:P; [|intros H; inversion H; subst; eauto].
      intros H. destruct (sweep_sim _ (set_smap sr kd' (s_filter_band hash k (smap sr kd') i (fun e => p (fst e) (snd e)))) _ _ _ _ _ _ _ H) as [E ->].
      eexists. split; [exact E|]. apply Rel_filter; [exact HR|eapply plan_ix; exact P].
    - destruct (nth_error _ _) as [[kd' i]|] eqn:P; [|intros H; inversion H; subst; eauto].
      intros H. destruct (sweep_sim _ (set_smap sr kd' (s_filter_band hash k (smap sr kd') i (fun _ => false))) _ _ _ _ _ _ _ H) as [E ->].
      eexists. split; [exact E|]. apply Rel_filter; [exact HR|eapply plan_ix; exact P].
    - destruct (nth_error _ _) as [[kd' i]|] eqn:P; [|intros H; inversion H; subst; eauto].
      rewrite (R_band _ _ HR kd' i (plan_ix k _ _ _ _ P)).
      intros H. destruct (sweep_sim _ sr _ _ _ _ _ _ _ H) as [E ->]. eauto.
    - destruct (nth_error _ _) as [[kd' i]|] eqn:P; [|intros H; inversion H; subst; eauto].
      rewrite (R_band _ _ HR kd' i (plan_ix k _ _ _ _ P)).
      intros H. destruct (sweep_sim _ sr _ _ _ _ _ _ _ H) as [E ->]. eauto.
    - rewrite (rel_lookup r sr kd key0 HR). destruct (s_find keq (smap sr kd) key0) as [e|] eqn:F.
      + intros H; inversion H; subst. eexists. split; [reflexivity|]. apply Rel_add_ret. exact HR.
      + destruct j; intros H; inversion H; subst; [eauto|].
        rewrite <- (R_next _ _ HR). eexists. split; [reflexivity|]. apply Rel_add_ret. apply Rel_insert; [exact HR|].
        rewrite (rel_lookup r sr kd key0 HR). exact F.
  Qed.

  Lemma sim_none r sr (l : local) : Rel r sr -> step r l = None -> sstep sr l = None.
  Proof.
    intros HR. unfold Model.step, Spec.sstep. destruct (pcl l) as [|j acc]; [discriminate|].
    destruct (todo l) as [|o rest]; [reflexivity|].
    destruct o as [kd key0|kd key0|kd key0|kd p| |kd|kd|kd key0]; cbv zeta.
    - destruct (find _ _); [discriminate|]. destruct j; discriminate.
    - discriminate.
    - destruct (find _ _); discriminate.
    - destruct (nth_error _ _) as [[kd' i]|]; [|discriminate]. unfold sweep_next. destruct (Nat.ltb _ _); discriminate.
    - destruct (nth_error _ _) as [[kd' i]|]; [|discriminate]. unfold sweep_next. destruct (Nat.ltb _ _); discriminate.
    - destruct (nth_error _ _) as [[kd' i]|]; [|discriminate]. unfold sweep_next. destruct (Nat.ltb _ _); discriminate.
    - destruct (nth_error _ _) as [[kd' i]|]; [|discriminate]. unfold sweep_next. destruct (Nat.ltb _ _); discriminate.
    - destruct (find _ _); [discriminate|]. destruct j; discriminate.
  Qed.

  Lemma Rel_init : Rel (init_reg k) init_sreg.
  Proof.
    constructor; try reflexivity.
    - apply init_Inv.
    - intros kd j _. unfold get_shard. rewrite shards_init. unfold Model.shard. rewrite nth_repeat_nil. destruct kd; reflexivity.
  Qed.

  (* ---- every schedule ---- *)
  Theorem refines_every_schedule (ps : list (list op)) sched :
    exists sr, exec sstep site (init_sreg, map init_local ps) sched
               = ((sr, snd (fst (exec step site (init_config k ps) sched))), snd (exec step site (init_config k ps) sched))
               /\ Rel (fst (fst (exec step site (init_config k ps) sched))) sr.
  Proof. apply (sim_exec step sstep site Rel sim_none sim_some). apply Rel_init. Qed.

  (* the single map holds exactly the entries of the shards *)
  Lemma perm_lt_S (m : list entry) n :
    Permutation (filter (fun e => Nat.ltb (bnd e) (S n)) m)
                (filter (fun e => Nat.ltb (bnd e) n) m ++ filter (fun e => Nat.eqb (bnd e) n) m).
  Proof.
    induction m as [|e r IH]; cbn [filter]; [constructor|].
    destruct (Nat.ltb_spec (bnd e) n) as [A|A]; destruct (Nat.eqb_spec (bnd e) n) as [B|B]; destruct (Nat.ltb_spec (bnd e) (S n)) as [C|C]; try lia.
    - cbn [app]. constructor. exact IH.
    - apply Permutation_cons_app. exact IH.
    - exact IH.
  Qed.

  Lemma perm_bands (m : list entry) n :
    Permutation (filter (fun e => Nat.ltb (bnd e) n) m) (concat (map (sband m) (seq 0 n))).
  Proof.
    induction n as [|n IH].
    - cbn [seq map concat]. rewrite filter_all_false; [constructor|reflexivity].
    - rewrite seq_S, map_app, concat_app. cbn [plus map concat]. rewrite app_nil_r.
      eapply Permutation_trans; [apply perm_lt_S|]. apply Permutation_app_tail. exact IH.
  Qed.

  Lemma map_nth_seq {A} (l : list A) d : map (fun j => nth j l d) (seq 0 (length l)) = l.
  Proof.
    induction l as [|y t IH]; cbn [length seq map nth]; [reflexivity|]. f_equal.
    rewrite <- seq_shift, map_map. exact IH.
  Qed.

  Lemma rel_perm r sr kd : Rel r sr -> Permutation (smap sr kd) (abs r kd).
  Proof.
    intros HR. rewrite <- (filter_all_true (fun e => Nat.ltb (bnd e) (nshards k)) (smap sr kd)) at 1
      by (intros e _; apply Nat.ltb_lt; apply bnd_lt).
    eapply Permutation_trans; [apply perm_bands|].
    replace (concat (map (sband (smap sr kd)) (seq 0 (nshards k)))) with (abs r kd); [apply Permutation_refl|].
    unfold abs. rewrite <- (map_nth_seq (shards_of r kd) []) at 1. rewrite (I_len _ _ _ _ (R_inv _ _ HR)).
    f_equal. apply map_ext_in. intros j Hj. apply in_seq in Hj. symmetry. apply (R_band _ _ HR). lia.
  Qed.
End Refine.
