(* C06 — metrics_util::registry::Registry<K, S> (metrics-util/src/registry/mod.rs) as an
   interleaving machine whose atomic steps are the shard-lock critical sections.

   Parameters (Section variables): the key type, [hash : key -> N] (Hashable::hashable, for
   metrics::Key = Key::get_hash), [keq : key -> key -> bool] (==), and [k]: 2^k shards per kind
   (shard_count() = available_parallelism().next_power_of_two()).

   State: per kind a list of 2^k shards, each an association list (key, storage id); the raw-entry
   lookup `from_key_hashed_nocheck(hash, key)` finds an entry stored under the same hash whose key
   == the probe key ([matches]); the shard is `hash as usize & shard_mask` ([shard_ix]).
   [next_sid] numbers the storages handed out by `Storage::{counter,gauge,histogram}`.
   [log] is ghost (construction / removal / return events); it never influences a step.

   Atomic steps = yield sites (one per lock acquisition):
     601  get_or_create_*: shard.read(); raw_entry lookup; hit -> op(v), return
     602  get_or_create_*: (after drop(shard_read)) shard.write(); lookup again; hit -> return,
          miss -> raw_entry_mut().or_insert_with(key.clone(), storage.<kind>(key))
     610  delete_*: shard.write(); raw_entry_mut lookup; Occupied -> remove_entry, true | false
     611  get_*:    shard.read(); lookup; clone
     612  retain_*: one step PER SHARD: subshard.write(); retain(f)
     613  clear:    one step PER SHARD of counters, then gauges, then histograms: write(); clear()
     614  visit_* / get_*_handles: one step PER SHARD: subshard.read(); iterate
   (retain / clear / visit are NOT atomic over the registry: the code takes the shard locks one
   after the other, as its doc comments say.)                                                      *)
From Coq Require Import List NArith Bool Arith.
Import ListNotations.
Open Scope N_scope.

Inductive kind := KCounter | KGauge | KHistogram.
Definition kind_eqb (a b : kind) : bool :=
  match a, b with KCounter, KCounter | KGauge, KGauge | KHistogram, KHistogram => true | _, _ => false end.

Definition sid := N.

Section Reg.
  Context {key : Type}.
  Variable hash : key -> N.
  Variable keq : key -> key -> bool.
  Variable k : N.

  Definition entry := (key * sid)%type.
  Definition shard := list entry.

  Inductive event :=
  | EvCreate (kd : kind) (key0 : key) (s : sid)     (* Storage::<kind>(key0) constructed storage s *)
  | EvRemove (kd : kind) (key0 : key) (s : sid)     (* entry (key0, s) left the registry *)
  | EvRet (kd : kind) (key0 : key) (s : sid).       (* get_or_create_<kind>(key0) ran op on storage s *)

  Record reg := {
    counters : list shard; gauges : list shard; histograms : list shard;
    next_sid : N;
    log : list event            (* ghost, newest first *)
  }.

  Definition nshards : nat := N.to_nat (2 ^ k).
  Definition shard_ix (h : N) : nat := N.to_nat (N.land h (N.ones k)).   (* hash as usize & shard_mask *)

  Definition shards_of (r : reg) (kd : kind) : list shard :=
    match kd with KCounter => counters r | KGauge => gauges r | KHistogram => histograms r end.
  Definition set_shards (r : reg) (kd : kind) (l : list shard) : reg :=
    match kd with
    | KCounter => {| counters := l; gauges := gauges r; histograms := histograms r; next_sid := next_sid r; log := log r |}
    | KGauge => {| counters := counters r; gauges := l; histograms := histograms r; next_sid := next_sid r; log := log r |}
    | KHistogram => {| counters := counters r; gauges := gauges r; histograms := l; next_sid := next_sid r; log := log r |}
    end.
  Definition add_log (r : reg) (es : list event) : reg :=
    {| counters := counters r; gauges := gauges r; histograms := histograms r; next_sid := next_sid r; log := es ++ log r |}.
  Definition bump_sid (r : reg) : reg :=
    {| counters := counters r; gauges := gauges r; histograms := histograms r; next_sid := next_sid r + 1; log := log r |}.

  Fixpoint set_nth {A} (i : nat) (x : A) (l : list A) : list A :=
    match l, i with
    | [], _ => []
    | _ :: r, O => x :: r
    | y :: r, S i' => y :: set_nth i' x r
    end.

  Definition get_shard (r : reg) (kd : kind) (i : nat) : shard := nth i (shards_of r kd) [].
  Definition put_shard (r : reg) (kd : kind) (i : nat) (s : shard) : reg := set_shards r kd (set_nth i s (shards_of r kd)).

  (* raw_entry().from_key_hashed_nocheck(h, key0): same hash and `key0 == stored` *)
  Definition matches (h : N) (key0 : key) (e : entry) : bool := (hash (fst e) =? h) && keq key0 (fst e).

  Fixpoint remove_first {A} (f : A -> bool) (s : list A) : list A :=
    match s with [] => [] | e :: r => if f e then r else e :: remove_first f r end.

  (* ---- the three mutators of shared state ---- *)
  (* Vacant.insert((key0.clone(), storage.<kind>(key0))) into shard i *)
  Definition insert (r : reg) (kd : kind) (i : nat) (key0 : key) : reg :=
    let s := next_sid r in
    add_log (bump_sid (put_shard r kd i (get_shard r kd i ++ [(key0, s)]))) [EvCreate kd key0 s].
  (* Occupied.remove_entry() of the entry found in shard i *)
  Definition remove (r : reg) (kd : kind) (i : nat) (h : N) (key0 : key) (found : entry) : reg :=
    add_log (put_shard r kd i (remove_first (matches h key0) (get_shard r kd i))) [EvRemove kd (fst found) (snd found)].
  (* HashMap::retain(f) on shard i  (clear() = retain(|_| false)) *)
  Definition filter_shard (r : reg) (kd : kind) (i : nat) (f : entry -> bool) : reg :=
    let s := get_shard r kd i in
    add_log (put_shard r kd i (filter f s))
            (map (fun e => EvRemove kd (fst e) (snd e)) (filter (fun e => negb (f e)) s)).

  (* ---- threads ---- *)
  Inductive op :=
  | OGetOrCreate (kd : kind) (key0 : key)
  | OGet (kd : kind) (key0 : key)
  | ODelete (kd : kind) (key0 : key)
  | ORetain (kd : kind) (p : key -> sid -> bool)
  | OClear
  | OVisit (kd : kind)
  | OHandles (kd : kind)
  | OGetOrCreateP (kd : kind) (key0 : key).   (* get_or_create_<kind>(key0, op) whose closure `op` PANICS *)

  Inductive res :=
  | RSid (s : sid)                 (* get_or_create: the storage op ran on *)
  | ROpt (o : option sid)          (* get *)
  | RBool (b : bool)               (* delete *)
  | RUnit                          (* retain, clear *)
  | RList (l : list entry)         (* visit: entries in visiting order; handles: the collected map *)
  | RPanicked (s : sid).           (* get_or_create: op ran on storage s and panicked (the call unwound) *)

  Inductive pc :=
  | Start
  | Run (j : nat) (acc : list entry).   (* j-th lock acquisition of the current call; acc: visited so far *)

  Record local := { pcl : pc; todo : list op; results : list res }.

  Definition finish (l : local) (x : res) : local := {| pcl := Run 0 []; todo := tl (todo l); results := x :: results l |}.
  Definition goto (l : local) (j : nat) (acc : list entry) : local := {| pcl := Run j acc; todo := todo l; results := results l |}.

  Definition all_shards (kd : kind) : list (kind * nat) := map (pair kd) (seq 0 nshards).
  (* the sequence of shard locks a sweeping call takes *)
  Definition plan (o : op) : list (kind * nat) :=
    match o with
    | ORetain kd _ | OVisit kd | OHandles kd => all_shards kd
    | OClear => all_shards KCounter ++ all_shards KGauge ++ all_shards KHistogram
    | _ => []
    end.

  (* get_*_handles: `HashMap::insert(k.clone(), v.clone())` per visited entry (an equal key already
     present keeps its key and gets the new value) *)
  Fixpoint hm_insert (m : list entry) (e : entry) : list entry :=
    match m with
    | [] => [e]
    | x :: r => if keq (fst e) (fst x) then (fst x, snd e) :: r else x :: hm_insert r e
    end.
  Definition collect (l : list entry) : list entry := fold_left hm_insert l [].

  Definition sweep_next (r : reg) (l : local) (o : op) (j : nat) (acc : list entry) (x : res) : option (reg * local) :=
    if Nat.ltb (S j) (length (plan o)) then Some (r, goto l (S j) acc) else Some (r, finish l x).

  Definition step (r : reg) (l : local) : option (reg * local) :=
    match pcl l with
    | Start => Some (r, goto l 0 [])
    | Run j acc =>
        match todo l with
        | [] => None
        | OGetOrCreate kd key0 :: _ =>
            let h := hash key0 in let i := shard_ix h in
            match find (matches h key0) (get_shard r kd i) with
            | Some e => Some (add_log r [EvRet kd key0 (snd e)], finish l (RSid (snd e)))
            | None =>
                match j with
                | O => Some (r, goto l 1 [])
                | S _ => let s := next_sid r in
                         Some (add_log (insert r kd i key0) [EvRet kd key0 s], finish l (RSid s))
                end
            end
        | OGet kd key0 :: _ =>
            let h := hash key0 in
            Some (r, finish l (ROpt (option_map snd (find (matches h key0) (get_shard r kd (shard_ix h))))))
        | ODelete kd key0 :: _ =>
            let h := hash key0 in let i := shard_ix h in
            match find (matches h key0) (get_shard r kd i) with
            | Some e => Some (remove r kd i h key0 e, finish l (RBool true))
            | None => Some (r, finish l (RBool false))
            end
        | ORetain kd p :: _ =>
            match nth_error (plan (ORetain kd p)) j with
            | Some (kd', i) => sweep_next (filter_shard r kd' i (fun e => p (fst e) (snd e))) l (ORetain kd p) j [] RUnit
            | None => Some (r, finish l RUnit)
            end
        | OClear :: _ =>
            match nth_error (plan OClear) j with
            | Some (kd', i) => sweep_next (filter_shard r kd' i (fun _ => false)) l OClear j [] RUnit
            | None => Some (r, finish l RUnit)
            end
        | OVisit kd :: _ =>
            match nth_error (plan (OVisit kd)) j with
            | Some (kd', i) => let acc' := acc ++ get_shard r kd' i in sweep_next r l (OVisit kd) j acc' (RList acc')
            | None => Some (r, finish l (RList acc))
            end
        | OHandles kd :: _ =>
            match nth_error (plan (OHandles kd)) j with
            | Some (kd', i) => let acc' := acc ++ get_shard r kd' i in sweep_next r l (OHandles kd) j acc' (RList (collect acc'))
            | None => Some (r, finish l (RList (collect acc)))
            end
        | OGetOrCreateP kd key0 :: _ =>
            (* the caller's closure panics once the registry has handed it the storage.  Read-hit path: op(v) runs
               under the read guard, which is dropped while unwinding (a read guard never poisons).  Write paths:
               the entry has ALREADY been inserted by or_insert_with when op(v) runs; the write guard is dropped
               while unwinding and the shard's RwLock becomes poisoned.  Every accessor takes its locks with
               unwrap_or_else(PoisonError::into_inner), so a poisoned lock behaves like a healthy one: poisoning is
               not part of the state, and the call changes the registry exactly as a returning call does. *)
            let h := hash key0 in let i := shard_ix h in
            match find (matches h key0) (get_shard r kd i) with
            | Some e => Some (add_log r [EvRet kd key0 (snd e)], finish l (RPanicked (snd e)))
            | None =>
                match j with
                | O => Some (r, goto l 1 [])
                | S _ => let s := next_sid r in
                         Some (add_log (insert r kd i key0) [EvRet kd key0 s], finish l (RPanicked s))
                end
            end
        end
    end.

  Definition site (l : local) : N :=
    match pcl l with
    | Start => 0
    | Run j _ =>
        match todo l with
        | [] => 0
        | OGetOrCreate _ _ :: _ | OGetOrCreateP _ _ :: _ => match j with O => 601 | S _ => 602 end
        | ODelete _ _ :: _ => 610
        | OGet _ _ :: _ => 611
        | ORetain _ _ :: _ => 612
        | OClear :: _ => 613
        | OVisit _ :: _ | OHandles _ :: _ => 614
        end
    end.

  Definition empty_shards : list shard := repeat [] nshards.
  Definition init_reg : reg :=
    {| counters := empty_shards; gauges := empty_shards; histograms := empty_shards; next_sid := 0; log := [] |}.
  Definition init_local (p : list op) : local := {| pcl := Start; todo := p; results := [] |}.
  Definition init_config (ps : list (list op)) : reg * list local := (init_reg, map init_local ps).

  (* abstraction to ONE association map per kind *)
  Definition abs (r : reg) (kd : kind) : list entry := concat (shards_of r kd).
End Reg.
