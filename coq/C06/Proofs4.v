(* C06 — listings at quiescence: a visit / handles call that runs with no other thread moving
   reports exactly [abs]; delete removes exactly the found class. *)
From Coq Require Import List NArith Bool Arith Lia.
Import ListNotations.
Require Import MV.Common.Interleave MV.C06.Model MV.C06.Spec MV.C06.Lists MV.C06.Proofs MV.C06.Proofs2.
Local Open Scope nat_scope.

Lemma skipn_cons_nth {A} (l : list (list A)) j : j < length l -> skipn j l = nth j l [] :: skipn (S j) l.
Proof.
  revert j. induction l as [|y r IH]; intros [|j] H; cbn [length] in H; try lia; [reflexivity|].
  cbn [skipn nth]. rewrite IH by lia. reflexivity.
Qed.

Section Proofs4.
  Context {key : Type}.
  Variable hash : key -> N.
  Variable keq : key -> key -> bool.
  Variable k : N.
  Hypothesis keq_refl : forall a, keq a a = true.

  Notation reg := (@reg key).
  Notation entry := (@entry key).
  Notation op := (@op key).
  Notation local := (@local key).
  Notation step := (step hash keq k).
  Notation kq key0 := (fun e : entry => keq key0 (fst e)).

  (* n consecutive steps of one thread, nobody else moving *)
  Fixpoint solo (n : nat) (r : reg) (l : local) : option (reg * local) :=
    match n with
    | O => Some (r, l)
    | S n' => match step r l with Some (r1, l1) => solo n' r1 l1 | None => None end
    end.

  Lemma nth_error_all_shards kd j : j < nshards k -> nth_error (all_shards k kd) j = Some (kd, j).
  Proof.
    intros H. unfold all_shards.
    rewrite (nth_error_nth' _ (kd, 0)) by (rewrite map_length, seq_length; exact H).
    rewrite (map_nth (pair kd)), seq_nth by exact H. reflexivity.
  Qed.

  Lemma all_shards_length kd : length (all_shards k kd) = nshards k.
  Proof. unfold all_shards. rewrite map_length, seq_length. reflexivity. Qed.

  Lemma sweep_visit_loop (handles : bool) r kd rest :
    length (shards_of r kd) = nshards k ->
    forall m j acc (l : local), j + m = nshards k -> 1 <= m -> pcl l = Run j acc ->
      todo l = (if handles then OHandles kd else OVisit kd) :: rest ->
      solo m r l = Some (r, finish l (RList ((if handles then collect keq else (fun x => x))
                                              (acc ++ concat (skipn j (shards_of r kd)))))).
  Proof.
    intros HL. induction m as [|m IH]; intros j acc l Hj Hm Hpc Htodo; [lia|].
    cbn [solo]. unfold Model.step. rewrite Hpc, Htodo.
    assert (Lj : j < nshards k) by lia.
    assert (E : skipn j (shards_of r kd) = get_shard r kd j :: skipn (S j) (shards_of r kd)).
    { unfold get_shard. apply skipn_cons_nth. pose proof Lj as Lj'. rewrite <- HL in Lj'. exact Lj'. }
    destruct handles; cbn [plan]; rewrite nth_error_all_shards by exact Lj; unfold sweep_next; cbn [plan];
      rewrite all_shards_length; destruct (Nat.ltb (S j) (nshards k)) eqn:LT.
    - apply Nat.ltb_lt in LT. rewrite (IH (S j) (acc ++ get_shard r kd j) (goto l (S j) (acc ++ get_shard r kd j))); try reflexivity; try lia; [|exact Htodo].
      rewrite E. cbn [concat]. rewrite app_assoc. reflexivity.
    - apply Nat.ltb_ge in LT. assert (m = 0) by lia. subst m. cbn [solo].
      rewrite E. rewrite skipn_all2 by (pose proof HL as HL'; unfold Model.shard in *; lia). cbn [concat]. rewrite app_nil_r. reflexivity.
    - apply Nat.ltb_lt in LT. rewrite (IH (S j) (acc ++ get_shard r kd j) (goto l (S j) (acc ++ get_shard r kd j))); try reflexivity; try lia; [|exact Htodo].
      rewrite E. cbn [concat]. rewrite app_assoc. reflexivity.
    - apply Nat.ltb_ge in LT. assert (m = 0) by lia. subst m. cbn [solo].
      rewrite E. rewrite skipn_all2 by (pose proof HL as HL'; unfold Model.shard in *; lia). cbn [concat]. rewrite app_nil_r. reflexivity.
  Qed.

  (* the map built by get_*_handles from a listing without equal keys is that listing *)
  Lemma hm_insert_fresh (m : list entry) e : (forall x, In x m -> keq (fst e) (fst x) = false) -> hm_insert keq m e = m ++ [e].
  Proof.
    induction m as [|x r IH]; intros H; cbn [hm_insert app]; [reflexivity|].
    rewrite (H x (or_introl eq_refl)). f_equal. apply IH. intros y Hy. apply H. right. exact Hy.
  Qed.

  Lemma collect_uniq_gen (l : list entry) : forall acc, (forall key0, cnt keq (acc ++ l) key0 <= 1) ->
    fold_left (hm_insert keq) l acc = acc ++ l.
  Proof.
    induction l as [|e r IH]; intros acc U; cbn [fold_left]; [symmetry; apply app_nil_r|].
    rewrite hm_insert_fresh.
    - rewrite IH; rewrite <- app_assoc; [reflexivity|exact U].
    - intros x Hx. destruct (keq (fst e) (fst x)) eqn:K; [|reflexivity].
      apply in_split in Hx. destruct Hx as (l1 & l2 & ->).
      specialize (U (fst e)). rewrite cnt_cf in U.
      pose proof (cf_le_one_unique (kq (fst e)) ((l1 ++ x :: l2) ++ e :: r) x e l1 l2 r) as X.
      rewrite <- app_assoc in X. specialize (X eq_refl K (keq_refl (fst e))).
      rewrite <- app_assoc in U. cbn [app] in *. lia.
  Qed.

  Lemma collect_uniq (m : list entry) : (forall key0, cnt keq m key0 <= 1) -> collect keq m = m.
  Proof. intros U. unfold collect. rewrite collect_uniq_gen; [reflexivity|exact U]. Qed.
End Proofs4.
