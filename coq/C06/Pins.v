From Coq Require Import List NArith Bool Arith Permutation.
Import ListNotations.
Require Import MV.Common.Interleave MV.C06.Model MV.C06.Spec MV.C06.Proofs MV.C06.Proofs2 MV.C06.Proofs4 MV.C06.Proofs5.
Require Import MV.C06.Properties.

Check (C06_invariant_every_schedule : forall (key : Type) (hash : key -> N) (keq : key -> key -> bool) (k : N), key_contract hash keq ->
  forall (ps : list (list (@op key))) (sched : list nat),
    InvAll hash keq k (fst (fst (exec (step hash keq k) site (init_config k ps) sched)))).
Print Assumptions C06_invariant_every_schedule.
Check (C06_unique_storage_all_schedules : forall (key : Type) (hash : key -> N) (keq : key -> key -> bool) (k : N), key_contract hash keq ->
  forall (ps : list (list (@op key))) (sched : list nat),
    let r := fst (fst (exec (step hash keq k) site (init_config k ps) sched)) in
    (forall kd key0, (cnt keq (abs r kd) key0 <= 1)%nat) /\
    (forall s, (scnt (all_entries r) s <= 1)%nat) /\
    (forall e, In e (all_entries r) -> (snd e < next_sid r)%N) /\
    (forall kd key0, ncreate keq (log r) kd key0 = (nremove keq (log r) kd key0 + cnt keq (abs r kd) key0)%nat) /\
    (forall newer kd k2 s2 mid k1 s1 older,
       log r = newer ++ EvRet kd k2 s2 :: mid ++ EvRet kd k1 s1 :: older ->
       keq k1 k2 = true -> (forall ev, In ev mid -> is_remove keq kd k1 ev = false) -> s1 = s2) /\
    (forall newer kd k1 s1 older, log r = newer ++ EvRet kd k1 s1 :: older ->
       (forall ev, In ev newer -> is_remove keq kd k1 ev = false) -> has keq (abs r kd) k1 s1)).
Print Assumptions C06_unique_storage_all_schedules.
Check (C06_refines_one_map_per_kind : forall (key : Type) (hash : key -> N) (keq : key -> key -> bool) (k : N), key_contract hash keq ->
  forall r : @reg key, Inv hash keq k r ->
    (forall kd key0, find (matches hash keq (hash key0) key0) (get_shard r kd (shard_ix k (hash key0)))
                     = s_find keq (abs r kd) key0) /\
    (forall kd key0, let r' := insert r kd (shard_ix k (hash key0)) key0 in
       Permutation (abs r' kd) (s_insert (abs r kd) (key0, next_sid r))
       /\ (forall kd', kd <> kd' -> abs r' kd' = abs r kd') /\ next_sid r' = (next_sid r + 1)%N) /\
    (forall kd key0 found,
       find (matches hash keq (hash key0) key0) (get_shard r kd (shard_ix k (hash key0))) = Some found ->
       let r' := remove hash keq r kd (shard_ix k (hash key0)) (hash key0) key0 found in
       abs r' kd = s_remove keq (abs r kd) key0 /\ (forall kd', kd <> kd' -> abs r' kd' = abs r kd')) /\
    (forall kd i f, (i < nshards k)%nat ->
       abs (filter_shard r kd i f) kd = s_filter_band hash k (abs r kd) i f
       /\ (forall kd', kd <> kd' -> abs (filter_shard r kd i f) kd' = abs r kd')) /\
    (forall kd i, (i < nshards k)%nat -> get_shard r kd i = s_band hash k (abs r kd) i)).
Print Assumptions C06_refines_one_map_per_kind.
Check (C06_listing_exact_partial : forall (key : Type) (hash : key -> N) (keq : key -> key -> bool) (k : N), key_contract hash keq ->
  forall r : @reg key, Inv hash keq k r ->
    (forall (l : @local key) kd rest, pcl l = Run 0 [] -> todo l = OVisit kd :: rest ->
       solo hash keq k (nshards k) r l = Some (r, finish l (RList (abs r kd)))) /\
    (forall (l : @local key) kd rest, pcl l = Run 0 [] -> todo l = OHandles kd :: rest ->
       solo hash keq k (nshards k) r l = Some (r, finish l (RList (abs r kd)))) /\
    (forall kd key0, (cnt keq (abs r kd) key0 <= 1)%nat) /\
    (forall (l : @local key) j acc kd key0 rest, pcl l = Run j acc -> todo l = ODelete kd key0 :: rest ->
       exists r', step hash keq k r l = Some (r', finish l (RBool (match s_find keq (abs r kd) key0 with Some _ => true | None => false end)))
         /\ abs r' kd = s_remove keq (abs r kd) key0
         /\ (forall kd', kd <> kd' -> abs r' kd' = abs r kd')
         /\ cnt keq (abs r' kd) key0 = 0%nat
         /\ (forall key1, keq key0 key1 = false -> cnt keq (abs r' kd) key1 = cnt keq (abs r kd) key1)) /\
    (forall kd i f, (i < nshards k)%nat -> abs (filter_shard r kd i f) kd = s_filter_band hash k (abs r kd) i f) /\
    (forall kd (f : @entry key -> bool),
       fold_left (fun m j => s_filter_band hash k m j f) (seq 0 (nshards k)) (abs r kd) = filter f (abs r kd))).
Print Assumptions C06_listing_exact_partial.
