(* C06 — every step preserves the state invariant; the return-consistency invariant on the ghost
   log; reachable configurations. *)
From Coq Require Import List NArith Bool Arith Lia.
Import ListNotations.
Require Import MV.Common.Interleave MV.C06.Model MV.C06.Spec MV.C06.Lists MV.C06.Proofs.
Local Open Scope nat_scope.

Section Proofs2.
  Context {key : Type}.
  Variable hash : key -> N.
  Variable keq : key -> key -> bool.
  Variable k : N.
  Hypothesis keq_refl : forall a, keq a a = true.
  Hypothesis keq_sym : forall a b, keq a b = keq b a.
  Hypothesis keq_trans : forall a b c, keq a b = true -> keq b c = true -> keq a c = true.
  Hypothesis hash_respects_eq : forall a b, keq a b = true -> hash a = hash b.

  Notation reg := (@reg key).
  Notation entry := (@entry key).
  Notation event := (@event key).
  Notation op := (@op key).
  Notation local := (@local key).
  Notation ix := (shard_ix k).
  Notation Inv := (Inv hash keq k).
  Notation step := (step hash keq k).
  Notation kq key0 := (fun e : entry => keq key0 (fst e)).

  Lemma plan_ix (o : op) j kd i : nth_error (plan k o) j = Some (kd, i) -> i < nshards k.
  Proof.
    intros H. apply nth_error_In in H.
    assert (A : forall kd0, In (kd, i) (all_shards k kd0) -> i < nshards k).
    { intros kd0 Hx. unfold all_shards in Hx. apply in_map_iff in Hx. destruct Hx as (x & E & Hx).
      inversion E; subst. apply in_seq in Hx. lia. }
    destruct o; cbn [plan] in H; rewrite ?in_app_iff in H;
      repeat (destruct H as [H|H]); try (eapply A; exact H); destruct H.
  Qed.

  Lemma sweep_next_reg (r : reg) (l : local) o j acc x r' l' : sweep_next k r l o j acc x = Some (r', l') -> r' = r.
  Proof. unfold sweep_next. destruct (Nat.ltb _ _); intros H; inversion H; reflexivity. Qed.

  Lemma step_Inv r l r' l' : Inv r -> step r l = Some (r', l') -> Inv r'.
  Proof.
    intros HI. unfold Model.step. destruct (pcl l) as [|j acc]; [intros H; inversion H; subst; exact HI|].
    destruct (todo l) as [|o rest]; [discriminate|].
    destruct o as [kd key0|kd key0|kd key0|kd p| |kd|kd|kd key0]; cbv zeta.
    - destruct (find _ _) eqn:F.
      + intros H; inversion H; subst. apply Inv_add_ret. exact HI.
      + destruct j; intros H; inversion H; subst; [exact HI|].
        apply Inv_add_ret. apply insert_Inv; assumption.
    - intros H; inversion H; subst; exact HI.
    - destruct (find _ _) eqn:F; intros H; inversion H; subst; [|exact HI].
      apply remove_Inv; assumption.
    - destruct (nth_error _ _) as [[kd' i]|] eqn:P.
      + intros H. apply sweep_next_reg in H. subst. apply filter_Inv; solve [assumption | eapply plan_ix; exact P].
      + intros H; inversion H; subst; exact HI.
    - destruct (nth_error _ _) as [[kd' i]|] eqn:P.
      + intros H. apply sweep_next_reg in H. subst. apply filter_Inv; solve [assumption | eapply plan_ix; exact P].
      + intros H; inversion H; subst; exact HI.
    - destruct (nth_error _ _) as [[kd' i]|] eqn:P.
      + intros H. apply sweep_next_reg in H. subst. exact HI.
      + intros H; inversion H; subst; exact HI.
    - destruct (nth_error _ _) as [[kd' i]|] eqn:P.
      + intros H. apply sweep_next_reg in H. subst. exact HI.
      + intros H; inversion H; subst; exact HI.
    - destruct (find _ _) eqn:F.
      + intros H; inversion H; subst. apply Inv_add_ret. exact HI.
      + destruct j; intros H; inversion H; subst; [exact HI|].
        apply Inv_add_ret. apply insert_Inv; assumption.
  Qed.

  (* ---- the initial registry ---- *)
  Lemma concat_repeat_nil {A} n : concat (repeat (@nil A) n) = [].
  Proof. induction n; cbn; auto. Qed.
  Lemma nth_repeat_nil {A} i n : nth i (repeat (@nil A) n) [] = [].
  Proof. revert i. induction n; intros [|i]; cbn; auto. Qed.

  Lemma shards_init kd : shards_of (@init_reg key k) kd = repeat [] (nshards k).
  Proof. destruct kd; reflexivity. Qed.

  Lemma init_Inv : Inv (init_reg k).
  Proof.
    assert (A : forall kd, abs (@init_reg key k) kd = []) by (intros kd; unfold abs; rewrite shards_init; apply concat_repeat_nil).
    constructor.
    - intros kd. rewrite shards_init. apply repeat_length.
    - intros kd i e. unfold get_shard. rewrite shards_init. unfold Model.shard. rewrite nth_repeat_nil. intros [].
    - intros kd key0. rewrite A. cbn. lia.
    - intros s. unfold all_entries. rewrite !A. cbn. lia.
    - intros e. unfold all_entries. rewrite !A. intros [].
    - intros kd key0. rewrite A. reflexivity.
  Qed.

  (* ---- return consistency on the ghost log ---- *)
  Definition no_remove (kd : kind) (key0 : key) (es : list event) : Prop :=
    forall ev, In ev es -> is_remove keq kd key0 ev = false.

  (* P: a storage returned by get_or_create is still THE live storage of its class as long as no
     removal of that class has been logged since *)
  Definition RetLive (r : reg) : Prop :=
    forall newer kd k1 s1 older, log r = newer ++ EvRet kd k1 s1 :: older ->
      no_remove kd k1 newer -> has keq (abs r kd) k1 s1.
  (* Q: two returns for equal keys with no removal of the class in between are the same storage *)
  Definition RetSame (lg : list event) : Prop :=
    forall newer kd k2 s2 mid k1 s1 older,
      lg = newer ++ EvRet kd k2 s2 :: mid ++ EvRet kd k1 s1 :: older ->
      keq k1 k2 = true -> no_remove kd k1 mid -> s1 = s2.

  Definition not_ret (ev : event) : Prop := match ev with EvRet _ _ _ => False | _ => True end.

  Lemma split_in_old (es lg newer older : list event) x :
    Forall not_ret es -> (match x with EvRet _ _ _ => True | _ => False end) ->
    es ++ lg = newer ++ x :: older -> exists pre, newer = es ++ pre /\ lg = pre ++ x :: older.
  Proof.
    revert newer. induction es as [|e r IH]; intros newer F Hx E; cbn in E.
    - exists newer. split; [reflexivity|exact E].
    - inversion F; subst. destruct newer as [|y newer]; cbn in E.
      + inversion E; subst. destruct x; cbn in *; tauto.
      + inversion E; subst. destruct (IH newer H2 Hx H3) as (pre & -> & ->). exists pre. split; reflexivity.
  Qed.

  Lemma has_unique (m : list entry) k1 s1 k2 s2 :
    cnt keq m k1 <= 1 -> has keq m k1 s1 -> has keq m k2 s2 -> keq k1 k2 = true -> s1 = s2.
  Proof.
    intros U (e1 & I1 & K1 & <-) (e2 & I2 & K2 & <-) K.
    assert (K3 : keq k1 (fst e2) = true) by (eapply keq_trans; eauto).
    pose proof (find_unique (kq k1) m e1 I1 K1 U) as F1.
    pose proof (find_unique (kq k1) m e2 I2 K3 U) as F2.
    congruence.
  Qed.

  (* updates that log no return *)
  Lemma RetLive_nonret r r' es : RetLive r -> log r' = es ++ log r -> Forall not_ret es ->
    (forall kd key1 s, has keq (abs r kd) key1 s -> no_remove kd key1 es -> has keq (abs r' kd) key1 s) ->
    RetLive r'.
  Proof.
    intros HP HL F Hs newer kd k1 s1 older E Hn. rewrite HL in E. symmetry in E.
    destruct (split_in_old es (log r) newer older (EvRet kd k1 s1) F I (eq_sym E)) as (pre & -> & E2).
    apply Hs.
    - apply (HP pre kd k1 s1 older E2). intros ev Hev. apply Hn. apply in_app_iff. right. exact Hev.
    - intros ev Hev. apply Hn. apply in_app_iff. left. exact Hev.
  Qed.

  Lemma RetSame_nonret lg es : RetSame lg -> Forall not_ret es -> RetSame (es ++ lg).
  Proof.
    intros HQ F newer kd k2 s2 mid k1 s1 older E K Hn.
    destruct (split_in_old es lg newer _ (EvRet kd k2 s2) F I E) as (pre & -> & E2).
    eapply HQ; eauto.
  Qed.

  (* logging a return of the live storage *)
  Lemma RetLive_ret r kd key0 s : RetLive r -> has keq (abs r kd) key0 s -> RetLive (add_log r [EvRet kd key0 s]).
  Proof.
    intros HP Hh newer kd1 k1 s1 older E Hn. rewrite abs_add_log. cbn [log add_log app] in E.
    destruct newer as [|y newer]; cbn in E.
    - inversion E; subst. exact Hh.
    - inversion E; subst. apply (HP newer kd1 k1 s1 older H1). intros ev Hev. apply Hn. right. exact Hev.
  Qed.

  Lemma RetSame_ret r kd key0 s : RetLive r -> RetSame (log r) -> (forall key1, cnt keq (abs r kd) key1 <= 1) ->
    has keq (abs r kd) key0 s -> RetSame (EvRet kd key0 s :: log r).
  Proof.
    intros HP HQ U Hh newer kd1 k2 s2 mid k1 s1 older E K Hn.
    destruct newer as [|y newer]; cbn in E.
    - inversion E; subst. pose proof (HP mid kd1 k1 s1 older H3 Hn) as H1.
      exact (has_unique _ _ _ _ _ (U k1) H1 Hh K).
    - inversion E; subst. eapply HQ; eauto.
  Qed.

  Definition InvAll (r : reg) : Prop := Inv r /\ RetLive r /\ RetSame (log r).

  Lemma has_survives_put (r : reg) kd i s' kd1 key1 s :
    has keq (abs r kd1) key1 s ->
    (forall e, In e (get_shard r kd i) -> kd1 = kd -> keq key1 (fst e) = true -> In e s') ->
    i < length (shards_of r kd) ->
    has keq (abs (put_shard r kd i s') kd1) key1 s.
  Proof.
    intros (e & He & K & <-) Hk L. exists e. split; [|auto].
    destruct (in_abs_put_keep r kd i s' kd1 e He) as [H|(-> & H)]; [exact H|].
    apply in_put_new; [exact L|]. apply Hk; auto.
  Qed.

  Lemma step_InvAll r l r' l' : InvAll r -> step r l = Some (r', l') -> InvAll r'.
  Proof.
    intros (HI & HP & HQ) Hstep. split; [eapply step_Inv; eauto|].
    revert Hstep. unfold Model.step. destruct (pcl l) as [|j acc]; [intros H; inversion H; subst; auto|].
    destruct (todo l) as [|o rest]; [discriminate|].
    assert (NR : forall kd (rm : list entry), Forall not_ret (map (fun e => EvRemove kd (fst e) (snd e)) rm)).
    { intros kd rm. apply Forall_forall. intros ev H. apply in_map_iff in H. destruct H as (e & <- & _). exact I. }
    assert (FS : forall kd i f, i < nshards k -> RetLive (filter_shard r kd i f) /\ RetSame (log (filter_shard r kd i f))).
    { intros kd i f Hi. split.
      - eapply RetLive_nonret; [exact HP|cbn [log filter_shard add_log]; rewrite log_put; reflexivity|apply NR|].
        intros kd1 key1 s Hh Hn. rewrite filter_is_shrink in *. unfold shrink in *. rewrite abs_add_log.
        apply has_survives_put; [exact Hh| |rewrite (I_len _ _ _ _ HI); exact Hi].
        intros e He -> K. apply filter_In. split; [exact He|].
        destruct (f e) eqn:Fe; [reflexivity|].
        assert (X : is_remove keq kd key1 (EvRemove kd (fst e) (snd e)) = false).
        { apply Hn. apply in_map_iff. exists e. split; [reflexivity|]. apply filter_In. split; [exact He|]. rewrite Fe. reflexivity. }
        cbn [is_remove] in X. rewrite kind_eqb_refl, K in X. discriminate.
      - cbn [log filter_shard add_log]. rewrite log_put. apply RetSame_nonret; [exact HQ|apply NR]. }
    destruct o as [kd key0|kd key0|kd key0|kd p| |kd|kd|kd key0]; cbv zeta.
    - destruct (find _ _) as [e|] eqn:F.
      + intros H; inversion H; subst. destruct (lookup_some hash keq k r kd key0 e F) as [He Ke].
        assert (Hh : has keq (abs r kd) key0 (snd e)) by (exists e; auto).
        split; [apply RetLive_ret; assumption|].
        cbn [log add_log app]. apply RetSame_ret; try assumption. intros key1. apply (I_uniq _ _ _ _ HI).
      + destruct j; intros H; inversion H; subst; [auto|].
        set (i := ix (hash key0)) in *.
        assert (L : i < length (shards_of r kd)) by (rewrite (I_len _ _ _ _ HI); apply ix_lt).
        assert (HI1 : Inv (insert r kd i key0)) by (apply insert_Inv; assumption).
        assert (HP1 : RetLive (insert r kd i key0)).
        { eapply RetLive_nonret; [exact HP|cbn [log insert add_log bump_sid]; rewrite log_put; reflexivity|repeat constructor|].
          intros kd1 key1 s Hh _. unfold insert. rewrite abs_add_log, abs_bump.
          apply has_survives_put; [exact Hh| |exact L]. intros e He _ _. apply in_app_iff. left. exact He. }
        assert (HQ1 : RetSame (log (insert r kd i key0))).
        { cbn [log insert add_log bump_sid]. rewrite log_put. apply (RetSame_nonret (log r) [EvCreate kd key0 (next_sid r)]); [exact HQ|repeat constructor]. }
        assert (Hh : has keq (abs (insert r kd i key0) kd) key0 (next_sid r)).
        { exists (key0, next_sid r). split; [|split; [|reflexivity]].
          - unfold insert. rewrite abs_add_log, abs_bump. apply in_put_new; [exact L|]. apply in_app_iff. right. left. reflexivity.
          - cbn [fst]. apply keq_refl. }
        split; [apply RetLive_ret; assumption|].
        cbn [log add_log app]. apply RetSame_ret; try assumption. intros key1. apply (I_uniq _ _ _ _ HI1).
    - intros H; inversion H; subst; auto.
    - destruct (find _ _) as [e|] eqn:F; intros H; inversion H; subst; [|auto].
      set (i := ix (hash key0)) in *.
      split.
      + eapply RetLive_nonret; [exact HP|cbn [log remove add_log]; rewrite log_put; reflexivity|repeat constructor|].
        intros kd1 key1 s Hh Hn. unfold remove. rewrite abs_add_log.
        apply has_survives_put; [exact Hh| |rewrite (I_len _ _ _ _ HI); apply ix_lt].
        intros x Hx -> K. apply remove_first_keeps; [exact Hx|].
        destruct (matches hash keq (hash key0) key0 x) eqn:M; [|reflexivity].
        exfalso. unfold matches in M. apply andb_true_iff in M. destruct M as [_ M].
        destruct (lookup_some hash keq k r kd key0 e F) as [_ Ke].
        assert (X : is_remove keq kd key1 (EvRemove kd (fst e) (snd e)) = false) by (apply Hn; left; reflexivity).
        cbn [is_remove] in X. rewrite kind_eqb_refl in X. cbn [andb] in X.
        assert (keq key1 (fst e) = true); [|congruence].
        eapply keq_trans; [exact K|]. eapply keq_trans; [|exact Ke]. rewrite keq_sym. exact M.
      + cbn [log remove add_log]. rewrite log_put. apply (RetSame_nonret (log r) [EvRemove kd (fst e) (snd e)]); [exact HQ|repeat constructor].
    - destruct (nth_error _ _) as [[kd' i]|] eqn:P.
      + intros H. apply sweep_next_reg in H. subst. apply FS. eapply plan_ix; exact P.
      + intros H; inversion H; subst; auto.
    - destruct (nth_error _ _) as [[kd' i]|] eqn:P.
      + intros H. apply sweep_next_reg in H. subst. apply FS. eapply plan_ix; exact P.
      + intros H; inversion H; subst; auto.
    - destruct (nth_error _ _) as [[kd' i]|] eqn:P.
      + intros H. apply sweep_next_reg in H. subst. auto.
      + intros H; inversion H; subst; auto.
    - destruct (nth_error _ _) as [[kd' i]|] eqn:P.
      + intros H. apply sweep_next_reg in H. subst. auto.
      + intros H; inversion H; subst; auto.
    - destruct (find _ _) as [e|] eqn:F.
      + intros H; inversion H; subst. destruct (lookup_some hash keq k r kd key0 e F) as [He Ke].
        assert (Hh : has keq (abs r kd) key0 (snd e)) by (exists e; auto).
        split; [apply RetLive_ret; assumption|].
        cbn [log add_log app]. apply RetSame_ret; try assumption. intros key1. apply (I_uniq _ _ _ _ HI).
      + destruct j; intros H; inversion H; subst; [auto|].
        set (i := ix (hash key0)) in *.
        assert (L : i < length (shards_of r kd)) by (rewrite (I_len _ _ _ _ HI); apply ix_lt).
        assert (HI1 : Inv (insert r kd i key0)) by (apply insert_Inv; assumption).
        assert (HP1 : RetLive (insert r kd i key0)).
        { eapply RetLive_nonret; [exact HP|cbn [log insert add_log bump_sid]; rewrite log_put; reflexivity|repeat constructor|].
          intros kd1 key1 s Hh _. unfold insert. rewrite abs_add_log, abs_bump.
          apply has_survives_put; [exact Hh| |exact L]. intros e He _ _. apply in_app_iff. left. exact He. }
        assert (HQ1 : RetSame (log (insert r kd i key0))).
        { cbn [log insert add_log bump_sid]. rewrite log_put. apply (RetSame_nonret (log r) [EvCreate kd key0 (next_sid r)]); [exact HQ|repeat constructor]. }
        assert (Hh : has keq (abs (insert r kd i key0) kd) key0 (next_sid r)).
        { exists (key0, next_sid r). split; [|split; [|reflexivity]].
          - unfold insert. rewrite abs_add_log, abs_bump. apply in_put_new; [exact L|]. apply in_app_iff. right. left. reflexivity.
          - cbn [fst]. apply keq_refl. }
        split; [apply RetLive_ret; assumption|].
        cbn [log add_log app]. apply RetSame_ret; try assumption. intros key1. apply (I_uniq _ _ _ _ HI1).
  Qed.
End Proofs2.
