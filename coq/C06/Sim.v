(* C06 — generic facts about Common/Interleave used for the refinement: an execution with a
   round-robin tail is the plain execution of the thread-index sequence recorded in its trace, and
   a step-wise simulation between two machines with the same thread-local states lifts to every
   schedule. *)
From Coq Require Import List NArith Bool Arith Lia.
Import ListNotations.
Require Import MV.Common.Interleave.

Definition tid (e : N * N) : nat := N.to_nat (fst e).

Lemma forallb_ext' {A} (f g : A -> bool) l : (forall x, f x = g x) -> forallb f l = forallb g l.
Proof. intros H. induction l as [|x r IH]; cbn; [reflexivity|]. rewrite H, IH. reflexivity. Qed.

Section Replay.
  Context {shared local : Type}.
  Variable step : shared -> local -> option (shared * local).
  Variable site : local -> N.
  Notation config := (@config shared local).
  Notation exec := (exec step site).
  Notation step_thread := (step_thread step site).

  Lemma step_thread_tid (c : config) t : tid (snd (step_thread c t)) = t.
  Proof.
    unfold Interleave.step_thread, tid. destruct (nth_error (snd c) t) as [l|]; [|cbn; apply Nat2N.id].
    destruct (step (fst c) l) as [[s' l']|]; cbn; apply Nat2N.id.
  Qed.

  Lemma exec_app (c : config) s1 s2 :
    exec c (s1 ++ s2) = let '(c1, t1) := exec c s1 in let '(c2, t2) := exec c1 s2 in (c2, t1 ++ t2).
  Proof.
    revert c. induction s1 as [|t r IH]; intros c; cbn [app Interleave.exec].
    - destruct (exec c s2) as [c2 t2]. reflexivity.
    - destruct (step_thread c t) as [c1 e]. rewrite IH.
      destruct (exec c1 r) as [c1' t1]. destruct (exec c1' s2) as [c2 t2]. reflexivity.
  Qed.

  Lemma exec_trace_tids (c : config) sched : map tid (snd (exec c sched)) = sched.
  Proof.
    revert c. induction sched as [|t r IH]; intros c; cbn [Interleave.exec]; [reflexivity|].
    pose proof (step_thread_tid c t) as E. destruct (step_thread c t) as [c1 e]. cbn [snd] in E.
    specialize (IH c1). destruct (exec c1 r) as [c2 es]. cbn [snd map] in *. rewrite E, IH. reflexivity.
  Qed.

  Lemma rr_round_replay ts : forall c : config,
    exec c (map tid (snd (rr_round step site c ts))) = rr_round step site c ts.
  Proof.
    induction ts as [|t r IH]; intros c; cbn [rr_round]; [reflexivity|].
    destruct (finished step c t); [apply IH|].
    pose proof (step_thread_tid c t) as E. destruct (step_thread c t) as [c1 e] eqn:ST. cbn [snd] in E.
    specialize (IH c1). destruct (rr_round step site c1 r) as [c2 es]. cbn [snd map] in *.
    rewrite E. cbn [Interleave.exec]. rewrite ST, IH. reflexivity.
  Qed.

  Lemma exec_rr_replay fuel : forall c : config,
    exec c (map tid (snd (exec_rr step site fuel c))) = exec_rr step site fuel c.
  Proof.
    induction fuel as [|f IH]; intros c; cbn [exec_rr]; [reflexivity|].
    destruct (all_done step c); [reflexivity|].
    pose proof (rr_round_replay (seq 0 (length (snd c))) c) as R1.
    destruct (rr_round step site c (seq 0 (length (snd c)))) as [c1 es]. cbn [snd] in R1.
    specialize (IH c1). destruct (exec_rr step site f c1) as [c2 es']. cbn [snd] in *.
    rewrite map_app, exec_app, R1, IH. reflexivity.
  Qed.

  Lemma exec_full_replay fuel (c : config) sched :
    exec c (map tid (snd (exec_full step site fuel c sched))) = exec_full step site fuel c sched.
  Proof.
    unfold exec_full. pose proof (exec_trace_tids c sched) as T.
    destruct (exec c sched) as [c1 es] eqn:E1. cbn [snd] in T.
    pose proof (exec_rr_replay fuel c1) as R2.
    destruct (exec_rr step site fuel c1) as [c2 es'] eqn:E2. cbn [snd] in *.
    rewrite map_app, exec_app, T, E1, R2. reflexivity.
  Qed.
End Replay.

Section Simulation.
  Context {sh1 sh2 local : Type}.
  Variable step1 : sh1 -> local -> option (sh1 * local).
  Variable step2 : sh2 -> local -> option (sh2 * local).
  Variable site : local -> N.
  Variable R : sh1 -> sh2 -> Prop.
  Hypothesis sim_none : forall s1 s2 l, R s1 s2 -> step1 s1 l = None -> step2 s2 l = None.
  Hypothesis sim_some : forall s1 s2 l s1' l', R s1 s2 -> step1 s1 l = Some (s1', l') ->
                                               exists s2', step2 s2 l = Some (s2', l') /\ R s1' s2'.

  Lemma sim_step_thread s1 s2 ls t : R s1 s2 ->
    exists s2', step_thread step2 site (s2, ls) t
                = ((s2', snd (fst (step_thread step1 site (s1, ls) t))), snd (step_thread step1 site (s1, ls) t))
                /\ R (fst (fst (step_thread step1 site (s1, ls) t))) s2'.
  Proof.
    intros HR. unfold step_thread. cbn [fst snd].
    destruct (nth_error ls t) as [l|]; [|exists s2; split; [reflexivity|exact HR]].
    destruct (step1 s1 l) as [[s1' l']|] eqn:E.
    - destruct (sim_some _ _ _ _ _ HR E) as (s2' & E2 & HR'). rewrite E2. exists s2'. split; [reflexivity|exact HR'].
    - rewrite (sim_none _ _ _ HR E). exists s2. split; [reflexivity|exact HR].
  Qed.

  Lemma sim_exec sched : forall s1 s2 ls, R s1 s2 ->
    exists s2', exec step2 site (s2, ls) sched
                = ((s2', snd (fst (exec step1 site (s1, ls) sched))), snd (exec step1 site (s1, ls) sched))
                /\ R (fst (fst (exec step1 site (s1, ls) sched))) s2'.
  Proof.
    induction sched as [|t r IH]; intros s1 s2 ls HR; cbn [exec].
    - exists s2. split; [reflexivity|exact HR].
    - destruct (sim_step_thread s1 s2 ls t HR) as (s2a & E & HRa).
      destruct (step_thread step1 site (s1, ls) t) as [[s1a lsa] e]. cbn [fst snd] in *. rewrite E.
      destruct (IH s1a s2a lsa HRa) as (s2' & E' & HR').
      destruct (exec step1 site (s1a, lsa) r) as [[s1b lsb] es]. cbn [fst snd] in *. rewrite E'.
      exists s2'. split; [reflexivity|exact HR'].
  Qed.

  Lemma sim_all_done s1 s2 ls : R s1 s2 ->
    all_done step2 (s2, ls) = all_done step1 (s1, ls).
  Proof.
    intros HR. unfold all_done. cbn [snd]. apply forallb_ext'. intros t. unfold finished. cbn [fst snd].
    destruct (nth_error ls t) as [l|]; [|reflexivity].
    destruct (step1 s1 l) as [[s1' l']|] eqn:E.
    - destruct (sim_some _ _ _ _ _ HR E) as (s2' & E2 & _). rewrite E2. reflexivity.
    - rewrite (sim_none _ _ _ HR E). reflexivity.
  Qed.
End Simulation.
