(* C06 — the model's own run of every case passes the executable property (the single-map replay of
   Spec.v), and what [spec_ok] means at the Prop level. *)
From Coq Require Import List NArith Bool Arith Lia Permutation.
Import ListNotations.
Require Import MV.Common.Interleave MV.C06.Model MV.C06.Spec MV.C06.Exec MV.C06.Lists MV.C06.Proofs MV.C06.Proofs2 MV.C06.Sim MV.C06.Refine.
Local Open Scope nat_scope.

(* ---- the concrete key contract: keys of one class hash alike by construction of [class_hash] ---- *)
Lemma ckey_contract tbl : key_contract (class_hash tbl) c_keq.
Proof.
  unfold c_keq. split; [intros a; apply N.eqb_refl|]. split; [intros a b; apply N.eqb_sym|]. split.
  - intros a b c H1 H2. apply N.eqb_eq in H1, H2. apply N.eqb_eq. congruence.
  - intros a b H. apply N.eqb_eq in H. unfold class_hash. rewrite H. reflexivity.
Qed.

(* ---- reflexivity / permutation facts of the output comparison ---- *)
Lemma list_eqb_refl {A} (eqb : A -> A -> bool) l : (forall x, eqb x x = true) -> list_eqb eqb l l = true.
Proof. intros H. induction l as [|x r IH]; cbn; [reflexivity|]. rewrite H, IH. reflexivity. Qed.
Lemma pair_eqb_refl x : pair_eqb x x = true.
Proof. unfold pair_eqb. rewrite !N.eqb_refl. reflexivity. Qed.
Lemma triple_eqb_refl x : triple_eqb x x = true.
Proof. unfold triple_eqb. rewrite pair_eqb_refl, N.eqb_refl. reflexivity. Qed.

Lemma count_perm a b : Permutation a b -> forall x, count_pair x a = count_pair x b.
Proof.
  unfold count_pair. induction 1; intros z; cbn [filter].
  - reflexivity.
  - destruct (pair_eqb z x); cbn [length]; rewrite IHPermutation; reflexivity.
  - destruct (pair_eqb z x), (pair_eqb z y); reflexivity.
  - rewrite IHPermutation1. apply IHPermutation2.
Qed.

Lemma perm_eqb_of_perm a b : Permutation a b -> perm_eqb a b = true.
Proof.
  intros P. unfold perm_eqb. rewrite (Permutation_length P), Nat.eqb_refl. cbn [andb].
  apply forallb_forall. intros x _. rewrite (count_perm a b P x). apply Nat.eqb_refl.
Qed.
Lemma perm_eqb_refl a : perm_eqb a a = true.
Proof. apply perm_eqb_of_perm. apply Permutation_refl. Qed.
Lemma cres_eqb_refl x : cres_eqb x x = true.
Proof.
  destruct x as [s|[s|]|[]| |l|s]; cbn; try reflexivity; try apply N.eqb_refl. apply perm_eqb_refl.
Qed.

Lemma cons_of_creates (lg : list (@event ckey)) :
  map (fun '(kd, x, s) => (kind_code kd, c_class x, s)) (creates lg)
  = flat_map (fun e => match e with EvCreate kd x s => [(kind_code kd, c_class x, s)] | _ => [] end) lg.
Proof.
  unfold creates. induction lg as [|e r IH]; cbn [flat_map map]; [reflexivity|].
  destruct e; cbn [app map]; rewrite ?IH; reflexivity.
Qed.

Theorem spec_ok_on_model : forall c, consistent (okeys (case_keys c)) = true -> spec_ok c (run_case c) = true.
Proof.
  intros c WF. unfold spec_ok, run_case.
  set (kk := k_of c). set (h := hash_of c).
  pose proof (exec_full_replay (step h c_keq kk) site rr_fuel (init_config kk (progs_of c)) (map N.to_nat (snd c))) as RP.
  destruct (exec_full (step h c_keq kk) site rr_fuel (init_config kk (progs_of c)) (map N.to_nat (snd c))) as [cf tr] eqn:EF.
  cbn [snd] in RP. rewrite WF. cbn [andb].
  change (map (fun e : N * N => N.to_nat (fst e)) tr) with (map tid tr).
  unfold run_spec. fold kk. fold h.
  destruct (refines_every_schedule h c_keq kk (ckey_contract _) (progs_of c) (map tid tr)) as (sr & ES & HR).
  change (init_sreg, map init_local (progs_of c)) with (@init_sreg ckey, map (@init_local ckey) (progs_of c)) in *.
  rewrite RP in ES, HR. cbn [fst snd] in ES, HR. rewrite ES. cbn [fst snd].
  unfold obs_eqb.
  rewrite (list_eqb_refl pair_eqb tr pair_eqb_refl).
  rewrite (list_eqb_refl (list_eqb cres_eqb)) by (intros x; apply list_eqb_refl; apply cres_eqb_refl).
  rewrite (sim_all_done (step h c_keq kk) (sstep h c_keq kk) (Rel h c_keq kk)
             (sim_none h c_keq kk) (sim_some h c_keq kk (ckey_contract _)) (fst cf) sr (snd cf) HR).
  replace (fst cf, snd cf) with cf by (destruct cf; reflexivity).
  rewrite eqb_reflx. cbn [andb].
  unfold cons_of_log. rewrite (R_cons _ _ _ _ _ HR), cons_of_creates.
  rewrite (list_eqb_refl triple_eqb) by apply triple_eqb_refl. cbn [andb].
  cbn [list_eqb].
  assert (P : forall kd, perm_eqb (listing (smap sr kd)) (listing (abs (fst cf) kd)) = true).
  { intros kd. apply perm_eqb_of_perm. unfold listing. apply Permutation_map.
    exact (rel_perm h c_keq kk (fst cf) sr kd HR). }
  pose proof (P KCounter) as P1. pose proof (P KGauge) as P2. pose proof (P KHistogram) as P3.
  cbn [smap] in P1, P2, P3. rewrite P1, P2, P3. reflexivity.
Qed.

(* ---- what [spec_ok] means ---- *)
Lemma pair_eqb_eq x y : pair_eqb x y = true -> x = y.
Proof.
  unfold pair_eqb. intros H. apply andb_true_iff in H. destruct H as [H1 H2].
  apply N.eqb_eq in H1, H2. destruct x, y; cbn in *; congruence.
Qed.
Lemma triple_eqb_eq x y : triple_eqb x y = true -> x = y.
Proof.
  unfold triple_eqb. intros H. apply andb_true_iff in H. destruct H as [H1 H2].
  apply pair_eqb_eq in H1. apply N.eqb_eq in H2. destruct x, y; cbn in *; congruence.
Qed.

Lemma list_eqb_Forall2 {A} (eqb : A -> A -> bool) (R : A -> A -> Prop) :
  (forall x y, eqb x y = true -> R x y) -> forall a b, list_eqb eqb a b = true -> Forall2 R a b.
Proof.
  intros H. induction a as [|x r IH]; intros [|y r'] E; cbn in E; try discriminate; [constructor|].
  apply andb_true_iff in E. destruct E as [E1 E2]. constructor; [apply H; exact E1|apply IH; exact E2].
Qed.
Lemma list_eqb_eq {A} (eqb : A -> A -> bool) :
  (forall x y, eqb x y = true -> x = y) -> forall a b, list_eqb eqb a b = true -> a = b.
Proof.
  intros H. induction a as [|x r IH]; intros [|y r'] E; cbn in E; try discriminate; [reflexivity|].
  apply andb_true_iff in E. destruct E as [E1 E2]. rewrite (H _ _ E1), (IH _ E2). reflexivity.
Qed.

Lemma count_cons y x l : count_pair y (x :: l) = (if pair_eqb y x then 1 else 0) + count_pair y l.
Proof. unfold count_pair. cbn [filter]. destruct (pair_eqb y x); reflexivity. Qed.
Lemma count_app y l1 l2 : count_pair y (l1 ++ l2) = count_pair y l1 + count_pair y l2.
Proof. unfold count_pair. rewrite filter_app, app_length. reflexivity. Qed.

Lemma perm_eqb_perm : forall a b, perm_eqb a b = true -> Permutation a b.
Proof.
  induction a as [|x a IH]; intros b H; unfold perm_eqb in H; apply andb_true_iff in H; destruct H as [HL HC].
  - apply Nat.eqb_eq in HL. destruct b; [constructor|discriminate].
  - apply Nat.eqb_eq in HL. cbn [forallb] in HC. apply andb_true_iff in HC. destruct HC as [Hx Ha].
    apply Nat.eqb_eq in Hx. rewrite count_cons, pair_eqb_refl in Hx.
    assert (Hin : In x b).
    { unfold count_pair in Hx. destruct (filter (pair_eqb x) b) as [|x' f] eqn:F; [cbn in Hx; lia|].
      assert (I : In x' (filter (pair_eqb x) b)) by (rewrite F; left; reflexivity).
      apply filter_In in I. destruct I as [I E]. apply pair_eqb_eq in E. subst x'. exact I. }
    apply in_split in Hin. destruct Hin as (b1 & b2 & ->).
    apply Permutation_cons_app. apply IH. unfold perm_eqb. apply andb_true_iff. split.
    + apply Nat.eqb_eq. rewrite app_length in *. cbn [length] in HL. lia.
    + apply forallb_forall. intros y Hy. rewrite forallb_forall in Ha. specialize (Ha y Hy).
      apply Nat.eqb_eq in Ha. apply Nat.eqb_eq.
      rewrite count_cons, count_app, count_cons in Ha. rewrite count_app. lia.
Qed.

Definition cres_equiv (a b : cres) : Prop :=
  match a, b with CL l, CL l' => Permutation l l' | _, _ => a = b end.

Lemma cres_eqb_equiv a b : cres_eqb a b = true -> cres_equiv a b.
Proof.
  destruct a as [s|[s|]|x| |l|s], b as [s'|[s'|]|y| |l'|s']; cbn; intros H; try discriminate; try reflexivity.
  - apply N.eqb_eq in H. congruence.
  - apply N.eqb_eq in H. congruence.
  - apply eqb_prop in H. congruence.
  - apply perm_eqb_perm. exact H.
  - apply N.eqb_eq in H. congruence.
Qed.

Theorem spec_ok_sound : forall c o, spec_ok c o = true ->
  consistent (okeys (snd (fst o))) = true /\
  let x := fst (fst o) in
  let tr := fst (fst (fst (fst x))) in
  let s := run_spec c (map tid tr) in
  fst (fst (fst (fst s))) = tr /\
  Forall2 (Forall2 cres_equiv) (snd (fst (fst (fst s)))) (snd (fst (fst (fst x)))) /\
  snd (fst (fst s)) = snd (fst (fst x)) /\
  snd (fst s) = snd (fst x) /\
  Forall2 (@Permutation (N * N)) (snd s) (snd x).
Proof.
  intros c [[x h] n] H. unfold spec_ok in H. destruct x as [[[[tr res] done] cons] fin].
  apply andb_true_iff in H. destruct H as [HC H]. cbn [fst snd]. split; [exact HC|].
  change (map (fun e : N * N => N.to_nat (fst e)) tr) with (map tid tr) in H.
  destruct (run_spec c (map tid tr)) as [[[[tr' res'] done'] cons'] fin']. cbn [fst snd].
  unfold obs_eqb in H. repeat (apply andb_true_iff in H; destruct H as [H ?]).
  split; [apply (list_eqb_eq pair_eqb pair_eqb_eq); exact H|].
  split; [apply (list_eqb_Forall2 (list_eqb cres_eqb)) with (2 := H3); intros a b; apply list_eqb_Forall2; apply cres_eqb_equiv|].
  split; [apply eqb_prop; exact H2|].
  split; [apply (list_eqb_eq triple_eqb triple_eqb_eq); exact H1|].
  apply (list_eqb_Forall2 perm_eqb) with (2 := H0). apply perm_eqb_perm.
Qed.
