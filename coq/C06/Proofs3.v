(* C06 — refinement: each lock-sized primitive acts on [abs] (the concatenation of the shards) as the
   corresponding single-map operation of Spec.v; one model step = one reference-machine step. *)
From Coq Require Import List NArith Bool Arith Lia Permutation.
Import ListNotations.
Require Import MV.Common.Interleave MV.C06.Model MV.C06.Spec MV.C06.Lists MV.C06.Proofs MV.C06.Proofs2.
Local Open Scope nat_scope.

(* ---- generic list facts ---- *)
Lemma find_all_false {A} (f : A -> bool) m : (forall e, In e m -> f e = false) -> find f m = None.
Proof.
  induction m as [|x r IH]; intros H; cbn; [reflexivity|].
  rewrite (H x (or_introl eq_refl)). apply IH. intros e He. apply H. right. exact He.
Qed.

Lemma remove_first_ext {A} (f g : A -> bool) s : (forall e, In e s -> f e = g e) -> remove_first f s = remove_first g s.
Proof.
  induction s as [|x r IH]; intros H; cbn; [reflexivity|].
  rewrite (H x (or_introl eq_refl)). destruct (g x); [reflexivity|]. f_equal. apply IH. intros e He. apply H. right. exact He.
Qed.

Lemma remove_first_app_l {A} (g : A -> bool) a b : (exists e, In e a /\ g e = true) -> remove_first g (a ++ b) = remove_first g a ++ b.
Proof.
  induction a as [|x r IH]; intros (e & He & Hg); [destruct He|]. cbn.
  destruct (g x) eqn:E; [reflexivity|]. cbn [app]. f_equal. apply IH. destruct He as [->|He]; [congruence|eauto].
Qed.

Lemma remove_first_app_r {A} (g : A -> bool) a b : (forall e, In e a -> g e = false) -> remove_first g (a ++ b) = a ++ remove_first g b.
Proof.
  induction a as [|x r IH]; intros H; cbn; [reflexivity|].
  rewrite (H x (or_introl eq_refl)). f_equal. apply IH. intros e He. apply H. right. exact He.
Qed.

Lemma filter_all_true {A} (g : A -> bool) m : (forall e, In e m -> g e = true) -> filter g m = m.
Proof.
  induction m as [|x r IH]; intros H; cbn; [reflexivity|].
  rewrite (H x (or_introl eq_refl)). f_equal. apply IH. intros e He. apply H. right. exact He.
Qed.

Lemma filter_all_false {A} (g : A -> bool) m : (forall e, In e m -> g e = false) -> filter g m = [].
Proof.
  induction m as [|x r IH]; intros H; cbn; [reflexivity|].
  rewrite (H x (or_introl eq_refl)). apply IH. intros e He. apply H. right. exact He.
Qed.

Lemma perm_concat_set_nth {A} (e : A) i (l : list (list A)) : i < length l ->
  Permutation (concat (set_nth i (nth i l [] ++ [e]) l)) (concat l ++ [e]).
Proof.
  revert i. induction l as [|y r IH]; intros [|i] H; cbn [length concat set_nth nth] in *; try lia.
  - rewrite <- !app_assoc. apply Permutation_app_head. apply Permutation_app_comm.
  - rewrite <- app_assoc. apply Permutation_app_head. apply IH. lia.
Qed.

Section Banded.
  Context {A : Type}.
  Variable band : A -> nat.
  Definition banded (off : nat) (l : list (list A)) : Prop := forall j e, In e (nth j l []) -> band e = off + j.

  Lemma banded_tl off y r : banded off (y :: r) -> banded (S off) r.
  Proof. intros H j e He. rewrite (H (S j) e He). lia. Qed.
  Lemma banded_hd off y r : banded off (y :: r) -> forall e, In e y -> band e = off.
  Proof. intros H e He. rewrite (H 0 e He). lia. Qed.
  Lemma banded_concat off l e : banded off l -> In e (concat l) -> off <= band e.
  Proof. intros H He. apply in_concat_nth in He. destruct He as (j & _ & Hj). rewrite (H j e Hj). lia. Qed.

  Lemma filter_band_concat (f : A -> bool) l : forall off i, banded off l -> off <= i -> i < off + length l ->
    filter (fun e => if Nat.eqb (band e) i then f e else true) (concat l)
    = concat (set_nth (i - off) (filter f (nth (i - off) l [])) l).
  Proof.
    induction l as [|y r IH]; intros off i B Lo Hi; cbn [length] in Hi; [lia|].
    cbn [concat]. rewrite filter_app. destruct (Nat.eq_dec i off) as [->|Ne].
    - rewrite Nat.sub_diag. cbn [set_nth nth concat]. f_equal.
      + apply filter_ext_in. intros e He. rewrite (banded_hd _ _ _ B e He), Nat.eqb_refl. reflexivity.
      + apply filter_all_true. intros e He. pose proof (banded_concat _ _ e (banded_tl _ _ _ B) He).
        destruct (Nat.eqb (band e) off) eqn:E; [apply Nat.eqb_eq in E; lia|reflexivity].
    - destruct (i - off) as [|d] eqn:D; [lia|]. cbn [set_nth nth concat]. f_equal.
      + apply filter_all_true. intros e He. rewrite (banded_hd _ _ _ B e He).
        destruct (Nat.eqb off i) eqn:E; [apply Nat.eqb_eq in E; lia|reflexivity].
      + replace d with (i - S off) by lia. apply IH; [eapply banded_tl; exact B|lia|lia].
  Qed.

  Lemma band_concat l : forall off i, banded off l -> off <= i -> i < off + length l ->
    filter (fun e => Nat.eqb (band e) i) (concat l) = nth (i - off) l [].
  Proof.
    induction l as [|y r IH]; intros off i B Lo Hi; cbn [length] in Hi; [lia|].
    cbn [concat]. rewrite filter_app. destruct (Nat.eq_dec i off) as [->|Ne].
    - rewrite Nat.sub_diag. cbn [nth]. rewrite (filter_all_true _ y), (filter_all_false _ (concat r)); [apply app_nil_r| |].
      + intros e He. pose proof (banded_concat _ _ e (banded_tl _ _ _ B) He). apply Nat.eqb_neq. lia.
      + intros e He. rewrite (banded_hd _ _ _ B e He). apply Nat.eqb_refl.
    - destruct (i - off) as [|d] eqn:D; [lia|]. cbn [nth]. rewrite (filter_all_false _ y).
      + cbn [app]. replace d with (i - S off) by lia. apply IH; [eapply banded_tl; exact B|lia|lia].
      + intros e He. rewrite (banded_hd _ _ _ B e He). apply Nat.eqb_neq. lia.
  Qed.

  Lemma remove_first_concat (g : A -> bool) l : forall off i, banded off l -> off <= i -> i < off + length l ->
    (forall e, In e (concat l) -> g e = true -> band e = i) ->
    (exists e, In e (nth (i - off) l []) /\ g e = true) ->
    remove_first g (concat l) = concat (set_nth (i - off) (remove_first g (nth (i - off) l [])) l).
  Proof.
    induction l as [|y r IH]; intros off i B Lo Hi Hb Hex; cbn [length] in Hi; [lia|].
    cbn [concat]. destruct (Nat.eq_dec i off) as [->|Ne].
    - rewrite Nat.sub_diag in *. cbn [set_nth nth concat] in *. apply remove_first_app_l. exact Hex.
    - destruct (i - off) as [|d] eqn:D; [lia|]. cbn [set_nth nth concat] in *.
      rewrite remove_first_app_r.
      + f_equal. replace d with (i - S off) in * by lia. apply IH; [eapply banded_tl; exact B|lia|lia| |exact Hex].
        intros e He. apply Hb. apply in_app_iff. right. exact He.
      + intros e He. destruct (g e) eqn:G; [|reflexivity].
        pose proof (Hb e (proj2 (in_app_iff _ _ _) (or_introl He)) G). rewrite (banded_hd _ _ _ B e He) in H. lia.
  Qed.
End Banded.

Section Proofs3.
  Context {key : Type}.
  Variable hash : key -> N.
  Variable keq : key -> key -> bool.
  Variable k : N.
  Hypothesis keq_refl : forall a, keq a a = true.
  Hypothesis keq_sym : forall a b, keq a b = keq b a.
  Hypothesis keq_trans : forall a b c, keq a b = true -> keq b c = true -> keq a c = true.
  Hypothesis hash_respects_eq : forall a b, keq a b = true -> hash a = hash b.

  Notation reg := (@reg key).
  Notation entry := (@entry key).
  Notation event := (@event key).
  Notation op := (@op key).
  Notation local := (@local key).
  Notation ix := (shard_ix k).
  Notation Inv := (Inv hash keq k).
  Notation step := (step hash keq k).
  Notation sstep := (sstep hash keq k).
  Notation kq key0 := (fun e : entry => keq key0 (fst e)).
  Notation bnd := (band hash k).

  Lemma Inv_banded r kd : Inv r -> banded bnd 0 (shards_of r kd).
  Proof. intros HI j e He. cbn. exact (I_placed _ _ _ _ HI kd j e He). Qed.

  (* (a) the sharded lookup is the lookup in the single map *)
  Lemma ref_lookup r kd key0 : Inv r ->
    find (matches hash keq (hash key0) key0) (get_shard r kd (ix (hash key0))) = s_find keq (abs r kd) key0.
  Proof.
    intros HI. unfold s_find. destruct (find (matches _ _ _ _) _) as [e|] eqn:F.
    - destruct (lookup_some hash keq k r kd key0 e F) as [He Ke]. symmetry.
      apply (find_unique (kq key0) (abs r kd) e He Ke). apply (I_uniq _ _ _ _ HI).
    - symmetry. apply find_all_false. intros e He. eapply lookup_none; eauto.
  Qed.

  (* (b) insertion *)
  Lemma ref_insert r kd key0 : Inv r ->
    Permutation (abs (insert r kd (ix (hash key0)) key0) kd) (s_insert (abs r kd) (key0, next_sid r))
    /\ (forall kd', kd <> kd' -> abs (insert r kd (ix (hash key0)) key0) kd' = abs r kd')
    /\ next_sid (insert r kd (ix (hash key0)) key0) = (next_sid r + 1)%N.
  Proof.
    intros HI. unfold insert. split; [|split].
    - rewrite abs_add_log, abs_bump. unfold abs, s_insert, get_shard. rewrite shards_put_same.
      apply perm_concat_set_nth. rewrite (I_len _ _ _ _ HI). apply ix_lt.
    - intros kd' Hk. rewrite abs_add_log, abs_bump. apply abs_put_other. exact Hk.
    - cbn [next_sid add_log bump_sid]. rewrite next_put. reflexivity.
  Qed.

  (* (c) removal of the found entry *)
  Lemma ref_remove r kd key0 found : Inv r ->
    find (matches hash keq (hash key0) key0) (get_shard r kd (ix (hash key0))) = Some found ->
    abs (remove hash keq r kd (ix (hash key0)) (hash key0) key0 found) kd = s_remove keq (abs r kd) key0
    /\ forall kd', kd <> kd' -> abs (remove hash keq r kd (ix (hash key0)) (hash key0) key0 found) kd' = abs r kd'.
  Proof.
    intros HI F. unfold remove. split.
    - rewrite abs_add_log. unfold abs, s_remove, get_shard. rewrite shards_put_same.
      set (i := ix (hash key0)). set (l := shards_of r kd).
      assert (E : remove_first (matches hash keq (hash key0) key0) (nth i l []) = remove_first (kq key0) (nth i l [])).
      { apply remove_first_ext. intros e He. unfold matches. destruct (keq key0 (fst e)) eqn:K; [|apply andb_false_r].
        rewrite <- (hash_respects_eq _ _ K), N.eqb_refl. reflexivity. }
      rewrite E. symmetry. pose proof (remove_first_concat bnd (kq key0) l 0 i) as X. rewrite Nat.sub_0_r in X.
      apply X; [apply Inv_banded; exact HI|lia| | |].
      + unfold l. rewrite (I_len _ _ _ _ HI). cbn. apply ix_lt.
      + intros e He K. unfold band. rewrite <- (hash_respects_eq _ _ K). reflexivity.
      + apply find_some in F. destruct F as [Hin M]. exists found. split; [exact Hin|].
        unfold matches in M. apply andb_true_iff in M. apply M.
    - intros kd' Hk. rewrite abs_add_log. apply abs_put_other. exact Hk.
  Qed.

  (* (d) one step of a sweep (retain on one shard; clear = retain nothing) *)
  Lemma ref_filter r kd i f : Inv r -> i < nshards k ->
    abs (filter_shard r kd i f) kd = s_filter_band hash k (abs r kd) i f
    /\ forall kd', kd <> kd' -> abs (filter_shard r kd i f) kd' = abs r kd'.
  Proof.
    intros HI Hi. rewrite filter_is_shrink. unfold shrink. split.
    - rewrite abs_add_log. unfold abs, s_filter_band, get_shard. rewrite shards_put_same. symmetry.
      pose proof (filter_band_concat bnd f (shards_of r kd) 0 i) as X. rewrite Nat.sub_0_r in X.
      apply X; [apply Inv_banded; exact HI|lia|].
      rewrite (I_len _ _ _ _ HI). exact Hi.
    - intros kd' Hk. rewrite abs_add_log. apply abs_put_other. exact Hk.
  Qed.

  (* (e) one step of a visit *)
  Lemma ref_band r kd i : Inv r -> i < nshards k -> get_shard r kd i = s_band hash k (abs r kd) i.
  Proof.
    intros HI Hi. unfold get_shard, s_band, abs. symmetry.
    pose proof (band_concat bnd (shards_of r kd) 0 i) as X. rewrite Nat.sub_0_r in X.
    apply X; [apply Inv_banded; exact HI|lia|].
    rewrite (I_len _ _ _ _ HI). exact Hi.
  Qed.
End Proofs3.
