(* C06 — executable entry points for the correspondence check (operation histories = one thread,
   empty schedule; schedule replay = several threads). *)
From Coq Require Import List NArith Bool Arith.
Import ListNotations.
Require Export MV.Common.Interleave MV.C06.Model MV.C06.Spec.
Open Scope N_scope.

(* a concrete key: (class, variant, hash reported by the implementation for that real key).
   Keys of one class are ==-equal real keys built differently; different classes are different keys. *)
Definition ckey := (N * N * N)%type.
Definition c_class (x : ckey) : N := fst (fst x).
Definition c_hash (x : ckey) : N := snd x.
Definition c_keq (a b : ckey) : bool := c_class a =? c_class b.

Inductive cop :=
| CCreate (kd : kind) (x : ckey) | CGet (kd : kind) (x : ckey) | CDelete (kd : kind) (x : ckey)
| CRetain (kd : kind) (keep : list N) | CClear | CVisit (kd : kind) | CHandles (kd : kind)
| CCreateP (kd : kind) (x : ckey).      (* get_or_create whose closure panics (caught by the driver) *)

Definition to_op (o : cop) : op (key := ckey) :=
  match o with
  | CCreate kd x => OGetOrCreate kd x
  | CGet kd x => OGet kd x
  | CDelete kd x => ODelete kd x
  | CRetain kd keep => ORetain kd (fun x _ => existsb (N.eqb (c_class x)) keep)
  | CClear => OClear
  | CVisit kd => OVisit kd
  | CHandles kd => OHandles kd
  | CCreateP kd x => OGetOrCreateP kd x
  end.

(* case: k (2^k shards), per-thread programs, schedule *)
Definition case := (N * list (list cop) * list N)%type.

Inductive cres := CS (s : N) | CO (o : option N) | CB (b : bool) | CU | CL (l : list (N * N)) | CQ (s : N).   (* CQ: the closure ran on s and panicked *)

(* observable: step trace (thread, site); per-thread results (oldest first); everybody finished;
   storage constructions in order (kind code, class of the key handed to Storage, id); final listing
   per kind (class, id); the real hash of every key used (per thread, per call); the shard count *)
Definition OUT := (list (N * N) * list (list cres) * bool * list (N * N * N) * list (list (N * N))
                   * list (list (option ckey)) * N)%type.

Definition kind_code (kd : kind) : N := match kd with KCounter => 0 | KGauge => 1 | KHistogram => 2 end.
Definition listing (l : list (@entry ckey)) : list (N * N) := map (fun e => (c_class (fst e), snd e)) l.
Definition to_cres (x : res (key := ckey)) : cres :=
  match x with
  | RSid s => CS s | ROpt o => CO o | RBool b => CB b | RUnit => CU | RList l => CL (listing l) | RPanicked s => CQ s
  end.
Definition key_of (o : cop) : option ckey :=
  match o with CCreate _ x | CGet _ x | CDelete _ x | CCreateP _ x => Some x | _ => None end.

Definition rr_fuel : nat := N.to_nat 6000.

Definition progs_of (c : case) : list (list (op (key := ckey))) := map (map to_op) (snd (fst c)).
Definition k_of (c : case) : N := fst (fst c).

(* the keys a case names, per thread and call; and the hash function the machines run with: the
   hash reported for the FIRST key of the same class named by the case (so it is a function of the
   class by construction; when the reported hashes are consistent -- checked by [spec_ok] -- it is
   simply each key's own reported hash) *)
Definition okeys (h : list (list (option ckey))) : list ckey :=
  flat_map (flat_map (fun o => match o with Some x => [x] | None => [] end)) h.
Definition case_keys (c : case) : list (list (option ckey)) := map (map key_of) (snd (fst c)).
Definition class_hash (tbl : list ckey) (x : ckey) : N :=
  match find (fun y => c_class y =? c_class x) tbl with Some y => c_hash y | None => 0 end.
Definition hash_of (c : case) : ckey -> N := class_hash (okeys (case_keys c)).
Definition consistent (tbl : list ckey) : bool :=
  forallb (fun x => forallb (fun y => implb (c_class x =? c_class y) (c_hash x =? c_hash y)) tbl) tbl.

Definition cons_of_log (lg : list (@event ckey)) : list (N * N * N) :=
  rev (flat_map (fun e => match e with EvCreate kd x s => [(kind_code kd, c_class x, s)] | _ => [] end) lg).

Definition run_case (c : case) : OUT :=
  let k := k_of c in
  let '(cf, tr) := exec_full (step (hash_of c) c_keq k) site rr_fuel (init_config k (progs_of c)) (map N.to_nat (snd c)) in
  let r := fst cf in
  (tr, map (fun l => map to_cres (rev (results l))) (snd cf), all_done (step (hash_of c) c_keq k) cf,
   cons_of_log (log r),
   [listing (abs r KCounter); listing (abs r KGauge); listing (abs r KHistogram)],
   case_keys c, 2 ^ k).

(* ---- equality on outputs: listings are compared as multisets (hash-map iteration order) ---- *)
Fixpoint list_eqb {A} (eqb : A -> A -> bool) (a b : list A) : bool :=
  match a, b with
  | [], [] => true
  | x :: r, y :: r' => eqb x y && list_eqb eqb r r'
  | _, _ => false
  end.
Definition pair_eqb (a b : N * N) : bool := (fst a =? fst b) && (snd a =? snd b).
Definition triple_eqb (a b : N * N * N) : bool := pair_eqb (fst a) (fst b) && (snd a =? snd b).
Definition count_pair (x : N * N) (l : list (N * N)) : nat := length (filter (pair_eqb x) l).
Definition perm_eqb (a b : list (N * N)) : bool :=
  Nat.eqb (length a) (length b) && forallb (fun x => Nat.eqb (count_pair x a) (count_pair x b)) a.
Definition opt_eqb {A} (eqb : A -> A -> bool) (a b : option A) : bool :=
  match a, b with None, None => true | Some x, Some y => eqb x y | _, _ => false end.
Definition cres_eqb (a b : cres) : bool :=
  match a, b with
  | CS s, CS s' => s =? s'
  | CO o, CO o' => opt_eqb N.eqb o o'
  | CB x, CB y => Bool.eqb x y
  | CU, CU => true
  | CL l, CL l' => perm_eqb l l'
  | CQ s, CQ s' => s =? s'
  | _, _ => false
  end.

Definition obs_eqb (a b : list (N * N) * list (list cres) * bool * list (N * N * N) * list (list (N * N))) : bool :=
  let '(t1, r1, d1, c1, f1) := a in let '(t2, r2, d2, c2, f2) := b in
  list_eqb pair_eqb t1 t2 && list_eqb (list_eqb cres_eqb) r1 r2 && Bool.eqb d1 d2
  && list_eqb triple_eqb c1 c2 && list_eqb perm_eqb f1 f2.

Definition out_eqb (a b : OUT) : bool :=
  let '(x1, h1, n1) := a in let '(x2, h2, n2) := b in
  obs_eqb x1 x2 && list_eqb (list_eqb (opt_eqb triple_eqb)) h1 h2 && (n1 =? n2).

(* ---- the property on an observed run -------------------------------------------------------
   The observed step trace fixes the order in which the threads took their locks.  Replay exactly
   that order on the reference machine of Spec.v (ONE map per kind, lookups by key equality only,
   storage ids handed out in construction order): every return value, every listing, the sequence of
   storage constructions (kind, class, id), the sites and the final per-kind listings must be what
   the single map gives.  In particular: a get_or_create on a live class returns the live storage and
   constructs nothing; a second storage for a class is constructed only after that class was removed;
   equal keys built differently hit the same entry; different kinds / classes never share an id;
   listings report each live class exactly once.                                                 *)
Definition run_spec (c : case) (sched : list nat) :=
  let k := k_of c in
  let '(cf, tr) := exec (sstep (hash_of c) c_keq k) site (init_sreg, map init_local (progs_of c)) sched in
  let r := fst cf in
  (tr, map (fun l => map to_cres (rev (results l))) (snd cf), all_done (sstep (hash_of c) c_keq k) cf,
   rev (map (fun '(kd, x, s) => (kind_code kd, c_class x, s)) (s_cons r)),
   [listing (m_c r); listing (m_g r); listing (m_h r)]).

Definition spec_ok (c : case) (o : OUT) : bool :=
  let '(x, h, _) := o in
  let '(tr, _, _, _, _) := x in
  consistent (okeys h)          (* equal keys (one class) were reported with equal hashes *)
  && obs_eqb (run_spec c (map (fun e => N.to_nat (fst e)) tr)) x.

Definition known_class (c : case) : option N := None.

Definition verdicts (l : list (N * case * OUT)) : list (N * bool * bool * option N) :=
  map (fun '(i, c, o) => (i, out_eqb (run_case c) o, spec_ok c o, known_class c)) l.
