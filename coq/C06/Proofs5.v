(* C06 — reachable configurations; delete / visit / handles at quiescence. *)
From Coq Require Import List NArith Bool Arith Lia.
Import ListNotations.
Require Import MV.Common.Interleave MV.C06.Model MV.C06.Spec MV.C06.Lists MV.C06.Proofs MV.C06.Proofs2 MV.C06.Proofs3 MV.C06.Proofs4.
Local Open Scope nat_scope.

Section Proofs5.
  Context {key : Type}.
  Variable hash : key -> N.
  Variable keq : key -> key -> bool.
  Variable k : N.
  Hypothesis KC : key_contract hash keq.

  Notation reg := (@reg key).
  Notation entry := (@entry key).
  Notation op := (@op key).
  Notation local := (@local key).
  Notation step := (step hash keq k).
  Notation Inv := (Inv hash keq k).
  Notation InvAll := (InvAll hash keq k).
  Notation kq key0 := (fun e : entry => keq key0 (fst e)).

  Let keq_refl := proj1 KC.
  Let keq_sym := proj1 (proj2 KC).
  Let keq_trans := proj1 (proj2 (proj2 KC)).
  Let hash_ok := proj2 (proj2 (proj2 KC)).

  Lemma init_InvAll : InvAll (init_reg k).
  Proof.
    split; [apply init_Inv|]. split.
    - intros newer kd k1 s1 older E. cbn in E. destruct newer; discriminate.
    - intros newer kd k2 s2 mid k1 s1 older E. destruct newer; discriminate.
  Qed.

  Lemma reachable_InvAll (ps : list (list op)) sched :
    InvAll (fst (fst (exec step site (init_config k ps) sched))).
  Proof.
    apply (invariant_all_schedules step site (fun c => InvAll (fst c))).
    - intros s ls t l s' l' HI _ Hs. cbn [fst] in *. eapply step_InvAll; eauto.
    - cbn. apply init_InvAll.
  Qed.

  Lemma delete_exact r (l : local) j acc kd key0 rest : Inv r -> pcl l = Run j acc -> todo l = ODelete kd key0 :: rest ->
    exists r', step r l = Some (r', finish l (RBool (match s_find keq (abs r kd) key0 with Some _ => true | None => false end)))
      /\ abs r' kd = s_remove keq (abs r kd) key0
      /\ (forall kd', kd <> kd' -> abs r' kd' = abs r kd')
      /\ cnt keq (abs r' kd) key0 = 0
      /\ (forall key1, keq key0 key1 = false -> cnt keq (abs r' kd) key1 = cnt keq (abs r kd) key1).
  Proof.
    intros HI Hpc Htodo. unfold Model.step. rewrite Hpc, Htodo. cbv zeta.
    pose proof (ref_lookup hash keq k hash_ok r kd key0 HI) as RL.
    destruct (find (matches hash keq (hash key0) key0) (get_shard r kd (shard_ix k (hash key0)))) as [e|] eqn:F.
    - rewrite <- RL. eexists. split; [reflexivity|].
      destruct (ref_remove hash keq k hash_ok r kd key0 e HI F) as [E1 E2].
      split; [exact E1|]. split; [exact E2|]. rewrite E1. unfold s_remove, s_find in *.
      pose proof (find_some _ _ (eq_sym RL)) as [_ Ke].
      split.
      + pose proof (remove_first_cf (kq key0) (kq key0) (abs r kd) e (eq_sym RL)) as C. cbv beta in C. rewrite Ke in C.
        pose proof (I_uniq _ _ _ _ HI kd key0) as U. rewrite cnt_cf in U.
        assert (Z : cf (kq key0) (remove_first (kq key0) (abs r kd)) = 0) by lia. exact Z.
      + intros key1 K1. pose proof (remove_first_cf (kq key0) (kq key1) (abs r kd) e (eq_sym RL)) as C. cbv beta in C.
        assert (keq key1 (fst e) = false).
        { destruct (keq key1 (fst e)) eqn:X; [|reflexivity]. rewrite <- K1. symmetry. eapply keq_trans; [exact Ke|]. rewrite keq_sym. exact X. }
        rewrite H in C.
        assert (Z : cf (kq key1) (remove_first (kq key0) (abs r kd)) = cf (kq key1) (abs r kd)) by lia. exact Z.
    - rewrite <- RL. eexists. split; [reflexivity|]. unfold s_remove, s_find in *.
      assert (N : forall e, In e (abs r kd) -> keq key0 (fst e) = false) by (apply find_none; symmetry; exact RL).
      split; [symmetry; apply remove_first_none; exact N|]. split; [reflexivity|]. split; [|reflexivity].
      rewrite cnt_cf. apply cf_zero. exact N.
  Qed.

  Lemma visit_exact r (l : local) kd rest : Inv r -> pcl l = Run 0 [] -> todo l = OVisit kd :: rest ->
    solo hash keq k (nshards k) r l = Some (r, finish l (RList (abs r kd))).
  Proof.
    intros HI Hpc Htodo.
    assert (P : 1 <= nshards k).
    { unfold nshards. assert (2 ^ k <> 0)%N by (apply N.pow_nonzero; discriminate). lia. }
    rewrite (sweep_visit_loop hash keq k false r kd rest (I_len _ _ _ _ HI kd) (nshards k) 0 [] l); auto.
  Qed.

  Lemma handles_exact r (l : local) kd rest : Inv r -> pcl l = Run 0 [] -> todo l = OHandles kd :: rest ->
    solo hash keq k (nshards k) r l = Some (r, finish l (RList (abs r kd))).
  Proof.
    intros HI Hpc Htodo.
    assert (P : 1 <= nshards k).
    { unfold nshards. assert (2 ^ k <> 0)%N by (apply N.pow_nonzero; discriminate). lia. }
    rewrite (sweep_visit_loop hash keq k true r kd rest (I_len _ _ _ _ HI kd) (nshards k) 0 [] l); auto.
    cbn [skipn app]. fold (abs r kd). rewrite (collect_uniq keq keq_refl); [reflexivity|]. apply (I_uniq _ _ _ _ HI).
  Qed.

  (* whole-call effect of a retain / clear sweep on the single map: the band-by-band filters add up *)
  Lemma band_sweep (f : entry -> bool) (m : list entry) n : (forall e, In e m -> band hash k e < n) ->
    fold_left (fun m j => s_filter_band hash k m j f) (seq 0 n) m = filter f m.
  Proof.
    intros B.
    assert (G : forall n0 m0, fold_left (fun m j => s_filter_band hash k m j f) (seq 0 n0) m0
                = filter (fun e => if Nat.ltb (band hash k e) n0 then f e else true) m0).
    { induction n0 as [|n0 IH]; intros m0.
      - cbn. symmetry. apply filter_all_true. reflexivity.
      - rewrite seq_S, fold_left_app, IH. cbn [fold_left plus]. unfold s_filter_band.
        induction m0 as [|e r IHr]; cbn [filter]; [reflexivity|].
        destruct (Nat.ltb (band hash k e) n0) eqn:L1.
        + apply Nat.ltb_lt in L1. assert (L2 : Nat.ltb (band hash k e) (S n0) = true) by (apply Nat.ltb_lt; lia). rewrite L2.
          destruct (f e); cbn [filter]; [|exact IHr].
          assert (L3 : Nat.eqb (band hash k e) n0 = false) by (apply Nat.eqb_neq; lia). rewrite L3. f_equal. exact IHr.
        + apply Nat.ltb_ge in L1. cbn [filter]. destruct (Nat.eqb (band hash k e) n0) eqn:L3.
          * apply Nat.eqb_eq in L3. assert (L2 : Nat.ltb (band hash k e) (S n0) = true) by (apply Nat.ltb_lt; lia). rewrite L2.
            destruct (f e); [f_equal|]; exact IHr.
          * apply Nat.eqb_neq in L3. assert (L2 : Nat.ltb (band hash k e) (S n0) = false) by (apply Nat.ltb_ge; lia). rewrite L2.
            f_equal. exact IHr. }
    rewrite G. apply filter_ext_in. intros e He. specialize (B e He). apply Nat.ltb_lt in B. rewrite B. reflexivity.
  Qed.
  Lemma unique_storage_all_schedules (ps : list (list op)) sched :
    let r := fst (fst (exec step site (init_config k ps) sched)) in
    (forall kd key0, cnt keq (abs r kd) key0 <= 1) /\
    (forall s, scnt (all_entries r) s <= 1) /\
    (forall e, In e (all_entries r) -> (snd e < next_sid r)%N) /\
    (forall kd key0, ncreate keq (log r) kd key0 = nremove keq (log r) kd key0 + cnt keq (abs r kd) key0) /\
    (forall newer kd k2 s2 mid k1 s1 older,
       log r = newer ++ EvRet kd k2 s2 :: mid ++ EvRet kd k1 s1 :: older ->
       keq k1 k2 = true -> (forall ev, In ev mid -> is_remove keq kd k1 ev = false) -> s1 = s2) /\
    (forall newer kd k1 s1 older, log r = newer ++ EvRet kd k1 s1 :: older ->
       (forall ev, In ev newer -> is_remove keq kd k1 ev = false) -> has keq (abs r kd) k1 s1).
  Proof.
    intros r. destruct (reachable_InvAll ps sched) as (HI & HP & HQ). fold r in HI, HP, HQ.
    destruct HI as [H1 H2 H3 H4 H5 H6]. repeat split; try assumption.
  Qed.

  Lemma refines_one_map_per_kind r : Inv r ->
    (forall kd key0, find (matches hash keq (hash key0) key0) (get_shard r kd (shard_ix k (hash key0)))
                     = s_find keq (abs r kd) key0) /\
    (forall kd key0, let r' := insert r kd (shard_ix k (hash key0)) key0 in
       Permutation.Permutation (abs r' kd) (s_insert (abs r kd) (key0, next_sid r))
       /\ (forall kd', kd <> kd' -> abs r' kd' = abs r kd') /\ next_sid r' = (next_sid r + 1)%N) /\
    (forall kd key0 found,
       find (matches hash keq (hash key0) key0) (get_shard r kd (shard_ix k (hash key0))) = Some found ->
       let r' := remove hash keq r kd (shard_ix k (hash key0)) (hash key0) key0 found in
       abs r' kd = s_remove keq (abs r kd) key0 /\ (forall kd', kd <> kd' -> abs r' kd' = abs r kd')) /\
    (forall kd i f, i < nshards k ->
       abs (filter_shard r kd i f) kd = s_filter_band hash k (abs r kd) i f
       /\ (forall kd', kd <> kd' -> abs (filter_shard r kd i f) kd' = abs r kd')) /\
    (forall kd i, i < nshards k -> get_shard r kd i = s_band hash k (abs r kd) i).
  Proof.
    intros HI. split; [|split; [|split; [|split]]].
    - intros kd key0. apply ref_lookup; assumption.
    - intros kd key0. exact (ref_insert hash keq k r kd key0 HI).
    - intros kd key0 found F. apply ref_remove; assumption.
    - intros kd i f Hi. exact (ref_filter hash keq k r kd i f HI Hi).
    - intros kd i Hi. exact (ref_band hash keq k r kd i HI Hi).
  Qed.

  Lemma listing_exact r : Inv r ->
    (forall (l : local) kd rest, pcl l = Run 0 [] -> todo l = OVisit kd :: rest ->
       solo hash keq k (nshards k) r l = Some (r, finish l (RList (abs r kd)))) /\
    (forall (l : local) kd rest, pcl l = Run 0 [] -> todo l = OHandles kd :: rest ->
       solo hash keq k (nshards k) r l = Some (r, finish l (RList (abs r kd)))) /\
    (forall kd key0, cnt keq (abs r kd) key0 <= 1) /\
    (forall (l : local) j acc kd key0 rest, pcl l = Run j acc -> todo l = ODelete kd key0 :: rest ->
       exists r', step r l = Some (r', finish l (RBool (match s_find keq (abs r kd) key0 with Some _ => true | None => false end)))
         /\ abs r' kd = s_remove keq (abs r kd) key0
         /\ (forall kd', kd <> kd' -> abs r' kd' = abs r kd')
         /\ cnt keq (abs r' kd) key0 = 0
         /\ (forall key1, keq key0 key1 = false -> cnt keq (abs r' kd) key1 = cnt keq (abs r kd) key1)) /\
    (forall kd i f, i < nshards k -> abs (filter_shard r kd i f) kd = s_filter_band hash k (abs r kd) i f) /\
    (forall kd (f : entry -> bool),
       fold_left (fun m j => s_filter_band hash k m j f) (seq 0 (nshards k)) (abs r kd) = filter f (abs r kd)).
  Proof.
    intros HI. split; [|split; [|split; [|split; [|split]]]].
    - intros l kd rest. apply visit_exact. exact HI.
    - intros l kd rest. apply handles_exact. exact HI.
    - apply (I_uniq _ _ _ _ HI).
    - intros l j acc kd key0 rest. apply delete_exact. exact HI.
    - intros kd i f Hi. exact (proj1 (ref_filter hash keq k r kd i f HI Hi)).
    - intros kd f. apply band_sweep. intros e _. unfold band. apply ix_lt.
  Qed.
End Proofs5.
