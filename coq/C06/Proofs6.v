(* C06 — retain / clear run alone: the call performs exactly the filter steps of its plan, and their
   composition is the single-map filter (retain) / the empty registry (clear). *)
From Coq Require Import List NArith Bool Arith Lia.
Import ListNotations.
Require Import MV.Common.Interleave MV.C06.Model MV.C06.Spec MV.C06.Lists MV.C06.Proofs MV.C06.Proofs2 MV.C06.Proofs3 MV.C06.Proofs4 MV.C06.Proofs5.
Local Open Scope nat_scope.

Lemma skipn_nth_error {A} (l : list A) j x : nth_error l j = Some x -> skipn j l = x :: skipn (S j) l.
Proof.
  revert j. induction l as [|y r IH]; intros [|j] H; cbn in H; try discriminate.
  - inversion H. reflexivity.
  - cbn [skipn]. apply IH. exact H.
Qed.

Section Proofs6.
  Context {key : Type}.
  Variable hash : key -> N.
  Variable keq : key -> key -> bool.
  Variable k : N.
  Hypothesis KC : key_contract hash keq.

  Notation reg := (@reg key).
  Notation entry := (@entry key).
  Notation op := (@op key).
  Notation local := (@local key).
  Notation step := (step hash keq k).
  Notation Inv := (Inv hash keq k).
  Notation solo := (solo hash keq k).

  Definition apply_plan (F : entry -> bool) (pl : list (kind * nat)) (r : reg) : reg :=
    fold_left (fun r x => filter_shard r (fst x) (snd x) F) pl r.

  Definition sweep_fun (o : op) : option (entry -> bool) :=
    match o with
    | ORetain _ p => Some (fun e => p (fst e) (snd e))
    | OClear => Some (fun _ => false)
    | _ => None
    end.

  Lemma sweep_loop (o : op) F rest : sweep_fun o = Some F ->
    forall m j acc (r : reg) (l : local), j + m = length (plan k o) -> 1 <= m -> pcl l = Run j acc -> todo l = o :: rest ->
      solo m r l = Some (apply_plan F (skipn j (plan k o)) r, finish l RUnit).
  Proof.
    intros HF. induction m as [|m IH]; intros j acc r l Hj Hm Hpc Htodo; [lia|].
    destruct (nth_error (plan k o) j) as [[kd' i]|] eqn:P; [|apply nth_error_None in P; lia].
    rewrite (skipn_nth_error _ _ _ P). cbn [solo]. unfold Model.step. rewrite Hpc, Htodo.
    destruct o as [kd key0|kd key0|kd key0|kd p| |kd|kd|kd key0]; cbn [sweep_fun] in HF; try discriminate;
      inversion HF; subst F; rewrite P; unfold sweep_next;
      destruct (Nat.ltb (S j) (length (plan k _))) eqn:LT.
    - apply Nat.ltb_lt in LT. rewrite (IH (S j) [] _ (goto l (S j) [])); try reflexivity; try lia. exact Htodo.
    - apply Nat.ltb_ge in LT. assert (m = 0) by lia. subst m. cbn [solo]. rewrite skipn_all2 by lia. reflexivity.
    - apply Nat.ltb_lt in LT. rewrite (IH (S j) [] _ (goto l (S j) [])); try reflexivity; try lia. exact Htodo.
    - apply Nat.ltb_ge in LT. assert (m = 0) by lia. subst m. cbn [solo]. rewrite skipn_all2 by lia. reflexivity.
  Qed.

  Lemma apply_plan_kind F kd js : forall r : reg, Inv r -> (forall j, In j js -> j < nshards k) ->
    Inv (apply_plan F (map (pair kd) js) r) /\
    abs (apply_plan F (map (pair kd) js) r) kd = fold_left (fun m j => s_filter_band hash k m j F) js (abs r kd) /\
    (forall kd', kd <> kd' -> abs (apply_plan F (map (pair kd) js) r) kd' = abs r kd').
  Proof.
    induction js as [|j js IH]; intros r HI Hjs; cbn [map apply_plan fold_left fst snd]; [auto|].
    assert (Lj : j < nshards k) by (apply Hjs; left; reflexivity).
    destruct (ref_filter hash keq k r kd j F HI Lj) as [E1 E2].
    assert (HI1 : Inv (filter_shard r kd j F)) by (apply filter_Inv; assumption).
    destruct (IH (filter_shard r kd j F) HI1 (fun j' H => Hjs j' (or_intror H))) as (A & B & C).
    split; [exact A|]. split.
    - unfold apply_plan in B. rewrite B, E1. reflexivity.
    - intros kd' Nk. unfold apply_plan in C. rewrite (C kd' Nk). apply E2. exact Nk.
  Qed.

  Lemma all_shards_sweep F kd (r : reg) : Inv r ->
    Inv (apply_plan F (all_shards k kd) r) /\
    abs (apply_plan F (all_shards k kd) r) kd = filter F (abs r kd) /\
    (forall kd', kd <> kd' -> abs (apply_plan F (all_shards k kd) r) kd' = abs r kd').
  Proof.
    intros HI. unfold all_shards.
    destruct (apply_plan_kind F kd (seq 0 (nshards k)) r HI) as (A & B & C).
    { intros j Hj. apply in_seq in Hj. lia. }
    split; [exact A|]. split; [|exact C]. rewrite B. apply band_sweep.
    intros e _. unfold band. apply ix_lt.
  Qed.

  Lemma nshards_pos : 1 <= nshards k.
  Proof. unfold nshards. assert (2 ^ k <> 0)%N by (apply N.pow_nonzero; discriminate). lia. Qed.

  Lemma retain_exact r (l : local) kd p rest : Inv r -> pcl l = Run 0 [] -> todo l = ORetain kd p :: rest ->
    exists r', solo (nshards k) r l = Some (r', finish l RUnit)
      /\ abs r' kd = filter (fun e => p (fst e) (snd e)) (abs r kd)
      /\ (forall kd', kd <> kd' -> abs r' kd' = abs r kd') /\ Inv r'.
  Proof.
    intros HI Hpc Htodo.
    pose proof (sweep_loop (ORetain kd p) _ rest eq_refl (nshards k) 0 [] r l) as S.
    cbn [plan skipn] in S. rewrite all_shards_length in S. specialize (S eq_refl nshards_pos Hpc Htodo).
    destruct (all_shards_sweep (fun e => p (fst e) (snd e)) kd r HI) as (A & B & C).
    eexists. split; [exact S|]. auto.
  Qed.

  Lemma clear_exact r (l : local) rest : Inv r -> pcl l = Run 0 [] -> todo l = OClear :: rest ->
    exists r', solo (3 * nshards k) r l = Some (r', finish l RUnit) /\ (forall kd, abs r' kd = []) /\ Inv r'.
  Proof.
    intros HI Hpc Htodo.
    pose proof (sweep_loop OClear _ rest eq_refl (3 * nshards k) 0 [] r l) as S.
    cbn [plan skipn] in S. rewrite !app_length, !all_shards_length in S.
    pose proof nshards_pos as NP. specialize (S ltac:(lia) ltac:(lia) Hpc Htodo).
    set (F := fun _ : entry => false) in *.
    unfold apply_plan in S. rewrite !fold_left_app in S.
    fold (apply_plan F (all_shards k KCounter) r) in S.
    destruct (all_shards_sweep F KCounter r HI) as (A1 & B1 & C1).
    set (r1 := apply_plan F (all_shards k KCounter) r) in *.
    fold (apply_plan F (all_shards k KGauge) r1) in S.
    destruct (all_shards_sweep F KGauge r1 A1) as (A2 & B2 & C2).
    set (r2 := apply_plan F (all_shards k KGauge) r1) in *.
    fold (apply_plan F (all_shards k KHistogram) r2) in S.
    destruct (all_shards_sweep F KHistogram r2 A2) as (A3 & B3 & C3).
    eexists. split; [exact S|]. split; [|exact A3].
    assert (Z : forall m : list entry, filter F m = []) by (intros m; apply filter_all_false; reflexivity).
    intros [].
    - rewrite (C3 KCounter), (C2 KCounter), B1 by discriminate. apply Z.
    - rewrite (C3 KGauge), B2 by discriminate. apply Z.
    - rewrite B3. apply Z.
  Qed.
  Lemma listing_exact_full r : Inv r ->
    (forall (l : local) kd rest, pcl l = Run 0 [] -> todo l = OVisit kd :: rest ->
       solo (nshards k) r l = Some (r, finish l (RList (abs r kd)))) /\
    (forall (l : local) kd rest, pcl l = Run 0 [] -> todo l = OHandles kd :: rest ->
       solo (nshards k) r l = Some (r, finish l (RList (abs r kd)))) /\
    (forall kd key0, cnt keq (abs r kd) key0 <= 1) /\
    (forall (l : local) j acc kd key0 rest, pcl l = Run j acc -> todo l = ODelete kd key0 :: rest ->
       exists r', step r l = Some (r', finish l (RBool (match s_find keq (abs r kd) key0 with Some _ => true | None => false end)))
         /\ abs r' kd = s_remove keq (abs r kd) key0
         /\ (forall kd', kd <> kd' -> abs r' kd' = abs r kd')
         /\ cnt keq (abs r' kd) key0 = 0
         /\ (forall key1, keq key0 key1 = false -> cnt keq (abs r' kd) key1 = cnt keq (abs r kd) key1)) /\
    (forall (l : local) kd p rest, pcl l = Run 0 [] -> todo l = ORetain kd p :: rest ->
       exists r', solo (nshards k) r l = Some (r', finish l RUnit)
         /\ abs r' kd = filter (fun e => p (fst e) (snd e)) (abs r kd)
         /\ (forall kd', kd <> kd' -> abs r' kd' = abs r kd') /\ Inv r') /\
    (forall (l : local) rest, pcl l = Run 0 [] -> todo l = OClear :: rest ->
       exists r', solo (3 * nshards k) r l = Some (r', finish l RUnit) /\ (forall kd, abs r' kd = []) /\ Inv r').
  Proof.
    intros HI. destruct (listing_exact hash keq k KC r HI) as (A & B & C & D & _).
    split; [exact A|]. split; [exact B|]. split; [exact C|]. split; [exact D|]. split.
    - intros l kd p rest. apply retain_exact. exact HI.
    - intros l rest. apply clear_exact. exact HI.
  Qed.
  (* a get_or_create whose closure panics changes the registry exactly as the same call with a returning
     closure (on the create path the entry IS inserted before the closure runs); only the outcome differs.
     Lock poisoning is not part of the state: every accessor recovers the guard, so every later operation
     behaves as on the same registry reached by the returning call. *)
  Lemma panicking_closure_as_returning_call (r : reg) (l l' : local) kd key0 rest rest' :
    pcl l = pcl l' -> todo l = OGetOrCreateP kd key0 :: rest -> todo l' = OGetOrCreate kd key0 :: rest' ->
    match step r l, step r l' with
    | Some (r1, l1), Some (r2, l2) =>
        r1 = r2 /\ pcl l1 = pcl l2 /\
        ((results l1 = results l /\ results l2 = results l') \/
         (exists s, results l1 = RPanicked s :: results l /\ results l2 = RSid s :: results l'))
    | _, _ => False
    end.
  Proof.
    intros Hp Ht Ht'. unfold Model.step. rewrite Hp, Ht, Ht'. destruct (pcl l') as [|j acc].
    - cbn. auto.
    - cbv zeta. destruct (find _ _) as [e|].
      + cbn. split; [reflexivity|]. split; [reflexivity|]. right. exists (snd e). auto.
      + destruct j; cbn.
        * auto.
        * split; [reflexivity|]. split; [reflexivity|]. right. exists (next_sid r). auto.
  Qed.
End Proofs6.
