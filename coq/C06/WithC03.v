(* C06 — the key contract instantiated with the C03 model of real keys: a key is a construction path
   ([build]: constructor kind, name, labels, with_extra_labels calls, clone/get_hash calls), its hash
   is the memoised [get_hash] for an arbitrary byte-stream hash H (AHash), equality is [key_eq]. *)
From Coq Require Import List NArith Bool.
Require MV.C03.Model MV.C03.Properties.
Import ListNotations.
Require Import MV.Common.Interleave MV.C06.Model MV.C06.Spec MV.C06.Proofs2 MV.C06.Proofs5.

Definition real_key : Type := MV.C03.Model.build.
Definition real_keq (H : list MV.C03.Model.bytes -> N) (a b : real_key) : bool :=
  MV.C03.Model.key_eq (MV.C03.Model.m_key (MV.C03.Model.construct H a)) (MV.C03.Model.m_key (MV.C03.Model.construct H b)).
Definition real_hash (H : list MV.C03.Model.bytes -> N) (a : real_key) : N :=
  fst (MV.C03.Model.get_hash H (MV.C03.Model.construct H a)).

Lemma real_key_contract H : key_contract (real_hash H) (real_keq H).
Proof.
  destruct MV.C03.Properties.C03_eq_equivalence as (R & S & T). unfold real_keq, real_hash.
  split; [intros a; apply R|]. split; [intros a b; apply S|]. split.
  - intros a b c. apply T.
  - intros a b. apply MV.C03.Properties.C03_eq_implies_same_get_hash.
Qed.

Lemma instantiated_with_C03 (H : list MV.C03.Model.bytes -> N) (k : N) (ps : list (list (@op real_key))) (sched : list nat) :
    let r := fst (fst (exec (step (real_hash H) (real_keq H) k) site (init_config k ps) sched)) in
    InvAll (real_hash H) (real_keq H) k r /\
    (forall kd key0, (cnt (real_keq H) (abs r kd) key0 <= 1)%nat) /\
    (forall s, (scnt (all_entries r) s <= 1)%nat) /\
    (forall kd key0, ncreate (real_keq H) (log r) kd key0
                     = (nremove (real_keq H) (log r) kd key0 + cnt (real_keq H) (abs r kd) key0)%nat) /\
    (forall newer kd k2 s2 mid k1 s1 older,
       log r = newer ++ EvRet kd k2 s2 :: mid ++ EvRet kd k1 s1 :: older ->
       real_keq H k1 k2 = true -> (forall ev, In ev mid -> is_remove (real_keq H) kd k1 ev = false) -> s1 = s2).
Proof.
  intros r.
  pose proof (reachable_InvAll (real_hash H) (real_keq H) k (real_key_contract H) ps sched) as A.
  destruct (unique_storage_all_schedules (real_hash H) (real_keq H) k (real_key_contract H) ps sched) as (U1 & U2 & _ & U4 & U5 & _).
  fold r in A, U1, U2, U4, U5. auto.
Qed.
