(* C06 — list lemmas: counting over a list of shards, set_nth, remove_first. *)
From Coq Require Import List NArith Bool Arith Lia.
Import ListNotations.
Require Import MV.C06.Model.
Local Open Scope nat_scope.

Definition cf {A} (f : A -> bool) (m : list A) : nat := length (filter f m).

Lemma cf_app {A} (f : A -> bool) a b : cf f (a ++ b) = cf f a + cf f b.
Proof. unfold cf. rewrite filter_app, app_length. reflexivity. Qed.

Lemma cf_zero {A} (f : A -> bool) m : (forall e, In e m -> f e = false) -> cf f m = 0.
Proof.
  unfold cf. induction m as [|x r IH]; intros H; cbn; [reflexivity|].
  rewrite (H x (or_introl eq_refl)). apply IH. intros e He. apply H. right. exact He.
Qed.

Lemma cf_zero_inv {A} (f : A -> bool) m : cf f m = 0 -> forall e, In e m -> f e = false.
Proof.
  unfold cf. induction m as [|x r IH]; intros H e He; [destruct He|].
  cbn in H. destruct (f x) eqn:E; [cbn in H; discriminate|].
  destruct He as [<-|He]; [exact E|apply IH; assumption].
Qed.

Lemma cf_pos_in {A} (f : A -> bool) m e : In e m -> f e = true -> 1 <= cf f m.
Proof.
  intros He Hf. destruct (cf f m) eqn:E; [|lia].
  rewrite (cf_zero_inv f m E e He) in Hf. discriminate.
Qed.

Lemma cf_filter_split {A} (g f : A -> bool) s :
  cf g (filter f s) + cf g (filter (fun e => negb (f e)) s) = cf g s.
Proof.
  unfold cf. induction s as [|x r IH]; cbn; [reflexivity|].
  destruct (f x); cbn; destruct (g x); cbn; lia.
Qed.

Lemma cf_le_one_unique {A} (f : A -> bool) m a b l1 l2 l3 :
  m = l1 ++ a :: l2 ++ b :: l3 -> f a = true -> f b = true -> 2 <= cf f m.
Proof.
  intros -> Ha Hb. rewrite cf_app. change (a :: l2 ++ b :: l3) with ([a] ++ l2 ++ [b] ++ l3).
  rewrite !cf_app. unfold cf at 2 4. cbn. rewrite Ha, Hb. cbn. lia.
Qed.

(* find and counting *)
Lemma find_none_cf {A} (f : A -> bool) s : find f s = None -> forall e, In e s -> f e = false.
Proof. intros H e He. exact (find_none f s H e He). Qed.

Lemma find_unique {A} (f : A -> bool) m e : In e m -> f e = true -> cf f m <= 1 -> find f m = Some e.
Proof.
  unfold cf. induction m as [|x r IH]; intros He Hf Hc; [destruct He|].
  cbn in *. destruct (f x) eqn:E.
  - destruct He as [->|He]; [reflexivity|].
    cbn in Hc. pose proof (cf_pos_in f r e He Hf). unfold cf in *. lia.
  - destruct He as [->|He]; [congruence|]. apply IH; assumption.
Qed.

(* remove_first *)
Lemma remove_first_in {A} (f : A -> bool) s x : In x (remove_first f s) -> In x s.
Proof.
  induction s as [|e r IH]; cbn; [tauto|]. destruct (f e); [intros H; right; exact H|].
  intros [->|H]; [left; reflexivity|right; apply IH; exact H].
Qed.

Lemma remove_first_cf {A} (f g : A -> bool) s e :
  find f s = Some e -> cf g (remove_first f s) + (if g e then 1 else 0) = cf g s.
Proof.
  unfold cf. induction s as [|x r IH]; cbn; [discriminate|].
  destruct (f x) eqn:E.
  - intros H. inversion H; subst. destruct (g e); cbn; lia.
  - intros H. specialize (IH H). cbn. destruct (g x); cbn; lia.
Qed.

Lemma remove_first_keeps {A} (f : A -> bool) s x : In x s -> f x = false -> In x (remove_first f s).
Proof.
  induction s as [|e r IH]; cbn; [tauto|]. intros [->|H] Hx.
  - rewrite Hx. left. reflexivity.
  - destruct (f e); [exact H|right; apply IH; assumption].
Qed.

Lemma remove_first_none {A} (f : A -> bool) s : (forall e, In e s -> f e = false) -> remove_first f s = s.
Proof.
  induction s as [|e r IH]; cbn; intros H; [reflexivity|].
  rewrite (H e (or_introl eq_refl)). f_equal. apply IH. intros x Hx. apply H. right. exact Hx.
Qed.

(* set_nth *)
Lemma set_nth_length {A} i (x : A) l : length (set_nth i x l) = length l.
Proof. revert i. induction l as [|y r IH]; intros [|i]; cbn; auto. Qed.

Lemma nth_set_nth_same {A} i (x d : A) l : i < length l -> nth i (set_nth i x l) d = x.
Proof. revert i. induction l as [|y r IH]; intros [|i] H; cbn in *; try lia; auto. apply IH. lia. Qed.

Lemma nth_set_nth_other {A} i j (x d : A) l : i <> j -> nth j (set_nth i x l) d = nth j l d.
Proof. revert i j. induction l as [|y r IH]; intros [|i] [|j] H; cbn; auto; try congruence. Qed.

Lemma set_nth_oob {A} i (x : A) l : length l <= i -> set_nth i x l = l.
Proof. revert i. induction l as [|y r IH]; intros [|i] H; cbn in *; auto; try lia. f_equal. apply IH. lia. Qed.

Lemma cf_concat_set_nth {A} (f : A -> bool) i s (l : list (list A)) : i < length l ->
  cf f (concat (set_nth i s l)) + cf f (nth i l []) = cf f (concat l) + cf f s.
Proof.
  revert i. induction l as [|y r IH]; intros [|i] H; cbn [concat set_nth nth length] in *; try lia.
  - rewrite !cf_app. lia.
  - rewrite !cf_app. specialize (IH i ltac:(lia)). lia.
Qed.

Lemma in_concat_nth {A} (e : A) (l : list (list A)) :
  In e (concat l) <-> exists j, j < length l /\ In e (nth j l []).
Proof.
  induction l as [|y r IH]; cbn.
  - split; [tauto|intros (j & H & _); lia].
  - rewrite in_app_iff, IH. split.
    + intros [H|(j & Hj & H)]; [exists 0; split; [lia|exact H]|exists (S j); split; [lia|exact H]].
    + intros ([|j] & Hj & H); [left; exact H|right; exists j; split; [lia|exact H]].
Qed.

Lemma nth_oob_nil {A} i (l : list (list A)) : length l <= i -> nth i l [] = [].
Proof. intros H. apply nth_overflow. exact H. Qed.
