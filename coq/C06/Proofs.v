(* C06 — the state invariant and its preservation by every atomic step (hence every schedule). *)
From Coq Require Import List NArith Bool Arith Lia.
Import ListNotations.
Require Import MV.Common.Interleave MV.C06.Model MV.C06.Spec MV.C06.Lists.
Local Open Scope nat_scope.

Lemma kind_eq_dec : forall a b : kind, {a = b} + {a <> b}.
Proof. decide equality. Qed.
Lemma kind_eqb_eq a b : kind_eqb a b = true <-> a = b.
Proof. destruct a, b; cbn; split; intros H; try reflexivity; try discriminate. Qed.
Lemma kind_eqb_refl a : kind_eqb a a = true.
Proof. destruct a; reflexivity. Qed.
Lemma kind_eqb_neq a b : a <> b -> kind_eqb a b = false.
Proof. destruct a, b; cbn; intros H; try reflexivity; congruence. Qed.

Section Proofs.
  Context {key : Type}.
  Variable hash : key -> N.
  Variable keq : key -> key -> bool.
  Variable k : N.
  Hypothesis keq_sym : forall a b, keq a b = keq b a.
  Hypothesis keq_trans : forall a b c, keq a b = true -> keq b c = true -> keq a c = true.
  Hypothesis hash_respects_eq : forall a b, keq a b = true -> hash a = hash b.

  Notation reg := (@reg key).
  Notation entry := (@entry key).
  Notation event := (@event key).
  Notation shard := (@shard key).
  Notation ix := (shard_ix k).
  Notation kq key0 := (fun e : entry => keq key0 (fst e)).
  Notation sq s0 := (fun e : entry => (snd e =? s0)%N).

  Lemma cnt_cf (m : list entry) key0 : cnt keq m key0 = cf (kq key0) m.
  Proof. reflexivity. Qed.
  Lemma scnt_cf (m : list entry) s0 : scnt m s0 = cf (sq s0) m.
  Proof. reflexivity. Qed.
  Lemma ncreate_cf (lg : list event) kd key0 : ncreate keq lg kd key0 = cf (is_create keq kd key0) lg.
  Proof. reflexivity. Qed.
  Lemma nremove_cf (lg : list event) kd key0 : nremove keq lg kd key0 = cf (is_remove keq kd key0) lg.
  Proof. reflexivity. Qed.

  (* ---- frame lemmas ---- *)
  Lemma shards_put_same (r : reg) kd i s : shards_of (put_shard r kd i s) kd = set_nth i s (shards_of r kd).
  Proof. destruct kd; reflexivity. Qed.
  Lemma shards_put_other (r : reg) kd kd' i s : kd <> kd' -> shards_of (put_shard r kd i s) kd' = shards_of r kd'.
  Proof. destruct kd, kd'; intros H; try reflexivity; congruence. Qed.
  Lemma shards_add_log (r : reg) es kd : shards_of (add_log r es) kd = shards_of r kd.
  Proof. destruct kd; reflexivity. Qed.
  Lemma shards_bump (r : reg) kd : shards_of (bump_sid r) kd = shards_of r kd.
  Proof. destruct kd; reflexivity. Qed.
  Lemma next_put (r : reg) kd i s : next_sid (put_shard r kd i s) = next_sid r.
  Proof. destruct kd; reflexivity. Qed.
  Lemma log_put (r : reg) kd i s : log (put_shard r kd i s) = log r.
  Proof. destruct kd; reflexivity. Qed.

  Lemma abs_add_log (r : reg) es kd : abs (add_log r es) kd = abs r kd.
  Proof. unfold abs. rewrite shards_add_log. reflexivity. Qed.
  Lemma abs_bump (r : reg) kd : abs (bump_sid r) kd = abs r kd.
  Proof. unfold abs. rewrite shards_bump. reflexivity. Qed.
  Lemma get_add_log (r : reg) es kd i : get_shard (add_log r es) kd i = get_shard r kd i.
  Proof. unfold get_shard. rewrite shards_add_log. reflexivity. Qed.
  Lemma get_bump (r : reg) kd i : get_shard (bump_sid r) kd i = get_shard r kd i.
  Proof. unfold get_shard. rewrite shards_bump. reflexivity. Qed.
  Lemma all_add_log (r : reg) es : all_entries (add_log r es) = all_entries r.
  Proof. unfold all_entries. rewrite !abs_add_log. reflexivity. Qed.
  Lemma all_bump (r : reg) : all_entries (bump_sid r) = all_entries r.
  Proof. unfold all_entries. rewrite !abs_bump. reflexivity. Qed.

  Lemma abs_put_other (r : reg) kd kd' i s : kd <> kd' -> abs (put_shard r kd i s) kd' = abs r kd'.
  Proof. intros H. unfold abs. rewrite shards_put_other by exact H. reflexivity. Qed.

  Lemma cf_abs_put (f : entry -> bool) (r : reg) kd i s : i < length (shards_of r kd) ->
    cf f (abs (put_shard r kd i s) kd) + cf f (get_shard r kd i) = cf f (abs r kd) + cf f s.
  Proof. intros H. unfold abs, get_shard. rewrite shards_put_same. apply cf_concat_set_nth. exact H. Qed.

  Lemma cf_all_put (f : entry -> bool) (r : reg) kd i s : i < length (shards_of r kd) ->
    cf f (all_entries (put_shard r kd i s)) + cf f (get_shard r kd i) = cf f (all_entries r) + cf f s.
  Proof.
    intros H. pose proof (cf_abs_put f r kd i s H) as E. unfold all_entries. rewrite !cf_app.
    destruct kd.
    - rewrite (abs_put_other r KCounter KGauge), (abs_put_other r KCounter KHistogram) by discriminate. lia.
    - rewrite (abs_put_other r KGauge KCounter), (abs_put_other r KGauge KHistogram) by discriminate. lia.
    - rewrite (abs_put_other r KHistogram KCounter), (abs_put_other r KHistogram KGauge) by discriminate. lia.
  Qed.

  Lemma in_abs (r : reg) kd e : In e (abs r kd) <-> exists j, In e (get_shard r kd j).
  Proof.
    unfold abs, get_shard. rewrite in_concat_nth. split.
    - intros (j & _ & H). exists j. exact H.
    - intros (j & H). exists j. split; [|exact H].
      destruct (lt_dec j (length (shards_of r kd))) as [L|L]; [exact L|].
      rewrite nth_overflow in H by lia. destruct H.
  Qed.

  Lemma in_all (r : reg) e : In e (all_entries r) <-> exists kd, In e (abs r kd).
  Proof.
    unfold all_entries. rewrite !in_app_iff. split.
    - intros [H|[H|H]]; eauto.
    - intros ([] & H); auto.
  Qed.

  Lemma in_get_put (r : reg) kd i s kd' i' e :
    In e (get_shard (put_shard r kd i s) kd' i') ->
    In e (get_shard r kd' i') \/ (kd' = kd /\ i' = i /\ In e s).
  Proof.
    unfold get_shard. destruct (kind_eq_dec kd kd') as [<-|Hk].
    - rewrite shards_put_same. destruct (Nat.eq_dec i i') as [<-|Hi].
      + destruct (lt_dec i (length (shards_of r kd))) as [L|L].
        * rewrite nth_set_nth_same by exact L. intros H. right. auto.
        * rewrite set_nth_oob by lia. intros H. left. exact H.
      + rewrite nth_set_nth_other by exact Hi. intros H. left. exact H.
    - rewrite shards_put_other by exact Hk. intros H. left. exact H.
  Qed.

  Lemma in_abs_put (r : reg) kd i s kd' e :
    In e (abs (put_shard r kd i s) kd') -> In e (abs r kd') \/ (kd' = kd /\ In e s).
  Proof.
    rewrite in_abs. intros (j & H). apply in_get_put in H. destruct H as [H|(-> & -> & H)].
    - left. apply in_abs. exists j. exact H.
    - right. auto.
  Qed.

  Lemma in_abs_put_keep (r : reg) kd i s kd' e :
    In e (abs r kd') -> In e (abs (put_shard r kd i s) kd') \/ (kd' = kd /\ In e (get_shard r kd i)).
  Proof.
    rewrite !in_abs. intros (j & H).
    destruct (kind_eq_dec kd kd') as [<-|Hk].
    - destruct (Nat.eq_dec i j) as [<-|Hi]; [right; auto|].
      left. exists j. unfold get_shard in *. rewrite shards_put_same, nth_set_nth_other by exact Hi. exact H.
    - left. exists j. unfold get_shard in *. rewrite shards_put_other by exact Hk. exact H.
  Qed.

  Lemma in_put_new (r : reg) kd i s e : i < length (shards_of r kd) -> In e s -> In e (abs (put_shard r kd i s) kd).
  Proof.
    intros L H. apply in_abs. exists i. unfold get_shard. rewrite shards_put_same, nth_set_nth_same by exact L. exact H.
  Qed.

  (* ---- the invariant (shared state only; thread-local state plays no role) ---- *)
  Record Inv (r : reg) : Prop := {
    I_len : forall kd, length (shards_of r kd) = nshards k;
    I_placed : forall kd i e, In e (get_shard r kd i) -> ix (hash (fst e)) = i;
    I_uniq : forall kd key0, cnt keq (abs r kd) key0 <= 1;
    I_sid1 : forall s, scnt (all_entries r) s <= 1;
    I_sidlt : forall e, In e (all_entries r) -> (snd e < next_sid r)%N;
    I_ledger : forall kd key0, ncreate keq (log r) kd key0 = nremove keq (log r) kd key0 + cnt keq (abs r kd) key0
  }.

  Lemma ix_lt h : ix h < nshards k.
  Proof.
    unfold shard_ix, nshards. rewrite N.land_ones.
    assert (H : (2 ^ k <> 0)%N) by (apply N.pow_nonzero; discriminate).
    pose proof (N.mod_lt h (2 ^ k) H). lia.
  Qed.

  Lemma Inv_add_ret r kd key0 s : Inv r -> Inv (add_log r [EvRet kd key0 s]).
  Proof.
    intros [H1 H2 H3 H4 H5 H6]. constructor.
    - intros kd'. rewrite shards_add_log. apply H1.
    - intros kd' i e. rewrite get_add_log. apply H2.
    - intros kd' key1. rewrite abs_add_log. apply H3.
    - intros s'. rewrite all_add_log. apply H4.
    - intros e. rewrite all_add_log. apply H5.
    - intros kd' key1. rewrite abs_add_log. apply H6.
  Qed.

  (* ---- lookups under the invariant ---- *)
  Lemma lookup_some r kd key0 e :
    find (matches hash keq (hash key0) key0) (get_shard r kd (ix (hash key0))) = Some e ->
    In e (abs r kd) /\ keq key0 (fst e) = true.
  Proof.
    intros H. apply find_some in H. destruct H as [Hin Hm]. split.
    - apply in_abs. eauto.
    - unfold matches in Hm. apply andb_true_iff in Hm. apply Hm.
  Qed.

  Lemma lookup_none r kd key0 : Inv r ->
    find (matches hash keq (hash key0) key0) (get_shard r kd (ix (hash key0))) = None ->
    forall e, In e (abs r kd) -> keq key0 (fst e) = false.
  Proof.
    intros HI H e He. destruct (keq key0 (fst e)) eqn:E; [|reflexivity].
    apply in_abs in He. destruct He as (j & Hj).
    pose proof (I_placed r HI kd j e Hj) as P.
    pose proof (hash_respects_eq _ _ E) as Hh. rewrite <- Hh in P. subst j.
    pose proof (find_none _ _ H e Hj) as M. unfold matches in M.
    rewrite E, <- Hh, N.eqb_refl in M. discriminate.
  Qed.

  (* ---- shrinking update: shard (kd, i) := s', the entries rm leave the registry ---- *)
  Definition shrink (r : reg) (kd : kind) (i : nat) (s' rm : shard) : reg :=
    add_log (put_shard r kd i s') (map (fun e => EvRemove kd (fst e) (snd e)) rm).

  Lemma cf_create_removes kd1 key1 kd (rm : shard) :
    cf (is_create keq kd1 key1) (map (fun e => EvRemove kd (fst e) (snd e)) rm) = 0.
  Proof. apply cf_zero. intros ev H. apply in_map_iff in H. destruct H as (e & <- & _). reflexivity. Qed.

  Lemma cf_remove_removes kd1 key1 kd (rm : shard) :
    cf (is_remove keq kd1 key1) (map (fun e => EvRemove kd (fst e) (snd e)) rm)
    = if kind_eqb kd1 kd then cf (kq key1) rm else 0.
  Proof.
    unfold cf. induction rm as [|e r IH]; cbn [map filter]; [destruct (kind_eqb kd1 kd); reflexivity|].
    cbn [is_remove]. destruct (kind_eqb kd1 kd) eqn:K; cbn [andb].
    - destruct (keq key1 (fst e)); cbn [length]; rewrite IH; reflexivity.
    - exact IH.
  Qed.

  Lemma shrink_Inv r kd i s' rm : Inv r -> i < nshards k ->
    (forall g, cf g s' + cf g rm = cf g (get_shard r kd i)) ->
    (forall x, In x s' -> In x (get_shard r kd i)) ->
    Inv (shrink r kd i s' rm).
  Proof.
    intros HI Hi Hsplit Hsub. pose proof HI as [H1 H2 H3 H4 H5 H6].
    assert (L : i < length (shards_of r kd)) by (rewrite H1; exact Hi).
    unfold shrink. constructor.
    - intros kd'. rewrite shards_add_log. destruct (kind_eq_dec kd kd') as [<-|Hk].
      + rewrite shards_put_same, set_nth_length. apply H1.
      + rewrite shards_put_other by exact Hk. apply H1.
    - intros kd' i' e. rewrite get_add_log. intros H. apply in_get_put in H.
      destruct H as [H|(-> & -> & H)]; [exact (H2 _ _ _ H)|]. apply (H2 kd i). apply Hsub. exact H.
    - intros kd' key1. rewrite abs_add_log. destruct (kind_eq_dec kd kd') as [<-|Hk].
      + pose proof (cf_abs_put (kq key1) r kd i s' L) as E. pose proof (Hsplit (kq key1)) as S.
        specialize (H3 kd key1). rewrite ?cnt_cf in *. unfold cf in *. lia.
      + rewrite abs_put_other by exact Hk. apply H3.
    - intros s. rewrite all_add_log.
      pose proof (cf_all_put (sq s) r kd i s' L) as E.
      pose proof (Hsplit (sq s)) as S. specialize (H4 s). rewrite ?scnt_cf in *. unfold cf in *. lia.
    - intros e. rewrite all_add_log. cbn [next_sid add_log]. rewrite next_put. intros H.
      apply H5. apply in_all in H. destruct H as (kd' & H). apply in_all. exists kd'.
      apply in_abs_put in H. destruct H as [H|(-> & H)]; [exact H|]. apply in_abs. exists i. apply Hsub. exact H.
    - intros kd' key1. rewrite abs_add_log. cbn [log add_log]. rewrite log_put.
      specialize (H6 kd' key1). rewrite ncreate_cf, nremove_cf in *.
      rewrite !cf_app, cf_create_removes, cf_remove_removes.
      destruct (kind_eq_dec kd kd') as [<-|Hk].
      + rewrite kind_eqb_refl.
        pose proof (cf_abs_put (kq key1) r kd i s' L) as E. pose proof (Hsplit (kq key1)) as S.
        rewrite ?cnt_cf in *. unfold cf in *. lia.
      + rewrite kind_eqb_neq by congruence. rewrite abs_put_other by exact Hk. unfold cf in *. lia.
  Qed.

  Lemma remove_is_shrink r kd i h key0 found :
    remove hash keq r kd i h key0 found = shrink r kd i (remove_first (matches hash keq h key0) (get_shard r kd i)) [found].
  Proof. reflexivity. Qed.
  Lemma filter_is_shrink r kd i f :
    filter_shard r kd i f = shrink r kd i (filter f (get_shard r kd i)) (filter (fun e => negb (f e)) (get_shard r kd i)).
  Proof. reflexivity. Qed.

  Lemma remove_Inv r kd key0 found : Inv r ->
    find (matches hash keq (hash key0) key0) (get_shard r kd (ix (hash key0))) = Some found ->
    Inv (remove hash keq r kd (ix (hash key0)) (hash key0) key0 found).
  Proof.
    intros HI Hf. rewrite remove_is_shrink. apply shrink_Inv; [exact HI|apply ix_lt| |].
    - intros g. pose proof (remove_first_cf _ g _ _ Hf) as E. unfold cf in *. cbn [filter length]. destruct (g found); cbn [length]; lia.
    - intros x. apply remove_first_in.
  Qed.

  Lemma filter_Inv r kd i f : Inv r -> i < nshards k -> Inv (filter_shard r kd i f).
  Proof.
    intros HI Hi. rewrite filter_is_shrink. apply shrink_Inv; [exact HI|exact Hi| |].
    - intros g. apply cf_filter_split.
    - intros x H. apply filter_In in H. apply H.
  Qed.

  (* ---- insertion after a failed lookup under the write lock ---- *)
  Lemma insert_Inv r kd key0 : Inv r ->
    find (matches hash keq (hash key0) key0) (get_shard r kd (ix (hash key0))) = None ->
    Inv (insert r kd (ix (hash key0)) key0).
  Proof.
    intros HI Hf. pose proof HI as [H1 H2 H3 H4 H5 H6].
    set (i := ix (hash key0)) in *. set (s := get_shard r kd i) in *.
    assert (L : i < length (shards_of r kd)) by (rewrite H1; apply ix_lt).
    pose proof (lookup_none r kd key0 HI Hf) as Hno.
    unfold insert. fold s. constructor.
    - intros kd'. rewrite shards_add_log, shards_bump. destruct (kind_eq_dec kd kd') as [<-|Hk].
      + rewrite shards_put_same, set_nth_length. apply H1.
      + rewrite shards_put_other by exact Hk. apply H1.
    - intros kd' i' e. rewrite get_add_log, get_bump. intros H. apply in_get_put in H.
      destruct H as [H|(-> & -> & H)]; [exact (H2 _ _ _ H)|].
      apply in_app_iff in H. destruct H as [H|[<-|[]]]; [exact (H2 kd i e H)|reflexivity].
    - intros kd' key1. rewrite abs_add_log, abs_bump. destruct (kind_eq_dec kd kd') as [<-|Hk].
      + pose proof (cf_abs_put (kq key1) r kd i (s ++ [(key0, next_sid r)]) L) as E.
        fold s in E. rewrite cf_app in E. specialize (H3 kd key1). rewrite ?cnt_cf in *.
        destruct (keq key1 key0) eqn:K.
        * assert (Z : cf (kq key1) (abs r kd) = 0).
          { apply cf_zero. intros e He. destruct (keq key1 (fst e)) eqn:K2; [|reflexivity].
            rewrite <- (Hno e He). rewrite keq_sym in K. exact (eq_sym (keq_trans _ _ _ K K2)). }
          unfold cf in *. cbn [filter fst length] in E. rewrite K in E. cbn [length] in E. lia.
        * unfold cf in *. cbn [filter fst length] in E. rewrite K in E. cbn [length] in E. lia.
      + rewrite abs_put_other by exact Hk. apply H3.
    - intros s0. rewrite all_add_log, all_bump.
      pose proof (cf_all_put (sq s0) r kd i (s ++ [(key0, next_sid r)]) L) as E.
      fold s in E. rewrite cf_app in E. specialize (H4 s0). rewrite ?scnt_cf in *.
      destruct (N.eqb (next_sid r) s0) eqn:K.
      + assert (Z : cf (sq s0) (all_entries r) = 0).
        { apply cf_zero. intros e He. apply N.eqb_neq. apply N.eqb_eq in K. specialize (H5 e He). lia. }
        unfold cf in *. cbn [filter snd length] in E. rewrite K in E. cbn [length] in E. lia.
      + unfold cf in *. cbn [filter snd length] in E. rewrite K in E. cbn [length] in E. lia.
    - intros e. rewrite all_add_log, all_bump. cbn [next_sid add_log bump_sid]. rewrite next_put. intros H.
      apply in_all in H. destruct H as (kd' & H). apply in_abs_put in H. destruct H as [H|(-> & H)].
      + assert (In e (all_entries r)) by (apply in_all; eauto). specialize (H5 e H0). lia.
      + apply in_app_iff in H. destruct H as [H|[<-|[]]].
        * assert (In e (all_entries r)) by (apply in_all; exists kd; apply in_abs; eauto). specialize (H5 e H0). lia.
        * cbn [snd]. lia.
    - intros kd' key1. rewrite abs_add_log, abs_bump. cbn [log add_log bump_sid]. rewrite log_put.
      unfold ncreate, nremove. cbn [app filter is_create is_remove].
      specialize (H6 kd' key1). unfold ncreate, nremove in H6.
      destruct (kind_eq_dec kd kd') as [<-|Hk].
      + rewrite kind_eqb_refl. cbn [andb].
        pose proof (cf_abs_put (kq key1) r kd i (s ++ [(key0, next_sid r)]) L) as E.
        fold s in E. rewrite cf_app in E. rewrite ?cnt_cf in *. unfold cf in *. cbn [filter fst length] in E.
        assert (Z : length (filter (kq key1) s) <= length (filter (kq key1) s)) by lia.
        destruct (keq key1 key0); cbn [length] in *; lia.
      + rewrite kind_eqb_neq by congruence. cbn [andb]. rewrite abs_put_other by exact Hk. exact H6.
  Qed.
End Proofs.
