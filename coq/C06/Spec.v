(* C06 — the property, written without shards: the registry is ONE association map per metric
   kind, keyed by key equality alone (no hash in any lookup).

   [sreg]: one list of (key, storage id) per kind + the storage allocator.  The atomic calls
   (get_or_create's two lock-sized halves, get, delete) act on that single map.  The sweeping calls
   (retain / clear / visit / handles) are documented by the code as non-atomic: they go through the
   key space band by band (band of a key = hash & mask), one band per step; at quiescence the bands
   add up to the whole map ([s_filter_all], [s_band_all] below are the whole-call effects).
   The reference machine [sstep] has the same call/return interface as the model's [step]; it is
   what an observed run is judged against ([spec_ok] in Exec.v).                                  *)
From Coq Require Import List NArith Bool Arith.
Import ListNotations.
Require Import MV.C06.Model.
Open Scope N_scope.

Section Spec.
  Context {key : Type}.
  Variable hash : key -> N.
  Variable keq : key -> key -> bool.
  Variable k : N.

  Notation entry := (@entry key).
  Notation op := (@op key).
  Notation local := (@local key).
  Notation res := (@res key).

  (* ---- single-map operations (no hash) ---- *)
  Definition s_find (m : list entry) (key0 : key) : option entry := find (fun e => keq key0 (fst e)) m.
  Definition s_insert (m : list entry) (e : entry) : list entry := m ++ [e].
  Definition s_remove (m : list entry) (key0 : key) : list entry := remove_first (fun e => keq key0 (fst e)) m.
  Definition band (e : entry) : nat := shard_ix k (hash (fst e)).
  Definition s_band (m : list entry) (j : nat) : list entry := filter (fun e => Nat.eqb (band e) j) m.
  Definition s_filter_band (m : list entry) (j : nat) (f : entry -> bool) : list entry :=
    filter (fun e => if Nat.eqb (band e) j then f e else true) m.

  Record sreg := { m_c : list entry; m_g : list entry; m_h : list entry; s_next : N;
                   s_cons : list (kind * key * sid) (* constructions, newest first *) }.
  Definition smap (r : sreg) (kd : kind) : list entry :=
    match kd with KCounter => m_c r | KGauge => m_g r | KHistogram => m_h r end.
  Definition set_smap (r : sreg) (kd : kind) (m : list entry) : sreg :=
    match kd with
    | KCounter => {| m_c := m; m_g := m_g r; m_h := m_h r; s_next := s_next r; s_cons := s_cons r |}
    | KGauge => {| m_c := m_c r; m_g := m; m_h := m_h r; s_next := s_next r; s_cons := s_cons r |}
    | KHistogram => {| m_c := m_c r; m_g := m_g r; m_h := m; s_next := s_next r; s_cons := s_cons r |}
    end.
  Definition s_create (r : sreg) (kd : kind) (key0 : key) : sreg :=
    let r1 := set_smap r kd (s_insert (smap r kd) (key0, s_next r)) in
    {| m_c := m_c r1; m_g := m_g r1; m_h := m_h r1; s_next := s_next r + 1; s_cons := (kd, key0, s_next r) :: s_cons r |}.

  Definition ssweep_next (r : sreg) (l : local) (o : op) (j : nat) (acc : list entry) (x : res) : option (sreg * local) :=
    if Nat.ltb (S j) (length (plan k o)) then Some (r, goto l (S j) acc) else Some (r, finish l x).

  Definition sstep (r : sreg) (l : local) : option (sreg * local) :=
    match pcl l with
    | Start => Some (r, goto l 0 [])
    | Run j acc =>
        match todo l with
        | [] => None
        | OGetOrCreate kd key0 :: _ =>
            match s_find (smap r kd) key0 with
            | Some e => Some (r, finish l (RSid (snd e)))
            | None => match j with
                      | O => Some (r, goto l 1 [])
                      | S _ => Some (s_create r kd key0, finish l (RSid (s_next r)))
                      end
            end
        | OGet kd key0 :: _ => Some (r, finish l (ROpt (option_map snd (s_find (smap r kd) key0))))
        | ODelete kd key0 :: _ =>
            match s_find (smap r kd) key0 with
            | Some _ => Some (set_smap r kd (s_remove (smap r kd) key0), finish l (RBool true))
            | None => Some (r, finish l (RBool false))
            end
        | ORetain kd p :: _ =>
            match nth_error (plan k (ORetain kd p)) j with
            | Some (kd', i) => ssweep_next (set_smap r kd' (s_filter_band (smap r kd') i (fun e => p (fst e) (snd e)))) l (ORetain kd p) j [] RUnit
            | None => Some (r, finish l RUnit)
            end
        | OClear :: _ =>
            match nth_error (plan k (OClear : op)) j with
            | Some (kd', i) => ssweep_next (set_smap r kd' (s_filter_band (smap r kd') i (fun _ => false))) l (OClear : op) j [] RUnit
            | None => Some (r, finish l RUnit)
            end
        | OVisit kd :: _ =>
            match nth_error (plan k (OVisit kd : op)) j with
            | Some (kd', i) => let acc' := acc ++ s_band (smap r kd') i in ssweep_next r l (OVisit kd : op) j acc' (RList acc')
            | None => Some (r, finish l (RList acc))
            end
        | OHandles kd :: _ =>
            match nth_error (plan k (OHandles kd : op)) j with
            | Some (kd', i) => let acc' := acc ++ s_band (smap r kd') i in ssweep_next r l (OHandles kd : op) j acc' (RList (collect keq acc'))
            | None => Some (r, finish l (RList (collect keq acc)))
            end
        | OGetOrCreateP kd key0 :: _ =>
            (* a panicking closure: the single map changes exactly as for a returning call *)
            match s_find (smap r kd) key0 with
            | Some e => Some (r, finish l (RPanicked (snd e)))
            | None => match j with
                      | O => Some (r, goto l 1 [])
                      | S _ => Some (s_create r kd key0, finish l (RPanicked (s_next r)))
                      end
            end
        end
    end.

  Definition init_sreg : sreg := {| m_c := []; m_g := []; m_h := []; s_next := 0; s_cons := [] |}.

  (* whole-call effects at quiescence *)
  Definition s_filter_all (m : list entry) (f : entry -> bool) : list entry := filter f m.

  (* ---- declarative statements used by the property theorems ---- *)
  (* number of entries of a map whose key equals key0 *)
  Definition cnt (m : list entry) (key0 : key) : nat := length (filter (fun e => keq key0 (fst e)) m).
  Definition scnt (m : list entry) (s : sid) : nat := length (filter (fun e => snd e =? s) m).
  (* (key', s) with key' == key0 is in the map *)
  Definition has (m : list entry) (key0 : key) (s : sid) : Prop :=
    exists e, In e m /\ keq key0 (fst e) = true /\ snd e = s.
  (* every entry of the registry, all kinds *)
  Definition all_entries (r : @reg key) : list entry := abs r KCounter ++ abs r KGauge ++ abs r KHistogram.
  (* ghost-log counters: constructions / removals of the class of key0 under kind kd *)
  Definition is_create (kd : kind) (key0 : key) (ev : @event key) : bool :=
    match ev with EvCreate kd' k' _ => kind_eqb kd kd' && keq key0 k' | _ => false end.
  Definition is_remove (kd : kind) (key0 : key) (ev : @event key) : bool :=
    match ev with EvRemove kd' k' _ => kind_eqb kd kd' && keq key0 k' | _ => false end.
  Definition ncreate (lg : list (@event key)) (kd : kind) (key0 : key) : nat := length (filter (is_create kd key0) lg).
  Definition nremove (lg : list (@event key)) (kd : kind) (key0 : key) : nat := length (filter (is_remove kd key0) lg).
End Spec.

(* what the registry needs of its key type (proved of metrics::Key by C03: == is an equivalence and
   equal keys have equal hashes) *)
Definition key_contract {key : Type} (hash : key -> N) (keq : key -> key -> bool) : Prop :=
  (forall a, keq a a = true) /\ (forall a b, keq a b = keq b a) /\
  (forall a b c, keq a b = true -> keq b c = true -> keq a c = true) /\
  (forall a b, keq a b = true -> hash a = hash b).
