(* C06 — property theorems.  The registry model is generic in the key type, in [hash], in [keq] and
   in the shard count 2^k; [key_contract hash keq] (keq is an equivalence and equal keys have equal
   hashes) is what C03 proves of real keys.  A configuration reached by SOME schedule of any number
   of threads running any call lists is [fst (exec step site (init_config k ps) sched)]; its
   registry is the first component.  The ghost log records constructions (EvCreate), entries
   leaving the registry (EvRemove) and the storage each get_or_create returned (EvRet). *)
From Coq Require Import List NArith Bool Arith Permutation.
Import ListNotations.
Require Import MV.Common.Interleave MV.C06.Model MV.C06.Spec MV.C06.Exec MV.C06.Proofs MV.C06.Proofs2 MV.C06.Proofs4 MV.C06.Proofs5 MV.C06.Proofs6 MV.C06.Sim MV.C06.Refine MV.C06.ExecProofs MV.C06.WithC03.

Theorem C06_invariant_every_schedule :
  forall (key : Type) (hash : key -> N) (keq : key -> key -> bool) (k : N), key_contract hash keq ->
  forall (ps : list (list (@op key))) (sched : list nat),
    InvAll hash keq k (fst (fst (exec (step hash keq k) site (init_config k ps) sched))).
Proof. exact @reachable_InvAll. Qed.

Theorem C06_unique_storage_all_schedules :
  forall (key : Type) (hash : key -> N) (keq : key -> key -> bool) (k : N), key_contract hash keq ->
  forall (ps : list (list (@op key))) (sched : list nat),
    let r := fst (fst (exec (step hash keq k) site (init_config k ps) sched)) in
    (forall kd key0, (cnt keq (abs r kd) key0 <= 1)%nat) /\
    (forall s, (scnt (all_entries r) s <= 1)%nat) /\
    (forall e, In e (all_entries r) -> (snd e < next_sid r)%N) /\
    (forall kd key0, ncreate keq (log r) kd key0 = (nremove keq (log r) kd key0 + cnt keq (abs r kd) key0)%nat) /\
    (forall newer kd k2 s2 mid k1 s1 older,
       log r = newer ++ EvRet kd k2 s2 :: mid ++ EvRet kd k1 s1 :: older ->
       keq k1 k2 = true -> (forall ev, In ev mid -> is_remove keq kd k1 ev = false) -> s1 = s2) /\
    (forall newer kd k1 s1 older, log r = newer ++ EvRet kd k1 s1 :: older ->
       (forall ev, In ev newer -> is_remove keq kd k1 ev = false) -> has keq (abs r kd) k1 s1).
Proof. exact @unique_storage_all_schedules. Qed.

Theorem C06_refines_one_map_per_kind :
  forall (key : Type) (hash : key -> N) (keq : key -> key -> bool) (k : N), key_contract hash keq ->
  forall r : @reg key, Inv hash keq k r ->
    (forall kd key0, find (matches hash keq (hash key0) key0) (get_shard r kd (shard_ix k (hash key0)))
                     = s_find keq (abs r kd) key0) /\
    (forall kd key0, let r' := insert r kd (shard_ix k (hash key0)) key0 in
       Permutation (abs r' kd) (s_insert (abs r kd) (key0, next_sid r))
       /\ (forall kd', kd <> kd' -> abs r' kd' = abs r kd') /\ next_sid r' = (next_sid r + 1)%N) /\
    (forall kd key0 found,
       find (matches hash keq (hash key0) key0) (get_shard r kd (shard_ix k (hash key0))) = Some found ->
       let r' := remove hash keq r kd (shard_ix k (hash key0)) (hash key0) key0 found in
       abs r' kd = s_remove keq (abs r kd) key0 /\ (forall kd', kd <> kd' -> abs r' kd' = abs r kd')) /\
    (forall kd i f, (i < nshards k)%nat ->
       abs (filter_shard r kd i f) kd = s_filter_band hash k (abs r kd) i f
       /\ (forall kd', kd <> kd' -> abs (filter_shard r kd i f) kd' = abs r kd')) /\
    (forall kd i, (i < nshards k)%nat -> get_shard r kd i = s_band hash k (abs r kd) i).
Proof. exact @refines_one_map_per_kind. Qed.

(* the sharded machine is simulated by the single-map reference machine of Spec.v along EVERY
   schedule: same step trace, same thread-local states (hence the same return values, listings and
   program counters), and the final states related by [Rel]: every hash band of the single map is
   the corresponding shard, same allocator, same construction log *)
Theorem C06_refines_every_schedule :
  forall (key : Type) (hash : key -> N) (keq : key -> key -> bool) (k : N), key_contract hash keq ->
  forall (ps : list (list (@op key))) (sched : list nat),
    exists sr, exec (sstep hash keq k) site (init_sreg, map init_local ps) sched
               = ((sr, snd (fst (exec (step hash keq k) site (init_config k ps) sched))),
                  snd (exec (step hash keq k) site (init_config k ps) sched))
               /\ Rel hash keq k (fst (fst (exec (step hash keq k) site (init_config k ps) sched))) sr.
Proof. exact @refines_every_schedule. Qed.

(* at quiescence (the call runs alone): visit / handles return exactly [abs] (each class at most
   once); delete returns true iff present and removes exactly that class; a retain call performs its
   2^k band steps and leaves exactly the entries satisfying the predicate; a clear call performs its
   3 * 2^k steps and leaves nothing *)
Theorem C06_listing_exact :
  forall (key : Type) (hash : key -> N) (keq : key -> key -> bool) (k : N), key_contract hash keq ->
  forall r : @reg key, Inv hash keq k r ->
    (forall (l : @local key) kd rest, pcl l = Run 0 [] -> todo l = OVisit kd :: rest ->
       solo hash keq k (nshards k) r l = Some (r, finish l (RList (abs r kd)))) /\
    (forall (l : @local key) kd rest, pcl l = Run 0 [] -> todo l = OHandles kd :: rest ->
       solo hash keq k (nshards k) r l = Some (r, finish l (RList (abs r kd)))) /\
    (forall kd key0, (cnt keq (abs r kd) key0 <= 1)%nat) /\
    (forall (l : @local key) j acc kd key0 rest, pcl l = Run j acc -> todo l = ODelete kd key0 :: rest ->
       exists r', step hash keq k r l = Some (r', finish l (RBool (match s_find keq (abs r kd) key0 with Some _ => true | None => false end)))
         /\ abs r' kd = s_remove keq (abs r kd) key0
         /\ (forall kd', kd <> kd' -> abs r' kd' = abs r kd')
         /\ cnt keq (abs r' kd) key0 = 0%nat
         /\ (forall key1, keq key0 key1 = false -> cnt keq (abs r' kd) key1 = cnt keq (abs r kd) key1)) /\
    (forall (l : @local key) kd p rest, pcl l = Run 0 [] -> todo l = ORetain kd p :: rest ->
       exists r', solo hash keq k (nshards k) r l = Some (r', finish l RUnit)
         /\ abs r' kd = filter (fun e => p (fst e) (snd e)) (abs r kd)
         /\ (forall kd', kd <> kd' -> abs r' kd' = abs r kd') /\ Inv hash keq k r') /\
    (forall (l : @local key) rest, pcl l = Run 0 [] -> todo l = OClear :: rest ->
       exists r', solo hash keq k (3 * nshards k) r l = Some (r', finish l RUnit)
         /\ (forall kd, abs r' kd = []) /\ Inv hash keq k r').
Proof. exact @listing_exact_full. Qed.

(* a caller-supplied closure that panics inside get_or_create_*: the registry changes exactly as for the
   same call with a returning closure (read-hit: nothing; create path: the entry is inserted and stays),
   only the outcome differs.  A poisoned shard lock is not state (every accessor recovers the guard), so all
   later operations are those of the registry the returning call would have left; the invariants, the
   refinement and the listing theorems above quantify over programs containing such calls. *)
Theorem C06_panicking_closure_as_returning_call :
  forall (key : Type) (hash : key -> N) (keq : key -> key -> bool) (k : N)
         (r : @reg key) (l l' : @local key) kd key0 rest rest',
    pcl l = pcl l' -> todo l = OGetOrCreateP kd key0 :: rest -> todo l' = OGetOrCreate kd key0 :: rest' ->
    match step hash keq k r l, step hash keq k r l' with
    | Some (r1, l1), Some (r2, l2) =>
        r1 = r2 /\ pcl l1 = pcl l2 /\
        ((results l1 = results l /\ results l2 = results l') \/
         (exists s, results l1 = RPanicked s :: results l /\ results l2 = RSid s :: results l'))
    | _, _ => False
    end.
Proof. exact @panicking_closure_as_returning_call. Qed.

(* the model's own run of every case (history or schedule, any k) passes the executable property:
   the single-map replay of the observed lock order *)
Theorem C06_spec_ok_on_model : forall c, consistent (okeys (case_keys c)) = true -> spec_ok c (run_case c) = true.
Proof. exact spec_ok_on_model. Qed.

(* what spec_ok accepts: equal keys were reported with equal hashes, and the observed trace, return
   values (listings up to order), completion flag, construction sequence and final listings are those
   of the single-map reference machine run on the observed order of lock acquisitions *)
Theorem C06_spec_ok_sound : forall c o, spec_ok c o = true ->
  consistent (okeys (snd (fst o))) = true /\
  let x := fst (fst o) in
  let tr := fst (fst (fst (fst x))) in
  let s := run_spec c (map tid tr) in
  fst (fst (fst (fst s))) = tr /\
  Forall2 (Forall2 cres_equiv) (snd (fst (fst (fst s)))) (snd (fst (fst (fst x)))) /\
  snd (fst (fst s)) = snd (fst (fst x)) /\
  snd (fst s) = snd (fst x) /\
  Forall2 (@Permutation (N * N)) (snd s) (snd x).
Proof. exact spec_ok_sound. Qed.

(* real keys (C03): a key is any construction path; hash = memoised get_hash for any byte-stream
   hash H; equality = key_eq.  The contract holds, so every theorem above applies with no remaining
   hypothesis beyond C03's own theorems. *)
Theorem C06_key_contract_from_C03 : forall H, key_contract (real_hash H) (real_keq H).
Proof. exact real_key_contract. Qed.

Theorem C06_instantiated_with_C03 :
  forall (H : list MV.C03.Model.bytes -> N) (k : N) (ps : list (list (@op real_key))) (sched : list nat),
    let r := fst (fst (exec (step (real_hash H) (real_keq H) k) site (init_config k ps) sched)) in
    InvAll (real_hash H) (real_keq H) k r /\
    (forall kd key0, (cnt (real_keq H) (abs r kd) key0 <= 1)%nat) /\
    (forall s, (scnt (all_entries r) s <= 1)%nat) /\
    (forall kd key0, ncreate (real_keq H) (log r) kd key0
                     = (nremove (real_keq H) (log r) kd key0 + cnt (real_keq H) (abs r kd) key0)%nat) /\
    (forall newer kd k2 s2 mid k1 s1 older,
       log r = newer ++ EvRet kd k2 s2 :: mid ++ EvRet kd k1 s1 :: older ->
       real_keq H k1 k2 = true -> (forall ev, In ev mid -> is_remove (real_keq H) kd k1 ev = false) -> s1 = s2).
Proof. exact instantiated_with_C03. Qed.

(* non-vacuity: the contract is satisfiable, and a race of two creators of one key (both miss under
   the read lock) followed by delete and re-creation behaves as stated *)
Example C06_nonvacuous :
  key_contract (fun c : N => c * 7)%N N.eqb /\
  let c := fst (exec (step (fun c : N => c * 7)%N N.eqb 2) site
                     (init_config 2 [[OGetOrCreate KCounter 5%N]; [OGetOrCreate KCounter 5%N; ODelete KCounter 5%N; OGetOrCreate KCounter 5%N]])
                     [0; 1; 0; 1; 0; 1; 1; 1; 1]%nat) in
  map (@results N) (snd c) = [[RSid 0%N]; [RSid 1%N; RBool true; RSid 0%N]] /\ next_sid (fst c) = 2%N.
Proof.
  split.
  - split; [apply N.eqb_refl|]. split; [apply N.eqb_sym|]. split.
    + intros a b c H1 H2. apply N.eqb_eq in H1, H2. subst. apply N.eqb_refl.
    + intros a b H. apply N.eqb_eq in H. subst. reflexivity.
  - vm_compute. split; reflexivity.
Qed.
