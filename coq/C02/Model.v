(* C02 — RecorderOnceCell (metrics/src/recorder/cell.rs) as an interleaving machine.

   Atomic steps = the yield sites of the hook commit (DESIGN.md appendix A):
     201 state.compare_exchange(UNINITIALIZED -> INITIALIZING)      (set)
     202 recorder.get().write(Some(Box::leak(..)))                   (set, winner only)
     203 state.store(INITIALIZED)                                    (set, winner only)
     204 state.load()                                                (try_load)
     205 recorder.get().read()                                       (try_load, only if 2 was read)
   A thread runs a list of calls: [CSet r] = cell.set(recorder r), [CLoad] = cell.try_load()
   (what every emission without a local recorder does first).  Recorders are tokens r : N.
   Ghost state (never read by control flow): the global log [glog].                              *)
From Coq Require Import List NArith Bool.
Import ListNotations.
Require Import MV.Common.Interleave.
Open Scope N_scope.

Inductive call := CSet (r : N) | CLoad.
Inductive res :=
| RSetOk (r : N)                (* set returned Ok(()); r = the recorder that was passed *)
| RSetErr (r : N)               (* set returned Err(SetRecorderError(r)) *)
| RLoad (o : option N).         (* try_load returned None / Some(recorder o) *)

Inductive pc := Start | I0 (r : N) | I1 (r : N) | I2 (r : N) | E0 | E1 | Done.

Inductive gev :=
| GE0 (t : N) (s : N)                    (* thread t loaded the state and read s *)
| GDisp (t : N) (o : option N) (s : N).  (* thread t's load call completed with o; its E0 had read s *)

Record local := { me : N; pcl : pc; todo : list call; results : list res (* newest first *) }.
Record shared := { state : N; cell : option N; glog : list gev (* newest first *) }.

Definition enter (m : N) (td : list call) (rs : list res) : local :=
  match td with
  | [] => {| me := m; pcl := Done; todo := []; results := rs |}
  | CSet r :: rest => {| me := m; pcl := I0 r; todo := rest; results := rs |}
  | CLoad :: rest => {| me := m; pcl := E0; todo := rest; results := rs |}
  end.

Definition step (s : shared) (l : local) : option (shared * local) :=
  match pcl l with
  | Start => Some (s, enter (me l) (todo l) (results l))
  | I0 r =>
      if state s =? 0
      then Some ({| state := 1; cell := cell s; glog := glog s |},
                 {| me := me l; pcl := I1 r; todo := todo l; results := results l |})
      else Some (s, enter (me l) (todo l) (RSetErr r :: results l))
  | I1 r => Some ({| state := state s; cell := Some r; glog := glog s |},
                  {| me := me l; pcl := I2 r; todo := todo l; results := results l |})
  | I2 r => Some ({| state := 2; cell := cell s; glog := glog s |},
                  enter (me l) (todo l) (RSetOk r :: results l))
  | E0 =>
      if state s =? 2
      then Some ({| state := state s; cell := cell s; glog := GE0 (me l) (state s) :: glog s |},
                 {| me := me l; pcl := E1; todo := todo l; results := results l |})
      else Some ({| state := state s; cell := cell s;
                    glog := GDisp (me l) None (state s) :: GE0 (me l) (state s) :: glog s |},
                 enter (me l) (todo l) (RLoad None :: results l))
  | E1 => Some ({| state := state s; cell := cell s; glog := GDisp (me l) (cell s) 2 :: glog s |},
                enter (me l) (todo l) (RLoad (cell s) :: results l))
  | Done => None
  end.

Definition site (l : local) : N :=
  match pcl l with
  | Start => 0 | I0 _ => 201 | I1 _ => 202 | I2 _ => 203 | E0 => 204 | E1 => 205 | Done => 0
  end.

Definition init_shared : shared := {| state := 0; cell := None; glog := [] |}.
Definition init_local (m : N) (p : list call) : local := {| me := m; pcl := Start; todo := p; results := [] |}.
Fixpoint init_locals (m : N) (ps : list (list call)) : list local :=
  match ps with [] => [] | p :: r => init_local m p :: init_locals (m + 1) r end.
Definition init_config (ps : list (list call)) : config := (init_shared, init_locals 0 ps).
