(* C02 — executable entry points for the correspondence check (schedule replay). *)
From Coq Require Import List NArith Bool.
Import ListNotations.
Require Export MV.Common.Interleave MV.C02.Model.
Open Scope N_scope.

(* a case: the per-thread programs and a schedule *)
Definition case := (list (list call) * list N)%type.

(* observable: the trace of (thread, site) steps, the per-thread results (oldest first),
   and whether everybody finished *)
Definition OUT := (list (N * N) * list (list res) * bool)%type.

Definition rr_fuel : nat := 64.

Definition run_case (c : case) : OUT :=
  let '(cf, tr) := exec_full step site rr_fuel (init_config (fst c)) (map N.to_nat (snd c)) in
  (tr, map (fun l => rev (results l)) (snd cf), all_done step cf).

Definition res_eqb (a b : res) : bool :=
  match a, b with
  | RSetOk r, RSetOk r' | RSetErr r, RSetErr r' => r =? r'
  | RLoad None, RLoad None => true
  | RLoad (Some r), RLoad (Some r') => r =? r'
  | _, _ => false
  end.
Fixpoint list_eqb {A} (eqb : A -> A -> bool) (a b : list A) : bool :=
  match a, b with
  | [], [] => true
  | x :: r, y :: r' => eqb x y && list_eqb eqb r r'
  | _, _ => false
  end.
Definition pair_eqb (a b : N * N) : bool := (fst a =? fst b) && (snd a =? snd b).
Definition out_eqb (a b : OUT) : bool :=
  let '(t1, r1, d1) := a in let '(t2, r2, d2) := b in
  list_eqb pair_eqb t1 t2 && list_eqb (list_eqb res_eqb) r1 r2 && Bool.eqb d1 d2.

(* ---- the property on an observed run (results per thread + step trace) --------------------
   (1) at most one set returned Ok;  (2) every Err hands back the recorder that call passed
   (checked against the thread's own program, in order);  (3) every Some(r) returned by a load
   is the recorder of the set that returned Ok;  (4) if all threads finished and some thread
   called set, exactly one Ok;  (5) stability: in step order, once a load completed with
   Some(r), every load that STARTS later completes with Some(r).                              *)
Definition oks_of (rs : list (list res)) : list N :=
  flat_map (fun l => flat_map (fun x => match x with RSetOk r => [r] | _ => [] end) l) rs.

(* results must follow the program call by call *)
Fixpoint follows (p : list call) (rs : list res) : bool :=
  match rs, p with
  | [], _ => true
  | RSetOk r :: rs', CSet r' :: p' => (r =? r') && follows p' rs'
  | RSetErr r :: rs', CSet r' :: p' => (r =? r') && follows p' rs'
  | RLoad _ :: rs', CLoad :: p' => follows p' rs'
  | _, _ => false
  end.

Fixpoint all2 {A B} (f : A -> B -> bool) (a : list A) (b : list B) : bool :=
  match a, b with
  | [], [] => true
  | x :: r, y :: r' => f x y && all2 f r r'
  | _, _ => false
  end.

Definition loads_ok (rs : list (list res)) : bool :=
  let w := oks_of rs in
  forallb (fun l => forallb (fun x => match x with
                                      | RLoad (Some r) => match w with [r'] => r =? r' | _ => false end
                                      | _ => true end) l) rs.

(* replay the trace to find, for each completed load, the step index at which it started (its
   site-204 step) and completed; thread-local order gives the k-th load of thread t *)
Fixpoint nth_load (rs : list res) (k : nat) : option (option N) :=
  match rs with
  | [] => None
  | RLoad o :: r => match k with O => Some o | S k' => nth_load r k' end
  | _ :: r => nth_load r k
  end.

(* walk the trace; [started t] = number of loads thread t has started; stable := after some load
   completed with Some r (a 205 step, or..), every 204 step that follows belongs to a load whose
   result is Some r *)
Fixpoint count_tid (t : N) (l : list N) : nat :=
  match l with [] => O | x :: r => (if x =? t then 1 else 0)%nat + count_tid t r end.

Fixpoint stable_walk (rs : list (list res)) (tr : list (N * N)) (started completed : list N)
         (seen : option N) : bool :=
  match tr with
  | [] => true
  | (t, s) :: r =>
      let res_t := nth (N.to_nat t) rs [] in
      if s =? 204 then
        (* the load that starts now is thread t's (count_tid t started)-th load *)
        let k := count_tid t started in
        let ok := match seen, nth_load res_t k with
                  | Some w, Some o => match o with Some r' => r' =? w | None => false end
                  | _, _ => true   (* nothing completed yet, or this load did not complete *)
                  end in
        (* a 204 step that reads a non-2 state completes the load at once with None *)
        let done_now := match nth_load res_t k with Some None => true | _ => false end in
        ok && stable_walk rs r (t :: started) (if done_now then t :: completed else completed) seen
      else if s =? 205 then
        let k := count_tid t completed in
        let seen' := match seen, nth_load res_t k with
                     | None, Some (Some w) => Some w
                     | _, _ => seen
                     end in
        stable_walk rs r started (t :: completed) seen'
      else stable_walk rs r started completed seen
  end.

Definition spec_ok (c : case) (o : OUT) : bool :=
  let '(tr, rs, done) := o in
  (Nat.leb (length (oks_of rs)) 1)
  && all2 follows (fst c) rs
  && loads_ok rs
  && (if done && existsb (fun p => existsb (fun x => match x with CSet _ => true | _ => false end) p) (fst c)
      then Nat.eqb (length (oks_of rs)) 1 else true)
  && stable_walk rs tr [] [] None.

Definition known_class (c : case) : option N := None.

Definition verdicts (l : list (N * case * OUT)) : list (N * bool * bool * option N) :=
  map (fun '(i, c, o) => (i, out_eqb (run_case c) o, spec_ok c o, known_class c)) l.
