(* C02 — property theorems.  [reach ps c]: configuration c is reached from the initial
   configuration of thread programs ps (any number of threads, any call lists) by SOME schedule;
   every theorem therefore holds for every schedule, at every atomic step of install and lookup. *)
From Coq Require Import List NArith Bool Arith.
Import ListNotations.
Require Import MV.Common.Interleave MV.C02.Model MV.C02.Proofs MV.C02.Proofs2 MV.C02.Exec MV.C02.ExecProofs
  MV.C02.ProofsWalk.
Open Scope N_scope.

Theorem C02_invariants_every_schedule : forall ps sched,
  InvAll ps (fst (exec step site (init_config ps) sched)).
Proof. exact reachable_InvAll. Qed.

Theorem C02_at_most_one_ok : forall ps c, reach ps c -> (total_oks c <= 1)%nat.
Proof. exact at_most_one_ok. Qed.

Theorem C02_loser_gets_own_recorder_back : forall ps c, reach ps c ->
  forall u x, nth_error (snd c) u = Some x ->
  nth_error ps u = Some (map call_of_res (rev (results x)) ++ pc_call (pcl x) ++ todo x).
Proof. exact loser_gets_own_recorder_back. Qed.

Theorem C02_some_installer_wins_when_done : forall ps c, reach ps c ->
  all_done step c = true ->
  (exists u p r, nth_error ps u = Some p /\ In (CSet r) p) ->
  total_oks c = 1%nat.
Proof. exact some_installer_wins_when_done. Qed.

Theorem C02_reader_sees_whole_winner : forall ps c, reach ps c ->
  forall u x r, nth_error (snd c) u = Some x -> In (RLoad (Some r)) (results x) ->
  state (fst c) = 2 /\ cell (fst c) = Some r /\
  forall u' x' r', nth_error (snd c) u' = Some x' -> In (RSetOk r') (results x') -> r' = r.
Proof. exact reader_sees_whole_winner. Qed.

Theorem C02_stable_after_first_dispatch : forall ps c, reach ps c ->
  forall newer t r s0 older, glog (fst c) = newer ++ GDisp t (Some r) s0 :: older ->
  Forall (fun e => match e with
                   | GE0 _ s1 => s1 = 2
                   | GDisp _ o s1 => s1 = 2 /\ o = Some r
                   end) newer.
Proof. exact stable_after_first_dispatch. Qed.

Theorem C02_before_install_noop : forall ps c, reach ps c ->
  (forall t s0, In (GDisp t None s0) (glog (fst c)) -> s0 <> 2) /\
  (forall t r s0, In (GDisp t (Some r) s0) (glog (fst c)) -> s0 = 2).
Proof. exact before_install_noop. Qed.

(* the executable property evaluated by the check holds on the model's own run of ANY case
   (any number of threads, any programs, any schedule, out-of-range thread indices and the
   round-robin tail included), with no hypothesis on the case: all five clauses of Exec.spec_ok --
   (1) at most one Ok, (2) results follow the thread's own program call by call, (3) every Some
   load is the winner, (4) exactly one Ok when everybody finished and somebody called set, and
   (5) the stability walk over the step trace read against the final per-thread results. *)
Theorem C02_spec_ok_on_model : forall c : case, spec_ok c (run_case c) = true.
Proof. exact spec_ok_on_model. Qed.
