(* C02 — the executable property on the model's own runs: clauses (1)-(4) of Exec.spec_ok are
   proved for every case; clause (5) (the stability walk over the step trace) is the executable
   counterpart of Proofs2.stable_after_first_dispatch and is evaluated per run, not proved here. *)
From Coq Require Import List NArith Bool Arith Lia.
Import ListNotations.
Require Import MV.Common.Interleave MV.C02.Model MV.C02.Proofs MV.C02.Proofs2 MV.C02.Exec.
Open Scope N_scope.

Definition final (c : case) : cfg :=
  fst (exec_full step site rr_fuel (init_config (fst c)) (map N.to_nat (snd c))).

Lemma final_reach c : reach (fst c) (final c).
Proof.
  unfold final, reach. destruct (exec_full_is_exec step site rr_fuel (init_config (fst c)) (map N.to_nat (snd c))) as [s Hs].
  exists (map N.to_nat (snd c) ++ s). exact Hs.
Qed.

Lemma run_case_final c :
  run_case c = (snd (exec_full step site rr_fuel (init_config (fst c)) (map N.to_nat (snd c))),
                map (fun l => rev (results l)) (snd (final c)), all_done step (final c)).
Proof. unfold run_case, final. destruct (exec_full step site rr_fuel _ _) as [cf tr]. reflexivity. Qed.

Lemma oks_of_length ls : length (oks_of (map (fun l => rev (results l)) ls)) = sumf oks ls.
Proof.
  induction ls as [|l r IH]; [reflexivity|]. cbn [map oks_of flat_map sumf]. rewrite app_length.
  change (flat_map _ (map _ r)) with (oks_of (map (fun l => rev (results l)) r)). rewrite IH. f_equal.
  unfold oks. generalize (results l). intros rs.
  assert (H : forall xs, length (flat_map (fun x => match x with RSetOk r0 => [r0] | _ => [] end) xs) = length (filter is_ok xs)).
  { induction xs as [|x xs IHx]; [reflexivity|]. destruct x; cbn; auto. }
  rewrite H. clear. 
  assert (G : forall xs : list res, length (filter is_ok (rev xs)) = length (filter is_ok xs)).
  { induction xs as [|x xs IHx]; [reflexivity|]. cbn [rev]. rewrite filter_app, app_length, IHx. cbn. destruct (is_ok x); cbn; lia. }
  apply G.
Qed.

Lemma follows_map rs : forall rest, follows (map call_of_res rs ++ rest) rs = true.
Proof.
  induction rs as [|x rs IH]; intros rest; [destruct rest; reflexivity|].
  destruct x as [r|r|o]; cbn; rewrite ?N.eqb_refl; apply IH.
Qed.

Lemma all2_follows ps ls : map prog_of ls = ps -> all2 follows ps (map (fun l => rev (results l)) ls) = true.
Proof.
  revert ps. induction ls as [|l r IH]; intros ps H; subst ps; [reflexivity|].
  cbn [map all2]. rewrite IH by reflexivity. rewrite andb_true_r. unfold prog_of. apply follows_map.
Qed.

Lemma in_oks_of rs w : In w (oks_of rs) -> exists l, In l rs /\ In (RSetOk w) l.
Proof.
  unfold oks_of. rewrite in_flat_map. intros (l & Hl & Hw). exists l. split; [exact Hl|].
  rewrite in_flat_map in Hw. destruct Hw as (x & Hx & Hw). destruct x; cbn in Hw; try contradiction.
  destruct Hw as [->|[]]. exact Hx.
Qed.

Theorem spec_clauses_on_model c :
  let '(tr, rs, done) := run_case c in
  (length (oks_of rs) <= 1)%nat /\
  all2 follows (fst c) rs = true /\
  loads_ok rs = true /\
  (done = true -> (exists u p r, nth_error (fst c) u = Some p /\ In (CSet r) p) -> length (oks_of rs) = 1%nat).
Proof.
  rewrite run_case_final. pose proof (final_reach c) as Hr. set (cf := final c) in *.
  destruct Hr as [sched E]. pose proof (reachable_InvAll (fst c) sched) as HI. rewrite <- E in HI.
  destruct HI as ([Hc [Hl _]] & Hprog & _).
  rewrite oks_of_length.
  split; [destruct Hc as [(_ & _ & H & _)|[(_ & _ & H)|(_ & _ & H & _)]]; lia|].
  split; [apply all2_follows; exact Hprog|].
  split.
  - unfold loads_ok. rewrite forallb_forall. intros l Hl0. rewrite forallb_forall. intros x Hx.
    destruct x as [r|r|[r|]]; auto.
    apply in_map_iff in Hl0 as (l0 & <- & Hl0). apply In_nth_error in Hl0 as [u Hu].
    apply in_rev in Hx. destruct (Hl u l0 Hu) as (_ & _ & _ & _ & HL). destruct (HL r Hx) as [Hs2 Hcell].
    assert (Hone : sumf oks (snd cf) = 1%nat) by (destruct Hc as [(H0 & _)|[(H0 & _)|(_ & _ & H & _)]]; [congruence|congruence|exact H]).
    rewrite <- oks_of_length in Hone.
    destruct (oks_of (map (fun l1 => rev (results l1)) (snd cf))) as [|w [|w' rest]] eqn:Eo; try discriminate.
    assert (Hin : In w (oks_of (map (fun l1 => rev (results l1)) (snd cf)))) by (rewrite Eo; left; reflexivity).
    apply in_oks_of in Hin as (l1 & Hl1 & Hw). apply in_map_iff in Hl1 as (l2 & <- & Hl2).
    apply In_nth_error in Hl2 as [u2 Hu2]. apply in_rev in Hw.
    destruct (Hl u2 l2 Hu2) as (_ & _ & _ & HK & _). destruct (HK w Hw) as [_ Hcw].
    assert (r = w) by congruence. subst. apply N.eqb_refl.
  - intros Hd Hex. apply (some_installer_wins_when_done (fst c) cf); [exists sched; exact E|exact Hd|exact Hex].
Qed.
