From Coq Require Import List NArith Bool Arith.
Import ListNotations.
Require Import MV.Common.Interleave MV.C02.Model MV.C02.Proofs MV.C02.Proofs2 MV.C02.Exec MV.C02.ExecProofs
  MV.C02.ProofsWalk.
Open Scope N_scope.
Require Import MV.C02.Properties.

Check (C02_invariants_every_schedule : forall ps sched,
  InvAll ps (fst (exec step site (init_config ps) sched))).
Print Assumptions C02_invariants_every_schedule.
Check (C02_at_most_one_ok : forall ps c, reach ps c -> (total_oks c <= 1)%nat).
Print Assumptions C02_at_most_one_ok.
Check (C02_loser_gets_own_recorder_back : forall ps c, reach ps c ->
  forall u x, nth_error (snd c) u = Some x ->
  nth_error ps u = Some (map call_of_res (rev (results x)) ++ pc_call (pcl x) ++ todo x)).
Print Assumptions C02_loser_gets_own_recorder_back.
Check (C02_some_installer_wins_when_done : forall ps c, reach ps c ->
  all_done step c = true ->
  (exists u p r, nth_error ps u = Some p /\ In (CSet r) p) ->
  total_oks c = 1%nat).
Print Assumptions C02_some_installer_wins_when_done.
Check (C02_reader_sees_whole_winner : forall ps c, reach ps c ->
  forall u x r, nth_error (snd c) u = Some x -> In (RLoad (Some r)) (results x) ->
  state (fst c) = 2 /\ cell (fst c) = Some r /\
  forall u' x' r', nth_error (snd c) u' = Some x' -> In (RSetOk r') (results x') -> r' = r).
Print Assumptions C02_reader_sees_whole_winner.
Check (C02_stable_after_first_dispatch : forall ps c, reach ps c ->
  forall newer t r s0 older, glog (fst c) = newer ++ GDisp t (Some r) s0 :: older ->
  Forall (fun e => match e with
                   | GE0 _ s1 => s1 = 2
                   | GDisp _ o s1 => s1 = 2 /\ o = Some r
                   end) newer).
Print Assumptions C02_stable_after_first_dispatch.
Check (C02_before_install_noop : forall ps c, reach ps c ->
  (forall t s0, In (GDisp t None s0) (glog (fst c)) -> s0 <> 2) /\
  (forall t r s0, In (GDisp t (Some r) s0) (glog (fst c)) -> s0 = 2)).
Print Assumptions C02_before_install_noop.
Check (C02_spec_ok_on_model : forall c : case, spec_ok c (run_case c) = true).
Print Assumptions C02_spec_ok_on_model.
