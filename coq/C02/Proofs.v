(* C02 — invariants of the once-cell machine, preserved by every atomic step, hence along every
   schedule (Interleave.invariant_all_schedules). *)
From Coq Require Import List NArith Bool Arith Lia.
Import ListNotations.
Require Import MV.Common.Interleave MV.C02.Model.
Open Scope N_scope.

Definition hold (l : local) : nat := match pcl l with I1 _ | I2 _ => 1 | _ => 0 end.
Definition is_ok (x : res) : bool := match x with RSetOk _ => true | _ => false end.
Definition oks (l : local) : nat := length (filter is_ok (results l)).

(* per-thread facts relative to the shared state *)
Definition lok (s : shared) (l : local) : Prop :=
  (pcl l = E1 -> state s = 2) /\
  (forall r, pcl l = I1 r -> state s = 1 /\ cell s = None) /\
  (forall r, pcl l = I2 r -> state s = 1 /\ cell s = Some r) /\
  (forall r, In (RSetOk r) (results l) -> state s = 2 /\ cell s = Some r) /\
  (forall r, In (RLoad (Some r)) (results l) -> state s = 2 /\ cell s = Some r).

Definition is_some_disp (e : gev) : bool := match e with GDisp _ (Some _) _ => true | _ => false end.
Definition has_some (g : list gev) : bool := existsb is_some_disp g.

(* newest first: everything logged after a dispatch to Some(r) has read INITIALIZED and, if it is
   a completed load, went to a recorder *)
Fixpoint stable (g : list gev) : Prop :=
  match g with
  | [] => True
  | e :: older =>
      stable older /\
      (has_some older = true ->
       match e with GE0 _ s0 => s0 = 2 | GDisp _ o s0 => s0 = 2 /\ o <> None end)
  end.

Definition gok (s : shared) : Prop :=
  (forall t r s0, In (GDisp t (Some r) s0) (glog s) -> s0 = 2 /\ state s = 2 /\ cell s = Some r) /\
  (forall t s0, In (GDisp t None s0) (glog s) -> s0 <> 2) /\
  stable (glog s).

Definition cnt (s : shared) (ls : list local) : Prop :=
  (state s = 0 /\ sumf hold ls = 0%nat /\ sumf oks ls = 0%nat /\ cell s = None) \/
  (state s = 1 /\ sumf hold ls = 1%nat /\ sumf oks ls = 0%nat) \/
  (state s = 2 /\ sumf hold ls = 0%nat /\ sumf oks ls = 1%nat /\ cell s <> None).

Definition Inv (c : config) : Prop :=
  cnt (fst c) (snd c) /\ (forall u x, nth_error (snd c) u = Some x -> lok (fst c) x) /\ gok (fst c).

Lemma has_some_in g : has_some g = true -> exists t r s0, In (GDisp t (Some r) s0) g.
Proof.
  unfold has_some. rewrite existsb_exists. intros [e [Hin He]].
  destruct e as [|t [r|] s0]; try discriminate. eauto.
Qed.

Lemma enter_pc m td rs : pcl (enter m td rs) = Done \/ (exists r, pcl (enter m td rs) = I0 r) \/ pcl (enter m td rs) = E0.
Proof. destruct td as [|[r|] td]; cbn; eauto. Qed.
Lemma enter_results m td rs : results (enter m td rs) = rs.
Proof. destruct td as [|[r|] td]; reflexivity. Qed.
Lemma enter_hold m td rs : hold (enter m td rs) = 0%nat.
Proof. unfold hold. destruct (enter_pc m td rs) as [H|[[r H]|H]]; rewrite H; reflexivity. Qed.
Lemma enter_oks m td rs : oks (enter m td rs) = length (filter is_ok rs).
Proof. unfold oks. rewrite enter_results. reflexivity. Qed.

Lemma lok_enter s m td rs :
  (forall r, In (RSetOk r) rs -> state s = 2 /\ cell s = Some r) ->
  (forall r, In (RLoad (Some r)) rs -> state s = 2 /\ cell s = Some r) ->
  lok s (enter m td rs).
Proof.
  intros H1 H2. unfold lok. rewrite enter_results.
  assert (HE1 : pcl (enter m td rs) <> E1) by (destruct (enter_pc m td rs) as [H|[[r H]|H]]; rewrite H; discriminate).
  assert (HI1 : forall r, pcl (enter m td rs) <> I1 r) by (intros r0; destruct (enter_pc m td rs) as [H|[[r H]|H]]; rewrite H; discriminate).
  assert (HI2 : forall r, pcl (enter m td rs) <> I2 r) by (intros r0; destruct (enter_pc m td rs) as [H|[[r H]|H]]; rewrite H; discriminate).
  split; [intros E; contradiction|].
  split; [intros r E; exfalso; eapply HI1; eauto|].
  split; [intros r E; exfalso; eapply HI2; eauto|].
  split; assumption.
Qed.

Lemma init_locals_inv ps : forall m u x, nth_error (init_locals m ps) u = Some x ->
  pcl x = Start /\ results x = [].
Proof.
  induction ps as [|p r IH]; intros m [|u] x H; cbn in H; try discriminate.
  - inversion H; subst. split; reflexivity.
  - eapply IH; eauto.
Qed.

Lemma init_locals_sum (f : local -> nat) ps : (forall m p, f (init_local m p) = 0%nat) ->
  forall m, sumf f (init_locals m ps) = 0%nat.
Proof. intros Hf. induction ps as [|p r IH]; intros m; cbn [init_locals sumf]; [reflexivity|]. rewrite Hf, IH. reflexivity. Qed.

Lemma lok_start s x : pcl x = Start -> results x = [] -> lok s x.
Proof.
  intros E R. unfold lok. rewrite E, R.
  split; [discriminate|]. split; [discriminate|]. split; [discriminate|].
  split; intros r [].
Qed.

Lemma Inv_init ps : Inv (init_config ps).
Proof.
  unfold Inv, init_config. cbn [fst snd]. split; [|split].
  - left. cbn. repeat split; apply init_locals_sum; intros; reflexivity.
  - intros u x H. destruct (init_locals_inv ps 0 u x H) as [E R]. apply lok_start; assumption.
  - unfold gok. cbn. split; [|split]; [intros t r s0 []|intros t s0 []|exact I].
Qed.

(* ------------------------------------------------------------------ every step preserves Inv *)
Lemma cnt_same s s' ls ls' :
  state s' = state s -> cell s' = cell s ->
  sumf hold ls' = sumf hold ls -> sumf oks ls' = sumf oks ls -> cnt s ls -> cnt s' ls'.
Proof. intros E1 E2 H1 H2. unfold cnt. rewrite E1, E2, H1, H2. auto. Qed.

Ltac lok_contra Hx :=
  (* Hx : lok s x, and the context contains state s = k for a k that contradicts *)
  let a := fresh in let b := fresh in let c := fresh in let d := fresh in let e := fresh in
  destruct Hx as (a & b & c & d & e).

Lemma step_preserves_Inv : step_preserves step Inv.
Proof.
  intros s ls t l s' l' [Hcnt [Hlok Hg]] Hnth Hstep. unfold Inv. cbn [fst snd] in *.
  pose proof (Hlok t l Hnth) as Hl.
  assert (Hsum : forall (f : local -> nat) a b, f l = a -> f l' = b -> (sumf f (upd ls t l') + a = sumf f ls + b)%nat)
    by (intros f a b <- <-; apply sumf_upd; exact Hnth).
  assert (Hhl : forall k, (match pcl l with I1 _ | I2 _ => 1 | _ => 0 end)%nat = k -> hold l = k) by (intros k <-; reflexivity).
  assert (Hothers : forall (P : local -> Prop),
            P l' -> (forall u x, u <> t -> nth_error ls u = Some x -> P x) ->
            forall u x, nth_error (upd ls t l') u = Some x -> P x).
  { intros P Hl' Ho u x Hu. destruct (nth_error_upd_cases ls t l' u x Hu) as [[-> ->]|[Hne E]]; eauto. }
  unfold step in Hstep. destruct (pcl l) eqn:Hpc.
  - (* Start *)
    inversion Hstep; subst s' l'; clear Hstep.
    destruct Hl as (_ & _ & _ & HK & HL).
    split; [|split]; [| |exact Hg].
    +
      pose proof (Hsum hold _ _ (Hhl _ eq_refl) (enter_hold _ _ _)) as H1.
      pose proof (Hsum oks (oks l) (oks l) eq_refl (enter_oks _ _ _)) as H2.
      apply (cnt_same s s ls); auto; lia.
    + apply Hothers; [apply lok_enter; assumption|]. intros u x _ Hu. eapply Hlok; eauto.
  - (* I0 r *)
    destruct (N.eqb_spec (state s) 0) as [Hs0|Hs0]; inversion Hstep; subst s' l'; clear Hstep.
    + (* CAS succeeds *)
      destruct Hcnt as [(_ & Hh & Ho & Hc)|[(Hs1 & _)|(Hs2 & _)]]; try congruence.
      split; [|split].
      * right; left. cbn [state].
        pose proof (Hsum hold _ 1%nat (Hhl _ eq_refl) eq_refl) as H1.
        pose proof (Hsum oks (oks l) (oks l) eq_refl eq_refl) as H2.
        repeat split; lia.
      * apply Hothers.
        -- destruct Hl as (_ & _ & _ & HK & HL). unfold lok. cbn [pcl results state cell].
           split; [discriminate|]. split; [intros r0 _; split; [reflexivity|exact Hc]|].
           split; [discriminate|]. split; intros r0 Hin; [destruct (HK r0 Hin)|destruct (HL r0 Hin)]; congruence.
        -- intros u x _ Hu. destruct (Hlok u x Hu) as (A & B & C & D & E).
           unfold lok. cbn [state cell].
           split; [intros H; specialize (A H); congruence|].
           split; [intros r0 H; destruct (B r0 H); congruence|].
           split; [intros r0 H; destruct (C r0 H); congruence|].
           split; intros r0 H; [destruct (D r0 H)|destruct (E r0 H)]; congruence.
      * destruct Hg as (G1 & G2 & G3). unfold gok. cbn [glog state cell].
        split; [intros t0 r0 s0 H; destruct (G1 t0 r0 s0 H) as (_ & ? & _); congruence|].
        split; assumption.
    + (* CAS fails: the recorder is handed back *)
      destruct Hl as (_ & _ & _ & HK & HL).
      split; [|split]; [| |exact Hg].
      *
        pose proof (Hsum hold _ _ (Hhl _ eq_refl) (enter_hold _ _ _)) as H1.
        pose proof (Hsum oks (oks l) (oks l) eq_refl (enter_oks _ _ _)) as H2.
        apply (cnt_same s s ls); auto; lia.
      * apply Hothers; [|intros u x _ Hu; eapply Hlok; eauto].
        apply lok_enter; intros r0 [H|H]; try discriminate; auto.
  - (* I1 r : pointer write *)
    inversion Hstep; subst s' l'; clear Hstep.
    destruct Hl as (_ & HI1 & _ & HK & HL). destruct (HI1 r Hpc) as [Hs1 Hc].
    destruct Hcnt as [(Hs0 & _)|[(_ & Hh & Ho)|(Hs2 & _)]]; try congruence.
    assert (Huniq : forall u x, u <> t -> nth_error ls u = Some x -> hold x = 0%nat).
    { eapply sumf_unique; eauto. rewrite (Hhl _ eq_refl). exact Hh. }
    split; [|split].
    + right; left. cbn [state].
      pose proof (Hsum hold _ 1%nat (Hhl _ eq_refl) eq_refl) as H1.
      pose proof (Hsum oks (oks l) (oks l) eq_refl eq_refl) as H2.
      repeat split; try lia; try exact Hs1.
    + apply Hothers.
      * unfold lok. cbn [pcl results state cell].
        split; [discriminate|]. split; [discriminate|].
        split; [intros r0 E; inversion E; subst; split; [exact Hs1|reflexivity]|].
        split; intros r0 Hin; [destruct (HK r0 Hin)|destruct (HL r0 Hin)]; congruence.
      * intros u x Hne Hu. destruct (Hlok u x Hu) as (A & B & C & D & E).
        pose proof (Huniq u x Hne Hu) as Hx. unfold hold in Hx.
        unfold lok. cbn [state cell].
        split; [intros H; specialize (A H); congruence|].
        split; [intros r0 H; rewrite H in Hx; discriminate|].
        split; [intros r0 H; rewrite H in Hx; discriminate|].
        split; intros r0 H; [destruct (D r0 H)|destruct (E r0 H)]; congruence.
    + destruct Hg as (G1 & G2 & G3). unfold gok. cbn [glog state cell].
      split; [intros t0 r0 s0 H; destruct (G1 t0 r0 s0 H) as (_ & ? & _); congruence|].
      split; assumption.
  - (* I2 r : publish INITIALIZED *)
    inversion Hstep; subst s' l'; clear Hstep.
    destruct Hl as (_ & _ & HI2 & HK & HL). destruct (HI2 r Hpc) as [Hs1 Hc].
    destruct Hcnt as [(Hs0 & _)|[(_ & Hh & Ho)|(Hs2 & _)]]; try congruence.
    assert (Huniq : forall u x, u <> t -> nth_error ls u = Some x -> hold x = 0%nat).
    { eapply sumf_unique; eauto. rewrite (Hhl _ eq_refl). exact Hh. }
    split; [|split].
    + right; right. cbn [state cell].
      pose proof (Hsum hold _ _ (Hhl _ eq_refl) (enter_hold _ _ _)) as H1.
      pose proof (Hsum oks (oks l) (S (oks l)) eq_refl (enter_oks _ _ _)) as H2.
      repeat split; try lia. congruence.
    + apply Hothers.
      * apply lok_enter; cbn [state cell].
        -- intros r0 [H|H]; [inversion H; subst; split; [reflexivity|exact Hc]|destruct (HK r0 H); congruence].
        -- intros r0 [H|H]; [discriminate|destruct (HL r0 H); congruence].
      * intros u x Hne Hu. destruct (Hlok u x Hu) as (A & B & C & D & E).
        pose proof (Huniq u x Hne Hu) as Hx. unfold hold in Hx.
        unfold lok. cbn [state cell].
        split; [intros H; specialize (A H); congruence|].
        split; [intros r0 H; rewrite H in Hx; discriminate|].
        split; [intros r0 H; rewrite H in Hx; discriminate|].
        split; intros r0 H; [destruct (D r0 H)|destruct (E r0 H)]; congruence.
    + destruct Hg as (G1 & G2 & G3). unfold gok. cbn [glog state cell].
      split; [intros t0 r0 s0 H; destruct (G1 t0 r0 s0 H) as (_ & ? & _); congruence|].
      split; assumption.
  - (* E0 : load the state *)
    destruct Hl as (_ & _ & _ & HK & HL). destruct Hg as (G1 & G2 & G3).
    assert (Hlok' : forall sx, state sx = state s -> cell sx = cell s -> forall x, lok s x -> lok sx x).
    { intros sx E1' E2' x (A & B & C & D & E). unfold lok. rewrite E1', E2'.
      split; [exact A|split; [exact B|split; [exact C|split; [exact D|exact E]]]]. }
    destruct (N.eqb_spec (state s) 2) as [Hs2|Hs2]; inversion Hstep; subst s' l'; clear Hstep.
    + split; [|split].
      *
        pose proof (Hsum hold _ 0%nat (Hhl _ eq_refl) eq_refl) as H1.
        pose proof (Hsum oks (oks l) (oks l) eq_refl eq_refl) as H2.
        apply (cnt_same s _ ls); auto; lia.
      * apply Hothers.
        -- unfold lok. cbn [pcl results state cell].
           split; [intros _; exact Hs2|]. split; [discriminate|]. split; [discriminate|]. split; assumption.
        -- intros u x _ Hu. apply Hlok'; try reflexivity. eapply Hlok; eauto.
      * unfold gok. cbn [glog state cell].
        split; [intros t0 r0 s0 [H|H]; [discriminate|eauto]|].
        split; [intros t0 s0 [H|H]; [discriminate|eauto]|].
        cbn [stable]. split; [exact G3|]. intros _. exact Hs2.
    + split; [|split].
      *
        pose proof (Hsum hold _ _ (Hhl _ eq_refl) (enter_hold _ _ _)) as H1.
        pose proof (Hsum oks (oks l) (oks l) eq_refl (enter_oks _ _ _)) as H2.
        apply (cnt_same s _ ls); auto; lia.
      * apply Hothers.
        -- apply lok_enter; cbn [state cell]; intros r0 [H|H]; try discriminate; auto.
        -- intros u x _ Hu. apply Hlok'; try reflexivity. eapply Hlok; eauto.
      * unfold gok. cbn [glog state cell].
        split; [intros t0 r0 s0 [H|[H|H]]; try discriminate; eauto|].
        split; [intros t0 s0 [H|[H|H]]; [inversion H; subst; exact Hs2|discriminate|eauto]|].
        cbn [stable]. 
        assert (Hno : has_some (glog s) = true -> False).
        { intros H. destruct (has_some_in _ H) as (t0 & r0 & s0 & Hin). destruct (G1 _ _ _ Hin) as (_ & ? & _). congruence. }
        split; [split; [exact G3|intros H; destruct (Hno H)]|].
        unfold has_some. cbn [existsb is_some_disp orb]. intros H; destruct (Hno H).
  - (* E1 : read the pointer *)
    destruct Hl as (HE1 & _ & _ & HK & HL). destruct Hg as (G1 & G2 & G3).
    pose proof (HE1 Hpc) as Hs2.
    inversion Hstep; subst s' l'; clear Hstep.
    destruct Hcnt as [(Hs0 & _)|[(Hs1 & _)|(_ & Hh & Ho & Hc)]]; try congruence.
    destruct (cell s) as [w|] eqn:Hcell; [|congruence].
    assert (Hlok' : forall sx, state sx = state s -> cell sx = cell s -> forall x, lok s x -> lok sx x).
    { intros sx E1' E2' x (A & B & C & D & E). unfold lok. rewrite E1', E2'.
      split; [exact A|split; [exact B|split; [exact C|split; [exact D|exact E]]]]. }
    split; [|split].
    +
      pose proof (Hsum hold _ _ (Hhl _ eq_refl) (enter_hold _ _ _)) as H1.
      pose proof (Hsum oks (oks l) (oks l) eq_refl (enter_oks _ _ _)) as H2.
      right; right. cbn [state cell].
      repeat split; try lia; congruence.
    + apply Hothers.
      * apply lok_enter; cbn [state cell].
        -- intros r0 [H|H]; [discriminate|]. apply HK. exact H.
        -- intros r0 [H|H]; [inversion H; subst; split; [exact Hs2|reflexivity]|].
           apply HL. exact H.
      * intros u x _ Hu. apply Hlok'; cbn [state cell]; try reflexivity; try (symmetry; exact Hcell). eapply Hlok; eauto.
    + unfold gok. cbn [glog state cell].
      split; [intros t0 r0 s0 [H|H]; [inversion H; subst; auto|eauto]|].
      split; [intros t0 s0 [H|H]; [discriminate|eauto]|].
      cbn [stable]. split; [exact G3|]. intros _. split; [reflexivity|discriminate].
  - discriminate.
Qed.
