(* C02 — clause (5) of Exec.spec_ok (the stability walk over the step trace, read against the FINAL
   per-thread results) holds on the model's own run of every case, for every schedule, round-robin
   tail included; hence the single theorem spec_ok c (run_case c) = true.

   Method: a trace-indexed invariant (Common/InterleaveTrace.exec_full_trace).  The walker reads
   results that may only be produced LATER than the trace entry it is looking at (a load that
   starts at a 204 step completes at a later 205 step), so the invariant is phrased against every
   result table [rsf] that is COMPATIBLE with the current configuration:
     - each thread's results so far (oldest first) are a prefix of its row of rsf, and
     - a thread parked between its state read and its pointer read (pc = E1) has, as the next
       entry of its row, if any, RLoad (Some w) for the w the cell holds now.
   Compatibility is preserved BACKWARDS by every step (compat_back), and the final configuration
   is compatible with its own result table (compat_final); so the invariant at the end, taken at
   the final table, is exactly the walk Exec.spec_ok performs.                                   *)
From Coq Require Import List NArith Bool Arith Lia.
Import ListNotations.
Require Import MV.Common.Interleave MV.Common.InterleaveTrace.
Require Import MV.C02.Model MV.C02.Proofs MV.C02.Proofs2 MV.C02.Exec MV.C02.ExecProofs.
Open Scope N_scope.

(* ---------------------------------------------------------------- counting loads in results *)
Definition is_load (x : res) : bool := match x with RLoad _ => true | _ => false end.
Definition nloads (rs : list res) : nat := length (filter is_load rs).

Lemma nloads_app a b : nloads (a ++ b) = (nloads a + nloads b)%nat.
Proof. unfold nloads. rewrite filter_app, app_length. reflexivity. Qed.

Lemma nloads_rev a : nloads (rev a) = nloads a.
Proof.
  induction a as [|x a IH]; [reflexivity|]. cbn [rev]. rewrite nloads_app, IH.
  unfold nloads. cbn [filter]. destruct (is_load x); cbn [length]; lia.
Qed.

Lemma nth_load_app a b : forall j, nth_load (a ++ b) (nloads a + j) = nth_load b j.
Proof.
  induction a as [|x a IH]; intros j; [reflexivity|].
  destruct x as [r|r|o]; cbn [app nth_load]; exact (IH j).
Qed.

Lemma nth_load_prefix rs suf :
  nth_load (rev rs ++ suf) (nloads rs) = nth_load suf 0.
Proof. rewrite <- (nloads_rev rs). rewrite <- (Nat.add_0_r (nloads (rev rs))). apply nth_load_app. Qed.

(* ---------------------------------------------------------------- one walker step, unfolded *)
Lemma walk_other rsf t sx r st co se :
  sx <> 204 -> sx <> 205 -> stable_walk rsf ((t, sx) :: r) st co se = stable_walk rsf r st co se.
Proof.
  intros H1 H2. cbn [stable_walk].
  destruct (N.eqb_spec sx 204); [congruence|]. destruct (N.eqb_spec sx 205); [congruence|]. reflexivity.
Qed.

Lemma walk_204 rsf t r st co se :
  stable_walk rsf ((t, 204) :: r) st co se =
  (match se, nth_load (nth (N.to_nat t) rsf []) (count_tid t st) with
   | Some w, Some o => match o with Some r' => r' =? w | None => false end
   | _, _ => true
   end)
  && stable_walk rsf r (t :: st)
       (if match nth_load (nth (N.to_nat t) rsf []) (count_tid t st) with Some None => true | _ => false end
        then t :: co else co) se.
Proof. reflexivity. Qed.

Lemma walk_205 rsf t r st co se :
  stable_walk rsf ((t, 205) :: r) st co se =
  stable_walk rsf r st (t :: co)
    (match se, nth_load (nth (N.to_nat t) rsf []) (count_tid t co) with
     | None, Some (Some w) => Some w
     | _, _ => se
     end).
Proof. reflexivity. Qed.

Lemma count_tid_cons_same t l : count_tid t (t :: l) = S (count_tid t l).
Proof. cbn [count_tid]. rewrite N.eqb_refl. reflexivity. Qed.

Lemma count_tid_cons_other t u l : u <> t -> count_tid (N.of_nat u) (N.of_nat t :: l) = count_tid (N.of_nat u) l.
Proof.
  intros H. cbn [count_tid]. destruct (N.eqb_spec (N.of_nat t) (N.of_nat u)) as [E|E]; [|reflexivity].
  apply Nat2N.inj in E. congruence.
Qed.

(* ---------------------------------------------------------------- the relation *)
Definition e1bit (p : pc) : nat := match p with E1 => 1 | _ => 0 end.

(* walker state vs configuration *)
Definition J (c : cfg) (st co : list N) (se : option N) : Prop :=
  (forall u l, nth_error (snd c) u = Some l ->
     count_tid (N.of_nat u) st = (nloads (results l) + e1bit (pcl l))%nat /\
     count_tid (N.of_nat u) co = nloads (results l)) /\
  (forall w, se = Some w -> state (fst c) = 2 /\ cell (fst c) = Some w).

(* a result table the current configuration can still grow into *)
Definition Compat (c : cfg) (rsf : list (list res)) : Prop :=
  forall u l, nth_error (snd c) u = Some l ->
    exists suf, nth u rsf [] = rev (results l) ++ suf /\
      (pcl l = E1 -> suf = [] \/ exists w rest, suf = RLoad (Some w) :: rest /\ cell (fst c) = Some w).

Definition RW (c : cfg) (tr : list (N * N)) : Prop :=
  Inv c /\
  forall rsf, Compat c rsf ->
    exists st co se,
      (forall tr2, stable_walk rsf (tr ++ tr2) [] [] None = stable_walk rsf tr2 st co se) /\
      J c st co se.

(* ---------------------------------------------------------------- facts about one step *)
Lemma enter_e1bit m td rs : e1bit (pcl (enter m td rs)) = 0%nat.
Proof. destruct (enter_pc m td rs) as [H|[[r H]|H]]; rewrite H; reflexivity. Qed.

Lemma enter_not_E1 m td rs : pcl (enter m td rs) <> E1.
Proof. destruct (enter_pc m td rs) as [H|[[r H]|H]]; rewrite H; discriminate. Qed.

(* results only grow, by appending (oldest first); an E1 step appends what the cell holds *)
Lemma step_results_grow s l s' l' : step s l = Some (s', l') ->
  exists add, rev (results l') = rev (results l) ++ add /\ (pcl l = E1 -> add = [RLoad (cell s)]).
Proof.
  unfold step. destruct (pcl l) eqn:Hpc; try destruct (state s =? 0); try destruct (state s =? 2);
    intros H; inversion H; subst; rewrite ?enter_results; cbn [results rev];
    try (exists []; rewrite app_nil_r; split; [reflexivity|discriminate]);
    try (eexists; split; [reflexivity|]; try discriminate; intros _; reflexivity).
Qed.

Lemma step_cell s l s' l' : step s l = Some (s', l') -> cell s' = cell s \/ exists r, pcl l = I1 r.
Proof.
  unfold step. destruct (pcl l) eqn:Hpc; try destruct (state s =? 0); try destruct (state s =? 2);
    intros H; inversion H; subst; cbn [cell]; eauto.
Qed.

Lemma Inv_E1_cell s ls u x : Inv (s, ls) -> nth_error ls u = Some x -> pcl x = E1 ->
  state s = 2 /\ exists w, cell s = Some w.
Proof.
  intros [Hc [Hl _]] Hu Hpc. cbn [fst snd] in *. destruct (Hl u x Hu) as (A & _). specialize (A Hpc).
  split; [exact A|].
  destruct Hc as [(H0 & _)|[(H0 & _)|(_ & _ & _ & Hcell)]]; try congruence.
  destruct (cell s) as [w|]; [eauto|congruence].
Qed.

Lemma compat_back s ls t l s' l' rsf :
  Inv (s, ls) -> nth_error ls t = Some l -> step s l = Some (s', l') ->
  Compat (s', upd ls t l') rsf -> Compat (s, ls) rsf.
Proof.
  intros HI Hn Hs HC u x Hu. cbn [fst snd] in *.
  destruct (Nat.eq_dec u t) as [->|Hne].
  - rewrite Hn in Hu. inversion Hu; subst x. clear Hu.
    destruct (HC t l' (nth_error_upd_same ls t l' l Hn)) as (suf & E & _).
    destruct (step_results_grow s l s' l' Hs) as (add & Eadd & HE1).
    exists (add ++ suf). split; [rewrite E, Eadd, <- app_assoc; reflexivity|].
    intros Hpc. right. rewrite (HE1 Hpc).
    destruct (Inv_E1_cell s ls t l HI Hn Hpc) as [_ [w Hw]]. rewrite Hw. exists w, suf. split; reflexivity.
  - assert (Hu' : nth_error (upd ls t l') u = Some x) by (rewrite nth_error_upd_other; [exact Hu|congruence]).
    destruct (HC u x Hu') as (suf & E & HE1). exists suf. split; [exact E|].
    intros Hpc. destruct (HE1 Hpc) as [->|(w & rest & -> & Hw)]; [left; reflexivity|].
    right. exists w, rest. split; [reflexivity|]. cbn [fst] in Hw |- *.
    destruct (step_cell s l s' l' Hs) as [Ec|[r Hr]]; [congruence|].
    exfalso. destruct (Inv_E1_cell s ls u x HI Hu Hpc) as [H2 _].
    destruct HI as [_ [Hl _]]. cbn [fst snd] in Hl. destruct (Hl t l Hn) as (_ & B & _).
    destruct (B r Hr) as [H1 _]. rewrite H2 in H1. discriminate.
Qed.

Lemma compat_final (c : cfg) : Compat c (map (fun l => rev (results l)) (snd c)).
Proof.
  intros u l Hu. exists []. split; [|intros _; left; reflexivity].
  rewrite app_nil_r. apply nth_error_nth. exact (map_nth_error (fun l0 => rev (results l0)) u (snd c) Hu).
Qed.

(* J is re-established for the threads that did not move when counts of the mover are known *)
Lemma J_counts_upd ls t l l' st co st' co' :
  nth_error ls t = Some l ->
  (forall u x, nth_error ls u = Some x ->
     count_tid (N.of_nat u) st = (nloads (results x) + e1bit (pcl x))%nat /\
     count_tid (N.of_nat u) co = nloads (results x)) ->
  (forall u, u <> t -> count_tid (N.of_nat u) st' = count_tid (N.of_nat u) st /\
                       count_tid (N.of_nat u) co' = count_tid (N.of_nat u) co) ->
  (count_tid (N.of_nat t) st' = (nloads (results l') + e1bit (pcl l'))%nat /\
   count_tid (N.of_nat t) co' = nloads (results l')) ->
  forall u x, nth_error (upd ls t l') u = Some x ->
     count_tid (N.of_nat u) st' = (nloads (results x) + e1bit (pcl x))%nat /\
     count_tid (N.of_nat u) co' = nloads (results x).
Proof.
  intros Hn HJ Ho Ht u x Hu.
  destruct (nth_error_upd_cases ls t l' u x Hu) as [[-> ->]|[Hne E]]; [exact Ht|].
  destruct (Ho u Hne) as [-> ->]. apply HJ. exact E.
Qed.

(* ---------------------------------------------------------------- RW is preserved *)
Lemma RW_noop : trace_noop_preserves (shared:=shared) (local:=local) RW.
Proof.
  intros c tr t [HI HW]. split; [exact HI|]. intros rsf HC.
  destruct (HW rsf HC) as (st & co & se & Hw & HJ). exists st, co, se. split; [|exact HJ].
  intros tr2. rewrite <- app_assoc. cbn [app]. rewrite Hw.
  apply walk_other; unfold noop_site; discriminate.
Qed.

Lemma RW_step : trace_step_preserves step site RW.
Proof.
  intros s ls t l s' l' tr [HI HW] Hn Hs.
  pose proof (step_preserves_Inv s ls t l s' l' HI Hn Hs) as HI'.
  split; [exact HI'|]. intros rsf HC'.
  pose proof (compat_back s ls t l s' l' rsf HI Hn Hs HC') as HC.
  destruct (HW rsf HC) as (st & co & se & Hw & [HJc HJs]). cbn [fst snd] in HJc, HJs.
  destruct (HJc t l Hn) as [Hst Hco].
  destruct (HC' t l' (nth_error_upd_same ls t l' l Hn)) as (suf & Erow & HsufE1). cbn [fst] in HsufE1.
  assert (Hrow : nth (N.to_nat (N.of_nat t)) rsf [] = rev (results l') ++ suf) by (rewrite Nat2N.id; exact Erow).
  assert (Hpre : forall tr2, stable_walk rsf ((tr ++ [(N.of_nat t, site l)]) ++ tr2) [] [] None
                           = stable_walk rsf ((N.of_nat t, site l) :: tr2) st co se)
    by (intros tr2; rewrite <- app_assoc; cbn [app]; apply Hw).
  assert (Hsame : forall u, u <> t -> count_tid (N.of_nat u) st = count_tid (N.of_nat u) st /\
                                     count_tid (N.of_nat u) co = count_tid (N.of_nat u) co) by (intros; split; reflexivity).
  destruct HI as [Hcnt [Hlok _]]. cbn [fst snd] in Hcnt, Hlok. pose proof (Hlok t l Hn) as Hl.
  unfold step in Hs. unfold site in Hpre |- *. destruct (pcl l) eqn:Hpc.
  - (* Start *)
    inversion Hs; subst s' l'; clear Hs.
    exists st, co, se. split; [intros tr2; rewrite Hpre; apply walk_other; discriminate|].
    split; [|exact HJs]. cbn [fst snd].
    apply (J_counts_upd ls t l _ st co st co Hn HJc Hsame).
    rewrite enter_results, enter_e1bit. cbn [e1bit] in Hst. split; [exact Hst|exact Hco].
  - (* I0 r *)
    assert (Hsel : forall w, se = Some w -> state s =? 0 = false).
    { intros w Hw0. destruct (HJs w Hw0) as [H2 _]. rewrite H2. reflexivity. }
    destruct (N.eqb_spec (state s) 0) as [Hs0|Hs0]; inversion Hs; subst s' l'; clear Hs.
    + exists st, co, se. split; [intros tr2; rewrite Hpre; apply walk_other; discriminate|].
      split; cbn [fst snd].
      * apply (J_counts_upd ls t l _ st co st co Hn HJc Hsame). cbn [results pcl e1bit] in *. split; [exact Hst|exact Hco].
      * intros w Hw0. destruct (HJs w Hw0) as [H2 _]. rewrite H2 in Hs0. discriminate.
    + exists st, co, se. split; [intros tr2; rewrite Hpre; apply walk_other; discriminate|].
      split; [|exact HJs]. cbn [fst snd].
      apply (J_counts_upd ls t l _ st co st co Hn HJc Hsame).
      rewrite enter_results, enter_e1bit. cbn [e1bit] in Hst. split; [exact Hst|exact Hco].
  - (* I1 r *)
    inversion Hs; subst s' l'; clear Hs.
    destruct Hl as (_ & B & _). destruct (B r Hpc) as [Hs1 _].
    exists st, co, se. split; [intros tr2; rewrite Hpre; apply walk_other; discriminate|].
    split; cbn [fst snd].
    + apply (J_counts_upd ls t l _ st co st co Hn HJc Hsame). cbn [results pcl e1bit] in *. split; [exact Hst|exact Hco].
    + intros w Hw0. destruct (HJs w Hw0) as [H2 _]. rewrite H2 in Hs1. discriminate.
  - (* I2 r *)
    inversion Hs; subst s' l'; clear Hs.
    destruct Hl as (_ & _ & C & _). destruct (C r Hpc) as [Hs1 _].
    exists st, co, se. split; [intros tr2; rewrite Hpre; apply walk_other; discriminate|].
    split; cbn [fst snd].
    + apply (J_counts_upd ls t l _ st co st co Hn HJc Hsame).
      rewrite enter_results, enter_e1bit. cbn [e1bit] in Hst.
      change (nloads (RSetOk r :: results l)) with (nloads (results l)). split; [exact Hst|exact Hco].
    + intros w Hw0. destruct (HJs w Hw0) as [H2 _]. rewrite H2 in Hs1. discriminate.
  - (* E0 : the 204 step *)
    cbn [e1bit] in Hst. rewrite Nat.add_0_r in Hst.
    destruct (N.eqb_spec (state s) 2) as [Hs2|Hs2]; inversion Hs; subst s' l'; clear Hs.
    + (* reads INITIALIZED: the load is in flight; its result, if any, is Some of the cell *)
      cbn [results pcl cell] in *. specialize (HsufE1 eq_refl).
      assert (Hnl : nth_load (nth (N.to_nat (N.of_nat t)) rsf []) (count_tid (N.of_nat t) st) = nth_load suf 0)
        by (rewrite Hrow, Hst; apply nth_load_prefix).
      exists (N.of_nat t :: st), co, se. split.
      * intros tr2. rewrite Hpre, walk_204, Hnl.
        destruct HsufE1 as [->|(w & rest & -> & Hw0)]; cbn [nth_load].
        -- destruct se; reflexivity.
        -- destruct se as [w1|]; [|reflexivity].
           destruct (HJs w1 eq_refl) as [_ Hc1]. assert (w = w1) by congruence. subst. rewrite N.eqb_refl. reflexivity.
      * split; [|exact HJs]. cbn [fst snd].
        apply (J_counts_upd ls t l _ st co (N.of_nat t :: st) co Hn HJc).
        -- intros u Hne. split; [apply count_tid_cons_other; exact Hne|reflexivity].
        -- cbn [results pcl e1bit]. rewrite count_tid_cons_same, Hst. split; [lia|exact Hco].
    + (* reads something else: completes at once with None *)
      rewrite enter_results in Hrow. cbn [rev] in Hrow. rewrite <- app_assoc in Hrow. cbn [app] in Hrow.
      assert (Hnl : nth_load (nth (N.to_nat (N.of_nat t)) rsf []) (count_tid (N.of_nat t) st) = Some None)
        by (rewrite Hrow, Hst, nth_load_prefix; reflexivity).
      assert (Hse : se = None).
      { destruct se as [w|]; [|reflexivity]. destruct (HJs w eq_refl) as [H2 _]. congruence. }
      exists (N.of_nat t :: st), (N.of_nat t :: co), se. split.
      * intros tr2. rewrite Hpre, walk_204, Hnl, Hse. reflexivity.
      * split; [|exact HJs]. cbn [fst snd].
        apply (J_counts_upd ls t l _ st co (N.of_nat t :: st) (N.of_nat t :: co) Hn HJc).
        -- intros u Hne. split; apply count_tid_cons_other; exact Hne.
        -- rewrite enter_results, enter_e1bit, !count_tid_cons_same, Hst, Hco.
           change (nloads (RLoad None :: results l)) with (S (nloads (results l))). split; lia.
  - (* E1 : the 205 step *)
    inversion Hs; subst s' l'; clear Hs.
    cbn [e1bit] in Hst.
    destruct Hl as (A & _). pose proof (A Hpc) as Hs2.
    assert (Hcw : exists w, cell s = Some w).
    { destruct Hcnt as [(H0 & _)|[(H0 & _)|(_ & _ & _ & Hcell)]]; try congruence.
      destruct (cell s) as [w|]; [eauto|congruence]. }
    destruct Hcw as [w Hcw].
    rewrite enter_results in Hrow. cbn [rev] in Hrow. rewrite <- app_assoc in Hrow. cbn [app] in Hrow.
    assert (Hnl : nth_load (nth (N.to_nat (N.of_nat t)) rsf []) (count_tid (N.of_nat t) co) = Some (Some w))
      by (rewrite Hrow, Hco, nth_load_prefix, Hcw; reflexivity).
    exists st, (N.of_nat t :: co), (match se with None => Some w | Some _ => se end). split.
    + intros tr2. rewrite Hpre, walk_205, Hnl. destruct se; reflexivity.
    + split; cbn [fst snd state cell].
      * apply (J_counts_upd ls t l _ st co st (N.of_nat t :: co) Hn HJc).
        -- intros u Hne. split; [reflexivity|apply count_tid_cons_other; exact Hne].
        -- rewrite enter_results, enter_e1bit, count_tid_cons_same, Hst, Hco.
           change (nloads (RLoad (cell s) :: results l)) with (S (nloads (results l))). split; lia.
      * intros w0 Hw0. destruct se as [w1|].
        -- apply HJs. exact Hw0.
        -- inversion Hw0; subst. split; [exact Hs2|exact Hcw].
  - discriminate.
Qed.

Lemma RW_init ps : RW (init_config ps) [].
Proof.
  split; [apply Inv_init|]. intros rsf _. exists [], [], None. split; [intros tr2; reflexivity|].
  split; [|discriminate]. intros u l Hu. cbn [snd init_config] in Hu.
  destruct (init_locals_inv ps 0 u l Hu) as [Hpc Hr]. rewrite Hpc, Hr. split; reflexivity.
Qed.

(* ---------------------------------------------------------------- clause (5) on the model *)
Theorem stable_walk_on_model (c : case) :
  let '(tr, rs, done) := run_case c in stable_walk rs tr [] [] None = true.
Proof.
  rewrite run_case_final.
  pose proof (exec_full_trace step site RW RW_step RW_noop rr_fuel (map N.to_nat (snd c))
                (init_config (fst c)) (RW_init (fst c))) as [_ HW].
  fold (final c) in HW.
  destruct (HW _ (compat_final (final c))) as (st & co & se & Hw & _).
  specialize (Hw []). rewrite app_nil_r in Hw. rewrite Hw. reflexivity.
Qed.

(* ---------------------------------------------------------------- all five clauses together *)
Lemma existsb_has_set ps :
  existsb (fun p => existsb (fun x => match x with CSet _ => true | _ => false end) p) ps = true ->
  exists u p r, nth_error ps u = Some p /\ In (CSet r) p.
Proof.
  rewrite existsb_exists. intros (p & Hp & Hx). rewrite existsb_exists in Hx. destruct Hx as (x & Hx & Hc).
  destruct x as [r|]; [|discriminate]. apply In_nth_error in Hp as [u Hu]. exists u, p, r. split; assumption.
Qed.

Theorem spec_ok_on_model (c : case) : spec_ok c (run_case c) = true.
Proof.
  pose proof (spec_clauses_on_model c) as H1. pose proof (stable_walk_on_model c) as H2.
  unfold spec_ok. destruct (run_case c) as [[tr rs] done]. destruct H1 as (A & B & C & D).
  rewrite H2, B, C, andb_true_r. cbn [andb].
  apply Nat.leb_le in A. rewrite A. cbn [andb].
  destruct done; cbn [andb]; [|reflexivity].
  destruct (existsb _ (fst c)) eqn:Ex; [|reflexivity].
  apply Nat.eqb_eq. apply D; [reflexivity|]. apply existsb_has_set. exact Ex.
Qed.

(* non-vacuity / sanity: a racing case (two installers, one emitter loading before, during and
   after the install; the schedule leaves work to the round-robin tail) -- the walk really visits
   204/205 entries, sees a None load, an in-flight load and Some loads, and accepts *)
Example spec_ok_race_example :
  let c : case := ([[CSet 1]; [CSet 2]; [CLoad; CLoad; CLoad; CLoad; CLoad]],
                   [0; 1; 2; 0; 2; 1; 0; 2; 2; 0; 7; 2]) in
  let '(tr, rs, done) := run_case c in
  rs = [[RSetOk 1]; [RSetErr 2]; [RLoad None; RLoad None; RLoad None; RLoad (Some 1); RLoad (Some 1)]]
  /\ done = true
  /\ existsb (fun e => snd e =? 205) tr = true
  /\ spec_ok c (run_case c) = true.
Proof. vm_compute. repeat split; reflexivity. Qed.
