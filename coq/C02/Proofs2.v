(* C02 — further invariants (program order / ownership of recorder tokens; Err implies the cell
   was already claimed) and the property clauses derived for every schedule. *)
From Coq Require Import List NArith Bool Arith Lia.
Import ListNotations.
Require Import MV.Common.Interleave MV.C02.Model MV.C02.Proofs.
Open Scope N_scope.

Definition cfg := @config shared local.

(* ---- program order: results so far ++ call in progress ++ calls to do = the thread's program *)
Definition call_of_res (x : res) : call :=
  match x with RSetOk r | RSetErr r => CSet r | RLoad _ => CLoad end.
Definition pc_call (p : pc) : list call :=
  match p with I0 r | I1 r | I2 r => [CSet r] | E0 | E1 => [CLoad] | Start | Done => [] end.
Definition prog_of (l : local) : list call :=
  map call_of_res (rev (results l)) ++ pc_call (pcl l) ++ todo l.

Lemma prog_of_enter m td rs :
  prog_of (enter m td rs) = map call_of_res (rev rs) ++ td.
Proof. destruct td as [|[r|] td]; reflexivity. Qed.

Lemma step_prog s l s' l' : step s l = Some (s', l') -> prog_of l' = prog_of l /\ me l' = me l.
Proof.
  unfold step. destruct (pcl l) eqn:Hpc; intros H.
  - inversion H; subst. split; [|destruct (todo l) as [|[r|] td]; reflexivity].
    rewrite prog_of_enter. unfold prog_of. rewrite Hpc. reflexivity.
  - destruct (state s =? 0); inversion H; subst.
    + split; [|reflexivity]. unfold prog_of. cbn [pcl todo results pc_call]. rewrite Hpc. reflexivity.
    + split; [|destruct (todo l) as [|[r0|] td]; reflexivity].
      rewrite prog_of_enter. unfold prog_of. rewrite Hpc. cbn [rev pc_call]. rewrite map_app, <- app_assoc. reflexivity.
  - inversion H; subst. split; [|reflexivity]. unfold prog_of. cbn [pcl todo results pc_call]. rewrite Hpc. reflexivity.
  - inversion H; subst. split; [|destruct (todo l) as [|[r0|] td]; reflexivity].
    rewrite prog_of_enter. unfold prog_of. rewrite Hpc. cbn [rev pc_call]. rewrite map_app, <- app_assoc. reflexivity.
  - destruct (state s =? 2); inversion H; subst.
    + split; [|reflexivity]. unfold prog_of. cbn [pcl todo results pc_call]. rewrite Hpc. reflexivity.
    + split; [|destruct (todo l) as [|[r0|] td]; reflexivity].
      rewrite prog_of_enter. unfold prog_of. rewrite Hpc. cbn [rev pc_call]. rewrite map_app, <- app_assoc. reflexivity.
  - inversion H; subst. split; [|destruct (todo l) as [|[r0|] td]; reflexivity].
    rewrite prog_of_enter. unfold prog_of. rewrite Hpc. cbn [rev pc_call]. rewrite map_app, <- app_assoc. reflexivity.
  - discriminate.
Qed.

Definition InvProg (ps : list (list call)) (c : cfg) : Prop :=
  map prog_of (snd c) = ps.

Lemma map_upd_same {A B} (f : A -> B) ls t l l' :
  nth_error ls t = Some l -> f l' = f l -> map f (upd ls t l') = map f ls.
Proof.
  intros H E. destruct (upd_split ls t l l' H) as (l1 & l2 & E1 & E2 & _).
  rewrite E2, E1, !map_app. cbn. rewrite E. reflexivity.
Qed.

Lemma InvProg_step ps : step_preserves step (InvProg ps).
Proof.
  intros s ls t l s' l' H Hn Hs. unfold InvProg in *. cbn [snd] in *.
  rewrite (map_upd_same prog_of ls t l l' Hn); [exact H|]. apply (step_prog s l s' l' Hs).
Qed.

Lemma InvProg_init ps : InvProg ps (init_config ps).
Proof.
  unfold InvProg, init_config. cbn [snd]. generalize 0. induction ps as [|p r IH]; intros m; [reflexivity|].
  cbn [init_locals map]. change (prog_of (init_local m p)) with p. f_equal. apply IH.
Qed.

(* ---- a failed set means the cell had already been claimed, for good *)
Definition InvErr (c : cfg) : Prop :=
  forall u x r, nth_error (snd c) u = Some x -> In (RSetErr r) (results x) -> state (fst c) <> 0.

Lemma InvErr_step : step_preserves step InvErr.
Proof.
  intros s ls t l s' l' H Hn Hs u x r Hu Hin. cbn [fst snd] in *.
  assert (Hmono : state s <> 0 -> state s' <> 0).
  { revert Hs. unfold step. destruct (pcl l); try destruct (state s =? 0) eqn:E0; try destruct (state s =? 2) eqn:E2;
      intros Hs; inversion Hs; subst; cbn [state]; auto; try discriminate; intros; lia. }
  destruct (nth_error_upd_cases ls t l' u x Hu) as [[-> ->]|[Hne E]].
  - (* the stepping thread *)
    revert Hs Hin. unfold step. destruct (pcl l) eqn:Hpc.
    + intros Hs; inversion Hs; subst. rewrite enter_results. intros Hin. apply Hmono. eapply H; eauto.
    + destruct (N.eqb_spec (state s) 0) as [E0|E0]; intros Hs; inversion Hs; subst.
      * cbn [results state]. intros _. discriminate.
      * intros _. exact E0.
    + intros Hs; inversion Hs; subst. cbn [results]. intros Hin. apply Hmono. eapply H; eauto.
    + intros Hs; inversion Hs; subst. cbn [state]. intros _. discriminate.
    + destruct (N.eqb_spec (state s) 2) as [E2|E2]; intros Hs; inversion Hs; subst; cbn [state results].
      * intros _. lia.
      * rewrite enter_results. intros [Hin|Hin]; [discriminate|]. eapply H; eauto.
    + intros Hs; inversion Hs; subst. cbn [state]. rewrite enter_results. intros [Hin|Hin]; [discriminate|]. eapply H; eauto.
    + discriminate.
  - apply Hmono. eapply H; eauto.
Qed.

Lemma InvErr_init ps : InvErr (init_config ps).
Proof.
  intros u x r Hu Hin. cbn [fst snd init_config] in *.
  destruct (init_locals_inv ps 0 u x Hu) as [_ E]. rewrite E in Hin. destruct Hin.
Qed.

(* ---- all three invariants hold after every schedule *)
Definition InvAll (ps : list (list call)) (c : cfg) : Prop := Inv c /\ InvProg ps c /\ InvErr c.

Lemma InvAll_step ps : step_preserves step (InvAll ps).
Proof.
  intros s ls t l s' l' (H1 & H2 & H3) Hn Hs. split; [|split].
  - eapply step_preserves_Inv; eauto.
  - eapply InvProg_step; eauto.
  - eapply InvErr_step; eauto.
Qed.

Theorem reachable_InvAll ps sched : InvAll ps (fst (exec step site (init_config ps) sched)).
Proof.
  apply invariant_all_schedules; [apply InvAll_step|].
  split; [apply Inv_init|split; [apply InvProg_init|apply InvErr_init]].
Qed.

Theorem reachable_full_InvAll ps fuel sched : InvAll ps (fst (exec_full step site fuel (init_config ps) sched)).
Proof.
  apply invariant_exec_full; [apply InvAll_step|].
  split; [apply Inv_init|split; [apply InvProg_init|apply InvErr_init]].
Qed.

(* ------------------------------------------------------------------------ property clauses *)
Definition reach (ps : list (list call)) (c : cfg) : Prop :=
  exists sched, c = fst (exec step site (init_config ps) sched).

(* total number of set() calls that returned Ok *)
Definition total_oks (c : cfg) : nat := sumf oks (snd c).

Theorem at_most_one_ok ps c : reach ps c -> (total_oks c <= 1)%nat.
Proof.
  intros [sched ->]. destruct (reachable_InvAll ps sched) as [[Hc _] _].
  unfold total_oks. destruct Hc as [(_ & _ & H & _)|[(_ & _ & H)|(_ & _ & H & _)]]; lia.
Qed.

(* every thread's results, read oldest first, answer the calls of its own program in order, and
   a set() result (Ok or Err) carries exactly the recorder that call passed: a loser gets its own
   recorder back; together with the calls still to do this is the thread's whole program, so no
   recorder token is lost or duplicated by the cell *)
Theorem loser_gets_own_recorder_back ps c : reach ps c ->
  forall u x, nth_error (snd c) u = Some x ->
  nth_error ps u = Some (map call_of_res (rev (results x)) ++ pc_call (pcl x) ++ todo x).
Proof.
  intros [sched ->] u x Hu. destruct (reachable_InvAll ps sched) as (_ & Hp & _).
  unfold InvProg in Hp. rewrite <- Hp. rewrite nth_error_map, Hu. reflexivity.
Qed.

Lemma all_done_pcs c : all_done step c = true -> forall u x, nth_error (snd c) u = Some x -> pcl x = Done.
Proof.
  unfold all_done. rewrite forallb_forall. intros H u x Hu.
  assert (Hlt : (u < length (snd c))%nat) by (apply nth_error_Some; congruence).
  specialize (H u). rewrite in_seq in H. specialize (H ltac:(lia)).
  unfold finished in H. rewrite Hu in H. unfold step in H.
  destruct (pcl x); try discriminate; try reflexivity.
  - destruct (state (fst c) =? 0); discriminate.
  - destruct (state (fst c) =? 2); discriminate.
Qed.

Theorem some_installer_wins_when_done ps c : reach ps c ->
  all_done step c = true ->
  (exists u p r, nth_error ps u = Some p /\ In (CSet r) p) ->
  total_oks c = 1%nat.
Proof.
  intros [sched ->] Hd (u & p & r & Hp & Hin).
  destruct (reachable_InvAll ps sched) as ([Hc [Hl _]] & Hprog & Herr).
  set (c := fst (exec step site (init_config ps) sched)) in *.
  unfold InvProg in Hprog.
  assert (Hu : exists x, nth_error (snd c) u = Some x).
  { destruct (nth_error (snd c) u) eqn:E; eauto. rewrite <- Hprog, nth_error_map, E in Hp. discriminate. }
  destruct Hu as [x Hu].
  pose proof (all_done_pcs c Hd u x Hu) as Hpc.
  assert (Hx : p = map call_of_res (rev (results x)) ++ pc_call (pcl x) ++ todo x).
  { rewrite <- Hprog, nth_error_map, Hu in Hp. inversion Hp. reflexivity. }
  assert (Htodo : todo x = []).
  { (* a Done thread has nothing to do: Done is only entered with an empty todo *)
    clear - Hu Hpc. revert Hu Hpc. unfold c. clear c.
    (* strengthen: invariant pcl = Done -> todo = [] *)
    assert (HI : forall c0, (forall u x, nth_error (snd c0) u = Some x -> pcl x = Done -> todo x = []) ->
                 forall sch, let c1 := fst (exec step site c0 sch) in
                 forall u x, nth_error (snd c1) u = Some x -> pcl x = Done -> todo x = []).
    { intros c0 H0 sch. apply (invariant_all_schedules step site
         (fun c => forall u x, nth_error (snd c) u = Some x -> pcl x = Done -> todo x = [])); [|exact H0].
      intros s ls t l s' l' H Hn Hs u0 x0 Hu0 Hd0. cbn [snd] in *.
      destruct (nth_error_upd_cases ls t l' u0 x0 Hu0) as [[-> ->]|[Hne E]]; [|eapply H; eauto].
      revert Hs Hd0. unfold step.
      assert (He : forall m td rs, pcl (enter m td rs) = Done -> todo (enter m td rs) = [])
        by (intros m [|[r0|] td] rs; cbn; auto; discriminate).
      destruct (pcl l); try destruct (state s =? 0); try destruct (state s =? 2); intros Hs; inversion Hs; subst;
        cbn [pcl todo]; try discriminate; try apply He. }
    apply HI. intros u0 x0 Hu0 Hd0. cbn [snd init_config] in Hu0.
    destruct (init_locals_inv ps 0 u0 x0 Hu0) as [E _]. congruence. }
  rewrite Hpc, Htodo in Hx. cbn [pc_call app] in Hx. rewrite app_nil_r in Hx.
  rewrite Hx in Hin. apply in_map_iff in Hin as (y & Hy & Hiny). apply in_rev in Hiny.
  unfold total_oks.
  destruct y as [r0|r0|o]; cbn in Hy; try discriminate.
  - (* this thread's set returned Ok: state is 2 *)
    destruct (Hl u x Hu) as (_ & _ & _ & HK & _). destruct (HK r0 Hiny) as [Hs2 _].
    destruct Hc as [(Hs0 & _)|[(Hs1 & _)|(_ & _ & H & _)]]; [congruence|congruence|exact H].
  - (* it returned Err: the state is not 0; nobody holds it (all done), so it is 2 *)
    pose proof (Herr u x r0 Hu Hiny) as Hne.
    destruct Hc as [(Hs0 & _)|[(Hs1 & Hh & _)|(_ & _ & H & _)]]; [congruence| |exact H].
    exfalso. assert (F : Forall (fun l => hold l = 0%nat) (snd c)).
    { rewrite Forall_forall. intros l Hl0. apply In_nth_error in Hl0 as [k Hk].
      unfold hold. rewrite (all_done_pcs c Hd k l Hk). reflexivity. }
    assert (sumf hold (snd c) = 0%nat).
    { clear - F. induction F; cbn; lia. }
    lia.
Qed.

(* a load returns Some(r) only for the recorder of the set that returned Ok, and only when the
   cell is INITIALIZED and holds exactly r (written before the state was published) *)
Theorem reader_sees_whole_winner ps c : reach ps c ->
  forall u x r, nth_error (snd c) u = Some x -> In (RLoad (Some r)) (results x) ->
  state (fst c) = 2 /\ cell (fst c) = Some r /\
  forall u' x' r', nth_error (snd c) u' = Some x' -> In (RSetOk r') (results x') -> r' = r.
Proof.
  intros [sched ->] u x r Hu Hin. destruct (reachable_InvAll ps sched) as ([_ [Hl _]] & _).
  destruct (Hl u x Hu) as (_ & _ & _ & _ & HL). destruct (HL r Hin) as [H1 H2].
  split; [exact H1|split; [exact H2|]]. intros u' x' r' Hu' Hin'.
  destruct (Hl u' x' Hu') as (_ & _ & _ & HK & _). destruct (HK r' Hin') as [_ H3]. congruence.
Qed.

Lemma stable_after g : stable g -> forall newer t r s0 older,
  g = newer ++ GDisp t (Some r) s0 :: older ->
  Forall (fun e => match e with GE0 _ s1 => s1 = 2 | GDisp _ o s1 => s1 = 2 /\ o <> None end) newer.
Proof.
  intros Hs newer. revert g Hs. induction newer as [|e nw IH]; intros g Hs t r s0 older E; [constructor|].
  subst g. cbn [app stable] in Hs. destruct Hs as [Hs1 Hs2]. constructor.
  - apply Hs2. unfold has_some. rewrite existsb_app. cbn. rewrite orb_true_r. reflexivity.
  - eapply IH; eauto.
Qed.

(* once any load has been dispatched to recorder r, every later load (one whose state read comes
   later in the global order) reads INITIALIZED and is dispatched to the same r *)
Theorem stable_after_first_dispatch ps c : reach ps c ->
  forall newer t r s0 older, glog (fst c) = newer ++ GDisp t (Some r) s0 :: older ->
  Forall (fun e => match e with
                   | GE0 _ s1 => s1 = 2
                   | GDisp _ o s1 => s1 = 2 /\ o = Some r
                   end) newer.
Proof.
  intros [sched ->] newer t r s0 older E. destruct (reachable_InvAll ps sched) as ([_ [_ (G1 & G2 & G3)]] & _).
  pose proof (stable_after _ G3 newer t r s0 older E) as F.
  assert (Hc : cell (fst (fst (exec step site (init_config ps) sched))) = Some r).
  { destruct (G1 t r s0) as (_ & _ & H); [rewrite E; apply in_or_app; right; left; reflexivity|exact H]. }
  rewrite Forall_forall in *. intros e He. specialize (F e He). destruct e as [t1 s1|t1 o s1]; [exact F|].
  destruct F as [F1 F2]. split; [exact F1|]. destruct o as [r'|]; [|congruence].
  destruct (G1 t1 r' s1) as (_ & _ & H); [rewrite E; apply in_or_app; left; exact He|]. congruence.
Qed.

(* a load completes with None exactly when its state read was not INITIALIZED *)
Theorem before_install_noop ps c : reach ps c ->
  (forall t s0, In (GDisp t None s0) (glog (fst c)) -> s0 <> 2) /\
  (forall t r s0, In (GDisp t (Some r) s0) (glog (fst c)) -> s0 = 2).
Proof.
  intros [sched ->]. destruct (reachable_InvAll ps sched) as ([_ [_ (G1 & G2 & G3)]] & _).
  split; [exact G2|]. intros t r s0 H. destruct (G1 t r s0 H) as [H1 _]. exact H1.
Qed.

(* non-vacuity: two installers race, an emitter loads before, during and after *)
Example race_example :
  let c := fst (exec step site (init_config [[CSet 1]; [CSet 2]; [CLoad; CLoad; CLoad]])
                     [0; 1; 2; 0; 2; 1; 0; 2; 0; 2; 2; 1; 2; 2]%nat) in
  map (fun l => rev (results l)) (snd c) =
    [[RSetOk 1]; [RSetErr 2]; [RLoad None; RLoad None; RLoad (Some 1)]]
  /\ all_done step c = true.
Proof. vm_compute. split; reflexivity. Qed.
