(* C08 -- the specification: a strict reader of the Prometheus text exposition format (version
   0.0.4), written from the format's grammar and independent of the model (this file does not
   import Model.v).

     line        = empty | HELP-line | TYPE-line | sample
     HELP-line   = '# HELP ' metric_name ' ' docstring
     TYPE-line   = '# TYPE ' metric_name ' ' ( counter | gauge | histogram | summary | untyped )
     sample      = metric_name [ '{' [ label { ',' label } [ ',' ] ] '}' ] ' ' value
     label       = label_name '=' DQUOTE { value_char } DQUOTE
     metric_name = [a-zA-Z_:][a-zA-Z0-9_:]*        label_name = [a-zA-Z_][a-zA-Z0-9_]*
     value_char  = any character but DQUOTE, BACKSLASH, LF
                 | BACKSLASH BACKSLASH | BACKSLASH DQUOTE | BACKSLASH 'n'      (the three escapes)
     docstring   = { any character but BACKSLASH, LF | BACKSLASH BACKSLASH | BACKSLASH 'n' }
     value       = a float in Go's ParseFloat syntax (digits, optional fraction and exponent, Inf, NaN)

   Stricter than the format in three places (the exporter never needs the freedom): exactly one
   space between tokens, no timestamp after the value, no comment lines other than HELP and TYPE.
   A text is a sequence of LF-terminated lines.  [family_ok] is the format's grouping rule:
   a TYPE line for a name occurs at most once and before the samples of that family, a HELP line
   is directly followed by the TYPE line of the same name, and every sample belongs to the family
   of the last TYPE line: its name is the family name or the family name plus a suffix the type
   allows (summary: _sum _count; histogram: _bucket _sum _count). *)
From Coq Require Import List NArith Bool String Ascii.
Import ListNotations.
Open Scope N_scope.

Definition text := list N.

Fixpoint chars (s : string) : text :=
  match s with EmptyString => [] | String a r => N_of_ascii a :: chars r end.

Fixpoint text_eqb (a b : text) : bool :=
  match a, b with
  | [], [] => true
  | x :: r, y :: r' => (x =? y) && text_eqb r r'
  | _, _ => false
  end.

Definition in_range (lo hi c : N) : bool := (lo <=? c) && (c <=? hi).
Definition letter (c : N) : bool := in_range 65 90 c || in_range 97 122 c.      (* A-Z a-z *)
Definition digit (c : N) : bool := in_range 48 57 c.                             (* 0-9 *)

Definition label_start (c : N) : bool := letter c || (c =? 95).                  (* [a-zA-Z_] *)
Definition label_char (c : N) : bool := label_start c || digit c.                (* [a-zA-Z0-9_] *)
Definition metric_start (c : N) : bool := label_start c || (c =? 58).            (* [a-zA-Z_:] *)
Definition metric_char (c : N) : bool := label_char c || (c =? 58).              (* [a-zA-Z0-9_:] *)

Definition metric_name_ok (s : text) : bool :=
  match s with [] => false | c :: r => metric_start c && forallb metric_char r end.
Definition label_name_ok (s : text) : bool :=
  match s with [] => false | c :: r => label_start c && forallb label_char r end.

Inductive mtype := TCounter | TGauge | THistogram | TSummary | TUntyped.
Definition mtype_eqb (a b : mtype) : bool :=
  match a, b with
  | TCounter, TCounter | TGauge, TGauge | THistogram, THistogram | TSummary, TSummary | TUntyped, TUntyped => true
  | _, _ => false
  end.

Inductive line :=
| LBlank
| LHelp (name doc : text)
| LType (name : text) (ty : mtype)
| LSample (name : text) (labels : list (text * text)) (value : text).

(* longest prefix of characters satisfying p, and the rest *)
Fixpoint span (p : N -> bool) (s : text) : text * text :=
  match s with
  | [] => ([], [])
  | c :: r => if p c then let '(a, b) := span p r in (c :: a, b) else ([], s)
  end.

Fixpoint strip_prefix (p s : text) : option text :=
  match p, s with
  | [], _ => Some s
  | x :: p', y :: s' => if x =? y then strip_prefix p' s' else None
  | _ :: _, [] => None
  end.

(* ---- docstring: decode the escapes BACKSLASH BACKSLASH and BACKSLASH n; a raw LF, any other escape or a trailing backslash is an error *)
Fixpoint read_doc (esc : bool) (acc : text) (s : text) : option text :=
  match s with
  | [] => if esc then None else Some (rev acc)
  | c :: r =>
      if esc then
        if c =? 92 then read_doc false (92 :: acc) r
        else if c =? 110 then read_doc false (10 :: acc) r
        else None
      else if c =? 92 then read_doc true acc r
      else if c =? 10 then None
      else read_doc false (c :: acc) r
  end.

(* ---- value: Go ParseFloat syntax, decided by a small automaton over the lower-cased text *)
Definition lower (c : N) : N := if in_range 65 90 c then c + 32 else c.

Fixpoint all_digits1 (s : text) : bool :=      (* one or more digits *)
  match s with [] => false | [c] => digit c | c :: r => digit c && all_digits1 r end.

Definition exponent_ok (s : text) : bool :=     (* after 'e': [sign] digits+ *)
  match s with
  | c :: r => if (c =? 43) || (c =? 45) then all_digits1 r else all_digits1 s
  | [] => false
  end.

Definition opt_exponent (s : text) : bool :=
  match s with [] => true | c :: r => (c =? 101) && exponent_ok r end.

Definition mantissa_ok (s : text) : bool :=
  let '(ip, r1) := span digit s in
  match r1 with
  | 46 :: r2 =>
      let '(fp, r3) := span digit r2 in
      negb (match ip, fp with [], [] => true | _, _ => false end) && opt_exponent r3
  | _ => negb (match ip with [] => true | _ => false end) && opt_exponent r1
  end.

Definition float_char (c : N) : bool := digit c || letter c || (c =? 43) || (c =? 45) || (c =? 46).

Definition value_ok (v : text) : bool :=
  let s := map lower v in
  forallb float_char v &&
  let body := match s with c :: r => if (c =? 43) || (c =? 45) then r else s | [] => [] end in
  (text_eqb body (chars "inf") || text_eqb body (chars "infinity") || text_eqb s (chars "nan")
   || mantissa_ok body).

(* ---- label block: a one-pass automaton over the characters following '{' *)
Inductive lstate :=
| LStart                              (* expecting a label name or '}' *)
| LName (acc : text)                  (* inside a label name (reversed) *)
| LQuote (name : text)                (* after '=', expecting the opening quote *)
| LVal (name : text) (acc : text)     (* inside a value (reversed, decoded) *)
| LEsc (name : text) (acc : text)     (* after a backslash inside a value *)
| LAfter.                             (* after the closing quote: ',' or '}' *)

Fixpoint read_labels (st : lstate) (done : list (text * text)) (s : text)
  : option (list (text * text) * text) :=
  match s with
  | [] => None
  | c :: r =>
      match st with
      | LStart =>
          if c =? 125 then Some (rev done, r)
          else if label_start c then read_labels (LName [c]) done r else None
      | LName acc =>
          if c =? 61 then read_labels (LQuote (rev acc)) done r
          else if label_char c then read_labels (LName (c :: acc)) done r else None
      | LQuote n => if c =? 34 then read_labels (LVal n []) done r else None
      | LVal n acc =>
          if c =? 34 then read_labels LAfter ((n, rev acc) :: done) r
          else if c =? 92 then read_labels (LEsc n acc) done r
          else if c =? 10 then None
          else read_labels (LVal n (c :: acc)) done r
      | LEsc n acc =>
          if c =? 92 then read_labels (LVal n (92 :: acc)) done r
          else if c =? 34 then read_labels (LVal n (34 :: acc)) done r
          else if c =? 110 then read_labels (LVal n (10 :: acc)) done r
          else None
      | LAfter =>
          if c =? 44 then read_labels LStart done r
          else if c =? 125 then Some (rev done, r) else None
      end
  end.

Definition parse_type (s : text) : option mtype :=
  if text_eqb s (chars "counter") then Some TCounter
  else if text_eqb s (chars "gauge") then Some TGauge
  else if text_eqb s (chars "histogram") then Some THistogram
  else if text_eqb s (chars "summary") then Some TSummary
  else if text_eqb s (chars "untyped") then Some TUntyped
  else None.

Definition parse_sample (s : text) : option line :=
  let '(name, r) := span metric_char s in
  if negb (metric_name_ok name) then None else
  match r with
  | 123 :: r1 =>
      match read_labels LStart [] r1 with
      | Some (ls, 32 :: v) => if value_ok v then Some (LSample name ls v) else None
      | _ => None
      end
  | 32 :: v => if value_ok v then Some (LSample name [] v) else None
  | _ => None
  end.

Definition parse_line (s : text) : option line :=
  match s with
  | [] => Some LBlank
  | c :: _ =>
      if negb (c =? 35) then parse_sample s else
      match strip_prefix (chars "# HELP ") s with
      | Some r =>
          let '(name, r1) := span metric_char r in
          if negb (metric_name_ok name) then None else
          match r1 with
          | 32 :: d => match read_doc false [] d with Some doc => Some (LHelp name doc) | None => None end
          | _ => None
          end
      | None =>
          match strip_prefix (chars "# TYPE ") s with
          | Some r =>
              let '(name, r1) := span metric_char r in
              if negb (metric_name_ok name) then None else
              match r1 with
              | 32 :: t => match parse_type t with Some ty => Some (LType name ty) | None => None end
              | _ => None
              end
          | None => None
          end
      end
  end.

(* ---- a text is a sequence of LF-terminated lines *)
Fixpoint split_lf (cur : text) (s : text) : list text * text :=   (* complete lines, unterminated rest *)
  match s with
  | [] => ([], rev cur)
  | c :: r => if c =? 10 then let '(ls, rest) := split_lf [] r in (rev cur :: ls, rest)
              else split_lf (c :: cur) r
  end.

Fixpoint parse_lines (ls : list text) : option (list line) :=
  match ls with
  | [] => Some []
  | l :: r => match parse_line l, parse_lines r with
              | Some x, Some xs => Some (x :: xs)
              | _, _ => None
              end
  end.

Definition parse_text (t : text) : option (list line) :=
  match split_lf [] t with
  | (ls, []) => parse_lines ls
  | _ => None
  end.

(* ---- family structure *)
Definition allowed_suffixes (ty : mtype) : list text :=
  match ty with
  | TSummary => [chars "_sum"; chars "_count"]
  | THistogram => [chars "_bucket"; chars "_sum"; chars "_count"]
  | _ => []
  end.

Definition sample_in_family (fam : text) (ty : mtype) (name : text) : bool :=
  text_eqb name fam || existsb (fun sfx => text_eqb name (fam ++ sfx)) (allowed_suffixes ty).

Definition mem (x : text) (l : list text) : bool := existsb (text_eqb x) l.

Record fstate := {
  cur : option (text * mtype);   (* family of the last TYPE line *)
  typed : list text;             (* names that already had a TYPE line *)
  pend : option text }.          (* a HELP line waiting for its TYPE line *)

Definition fstart : fstate := {| cur := None; typed := []; pend := None |}.

Definition fstep (s : fstate) (l : line) : option fstate :=
  match l with
  | LBlank => Some s
  | LHelp n _ =>
      match pend s with
      | Some _ => None
      | None => if mem n (typed s) then None else Some {| cur := cur s; typed := typed s; pend := Some n |}
      end
  | LType n ty =>
      if mem n (typed s) then None else
      match pend s with
      | Some h => if text_eqb h n then Some {| cur := Some (n, ty); typed := n :: typed s; pend := None |} else None
      | None => Some {| cur := Some (n, ty); typed := n :: typed s; pend := None |}
      end
  | LSample n _ _ =>
      match pend s, cur s with
      | None, Some (fam, ty) => if sample_in_family fam ty n then Some s else None
      | _, _ => None
      end
  end.

Fixpoint frun (s : fstate) (ls : list line) : option fstate :=
  match ls with
  | [] => Some s
  | l :: r => match fstep s l with Some s' => frun s' r | None => None end
  end.

Definition family_ok (ls : list line) : bool :=
  match frun fstart ls with
  | Some s => match pend s with None => true | Some _ => false end
  | None => false
  end.

(* the whole property on a text *)
Definition exposition_ok (t : text) : bool :=
  match parse_text t with Some ls => family_ok ls | None => false end.

(* counting, to state that user data cannot forge lines *)
Definition is_type (l : line) : bool := match l with LType _ _ => true | _ => false end.
Definition is_help (l : line) : bool := match l with LHelp _ _ => true | _ => false end.
Definition is_sample (l : line) : bool := match l with LSample _ _ _ => true | _ => false end.
Definition is_blank (l : line) : bool := match l with LBlank => true | _ => false end.
