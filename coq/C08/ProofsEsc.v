(* C08 — the look-behind escape machine: its output is always a concatenation of escape tokens,
   so the spec's readers consume it completely and stop exactly at the closing quote. *)
From Coq Require Import List NArith Bool Lia.
Import ListNotations.
Require Import MV.C08.Model MV.C08.Spec.
Open Scope N_scope.

(* token-concatenations: BACKSLASH BACKSLASH | BACKSLASH n | BACKSLASH DQUOTE (label values only)
   | one character other than backslash and LF (and, in label values, other than DQUOTE) *)
Inductive toks (d : bool) : str -> Prop :=
| T_nil : toks d []
| T_bs r : toks d r -> toks d (92 :: 92 :: r)
| T_lf r : toks d r -> toks d (92 :: 110 :: r)
| T_dq r : d = false -> toks d r -> toks d (92 :: 34 :: r)
| T_ch c r : c <> 92 -> c <> 10 -> (d = true \/ c <> 34) -> toks d r -> toks d (c :: r).

(* what a reader of the format decodes from a token-concatenation *)
Fixpoint dec (e : bool) (s : str) : str :=
  match s with
  | [] => []
  | c :: r => if e then (if c =? 110 then 10 else c) :: dec false r
              else if c =? 92 then dec true r else c :: dec false r
  end.

Lemma esc_toks d s : forall pb, toks d (esc d pb s).
Proof.
  induction s as [|c r IH]; intros pb; simpl.
  - destruct pb; repeat constructor.
  - destruct (c =? 10) eqn:E10.
    { simpl. apply T_lf, IH. }
    destruct ((c =? 34) && negb d) eqn:E34.
    { apply andb_prop in E34 as [_ Hd]. simpl. apply T_dq; [now destruct d|apply IH]. }
    destruct (c =? 92) eqn:E92.
    { destruct pb; simpl; [apply T_bs|]; apply IH. }
    apply N.eqb_neq in E10, E92.
    assert (Hq : d = true \/ c <> 34).
    { destruct d; [now left|right]. rewrite andb_true_r in E34. now apply N.eqb_neq in E34. }
    destruct pb; simpl; [apply T_bs|]; apply T_ch; auto.
Qed.

Lemma toks_no_lf d s : toks d s -> ~ In 10 s.
Proof.
  induction 1; simpl; intros Hin.
  - contradiction.
  - destruct Hin as [?|[?|?]]; try discriminate; auto.
  - destruct Hin as [?|[?|?]]; try discriminate; auto.
  - destruct Hin as [?|[?|?]]; try discriminate; auto.
  - destruct Hin as [?|?]; [congruence|auto].
Qed.

Lemma toks_app d a b : toks d a -> toks d b -> toks d (a ++ b).
Proof. induction 1; simpl; intros; auto; constructor; auto. Qed.

(* ---- label values: the reader, started inside the quotes, consumes the whole escaped text and
   takes the quote that follows it as the closing one *)
Lemma read_value_toks o : toks false o -> forall n acc done rest,
  read_labels (LVal n acc) done (o ++ 34 :: rest)
  = read_labels LAfter ((n, rev acc ++ dec false o) :: done) rest.
Proof.
  induction 1 as [|r _ IH|r _ IH|r _ _ IH|c r H92 H10 H34 _ IH]; intros n acc done rest.
  - simpl. now rewrite app_nil_r.
  - cbn [app read_labels N.eqb Pos.eqb]. rewrite IH. cbn [rev dec N.eqb Pos.eqb]. now rewrite <- app_assoc.
  - cbn [app read_labels N.eqb Pos.eqb]. rewrite IH. cbn [rev dec N.eqb Pos.eqb]. now rewrite <- app_assoc.
  - cbn [app read_labels N.eqb Pos.eqb]. rewrite IH. cbn [rev dec N.eqb Pos.eqb]. now rewrite <- app_assoc.
  - destruct H34 as [?|H34]; [discriminate|].
    apply N.eqb_neq in H92, H10, H34.
    cbn [app read_labels]. rewrite H34, H92, H10. rewrite IH.
    cbn [rev dec]. rewrite H92. now rewrite <- app_assoc.
Qed.

(* ---- docstrings *)
Lemma read_doc_toks o : toks true o -> forall acc,
  read_doc false acc o = Some (rev acc ++ dec false o).
Proof.
  induction 1 as [|r _ IH|r _ IH|r Hd _ IH|c r H92 H10 _ _ IH]; intros acc.
  - simpl. now rewrite app_nil_r.
  - cbn [read_doc N.eqb Pos.eqb]. rewrite IH. cbn [rev dec N.eqb Pos.eqb]. now rewrite <- app_assoc.
  - cbn [read_doc N.eqb Pos.eqb]. rewrite IH. cbn [rev dec N.eqb Pos.eqb]. now rewrite <- app_assoc.
  - discriminate.
  - apply N.eqb_neq in H92, H10.
    cbn [read_doc]. rewrite H92, H10, IH. cbn [rev dec]. rewrite H92. now rewrite <- app_assoc.
Qed.

(* plain text (no quote, backslash, LF) is a token-concatenation that decodes to itself *)
Definition plainb (s : str) : bool := forallb (fun c => negb ((c =? 34) || (c =? 92) || (c =? 10))) s.

Lemma plain_toks s : plainb s = true -> toks false s /\ dec false s = s.
Proof.
  induction s as [|c r IH]; simpl; intros H; [split; [constructor|reflexivity]|].
  apply andb_prop in H as [Hc Hr]. destruct (IH Hr) as [IH1 IH2].
  apply negb_true_iff in Hc. apply orb_false_elim in Hc as [Hc H10]. apply orb_false_elim in Hc as [H34 H92].
  split.
  - apply N.eqb_neq in H34, H92, H10. apply T_ch; auto.
  - now rewrite H92, IH2.
Qed.

(* on input without backslashes the escaping is faithful: the reader gets the original back *)
Lemma esc_faithful d s : ~ In 92 s -> dec false (esc d false s) = s.
Proof.
  intros Hn. induction s as [|c r IH]; simpl; auto.
  assert (H92 : (c =? 92) = false) by (apply N.eqb_neq; intros ->; apply Hn; now left).
  assert (Hr : ~ In 92 r) by (intros ?; apply Hn; now right).
  destruct (c =? 10) eqn:E10.
  { apply N.eqb_eq in E10. subst. cbn. now rewrite IH. }
  destruct ((c =? 34) && negb d) eqn:E34.
  { apply andb_prop in E34 as [E _]. apply N.eqb_eq in E. subst. cbn. now rewrite IH. }
  rewrite H92. cbn [app dec]. rewrite H92. now rewrite IH.
Qed.
