(* C08 — whole renderings: every line of render_text is read back as HELP / TYPE / sample / blank,
   user data cannot add lines, and the family structure holds (unit suffix on and off). *)
From Coq Require Import List NArith Bool Lia String.
Import ListNotations.
Require Import MV.C08.Model MV.C08.Spec MV.C08.Exec MV.C08.ProofsSan MV.C08.ProofsEsc MV.C08.ProofsLine.
Open Scope N_scope.
Open Scope list_scope.

Definition nolf (l : str) : Prop := ~ In 10 l.
Definition tl (ls : list str) : str := flat_map (fun l => l ++ [10]) ls.

Lemma tl_app a b : tl (a ++ b) = tl a ++ tl b.
Proof. apply flat_map_app. Qed.

Lemma flat_map_flat_map {A B C} (f : B -> list C) (g : A -> list B) l :
  flat_map f (flat_map g l) = flat_map (fun x => flat_map f (g x)) l.
Proof. induction l; simpl; auto. now rewrite flat_map_app, IHl. Qed.

Lemma flat_map_ext' {A B} (f g : A -> list B) l : (forall x, f x = g x) -> flat_map f l = flat_map g l.
Proof. intros H. induction l; simpl; auto. now rewrite H, IHl. Qed.

(* ---- splitting *)
Lemma split_line l : nolf l -> forall cur rest,
  split_lf cur (l ++ 10 :: rest) = (let '(ls, r) := split_lf [] rest in ((rev cur ++ l) :: ls, r)).
Proof.
  induction l as [|c l IH]; intros Hn cur rest.
  - cbn [app split_lf N.eqb Pos.eqb]. now rewrite app_nil_r.
  - assert (Hc : (c =? 10) = false) by (apply N.eqb_neq; intros ->; apply Hn; now left).
    cbn [app split_lf]. rewrite Hc, IH by (intros ?; apply Hn; now right).
    cbn [rev]. now rewrite <- app_assoc.
Qed.

Lemma split_tl ls : Forall nolf ls -> split_lf [] (tl ls) = (ls, []).
Proof.
  induction 1 as [|l ls Hl _ IH]; [reflexivity|].
  cbn [tl flat_map]. rewrite <- app_assoc. cbn [app].
  rewrite split_line by auto. fold (tl ls). now rewrite IH.
Qed.

Lemma parse_text_tl ls : Forall nolf ls -> parse_text (tl ls) = parse_lines ls.
Proof. intros H. unfold parse_text. now rewrite split_tl. Qed.

Lemma parse_lines_app a b x y :
  parse_lines a = Some x -> parse_lines b = Some y -> parse_lines (a ++ b) = Some (x ++ y).
Proof.
  revert x. induction a as [|l a IH]; intros x Ha Hb; simpl in *.
  - injection Ha as <-. exact Hb.
  - destruct (parse_line l); [|discriminate]. destruct (parse_lines a) eqn:E; [|discriminate].
    injection Ha as <-. now rewrite (IH _ eq_refl Hb).
Qed.

Lemma frun_app a b s : frun s (a ++ b) = match frun s a with Some s' => frun s' b | None => None end.
Proof. revert s. induction a as [|l a IH]; intros s; simpl; auto. destruct (fstep s l); auto. Qed.

(* ---- no line feeds *)
Lemma nolf_app a b : nolf a -> nolf b -> nolf (a ++ b).
Proof. unfold nolf. intros Ha Hb H. apply in_app_or in H as [?|?]; auto. Qed.

Lemma nolf_forallb (p : N -> bool) l : p 10 = false -> forallb p l = true -> nolf l.
Proof.
  intros Hp Hl Hin. rewrite forallb_forall in Hl. specialize (Hl _ Hin). congruence.
Qed.

Lemma nolf_mname nm : mname nm -> nolf nm.
Proof. intros H. destruct (mname_ok nm H) as [_ Ha]. now apply (nolf_forallb metric_char). Qed.

Lemma nolf_lname nm : lname nm -> nolf nm.
Proof.
  intros (c & r & -> & Hc & Hr). apply (nolf_forallb label_char); [reflexivity|].
  simpl. rewrite Hr, andb_true_r. unfold label_char. now rewrite Hc.
Qed.

Lemma nolf_plain v : plainb v = true -> nolf v.
Proof. apply nolf_forallb. reflexivity. Qed.

Lemma nolf_value v : value_ok v = true -> nolf v.
Proof. unfold value_ok. intros H. apply andb_prop in H as [H _]. now apply (nolf_forallb float_char). Qed.

Ltac nolf_lit := unfold nolf; simpl; intuition discriminate.

Lemma nolf_label_string kv : fst kv <> [] -> nolf (label_string kv).
Proof.
  intros H. unfold label_string. repeat apply nolf_app.
  - apply nolf_lname, lname_key, H.
  - nolf_lit.
  - apply (toks_no_lf false), esc_toks.
  - nolf_lit.
Qed.

Lemma nolf_join kvs : keys_ok kvs -> nolf (join_comma (map label_string kvs)).
Proof.
  induction 1 as [|kv kvs Hk Hr IH]; [nolf_lit|].
  destruct kvs as [|kv2 kvs]; [now apply nolf_label_string|].
  change (join_comma (map label_string (kv :: kv2 :: kvs)))
    with (label_string kv ++ [44] ++ join_comma (map label_string (kv2 :: kvs))).
  apply nolf_app; [now apply nolf_label_string|apply nolf_app; [nolf_lit|exact IH]].
Qed.

Lemma nolf_block kvs a : keys_ok kvs -> addl_ok a -> nolf (label_block (map label_string kvs) a).
Proof.
  intros Hk Ha. unfold label_block.
  destruct (negb (is_nil (map label_string kvs)) || match a with Some _ => true | None => false end); [|nolf_lit].
  repeat apply nolf_app; try nolf_lit.
  - now apply nolf_join.
  - destruct a as [[n v]|]; [|nolf_lit]. destruct Ha as [Hn Hv].
    repeat apply nolf_app; try nolf_lit.
    + destruct (is_nil (map label_string kvs)); nolf_lit.
    + now apply nolf_lname.
    + now apply nolf_plain.
Qed.

Lemma nolf_line fx name sfx kvs a value unit :
  mname name -> suffix_ok sfx -> keys_ok kvs -> addl_ok a -> value_ok value = true ->
  nolf (metric_line_body fx name sfx (map label_string kvs) a value unit).
Proof.
  intros Hn Hs Hk Ha Hv.
  pose proof (nolf_mname _ (full_name_mname fx name sfx unit Hn Hs)) as Hf.
  unfold metric_line_body. unfold full_name in Hf.
  rewrite app_assoc.
  apply nolf_app; [exact Hf|apply nolf_app; [now apply nolf_block|apply nolf_app; [nolf_lit|now apply nolf_value]]].
Qed.

(* ---- samples of one family *)
Definition in_fam (hn : text) (ty : mtype) (l : line) : Prop :=
  exists n ls v, l = LSample n ls v /\ sample_in_family hn ty n = true.

Definition good_sample (hn : text) (ty : mtype) (l : str) : Prop :=
  nolf l /\ exists x, parse_line l = Some x /\ in_fam hn ty x.

Lemma parse_good hn ty ls : Forall (good_sample hn ty) ls ->
  exists ss, parse_lines ls = Some ss /\ Forall (in_fam hn ty) ss /\ List.length ss = List.length ls
             /\ List.length (filter is_sample ss) = List.length ls
             /\ filter is_type ss = [] /\ filter is_help ss = [] /\ filter is_blank ss = [].
Proof.
  induction 1 as [|l ls (Hn & x & Hp & Hx) _ (ss & E & Hs & Hl & Hc & H1 & H2 & H3)].
  - exists []. repeat split; constructor.
  - exists (x :: ss). simpl. rewrite Hp, E.
    destruct Hx as (n & lb & v & -> & Hin). simpl.
    repeat split; auto. constructor; auto. now exists n, lb, v.
Qed.

Lemma text_eqb_refl a : text_eqb a a = true.
Proof. induction a; simpl; auto. now rewrite N.eqb_refl. Qed.

Definition sfx_allowed (ty : mtype) (sfx : option str) : Prop :=
  match sfx with None => True | Some w => In (95 :: w) (allowed_suffixes ty) /\ forallb metric_char w = true end.

Lemma good_line sname unit ty sfx kvs a value :
  mname sname -> sfx_allowed ty sfx -> keys_ok kvs -> addl_ok a -> value_ok value = true ->
  good_sample (sname ++ unit_suffix unit) ty
              (metric_line_body true sname sfx (map label_string kvs) a value unit).
Proof.
  intros Hn Hs Hk Ha Hv.
  assert (Hs' : suffix_ok sfx) by (destruct sfx; simpl in *; tauto).
  split; [now apply nolf_line|].
  eexists. split; [now apply metric_line_roundtrip|].
  eexists _, _, _. split; [reflexivity|].
  unfold full_name, sample_in_family. rewrite app_assoc.
  destruct sfx as [w|]; simpl in *.
  - apply orb_true_iff. right. apply existsb_exists. exists (95 :: w). split; [tauto|apply text_eqb_refl].
  - rewrite app_nil_r, text_eqb_refl. reflexivity.
Qed.

Lemma Forall_flat_map' {A B} (P : B -> Prop) (f : A -> list B) l :
  (forall x, In x l -> Forall P (f x)) -> Forall P (flat_map f l).
Proof.
  induction l as [|x l IH]; intros H; simpl; [constructor|].
  apply Forall_app. split; [apply H; now left|apply IH; intros; apply H; now right].
Qed.

(* ---- key_to_parts keeps label keys non-empty *)
Lemma keys_ok_insert k v m : k <> [] -> keys_ok m -> keys_ok (imap_insert k v m).
Proof.
  intros Hk Hm. induction Hm as [|[k' v'] m Hh Ht IH]; simpl.
  - repeat constructor; auto.
  - destruct (str_eqb k k'); constructor; auto.
Qed.

Lemma keys_ok_imap l : keys_ok l -> keys_ok (imap_of l).
Proof.
  unfold imap_of. assert (G : forall m, keys_ok m -> keys_ok l ->
    keys_ok (fold_left (fun m kv => imap_insert (fst kv) (snd kv) m) l m)).
  { induction l as [|kv l IH]; intros m Hm Hl; simpl; auto.
    inversion Hl; subst. apply IH; auto. apply keys_ok_insert; auto. }
  intros H. apply G; auto. constructor.
Qed.

Lemma keys_nonempty_ok l : keys_nonempty l = true -> keys_ok l.
Proof.
  unfold keys_nonempty, keys_ok. intros H. apply Forall_forall. intros kv Hin.
  rewrite forallb_forall in H. specialize (H _ Hin). destruct kv as [k v]. destruct k; [discriminate H|simpl; congruence].
Qed.

Lemma plain_plainb s : plain s = true -> plainb s = true.
Proof. exact (fun H => H). Qed.

(* ---- the lines of a series and of a family, as lists of line bodies *)
Definition series_bodies (fx : bool) (k : kind) (name : str) (unit : option unit_t)
           (globals : list (str * str)) (s : series) : list str :=
  let labels := key_labels globals (s_labels s) in
  match k with
  | KCounter | KGauge => [metric_line_body fx name None labels None (s_value s) unit]
  | KSummary =>
      map (fun qv => metric_line_body fx name None labels (Some (lit "quantile", fst qv)) (snd qv) unit) (s_points s)
      ++ [metric_line_body fx name (Some (lit "sum")) labels None (s_sum s) unit;
          metric_line_body fx name (Some (lit "count")) labels None (s_count s) unit]
  | KHistogram =>
      map (fun lc => metric_line_body fx name (Some (lit "bucket")) labels (Some (lit "le", fst lc)) (snd lc) unit) (s_buckets s)
      ++ [metric_line_body fx name (Some (lit "bucket")) labels (Some (lit "le", lit "+Inf")) (s_count s) unit;
          metric_line_body fx name (Some (lit "sum")) labels None (s_sum s) unit;
          metric_line_body fx name (Some (lit "count")) labels None (s_count s) unit]
  end.

Lemma tl_map {A} (f : A -> str) l : tl (map f l) = flat_map (fun x => f x ++ [10]) l.
Proof. induction l; simpl; auto. unfold tl in *. simpl. now rewrite IHl. Qed.

Lemma render_series_tl fx k name unit g s :
  render_series fx k name unit g s = tl (series_bodies fx k name unit g s).
Proof.
  unfold render_series, series_bodies, write_metric_line.
  destruct k; cbn zeta; try (unfold tl; simpl; now rewrite app_nil_r).
  - rewrite tl_app, tl_map. unfold tl. simpl. now rewrite app_nil_r, <- !app_assoc.
  - rewrite tl_app, tl_map. unfold tl. simpl. now rewrite app_nil_r, <- !app_assoc.
Qed.

Definition family_bodies (fx on gb : bool) (ovs : list matcher) (g : list (str * str)) (f : family) : list str :=
  (match f_desc f with
   | Some (d, _) => [lit "# HELP " ++ header_name fx on f ++ [32] ++ sanitize_description d]
   | None => []
   end)
  ++ [lit "# TYPE " ++ header_name fx on f ++ [32] ++ type_word (type_kind gb ovs f)]
  ++ flat_map (series_bodies fx (emit_kind gb ovs f) (sanitize_metric_name (f_name f)) (eff_unit on f) g) (f_series f)
  ++ [[]].

Lemma render_family_tl fx on gb ovs g f : render_family fx on gb ovs g f = tl (family_bodies fx on gb ovs g f).
Proof.
  unfold render_family, family_bodies, write_help_line, write_type_line.
  rewrite !tl_app. f_equal.
  - destruct (f_desc f) as [[d u]|]; [|reflexivity]. unfold tl. simpl. now rewrite app_nil_r, <- !app_assoc.
  - f_equal; [unfold tl; simpl; now rewrite app_nil_r, <- !app_assoc|].
    f_equal. unfold tl at 1. rewrite flat_map_flat_map. apply flat_map_ext'. intros s.
    apply render_series_tl.
Qed.

Lemma render_text_tl fx rc :
  render_text fx rc = tl (flat_map (family_bodies fx (unit_on rc) (gbuckets rc) (overrides rc) (globals rc)) (fams rc)).
Proof.
  unfold render_text, tl. rewrite flat_map_flat_map. apply flat_map_ext'. intros f. apply render_family_tl.
Qed.

(* ---- one series, one family *)
Lemma lname_lit_le : lname (lit "le").
Proof. eexists _, _. split; [reflexivity|]. split; reflexivity. Qed.
Lemma lname_lit_quantile : lname (lit "quantile").
Proof. eexists _, _. split; [reflexivity|]. split; reflexivity. Qed.

Lemma series_bodies_length fx k name unit g s :
  List.length (series_bodies fx k name unit g s) = series_lines k s.
Proof.
  unfold series_bodies, series_lines. destruct k; cbn zeta; auto.
  - rewrite app_length, map_length. reflexivity.
  - rewrite app_length, map_length. reflexivity.
Qed.

(* the TYPE line and the emitted samples are chosen by the same predicate of the base name, for
   every set of overrides and with or without global buckets *)
Lemma emit_kind_type_kind gb ovs f : emit_kind gb ovs f = type_kind gb ovs f.
Proof. unfold emit_kind, type_kind, dist_emit_hist, dist_type_hist. now rewrite orb_comm. Qed.

Definition compat (fk : fkind) (k : kind) : Prop :=
  match fk, k with
  | FCounter, KCounter | FGauge, KGauge | FDist, KSummary | FDist, KHistogram => True
  | _, _ => False
  end.

Lemma type_kind_compat gb ovs f : compat (f_kind f) (type_kind gb ovs f).
Proof. unfold type_kind. destruct (f_kind f); simpl; auto. destruct (dist_type_hist _ _ _); simpl; auto. Qed.

Lemma good_points sname unit kvs sfx nm pts ty :
  mname sname -> keys_ok kvs -> lname nm -> points_ok pts = true -> sfx_allowed ty sfx ->
  Forall (good_sample (sname ++ unit_suffix unit) ty)
    (map (fun p => metric_line_body true sname sfx (map label_string kvs) (Some (nm, fst p)) (snd p) unit) pts).
Proof.
  intros Hn Hk Hnm Hp Hs. apply Forall_forall. intros l Hin. apply in_map_iff in Hin as (qv & <- & Hin).
  unfold points_ok in Hp. rewrite forallb_forall in Hp. specialize (Hp _ Hin). apply andb_prop in Hp as [Hq Hv].
  apply good_line; simpl; auto.
Qed.

Lemma good_series fk k sname unit g s :
  mname sname -> keys_ok g -> wf_series fk s = true -> compat fk k ->
  Forall (good_sample (sname ++ unit_suffix unit) (kind_mtype k)) (series_bodies true k sname unit g s).
Proof.
  intros Hn Hg Hw Hc. unfold wf_series in Hw. apply andb_prop in Hw as [Hl Hw].
  assert (Hk : keys_ok (imap_of (g ++ s_labels s))).
  { apply keys_ok_imap. apply Forall_app. split; auto. now apply keys_nonempty_ok. }
  unfold series_bodies, key_labels. cbn zeta.
  destruct fk, k; simpl in Hc; try contradiction.
  - apply Forall_cons; [apply good_line; simpl; auto|apply Forall_nil].
  - apply Forall_cons; [apply good_line; simpl; auto|apply Forall_nil].
  - apply andb_prop in Hw as [Hw Hcnt]. apply andb_prop in Hw as [Hw Hs]. apply andb_prop in Hw as [Hp Hb].
    apply Forall_app. split.
    + apply good_points; simpl; auto. apply lname_lit_quantile.
    + repeat (apply Forall_cons; [apply good_line; simpl; auto|]). apply Forall_nil.
  - apply andb_prop in Hw as [Hw Hcnt]. apply andb_prop in Hw as [Hw Hs]. apply andb_prop in Hw as [Hp Hb].
    apply Forall_app. split.
    + apply good_points; simpl; auto. apply lname_lit_le.
    + apply Forall_cons; [apply good_line; simpl; auto; split; [apply lname_lit_le|reflexivity]|].
      repeat (apply Forall_cons; [apply good_line; simpl; auto|]). apply Forall_nil.
Qed.

Definition has_desc (f : family) : bool := match f_desc f with Some _ => true | None => false end.

Lemma header_mname on f : f_name f <> [] -> mname (header_name true on f).
Proof. intros H. unfold header_name. apply mname_app; [now apply mname_sanitized|apply unit_suffix_chars]. Qed.

Lemma wf_family_name f : wf_family f = true -> f_name f <> [].
Proof. unfold wf_family, nonempty. intros H. apply andb_prop in H as [H _]. destruct (f_name f); [discriminate|congruence]. Qed.

Lemma family_parsed on gb ovs g f : keys_ok g -> wf_family f = true ->
  Forall nolf (family_bodies true on gb ovs g f) /\
  exists hs ss,
    parse_lines (family_bodies true on gb ovs g f)
    = Some (hs ++ [LType (header_name true on f) (kind_mtype (type_kind gb ovs f))] ++ ss ++ [LBlank])
    /\ ((hs = [] /\ has_desc f = false) \/ (exists d, hs = [LHelp (header_name true on f) d] /\ has_desc f = true))
    /\ Forall (in_fam (header_name true on f) (kind_mtype (type_kind gb ovs f))) ss
    /\ List.length (filter is_sample ss) = sum_nat (map (series_lines (type_kind gb ovs f)) (f_series f))
    /\ filter is_type ss = [] /\ filter is_help ss = [] /\ filter is_blank ss = [].
Proof.
  intros Hg Hw. pose proof (wf_family_name f Hw) as Hne.
  unfold family_bodies. rewrite emit_kind_type_kind.
  pose proof (header_mname on f Hne) as Hh.
  unfold wf_family in Hw. apply andb_prop in Hw as [_ Hs].
  set (bodies := flat_map (series_bodies true (type_kind gb ovs f) (sanitize_metric_name (f_name f)) (eff_unit on f) g) (f_series f)).
  assert (Hgood : Forall (good_sample (header_name true on f) (kind_mtype (type_kind gb ovs f))) bodies).
  { apply Forall_flat_map'. intros s Hin. rewrite forallb_forall in Hs.
    apply (good_series (f_kind f)); auto; [now apply mname_sanitized|apply type_kind_compat]. }
  destruct (parse_good _ _ _ Hgood) as (ss & Ess & Hin & _ & Hc & H1 & H2 & H3).
  assert (Hlen : List.length bodies = sum_nat (map (series_lines (type_kind gb ovs f)) (f_series f))).
  { unfold bodies. clear. induction (f_series f) as [|s l IH]; [reflexivity|].
    cbn [flat_map map sum_nat]. now rewrite app_length, series_bodies_length, IH. }
  assert (Hty : parse_lines [lit "# TYPE " ++ header_name true on f ++ [32] ++ type_word (type_kind gb ovs f)]
                = Some [LType (header_name true on f) (kind_mtype (type_kind gb ovs f))]).
  { cbn [parse_lines]. now rewrite type_line_roundtrip. }
  assert (Hbl : parse_lines [@nil N] = Some [LBlank]) by reflexivity.
  assert (Hnl_ty : nolf (lit "# TYPE " ++ header_name true on f ++ [32] ++ type_word (type_kind gb ovs f))).
  { apply nolf_app; [nolf_lit|]. apply nolf_app; [now apply nolf_mname|]. apply nolf_app; [nolf_lit|].
    destruct (type_kind gb ovs f); nolf_lit. }
  assert (Hnl_b : Forall nolf bodies).
  { eapply Forall_impl; [|exact Hgood]. intros l [Hl _]. exact Hl. }
  split.
  - apply Forall_app. split.
    + destruct (f_desc f) as [[d u]|]; constructor; [|constructor].
      apply nolf_app; [nolf_lit|]. apply nolf_app; [now apply nolf_mname|]. apply nolf_app; [nolf_lit|].
      apply (toks_no_lf true), esc_toks.
    + constructor; auto. apply Forall_app. split; auto. constructor; [nolf_lit|constructor].
  - unfold has_desc. destruct (f_desc f) as [[d u]|].
    + exists [LHelp (header_name true on f) (dec false (sanitize_description d))], ss.
      split; [|split; [right; eexists; split; reflexivity|rewrite Hc, Hlen; auto]].
      apply parse_lines_app; [cbn [parse_lines]; now rewrite help_line_roundtrip|].
      apply (parse_lines_app [_] _ _ _ Hty). apply parse_lines_app; auto.
    + exists [], ss.
      split; [|split; [left; split; reflexivity|rewrite Hc, Hlen; auto]].
      apply (parse_lines_app [] _ [] _ eq_refl).
      apply (parse_lines_app [_] _ _ _ Hty). apply parse_lines_app; auto.
Qed.

(* ---- the family automaton over one family *)
Lemma frun_samples hn ty ss s : cur s = Some (hn, ty) -> pend s = None -> Forall (in_fam hn ty) ss ->
  frun s (ss ++ [LBlank]) = Some s.
Proof.
  intros Hc Hp H. induction H as [|l ss (n & lb & v & -> & Hin) _ IH]; simpl; auto.
  rewrite Hp, Hc, Hin. exact IH.
Qed.

Lemma frun_family s hn ty hs ss :
  ((hs = []) \/ (exists d, hs = [LHelp hn d])) -> Forall (in_fam hn ty) ss ->
  pend s = None -> mem hn (typed s) = false ->
  frun s (hs ++ [LType hn ty] ++ ss ++ [LBlank])
  = Some {| cur := Some (hn, ty); typed := hn :: typed s; pend := None |}.
Proof.
  intros Hhs Hss Hp Hm.
  destruct Hhs as [->|(d & ->)].
  - cbn [app frun fstep]. rewrite Hm, Hp. now apply (frun_samples hn ty).
  - cbn [app frun fstep typed pend]. rewrite Hp, Hm. cbn [typed pend]. rewrite Hm, text_eqb_refl.
    now apply (frun_samples hn ty).
Qed.

Lemma str_text_eqb a : forall b, str_eqb a b = text_eqb a b.
Proof. induction a; destruct b; simpl; auto; try now rewrite IHa. Qed.
Lemma text_eqb_sym a : forall b, text_eqb a b = text_eqb b a.
Proof. induction a; destruct b; simpl; auto; try now rewrite IHa, N.eqb_sym. Qed.

(* ---- all families *)
Lemma render_families on gb ovs g fs : keys_ok g -> forallb wf_family fs = true ->
  nodup_b (map (header_name true on) fs) = true ->
  forall s, pend s = None ->
    (forall f, In f fs -> mem (header_name true on f) (typed s) = false) ->
  Forall nolf (flat_map (family_bodies true on gb ovs g) fs) /\
  exists pl s', parse_lines (flat_map (family_bodies true on gb ovs g) fs) = Some pl
    /\ frun s pl = Some s' /\ pend s' = None
    /\ List.length (filter is_type pl) = List.length fs
    /\ List.length (filter is_blank pl) = List.length fs
    /\ List.length (filter is_help pl) = List.length (filter has_desc fs)
    /\ List.length (filter is_sample pl)
       = sum_nat (map (fun f => sum_nat (map (series_lines (type_kind gb ovs f)) (f_series f))) fs).
Proof.
  intros Hg. induction fs as [|f fs IH]; intros Hw Hnd s Hp Hm.
  - split; [constructor|]. exists [], s. simpl. repeat split; auto.
  - simpl in Hw. apply andb_prop in Hw as [Hwf Hw].
    cbn [map nodup_b] in Hnd. apply andb_prop in Hnd as [Hnew Hnd].
    destruct (family_parsed on gb ovs g f Hg Hwf) as (Hnl & hs & ss & Ep & Hhs & Hss & Hc & H1 & H2 & H3).
    set (hn := header_name true on f) in *. set (ty := kind_mtype (type_kind gb ovs f)) in *.
    set (s1 := {| cur := Some (hn, ty); typed := hn :: typed s; pend := None |}).
    assert (Hrun : frun s (hs ++ [LType hn ty] ++ ss ++ [LBlank]) = Some s1).
    { apply frun_family; auto.
      - destruct Hhs as [[-> _]|(d & -> & _)]; [now left|right; now exists d].
      - apply Hm. now left. }
    assert (Hm1 : forall f', In f' fs -> mem (header_name true on f') (typed s1) = false).
    { intros f' Hin. cbn [s1 typed mem existsb]. fold (mem (header_name true on f') (typed s)).
      rewrite (Hm f') by now right. rewrite orb_false_r.
      apply negb_true_iff in Hnew.
      destruct (text_eqb (header_name true on f') hn) eqn:E; auto.
      exfalso. assert (existsb (str_eqb hn) (map (header_name true on) fs) = true); [|congruence].
      apply existsb_exists. exists (header_name true on f'). split; [now apply in_map|].
      now rewrite str_text_eqb, text_eqb_sym. }
    destruct (IH Hw Hnd s1 eq_refl Hm1) as (Hnl' & pl & s' & Epl & Hr & Hp' & C1 & C2 & C3 & C4).
    split; [simpl; apply Forall_app; auto|].
    exists ((hs ++ [LType hn ty] ++ ss ++ [LBlank]) ++ pl), s'.
    split; [simpl; now apply parse_lines_app|].
    split; [rewrite frun_app, Hrun; exact Hr|]. split; [exact Hp'|].
    assert (Hhelp : List.length (filter is_help hs) = (if has_desc f then 1 else 0)%nat
                    /\ filter is_type hs = [] /\ filter is_blank hs = [] /\ filter is_sample hs = []).
    { destruct Hhs as [[-> ->]|(d & -> & ->)]; simpl; auto. }
    destruct Hhelp as (Hh1 & Hh2 & Hh3 & Hh4).
    repeat (rewrite filter_app || rewrite app_length).
    cbn [filter is_type is_blank is_help is_sample List.length app].
    rewrite H1, H2, H3, Hh2, Hh3, Hh4, Hh1, Hc, C1, C2, C3, C4. cbn [List.length map sum_nat].
    repeat split; try lia.
    destruct (has_desc f); simpl; lia.
Qed.

Theorem render_spec rc : wf_rcase rc = true ->
  exists pl, parse_text (render_text true rc) = Some pl /\ family_ok pl = true
    /\ List.length (filter is_type pl) = List.length (fams rc)
    /\ List.length (filter is_blank pl) = List.length (fams rc)
    /\ List.length (filter is_help pl) = expected_helps rc
    /\ List.length (filter is_sample pl) = expected_samples rc.
Proof.
  unfold wf_rcase. intros H. apply andb_prop in H as [H Hnd]. apply andb_prop in H as [H _].
  apply andb_prop in H as [Hg Hw]. apply keys_nonempty_ok in Hg.
  destruct (render_families (unit_on rc) (gbuckets rc) (overrides rc) (globals rc) (fams rc) Hg Hw Hnd fstart eq_refl)
    as (Hnl & pl & s' & Ep & Hr & Hp & C1 & C2 & C3 & C4); [reflexivity|].
  exists pl. rewrite render_text_tl, parse_text_tl by auto.
  split; [exact Ep|]. split; [unfold family_ok; now rewrite Hr, Hp|].
  repeat split; auto.
Qed.
