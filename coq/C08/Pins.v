From Coq Require Import List NArith Bool String.
Import ListNotations.
Require Import MV.C08.Model MV.C08.Spec MV.C08.Exec MV.C08.ProofsSan MV.C08.ProofsEsc MV.C08.ProofsLine
        MV.C08.ProofsText MV.C08.ExecProofs.
Open Scope N_scope.
Open Scope list_scope.
Require Import MV.C08.Properties.

Check (C08_metric_name_grammar : forall s, s <> [] ->
  metric_name_ok (sanitize_metric_name s) = true /\ List.length (sanitize_metric_name s) = List.length s).
Print Assumptions C08_metric_name_grammar.
Check (C08_label_name_grammar : forall s, s <> [] ->
  label_name_ok (sanitize_label_key s) = true /\ List.length (sanitize_label_key s) = List.length s).
Print Assumptions C08_label_name_grammar.
Check (C08_escape_tokens : forall is_desc s pending_backslash, toks is_desc (esc is_desc pending_backslash s)).
Print Assumptions C08_escape_tokens.
Check (C08_no_early_termination : forall v,
  (forall n acc done rest,
     read_labels (LVal n acc) done (sanitize_label_value v ++ 34 :: rest)
     = read_labels LAfter ((n, rev acc ++ dec false (sanitize_label_value v)) :: done) rest)
  /\ ~ In 10 (sanitize_label_value v)
  /\ read_doc false [] (sanitize_description v) = Some (dec false (sanitize_description v))
  /\ ~ In 10 (sanitize_description v)).
Print Assumptions C08_no_early_termination.
Check (C08_escape_faithful_without_backslash : forall is_desc s,
  ~ In 92 s -> dec false (esc is_desc false s) = s).
Print Assumptions C08_escape_faithful_without_backslash.
Check (C08_line_roundtrip : forall fx n g ls sfx a v u,
  n <> [] -> keys_ok g -> keys_ok ls -> suffix_ok sfx -> addl_ok a -> value_ok v = true ->
  parse_line (metric_line_body fx (sanitize_metric_name n) sfx (key_labels g ls) a v u)
  = Some (LSample (full_name fx (sanitize_metric_name n) sfx u) (map dl (imap_of (g ++ ls)) ++ addl_pairs a) v)).
Print Assumptions C08_line_roundtrip.
Check (C08_help_line_roundtrip : forall nm desc, mname nm ->
  parse_line (lit "# HELP " ++ nm ++ [32] ++ sanitize_description desc)
  = Some (LHelp nm (dec false (sanitize_description desc)))).
Print Assumptions C08_help_line_roundtrip.
Check (C08_type_line_roundtrip : forall nm k, mname nm ->
  parse_line (lit "# TYPE " ++ nm ++ [32] ++ type_word k) = Some (LType nm (kind_mtype k))).
Print Assumptions C08_type_line_roundtrip.
Check (C08_type_line_matches_samples : forall gb ovs f, emit_kind gb ovs f = type_kind gb ovs f).
Print Assumptions C08_type_line_matches_samples.
Check (C08_family_structure : forall rc, wf_rcase rc = true ->
  exists pl, parse_text (render_text true rc) = Some pl /\ family_ok pl = true
    /\ List.length (filter is_type pl) = List.length (fams rc)
    /\ List.length (filter is_blank pl) = List.length (fams rc)
    /\ List.length (filter is_help pl) = expected_helps rc
    /\ List.length (filter is_sample pl) = expected_samples rc).
Print Assumptions C08_family_structure.
Check (C08_family_structure_refuted_before_fix : exists rc, wf_rcase rc = true /\ exposition_ok (render_text false rc) = false
             /\ spec_ok (CRender false rc) (run_case (CRender false rc)) = false).
Print Assumptions C08_family_structure_refuted_before_fix.
Check (C08_spec_ok_on_model : forall c,
  match c with CRender fx _ => fx = true | _ => True end -> spec_ok c (run_case c) = true).
Print Assumptions C08_spec_ok_on_model.
Check (C08_spec_ok_render_sound : forall fx rc o, wf_rcase rc = true -> spec_ok (CRender fx rc) o = true ->
  exists pl, parse_text o = Some pl /\ family_ok pl = true
    /\ List.length (filter is_type pl) = List.length (fams rc)
    /\ List.length (filter is_sample pl) = expected_samples rc).
Print Assumptions C08_spec_ok_render_sound.
Check (C08_example_satisfiable : wf_rcase example_case = true /\ exposition_ok (render_text true example_case) = true
  /\ exposition_ok (render_text false example_case) = false
  /\ map (type_kind (gbuckets example_case) (overrides example_case)) (fams example_case) = [KHistogram; KCounter]).
Print Assumptions C08_example_satisfiable.
