(* C08 — proofs about the two name sanitisers. *)
From Coq Require Import List NArith Bool Lia.
Import ListNotations.
Require Import MV.C08.Model MV.C08.Spec.
Open Scope N_scope.

Ltac atoms c :=
  destruct (65 <=? c), (c <=? 90), (97 <=? c), (c <=? 122), (48 <=? c), (c <=? 57), (c =? 95), (c =? 58);
  reflexivity.

(* the model's character predicates (transcribed from formatting.rs) coincide with the grammar's *)
Lemma mstart_eq c : valid_metric_name_start_character c = metric_start c.
Proof. unfold valid_metric_name_start_character, metric_start, label_start, letter, in_range, is_alpha. atoms c. Qed.
Lemma mchar_eq c : valid_metric_name_character c = metric_char c.
Proof. unfold valid_metric_name_character, metric_char, label_char, label_start, letter, digit, in_range, is_alnum, is_alpha, is_digit. atoms c. Qed.
Lemma lstart_eq c : valid_label_key_start_character c = label_start c.
Proof. unfold valid_label_key_start_character, label_start, letter, in_range, is_alpha. atoms c. Qed.
Lemma lchar_eq c : valid_label_key_character c = label_char c.
Proof. unfold valid_label_key_character, label_char, label_start, letter, digit, in_range, is_alnum, is_alpha, is_digit. atoms c. Qed.

Lemma sanitize_with_length p q s : length (sanitize_with p q s) = length s.
Proof. destruct s; simpl; auto. now rewrite map_length. Qed.

Lemma forallb_map_fix (q : N -> bool) r :
  q 95 = true -> forallb q (map (fun c => if q c then c else 95) r) = true.
Proof.
  intros H. induction r as [|c r IH]; simpl; auto.
  rewrite IH, andb_true_r. destruct (q c) eqn:E; auto.
Qed.

Lemma sanitize_with_shape p q s :
  s <> [] -> p 95 = true -> q 95 = true ->
  exists c r, sanitize_with p q s = c :: r /\ p c = true /\ forallb q r = true.
Proof.
  intros Hs Hp Hq. destruct s as [|c r]; [congruence|]. simpl.
  eexists _, _. split; [reflexivity|]. split.
  - destruct (p c) eqn:E; auto.
  - apply forallb_map_fix; auto.
Qed.

Lemma forallb_ext_eq {A} (f g : A -> bool) l : (forall x, f x = g x) -> forallb f l = forallb g l.
Proof. intros H. induction l; simpl; auto. now rewrite H, IHl. Qed.

Lemma metric_name_shape s : s <> [] ->
  exists c r, sanitize_metric_name s = c :: r /\ metric_start c = true /\ forallb metric_char r = true.
Proof.
  intros Hs.
  destruct (sanitize_with_shape valid_metric_name_start_character valid_metric_name_character s Hs eq_refl eq_refl)
    as (c & r & E & Hc & Hr).
  exists c, r. split; [exact E|]. split; [now rewrite <- mstart_eq|].
  rewrite <- Hr. apply forallb_ext_eq. intros; symmetry; apply mchar_eq.
Qed.

Lemma label_key_shape s : s <> [] ->
  exists c r, sanitize_label_key s = c :: r /\ label_start c = true /\ forallb label_char r = true.
Proof.
  intros Hs.
  destruct (sanitize_with_shape valid_label_key_start_character valid_label_key_character s Hs eq_refl eq_refl)
    as (c & r & E & Hc & Hr).
  exists c, r. split; [exact E|]. split; [now rewrite <- lstart_eq|].
  rewrite <- Hr. apply forallb_ext_eq. intros; symmetry; apply lchar_eq.
Qed.

Theorem metric_name_grammar s : s <> [] ->
  metric_name_ok (sanitize_metric_name s) = true /\ length (sanitize_metric_name s) = length s.
Proof.
  intros Hs. split; [|apply sanitize_with_length].
  destruct (metric_name_shape s Hs) as (c & r & E & Hc & Hr). rewrite E. simpl. now rewrite Hc, Hr.
Qed.

Theorem label_name_grammar s : s <> [] ->
  label_name_ok (sanitize_label_key s) = true /\ length (sanitize_label_key s) = length s.
Proof.
  intros Hs. split; [|apply sanitize_with_length].
  destruct (label_key_shape s Hs) as (c & r & E & Hc & Hr). rewrite E. simpl. now rewrite Hc, Hr.
Qed.

(* characters kept by the sanitisers are kept unchanged, position by position *)
Theorem metric_name_pointwise s i c : nth_error s i = Some c ->
  nth_error (sanitize_metric_name s) i
  = Some (if (if Nat.eqb i 0 then metric_start c else metric_char c) then c else 95).
Proof.
  destruct s as [|a r]; [destruct i; discriminate|].
  unfold sanitize_metric_name. simpl. destruct i as [|i]; simpl.
  - intros [= ->]. now rewrite mstart_eq.
  - intros H. rewrite nth_error_map, H. simpl. now rewrite mchar_eq.
Qed.
