(* C08 — model of metrics-exporter-prometheus/src/formatting.rs (all of it) and of the text
   composition done by Inner::render in recorder.rs.

   Strings are lists of Unicode scalar values (the Rust iterates `chars()`); the rendered text is
   a list of scalar values as well.  Numbers arrive pre-formatted (`Display for u64/f64` is an
   oracle): counter/gauge values, bucket bounds, quantiles, counts and sums are `str` data.

   [fx] selects between the code as found (false: write_metric_line appends the unit suffix AFTER
   the `_bucket/_sum/_count` suffix and render writes HELP/TYPE with the bare name) and the code
   after the `fix:` commit (true: name, unit suffix, type suffix; HELP/TYPE carry the unit suffix). *)
From Coq Require Import List NArith Bool String Ascii.
Import ListNotations.
Open Scope N_scope.

Definition str := list N.

Fixpoint lit (s : string) : str :=
  match s with
  | EmptyString => []
  | String a r => N_of_ascii a :: lit r
  end.

Fixpoint str_eqb (a b : str) : bool :=
  match a, b with
  | [], [] => true
  | x :: r, y :: r' => (x =? y) && str_eqb r r'
  | _, _ => false
  end.

(* ---- char::is_ascii_alphabetic / is_ascii_alphanumeric and the four predicates of formatting.rs *)
Definition is_alpha (c : N) : bool := ((65 <=? c) && (c <=? 90)) || ((97 <=? c) && (c <=? 122)).
Definition is_digit (c : N) : bool := (48 <=? c) && (c <=? 57).
Definition is_alnum (c : N) : bool := is_alpha c || is_digit c.

Definition valid_metric_name_start_character (c : N) : bool := is_alpha c || (c =? 95) || (c =? 58).
Definition valid_metric_name_character (c : N) : bool := is_alnum c || (c =? 95) || (c =? 58).
Definition valid_label_key_start_character (c : N) : bool := is_alpha c || (c =? 95).
Definition valid_label_key_character (c : N) : bool := is_alnum c || (c =? 95).

(* name.chars().enumerate().map(|(i, c)| if i == 0 && start(c) || i != 0 && rest(c) { c } else { '_' }) *)
Definition sanitize_with (startp restp : N -> bool) (s : str) : str :=
  match s with
  | [] => []
  | c :: r => (if startp c then c else 95) :: map (fun c => if restp c then c else 95) r
  end.

Definition sanitize_metric_name : str -> str :=
  sanitize_with valid_metric_name_start_character valid_metric_name_character.
Definition sanitize_label_key : str -> str :=
  sanitize_with valid_label_key_start_character valid_label_key_character.

(* sanitize_label_value_or_description: the loop body arm by arm; [pb] = previous_backslash.
   LF arm: pushes BACKSLASH n, leaves pb as it is.  DQUOTE arm (label values only): clears pb,
   pushes BACKSLASH DQUOTE (a pending backslash is dropped).  BACKSLASH arm: emits two
   backslashes iff pb, then toggles pb.  default arm: flushes a pending backslash as two
   backslashes, then the character.  After the loop a pending backslash is flushed. *)
Fixpoint esc (is_desc : bool) (pb : bool) (s : str) : str :=
  match s with
  | [] => if pb then [92; 92] else []
  | c :: r =>
      if c =? 10 then [92; 110] ++ esc is_desc pb r
      else if (c =? 34) && negb is_desc then [92; 34] ++ esc is_desc false r
      else if c =? 92 then (if pb then [92; 92] else []) ++ esc is_desc (negb pb) r
      else (if pb then [92; 92] else []) ++ c :: esc is_desc false r
  end.

Definition sanitize_label_value (v : str) : str := esc false false v.
Definition sanitize_description (v : str) : str := esc true false v.

(* ---- metrics::Unit and Unit::as_str *)
Inductive unit_t :=
| Count | Percent | Seconds | Milliseconds | Microseconds | Nanoseconds
| Tebibytes | Gibibytes | Mebibytes | Kibibytes | Bytes
| TerabitsPerSecond | GigabitsPerSecond | MegabitsPerSecond | KilobitsPerSecond | BitsPerSecond
| CountPerSecond.

Definition unit_str (u : unit_t) : str :=
  lit (match u with
       | Count => "count" | Percent => "percent" | Seconds => "seconds"
       | Milliseconds => "milliseconds" | Microseconds => "microseconds" | Nanoseconds => "nanoseconds"
       | Tebibytes => "tebibytes" | Gibibytes => "gibibytes" | Mebibytes => "mebibytes"
       | Kibibytes => "kibibytes" | Bytes => "bytes"
       | TerabitsPerSecond => "terabits_per_second" | GigabitsPerSecond => "gigabits_per_second"
       | MegabitsPerSecond => "megabits_per_second" | KilobitsPerSecond => "kilobits_per_second"
       | BitsPerSecond => "bits_per_second" | CountPerSecond => "count_per_second"
       end)%string.

(* the `match unit` of write_metric_line: Count / None -> nothing, Percent -> _ratio, else _ + as_str *)
Definition unit_suffix (u : option unit_t) : str :=
  match u with
  | None | Some Count => []
  | Some Percent => lit "_ratio"
  | Some u => 95 :: unit_str u
  end.

(* ---- key_to_parts: IndexMap semantics (insert = overwrite the value in place, or append) *)
Fixpoint imap_insert (k v : str) (m : list (str * str)) : list (str * str) :=
  match m with
  | [] => [(k, v)]
  | (k', v') :: r => if str_eqb k k' then (k', v) :: r else (k', v') :: imap_insert k v r
  end.

Definition imap_of (l : list (str * str)) : list (str * str) :=
  fold_left (fun m kv => imap_insert (fst kv) (snd kv) m) l [].

(* format! of: sanitize_label_key(k) = DQUOTE sanitize_label_value(v) DQUOTE *)
Definition label_string (kv : str * str) : str :=
  sanitize_label_key (fst kv) ++ [61; 34] ++ sanitize_label_value (snd kv) ++ [34].

(* global labels were themselves collected by IndexMap::insert (add_global_label); the key's
   labels are inserted on top of a clone of them *)
Definition key_labels (globals labels : list (str * str)) : list str :=
  map label_string (imap_of (globals ++ labels)).

(* ---- the three line writers *)
Definition write_help_line (name desc : str) : str :=
  lit "# HELP " ++ name ++ [32] ++ sanitize_description desc ++ [10].

Definition write_type_line (name ty : str) : str :=
  lit "# TYPE " ++ name ++ [32] ++ ty ++ [10].

Definition type_suffix (suffix : option str) : str :=
  match suffix with Some s => 95 :: s | None => [] end.

Fixpoint join_comma (ls : list str) : str :=
  match ls with
  | [] => []
  | [l] => l
  | l :: r => l ++ [44] ++ join_comma r
  end.

Definition is_nil {A} (l : list A) : bool := match l with [] => true | _ => false end.

Definition label_block (labels : list str) (addl : option (str * str)) : str :=
  if negb (is_nil labels) || (match addl with Some _ => true | None => false end) then
    [123] ++ join_comma labels ++
    (match addl with
     | Some (n, v) => (if is_nil labels then [] else [44]) ++ n ++ [61; 34] ++ v ++ [34]
     | None => []
     end) ++ [125]
  else [].

(* the line without its final '\n' *)
Definition metric_line_body (fx : bool) (name : str) (suffix : option str) (labels : list str)
           (addl : option (str * str)) (value : str) (unit : option unit_t) : str :=
  name ++ (if fx then unit_suffix unit ++ type_suffix suffix else type_suffix suffix ++ unit_suffix unit)
       ++ label_block labels addl ++ [32] ++ value.

Definition write_metric_line fx name suffix labels addl value unit : str :=
  metric_line_body fx name suffix labels addl value unit ++ [10].

(* ---- Matcher (common.rs) and the two lookups of DistributionBuilder (distribution.rs) that decide
   whether a histogram key is kept as a Prometheus histogram or as a summary.  set_buckets_for_metric
   stores matcher.sanitized(); names and sanitised matchers are ASCII, so String::len is the
   number of characters. *)
Inductive mkind := MFull | MPrefix | MSuffix.
Definition matcher := (mkind * str)%type.

Fixpoint starts_with (p s : str) : bool :=
  match p, s with
  | [], _ => true
  | x :: p', y :: s' => (x =? y) && starts_with p' s'
  | _ :: _, [] => false
  end.
Definition ends_with (p s : str) : bool := starts_with (rev p) (rev s).

(* Matcher::sanitized: a suffix is sanitised as the tail of a name (sanitize_metric_name("_" + s)[1..]) *)
Definition matcher_sanitized (m : matcher) : matcher :=
  match fst m with
  | MSuffix => (MSuffix, List.tl (sanitize_metric_name (95 :: snd m)))
  | k => (k, sanitize_metric_name (snd m))
  end.

(* Matcher::matches *)
Definition matches (m : matcher) (key : str) : bool :=
  match fst m with
  | MPrefix => starts_with (snd m) key
  | MSuffix => ends_with (snd m) key
               || (Nat.eqb (List.length key) (List.length (snd m)) && str_eqb key (sanitize_metric_name (snd m)))
  | MFull => str_eqb key (snd m)
  end.

Definition any_override (ovs : list matcher) (name : str) : bool :=
  existsb (fun m => matches (matcher_sanitized m) name) ovs.

(* DistributionBuilder::get_distribution_type(name) == "histogram": global buckets first, then overrides *)
Definition dist_type_hist (gb : bool) (ovs : list matcher) (name : str) : bool := gb || any_override ovs name.
(* DistributionBuilder::get_distribution(name) is a histogram: overrides first, then global buckets *)
Definition dist_emit_hist (gb : bool) (ovs : list matcher) (name : str) : bool := any_override ovs name || gb.

(* ---- Inner::render: one family per (sanitised) name; what the snapshot holds is input data *)
Inductive kind := KCounter | KGauge | KSummary | KHistogram.
Inductive fkind := FCounter | FGauge | FDist.

Record series := {
  s_labels : list (str * str);   (* the key's own labels, raw *)
  s_value : str;                 (* counter / gauge: formatted value *)
  s_points : list (str * str);   (* if rendered as a summary: (quantile, value) *)
  s_buckets : list (str * str);  (* if rendered as a histogram: (le, cumulative count) *)
  s_sum : str;
  s_count : str }.

Record family := {
  f_kind : fkind;
  f_name : str;                              (* raw key name *)
  f_desc : option (str * option unit_t);     (* the stored description (first describe_* call) *)
  f_series : list series }.

Record rcase := {
  unit_on : bool;
  gbuckets : bool;                 (* set_buckets was called *)
  overrides : list matcher;        (* set_buckets_for_metric calls, raw matchers *)
  globals : list (str * str);
  fams : list family }.

(* the word on the TYPE line: get_distribution_type on the BASE (sanitised) name *)
Definition type_kind (gb : bool) (ovs : list matcher) (f : family) : kind :=
  match f_kind f with
  | FCounter => KCounter
  | FGauge => KGauge
  | FDist => if dist_type_hist gb ovs (sanitize_metric_name (f_name f)) then KHistogram else KSummary
  end.
(* which samples are written: the Distribution created at drain time by get_distribution(base name) *)
Definition emit_kind (gb : bool) (ovs : list matcher) (f : family) : kind :=
  match f_kind f with
  | FCounter => KCounter
  | FGauge => KGauge
  | FDist => if dist_emit_hist gb ovs (sanitize_metric_name (f_name f)) then KHistogram else KSummary
  end.

Definition type_word (k : kind) : str :=
  lit (match k with KCounter => "counter" | KGauge => "gauge" | KSummary => "summary" | KHistogram => "histogram" end)%string.

Definition render_series (fx : bool) (k : kind) (name : str) (unit : option unit_t)
           (globals : list (str * str)) (s : series) : str :=
  let labels := key_labels globals (s_labels s) in
  match k with
  | KCounter | KGauge => write_metric_line fx name None labels None (s_value s) unit
  | KSummary =>
      flat_map (fun qv => write_metric_line fx name None labels (Some (lit "quantile", fst qv)) (snd qv) unit)
               (s_points s)
      ++ write_metric_line fx name (Some (lit "sum")) labels None (s_sum s) unit
      ++ write_metric_line fx name (Some (lit "count")) labels None (s_count s) unit
  | KHistogram =>
      flat_map (fun lc => write_metric_line fx name (Some (lit "bucket")) labels (Some (lit "le", fst lc)) (snd lc) unit)
               (s_buckets s)
      ++ write_metric_line fx name (Some (lit "bucket")) labels (Some (lit "le", lit "+Inf")) (s_count s) unit
      ++ write_metric_line fx name (Some (lit "sum")) labels None (s_sum s) unit
      ++ write_metric_line fx name (Some (lit "count")) labels None (s_count s) unit
  end.

(* unit.filter(|_| self.enable_unit_suffix) *)
Definition eff_unit (on : bool) (f : family) : option unit_t :=
  match f_desc f with Some (_, u) => if on then u else None | None => None end.

(* the name written on the HELP and TYPE lines *)
Definition header_name (fx on : bool) (f : family) : str :=
  let name := sanitize_metric_name (f_name f) in
  if fx then name ++ unit_suffix (eff_unit on f) else name.

Definition render_family (fx on gb : bool) (ovs : list matcher) (globals : list (str * str)) (f : family) : str :=
  let name := sanitize_metric_name (f_name f) in
  let unit := eff_unit on f in
  (match f_desc f with Some (d, _) => write_help_line (header_name fx on f) d | None => [] end)
  ++ write_type_line (header_name fx on f) (type_word (type_kind gb ovs f))
  ++ flat_map (render_series fx (emit_kind gb ovs f) name unit globals) (f_series f)
  ++ [10].

Definition render_text (fx : bool) (rc : rcase) : str :=
  flat_map (render_family fx (unit_on rc) (gbuckets rc) (overrides rc) (globals rc)) (fams rc).
