(* C08 — executable entry points used by the correspondence check. *)
From Coq Require Import List NArith Bool String Ascii.
Import ListNotations.
Require Export MV.C08.Model MV.C08.Spec.
Open Scope N_scope.

(* code points are transmitted as 3 bytes each: cps (hx "00006100000a") = [97; 10] *)
Fixpoint cps (l : list N) : list N :=
  match l with
  | a :: b :: c :: r => (a * 65536 + b * 256 + c) :: cps r
  | _ => []
  end.

Inductive case :=
| CSan (which : N) (s : str)                 (* 0 metric name, 1 label key, 2 label value, 3 description *)
| CHelp (name desc : str)                    (* write_help_line(sanitize_metric_name(name), desc) *)
| CType (name : str) (k : kind)              (* write_type_line(sanitize_metric_name(name), word) *)
| CLine (fx : bool) (name : str) (globals labels : list (str * str)) (suffix : option N)
        (addl : option (bool * str)) (value : str) (unit : option unit_t)
                                             (* key_to_parts + write_metric_line *)
| CRender (fx : bool) (rc : rcase).          (* PrometheusHandle::render *)

Definition suffix_word (n : N) : str :=
  if n =? 0 then lit "bucket" else if n =? 1 then lit "sum" else lit "count".
Definition addl_of (a : option (bool * str)) : option (str * str) :=
  match a with
  | Some (true, v) => Some (lit "le", v)
  | Some (false, v) => Some (lit "quantile", v)
  | None => None
  end.

Definition run_case (c : case) : str :=
  match c with
  | CSan w s =>
      if w =? 0 then sanitize_metric_name s else if w =? 1 then sanitize_label_key s
      else if w =? 2 then sanitize_label_value s else sanitize_description s
  | CHelp n d => write_help_line (sanitize_metric_name n) d
  | CType n k => write_type_line (sanitize_metric_name n) (type_word k)
  | CLine fx n g ls sfx a v u =>
      write_metric_line fx (sanitize_metric_name n) (option_map suffix_word sfx) (key_labels g ls) (addl_of a) v u
  | CRender fx rc => render_text fx rc
  end.

(* ---- comparison of outputs.  Sanitiser and line outputs: exact.  Renderings: HashMap iteration
   order is unspecified, so texts are compared as multisets of families (blocks ended by an empty
   line), each family as its '#' header lines in order plus the multiset of its sample lines. *)
Fixpoint remove1 {A} (eqb : A -> A -> bool) (x : A) (l : list A) : option (list A) :=
  match l with
  | [] => None
  | y :: r => if eqb x y then Some r
              else match remove1 eqb x r with Some r' => Some (y :: r') | None => None end
  end.
Fixpoint perm_eqb {A} (eqb : A -> A -> bool) (a b : list A) : bool :=
  match a with
  | [] => is_nil b
  | x :: r => match remove1 eqb x b with Some b' => perm_eqb eqb r b' | None => false end
  end.
Fixpoint list_eqb {A} (eqb : A -> A -> bool) (a b : list A) : bool :=
  match a, b with
  | [], [] => true
  | x :: r, y :: r' => eqb x y && list_eqb eqb r r'
  | _, _ => false
  end.

Fixpoint group_blocks (cur : list text) (ls : list text) : list (list text) :=
  match ls with
  | [] => match cur with [] => [] | _ => [rev cur] end
  | l :: r => if is_nil l then rev cur :: group_blocks [] r else group_blocks (l :: cur) r
  end.

Definition is_header (l : text) : bool := match l with 35 :: _ => true | _ => false end.
Fixpoint split_headers (b : list text) : list text * list text :=
  match b with
  | l :: r => if is_header l then let '(h, s) := split_headers r in (l :: h, s) else ([], b)
  | [] => ([], [])
  end.

Definition block_eqb (a b : list text) : bool :=
  let '(ha, sa) := split_headers a in
  let '(hb, sb) := split_headers b in
  list_eqb text_eqb ha hb && perm_eqb text_eqb sa sb.

Definition render_eqb (a b : text) : bool :=
  let '(la, ra) := split_lf [] a in
  let '(lb, rb) := split_lf [] b in
  text_eqb ra rb && perm_eqb block_eqb (group_blocks [] la) (group_blocks [] lb).

Definition out_eqb (c : case) (a b : str) : bool :=
  match c with CRender _ _ => render_eqb a b | _ => text_eqb a b end.

(* ---- preconditions of the property (its quantifier): non-empty names and label keys, formatted
   numbers are numbers, family names pairwise distinct *)
Definition nonempty (s : str) : bool := negb (is_nil s).
Definition plain (s : str) : bool := forallb (fun c => negb ((c =? 34) || (c =? 92) || (c =? 10))) s.
Definition keys_nonempty (l : list (str * str)) : bool := forallb (fun kv => nonempty (fst kv)) l.

Fixpoint nodup_b (l : list str) : bool :=
  match l with [] => true | x :: r => negb (existsb (str_eqb x) r) && nodup_b r end.

Definition points_ok (l : list (str * str)) : bool := forallb (fun p => plain (fst p) && value_ok (snd p)) l.
Definition wf_series (k : fkind) (s : series) : bool :=
  keys_nonempty (s_labels s) &&
  match k with
  | FCounter | FGauge => value_ok (s_value s)
  | FDist => points_ok (s_points s) && points_ok (s_buckets s) && value_ok (s_sum s) && value_ok (s_count s)
  end.

Definition wf_family (f : family) : bool :=
  nonempty (f_name f) && forallb (wf_series (f_kind f)) (f_series f).

Definition wf_rcase (rc : rcase) : bool :=
  keys_nonempty (globals rc) && forallb wf_family (fams rc)
  && nodup_b (map (fun f => sanitize_metric_name (f_name f)) (fams rc))
  && nodup_b (map (header_name true (unit_on rc)) (fams rc)).

Definition wf_case (c : case) : bool :=
  match c with
  | CSan w s => if w <? 2 then nonempty s else true
  | CHelp n _ | CType n _ => nonempty n
  | CLine _ n g ls _ a v _ =>
      nonempty n && keys_nonempty g && keys_nonempty ls && value_ok v
      && match a with Some (_, x) => plain x | None => true end
  | CRender _ rc => wf_rcase rc
  end.

(* ---- the property in executable form, evaluated on an observed output *)
Definition same_len (a b : list N) : bool := Nat.eqb (List.length a) (List.length b).

Fixpoint distinct_keys (seen : list str) (l : list (str * str)) : nat :=
  match l with
  | [] => 0%nat
  | (k, _) :: r => if existsb (text_eqb k) seen then distinct_keys seen r else S (distinct_keys (k :: seen) r)
  end.

Definition kind_mtype (k : kind) : mtype :=
  match k with KCounter => TCounter | KGauge => TGauge | KSummary => TSummary | KHistogram => THistogram end.

Definition series_lines (k : kind) (s : series) : nat :=
  match k with
  | KCounter | KGauge => 1
  | KSummary => List.length (s_points s) + 2
  | KHistogram => List.length (s_buckets s) + 3
  end.
Fixpoint sum_nat (l : list nat) : nat := match l with [] => 0 | x :: r => x + sum_nat r end.
Definition expected_samples (rc : rcase) : nat :=
  sum_nat (map (fun f => sum_nat (map (series_lines (type_kind (gbuckets rc) (overrides rc) f)) (f_series f))) (fams rc)).
Definition expected_helps (rc : rcase) : nat :=
  List.length (filter (fun f => match f_desc f with Some _ => true | None => false end) (fams rc)).

Definition spec_san (w : N) (s o : str) : bool :=
  if w =? 0 then metric_name_ok o && same_len o s
  else if w =? 1 then label_name_ok o && same_len o s
  else if w =? 2 then
    (* placed between quotes the text is read back as exactly one label value *)
    match parse_line (chars "m{k=""" ++ o ++ chars """} 1") with
    | Some (LSample [109] [([107], _)] [49]) => true
    | _ => false
    end
  else
    match parse_line (chars "# HELP m " ++ o) with
    | Some (LHelp [109] _) => true
    | _ => false
    end.

Definition spec_ok (c : case) (o : str) : bool :=
  implb (wf_case c)
  match c with
  | CSan w s => spec_san w s o
  | CHelp n _ =>
      match parse_text o with Some [LHelp n' _] => same_len n' n | _ => false end
  | CType n k =>
      match parse_text o with Some [LType n' t] => same_len n' n && mtype_eqb t (kind_mtype k) | _ => false end
  | CLine _ n g ls _ a v _ =>
      match parse_text o with
      | Some [LSample _ pl v'] =>
          text_eqb v' v
          && Nat.eqb (List.length pl) (distinct_keys [] (g ++ ls) + match a with Some _ => 1 | None => 0 end)
          && match a with
             | Some (b, x) =>
                 match last pl ([], []) with
                 | (k', x') => text_eqb k' (if b then chars "le" else chars "quantile") && text_eqb x' x
                 end
             | None => true
             end
      | _ => false
      end
  | CRender _ rc =>
      match parse_text o with
      | Some ls =>
          family_ok ls
          && Nat.eqb (List.length (filter is_type ls)) (List.length (fams rc))
          && Nat.eqb (List.length (filter is_blank ls)) (List.length (fams rc))
          && Nat.eqb (List.length (filter is_help ls)) (expected_helps rc)
          && Nat.eqb (List.length (filter is_sample ls)) (expected_samples rc)
      | None => false
      end
  end.

Definition known_class (c : case) : option N := None.

Definition verdicts (l : list (N * case * str)) : list (N * bool * bool * option N) :=
  map (fun '(i, c, o) => (i, out_eqb c (run_case c) o, spec_ok c o, known_class c)) l.
