(* C08 — the executable form of the property holds on every model output. *)
From Coq Require Import List NArith Bool Lia String.
Import ListNotations.
Require Import MV.C08.Model MV.C08.Spec MV.C08.Exec MV.C08.ProofsSan MV.C08.ProofsEsc MV.C08.ProofsLine MV.C08.ProofsText.
Open Scope N_scope.
Open Scope list_scope.

Lemma nonempty_ne s : nonempty s = true -> s <> [].
Proof. destruct s; [discriminate|congruence]. Qed.

Lemma same_len_refl_len a b : List.length a = List.length b -> same_len a b = true.
Proof. unfold same_len. intros ->. apply PeanoNat.Nat.eqb_refl. Qed.

(* ---- the number of labels written = the number of distinct raw keys *)
Lemma insert_present k v m : existsb (str_eqb k) (map fst m) = true ->
  map fst (imap_insert k v m) = map fst m.
Proof.
  induction m as [|[k' v'] m IH]; simpl; [discriminate|].
  destruct (str_eqb k k'); simpl; auto. intros H. now rewrite IH.
Qed.
Lemma insert_absent k v m : existsb (str_eqb k) (map fst m) = false ->
  map fst (imap_insert k v m) = map fst m ++ [k].
Proof.
  induction m as [|[k' v'] m IH]; simpl; auto.
  destruct (str_eqb k k'); simpl; [discriminate|]. intros H. now rewrite IH.
Qed.

Lemma insert_present_len k v m : existsb (str_eqb k) (map fst m) = true ->
  List.length (imap_insert k v m) = List.length m.
Proof.
  intros H. pose proof (f_equal (@List.length _) (insert_present k v m H)) as E. now rewrite !map_length in E.
Qed.
Lemma insert_absent_len k v m : existsb (str_eqb k) (map fst m) = false ->
  List.length (imap_insert k v m) = S (List.length m).
Proof.
  intros H. pose proof (f_equal (@List.length _) (insert_absent k v m H)) as E.
  rewrite app_length, !map_length in E. simpl in E. lia.
Qed.

Lemma imap_len l : forall m seen,
  (forall x, existsb (text_eqb x) seen = existsb (str_eqb x) (map fst m)) ->
  List.length (fold_left (fun m kv => imap_insert (fst kv) (snd kv) m) l m)
  = (List.length m + distinct_keys seen l)%nat.
Proof.
  induction l as [|[k v] l IH]; intros m seen Hinv; simpl; [lia|].
  pose proof (Hinv k) as Hk. destruct (existsb (text_eqb k) seen) eqn:E; symmetry in Hk; clear E.
  - rewrite (IH (imap_insert k v m) seen).
    + rewrite insert_present_len by auto. lia.
    + intros x. rewrite insert_present by auto. apply Hinv.
  - rewrite (IH (imap_insert k v m) (k :: seen)).
    + rewrite insert_absent_len by auto. lia.
    + intros x. rewrite insert_absent by auto.
      rewrite existsb_app. cbn [existsb]. rewrite (Hinv x). rewrite (str_text_eqb x k).
      destruct (text_eqb x k), (existsb (str_eqb x) (map fst m)); reflexivity.
Qed.

Lemma imap_of_length l : List.length (imap_of l) = distinct_keys [] l.
Proof. unfold imap_of. rewrite (imap_len l [] []); auto. Qed.

(* ---- single lines *)
Lemma nolf_help nm d : mname nm -> nolf (lit "# HELP " ++ nm ++ [32] ++ sanitize_description d).
Proof.
  intros H. apply nolf_app; [nolf_lit|]. apply nolf_app; [now apply nolf_mname|]. apply nolf_app; [nolf_lit|].
  apply (toks_no_lf true), esc_toks.
Qed.
Lemma nolf_type nm k : mname nm -> nolf (lit "# TYPE " ++ nm ++ [32] ++ type_word k).
Proof.
  intros H. apply nolf_app; [nolf_lit|]. apply nolf_app; [now apply nolf_mname|]. apply nolf_app; [nolf_lit|].
  destruct k; nolf_lit.
Qed.

Lemma parse_text_one l x : nolf l -> parse_line l = Some x -> parse_text (l ++ [10]) = Some [x].
Proof.
  intros Hn Hp. assert (E : l ++ [10] = tl [l]) by (unfold tl; simpl; now rewrite app_nil_r).
  rewrite E, parse_text_tl by (constructor; auto). cbn [parse_lines]. now rewrite Hp.
Qed.

Lemma lname_addl a : match addl_of a with Some (n, _) => lname n | None => True end.
Proof. destruct a as [[[] v]|]; simpl; auto; [apply lname_lit_le|apply lname_lit_quantile]. Qed.

Lemma suffix_word_ok n : forallb metric_char (suffix_word n) = true.
Proof. unfold suffix_word. destruct (n =? 0); [reflexivity|]. destruct (n =? 1); reflexivity. Qed.

Theorem spec_ok_on_model c :
  match c with CRender fx _ => fx = true | _ => True end ->
  spec_ok c (run_case c) = true.
Proof.
  intros Hfx. unfold spec_ok. destruct (wf_case c) eqn:Hwf; [|reflexivity]. cbn [implb].
  destruct c as [w s|n d|n k|fx n g ls sfx a v u|fx rc]; cbn [run_case wf_case] in *.
  - (* sanitisers *)
    unfold spec_san. destruct (w =? 0) eqn:E0.
    { apply N.eqb_eq in E0. subst. apply nonempty_ne in Hwf.
      destruct (metric_name_grammar s Hwf) as [H1 H2]. now rewrite H1, same_len_refl_len. }
    destruct (w =? 1) eqn:E1.
    { apply N.eqb_eq in E1. subst. apply nonempty_ne in Hwf.
      destruct (label_name_grammar s Hwf) as [H1 H2]. now rewrite H1, same_len_refl_len. }
    destruct (w =? 2) eqn:E2.
    + set (o := sanitize_label_value s).
      change (chars "m{k=""" ++ o ++ chars """} 1")
        with ([109] ++ 123 :: ([107] ++ 61 :: 34 :: o ++ 34 :: 125 :: 32 :: [49])).
      assert (Hm : mname [109]) by (eexists _, _; split; [reflexivity|split; reflexivity]).
      assert (Hl : lname [107]) by (eexists _, _; split; [reflexivity|split; reflexivity]).
      rewrite parse_line_sample, parse_sample_shape by (auto; reflexivity).
      rewrite read_one by (auto; apply esc_toks). reflexivity.
    + set (o := sanitize_description s).
      change (chars "# HELP m " ++ o) with (lit "# HELP " ++ [109] ++ [32] ++ sanitize_description s).
      rewrite help_line_roundtrip by (eexists _, _; split; [reflexivity|split; reflexivity]).
      reflexivity.
  - (* HELP line *)
    apply nonempty_ne in Hwf. pose proof (mname_sanitized n Hwf) as Hm.
    unfold write_help_line. rewrite !app_assoc, <- !app_assoc at 1.
    replace (lit "# HELP " ++ sanitize_metric_name n ++ [32] ++ sanitize_description d ++ [10])
      with ((lit "# HELP " ++ sanitize_metric_name n ++ [32] ++ sanitize_description d) ++ [10])
      by now rewrite <- !app_assoc.
    rewrite (parse_text_one _ _ (nolf_help _ d Hm) (help_line_roundtrip _ d Hm)).
    apply same_len_refl_len, sanitize_with_length.
  - (* TYPE line *)
    apply nonempty_ne in Hwf. pose proof (mname_sanitized n Hwf) as Hm.
    unfold write_type_line.
    replace (lit "# TYPE " ++ sanitize_metric_name n ++ [32] ++ type_word k ++ [10])
      with ((lit "# TYPE " ++ sanitize_metric_name n ++ [32] ++ type_word k) ++ [10])
      by now rewrite <- !app_assoc.
    rewrite (parse_text_one _ _ (nolf_type _ k Hm) (type_line_roundtrip _ k Hm)).
    rewrite same_len_refl_len by apply sanitize_with_length. destruct k; reflexivity.
  - (* sample line *)
    apply andb_prop in Hwf as [Hwf Ha]. apply andb_prop in Hwf as [Hwf Hv].
    apply andb_prop in Hwf as [Hwf Hl]. apply andb_prop in Hwf as [Hn Hg].
    apply nonempty_ne in Hn. pose proof (mname_sanitized n Hn) as Hm.
    assert (Hk : keys_ok (imap_of (g ++ ls))).
    { apply keys_ok_imap, Forall_app. split; now apply keys_nonempty_ok. }
    assert (Hs : suffix_ok (option_map suffix_word sfx)) by (destruct sfx; simpl; auto using suffix_word_ok).
    assert (Hao : addl_ok (addl_of a)).
    { pose proof (lname_addl a) as H. destruct a as [[b x]|]; simpl in *; auto. destruct b; split; auto. }
    unfold write_metric_line, key_labels.
    rewrite (parse_text_one _ _ (nolf_line _ _ _ _ _ _ u Hm Hs Hk Hao Hv)
                            (metric_line_roundtrip fx _ _ _ _ _ u Hm Hs Hk Hao Hv)).
    rewrite text_eqb_refl, app_length, map_length, imap_of_length. cbn [andb].
    destruct a as [[[|] x]|]; cbn [addl_of addl_pairs List.length].
    + rewrite PeanoNat.Nat.eqb_refl. cbn [andb]. rewrite last_last, !text_eqb_refl. reflexivity.
    + rewrite PeanoNat.Nat.eqb_refl. cbn [andb]. rewrite last_last, !text_eqb_refl. reflexivity.
    + rewrite PeanoNat.Nat.add_0_r, PeanoNat.Nat.eqb_refl. reflexivity.
  - (* whole rendering *)
    subst fx. destruct (render_spec rc Hwf) as (pl & -> & Hf & C1 & C2 & C3 & C4).
    rewrite Hf, C1, C2, C3, C4, !PeanoNat.Nat.eqb_refl. reflexivity.
Qed.

(* what spec_ok means on an arbitrary observed rendering *)
Theorem spec_ok_render_sound fx rc o : wf_rcase rc = true -> spec_ok (CRender fx rc) o = true ->
  exists pl, parse_text o = Some pl /\ family_ok pl = true
    /\ List.length (filter is_type pl) = List.length (fams rc)
    /\ List.length (filter is_sample pl) = expected_samples rc.
Proof.
  unfold spec_ok. cbn [wf_case]. intros -> H. cbn [implb] in H.
  destruct (parse_text o) as [pl|]; [|discriminate]. exists pl.
  repeat (apply andb_prop in H as [H ?]).
  repeat split; auto; now apply PeanoNat.Nat.eqb_eq.
Qed.

(* the round trip through key_to_parts *)
Theorem line_roundtrip_keys fx n g ls sfx a v u :
  n <> [] -> keys_ok g -> keys_ok ls -> suffix_ok sfx -> addl_ok a -> value_ok v = true ->
  parse_line (metric_line_body fx (sanitize_metric_name n) sfx (key_labels g ls) a v u)
  = Some (LSample (full_name fx (sanitize_metric_name n) sfx u) (map dl (imap_of (g ++ ls)) ++ addl_pairs a) v).
Proof.
  intros Hn Hg Hl Hs Ha Hv. unfold key_labels. apply metric_line_roundtrip; auto.
  - now apply mname_sanitized.
  - apply keys_ok_imap, Forall_app. now split.
Qed.

Theorem no_early_termination v :
  (forall n acc done rest,
     read_labels (LVal n acc) done (sanitize_label_value v ++ 34 :: rest)
     = read_labels LAfter ((n, rev acc ++ dec false (sanitize_label_value v)) :: done) rest)
  /\ ~ In 10 (sanitize_label_value v)
  /\ read_doc false [] (sanitize_description v) = Some (dec false (sanitize_description v))
  /\ ~ In 10 (sanitize_description v).
Proof.
  split; [intros; apply read_value_toks, esc_toks|].
  split; [apply (toks_no_lf false), esc_toks|].
  split; [apply (read_doc_toks _ (esc_toks true v false) [])|apply (toks_no_lf true), esc_toks].
Qed.

Definition witness_before_fix : rcase :=
  {| unit_on := true; gbuckets := false; overrides := []; globals := [];
     fams := [{| f_kind := FCounter; f_name := lit "reqs"; f_desc := Some (lit "total", Some Seconds);
                 f_series := [{| s_labels := []; s_value := lit "3"; s_points := []; s_buckets := []; s_sum := []; s_count := [] |}] |}] |}.

Theorem family_structure_refuted_before_fix :
  exists rc, wf_rcase rc = true /\ exposition_ok (render_text false rc) = false
             /\ spec_ok (CRender false rc) (run_case (CRender false rc)) = false.
Proof. exists witness_before_fix. vm_compute. auto. Qed.

Definition example_case : rcase :=
  {| unit_on := true; gbuckets := false; overrides := [(MFull, lit "lat_seconds"); (MSuffix, lit " lat")];
     globals := [(lit "g:", lit "a""b")];
     fams := [{| f_kind := FDist; f_name := lit "1 lat"; f_desc := Some ([92; 10; 34], Some Seconds);
                 f_series := [{| s_labels := [(lit "p{", [92; 10; 34; 92])]; s_value := [];
                                 s_points := [(lit "0.5", lit "0")]; s_buckets := [(lit "0.5", lit "1")];
                                 s_sum := lit "7"; s_count := lit "2" |}] |};
              {| f_kind := FCounter; f_name := lit "reqs"; f_desc := None;
                 f_series := [{| s_labels := []; s_value := lit "3"; s_points := []; s_buckets := []; s_sum := []; s_count := [] |}] |}] |}.

Example example_satisfiable :
  wf_rcase example_case = true /\ exposition_ok (render_text true example_case) = true
  /\ exposition_ok (render_text false example_case) = false
  /\ map (type_kind (gbuckets example_case) (overrides example_case)) (fams example_case) = [KHistogram; KCounter].
Proof. vm_compute. auto. Qed.
