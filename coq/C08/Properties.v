From Coq Require Import List NArith Bool.
Import ListNotations.
Require Import MV.C08.Model MV.C08.Spec MV.C08.Exec.
Open Scope N_scope.

Theorem C08_placeholder : sanitize_metric_name [49; 97] = [95; 97].
Proof. reflexivity. Qed.
