(* C08 — property theorems (statements only; proofs in ProofsSan / ProofsEsc / ProofsLine /
   ProofsText / ExecProofs).

   Reading guide.  Model.v transcribes formatting.rs and the text composition of Inner::render;
   Spec.v is an independent strict reader of the exposition format ([parse_line], [parse_text],
   [family_ok], [metric_name_ok], [label_name_ok]).  [toks d s]: s is a concatenation of escape
   tokens; [dec false s]: what a reader decodes from it.  [wf_rcase]: the property's precondition
   (non-empty names and label keys, numbers are numbers, family names pairwise distinct).
   [render_text true] is the code after the fix commit, [render_text false] the code as found. *)
From Coq Require Import List NArith Bool String.
Import ListNotations.
Require Import MV.C08.Model MV.C08.Spec MV.C08.Exec MV.C08.ProofsSan MV.C08.ProofsEsc MV.C08.ProofsLine
        MV.C08.ProofsText MV.C08.ExecProofs.
Open Scope N_scope.
Open Scope list_scope.

Theorem C08_metric_name_grammar : forall s, s <> [] ->
  metric_name_ok (sanitize_metric_name s) = true /\ List.length (sanitize_metric_name s) = List.length s.
Proof. exact metric_name_grammar. Qed.

Theorem C08_label_name_grammar : forall s, s <> [] ->
  label_name_ok (sanitize_label_key s) = true /\ List.length (sanitize_label_key s) = List.length s.
Proof. exact label_name_grammar. Qed.

Theorem C08_escape_tokens : forall is_desc s pending_backslash, toks is_desc (esc is_desc pending_backslash s).
Proof. exact esc_toks. Qed.

Theorem C08_no_early_termination : forall v,
  (forall n acc done rest,
     read_labels (LVal n acc) done (sanitize_label_value v ++ 34 :: rest)
     = read_labels LAfter ((n, rev acc ++ dec false (sanitize_label_value v)) :: done) rest)
  /\ ~ In 10 (sanitize_label_value v)
  /\ read_doc false [] (sanitize_description v) = Some (dec false (sanitize_description v))
  /\ ~ In 10 (sanitize_description v).
Proof. exact no_early_termination. Qed.

Theorem C08_escape_faithful_without_backslash : forall is_desc s,
  ~ In 92 s -> dec false (esc is_desc false s) = s.
Proof. exact esc_faithful. Qed.

Theorem C08_line_roundtrip : forall fx n g ls sfx a v u,
  n <> [] -> keys_ok g -> keys_ok ls -> suffix_ok sfx -> addl_ok a -> value_ok v = true ->
  parse_line (metric_line_body fx (sanitize_metric_name n) sfx (key_labels g ls) a v u)
  = Some (LSample (full_name fx (sanitize_metric_name n) sfx u) (map dl (imap_of (g ++ ls)) ++ addl_pairs a) v).
Proof. exact line_roundtrip_keys. Qed.

Theorem C08_help_line_roundtrip : forall nm desc, mname nm ->
  parse_line (lit "# HELP " ++ nm ++ [32] ++ sanitize_description desc)
  = Some (LHelp nm (dec false (sanitize_description desc))).
Proof. exact help_line_roundtrip. Qed.

Theorem C08_type_line_roundtrip : forall nm k, mname nm ->
  parse_line (lit "# TYPE " ++ nm ++ [32] ++ type_word k) = Some (LType nm (kind_mtype k)).
Proof. exact type_line_roundtrip. Qed.

(* the word on the TYPE line (get_distribution_type) and the kind of samples written (the
   Distribution made by get_distribution) are decided by the same predicate of the BASE name: they
   agree for every set of per-metric overrides, with or without global buckets *)
Theorem C08_type_line_matches_samples : forall gb ovs f, emit_kind gb ovs f = type_kind gb ovs f.
Proof. exact emit_kind_type_kind. Qed.

(* every line of a rendering is HELP / TYPE / sample / blank, there are exactly as many lines of
   each sort as the structured rendering has (user strings add none), and the family structure
   holds; [unit_on rc], [gbuckets rc] and [overrides rc] range over all configurations *)
Theorem C08_family_structure : forall rc, wf_rcase rc = true ->
  exists pl, parse_text (render_text true rc) = Some pl /\ family_ok pl = true
    /\ List.length (filter is_type pl) = List.length (fams rc)
    /\ List.length (filter is_blank pl) = List.length (fams rc)
    /\ List.length (filter is_help pl) = expected_helps rc
    /\ List.length (filter is_sample pl) = expected_samples rc.
Proof. exact render_spec. Qed.

Theorem C08_family_structure_refuted_before_fix :
  exists rc, wf_rcase rc = true /\ exposition_ok (render_text false rc) = false
             /\ spec_ok (CRender false rc) (run_case (CRender false rc)) = false.
Proof. exact family_structure_refuted_before_fix. Qed.

Theorem C08_spec_ok_on_model : forall c,
  match c with CRender fx _ => fx = true | _ => True end -> spec_ok c (run_case c) = true.
Proof. exact spec_ok_on_model. Qed.

Theorem C08_spec_ok_render_sound : forall fx rc o, wf_rcase rc = true -> spec_ok (CRender fx rc) o = true ->
  exists pl, parse_text o = Some pl /\ family_ok pl = true
    /\ List.length (filter is_type pl) = List.length (fams rc)
    /\ List.length (filter is_sample pl) = expected_samples rc.
Proof. exact spec_ok_render_sound. Qed.

Theorem C08_example_satisfiable :
  wf_rcase example_case = true /\ exposition_ok (render_text true example_case) = true
  /\ exposition_ok (render_text false example_case) = false
  /\ map (type_kind (gbuckets example_case) (overrides example_case)) (fams example_case) = [KHistogram; KCounter].
Proof. exact example_satisfiable. Qed.
