(* C08 — line round trips: what the spec's reader makes of the lines the model writes. *)
From Coq Require Import List NArith Bool Lia String.
Import ListNotations.
Require Import MV.C08.Model MV.C08.Spec MV.C08.Exec MV.C08.ProofsSan MV.C08.ProofsEsc.
Open Scope N_scope.
Open Scope list_scope.

(* a name of the grammar's shape *)
Definition lname (s : str) : Prop := exists c r, s = c :: r /\ label_start c = true /\ forallb label_char r = true.
Definition mname (s : str) : Prop := exists c r, s = c :: r /\ metric_start c = true /\ forallb metric_char r = true.

Lemma label_char_props c : label_char c = true -> (c =? 61) = false.
Proof. intros H. destruct (c =? 61) eqn:E; auto. apply N.eqb_eq in E. subst. discriminate. Qed.
Lemma label_start_props c : label_start c = true -> (c =? 125) = false.
Proof. intros H. destruct (c =? 125) eqn:E; auto. apply N.eqb_eq in E. subst. discriminate. Qed.
Lemma metric_start_props c : metric_start c = true -> (c =? 35) = false /\ metric_char c = true.
Proof.
  intros H. split.
  - destruct (c =? 35) eqn:E; auto. apply N.eqb_eq in E. subst. discriminate.
  - unfold metric_start in H. unfold metric_char, label_char. apply orb_prop in H as [H| H]; rewrite H; auto.
    now rewrite orb_true_r.
Qed.

(* ---- the label block *)
Lemma read_name w : forall acc done r, forallb label_char w = true ->
  read_labels (LName acc) done (w ++ 61 :: r) = read_labels (LQuote (rev acc ++ w)) done r.
Proof.
  induction w as [|c w IH]; intros acc done r H.
  - simpl. now rewrite app_nil_r.
  - simpl in H. apply andb_prop in H as [Hc Hw].
    cbn [app read_labels]. rewrite (label_char_props c Hc), Hc, IH by auto.
    cbn [rev]. now rewrite <- app_assoc.
Qed.

Ltac norm := repeat (rewrite <- app_assoc || rewrite <- app_comm_cons); cbn [app].

Lemma read_one nm o done tl : lname nm -> toks false o ->
  read_labels LStart done (nm ++ 61 :: 34 :: o ++ 34 :: tl)
  = read_labels LAfter ((nm, dec false o) :: done) tl.
Proof.
  intros (c & r & -> & Hc & Hr) Ho.
  cbn [app read_labels]. rewrite (label_start_props c Hc), Hc.
  rewrite read_name by auto. cbn [rev app read_labels N.eqb Pos.eqb].
  now rewrite read_value_toks.
Qed.

Definition dl (kv : str * str) : text * text :=
  (sanitize_label_key (fst kv), dec false (sanitize_label_value (snd kv))).

Definition keys_ok (kvs : list (str * str)) : Prop := Forall (fun kv => fst kv <> []) kvs.

Lemma lname_key k : k <> [] -> lname (sanitize_label_key k).
Proof. intros H. destruct (label_key_shape k H) as (c & r & E & ? & ?). now exists c, r. Qed.

Lemma read_label_string kv done tl : fst kv <> [] ->
  read_labels LStart done (label_string kv ++ tl) = read_labels LAfter (dl kv :: done) tl.
Proof.
  intros H. unfold label_string. norm.
  rewrite read_one; [reflexivity|now apply lname_key|apply esc_toks].
Qed.

Lemma read_label_list kvs : forall kv done tl, keys_ok (kv :: kvs) ->
  read_labels LStart done (join_comma (label_string kv :: map label_string kvs) ++ tl)
  = read_labels LAfter (rev (map dl (kv :: kvs)) ++ done) tl.
Proof.
  induction kvs as [|kv2 kvs IH]; intros kv done tl H.
  - inversion H; subst. cbn [map join_comma rev app]. now apply read_label_string.
  - inversion H; subst.
    change (join_comma (label_string kv :: map label_string (kv2 :: kvs)))
      with (label_string kv ++ [44] ++ join_comma (label_string kv2 :: map label_string kvs)).
    rewrite <- app_assoc. rewrite read_label_string by auto.
    rewrite <- app_assoc. cbn [app read_labels N.eqb Pos.eqb]. rewrite IH by auto.
    cbn [map rev]. now repeat rewrite <- app_assoc.
Qed.

Definition addl_pairs (a : option (str * str)) : list (text * text) :=
  match a with Some (n, v) => [(n, v)] | None => [] end.
Definition addl_ok (a : option (str * str)) : Prop :=
  match a with Some (n, v) => lname n /\ plainb v = true | None => True end.

Lemma read_block kvs a rest : keys_ok kvs -> addl_ok a ->
  (kvs = [] /\ a = None /\ label_block (map label_string kvs) a = []) \/
  exists body, label_block (map label_string kvs) a = 123 :: body /\
               read_labels LStart [] (body ++ rest) = Some (map dl kvs ++ addl_pairs a, rest).
Proof.
  intros Hk Ha. destruct kvs as [|kv kvs].
  - destruct a as [[n v]|]; [right|left; auto].
    destruct Ha as [Hn Hv]. destruct (plain_toks v Hv) as [Ht Hd].
    eexists. split; [reflexivity|].
    cbn [map join_comma is_nil]. norm.
    rewrite read_one by auto. cbn. now rewrite Hd.
  - right. destruct a as [[n v]|].
    + destruct Ha as [Hn Hv]. destruct (plain_toks v Hv) as [Ht Hd].
      eexists. split; [unfold label_block; cbn [map is_nil negb orb app]; reflexivity|].
      rewrite <- app_assoc. rewrite read_label_list by auto.
      norm. cbn [read_labels N.eqb Pos.eqb].
      rewrite read_one by auto. cbn [read_labels N.eqb Pos.eqb].
      rewrite Hd. cbn [addl_pairs]. rewrite app_nil_r.
      change ((n, v) :: rev (map dl (kv :: kvs))) with (rev (rev [(n, v)]) ++ rev (map dl (kv :: kvs))).
      now rewrite <- rev_app_distr, rev_involutive.
    + eexists. split; [unfold label_block; cbn [map is_nil negb orb app]; reflexivity|].
      rewrite <- app_assoc. rewrite read_label_list by auto.
      cbn [app read_labels N.eqb Pos.eqb]. rewrite app_nil_r, rev_involutive. cbn [addl_pairs].
      now rewrite app_nil_r.
Qed.

(* ---- names *)
Lemma span_app (p : N -> bool) a b : forallb p a = true ->
  match b with [] => True | c :: _ => p c = false end -> span p (a ++ b) = (a, b).
Proof.
  intros Ha Hb. induction a as [|c a IH]; simpl.
  - destruct b as [|c b]; simpl; auto. now rewrite Hb.
  - simpl in Ha. apply andb_prop in Ha as [Hc Ha]. now rewrite Hc, IH.
Qed.

Lemma mname_ok nm : mname nm -> metric_name_ok nm = true /\ forallb metric_char nm = true.
Proof.
  intros (c & r & -> & Hc & Hr). destruct (metric_start_props c Hc) as [_ Hm]. simpl. now rewrite Hc, Hr, Hm.
Qed.

Lemma mname_app nm s : mname nm -> forallb metric_char s = true -> mname (nm ++ s).
Proof.
  intros (c & r & -> & Hc & Hr) Hs. exists c, (r ++ s). split; [reflexivity|]. split; auto.
  now rewrite forallb_app, Hr, Hs.
Qed.

Lemma mname_sanitized n : n <> [] -> mname (sanitize_metric_name n).
Proof. intros H. destruct (metric_name_shape n H) as (c & r & E & ? & ?). now exists c, r. Qed.

Lemma unit_suffix_chars u : forallb metric_char (unit_suffix u) = true.
Proof. destruct u as [[]|]; reflexivity. Qed.

Definition suffix_ok (s : option str) : Prop :=
  match s with Some w => forallb metric_char w = true | None => True end.

Lemma type_suffix_chars s : suffix_ok s -> forallb metric_char (type_suffix s) = true.
Proof. destruct s; simpl; auto. Qed.

Definition full_name (fx : bool) (name : str) (suffix : option str) (unit : option unit_t) : str :=
  name ++ (if fx then unit_suffix unit ++ type_suffix suffix else type_suffix suffix ++ unit_suffix unit).

Lemma full_name_mname fx name sfx u : mname name -> suffix_ok sfx -> mname (full_name fx name sfx u).
Proof.
  intros Hn Hs. apply mname_app; auto.
  destruct fx; rewrite forallb_app, unit_suffix_chars, type_suffix_chars; auto.
Qed.

(* ---- samples *)
Lemma parse_sample_shape nm blockrest : mname nm ->
  match blockrest with [] => True | c :: _ => metric_char c = false end ->
  parse_sample (nm ++ blockrest) =
  match blockrest with
  | 123 :: r1 =>
      match read_labels LStart [] r1 with
      | Some (ls, 32 :: v) => if value_ok v then Some (LSample nm ls v) else None
      | _ => None
      end
  | 32 :: v => if value_ok v then Some (LSample nm [] v) else None
  | _ => None
  end.
Proof.
  intros Hn Hb. destruct (mname_ok nm Hn) as [Hok Hall].
  unfold parse_sample. rewrite span_app by auto. now rewrite Hok.
Qed.

Lemma parse_line_sample nm rest : mname nm -> parse_line (nm ++ rest) = parse_sample (nm ++ rest).
Proof.
  intros (c & r & -> & Hc & Hr). destruct (metric_start_props c Hc) as [H35 _].
  cbn [app parse_line]. now rewrite H35.
Qed.

Theorem metric_line_roundtrip fx name sfx kvs a value unit :
  mname name -> suffix_ok sfx -> keys_ok kvs -> addl_ok a -> value_ok value = true ->
  parse_line (metric_line_body fx name sfx (map label_string kvs) a value unit)
  = Some (LSample (full_name fx name sfx unit) (map dl kvs ++ addl_pairs a) value).
Proof.
  intros Hn Hs Hk Ha Hv.
  assert (Hfull : mname (full_name fx name sfx unit)) by now apply full_name_mname.
  assert (E : metric_line_body fx name sfx (map label_string kvs) a value unit
              = full_name fx name sfx unit ++ label_block (map label_string kvs) a ++ 32 :: value).
  { unfold metric_line_body, full_name. now repeat rewrite <- app_assoc. }
  rewrite E, parse_line_sample by auto.
  destruct (read_block kvs a (32 :: value) Hk Ha) as [(-> & -> & Hb)|(body & Hb & Hr)].
  - rewrite Hb. cbn [app]. rewrite parse_sample_shape by (auto; reflexivity).
    now rewrite Hv.
  - rewrite Hb. cbn [app]. rewrite parse_sample_shape by (auto; reflexivity).
    rewrite Hr. cbn [app]. now rewrite Hv.
Qed.

(* ---- HELP and TYPE lines *)
Lemma span_name nm rest : mname nm -> span metric_char (nm ++ 32 :: rest) = (nm, 32 :: rest).
Proof. intros H. destruct (mname_ok nm H). apply span_app; auto. Qed.

Theorem help_line_roundtrip nm desc : mname nm ->
  parse_line (lit "# HELP " ++ nm ++ [32] ++ sanitize_description desc)
  = Some (LHelp nm (dec false (sanitize_description desc))).
Proof.
  intros H. destruct (mname_ok nm H) as [Hok _].
  change (lit "# HELP ") with [35; 32; 72; 69; 76; 80; 32].
  cbn [app]. unfold parse_line.
  change (chars "# HELP ") with [35; 32; 72; 69; 76; 80; 32].
  cbn [N.eqb Pos.eqb negb strip_prefix].
  rewrite span_name by auto. rewrite Hok. cbn [negb].
  unfold sanitize_description. now rewrite read_doc_toks by apply esc_toks.
Qed.

Theorem type_line_roundtrip nm k : mname nm ->
  parse_line (lit "# TYPE " ++ nm ++ [32] ++ type_word k) = Some (LType nm (kind_mtype k)).
Proof.
  intros H. destruct (mname_ok nm H) as [Hok _].
  change (lit "# TYPE ") with [35; 32; 84; 89; 80; 69; 32].
  cbn [app]. unfold parse_line.
  change (chars "# HELP ") with [35; 32; 72; 69; 76; 80; 32].
  change (chars "# TYPE ") with [35; 32; 84; 89; 80; 69; 32].
  cbn [N.eqb Pos.eqb negb strip_prefix].
  rewrite span_name by auto. rewrite Hok. cbn [negb].
  destruct k; reflexivity.
Qed.
