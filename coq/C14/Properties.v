(* C14 — property theorems (statements only; proofs are in Proofs*.v / ExecProofs.v).

   Reading guide.  [run tr init p] is the explicit-heap model of cow.rs (pointer + (len, cap) words,
   kind recomputed by [kind_of] = Metadata::kind, freed flags, Arc strong counts, explicit faults);
   [spec_outs tr p] is the value semantics of Spec.v (no heap, no faults, a handle is its content).
   [core p] = every capacity / length handed in by the caller is one a Vec can have ([op_wf]:
   len <= cap <= isize::MAX); it restricts no operation.  The theorems cover all programs over all
   constructors, all (len, cap) incl. empty owned values, clone, deref, cmp, into_owned, conversion
   to std::borrow::Cow, with_extra_labels, drop, caller-side Arc clone/drop, and operations naming
   consumed handles.

   Fixed defect (repo commit "fix: make the Cow -> std::borrow::Cow conversion apply to unsized
   targets"): before it, `impl From<Cow<T>> for std::borrow::Cow<T>` required T: Sized and applied
   to no Cowable type; that was a compile-time absence, so there is no run-time behaviour to refute
   in the model -- the driver detects the absence (outcome fNoStdCow) on the reverted source.     *)
From Coq Require Import List NArith ZArith Bool.
Import ListNotations.
Require Import MV.C14.Model MV.C14.Spec MV.C14.Exec MV.C14.Proofs MV.C14.ProofsRun MV.C14.ExecProofs.
Open Scope N_scope.

Theorem C14_model_meets_spec : forall tr p, core p = true -> fst (run tr init p) = spec_outs tr p.
Proof. exact model_meets_spec. Qed.

Theorem C14_spec_ok_on_model : forall c, core (snd c) = true -> spec_ok c (run_case c) = true.
Proof. exact spec_ok_on_model. Qed.

Theorem C14_spec_ok_iff : forall c o, spec_ok c o = true <-> o = spec_outs (fst c) (snd c).
Proof. exact spec_ok_iff. Qed.

(* deref / cmp / into_owned results are those of the value semantics: the content the handle was built from *)
Theorem C14_reads_back_content : forall tr p, core p = true ->
  map res_of (fst (run tr init p)) = map res_of (spec_outs tr p).
Proof. intros tr p H. rewrite (model_meets_spec tr p H). reflexivity. Qed.

Theorem C14_no_uaf_no_double_free : forall tr p, core p = true ->
  forallb (fun o => negb (is_fault (res_of o))) (fst (run tr init p)) = true.
Proof. exact no_fault. Qed.

Theorem C14_balanced : forall tr p, core p = true -> let m := snd (run tr init p) in all_consumed m ->
  (forall a x, nth_error (allocs m) a = Some x -> a_freed x = true) /\
  (forall r x, nth_error (arcs m) r = Some x -> r_strong x = r_caller x /\ r_freed x = (r_caller x =? 0)).
Proof. exact balanced. Qed.

(* eq, cmp and hash: on every program, whatever the two handles were built from (two borrows starting at
   the same address with different lengths, overlapping borrows, equal content at different addresses,
   owned, shared, clones, converted values), PartialEq::eq answers true exactly when Ord::cmp answers Equal
   and exactly when the two hashes are equal ... *)
Theorem C14_eq_ord_hash_coincide : forall tr p, core p = true ->
  forallb (fun o => cmp_coherent (res_of o)) (fst (run tr init p)) = true.
Proof. exact eq_ord_hash_coincide. Qed.

(* ... and that answer is equality of the contents the two handles were built from (value semantics;
   the model agrees by C14_model_meets_spec) *)
Theorem C14_eq_is_content_equality : forall tr s h h' d o d' o', sget s h = Some (d, o) -> sget s h' = Some (d', o') ->
  fst (fst (fst (sstep tr s (Cmp h h')))) = RCmp (lcmp d d') (ceqb d d') (ceqb d d') /\
  (ceqb d d' = true <-> d = d') /\ (lcmp d d' = 1 <-> d = d').
Proof. intros. split; [eapply cmp_is_content; eauto|]. split; [apply ceqb_iff|apply lcmp_iff]. Qed.

(* counter form of balance, on the observable deltas: they sum to the number of Arcs the caller still
   holds and to the number of elements inside those Arcs (both 0 when the caller holds none) *)
Theorem C14_balanced_counters : forall tr p, core p = true -> let m := snd (run tr init p) in all_consumed m ->
  wsum da_of (fst (run tr init p)) = wsum held (arcs m) /\
  wsum de_of (fst (run tr init p)) = wsum (held_elems tr) (arcs m).
Proof. exact balanced_counters. Qed.

(* conversion to std::borrow::Cow: Borrowed exactly for borrows and for owned values without a buffer
   (the empty slice); otherwise Owned, releasing what into_owned releases *)
Theorem C14_into_std_cow_kinds : forall tr s h d o, sget s h = Some (d, o) ->
  sstep tr s (IntoStdCow h) =
    (if std_borrowed o then (RStd true d, 0%Z, 0%Z) else (RStd false d, fst (release tr s (d, o)), snd (release tr s (d, o))),
     sconsume s h).
Proof. intros tr s h d o H. simpl. rewrite H. simpl. destruct (std_borrowed o); reflexivity. Qed.

(* the kind collision: an empty owned value of capacity 0 is classified Borrowed; it is a well-formed
   operation (so the three theorems above cover every program containing it), it allocates nothing
   and its handle points nowhere *)
Theorem C14_owned_cap0_is_borrowed_but_harmless :
  kind_of 0 0 = KBorrowed /\ op_core (FromOwned [] 0) = true /\
  forall tr m, step tr m (FromOwned [] 0) = (RUnit, push (add_elems m (ec tr 0)) (mkcow PDangling 0 0)).
Proof. split; [reflexivity|]. split; reflexivity. Qed.

(* an empty owned value with spare capacity is Owned, and its buffer is freed by drop *)
Theorem C14_owned_empty_spare_capacity_freed : forall tr,
  fst (run tr init [FromOwned [] 16; Drop 0%nat]) = [(RUnit, 1%Z, 0%Z, []); (RUnit, (-1)%Z, 0%Z, [])] /\ kind_of 0 16 = KOwned.
Proof. intros tr. split; [|reflexivity]. destruct tr; reflexivity. Qed.

Theorem C14_from_owned_max_capacity_panics : forall tr m d, len d <= MAXU ->
  fst (step tr m (FromOwned d MAXU)) = RPanic.
Proof.
  intros tr m d H. simpl. destruct (N.ltb_spec MAXU (len d)); [exfalso; apply (N.lt_irrefl MAXU); eapply N.lt_le_trans; eauto|]. reflexivity.
Qed.

Theorem C14_checks_not_vacuous :
  exists m a cap m1, free_buf m (PHeap a) cap = inr m1 /\ free_buf m1 (PHeap a) cap = inl DoubleFree /\
                     read m1 (mkcow (PHeap a) 0 cap) = inl UseAfterFree.
Proof. exact checks_not_vacuous. Qed.

(* aliasing borrows of one static buffer "abab": same start / different length, the empty prefix, equal
   content at another address, an owned and a shared value of the same content *)
Example C14_aliasing_example :
  let b := [97; 98; 97; 98] in
  let p := [FromBorrowed b 0 4; FromBorrowed b 0 2; FromBorrowed b 0 0; FromBorrowed b 2 2; FromBorrowed b 1 2;
            FromOwned [97; 98] 2; ArcNew [97; 98]; FromShared 0;
            Cmp 0 1; Cmp 1 0; Cmp 1 2; Cmp 1 3; Cmp 1 4; Cmp 1 5; Cmp 1 6; Cmp 2 2] in
  core p = true /\ fst (run false init p) = spec_outs false p /\
  map res_of (skipn 8 (fst (run false init p))) =
    [RCmp 2 false false; RCmp 0 false false; RCmp 2 false false; RCmp 1 true true; RCmp 0 false false;
     RCmp 1 true true; RCmp 1 true true; RCmp 1 true true].
Proof. repeat split; vm_compute; reflexivity. Qed.

Example C14_example :
  let p := [ArcNew [1;2]; FromShared 0; Clone 0; FromOwned [] 0; FromOwned [] 8; FromOwned [3] 4; Clone 4; Clone 2;
            ArcDrop 0; IntoOwned 0; Deref 1; Cmp 4 5; WithExtra 1 [7]; WithExtra 2 [8]; WithExtra 4 []; FromBorrowed [9;9;8] 1 1;
            IntoStdCow 1; IntoStdCow 2; IntoOwned 3; IntoStdCow 4; Drop 5; IntoOwned 6; Drop 7; IntoStdCow 8; Drop 9; IntoStdCow 10] in
  core p = true /\ all_consumed (snd (run true init p)) /\ fst (run true init p) = spec_outs true p /\
  wsum da_of (fst (run true init p)) = 0%Z /\ wsum de_of (fst (run true init p)) = 0%Z /\
  map res_of (fst (run true init p)) =
    [RUnit; RUnit; RUnit; RUnit; RUnit; RUnit; RUnit; RUnit; RUnit; RContent [1;2]; RContent [1;2]; RCmp 1 true true; RUnit; RUnit; RUnit; RUnit;
     RStd false [1;2]; RStd true []; RContent []; RStd false [3]; RUnit; RContent []; RUnit; RStd false [8]; RUnit; RStd true [9]].
Proof.
  split; [reflexivity|]. split. { intros i. do 11 (destruct i as [|i]; [reflexivity|]). destruct i; reflexivity. }
  repeat split; vm_compute; reflexivity.
Qed.
