(* C14 — property theorems (statements only; proofs are in Proofs*.v / ExecProofs.v).

   Reading guide.  [run tr init p] is the explicit-heap model of cow.rs (pointer + (len, cap) words,
   kind recomputed by [kind_of] = Metadata::kind, freed flags, Arc strong counts, explicit faults);
   [spec_outs tr p] is the value semantics of Spec.v (no heap, no faults, a handle is its content).
   [core p] = every capacity handed in is a capacity a Vec can have ([op_wf]) and the program does
   not use [WithExtra]: the simulation is NOT proved for WithExtra (Key::with_extra_labels), which is
   covered only by the correspondence runs -- hence the _partial suffix.  Everything else (all
   constructors, all (len, cap) incl. empty owned values, clone, deref, cmp, into_owned, drop,
   caller-side Arc clone/drop, operations naming consumed handles) is covered for all programs.  *)
From Coq Require Import List NArith ZArith Bool.
Import ListNotations.
Require Import MV.C14.Model MV.C14.Spec MV.C14.Exec MV.C14.Proofs MV.C14.ProofsRun MV.C14.ExecProofs.
Open Scope N_scope.

(* full statement (not proved): forall tr p, wf p = true -> fst (run tr init p) = spec_outs tr p *)
Theorem C14_model_meets_spec_partial : forall tr p, core p = true -> fst (run tr init p) = spec_outs tr p.
Proof. exact model_meets_spec. Qed.

Theorem C14_spec_ok_on_model_partial : forall c, core (snd c) = true -> spec_ok c (run_case c) = true.
Proof. exact spec_ok_on_model. Qed.

Theorem C14_spec_ok_iff : forall c o, spec_ok c o = true <-> o = spec_outs (fst c) (snd c).
Proof. exact spec_ok_iff. Qed.

(* deref / cmp / into_owned results are those of the value semantics: the content the handle was built from *)
Theorem C14_reads_back_content_partial : forall tr p, core p = true ->
  map res_of (fst (run tr init p)) = map res_of (spec_outs tr p).
Proof. intros tr p H. rewrite (model_meets_spec tr p H). reflexivity. Qed.

Theorem C14_no_uaf_no_double_free_partial : forall tr p, core p = true ->
  forallb (fun o => negb (is_fault (res_of o))) (fst (run tr init p)) = true.
Proof. exact no_fault. Qed.

Theorem C14_balanced_partial : forall tr p, core p = true -> let m := snd (run tr init p) in all_consumed m ->
  (forall a x, nth_error (allocs m) a = Some x -> a_freed x = true) /\
  (forall r x, nth_error (arcs m) r = Some x -> r_strong x = r_caller x /\ r_freed x = (r_caller x =? 0)).
Proof. exact balanced. Qed.

(* the kind collision: an empty owned value of capacity 0 is classified Borrowed; it is a well-formed
   operation (so the three theorems above cover every program containing it), it allocates nothing
   and its handle points nowhere *)
Theorem C14_owned_cap0_is_borrowed_but_harmless :
  kind_of 0 0 = KBorrowed /\ op_core (FromOwned [] 0) = true /\
  forall tr m, step tr m (FromOwned [] 0) = (RUnit, push (add_elems m (ec tr 0)) (mkcow PDangling 0 0)).
Proof. split; [reflexivity|]. split; reflexivity. Qed.

(* an empty owned value with spare capacity is Owned, and its buffer is freed by drop *)
Theorem C14_owned_empty_spare_capacity_freed : forall tr,
  fst (run tr init [FromOwned [] 16; Drop 0%nat]) = [(RUnit, 1%Z, 0%Z, []); (RUnit, (-1)%Z, 0%Z, [])] /\ kind_of 0 16 = KOwned.
Proof. intros tr. split; [|reflexivity]. destruct tr; reflexivity. Qed.

Theorem C14_from_owned_max_capacity_panics : forall tr m d, len d <= MAXU ->
  fst (step tr m (FromOwned d MAXU)) = RPanic.
Proof.
  intros tr m d H. simpl. destruct (N.ltb_spec MAXU (len d)); [exfalso; apply (N.lt_irrefl MAXU); eapply N.lt_le_trans; eauto|]. reflexivity.
Qed.

Theorem C14_checks_not_vacuous :
  exists m a cap m1, free_buf m (PHeap a) cap = inr m1 /\ free_buf m1 (PHeap a) cap = inl DoubleFree /\
                     read m1 (mkcow (PHeap a) 0 cap) = inl UseAfterFree.
Proof. exact checks_not_vacuous. Qed.

Example C14_example :
  let p := [ArcNew [1;2]; FromShared 0; Clone 0; FromOwned [] 0; FromOwned [] 8; FromOwned [3] 4; Clone 4; Clone 2;
            ArcDrop 0; IntoOwned 0; Deref 1; Cmp 4 5; Drop 1; Drop 2; IntoOwned 3; Drop 4; Drop 5; IntoOwned 6] in
  core p = true /\ all_consumed (snd (run true init p)) /\ fst (run true init p) = spec_outs true p /\
  map res_of (fst (run true init p)) =
    [RUnit; RUnit; RUnit; RUnit; RUnit; RUnit; RUnit; RUnit; RUnit; RContent [1;2]; RContent [1;2]; RCmp 1; RUnit; RUnit;
     RContent []; RUnit; RUnit; RContent []].
Proof.
  split; [reflexivity|]. split. { intros i. do 7 (destruct i as [|i]; [reflexivity|]). destruct i; reflexivity. }
  split; vm_compute; reflexivity.
Qed.
