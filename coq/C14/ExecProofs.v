From Coq Require Import List NArith ZArith Bool Lia.
Import ListNotations.
Require Import MV.C14.Model MV.C14.Spec MV.C14.Exec MV.C14.ProofsRun.
Open Scope N_scope.

Lemma content_eqb_iff a b : content_eqb a b = true <-> a = b.
Proof. unfold content_eqb. destruct (list_eq_dec N.eq_dec a b); split; auto; discriminate. Qed.

Lemma res_eqb_iff a b : res_eqb a b = true <-> a = b.
Proof.
  split.
  - destruct a, b; simpl; try discriminate; auto.
    + intros H. apply content_eqb_iff in H. congruence.
    + intros H. apply andb_prop in H as [H1 H2]. apply Bool.eqb_prop in H1. apply content_eqb_iff in H2. congruence.
    + intros H. apply andb_prop in H as [H H3]. apply andb_prop in H as [H H2]. apply N.eqb_eq in H. apply Bool.eqb_prop in H2, H3. congruence.
    + destruct f, f0; simpl; try discriminate; auto.
  - intros <-. destruct a; simpl; auto.
    + apply content_eqb_iff; auto.
    + rewrite Bool.eqb_reflx. apply content_eqb_iff; auto.
    + rewrite N.eqb_refl, !Bool.eqb_reflx. reflexivity.
    + destruct f; reflexivity.
Qed.

Lemma out_eqb1_iff a b : out_eqb1 a b = true <-> a = b.
Proof.
  destruct a as [[[r da] de] ss], b as [[[r' da'] de'] ss']. simpl. rewrite !andb_true_iff, res_eqb_iff, !Z.eqb_eq, content_eqb_iff.
  split. { intros [[[-> ->] ->] ->]. reflexivity. } intros H. inversion H. auto.
Qed.

Lemma outs_eqb_iff a : forall b, outs_eqb a b = true <-> a = b.
Proof.
  induction a as [|x a IH]; intros [|y b]; simpl; split; try discriminate; auto.
  - rewrite andb_true_iff, out_eqb1_iff, IH. intros [-> ->]. reflexivity.
  - intros H. inversion H. subst. rewrite andb_true_iff, out_eqb1_iff, IH. auto.
Qed.

Lemma spec_ok_iff c o : spec_ok c o = true <-> o = spec_outs (fst c) (snd c).
Proof. unfold spec_ok. rewrite outs_eqb_iff. split; congruence. Qed.

Theorem spec_ok_on_model c : core (snd c) = true -> spec_ok c (run_case c) = true.
Proof. intros H. apply spec_ok_iff. unfold run_case. apply model_meets_spec. exact H. Qed.
