(* C14 — the specification, written without any of the representation tricks: value semantics.

   A handle IS its content plus an origin tag (what std::borrow::Cow / Arc would give): borrowed,
   owned (with or without a heap buffer), or shared (a reference on Arc r).  There is no heap, no
   pointer, no (len, cap) encoding and no way to express a fault: reading a handle returns the
   content it was built from by definition, an Arc's strong count is the caller's references plus
   the live handles on it, an owned buffer lives exactly as long as its handle, an element lives
   exactly as long as the container holding it.                                                  *)
From Coq Require Import List NArith ZArith Bool.
Import ListNotations.
Require Import MV.C14.Model.
Open Scope N_scope.

Inductive org := OB | OO (buf : bool) | OS (r : nat).
Definition shandle := (content * org)%type.
Record sarc := mksarc { sa_data : content; sa_caller : N }.
Record sst := mksst { s_arcs : list sarc; s_store : list (option shandle) }.
Definition sinit : sst := mksst [] [].

Fixpoint countp {A} (p : A -> bool) (l : list A) : nat :=
  match l with [] => O | x :: t => (if p x then 1 else 0) + countp p t end.

Definition is_shared (r : nat) (x : option shandle) : bool :=
  match x with Some (_, OS r') => Nat.eqb r r' | _ => false end.
Definition holders (r : nat) (l : list (option shandle)) : N := N.of_nat (countp (is_shared r) l).
Definition sstrong (s : sst) (r : nat) (a : sarc) : N := sa_caller a + holders r (s_store s).

Fixpoint sstrongs_from (s : sst) (r : nat) (l : list sarc) : list N :=
  match l with
  | [] => []
  | a :: t => (if sa_caller a =? 0 then 0 else sstrong s r a) :: sstrongs_from s (S r) t
  end.
Definition sstrongs (s : sst) : list N := sstrongs_from s 0 (s_arcs s).

Definition sget (s : sst) (h : nat) : option shandle :=
  match nth_error (s_store s) h with Some (Some c) => Some c | _ => None end.
Definition spush (s : sst) (c : shandle) : sst := mksst (s_arcs s) (s_store s ++ [Some c]).
Definition sconsume (s : sst) (h : nat) : sst := mksst (s_arcs s) (upd (s_store s) h None).

Definition b2z (b : bool) : Z := if b then 1%Z else 0%Z.
Definition nonempty (d : content) : bool := 0 <? len d.

(* what giving up one handle releases: (blocks, elements); evaluated BEFORE the handle is removed *)
Definition release (tr : bool) (s : sst) (c : shandle) : Z * Z :=
  match c with
  | (d, OB) => (0, 0)%Z
  | (d, OO buf) => (- b2z buf, - ec tr (len d))%Z
  | (d, OS r) => match nth_error (s_arcs s) r with
                 | Some a => if sstrong s r a =? 1 then (-1, - ec tr (len d))%Z else (0, 0)%Z
                 | None => (0, 0)%Z
                 end
  end.

(* a clone of a handle: borrowed and shared clones are the same thing again, an owned clone is a
   new exact-size owned value *)
Definition sclone (c : shandle) : shandle :=
  match c with (d, OO _) => (d, OO (nonempty d)) | _ => c end.
Definition sclone_cost (tr : bool) (c : shandle) : Z * Z :=
  match c with (d, OO _) => (b2z (nonempty d), ec tr (len d)) | _ => (0, 0)%Z end.

(* which handles convert to std::borrow::Cow::Borrowed: borrows, and owned values without a buffer
   (necessarily empty: the result borrows the empty slice) *)
Definition std_borrowed (o : org) : bool := match o with OB | OO false => true | _ => false end.

Definition sout := (res * Z * Z)%type.

Definition sstep (tr : bool) (s : sst) (o : op) : sout * sst :=
  match o with
  | FromBorrowed buf off n =>
      match slice buf off n with
      | Some d => ((RUnit, 0, 0)%Z, spush s (d, OB))
      | None => ((RBad, 0, 0)%Z, s)
      end
  | FromOwned d cap =>
      if cap <? len d then ((RBad, 0, 0)%Z, s)
      else if cap =? MAXU then ((RPanic, 0%Z, ec tr (len d)), s)
      else ((RUnit, b2z (0 <? cap), ec tr (len d)), spush s (d, OO (0 <? cap)))
  | FromShared r =>
      match nth_error (s_arcs s) r with
      | Some a => if sa_caller a =? 0 then ((RBad, 0, 0)%Z, s) else ((RUnit, 0, 0)%Z, spush s (sa_data a, OS r))
      | None => ((RBad, 0, 0)%Z, s)
      end
  | Clone h =>
      match sget s h with
      | None => ((RBad, 0, 0)%Z, s)
      | Some c => ((RUnit, fst (sclone_cost tr c), snd (sclone_cost tr c)), spush s (sclone c))
      end
  | Deref h =>
      match sget s h with
      | None => ((RBad, 0, 0)%Z, s)
      | Some (d, _) => ((RContent d, 0, 0)%Z, s)
      end
  | Cmp h h' =>
      match sget s h, sget s h' with
      | Some (d, _), Some (d', _) => ((RCmp (lcmp d d') (ceqb d d') (ceqb d d'), 0, 0)%Z, s)
      | _, _ => ((RBad, 0, 0)%Z, s)
      end
  | IntoOwned h =>
      match sget s h with
      | None => ((RBad, 0, 0)%Z, s)
      | Some c => ((RContent (fst c), fst (release tr s c), snd (release tr s c)), sconsume s h)
      end
  | IntoStdCow h =>
      match sget s h with
      | None => ((RBad, 0, 0)%Z, s)
      | Some c => if std_borrowed (snd c) then ((RStd true (fst c), 0, 0)%Z, sconsume s h)
                  else ((RStd false (fst c), fst (release tr s c), snd (release tr s c)), sconsume s h)
      end
  | Drop h =>
      match sget s h with
      | None => ((RBad, 0, 0)%Z, s)
      | Some c => ((RUnit, fst (release tr s c), snd (release tr s c)), sconsume s h)
      end
  | WithExtra h extra =>
      match sget s h with
      | None => ((RBad, 0, 0)%Z, s)
      | Some c =>
          if len extra =? 0 then ((RUnit, fst (sclone_cost tr c), snd (sclone_cost tr c)), spush s (sclone c))
          else if ISZ <? len (fst c) + len extra then ((RPanic, 0, 0)%Z, s)
          else ((RUnit, 1%Z, ec tr (len (fst c) + len extra)), spush s (fst c ++ extra, OO true))
      end
  | ArcNew d => ((RUnit, 1%Z, ec tr (len d)), mksst (s_arcs s ++ [mksarc d 1]) (s_store s))
  | ArcClone r =>
      match nth_error (s_arcs s) r with
      | Some a => if sa_caller a =? 0 then ((RBad, 0, 0)%Z, s)
                  else ((RUnit, 0, 0)%Z, mksst (upd (s_arcs s) r (mksarc (sa_data a) (sa_caller a + 1))) (s_store s))
      | None => ((RBad, 0, 0)%Z, s)
      end
  | ArcDrop r =>
      match nth_error (s_arcs s) r with
      | Some a => if sa_caller a =? 0 then ((RBad, 0, 0)%Z, s)
                  else ((RUnit, if sstrong s r a =? 1 then (-1)%Z else 0%Z,
                                if sstrong s r a =? 1 then (- ec tr (len (sa_data a)))%Z else 0%Z),
                        mksst (upd (s_arcs s) r (mksarc (sa_data a) (sa_caller a - 1))) (s_store s))
      | None => ((RBad, 0, 0)%Z, s)
      end
  end.

Fixpoint srun (tr : bool) (s : sst) (p : list op) : list out * sst :=
  match p with
  | [] => ([], s)
  | o :: p' => let '((r, da, de), s1) := sstep tr s o in
               let '(os, s2) := srun tr s1 p' in
               ((r, da, de, sstrongs s1) :: os, s2)
  end.

Definition spec_outs (tr : bool) (p : list op) : list out := fst (srun tr sinit p).

(* every capacity handed in is a capacity a Vec of a non-zero-sized element type can have *)
Definition op_wf (o : op) : bool :=
  match o with
  | FromOwned d cap => (len d <=? cap) && (cap <=? ISZ)
  | FromBorrowed _ _ n => n <=? ISZ
  | ArcNew d => len d <=? ISZ
  | _ => true
  end.
Definition wf (p : list op) : bool := forallb op_wf p.

Definition live_handles (s : sst) : nat := countp (fun x => match x with Some _ => true | None => false end) (s_store s).
