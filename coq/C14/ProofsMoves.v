(* C14 — state moves that preserve the simulation relation. *)
From Coq Require Import List NArith ZArith Bool Lia Arith.
Import ListNotations.
Require Import MV.C14.Model MV.C14.Spec MV.C14.Proofs.
Open Scope N_scope.

Lemma nth_push {A} (l : list (option A)) x i :
  nth i (l ++ [Some x]) None = if Nat.eqb i (length l) then Some x else nth i l None.
Proof.
  destruct (Nat.eqb_spec i (length l)).
  - subst. apply nth_app_last.
  - destruct (Nat.ltb_spec i (length l)).
    + apply app_nth1; auto.
    + rewrite !nth_overflow; auto; try lia. rewrite app_length. simpl. lia.
Qed.

Lemma holders_push l x r : holders r (l ++ [x]) = holders r l + (if is_shared r x then 1 else 0).
Proof. unfold holders. rewrite countp_app. simpl. destruct (is_shared r x); lia. Qed.

Lemma owners_push l x a : owners a (l ++ [x]) = (owners a l + (if is_heap a x then 1 else 0))%nat.
Proof. unfold owners. rewrite countp_app. simpl. lia. Qed.

(* (a) a handle that owns nothing and holds no Arc reference *)
Lemma R_push al ar ms s c d o :
  R al ar ms s -> hrel al ar (Some c) (Some (d, o)) ->
  (forall a, is_heap a (Some c) = false) -> (forall r, is_shared r (Some (d, o)) = false) ->
  R al ar (ms ++ [Some c]) (spush s (d, o)).
Proof.
  intros HR Hh Hc Hs. pose proof (R_len _ _ _ _ HR) as HL. constructor; simpl.
  - rewrite !app_length. simpl. lia.
  - intros i. rewrite !nth_push, HL. destruct (Nat.eqb i (length (s_store s))); auto. apply (R_h _ _ _ _ HR).
  - apply (R_alen _ _ _ _ HR).
  - intros r x y Ex Ey. rewrite holders_push, Hs, N.add_0_r. apply (R_arc _ _ _ _ HR r x y Ex Ey).
  - intros a x Ex. rewrite owners_push, Hc, Nat.add_0_r. apply (R_own _ _ _ _ HR a x Ex).
Qed.

(* (b) a handle owning a fresh buffer *)
Lemma R_push_owned al ar ms s d cap :
  R al ar ms s -> len d <= ISZ -> cap <> 0 -> cap <= ISZ ->
  R (al ++ [mkalloc d cap false]) ar (ms ++ [Some (mkcow (PHeap (length al)) (len d) cap)]) (spush s (d, OO true)).
Proof.
  intros HR Hd H0 H1. pose proof (R_len _ _ _ _ HR) as HL. constructor; simpl.
  - rewrite !app_length. simpl. lia.
  - intros i. rewrite !nth_push, HL. destruct (Nat.eqb i (length (s_store s))).
    + simpl. repeat split; auto. exists (length al). split; auto. rewrite nth_error_app2, Nat.sub_diag; auto.
    + apply hrel_allocs_app. apply (R_h _ _ _ _ HR).
  - apply (R_alen _ _ _ _ HR).
  - intros r x y Ex Ey. rewrite holders_push. simpl. rewrite N.add_0_r. apply (R_arc _ _ _ _ HR r x y Ex Ey).
  - intros a x Ex. rewrite owners_push. simpl.
    destruct (Nat.ltb_spec a (length al)).
    + rewrite nth_error_app1 in Ex; auto. destruct (Nat.eqb_spec a (length al)); [lia|].
      rewrite Nat.add_0_r. apply (R_own _ _ _ _ HR a x Ex).
    + assert (a = length al).
      { assert (a < length (al ++ [mkalloc d cap false]))%nat by (apply nth_error_Some; congruence).
        rewrite app_length in H2. simpl in H2. lia. }
      subst a. rewrite nth_error_app2, Nat.sub_diag in Ex; auto. inversion Ex; subst. simpl.
      rewrite (owners_fresh _ _ _ _ (length al) HR), Nat.eqb_refl; auto.
Qed.

(* (c) a handle holding a new reference on Arc r *)
Lemma R_push_shared al ar ms s r x :
  R al ar ms s -> nth_error ar r = Some x ->
  R al (upd ar r (mkarc (r_data x) (r_strong x + 1) (r_caller x) false)) (ms ++ [Some (mkcow (PArc r) (len (r_data x)) MAXU)])
    (spush s (r_data x, OS r)).
Proof.
  intros HR Ex. pose proof (R_len _ _ _ _ HR) as HL. pose proof (R_alen _ _ _ _ HR) as HA.
  assert (Hr : (r < length ar)%nat) by (apply nth_error_Some; congruence).
  destruct (nth_error (s_arcs s) r) as [y|] eqn:Ey; [|apply nth_error_None in Ey; lia].
  destruct (R_arc _ _ _ _ HR r x y Ex Ey) as (D & C & S & F & B).
  assert (Fr := arcs_upd_frame ar r (mkarc (r_data x) (r_strong x + 1) (r_caller x) false) x Ex eq_refl).
  constructor; simpl.
  - rewrite !app_length. simpl. lia.
  - intros i. rewrite !nth_push, HL. destruct (Nat.eqb i (length (s_store s))).
    + simpl. split; [exact B|]. split; [reflexivity|]. split; [reflexivity|]. split; [reflexivity|].
      exists (mkarc (r_data x) (r_strong x + 1) (r_caller x) false). split; [|reflexivity].
      rewrite nth_error_upd, Nat.eqb_refl. apply Nat.ltb_lt in Hr. rewrite Hr. reflexivity.
    + eapply hrel_arcs; [exact Fr|]. apply (R_h _ _ _ _ HR).
  - rewrite upd_length. exact HA.
  - intros r' x' y' Ex' Ey'. rewrite holders_push. simpl. rewrite nth_error_upd in Ex'.
    destruct (Nat.eqb_spec r r').
    + subst r'. apply Nat.ltb_lt in Hr. rewrite Hr in Ex'. inversion Ex'; subst x'. simpl. rewrite Ey in Ey'. inversion Ey'; subst y'.
      rewrite Nat.eqb_refl. repeat split; auto; try lia. destruct (N.eqb_spec (r_strong x + 1) 0); auto; lia.
    + destruct (Nat.eqb_spec r' r); [congruence|]. rewrite N.add_0_r. apply (R_arc _ _ _ _ HR r' x' y' Ex' Ey').
  - intros a z Ez. rewrite owners_push. simpl. rewrite Nat.add_0_r. apply (R_own _ _ _ _ HR a z Ez).
Qed.

Lemma holders_consume (l : list (option shandle)) h r d o : nth h l None = Some (d, o) ->
  holders r (upd l h None) + (if is_shared r (Some (d, o)) then 1 else 0) = holders r l.
Proof.
  intros H. pose proof (nth_Some_lt _ _ _ H) as Hl. unfold holders.
  pose proof (countp_upd (is_shared r) l h None None Hl) as E. rewrite H in E. simpl in E. simpl.
  destruct o as [| |r']; simpl in *; try lia. destruct (Nat.eqb r r'); lia.
Qed.

Lemma owners_consume l h a c : nth h l None = Some c ->
  (owners a (upd l h None) + (if is_heap a (Some c) then 1 else 0) = owners a l)%nat.
Proof.
  intros H. pose proof (nth_Some_lt _ _ _ H) as Hl. unfold owners.
  pose proof (countp_upd (is_heap a) l h None None Hl) as E. rewrite H in E. change (is_heap a None) with false in E. rewrite E. simpl. lia.
Qed.

(* (d) giving up a handle that owns nothing *)
Lemma R_consume al ar ms s h c d o :
  R al ar ms s -> nth h ms None = Some c -> nth h (s_store s) None = Some (d, o) ->
  (forall a, is_heap a (Some c) = false) -> (forall r, is_shared r (Some (d, o)) = false) ->
  R al ar (upd ms h None) (sconsume s h).
Proof.
  intros HR Ec Es Hc Hs. pose proof (R_len _ _ _ _ HR) as HL. constructor; simpl.
  - rewrite !upd_length. exact HL.
  - intros i. rewrite !nth_upd, HL. destruct (Nat.eqb h i).
    + destruct (Nat.ltb h (length (s_store s))); simpl; auto.
    + apply (R_h _ _ _ _ HR).
  - apply (R_alen _ _ _ _ HR).
  - intros r x y Ex Ey. pose proof (holders_consume _ _ r _ _ Es) as E. rewrite Hs in E. rewrite N.add_0_r in E. rewrite E.
    apply (R_arc _ _ _ _ HR r x y Ex Ey).
  - intros a x Ex. pose proof (owners_consume _ _ a _ Ec) as E. rewrite Hc in E. rewrite Nat.add_0_r in E. rewrite E.
    apply (R_own _ _ _ _ HR a x Ex).
Qed.

(* (e) giving up a handle that owns buffer a: the buffer is freed *)
Lemma R_consume_owned al ar ms s h c d a :
  R al ar ms s -> nth h ms None = Some c -> nth h (s_store s) None = Some (d, OO true) -> c_ptr c = PHeap a ->
  R (upd al a (mkalloc d (c_cap c) true)) ar (upd ms h None) (sconsume s h).
Proof.
  intros HR Ec Es P. pose proof (R_len _ _ _ _ HR) as HL.
  pose proof (R_h _ _ _ _ HR h) as Hh. rewrite Ec, Es in Hh. destruct Hh as (Hb & Hlen & H0 & H1 & a' & P' & Ea).
  rewrite P in P'. inversion P'; subst a'. clear P'.
  pose proof (R_own _ _ _ _ HR a _ Ea) as Ho. simpl in Ho.
  assert (Ha : (a < length al)%nat) by (apply nth_error_Some; congruence).
  assert (Hown : owners a (upd ms h None) = 0%nat).
  { pose proof (owners_consume _ _ a _ Ec) as E. simpl in E. rewrite P, Nat.eqb_refl in E. lia. }
  constructor; simpl.
  - rewrite !upd_length. exact HL.
  - intros i. rewrite !nth_upd, HL. destruct (Nat.eqb_spec h i).
    + destruct (Nat.ltb h (length (s_store s))); simpl; auto.
    + apply hrel_allocs_upd. { apply (R_h _ _ _ _ HR). }
      pose proof (countp_zero_nth (is_heap a) (upd ms h None) i None Hown eq_refl) as Z.
      rewrite nth_upd in Z. destruct (Nat.eqb_spec h i); [contradiction|]. exact Z.
  - apply (R_alen _ _ _ _ HR).
  - intros r x y Ex Ey. pose proof (holders_consume _ _ r _ _ Es) as E. simpl in E. rewrite N.add_0_r in E. rewrite E.
    apply (R_arc _ _ _ _ HR r x y Ex Ey).
  - intros a' x Ex. rewrite nth_error_upd in Ex. destruct (Nat.eqb_spec a a').
    + subst a'. apply Nat.ltb_lt in Ha. rewrite Ha in Ex. inversion Ex; subst x. simpl. exact Hown.
    + pose proof (owners_consume _ _ a' _ Ec) as E. simpl in E. rewrite P in E.
      destruct (Nat.eqb_spec a' a); [congruence|]. rewrite Nat.add_0_r in E. rewrite E. apply (R_own _ _ _ _ HR a' x Ex).
Qed.

(* (f) giving up a handle that holds a reference on Arc r *)
Lemma R_consume_shared al ar ms s h c d r x :
  R al ar ms s -> nth h ms None = Some c -> nth h (s_store s) None = Some (d, OS r) -> nth_error ar r = Some x ->
  R al (upd ar r (if r_strong x =? 1 then mkarc (r_data x) 0 (r_caller x) true
                  else mkarc (r_data x) (r_strong x - 1) (r_caller x) false)) (upd ms h None) (sconsume s h).
Proof.
  intros HR Ec Es Ex. pose proof (R_len _ _ _ _ HR) as HL. pose proof (R_alen _ _ _ _ HR) as HA.
  assert (Hr : (r < length ar)%nat) by (apply nth_error_Some; congruence).
  destruct (nth_error (s_arcs s) r) as [y|] eqn:Ey; [|apply nth_error_None in Ey; lia].
  destruct (R_arc _ _ _ _ HR r x y Ex Ey) as (D & C & S & F & B).
  pose proof (holders_consume _ _ r _ _ Es) as Hh. simpl in Hh. rewrite Nat.eqb_refl in Hh.
  pose proof (R_h _ _ _ _ HR h) as Hc. rewrite Ec, Es in Hc. destruct Hc as (_ & _ & _ & P & _).
  set (v := if r_strong x =? 1 then mkarc (r_data x) 0 (r_caller x) true else mkarc (r_data x) (r_strong x - 1) (r_caller x) false).
  assert (Dv : r_data v = r_data x) by (unfold v; destruct (r_strong x =? 1); reflexivity).
  assert (Fr := arcs_upd_frame ar r v x Ex Dv).
  constructor; simpl.
  - rewrite !upd_length. exact HL.
  - intros i. rewrite !nth_upd, HL. destruct (Nat.eqb h i).
    + destruct (Nat.ltb h (length (s_store s))); simpl; auto.
    + eapply hrel_arcs; [exact Fr|]. apply (R_h _ _ _ _ HR).
  - rewrite upd_length. exact HA.
  - intros r' x' y' Ex' Ey'. rewrite nth_error_upd in Ex'. destruct (Nat.eqb_spec r r').
    + subst r'. apply Nat.ltb_lt in Hr. rewrite Hr in Ex'. inversion Ex'; subst x'. rewrite Ey in Ey'. inversion Ey'; subst y'.
      unfold v. destruct (N.eqb_spec (r_strong x) 1); simpl; repeat split; auto; try lia.
      destruct (N.eqb_spec (r_strong x - 1) 0); auto; lia.
    + pose proof (holders_consume _ _ r' _ _ Es) as E. simpl in E. destruct (Nat.eqb_spec r' r); [congruence|].
      rewrite N.add_0_r in E. rewrite E. apply (R_arc _ _ _ _ HR r' x' y' Ex' Ey').
  - intros a z Ez. pose proof (owners_consume _ _ a _ Ec) as E. simpl in E. rewrite P in E. rewrite Nat.add_0_r in E. rewrite E.
    apply (R_own _ _ _ _ HR a z Ez).
Qed.

(* (g) a temporary buffer that has been allocated and freed again *)
Lemma R_dead_alloc al ar ms s d cap : R al ar ms s -> R (al ++ [mkalloc d cap true]) ar ms s.
Proof.
  intros HR. constructor.
  - apply (R_len _ _ _ _ HR).
  - intros i. apply hrel_allocs_app. apply (R_h _ _ _ _ HR).
  - apply (R_alen _ _ _ _ HR).
  - apply (R_arc _ _ _ _ HR).
  - intros a x Ex. destruct (Nat.ltb_spec a (length al)).
    + rewrite nth_error_app1 in Ex; auto. apply (R_own _ _ _ _ HR a x Ex).
    + assert (a = length al).
      { assert (a < length (al ++ [mkalloc d cap true]))%nat by (apply nth_error_Some; congruence).
        rewrite app_length in H0. simpl in H0. lia. }
      subst a. rewrite nth_error_app2, Nat.sub_diag in Ex; auto. inversion Ex; subst. simpl.
      apply (owners_fresh _ _ _ _ (length al) HR); auto.
Qed.

(* (h) the caller's own Arc operations *)
Lemma sstore_arcs_irrelevant r l : holders r l = holders r l. Proof. reflexivity. Qed.

Lemma R_arc_new al ar ms s d : R al ar ms s -> len d <= ISZ ->
  R al (ar ++ [mkarc d 1 1 false]) ms (mksst (s_arcs s ++ [mksarc d 1]) (s_store s)).
Proof.
  intros HR Hd. pose proof (R_alen _ _ _ _ HR) as HA. constructor; simpl.
  - apply (R_len _ _ _ _ HR).
  - intros i. eapply hrel_arcs; [apply arcs_app_frame|]. apply (R_h _ _ _ _ HR).
  - rewrite !app_length. simpl. lia.
  - intros r x y Ex Ey. destruct (Nat.ltb_spec r (length ar)).
    + rewrite nth_error_app1 in Ex; auto. rewrite nth_error_app1 in Ey; [|lia]. apply (R_arc _ _ _ _ HR r x y Ex Ey).
    + assert (r = length ar).
      { assert (r < length (ar ++ [mkarc d 1 1 false]))%nat by (apply nth_error_Some; congruence).
        rewrite app_length in H0. simpl in H0. lia. }
      subst r. rewrite nth_error_app2, Nat.sub_diag in Ex; auto. rewrite HA in Ey. rewrite nth_error_app2, Nat.sub_diag in Ey; auto.
      inversion Ex; inversion Ey; subst. simpl.
      assert (holders (length ar) (s_store s) = 0).
      { unfold holders. rewrite (countp_all_false _ _ None); auto. intros i.
        pose proof (R_h _ _ _ _ HR i) as H1. destruct (nth i (s_store s) None) as [[d' o]|] eqn:E; auto.
        destruct (nth i ms None) as [c|]; [|contradiction]. destruct H1 as (_ & _ & H1). destruct o; auto. simpl.
        destruct H1 as (_ & _ & z & Ez & _). assert (r < length ar)%nat by (apply nth_error_Some; congruence).
        destruct (Nat.eqb_spec (length ar) r); auto. lia. }
      rewrite H0. repeat split; auto.
  - apply (R_own _ _ _ _ HR).
Qed.

Lemma R_arc_caller al ar ms s r x y (k : N) (st' : N) :
  R al ar ms s -> nth_error ar r = Some x -> nth_error (s_arcs s) r = Some y ->
  st' = k + holders r (s_store s) ->
  R al (upd ar r (mkarc (r_data x) st' k (st' =? 0))) ms (mksst (upd (s_arcs s) r (mksarc (sa_data y) k)) (s_store s)).
Proof.
  intros HR Ex Ey Hst. pose proof (R_alen _ _ _ _ HR) as HA.
  assert (Hr : (r < length ar)%nat) by (apply nth_error_Some; congruence).
  destruct (R_arc _ _ _ _ HR r x y Ex Ey) as (D & C & S & F & B).
  assert (Fr := arcs_upd_frame ar r (mkarc (r_data x) st' k (st' =? 0)) x Ex eq_refl).
  constructor; simpl.
  - apply (R_len _ _ _ _ HR).
  - intros i. eapply hrel_arcs; [exact Fr|]. apply (R_h _ _ _ _ HR).
  - rewrite !upd_length. exact HA.
  - intros r' x' y' Ex' Ey'. simpl in Ey'. rewrite nth_error_upd in Ex'. rewrite nth_error_upd in Ey'. destruct (Nat.eqb_spec r r').
    + subst r'. rewrite <- HA in Ey'. apply Nat.ltb_lt in Hr. rewrite Hr in Ex', Ey'. inversion Ex'; inversion Ey'; subst. simpl.
      repeat split; auto.
    + apply (R_arc _ _ _ _ HR r' x' y' Ex' Ey').
  - apply (R_own _ _ _ _ HR).
Qed.
