From Coq Require Import List NArith ZArith Bool.
Import ListNotations.
Require Import MV.C14.Model MV.C14.Spec MV.C14.Exec MV.C14.Proofs MV.C14.ProofsRun MV.C14.ExecProofs.
Open Scope N_scope.
Require Import MV.C14.Properties.

Check (C14_model_meets_spec : forall tr p, core p = true -> fst (run tr init p) = spec_outs tr p).
Print Assumptions C14_model_meets_spec.
Check (C14_spec_ok_on_model : forall c, core (snd c) = true -> spec_ok c (run_case c) = true).
Print Assumptions C14_spec_ok_on_model.
Check (C14_spec_ok_iff : forall c o, spec_ok c o = true <-> o = spec_outs (fst c) (snd c)).
Print Assumptions C14_spec_ok_iff.
Check (C14_reads_back_content : forall tr p, core p = true ->
  map res_of (fst (run tr init p)) = map res_of (spec_outs tr p)).
Print Assumptions C14_reads_back_content.
Check (C14_no_uaf_no_double_free : forall tr p, core p = true ->
  forallb (fun o => negb (is_fault (res_of o))) (fst (run tr init p)) = true).
Print Assumptions C14_no_uaf_no_double_free.
Check (C14_balanced : forall tr p, core p = true -> let m := snd (run tr init p) in all_consumed m ->
  (forall a x, nth_error (allocs m) a = Some x -> a_freed x = true) /\
  (forall r x, nth_error (arcs m) r = Some x -> r_strong x = r_caller x /\ r_freed x = (r_caller x =? 0))).
Print Assumptions C14_balanced.
Check (C14_eq_ord_hash_coincide : forall tr p, core p = true ->
  forallb (fun o => cmp_coherent (res_of o)) (fst (run tr init p)) = true).
Print Assumptions C14_eq_ord_hash_coincide.
Check (C14_eq_is_content_equality : forall tr s h h' d o d' o', sget s h = Some (d, o) -> sget s h' = Some (d', o') ->
  fst (fst (fst (sstep tr s (Cmp h h')))) = RCmp (lcmp d d') (ceqb d d') (ceqb d d') /\
  (ceqb d d' = true <-> d = d') /\ (lcmp d d' = 1 <-> d = d')).
Print Assumptions C14_eq_is_content_equality.
Check (C14_balanced_counters : forall tr p, core p = true -> let m := snd (run tr init p) in all_consumed m ->
  wsum da_of (fst (run tr init p)) = wsum held (arcs m) /\
  wsum de_of (fst (run tr init p)) = wsum (held_elems tr) (arcs m)).
Print Assumptions C14_balanced_counters.
Check (C14_into_std_cow_kinds : forall tr s h d o, sget s h = Some (d, o) ->
  sstep tr s (IntoStdCow h) =
    (if std_borrowed o then (RStd true d, 0%Z, 0%Z) else (RStd false d, fst (release tr s (d, o)), snd (release tr s (d, o))),
     sconsume s h)).
Print Assumptions C14_into_std_cow_kinds.
Check (C14_owned_cap0_is_borrowed_but_harmless : kind_of 0 0 = KBorrowed /\ op_core (FromOwned [] 0) = true /\
  forall tr m, step tr m (FromOwned [] 0) = (RUnit, push (add_elems m (ec tr 0)) (mkcow PDangling 0 0))).
Print Assumptions C14_owned_cap0_is_borrowed_but_harmless.
Check (C14_owned_empty_spare_capacity_freed : forall tr,
  fst (run tr init [FromOwned [] 16; Drop 0%nat]) = [(RUnit, 1%Z, 0%Z, []); (RUnit, (-1)%Z, 0%Z, [])] /\ kind_of 0 16 = KOwned).
Print Assumptions C14_owned_empty_spare_capacity_freed.
Check (C14_from_owned_max_capacity_panics : forall tr m d, len d <= MAXU ->
  fst (step tr m (FromOwned d MAXU)) = RPanic).
Print Assumptions C14_from_owned_max_capacity_panics.
Check (C14_checks_not_vacuous : exists m a cap m1, free_buf m (PHeap a) cap = inr m1 /\ free_buf m1 (PHeap a) cap = inl DoubleFree /\
                     read m1 (mkcow (PHeap a) 0 cap) = inl UseAfterFree).
Print Assumptions C14_checks_not_vacuous.
