(* C14 — every operation of the explicit-heap model simulates the value semantics. *)
From Coq Require Import List NArith ZArith Bool Lia Arith.
Import ListNotations.
Require Import MV.C14.Model MV.C14.Spec MV.C14.Proofs MV.C14.ProofsMoves.
Open Scope N_scope.

(* the two counters are the number of unfreed blocks and the number of elements held in them *)
Definition fa (x : alloc) : Z := if a_freed x then 0%Z else 1%Z.
Definition fr (x : arc) : Z := if r_freed x then 0%Z else 1%Z.
Definition ea (tr : bool) (x : alloc) : Z := if a_freed x then 0%Z else ec tr (len (a_data x)).
Definition er (tr : bool) (x : arc) : Z := if r_freed x then 0%Z else ec tr (len (r_data x)).
Definition Cnt (tr : bool) (m : st) : Prop :=
  nalloc m = (wsum fa (allocs m) + wsum fr (arcs m))%Z /\
  nelem m = (wsum (ea tr) (allocs m) + wsum (er tr) (arcs m))%Z.

Definition sim (tr : bool) (m : st) (s : sst) (o : op) : Prop :=
  let '(r, m') := step tr m o in let '((r', da, de), s') := sstep tr s o in
  r = r' /\ (nalloc m' - nalloc m)%Z = da /\ (nelem m' - nelem m)%Z = de /\ (Cnt tr m -> Cnt tr m') /\ Rst m' s'.

Lemma upd_upd {A} (l : list A) i x y : upd (upd l i x) i y = upd l i y.
Proof. revert i; induction l; intros [|i]; simpl; auto. f_equal. apply IHl. Qed.

Lemma ec_0 tr : ec tr 0 = 0%Z. Proof. destruct tr; reflexivity. Qed.
Lemma ec_add tr a b : ec tr (a + b) = (ec tr a + ec tr b)%Z. Proof. destruct tr; simpl; lia. Qed.
Lemma len_0 d : len d = 0 -> d = [].
Proof. unfold len. destruct d; auto. simpl. lia. Qed.

(* ---- evaluation of the raw-memory primitives on known shapes ---- *)
Lemma read_static m buf off d : slice buf off (len d) = Some d -> read m (mkcow (PStatic buf off) (len d) 0) = inr d.
Proof. intros H. unfold read. simpl. rewrite H. reflexivity. Qed.

Lemma slice_len buf off n d : slice buf off n = Some d -> len d = n.
Proof.
  unfold slice. destruct (N.leb_spec (off + n) (len buf)); [|discriminate]. intros E. inversion E; subst. clear E.
  unfold take, len in *. rewrite firstn_length, skipn_length. lia.
Qed.
Lemma read_heap m a d cap : nth_error (allocs m) a = Some (mkalloc d cap false) -> read m (mkcow (PHeap a) (len d) cap) = inr d.
Proof. intros E. unfold read. simpl. rewrite E. simpl. rewrite N.leb_refl, take_all. reflexivity. Qed.
Lemma read_arc m r x : nth_error (arcs m) r = Some x -> r_freed x = false -> read m (mkcow (PArc r) (len (r_data x)) MAXU) = inr (r_data x).
Proof. intros E F. unfold read. simpl. rewrite E, F. rewrite N.leb_refl, take_all. reflexivity. Qed.

Lemma free_buf_ok m a d cap : nth_error (allocs m) a = Some (mkalloc d cap false) ->
  free_buf m (PHeap a) cap = inr (mkst (upd (allocs m) a (mkalloc d cap true)) (arcs m) (store m) (nalloc m - 1) (nelem m)).
Proof. intros E. unfold free_buf. rewrite E. simpl. rewrite N.eqb_refl. reflexivity. Qed.

Lemma arc_acquire_ok m r x : nth_error (arcs m) r = Some x -> r_freed x = false ->
  arc_acquire m (PArc r) = inr (mkst (allocs m) (upd (arcs m) r (mkarc (r_data x) (r_strong x + 1) (r_caller x) false)) (store m) (nalloc m) (nelem m)).
Proof. intros E F. unfold arc_acquire. rewrite E, F. reflexivity. Qed.

Lemma arc_release_ok tr m r x : nth_error (arcs m) r = Some x -> r_freed x = false ->
  arc_release tr m (PArc r) = inr (mkst (allocs m)
     (upd (arcs m) r (if r_strong x =? 1 then mkarc (r_data x) 0 (r_caller x) true else mkarc (r_data x) (r_strong x - 1) (r_caller x) false))
     (store m) (if r_strong x =? 1 then (nalloc m - 1)%Z else nalloc m) (if r_strong x =? 1 then (nelem m - ec tr (len (r_data x)))%Z else nelem m)).
Proof. intros E F. unfold arc_release. rewrite E, F. destruct (r_strong x =? 1); reflexivity. Qed.

Lemma to_vec_ok tr m d : len d <> 0 ->
  to_vec tr m d = (mkcow (PHeap (length (allocs m))) (len d) (len d),
                   mkst (allocs m ++ [mkalloc d (len d) false]) (arcs m) (store m) (nalloc m + 1) (nelem m + ec tr (len d))).
Proof. intros H. unfold to_vec, alloc_buf. destruct (N.eqb_spec (len d) 0); [contradiction|]. reflexivity. Qed.
Lemma to_vec_nil tr m : to_vec tr m [] = (mkcow PDangling 0 0, add_elems m (ec tr 0)).
Proof. reflexivity. Qed.

(* ---- shapes of related handles ---- *)
Lemma arc_live m s i d r x : Rst m s -> nth i (s_store s) None = Some (d, OS r) -> nth_error (arcs m) r = Some x ->
  exists y, nth_error (s_arcs s) r = Some y /\ r_freed x = false /\ r_strong x = sa_caller y + holders r (s_store s) /\
            1 <= holders r (s_store s) /\ r_data x = sa_data y /\ r_caller x = sa_caller y /\ len (r_data x) <= ISZ.
Proof.
  intros HR Es Ex. pose proof (R_alen _ _ _ _ HR) as HA.
  assert (r < length (arcs m))%nat by (apply nth_error_Some; congruence).
  destruct (nth_error (s_arcs s) r) as [y|] eqn:Ey; [|apply nth_error_None in Ey; lia].
  destruct (R_arc _ _ _ _ HR r x y Ex Ey) as (D & C & S & F & B). pose proof (holders_pos s i d r Es).
  exists y. repeat split; auto. rewrite F. destruct (N.eqb_spec (r_strong x) 0); auto. lia.
Qed.

Lemma caller_arc m s r : Rst m s ->
  match nth_error (arcs m) r, nth_error (s_arcs s) r with
  | Some x, Some y => r_data x = sa_data y /\ r_caller x = sa_caller y /\ r_strong x = sa_caller y + holders r (s_store s) /\
                      r_freed x = (r_strong x =? 0) /\ len (r_data x) <= ISZ
  | None, None => True
  | _, _ => False
  end.
Proof.
  intros HR. pose proof (R_alen _ _ _ _ HR) as HA.
  destruct (nth_error (arcs m) r) as [x|] eqn:Ex, (nth_error (s_arcs s) r) as [y|] eqn:Ey; auto.
  - apply (R_arc _ _ _ _ HR r x y Ex Ey).
  - apply nth_error_None in Ey. assert (r < length (arcs m))%nat by (apply nth_error_Some; congruence). lia.
  - apply nth_error_None in Ex. assert (r < length (s_arcs s))%nat by (apply nth_error_Some; congruence). lia.
Qed.

Ltac ev := unfold drop_parts, clone_parts, owned_parts, drop_vec, free_vec; cbn [step sstep fin bind clone_parts owned_parts drop_parts drop_vec free_vec push consume add_elems spush sconsume
                c_ptr c_len c_cap allocs arcs store nalloc nelem fst snd release sclone sclone_cost
                a_freed a_cap a_data r_freed r_data r_strong r_caller s_arcs s_store sa_data sa_caller b2z].
Ltac ev0 := unfold owned_parts; cbn [step sstep fin bind clone_parts owned_parts drop_parts drop_vec free_vec push consume add_elems spush sconsume
                c_ptr c_len c_cap allocs arcs store nalloc nelem fst snd release sclone sclone_cost
                a_freed a_cap a_data r_freed r_data r_strong r_caller s_arcs s_store sa_data sa_caller b2z].

Ltac cnt :=
  let HC := fresh "HC" in intros HC; try exact HC; destruct HC as [HCa HCe];
  try match goal with H : _ = _ \/ _ = _ |- _ => destruct H as [->| ->] end;
  unfold Cnt; ev0; rewrite ?upd_upd; rewrite ?wsum_app;
  repeat (erewrite wsum_upd by eassumption);
  cbn [wsum fa fr ea er a_freed a_data r_freed r_data]; unfold fa, fr, ea, er in *; cbn [a_freed a_data r_freed r_data];
  repeat match goal with H : r_freed _ = false |- _ => rewrite H end;
  change (len (@nil N)) with 0 in *; rewrite ?len_app, ?ec_add, ?ec_0; split; lia.
Ltac four := split; [try reflexivity | split; [ev0; try lia | split; [ev0; try lia | split; [first [solve [cnt] | fail 1 "cnt"] | try assumption]]]].

(* both stores agree on which handles are live *)
Lemma handle_cases m s h : Rst m s ->
  (nth h (store m) None = None /\ nth h (s_store s) None = None) \/
  (exists c d o, nth h (store m) None = Some c /\ nth h (s_store s) None = Some (d, o) /\ hrel (allocs m) (arcs m) (Some c) (Some (d, o))).
Proof.
  intros HR. pose proof (R_h _ _ _ _ HR h) as H.
  destruct (nth h (store m) None) as [c|] eqn:Ec, (nth h (s_store s) None) as [[d o]|] eqn:Es; simpl in H; try contradiction.
  - right. exists c, d, o. auto.
  - left. auto.
Qed.

Lemma sim_FromBorrowed tr m s buf off n : Rst m s -> n <= ISZ -> sim tr m s (FromBorrowed buf off n).
Proof.
  intros HR Hd. unfold sim. ev. destruct (slice buf off n) as [d|] eqn:Hs; [|four].
  pose proof (slice_len _ _ _ _ Hs) as Hl. subst n. four.
  apply R_push; auto. simpl. repeat split; auto. exists buf, off. auto.
Qed.

Lemma sim_FromOwned tr m s d cap : Rst m s -> len d <= cap -> cap <= ISZ -> sim tr m s (FromOwned d cap).
Proof.
  intros HR H1 H2. unfold sim. ev.
  destruct (N.ltb_spec cap (len d)); [lia|].
  destruct (N.eqb_spec cap MAXU). { subst. vm_compute in H2. exfalso; apply H2; reflexivity. }
  unfold alloc_buf. destruct (N.eqb_spec cap 0).
  - subst cap. assert (len d = 0) by lia. rewrite H0. ev. change (0 <? 0) with false. ev. four.
    apply len_0 in H0. subst d. apply R_push; auto. simpl. repeat split; auto.
  - ev. destruct (N.ltb_spec 0 cap); [|lia]. ev. four.
    apply R_push_owned; auto. lia.
Qed.

Lemma sim_FromShared tr m s r : Rst m s -> sim tr m s (FromShared r).
Proof.
  intros HR. unfold sim. ev. pose proof (caller_arc m s r HR) as H.
  destruct (nth_error (arcs m) r) as [x|] eqn:Ex, (nth_error (s_arcs s) r) as [y|] eqn:Ey; try contradiction.
  2:{ four. }
  destruct H as (D & C & S & F & B). rewrite C. destruct (N.eqb_spec (sa_caller y) 0).
  - four.
  - assert (r_freed x = false). { rewrite F. destruct (N.eqb_spec (r_strong x) 0); auto. lia. }
    rewrite (arc_acquire_ok m r x Ex H). ev. four. rewrite <- D.
    apply (R_push_shared _ _ _ _ r x HR Ex).
Qed.

Lemma sim_Deref tr m s h : Rst m s -> sim tr m s (Deref h).
Proof.
  intros HR. unfold sim. ev. rewrite get_nth, sget_nth.
  destruct (handle_cases m s h HR) as [[E1 E2]|(c & d & o & E1 & E2 & Hh)]; rewrite E1, E2.
  - four.
  - rewrite (read_rel m s h c d o HR E1 E2). ev. four.
Qed.

Lemma sim_Cmp tr m s h h' : Rst m s -> sim tr m s (Cmp h h').
Proof.
  intros HR. unfold sim. ev. rewrite !get_nth, !sget_nth.
  destruct (handle_cases m s h HR) as [[E1 E2]|(c & d & o & E1 & E2 & Hh)]; rewrite E1, E2.
  - four.
  - destruct (handle_cases m s h' HR) as [[E1' E2']|(c' & d' & o' & E1' & E2' & Hh')]; rewrite E1', E2'.
    + four.
    + rewrite (read_rel m s h c d o HR E1 E2). ev. rewrite (read_rel m s h' c' d' o' HR E1' E2'). ev. four.
Qed.

Lemma sim_ArcNew tr m s d : Rst m s -> len d <= ISZ -> sim tr m s (ArcNew d).
Proof.
  intros HR Hd. unfold sim. ev. four. apply R_arc_new; auto.
Qed.

Lemma sim_ArcClone tr m s r : Rst m s -> sim tr m s (ArcClone r).
Proof.
  intros HR. unfold sim. ev. pose proof (caller_arc m s r HR) as H.
  destruct (nth_error (arcs m) r) as [x|] eqn:Ex, (nth_error (s_arcs s) r) as [y|] eqn:Ey; try contradiction.
  2:{ four. }
  destruct H as (D & C & S & F & B). rewrite C. destruct (N.eqb_spec (sa_caller y) 0).
  - four.
  - assert (r_freed x = false). { rewrite F. destruct (N.eqb_spec (r_strong x) 0); auto. lia. }
    rewrite (arc_acquire_ok m r x Ex H). ev.
    assert (Hr : (r < length (arcs m))%nat) by (apply nth_error_Some; congruence).
    rewrite nth_error_upd, Nat.eqb_refl. apply Nat.ltb_lt in Hr. rewrite Hr. ev. four.
    unfold Rst. ev. rewrite upd_upd.
    assert (Z : (r_strong x + 1 =? 0) = false) by (destruct (N.eqb_spec (r_strong x + 1) 0); auto; lia).
    rewrite <- Z, C.
    apply (R_arc_caller _ _ _ _ r x y (sa_caller y + 1) (r_strong x + 1) HR Ex Ey). lia.
Qed.

Lemma hrel_inv al ar c d o : hrel al ar (Some c) (Some (d, o)) ->
  len d <= ISZ /\
  match o with
  | OB => exists buf off, c = mkcow (PStatic buf off) (len d) 0 /\ slice buf off (len d) = Some d
  | OO false => c = mkcow PDangling 0 0 /\ d = []
  | OO true => exists a cap, c = mkcow (PHeap a) (len d) cap /\ cap <> 0 /\ cap <= ISZ /\ nth_error al a = Some (mkalloc d cap false)
  | OS r => c = mkcow (PArc r) (len d) MAXU /\ exists x, nth_error ar r = Some x /\ r_data x = d
  end.
Proof.
  destruct c as [p l cp]; simpl; intros (A & B & C); split; auto; destruct o as [|[|]|r]; simpl in *.
  - destruct C as (? & b' & o' & ? & ?); subst. exists b', o'; auto.
  - destruct C as (? & ? & a & ? & ?); subst. exists a, cp; auto.
  - destruct C as (? & ? & ?); subst; auto.
  - destruct C as (? & ? & x & ? & ?); subst. split; auto. exists x; auto.
Qed.

Lemma sim_Drop tr m s h : Rst m s -> sim tr m s (Drop h).
Proof.
  intros HR. unfold sim. ev. rewrite get_nth, sget_nth.
  destruct (handle_cases m s h HR) as [[E1 E2]|(c & d & o & E1 & E2 & Hh)]; rewrite E1, E2.
  { four. }
  destruct (hrel_inv _ _ _ _ _ Hh) as (Hd & Hc). destruct o as [|[|]|r].
  - destruct Hc as (buf & off & -> & Hs). ev. rewrite kind_borrowed. ev. four. unfold Rst; ev.
    apply (R_consume _ _ _ _ h _ d OB HR E1 E2); reflexivity.
  - destruct Hc as (a & cap & -> & H0 & H1 & Ea). ev. rewrite (kind_owned _ _ H0 H1). ev.
    erewrite free_buf_ok by exact Ea. ev. four. unfold Rst; ev.
    apply (R_consume_owned _ _ _ _ h _ d a HR E1 E2 eq_refl).
  - destruct Hc as (-> & ->). ev. change (kind_of 0 0) with KBorrowed. ev. change (len []) with 0. rewrite ec_0. four. unfold Rst; ev.
    apply (R_consume _ _ _ _ h _ [] (OO false) HR E1 E2); reflexivity.
  - destruct Hc as (-> & x & Ex & <-). ev. rewrite kind_shared. ev.
    destruct (arc_live m s h _ r x HR E2 Ex) as (y & Ey & F & S & P & D & C & B).
    erewrite arc_release_ok by (try exact Ex; exact F). ev. rewrite Ey. unfold sstrong. rewrite <- S.
    destruct (N.eqb_spec (r_strong x) 1); four; unfold Rst; ev.
    + pose proof (R_consume_shared _ _ _ _ h _ _ r x HR E1 E2 Ex) as Q. destruct (N.eqb_spec (r_strong x) 1); [exact Q|contradiction].
    + pose proof (R_consume_shared _ _ _ _ h _ _ r x HR E1 E2 Ex) as Q. destruct (N.eqb_spec (r_strong x) 1); [contradiction|exact Q].
Qed.

Lemma sim_ArcDrop tr m s r : Rst m s -> sim tr m s (ArcDrop r).
Proof.
  intros HR. unfold sim. ev. pose proof (caller_arc m s r HR) as H.
  destruct (nth_error (arcs m) r) as [x|] eqn:Ex, (nth_error (s_arcs s) r) as [y|] eqn:Ey; try contradiction.
  2:{ four. }
  destruct H as (D & C & S & F & B). rewrite C. destruct (N.eqb_spec (sa_caller y) 0).
  { four. }
  assert (Fx : r_freed x = false). { rewrite F. destruct (N.eqb_spec (r_strong x) 0); auto. lia. }
  erewrite arc_release_ok by (try exact Ex; exact Fx). ev.
  assert (Hr : (r < length (arcs m))%nat) by (apply nth_error_Some; congruence).
  rewrite nth_error_upd, Nat.eqb_refl. apply Nat.ltb_lt in Hr. rewrite Hr. ev. unfold sstrong. rewrite <- S. replace (len (sa_data y)) with (len (r_data x)) by (rewrite D; reflexivity).
  destruct (N.eqb_spec (r_strong x) 1); ev; four; unfold Rst; ev; rewrite upd_upd.
  - replace true with (0 =? 0) by reflexivity. rewrite C.
    apply (R_arc_caller _ _ _ _ r x y (sa_caller y - 1) 0 HR Ex Ey). lia.
  - assert (Z : (r_strong x - 1 =? 0) = false) by (destruct (N.eqb_spec (r_strong x - 1) 0); auto; lia).
    rewrite <- Z, C.
    apply (R_arc_caller _ _ _ _ r x y (sa_caller y - 1) (r_strong x - 1) HR Ex Ey). lia.
Qed.

Lemma sim_Clone tr m s h : Rst m s -> sim tr m s (Clone h).
Proof.
  intros HR. unfold sim. ev. rewrite get_nth, sget_nth.
  destruct (handle_cases m s h HR) as [[E1 E2]|(c & d & o & E1 & E2 & Hh)]; rewrite E1, E2.
  { four. }
  destruct (hrel_inv _ _ _ _ _ Hh) as (Hd & Hc). destruct o as [|[|]|r].
  - destruct Hc as (buf & off & -> & Hs). ev. rewrite kind_borrowed. ev. four. unfold Rst; ev. apply R_push; auto.
  - destruct Hc as (a & cap & -> & H0 & H1 & Ea). ev. rewrite (kind_owned _ _ H0 H1). ev.
    rewrite (read_heap m a d cap Ea). ev. unfold nonempty.
    destruct (N.eqb_spec (len d) 0) as [Z|Z].
    + apply len_0 in Z. subst d. rewrite to_vec_nil. ev. change (len []) with 0. change (0 <? 0) with false. ev. rewrite !ec_0. four.
      unfold Rst; ev. apply R_push; auto. simpl. repeat split; auto.
    + rewrite (to_vec_ok tr m d Z). ev. destruct (N.ltb_spec 0 (len d)); [|lia]. ev. four.
      unfold Rst; ev. apply R_push_owned; auto.
  - destruct Hc as (-> & ->). ev. change (kind_of 0 0) with KBorrowed. ev. change (nonempty []) with false. change (len []) with 0.
    rewrite ?ec_0. ev. four. unfold Rst; ev. apply R_push; auto.
  - destruct Hc as (-> & x & Ex & <-). ev. rewrite kind_shared. ev.
    destruct (arc_live m s h _ r x HR E2 Ex) as (y & Ey & F & S & P & D & C & B).
    rewrite (arc_acquire_ok m r x Ex F). ev. four. unfold Rst; ev.
    apply (R_push_shared _ _ _ _ r x HR Ex).
Qed.

(* a temporary exact-size copy handed to the caller, read and dropped again *)
Lemma temp_vec tr m0 d : exists v al1,
  to_vec tr m0 d = (v, mkst al1 (arcs m0) (store m0) (nalloc m0 + b2z (nonempty d)) (nelem m0 + ec tr (len d))) /\
  forall m2, allocs m2 = al1 ->
    read m2 v = inr d /\
    exists al3, drop_vec tr m2 v = inr (mkst al3 (arcs m2) (store m2) (nalloc m2 - b2z (nonempty d)) (nelem m2 - ec tr (len d))) /\
                (al3 = allocs m0 \/ al3 = allocs m0 ++ [mkalloc d (len d) true]).
Proof.
  unfold nonempty. destruct (N.eqb_spec (len d) 0) as [Z|Z].
  - pose proof (len_0 _ Z). subst d. exists (mkcow PDangling 0 0), (allocs m0). split.
    + rewrite to_vec_nil. unfold add_elems. change (len []) with 0. rewrite ec_0. change (0 <? 0) with false. simpl. rewrite !Z.add_0_r. reflexivity.
    + intros m2 E. split; [reflexivity|]. exists (allocs m0). split; auto. unfold drop_vec. simpl.
      change (len []) with 0. rewrite ec_0. change (0 <? 0) with false. simpl. rewrite !Z.sub_0_r. rewrite <- E. destruct m2; reflexivity.
  - exists (mkcow (PHeap (length (allocs m0))) (len d) (len d)), (allocs m0 ++ [mkalloc d (len d) false]). split.
    + rewrite (to_vec_ok tr m0 d Z). destruct (N.ltb_spec 0 (len d)); [|lia]. reflexivity.
    + intros m2 E.
      assert (Ea : nth_error (allocs m2) (length (allocs m0)) = Some (mkalloc d (len d) false)).
      { rewrite E, nth_error_app2, Nat.sub_diag; auto. }
      split. { apply read_heap; exact Ea. }
      exists (allocs m0 ++ [mkalloc d (len d) true]). split; auto.
      unfold drop_vec, free_vec. cbn [c_cap c_ptr c_len]. destruct (N.eqb_spec (len d) 0); [contradiction|].
      rewrite (free_buf_ok m2 _ d (len d) Ea). cbn [bind]. rewrite E, upd_app_last.
      destruct (N.ltb_spec 0 (len d)); [|lia]. unfold add_elems. simpl. f_equal.
Qed.

Lemma read_dangling m : read m (mkcow PDangling 0 0) = inr []. Proof. reflexivity. Qed.

Lemma R_temp al ar ms s al3 d : R al ar ms s -> (al3 = al \/ al3 = al ++ [mkalloc d (len d) true]) -> R al3 ar ms s.
Proof. intros HR [->| ->]; auto. apply R_dead_alloc; auto. Qed.

Lemma sim_IntoOwned tr m s h : Rst m s -> sim tr m s (IntoOwned h).
Proof.
  intros HR. unfold sim. ev0. rewrite get_nth, sget_nth.
  destruct (handle_cases m s h HR) as [[E1 E2]|(c & d & o & E1 & E2 & Hh)]; rewrite E1, E2.
  { four. }
  destruct (hrel_inv _ _ _ _ _ Hh) as (Hd & Hc). destruct o as [|[|]|r].
  - destruct Hc as (buf & off & -> & Hs). ev0. rewrite kind_borrowed. ev0. rewrite (read_static _ _ _ _ Hs). ev0.
    destruct (temp_vec tr (consume m h) d) as (v & al1 & T & K). rewrite T. ev0.
    match goal with |- context [read ?m2 v] => destruct (K m2 eq_refl) as (Rd & al3 & Dv & Hal) end. rewrite Rd. ev0. rewrite Dv. ev0. four.
    unfold Rst; ev0. eapply R_temp; [|exact Hal]. apply (R_consume _ _ _ _ h _ d OB HR E1 E2); reflexivity.
  - destruct Hc as (a & cap & -> & H0 & H1 & Ea). ev0. rewrite (kind_owned _ _ H0 H1). ev0.
    erewrite read_heap by exact Ea. ev. destruct (N.eqb_spec cap 0); [contradiction|].
    erewrite free_buf_ok by exact Ea. ev. four. unfold Rst; ev0.
    apply (R_consume_owned _ _ _ _ h _ d a HR E1 E2 eq_refl).
  - destruct Hc as (-> & ->). ev0. change (kind_of 0 0) with KBorrowed. ev0. rewrite read_dangling. ev0.
    destruct (temp_vec tr (consume m h) []) as (v & al1 & T & K). rewrite T. ev0.
    match goal with |- context [read ?m2 v] => destruct (K m2 eq_refl) as (Rd & al3 & Dv & Hal) end. rewrite Rd. ev0. rewrite Dv. ev0.
    change (len []) with 0. rewrite ?ec_0. four.
    unfold Rst; ev0. eapply R_temp; [|exact Hal]. apply (R_consume _ _ _ _ h _ [] (OO false) HR E1 E2); reflexivity.
  - destruct Hc as (-> & x & Ex & <-). ev0. rewrite kind_shared. ev0.
    destruct (arc_live m s h _ r x HR E2 Ex) as (y & Ey & F & S & P & D & C & B).
    erewrite read_arc by (try exact Ex; exact F). ev0.
    destruct (temp_vec tr (consume m h) (r_data x)) as (v & al1 & T & K). rewrite T. ev0.
    erewrite arc_release_ok by (try exact Ex; exact F). ev0.
    match goal with |- context [read ?m2 v] => destruct (K m2 eq_refl) as (Rd & al3 & Dv & Hal) end.
    rewrite Rd. ev0. rewrite Dv. ev0. rewrite Ey. unfold sstrong. rewrite <- S.
    destruct (N.eqb_spec (r_strong x) 1); four; unfold Rst; ev0; (eapply R_temp; [|exact Hal]).
    + pose proof (R_consume_shared _ _ _ _ h _ _ r x HR E1 E2 Ex) as Q. destruct (N.eqb_spec (r_strong x) 1); [exact Q|contradiction].
    + pose proof (R_consume_shared _ _ _ _ h _ _ r x HR E1 E2 Ex) as Q. destruct (N.eqb_spec (r_strong x) 1); [contradiction|exact Q].
Qed.

Lemma sim_IntoStdCow tr m s h : Rst m s -> sim tr m s (IntoStdCow h).
Proof.
  intros HR. unfold sim. ev0. rewrite get_nth, sget_nth.
  destruct (handle_cases m s h HR) as [[E1 E2]|(c & d & o & E1 & E2 & Hh)]; rewrite E1, E2.
  { four. }
  destruct (hrel_inv _ _ _ _ _ Hh) as (Hd & Hc). destruct o as [|[|]|r]; cbn [std_borrowed snd fst].
  - destruct Hc as (buf & off & -> & Hs). ev0. rewrite kind_borrowed. ev. rewrite kind_borrowed. ev. rewrite (read_static _ _ _ _ Hs). ev. four.
    unfold Rst; ev. apply (R_consume _ _ _ _ h _ d OB HR E1 E2); reflexivity.
  - destruct Hc as (a & cap & -> & H0 & H1 & Ea). ev0. rewrite (kind_owned _ _ H0 H1). ev0. rewrite ?(kind_owned _ _ H0 H1). ev0.
    erewrite read_heap by exact Ea. ev. destruct (N.eqb_spec cap 0); [contradiction|].
    erewrite free_buf_ok by exact Ea. ev. four. unfold Rst; ev.
    apply (R_consume_owned _ _ _ _ h _ d a HR E1 E2 eq_refl).
  - destruct Hc as (-> & ->). ev0. change (kind_of 0 0) with KBorrowed. ev. change (kind_of 0 0) with KBorrowed. ev.
    rewrite read_dangling. ev. four.
    unfold Rst; ev. apply (R_consume _ _ _ _ h _ [] (OO false) HR E1 E2); reflexivity.
  - destruct Hc as (-> & x & Ex & <-). ev0. rewrite kind_shared. ev0. rewrite ?kind_shared. ev0.
    destruct (arc_live m s h _ r x HR E2 Ex) as (y & Ey & F & S & P & D & C & B).
    erewrite read_arc by (try exact Ex; exact F). ev0.
    destruct (temp_vec tr (consume m h) (r_data x)) as (v & al1 & T & K). rewrite T. ev0.
    erewrite arc_release_ok by (try exact Ex; exact F). ev0.
    match goal with |- context [read ?m2 v] => destruct (K m2 eq_refl) as (Rd & al3 & Dv & Hal) end.
    rewrite Rd. ev0. rewrite Dv. ev0. rewrite Ey. unfold sstrong. rewrite <- S.
    destruct (N.eqb_spec (r_strong x) 1); four; unfold Rst; ev0; (eapply R_temp; [|exact Hal]).
    + pose proof (R_consume_shared _ _ _ _ h _ _ r x HR E1 E2 Ex) as Q. destruct (N.eqb_spec (r_strong x) 1); [exact Q|contradiction].
    + pose proof (R_consume_shared _ _ _ _ h _ _ r x HR E1 E2 Ex) as Q. destruct (N.eqb_spec (r_strong x) 1); [contradiction|exact Q].
Qed.

(* ---- Key::with_extra_labels ---- *)
Lemma grow_le tr cap need : grow tr cap need <= ISZ.
Proof. unfold grow. apply N.le_min_l. Qed.
Lemma grow_pos tr cap need : grow tr cap need <> 0.
Proof.
  unfold grow. assert (4 <= N.max (N.max (2 * cap) need) (if tr then 4 else 8)) by (destruct tr; lia).
  assert (4 <= ISZ) by (vm_compute; discriminate). lia.
Qed.
Lemma grow_not_max tr cap need : (grow tr cap need =? MAXU) = false.
Proof. pose proof (grow_le tr cap need). destruct (N.eqb_spec (grow tr cap need) MAXU); auto. rewrite e in H. vm_compute in H. exfalso; apply H; reflexivity. Qed.

Lemma upd_same {A} (l : list A) i x : nth_error l i = Some x -> upd l i x = l.
Proof. revert i; induction l; intros [|i] H; simpl in *; try discriminate; auto. - inversion H; auto. - f_equal; auto. Qed.

Definition exact_vec (tr : bool) (m : st) (d : content) (v : cow) (m2 : st) : Prop :=
  arcs m2 = arcs m /\ store m2 = store m /\ nelem m2 = (nelem m + ec tr (len d))%Z /\
  ((d = [] /\ v = mkcow PDangling 0 0 /\ allocs m2 = allocs m /\ nalloc m2 = nalloc m) \/
   (len d <> 0 /\ v = mkcow (PHeap (length (allocs m))) (len d) (len d) /\
    allocs m2 = allocs m ++ [mkalloc d (len d) false] /\ nalloc m2 = (nalloc m + 1)%Z)).

Lemma to_vec_cases tr m d : exists v m2, to_vec tr m d = (v, m2) /\ exact_vec tr m d v m2.
Proof.
  destruct (N.eqb_spec (len d) 0) as [Z|Z].
  - pose proof (len_0 _ Z); subst d. eexists. eexists. split; [apply to_vec_nil|]. unfold exact_vec, add_elems; simpl. repeat split; auto.
  - eexists. eexists. split; [apply (to_vec_ok tr m d Z)|]. unfold exact_vec; simpl. repeat split; auto.
Qed.

(* self.labels.clone().into_owned(): an exact-size Vec of the content, whatever the handle is *)
Lemma clone_owned tr m s h c d o : Rst m s -> nth h (store m) None = Some c -> nth h (s_store s) None = Some (d, o) ->
  hrel (allocs m) (arcs m) (Some c) (Some (d, o)) ->
  exists t s1 v m2, clone_parts tr m c = inr (t, s1) /\ owned_parts tr s1 t = inr (v, m2) /\ exact_vec tr m d v m2.
Proof.
  intros HR E1 E2 Hh. destruct (hrel_inv _ _ _ _ _ Hh) as (Hd & Hc). destruct o as [|[|]|r].
  - destruct Hc as (buf & off & -> & Hs). destruct (to_vec_cases tr m d) as (v & m2 & T & X). exists (mkcow (PStatic buf off) (len d) 0), m, v, m2.
    unfold clone_parts, owned_parts. cbn [c_len c_cap c_ptr]. rewrite kind_borrowed. rewrite (read_static _ _ _ _ Hs). cbn [bind]. rewrite T. auto.
  - destruct Hc as (a & cap & -> & H0 & H1 & Ea).
    destruct (to_vec_cases tr m d) as (t & s1 & T & X). exists t, s1.
    unfold clone_parts at 1. cbn [c_len c_cap c_ptr]. rewrite (kind_owned _ _ H0 H1). rewrite (read_heap m a d cap Ea). cbn [bind]. rewrite T.
    destruct X as (Xa & Xs & Xe & [(-> & -> & Xal & Xn)|(Z & -> & Xal & Xn)]).
    + exists (mkcow PDangling 0 0), (add_elems s1 (ec tr 0)). split; auto. split.
      { unfold owned_parts. cbn [c_len c_cap c_ptr]. change (kind_of 0 0) with KBorrowed. rewrite read_dangling. cbn [bind]. rewrite to_vec_nil. reflexivity. }
      unfold exact_vec, add_elems; cbn [arcs store nelem allocs nalloc]. change (len []) with 0 in *. rewrite ec_0 in *. repeat split; auto; try lia.
    + exists (mkcow (PHeap (length (allocs m))) (len d) (len d)), s1. split; auto. split.
      { unfold owned_parts. cbn [c_len c_cap c_ptr]. rewrite (kind_owned _ _ Z Hd). reflexivity. }
      unfold exact_vec. repeat split; auto.
  - destruct Hc as (-> & ->). destruct (to_vec_cases tr m []) as (v & m2 & T & X). exists (mkcow PDangling 0 0), m, v, m2.
    unfold clone_parts, owned_parts. cbn [c_len c_cap c_ptr]. change (kind_of 0 0) with KBorrowed. rewrite read_dangling. cbn [bind]. rewrite T. auto.
  - destruct Hc as (-> & x & Ex & <-).
    destruct (arc_live m s h _ r x HR E2 Ex) as (y & Ey & F & S & P & D & C & B).
    set (x1 := mkarc (r_data x) (r_strong x + 1) (r_caller x) false).
    set (s1 := mkst (allocs m) (upd (arcs m) r x1) (store m) (nalloc m) (nelem m)).
    assert (Hr : (r < length (arcs m))%nat) by (apply nth_error_Some; congruence).
    assert (E1x : nth_error (arcs s1) r = Some x1).
    { unfold s1; cbn [arcs]. rewrite nth_error_upd, Nat.eqb_refl. apply Nat.ltb_lt in Hr. rewrite Hr. reflexivity. }
    destruct (to_vec_cases tr s1 (r_data x)) as (v & s2 & T & X).
    destruct X as (Xa & Xs & Xe & Xd).
    exists (mkcow (PArc r) (len (r_data x)) MAXU), s1, v.
    exists (mkst (allocs s2) (arcs m) (store s2) (nalloc s2) (nelem s2)).
    split. { unfold clone_parts. cbn [c_len c_cap c_ptr]. rewrite kind_shared. rewrite (arc_acquire_ok m r x Ex F). reflexivity. }
    split.
    { unfold owned_parts. cbn [c_len c_cap c_ptr]. rewrite kind_shared.
      change (len (r_data x)) with (len (r_data x1)). rewrite (read_arc s1 r x1 E1x eq_refl). cbn [bind]. change (r_data x1) with (r_data x). rewrite T.
      assert (E2x : nth_error (arcs s2) r = Some x1) by (rewrite Xa; exact E1x).
      rewrite (arc_release_ok tr s2 r x1 E2x eq_refl). cbn [bind]. unfold x1. cbn [r_strong r_data r_caller].
      destruct (N.eqb_spec (r_strong x + 1) 1); [lia|].
      rewrite Xa. unfold s1; cbn [arcs]. rewrite upd_upd.
      replace (mkarc (r_data x) (r_strong x + 1 - 1) (r_caller x) false) with x.
      2:{ destruct x as [xd xs xc xf]; simpl in *. subst xf. f_equal. lia. }
      rewrite (upd_same _ _ _ Ex). reflexivity. }
    unfold exact_vec. cbn [arcs store nelem allocs nalloc]. unfold s1 in *; cbn [arcs store nelem allocs nalloc] in *. repeat split; auto.
Qed.

Lemma with_extra_nil tr m s h extra : len extra = 0 ->
  step tr m (WithExtra h extra) = step tr m (Clone h) /\ sstep tr s (WithExtra h extra) = sstep tr s (Clone h).
Proof.
  intros H. split; cbn [step sstep].
  - destruct (get m h); auto. rewrite H. reflexivity.
  - destruct (sget s h); auto. rewrite H. reflexivity.
Qed.

Lemma sim_WithExtra tr m s h extra : Rst m s -> sim tr m s (WithExtra h extra).
Proof.
  intros HR. destruct (N.eqb_spec (len extra) 0) as [Z|Z].
  { pose proof (sim_Clone tr m s h HR) as Q. unfold sim in *. destruct (with_extra_nil tr m s h extra Z) as [-> ->]. exact Q. }
  unfold sim. cbn [step sstep]. rewrite get_nth, sget_nth.
  destruct (handle_cases m s h HR) as [[E1 E2]|(c & d & o & E1 & E2 & Hh)]; rewrite E1, E2.
  { four. }
  destruct (N.eqb_spec (len extra) 0); [contradiction|].
  destruct (hrel_inv _ _ _ _ _ Hh) as (Hd & _).
  destruct (clone_owned tr m s h c d o HR E1 E2 Hh) as (t & s1 & v & m2 & Hcl & Hown & X).
  rewrite Hcl. cbn [bind fin]. rewrite Hown. cbn [bind fin fst snd].
  destruct m2 as [al2 ar2 st2 na2 ne2]. destruct X as (Xa & Xs & Xe & Xd). cbn [arcs store nelem allocs nalloc] in *. subst ar2 st2 ne2.
  destruct Xd as [(-> & -> & -> & ->)|(Zd & -> & -> & ->)]; cbn [c_len c_cap c_ptr].
  - (* the exact-size copy of an empty content has no buffer *)
    change (len []) with 0 in *. rewrite N.add_0_l.
    destruct (N.ltb_spec ISZ (len extra)).
    + unfold drop_vec. cbn [c_cap bind fin]. change (0 =? 0) with true. cbn [bind fin]. rewrite ec_0. four.
    + unfold vec_extend. rewrite read_dangling. cbn [bind c_len c_cap c_ptr]. rewrite N.add_0_l.
      destruct (N.leb_spec (len extra) 0); [lia|]. change (0 =? 0) with true. cbn [bind].
      unfold alloc_buf. destruct (N.eqb_spec (grow tr 0 (len extra)) 0) as [G|G]; [exfalso; apply (grow_pos _ _ _ G)|].
      cbn [bind c_cap allocs arcs store nalloc nelem add_elems]. rewrite grow_not_max. cbn [fin fst snd].
      rewrite ec_0. four.
      unfold Rst; ev0. change (len extra) with (len ([] ++ extra)).
      apply R_push_owned; auto; try apply grow_le; try (simpl; exact H).
  - destruct (N.ltb_spec ISZ (len d + len extra)).
    + unfold drop_vec, free_vec. cbn [c_cap c_ptr c_len bind fin]. destruct (N.eqb_spec (len d) 0); [contradiction|].
      erewrite free_buf_ok by (cbn [allocs]; rewrite nth_error_app2, Nat.sub_diag; auto; reflexivity).
      cbn [bind fin allocs arcs store nalloc nelem add_elems]. rewrite upd_app_last. four.
      unfold Rst; ev0. apply R_dead_alloc. exact HR.
    + unfold vec_extend.
      erewrite read_heap by (cbn [allocs]; rewrite nth_error_app2, Nat.sub_diag; auto; reflexivity).
      cbn [bind c_len c_cap c_ptr].
      destruct (N.leb_spec (len d + len extra) (len d)); [lia|]. destruct (N.eqb_spec (len d) 0); [contradiction|].
      erewrite free_buf_ok by (cbn [allocs]; rewrite nth_error_app2, Nat.sub_diag; auto; reflexivity).
      cbn [bind allocs arcs store nalloc nelem]. rewrite upd_app_last.
      unfold alloc_buf. destruct (N.eqb_spec (grow tr (len d) (len d + len extra)) 0) as [G|G]; [exfalso; apply (grow_pos _ _ _ G)|].
      cbn [bind c_cap allocs arcs store nalloc nelem add_elems]. rewrite grow_not_max. cbn [fin fst snd]. rewrite ?ec_add. four.
      unfold Rst; ev0. apply R_push_owned; auto; try apply grow_le; try (rewrite len_app; exact H).
      apply R_dead_alloc. exact HR.
Qed.
