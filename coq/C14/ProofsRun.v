(* C14 — whole programs: the model run equals the value semantics; faults; balance. *)
From Coq Require Import List NArith ZArith Bool Lia Arith.
Import ListNotations.
Require Import MV.C14.Model MV.C14.Spec MV.C14.Proofs MV.C14.ProofsMoves MV.C14.ProofsStep.
Open Scope N_scope.

(* well-formed programs: every capacity / length handed in is one a Vec can have *)
Definition op_core (o : op) : bool := op_wf o.
Definition core (p : list op) : bool := forallb op_core p.

Lemma sim_step tr m s o : Rst m s -> op_core o = true -> sim tr m s o.
Proof.
  intros HR H. destruct o; simpl in H; try discriminate.
  - apply sim_FromBorrowed; auto. apply N.leb_le; auto.
  - apply andb_prop in H as [H1 H2]. apply sim_FromOwned; auto; apply N.leb_le; auto.
  - apply sim_FromShared; auto.
  - apply sim_Clone; auto.
  - apply sim_Deref; auto.
  - apply sim_Cmp; auto.
  - apply sim_IntoOwned; auto.
  - apply sim_IntoStdCow; auto.
  - apply sim_Drop; auto.
  - apply sim_WithExtra; auto.
  - apply sim_ArcNew; auto. apply N.leb_le; auto.
  - apply sim_ArcClone; auto.
  - apply sim_ArcDrop; auto.
Qed.

Lemma strongs_gen s : forall la ls k, length la = length ls ->
  (forall i x y, nth_error la i = Some x -> nth_error ls i = Some y ->
     r_caller x = sa_caller y /\ r_strong x = sa_caller y + holders (k + i) (s_store s)) ->
  strongs la = sstrongs_from s k ls.
Proof.
  induction la as [|x la IH]; intros [|y ls] k HL H; simpl in *; try discriminate; auto.
  f_equal.
  - destruct (H 0%nat x y eq_refl eq_refl) as [C S]. rewrite Nat.add_0_r in S. unfold sstrong. rewrite C, S. reflexivity.
  - apply IH; [lia|]. intros i x' y' E1 E2. replace (S k + i)%nat with (k + S i)%nat by lia. apply (H (S i) x' y' E1 E2).
Qed.

Lemma strongs_eq m s : Rst m s -> strongs (arcs m) = sstrongs s.
Proof.
  intros HR. unfold sstrongs. apply strongs_gen. { apply (R_alen _ _ _ _ HR). }
  intros i x y E1 E2. destruct (R_arc _ _ _ _ HR i x y E1 E2) as (_ & C & S & _). simpl. auto.
Qed.

Lemma Rst_init : Rst init sinit.
Proof.
  constructor; simpl; auto.
  - intros [|i]; exact I.
  - intros [|r]; discriminate.
  - intros [|a]; discriminate.
Qed.

Theorem run_sim tr p : forall m s, Rst m s -> core p = true ->
  fst (run tr m p) = fst (srun tr s p) /\ Rst (snd (run tr m p)) (snd (srun tr s p)) /\ (Cnt tr m -> Cnt tr (snd (run tr m p))).
Proof.
  induction p as [|o p IH]; intros m s HR H; simpl in *; auto.
  apply andb_prop in H as [Ho Hp]. pose proof (sim_step tr m s o HR Ho) as Hs. unfold sim in Hs.
  destruct (step tr m o) as [r m1]. destruct (sstep tr s o) as [[[r' da] de] s1].
  destruct Hs as (-> & <- & <- & HC1 & HR1). specialize (IH m1 s1 HR1 Hp).
  destruct (run tr m1 p) as [os m2]. destruct (srun tr s1 p) as [os' s2]. simpl in *. destruct IH as (-> & HR2 & HC2).
  split; [|split; auto]. rewrite (strongs_eq m1 s1 HR1). reflexivity.
Qed.

Theorem model_meets_spec tr p : core p = true -> fst (run tr init p) = spec_outs tr p.
Proof. intros H. apply (run_sim tr p init sinit Rst_init H). Qed.

(* the value semantics cannot produce a fault *)
Definition res_of (o : out) : res := fst (fst (fst o)).
Definition is_fault (r : res) : bool := match r with RFault _ => true | _ => false end.

Lemma sstep_no_fault tr s o : is_fault (fst (fst (fst (sstep tr s o)))) = false.
Proof.
  destruct o; simpl;
  repeat match goal with
         | |- context [match ?x with _ => _ end] => destruct x; simpl
         | |- context [if ?x then _ else _] => destruct x; simpl
         end; reflexivity.
Qed.

Lemma srun_no_fault tr p : forall s, forallb (fun o => negb (is_fault (res_of o))) (fst (srun tr s p)) = true.
Proof.
  induction p as [|o p IH]; intros s; simpl; auto.
  pose proof (sstep_no_fault tr s o) as H. destruct (sstep tr s o) as [[[r da] de] s1]. simpl in H.
  specialize (IH s1). destruct (srun tr s1 p) as [os s2]. simpl in *. unfold res_of at 1. simpl. rewrite H, IH. reflexivity.
Qed.

Theorem no_fault tr p : core p = true -> forallb (fun o => negb (is_fault (res_of o))) (fst (run tr init p)) = true.
Proof. intros H. rewrite (model_meets_spec tr p H). apply srun_no_fault. Qed.

(* eq, cmp = Equal and equality of the hashes coincide, and are content equality, whatever the two
   handles were built from *)
Lemma ceqb_iff a : forall b, ceqb a b = true <-> a = b.
Proof.
  induction a as [|x a IH]; intros [|y b]; simpl; split; try discriminate; auto.
  - intros H. apply andb_prop in H as [H1 H2]. apply N.eqb_eq in H1. apply IH in H2. congruence.
  - intros H. inversion H; subst. rewrite N.eqb_refl. apply IH. reflexivity.
Qed.

Lemma lcmp_iff a : forall b, lcmp a b = 1 <-> a = b.
Proof.
  induction a as [|x a IH]; intros [|y b]; simpl; split; try discriminate; auto.
  - destruct (N.ltb_spec x y); [discriminate|]. destruct (N.ltb_spec y x); [discriminate|].
    intros H1. apply IH in H1. f_equal; auto. lia.
  - intros H. inversion H; subst. rewrite N.ltb_irrefl. apply IH. reflexivity.
Qed.

Lemma ceqb_lcmp a b : ceqb a b = (lcmp a b =? 1).
Proof.
  destruct (ceqb a b) eqn:E, (N.eqb_spec (lcmp a b) 1) as [L|L]; auto.
  - apply ceqb_iff in E. apply lcmp_iff in E. contradiction.
  - apply lcmp_iff in L. apply ceqb_iff in L. congruence.
Qed.

Definition cmp_coherent (r : res) : bool :=
  match r with RCmp o e he => Bool.eqb e (o =? 1) && Bool.eqb he e | _ => true end.

Lemma sstep_cmp_coherent tr s o : cmp_coherent (fst (fst (fst (sstep tr s o)))) = true.
Proof.
  destruct o; simpl;
  repeat match goal with
         | |- context [match ?x with _ => _ end] => destruct x; simpl
         | |- context [if ?x then _ else _] => destruct x; simpl
         end; try reflexivity.
  all: rewrite <- ceqb_lcmp, !Bool.eqb_reflx; reflexivity.
Qed.

Lemma srun_cmp_coherent tr p : forall s, forallb (fun o => cmp_coherent (res_of o)) (fst (srun tr s p)) = true.
Proof.
  induction p as [|o p IH]; intros s; simpl; auto.
  pose proof (sstep_cmp_coherent tr s o) as H. destruct (sstep tr s o) as [[[r da] de] s1]. simpl in H.
  specialize (IH s1). destruct (srun tr s1 p) as [os s2]. simpl in *. unfold res_of at 1. simpl. rewrite H, IH. reflexivity.
Qed.

Theorem eq_ord_hash_coincide tr p : core p = true ->
  forallb (fun o => cmp_coherent (res_of o)) (fst (run tr init p)) = true.
Proof. intros H. rewrite (model_meets_spec tr p H). apply srun_cmp_coherent. Qed.

Lemma cmp_is_content tr s h h' d o d' o' : sget s h = Some (d, o) -> sget s h' = Some (d', o') ->
  fst (fst (fst (sstep tr s (Cmp h h')))) = RCmp (lcmp d d') (ceqb d d') (ceqb d d').
Proof. intros H H'. simpl. rewrite H, H'. reflexivity. Qed.

(* balance: once every handle has been given back, every buffer is freed and every Arc is back to
   the caller's own references (freed exactly when the caller holds none) *)
Definition all_consumed (m : st) : Prop := forall i, nth i (store m) None = None.

Theorem balanced tr p : core p = true -> let m := snd (run tr init p) in all_consumed m ->
  (forall a x, nth_error (allocs m) a = Some x -> a_freed x = true) /\
  (forall r x, nth_error (arcs m) r = Some x -> r_strong x = r_caller x /\ r_freed x = (r_caller x =? 0)).
Proof.
  intros H m Hc. destruct (run_sim tr p init sinit Rst_init H) as (_ & HR & _). fold m in HR.
  set (s := snd (srun tr sinit p)) in *. split.
  - intros a x Ex. pose proof (R_own _ _ _ _ HR a x Ex) as Ho. destruct (a_freed x); auto.
    unfold owners in Ho. rewrite (countp_all_false _ _ None) in Ho; [discriminate|]. intros i. rewrite Hc. reflexivity.
  - intros r x Ex. pose proof (caller_arc m s r HR) as Hq. rewrite Ex in Hq.
    destruct (nth_error (s_arcs s) r) as [y|]; [|contradiction]. destruct Hq as (_ & C & S & F & _).
    assert (holders r (s_store s) = 0).
    { unfold holders. rewrite (countp_all_false _ _ None); auto. intros i. pose proof (R_h _ _ _ _ HR i) as Hh.
      rewrite Hc in Hh. destruct (nth i (s_store s) None); [contradiction|reflexivity]. }
    rewrite H0, N.add_0_r in S. split; [congruence|]. rewrite F, S, C. reflexivity.
Qed.

(* counter form: the sum of the observed live-block deltas is the number of Arcs the caller still
   holds, the sum of the live-element deltas is the number of elements inside those Arcs *)
Definition da_of (o : out) : Z := snd (fst (fst o)).
Definition de_of (o : out) : Z := snd (fst o).

Lemma run_telescope tr p : forall m,
  wsum da_of (fst (run tr m p)) = (nalloc (snd (run tr m p)) - nalloc m)%Z /\
  wsum de_of (fst (run tr m p)) = (nelem (snd (run tr m p)) - nelem m)%Z.
Proof.
  induction p as [|o p IH]; intros m; simpl. { split; lia. }
  destruct (step tr m o) as [r m1]. specialize (IH m1). destruct (run tr m1 p) as [os m2]. simpl in *.
  unfold da_of at 1, de_of at 1. simpl. destruct IH as [-> ->]. split; lia.
Qed.

Definition held (x : arc) : Z := if r_caller x =? 0 then 0%Z else 1%Z.
Definition held_elems (tr : bool) (x : arc) : Z := if r_caller x =? 0 then 0%Z else ec tr (len (r_data x)).

Theorem balanced_counters tr p : core p = true -> let m := snd (run tr init p) in all_consumed m ->
  wsum da_of (fst (run tr init p)) = wsum held (arcs m) /\
  wsum de_of (fst (run tr init p)) = wsum (held_elems tr) (arcs m).
Proof.
  intros H m Hc. destruct (balanced tr p H Hc) as [Ba Br]. fold m in Ba, Br.
  destruct (run_sim tr p init sinit Rst_init H) as (_ & _ & HC).
  assert (C0 : Cnt tr init) by (split; reflexivity). specialize (HC C0). fold m in HC. destruct HC as [Ca Ce].
  destruct (run_telescope tr p init) as [Ta Te]. fold m in Ta, Te. simpl in Ta, Te. rewrite Ta, Te, Ca, Ce, !Z.sub_0_r.
  rewrite (wsum_zero fa (allocs m)), (wsum_zero (ea tr) (allocs m)).
  - split; simpl; apply wsum_ext; intros i x E; destruct (Br i x E) as [_ F]; unfold fr, er, held, held_elems; rewrite F; reflexivity.
  - intros i x E. unfold ea. rewrite (Ba i x E). reflexivity.
  - intros i x E. unfold fa. rewrite (Ba i x E). reflexivity.
Qed.

(* the freed checks of the model are not vacuous: without move semantics they fire *)
Lemma checks_not_vacuous :
  exists m a cap m1, free_buf m (PHeap a) cap = inr m1 /\ free_buf m1 (PHeap a) cap = inl DoubleFree /\
                     read m1 (mkcow (PHeap a) 0 cap) = inl UseAfterFree.
Proof.
  exists (mkst [mkalloc [] 4 false] [] [] 1 0), 0%nat, 4. eexists. split; [reflexivity|]. split; reflexivity.
Qed.
