(* C14 — ownership-accounting model of metrics/src/cow.rs (definitions only).

   A [cow] is the code's representation: a pointer and the two metadata words (len, cap); the
   ownership kind is NOT stored, it is recomputed from (len, cap) exactly as [Metadata::kind].
   The heap is explicit: owned Vec/String buffers ([allocs], with a [freed] flag), Arc blocks
   ([arcs], with the strong count, a [freed] flag and the number of references the caller holds),
   static data (carried by the pointer).  Every access checks [freed] and produces an explicit
   fault.  Handles live in a store; a consumed handle is removed (Rust's move semantics).

   Not modelled: pointer arithmetic, alignment, the Send/Sync impls, ZST element buffers.        *)
From Coq Require Import List NArith ZArith Bool.
Import ListNotations.
Open Scope N_scope.

Definition MAXU : N := 18446744073709551615.          (* usize::MAX on the 64-bit target *)
Definition ISZ : N := 9223372036854775807.            (* isize::MAX: RawVec never holds more *)
Definition content := list N.
Definition len (d : content) : N := N.of_nat (length d).
Definition take (n : N) (d : content) : content := firstn (N.to_nat n) d.

Fixpoint upd {A} (l : list A) (i : nat) (x : A) : list A :=
  match l, i with
  | [], _ => []
  | _ :: t, O => x :: t
  | h :: t, S j => h :: upd t j x
  end.

(* cow.rs:13-18, 430-436 *)
Inductive kind := KOwned | KBorrowed | KShared.
Definition kind_of (l cap : N) : kind :=
  if cap =? MAXU then KShared else if cap =? 0 then KBorrowed else KOwned.

(* a pointer into static data is the static buffer (immutable, lives forever, so it is carried by
   value) and the offset of the pointed-to element: two borrows of one buffer can start at the same
   address with different lengths, overlap, or hold equal content at different addresses *)
Inductive ptr := PStatic (buf : content) (off : N) | PHeap (a : nat) | PArc (r : nat) | PDangling.

(* &buf[off .. off+n] *)
Definition slice (buf : content) (off n : N) : option content :=
  if off + n <=? len buf then Some (take n (skipn (N.to_nat off) buf)) else None.
Record cow := mkcow { c_ptr : ptr; c_len : N; c_cap : N }.
(* a Vec/String value held by the caller has the same three words *)

Record alloc := mkalloc { a_data : content; a_cap : N; a_freed : bool }.
Record arc := mkarc { r_data : content; r_strong : N; r_caller : N; r_freed : bool }.
Record st := mkst {
  allocs : list alloc; arcs : list arc; store : list (option cow);
  nalloc : Z;    (* live heap blocks (what a counting allocator sees) *)
  nelem : Z      (* live element instances (element constructor/clone minus destructor calls) *)
}.
Definition init : st := mkst [] [] [] 0 0.

Inductive fault := UseAfterFree | DoubleFree | OutOfBounds | BadFree | WildPointer | Crash.
Inductive res := RUnit | RContent (d : content) | RStd (borrowed : bool) (d : content) | RCmp (o : N) (e : bool) (he : bool) | RPanic | RBad | RFault (f : fault).

Definition bind {A B} (x : fault + A) (f : A -> fault + B) : fault + B :=
  match x with inl e => inl e | inr a => f a end.
Notation "'do' x <- e ; k" := (bind e (fun x => k)) (at level 200, x pattern, e at level 100, k at level 200).

(* element accounting: only slices of elements with destructors count elements *)
Definition ec (tr : bool) (n : N) : Z := if tr then Z.of_N n else 0%Z.
Definition add_elems (s : st) (z : Z) : st :=
  mkst (allocs s) (arcs s) (store s) (nalloc s) (nelem s + z).

(* ---- raw memory ---- *)
(* slice_from_raw_parts(ptr, len) then a read of those len elements (borrowed_from_parts + deref);
   the kind is not consulted *)
Definition read (s : st) (c : cow) : fault + content :=
  match c_ptr c with
  | PStatic buf off => match slice buf off (c_len c) with Some d => inr d | None => inl OutOfBounds end
  | PHeap a => match nth_error (allocs s) a with
               | None => inl WildPointer
               | Some al => if a_freed al then inl UseAfterFree
                            else if c_len c <=? len (a_data al) then inr (take (c_len c) (a_data al))
                            else inl OutOfBounds
               end
  | PArc r => match nth_error (arcs s) r with
              | None => inl WildPointer
              | Some ar => if r_freed ar then inl UseAfterFree
                           else if c_len c <=? len (r_data ar) then inr (take (c_len c) (r_data ar))
                           else inl OutOfBounds
              end
  | PDangling => if c_len c =? 0 then inr [] else inl WildPointer
  end.

(* a new buffer of capacity cap holding d (cap = 0: no allocation, dangling pointer) *)
Definition alloc_buf (s : st) (d : content) (cap : N) : cow * st :=
  if cap =? 0 then (mkcow PDangling (len d) 0, s)
  else (mkcow (PHeap (length (allocs s))) (len d) cap,
        mkst (allocs s ++ [mkalloc d cap false]) (arcs s) (store s) (nalloc s + 1) (nelem s)).

(* deallocation of the buffer behind a Vec rebuilt from raw parts *)
Definition free_buf (s : st) (p : ptr) (cap : N) : fault + st :=
  match p with
  | PHeap a => match nth_error (allocs s) a with
               | None => inl WildPointer
               | Some al => if a_freed al then inl DoubleFree
                            else if negb (a_cap al =? cap) then inl BadFree
                            else inr (mkst (upd (allocs s) a (mkalloc (a_data al) (a_cap al) true))
                                           (arcs s) (store s) (nalloc s - 1) (nelem s))
               end
  | _ => inl BadFree
  end.

(* drop(Vec::from_raw_parts(ptr, len, cap)) with cap <> 0: len element destructors, then the buffer *)
Definition free_vec (tr : bool) (s : st) (p : ptr) (l cap : N) : fault + st :=
  do s1 <- free_buf s p cap; inr (add_elems s1 (- ec tr l)).

(* Arc::increment_strong_count(ptr) *)
Definition arc_acquire (s : st) (p : ptr) : fault + st :=
  match p with
  | PArc r => match nth_error (arcs s) r with
              | None => inl WildPointer
              | Some ar => if r_freed ar then inl UseAfterFree
                           else inr (mkst (allocs s) (upd (arcs s) r (mkarc (r_data ar) (r_strong ar + 1) (r_caller ar) false))
                                          (store s) (nalloc s) (nelem s))
              end
  | _ => inl WildPointer
  end.

(* drop(Arc::from_raw(ptr)) *)
Definition arc_release (tr : bool) (s : st) (p : ptr) : fault + st :=
  match p with
  | PArc r => match nth_error (arcs s) r with
              | None => inl WildPointer
              | Some ar => if r_freed ar then inl UseAfterFree
                           else if r_strong ar =? 1
                           then inr (mkst (allocs s) (upd (arcs s) r (mkarc (r_data ar) 0 (r_caller ar) true))
                                          (store s) (nalloc s - 1) (nelem s - ec tr (len (r_data ar))))
                           else inr (mkst (allocs s) (upd (arcs s) r (mkarc (r_data ar) (r_strong ar - 1) (r_caller ar) false))
                                          (store s) (nalloc s) (nelem s))
              end
  | _ => inl WildPointer
  end.

(* d.to_string() / d.to_vec(): exact capacity, len clones of the elements *)
Definition to_vec (tr : bool) (s : st) (d : content) : cow * st :=
  let '(v, s1) := alloc_buf s d (len d) in (v, add_elems s1 (ec tr (len d))).

(* ---- the Cowable functions (cow.rs:473-688; str and [T] are statement-identical) ---- *)
(* clone_from_parts *)
Definition clone_parts (tr : bool) (s : st) (c : cow) : fault + (cow * st) :=
  match kind_of (c_len c) (c_cap c) with
  | KBorrowed => inr (c, s)
  | KOwned => do d <- read s c; inr (to_vec tr s d)        (* owned_into_parts(s.to_string()) *)
  | KShared => do s1 <- arc_acquire s (c_ptr c); inr (c, s1)
  end.

(* owned_from_parts: the Vec/String handed to the caller *)
Definition owned_parts (tr : bool) (s : st) (c : cow) : fault + (cow * st) :=
  match kind_of (c_len c) (c_cap c) with
  | KBorrowed => do d <- read s c; inr (to_vec tr s d)
  | KOwned => inr (c, s)                                   (* String::from_raw_parts(ptr, len, cap) *)
  | KShared => do d <- read s c;
               let '(v, s1) := to_vec tr s d in
               do s2 <- arc_release tr s1 (c_ptr c); inr (v, s2)
  end.

(* drop_from_parts *)
Definition drop_parts (tr : bool) (s : st) (c : cow) : fault + st :=
  match kind_of (c_len c) (c_cap c) with
  | KBorrowed => inr s
  | KOwned => free_vec tr s (c_ptr c) (c_len c) (c_cap c)
  | KShared => arc_release tr s (c_ptr c)
  end.

(* the caller drops a Vec/String value *)
Definition drop_vec (tr : bool) (s : st) (v : cow) : fault + st :=
  if c_cap v =? 0 then inr s else free_vec tr s (c_ptr v) (c_len v) (c_cap v).

(* RawVec::grow_amortized (not observable; only zero / non-zero matters to the cow) *)
Definition grow (tr : bool) (cap need : N) : N :=
  N.min ISZ (N.max (N.max (2 * cap) need) (if tr then 4 else 8)).

(* v.extend(extra) on a caller-held Vec value *)
Definition vec_extend (tr : bool) (s : st) (v : cow) (extra : content) : fault + (cow * st) :=
  do d <- read s v;
  let need := c_len v + len extra in
  if need <=? c_cap v then
    match c_ptr v with
    | PHeap a => match nth_error (allocs s) a with
                 | None => inl WildPointer
                 | Some al => if a_freed al then inl UseAfterFree
                              else inr (mkcow (PHeap a) need (c_cap v),
                                        mkst (upd (allocs s) a (mkalloc (d ++ extra) (a_cap al) false)) (arcs s) (store s)
                                             (nalloc s) (nelem s + ec tr (len extra)))
                 end
    | _ => if len extra =? 0 then inr (v, s) else inl WildPointer
    end
  else
    do s1 <- (if c_cap v =? 0 then inr s else free_buf s (c_ptr v) (c_cap v));   (* realloc: elements move *)
    let '(v2, s2) := alloc_buf s1 (d ++ extra) (grow tr (c_cap v) need) in
    inr (v2, add_elems s2 (ec tr (len extra))).

(* ---- handles ---- *)
Definition get (s : st) (h : nat) : option cow :=
  match nth_error (store s) h with Some (Some c) => Some c | _ => None end.
Definition push (s : st) (c : cow) : st :=
  mkst (allocs s) (arcs s) (store s ++ [Some c]) (nalloc s) (nelem s).
Definition consume (s : st) (h : nat) : st :=
  mkst (allocs s) (arcs s) (upd (store s) h None) (nalloc s) (nelem s).

Fixpoint lcmp (a b : content) : N :=      (* slice / str ordering: 0 Less, 1 Equal, 2 Greater *)
  match a, b with
  | [], [] => 1
  | [], _ => 0
  | _, [] => 2
  | x :: a', y :: b' => if x <? y then 0 else if y <? x then 2 else lcmp a' b'
  end.

Fixpoint ceqb (a b : content) : bool :=    (* slice / str equality *)
  match a, b with
  | [], [] => true
  | x :: a', y :: b' => (x =? y) && ceqb a' b'
  | _, _ => false
  end.

Inductive op :=
| FromBorrowed (buf : content) (off n : N)   (* from_borrowed / const_str / const_slice of &buf[off..off+n], buf static *)
| FromOwned (d : content) (cap : N)   (* the caller builds a Vec/String (len d, cap) and hands it over *)
| FromShared (r : nat)                (* the caller clones one of its Arcs and hands the clone over *)
| Clone (h : nat)
| Deref (h : nat)
| Cmp (h h' : nat)                    (* Ord::cmp, PartialEq::eq, equality of the two Hash results: all through deref *)
| IntoOwned (h : nat)                 (* the caller reads the returned value and drops it *)
| IntoStdCow (h : nat)                (* std::borrow::Cow::from(cow); the caller reads the result and drops it *)
| Drop (h : nat)                      (* on this or on another thread *)
| WithExtra (h : nat) (extra : content)   (* Key::with_extra_labels: clone, into_owned, extend, from_owned *)
| ArcNew (d : content) | ArcClone (r : nat) | ArcDrop (r : nat).   (* the caller's own Arc references *)

Definition fin (s : st) (x : fault + (res * st)) : res * st :=
  match x with inl f => (RFault f, s) | inr y => y end.

Definition step (tr : bool) (s : st) (o : op) : res * st :=
  match o with
  | FromBorrowed buf off n =>
      match slice buf off n with
      | Some _ => (RUnit, push s (mkcow (PStatic buf off) n 0))          (* Metadata::borrowed(len) *)
      | None => (RBad, s)                                                 (* no such slice *)
      end
  | FromOwned d cap =>
      if cap <? len d then (RBad, s)                                   (* no such Vec *)
      else if cap =? MAXU then (RPanic, add_elems s (ec tr (len d)))   (* ZST elements only: ManuallyDrop'd, then panic *)
      else let '(v, s1) := alloc_buf s d cap in
           (RUnit, push (add_elems s1 (ec tr (len d))) v)              (* owned_into_parts: same three words *)
  | FromShared r =>
      match nth_error (arcs s) r with
      | Some ar => if r_caller ar =? 0 then (RBad, s)
                   else fin s (do s1 <- arc_acquire s (PArc r);       (* the caller's Arc::clone *)
                               inr (RUnit, push s1 (mkcow (PArc r) (len (r_data ar)) MAXU)))
      | None => (RBad, s)
      end
  | Clone h =>
      match get s h with
      | None => (RBad, s)
      | Some c => fin s (do (c2, s1) <- clone_parts tr s c; inr (RUnit, push s1 c2))
      end
  | Deref h =>
      match get s h with
      | None => (RBad, s)
      | Some c => fin s (do d <- read s c; inr (RContent d, s))
      end
  | Cmp h h' =>
      match get s h, get s h' with
      | Some c, Some c' => fin s (do d <- read s c; do d' <- read s c'; inr (RCmp (lcmp d d') (ceqb d d') (ceqb d d'), s))
      | _, _ => (RBad, s)
      end
  | IntoOwned h =>
      match get s h with
      | None => (RBad, s)
      | Some c => fin s (do (v, s1) <- owned_parts tr (consume s h) c;   (* ManuallyDrop::new(self) *)
                         do d <- read s1 v;
                         do s2 <- drop_vec tr s1 v;
                         inr (RContent d, s2))
      end
  | IntoStdCow h =>                       (* cow.rs:329-341 *)
      match get s h with
      | None => (RBad, s)
      | Some c =>
          match kind_of (c_len c) (c_cap c) with
          | KBorrowed =>                  (* the reference is rebuilt, then `value` is dropped at the end of from() *)
              fin s (do s1 <- drop_parts tr (consume s h) c; do d <- read s1 c; inr (RStd true d, s1))
          | _ =>                          (* Self::Owned(value.into_owned()) *)
              fin s (do (v, s1) <- owned_parts tr (consume s h) c;
                     do d <- read s1 v;
                     do s2 <- drop_vec tr s1 v;
                     inr (RStd false d, s2))
          end
      end
  | Drop h =>
      match get s h with
      | None => (RBad, s)
      | Some c => fin s (do s1 <- drop_parts tr (consume s h) c; inr (RUnit, s1))
      end
  | WithExtra h extra =>
      match get s h with
      | None => (RBad, s)
      | Some c =>
          if len extra =? 0 then fin s (do (c2, s1) <- clone_parts tr s c; inr (RUnit, push s1 c2))
          else fin s (do (t, s1) <- clone_parts tr s c;
                      do (v, s2) <- owned_parts tr s1 t;
                      if ISZ <? c_len v + len extra
                      then (do s3 <- drop_vec tr s2 v; inr (RPanic, s3))   (* "capacity overflow": unwinding drops the Vec *)
                      else
                      do (v2, s3) <- vec_extend tr s2 v extra;
                      if c_cap v2 =? MAXU then inr (RPanic, s3) else inr (RUnit, push s3 v2))
      end
  | ArcNew d =>
      (RUnit, mkst (allocs s) (arcs s ++ [mkarc d 1 1 false]) (store s) (nalloc s + 1) (nelem s + ec tr (len d)))
  | ArcClone r =>
      match nth_error (arcs s) r with
      | Some ar => if r_caller ar =? 0 then (RBad, s)
                   else fin s (do s1 <- arc_acquire s (PArc r);
                               match nth_error (arcs s1) r with
                               | Some a1 => inr (RUnit, mkst (allocs s1) (upd (arcs s1) r (mkarc (r_data a1) (r_strong a1) (r_caller a1 + 1) (r_freed a1))) (store s1) (nalloc s1) (nelem s1))
                               | None => inl WildPointer
                               end)
      | None => (RBad, s)
      end
  | ArcDrop r =>
      match nth_error (arcs s) r with
      | Some ar => if r_caller ar =? 0 then (RBad, s)
                   else fin s (do s1 <- arc_release tr s (PArc r);
                               match nth_error (arcs s1) r with
                               | Some a1 => inr (RUnit, mkst (allocs s1) (upd (arcs s1) r (mkarc (r_data a1) (r_strong a1) (r_caller a1 - 1) (r_freed a1))) (store s1) (nalloc s1) (nelem s1))
                               | None => inl WildPointer
                               end)
      | None => (RBad, s)
      end
  end.

(* observables after each operation: result, live-block delta, live-element delta, and the strong
   count of every Arc the caller still holds a reference to (0 = the caller holds none) *)
Definition out := (res * Z * Z * list N)%type.
Definition strongs (l : list arc) : list N := map (fun a => if r_caller a =? 0 then 0 else r_strong a) l.

Fixpoint run (tr : bool) (s : st) (p : list op) : list out * st :=
  match p with
  | [] => ([], s)
  | o :: p' => let '(r, s1) := step tr s o in
               let '(os, s2) := run tr s1 p' in
               ((r, (nalloc s1 - nalloc s)%Z, (nelem s1 - nelem s)%Z, strongs (arcs s1)) :: os, s2)
  end.
