(* C14 — executable entry points used by the correspondence check (cases.v). *)
From Coq Require Import List NArith ZArith Bool.
Import ListNotations.
Require Export MV.C14.Model MV.C14.Spec.
Open Scope N_scope.

(* a case: element tracking on/off (slices of elements with destructors / str) and a program *)
Definition case := (bool * list op)%type.
Definition OUT := list out.
Definition run_case (c : case) : OUT := fst (run (fst c) init (snd c)).

Definition content_eqb (a b : content) : bool := if list_eq_dec N.eq_dec a b then true else false.
Definition fault_eqb (a b : fault) : bool :=
  match a, b with
  | UseAfterFree, UseAfterFree | DoubleFree, DoubleFree | OutOfBounds, OutOfBounds
  | BadFree, BadFree | WildPointer, WildPointer | Crash, Crash => true
  | _, _ => false
  end.
Definition res_eqb (a b : res) : bool :=
  match a, b with
  | RUnit, RUnit | RPanic, RPanic | RBad, RBad => true
  | RContent d, RContent d' => content_eqb d d'
  | RStd b d, RStd b' d' => Bool.eqb b b' && content_eqb d d'
  | RCmp x e he, RCmp y e' he' => (x =? y) && Bool.eqb e e' && Bool.eqb he he'
  | RFault f, RFault g => fault_eqb f g
  | _, _ => false
  end.
Definition out_eqb1 (a b : out) : bool :=
  let '(r, da, de, ss) := a in let '(r', da', de', ss') := b in
  res_eqb r r' && (da =? da')%Z && (de =? de')%Z && content_eqb ss ss'.
Fixpoint outs_eqb (a b : OUT) : bool :=
  match a, b with
  | [], [] => true
  | x :: r, y :: r' => out_eqb1 x y && outs_eqb r r'
  | _, _ => false
  end.

(* the property in executable form, evaluated on an output list (the implementation's): every
   operation's result, live-block delta, live-element delta and Arc strong counts are the ones of
   the value semantics (which has no faults, no leaks and no double releases by construction) *)
Definition spec_ok (c : case) (o : OUT) : bool := outs_eqb (spec_outs (fst c) (snd c)) o.
Definition known_class (c : case) : option N := None.

Definition verdicts (l : list (N * case * OUT)) : list (N * bool * bool * option N) :=
  map (fun '(i, c, o) => (i, outs_eqb (run_case c) o, spec_ok c o, known_class c)) l.
