(* C14 — the simulation relation between the explicit-heap model and the value semantics, and the
   state moves that preserve it. *)
From Coq Require Import List NArith ZArith Bool Lia Arith.
Import ListNotations.
Require Import MV.C14.Model MV.C14.Spec.
Open Scope N_scope.

(* ---------------------------------------------------------------- lists *)
Lemma upd_length {A} (l : list A) i x : length (upd l i x) = length l.
Proof. revert i; induction l; intros [|i]; simpl; auto. Qed.

Lemma nth_upd {A} (l : list A) i j x d : nth j (upd l i x) d = if Nat.eqb i j then (if Nat.ltb i (length l) then x else d) else nth j l d.
Proof.
  revert i j; induction l; intros [|i] [|j]; simpl; auto.
  - destruct (Nat.eqb i j); auto.
  - rewrite IHl. reflexivity.
Qed.

Lemma nth_error_upd {A} (l : list A) i j x :
  nth_error (upd l i x) j = if Nat.eqb i j then (if Nat.ltb i (length l) then Some x else None) else nth_error l j.
Proof.
  revert i j; induction l; intros [|i] [|j]; simpl; auto.
  - destruct (Nat.eqb i j); auto.
  - rewrite IHl. reflexivity.
Qed.

Lemma upd_app_last {A} (l : list A) x y : upd (l ++ [x]) (length l) y = l ++ [y].
Proof. induction l; simpl; auto. f_equal; auto. Qed.

Lemma upd_app_lt {A} (l l' : list A) i x : (i < length l)%nat -> upd (l ++ l') i x = upd l i x ++ l'.
Proof. revert i; induction l; intros [|i] H; simpl in *; try lia; auto. f_equal. apply IHl. lia. Qed.

Lemma nth_error_nth_None {A} (l : list (option A)) i x : nth_error l i = Some x -> nth i l None = x.
Proof. intros H. apply nth_error_nth with (d := None) in H. exact H. Qed.

Lemma nth_app_last {A} (l : list A) x d : nth (length l) (l ++ [x]) d = x.
Proof. rewrite app_nth2; [|lia]. rewrite Nat.sub_diag. reflexivity. Qed.

Lemma countp_app {A} (p : A -> bool) l l' : countp p (l ++ l') = (countp p l + countp p l')%nat.
Proof. induction l; simpl; auto. rewrite IHl. lia. Qed.

Lemma countp_upd {A} (p : A -> bool) l i x d : (i < length l)%nat ->
  (countp p (upd l i x) + (if p (nth i l d) then 1 else 0) = countp p l + (if p x then 1 else 0))%nat.
Proof.
  revert i; induction l; intros [|i] H; simpl in *; try lia.
  specialize (IHl i ltac:(lia)). lia.
Qed.

Lemma countp_pos {A} (p : A -> bool) l i d : (i < length l)%nat -> p (nth i l d) = true -> (1 <= countp p l)%nat.
Proof.
  revert i; induction l; intros [|i] H Hp; simpl in *; try lia.
  - rewrite Hp. lia.
  - specialize (IHl i ltac:(lia) Hp). lia.
Qed.

Lemma countp_zero_nth {A} (p : A -> bool) l i d : countp p l = 0%nat -> p d = false -> p (nth i l d) = false.
Proof.
  revert i; induction l; intros [|i] H Hd; simpl in *; auto.
  - destruct (p a); auto. lia.
  - apply IHl; auto. destruct (p a); lia.
Qed.

Lemma countp_all_false {A} (p : A -> bool) l d : (forall i, p (nth i l d) = false) -> countp p l = 0%nat.
Proof.
  induction l; intros H; simpl; auto.
  rewrite (H 0%nat : p a = false). simpl. apply IHl. intros i. exact (H (S i)).
Qed.

Lemma countp_one_unique {A} (p : A -> bool) l i j d : countp p l = 1%nat -> (i < length l)%nat ->
  p (nth i l d) = true -> p d = false -> p (nth j l d) = true -> i = j.
Proof.
  revert i j; induction l; intros i j H Hi Hpi Hd Hpj; simpl in *; try lia.
  destruct i, j; auto.
  - rewrite Hpi in H. assert (countp p l = 0%nat) by lia.
    rewrite (countp_zero_nth p l j d H0 Hd) in Hpj. discriminate.
  - rewrite Hpj in H. assert (countp p l = 0%nat) by lia.
    rewrite (countp_zero_nth p l i d H0 Hd) in Hpi. discriminate.
  - f_equal. destruct (p a).
    + assert (countp p l = 0%nat) by lia. rewrite (countp_zero_nth p l i d H0 Hd) in Hpi. discriminate.
    + apply IHl; auto. lia.
Qed.

(* weighted sums (live-block and live-element accounting) *)
Fixpoint wsum {A} (f : A -> Z) (l : list A) : Z := match l with [] => 0%Z | x :: t => (f x + wsum f t)%Z end.

Lemma wsum_app {A} (f : A -> Z) l l' : wsum f (l ++ l') = (wsum f l + wsum f l')%Z.
Proof. induction l; simpl; auto. rewrite IHl. lia. Qed.

Lemma wsum_upd {A} (f : A -> Z) l i x y : nth_error l i = Some y -> wsum f (upd l i x) = (wsum f l - f y + f x)%Z.
Proof.
  revert i; induction l; intros [|i] H; simpl in *; try discriminate.
  - inversion H; subst. lia.
  - rewrite (IHl i H). lia.
Qed.

Lemma wsum_ext {A} (f g : A -> Z) l : (forall i x, nth_error l i = Some x -> f x = g x) -> wsum f l = wsum g l.
Proof.
  induction l; intros H; simpl; auto. rewrite (H 0%nat a eq_refl). f_equal. apply IHl. intros i x E. apply (H (S i) x E).
Qed.

Lemma wsum_zero {A} (f : A -> Z) l : (forall i x, nth_error l i = Some x -> f x = 0%Z) -> wsum f l = 0%Z.
Proof.
  induction l; intros H; simpl; auto. rewrite (H 0%nat a eq_refl). rewrite IHl; auto. intros i x E. apply (H (S i) x E).
Qed.

Lemma take_all d : take (len d) d = d.
Proof. unfold take, len. rewrite Nat2N.id. apply firstn_all. Qed.

Lemma len_app a b : len (a ++ b) = len a + len b.
Proof. unfold len. rewrite app_length. lia. Qed.

(* ---------------------------------------------------------------- kinds *)
Lemma ISZ_lt_MAXU : ISZ < MAXU. Proof. reflexivity. Qed.

Lemma kind_borrowed l : kind_of l 0 = KBorrowed. Proof. reflexivity. Qed.
Lemma kind_shared l : kind_of l MAXU = KShared. Proof. reflexivity. Qed.
Lemma kind_owned l cap : cap <> 0 -> cap <= ISZ -> kind_of l cap = KOwned.
Proof.
  intros H0 H1. unfold kind_of.
  destruct (N.eqb_spec cap MAXU) as [E|E]. { subst. vm_compute in H1. exfalso; apply H1; reflexivity. }
  destruct (N.eqb_spec cap 0); [contradiction|reflexivity].
Qed.

(* ---------------------------------------------------------------- the relation *)
Definition is_heap (a : nat) (x : option cow) : bool :=
  match x with Some c => match c_ptr c with PHeap a' => Nat.eqb a a' | _ => false end | None => false end.
Definition owners (a : nat) (l : list (option cow)) : nat := countp (is_heap a) l.

Definition hrel (al : list alloc) (ar : list arc) (mc : option cow) (sc : option shandle) : Prop :=
  match mc, sc with
  | None, None => True
  | Some c, Some (d, o) =>
      len d <= ISZ /\ c_len c = len d /\
      match o with
      | OB => c_cap c = 0 /\ exists buf off, c_ptr c = PStatic buf off /\ slice buf off (len d) = Some d
      | OO false => c_cap c = 0 /\ c_ptr c = PDangling /\ d = []
      | OO true => c_cap c <> 0 /\ c_cap c <= ISZ /\
                   exists a, c_ptr c = PHeap a /\ nth_error al a = Some (mkalloc d (c_cap c) false)
      | OS r => c_cap c = MAXU /\ c_ptr c = PArc r /\ exists x, nth_error ar r = Some x /\ r_data x = d
      end
  | _, _ => False
  end.

Record R (al : list alloc) (ar : list arc) (ms : list (option cow)) (s : sst) : Prop := mkR {
  R_len : length ms = length (s_store s);
  R_h : forall i, hrel al ar (nth i ms None) (nth i (s_store s) None);
  R_alen : length ar = length (s_arcs s);
  R_arc : forall r x y, nth_error ar r = Some x -> nth_error (s_arcs s) r = Some y ->
      r_data x = sa_data y /\ r_caller x = sa_caller y /\ r_strong x = sa_caller y + holders r (s_store s) /\
      r_freed x = (r_strong x =? 0) /\ len (r_data x) <= ISZ;
  R_own : forall a x, nth_error al a = Some x -> owners a ms = if a_freed x then 0%nat else 1%nat
}.

Definition Rst (m : st) (s : sst) : Prop := R (allocs m) (arcs m) (store m) s.

Lemma get_nth s h : get s h = nth h (store s) None.
Proof.
  unfold get. destruct (nth_error (store s) h) eqn:E.
  - rewrite (nth_error_nth_None _ _ _ E). destruct o; reflexivity.
  - apply nth_error_None in E. rewrite nth_overflow; auto.
Qed.
Lemma sget_nth s h : sget s h = nth h (s_store s) None.
Proof.
  unfold sget. destruct (nth_error (s_store s) h) eqn:E.
  - rewrite (nth_error_nth_None _ _ _ E). destruct o; reflexivity.
  - apply nth_error_None in E. rewrite nth_overflow; auto.
Qed.

Lemma nth_Some_lt {A} (l : list (option A)) i x : nth i l None = Some x -> (i < length l)%nat.
Proof. intros H. destruct (Nat.ltb_spec i (length l)); auto. rewrite nth_overflow in H; [discriminate|lia]. Qed.

(* frame lemmas for hrel *)
Lemma hrel_allocs_app al l ar x y : hrel al ar x y -> hrel (al ++ l) ar x y.
Proof.
  unfold hrel. destruct x as [c|], y as [[d o]|]; auto. intros (H1 & H2 & H3). repeat split; auto.
  destruct o as [|[|]|r]; auto. destruct H3 as (A & B & a & E & F). repeat split; auto.
  exists a. split; auto. rewrite nth_error_app1; auto. apply nth_error_Some. congruence.
Qed.

Lemma hrel_allocs_upd al ar a v x y : hrel al ar x y -> is_heap a x = false -> hrel (upd al a v) ar x y.
Proof.
  unfold hrel. destruct x as [c|], y as [[d o]|]; auto. intros (H1 & H2 & H3) Hh. repeat split; auto.
  destruct o as [|[|]|r]; auto. destruct H3 as (A & B & a' & E & F). repeat split; auto.
  exists a'. split; auto. rewrite nth_error_upd. simpl in Hh. rewrite E in Hh. rewrite Hh. exact F.
Qed.

Lemma hrel_arcs al ar ar' x y :
  (forall r z, nth_error ar r = Some z -> exists z', nth_error ar' r = Some z' /\ r_data z' = r_data z) ->
  hrel al ar x y -> hrel al ar' x y.
Proof.
  intros Hf. unfold hrel. destruct x as [c|], y as [[d o]|]; auto. intros (H1 & H2 & H3). repeat split; auto.
  destruct o as [|[|]|r]; auto. destruct H3 as (A & B & z & E & F). repeat split; auto.
  destruct (Hf _ _ E) as (z' & E' & F'). exists z'. split; auto. congruence.
Qed.

Lemma arcs_upd_frame ar r v z0 : nth_error ar r = Some z0 -> r_data v = r_data z0 ->
  forall r' z, nth_error ar r' = Some z -> exists z', nth_error (upd ar r v) r' = Some z' /\ r_data z' = r_data z.
Proof.
  intros E D r' z H. rewrite nth_error_upd. destruct (Nat.eqb_spec r r').
  - subst. assert (r' < length ar)%nat by (apply nth_error_Some; congruence).
    apply Nat.ltb_lt in H0. rewrite H0. exists v. split; auto. congruence.
  - exists z. auto.
Qed.

Lemma arcs_app_frame ar l : forall r z, nth_error ar r = Some z -> exists z', nth_error (ar ++ l) r = Some z' /\ r_data z' = r_data z.
Proof. intros r z H. exists z. split; auto. rewrite nth_error_app1; auto. apply nth_error_Some. congruence. Qed.

(* a handle related to something points inside the heap *)
Lemma owners_fresh al ar ms s a : R al ar ms s -> (length al <= a)%nat -> owners a ms = 0%nat.
Proof.
  intros HR Ha. apply countp_all_false with (d := None). intros i.
  pose proof (R_h _ _ _ _ HR i) as H. unfold hrel in H.
  destruct (nth i ms None) as [c|] eqn:E; auto. simpl.
  destruct (nth i (s_store s) None) as [[d o]|]; [|contradiction].
  destruct H as (_ & _ & H). destruct (c_ptr c) eqn:P; auto.
  destruct (Nat.eqb_spec a a0); auto. subst a0.
  destruct o as [|[|]|r].
  - destruct H as (_ & b' & o' & H & _); congruence.
  - destruct H as (_ & _ & a' & E1 & E2). inversion E1; subst.
    assert (a' < length al)%nat by (apply nth_error_Some; congruence). lia.
  - destruct H as (_ & H & _); congruence.
  - destruct H as (_ & H & _); congruence.
Qed.

Lemma holders_pos s i d r : nth i (s_store s) None = Some (d, OS r) -> 1 <= holders r (s_store s).
Proof.
  intros H. unfold holders. pose proof (nth_Some_lt _ _ _ H).
  assert (1 <= countp (is_shared r) (s_store s))%nat.
  { eapply countp_pos with (i := i) (d := None); auto. rewrite H. simpl. apply Nat.eqb_refl. }
  lia.
Qed.

(* reading through a related handle returns the specified content *)
Lemma read_rel m s i c d o : Rst m s -> nth i (store m) None = Some c -> nth i (s_store s) None = Some (d, o) ->
  read m c = inr d.
Proof.
  intros HR Ec Es. pose proof (R_h _ _ _ _ HR i) as H. rewrite Ec, Es in H. destruct H as (Hb & Hl & H).
  unfold read. destruct o as [|[|]|r].
  - destruct H as (_ & b' & o' & P & Hs). rewrite P, Hl, Hs. reflexivity.
  - destruct H as (_ & _ & a & P & E). rewrite P, E. simpl.
    rewrite Hl, N.leb_refl, take_all. reflexivity.
  - destruct H as (_ & P & E). subst d. rewrite P, Hl. reflexivity.
  - destruct H as (_ & P & x & E & D). rewrite P, E.
    assert (length (arcs m) = length (s_arcs s)) by apply (R_alen _ _ _ _ HR).
    destruct (nth_error (s_arcs s) r) as [y|] eqn:Ey.
    2:{ apply nth_error_None in Ey. assert (r < length (arcs m))%nat by (apply nth_error_Some; congruence). lia. }
    destruct (R_arc _ _ _ _ HR r x y E Ey) as (_ & _ & S & F & _).
    pose proof (holders_pos s i d r Es).
    rewrite F. destruct (N.eqb_spec (r_strong x) 0); [lia|].
    rewrite D, Hl, N.leb_refl, take_all. reflexivity.
Qed.
