(* C04 — counters: conservation of the sum modulo 2^64 under fetch_add, monotonicity and final
   maximum under fetch_max; both as invariants of every atomic step, hence of every schedule. *)
From Coq Require Import List NArith ZArith Bool Arith Lia.
Import ListNotations.
Require Import MV.Common.Interleave MV.C04.F64bits MV.C04.Model MV.C04.Spec MV.C04.Proofs.
Open Scope N_scope.

Definition is_inc (o : op) : bool := match o with CInc _ => true | _ => false end.
Definition is_abs (o : op) : bool := match o with CAbs _ => true | _ => false end.
Definition incv (o : op) : N := match o with CInc v => v | _ => 0 end.
Definition absv (o : op) : N := match o with CAbs v => v | _ => 0 end.

Definition sumv (l : list op) : N := fold_right (fun o a => incv o + a) 0 l.
Definition maxv (l : list op) : N := fold_right (fun o a => N.max (absv o) a) 0 l.

Fixpoint sumN {A} (f : A -> N) (ls : list A) : N :=
  match ls with [] => 0 | x :: r => f x + sumN f r end.
Fixpoint maxN {A} (f : A -> N) (ls : list A) : N :=
  match ls with [] => 0 | x :: r => N.max (f x) (maxN f r) end.

Lemma sumN_app {A} (f : A -> N) l1 l2 : sumN f (l1 ++ l2) = sumN f l1 + sumN f l2.
Proof. induction l1; cbn [sumN app]; lia. Qed.
Lemma maxN_app {A} (f : A -> N) l1 l2 : maxN f (l1 ++ l2) = N.max (maxN f l1) (maxN f l2).
Proof. induction l1; cbn [maxN app]; lia. Qed.

Lemma sumN_upd {A} (f : A -> N) ls t l l' :
  nth_error ls t = Some l -> sumN f (upd ls t l') + f l = sumN f ls + f l'.
Proof.
  intros H. destruct (upd_split ls t l l' H) as (l1 & l2 & E1 & E2 & _).
  rewrite E2, E1, !sumN_app. cbn [sumN]. lia.
Qed.
Lemma maxN_upd {A} (f : A -> N) ls t l l' v :
  nth_error ls t = Some l -> f l = N.max v (f l') -> N.max v (maxN f (upd ls t l')) = maxN f ls.
Proof.
  intros H E. destruct (upd_split ls t l l' H) as (l1 & l2 & E1 & E2 & _).
  rewrite E2, E1, !maxN_app. cbn [maxN]. lia.
Qed.
Lemma sumN_zero {A} (f : A -> N) ls : (forall x, In x ls -> f x = 0) -> sumN f ls = 0.
Proof. induction ls as [|x r IH]; intros H; cbn [sumN]; [reflexivity|]. rewrite (H x (or_introl eq_refl)), IH; [reflexivity|]. intros y Hy. apply H. right. exact Hy. Qed.
Lemma maxN_zero {A} (f : A -> N) ls : (forall x, In x ls -> f x = 0) -> maxN f ls = 0.
Proof. induction ls as [|x r IH]; intros H; cbn [maxN]; [reflexivity|]. rewrite (H x (or_introl eq_refl)), IH; [reflexivity|]. intros y Hy. apply H. right. exact Hy. Qed.

(* what a thread still has to do *)
Definition rest (l : local) : list op := cur l ++ todo l.
Definition pend (l : local) : N := sumv (rest l).
Definition pendmax (l : local) : N := maxv (rest l).

(* every remaining call of every thread satisfies P, and no thread is inside a CAS loop *)
Definition OnlyP (P : op -> bool) (c : cfg) : Prop :=
  Forall (fun x => cas x = None /\ forallb P (todo x) = true) (snd c).

Definition only (P : op -> bool) (ps : list (list op * list bool)) : Prop :=
  Forall (fun p => forallb P (fst p) = true) ps.

Definition total (ps : list (list op * list bool)) : N := sumN (fun p => sumv (fst p)) ps.
Definition allmax (ps : list (list op * list bool)) : N := maxN (fun p => maxv (fst p)) ps.

Lemma exec_app_fst {S L} (st : S -> L -> option (S * L)) sit s1 : forall c s2,
  fst (exec st sit c (s1 ++ s2)) = fst (exec st sit (fst (exec st sit c s1)) s2).
Proof.
  induction s1 as [|t r IH]; intros c s2; [reflexivity|].
  cbn [app exec]. destruct (step_thread st sit c t) as [c1 e].
  specialize (IH c1 s2). destruct (exec st sit c1 (r ++ s2)) as [c2 es].
  destruct (exec st sit c1 r) as [c3 es3]. cbn [fst] in *. exact IH.
Qed.

Section Counters.
  Variable F : FloatOps.

  Lemma OnlyP_init P i ps : only P ps -> OnlyP P (init_config i ps).
  Proof.
    unfold OnlyP, only, init_config. cbn [snd]. generalize 0. induction ps as [|p r IH]; intros m H; cbn [init_locals].
    - constructor.
    - inversion H; subst. constructor; [cbn; auto|apply IH; assumption].
  Qed.

  Lemma OnlyP_step P : (forall o, P o = true -> is_cas_op o = false) -> step_preserves (step F) (OnlyP P).
  Proof.
    intros HP s ls t l s' l' H Hn Hs. unfold OnlyP in *. cbn [snd] in *.
    destruct (Forall_nth_error _ ls t l H Hn) as [Ec Et].
    apply Forall_upd; [exact H|].
    unfold step in Hs. rewrite Ec in Hs. destruct (todo l) as [|o r] eqn:E; [discriminate|].
    cbn [forallb] in Et. apply andb_prop in Et. destruct Et as [Po Pr].
    rewrite (HP o Po) in Hs. inversion Hs; subst. cbn. auto.
  Qed.

  (* the only kind of step an OnlyP thread can take, when P excludes the CAS-loop operations *)
  Lemma OnlyP_step_shape P s ls t l s' l' :
    (forall o, P o = true -> is_cas_op o = false) ->
    OnlyP P (s, ls) -> nth_error ls t = Some l -> step F s l = Some (s', l') ->
    exists o r, P o = true /\ cas l = None /\ todo l = o :: r /\ cell s' = rmw o (cell s) /\
                cas l' = None /\ todo l' = r.
  Proof.
    intros HP H Hn Hs. unfold OnlyP in H. cbn [snd] in H.
    destruct (Forall_nth_error _ ls t l H Hn) as [Ec Et].
    unfold step in Hs. rewrite Ec in Hs. destruct (todo l) as [|o r] eqn:E; [discriminate|].
    cbn [forallb] in Et. apply andb_prop in Et. destruct Et as [Po Pr].
    rewrite (HP o Po) in Hs. inversion Hs; subst. exists o, r. cbn. repeat split; auto.
  Qed.

  Lemma inc_not_cas o : is_inc o = true -> is_cas_op o = false.
  Proof. destruct o; cbn; congruence. Qed.
  Lemma abs_not_cas o : is_abs o = true -> is_cas_op o = false.
  Proof. destruct o; cbn; congruence. Qed.

  (* ------------------------------------------------------------------ increments only *)
  Definition InvSum (i tot : N) (c : cfg) : Prop :=
    OnlyP is_inc c /\ cell (fst c) < two64 /\
    (cell (fst c) + sumN pend (snd c)) mod two64 = (i + tot) mod two64.

  Lemma two64_nz : two64 <> 0. Proof. discriminate. Qed.

  Lemma sumN_pend_init ps : forall m, sumN pend (init_locals m ps) = total ps.
  Proof. unfold total. induction ps as [|p r IH]; intros m; cbn [init_locals sumN]; [reflexivity|]. rewrite IH. reflexivity. Qed.

  Lemma InvSum_init i ps : i < two64 -> only is_inc ps -> InvSum i (total ps) (init_config i ps).
  Proof.
    intros Hi H. split; [apply OnlyP_init; exact H|]. unfold init_config. cbn [fst snd init_shared cell].
    split; [exact Hi|]. rewrite sumN_pend_init. reflexivity.
  Qed.

  Lemma InvSum_step i tot : step_preserves (step F) (InvSum i tot).
  Proof.
    intros s ls t l s' l' (HO & Hlt & Hsum) Hn Hs. cbn [fst snd] in *.
    destruct (OnlyP_step_shape is_inc s ls t l s' l' inc_not_cas HO Hn Hs) as (o & r & Po & Ec & Et & Ecell & Ec' & Et').
    split; [eapply (OnlyP_step is_inc inc_not_cas); eauto|]. cbn [fst snd].
    destruct o as [v| | | |]; try discriminate. cbn [rmw] in Ecell. unfold fetch_add in Ecell.
    rewrite Ecell. split; [apply N.mod_lt; exact two64_nz|].
    pose proof (sumN_upd pend ls t l l' Hn) as Hu.
    assert (Pl : pend l = v + pend l').
    { unfold pend, rest, cur. rewrite Ec, Et, Ec', Et'. reflexivity. }
    rewrite N.add_mod_idemp_l by exact two64_nz. rewrite <- Hsum. f_equal. lia.
  Qed.

  Theorem counter_sum i ps sched :
    i < two64 -> only is_inc ps ->
    let c := fst (exec (step F) site (init_config i ps) sched) in
    (cell (fst c) + sumN pend (snd c)) mod two64 = (i + total ps) mod two64 /\
    (all_done (step F) c = true -> cell (fst c) = (i + total ps) mod two64).
  Proof.
    intros Hi H c.
    assert (HI : InvSum i (total ps) c).
    { apply invariant_all_schedules; [apply InvSum_step|apply InvSum_init; assumption]. }
    destruct HI as (HO & Hlt & Hsum). split; [exact Hsum|]. intros Hd.
    rewrite sumN_zero in Hsum.
    - rewrite N.add_0_r, N.mod_small in Hsum by exact Hlt. exact Hsum.
    - intros x Hx. apply In_nth_error in Hx. destruct Hx as [u Hu].
      destruct (all_done_nth F c u x Hd Hu) as [E1 E2]. unfold pend, rest, cur. rewrite E1, E2. reflexivity.
  Qed.

  (* ------------------------------------------------------------------ absolutes only *)
  Definition InvMax (i mx : N) (c : cfg) : Prop :=
    OnlyP is_abs c /\ N.max (cell (fst c)) (maxN pendmax (snd c)) = N.max i mx.

  Lemma maxN_pend_init ps : forall m, maxN pendmax (init_locals m ps) = allmax ps.
  Proof. unfold allmax. induction ps as [|p r IH]; intros m; cbn [init_locals maxN]; [reflexivity|]. rewrite IH. reflexivity. Qed.

  Lemma InvMax_init i ps : only is_abs ps -> InvMax i (allmax ps) (init_config i ps).
  Proof.
    intros H. split; [apply OnlyP_init; exact H|]. unfold init_config. cbn [fst snd init_shared cell].
    rewrite maxN_pend_init. reflexivity.
  Qed.

  Lemma InvMax_step i mx : step_preserves (step F) (InvMax i mx).
  Proof.
    intros s ls t l s' l' (HO & Hmax) Hn Hs. cbn [fst snd] in *.
    destruct (OnlyP_step_shape is_abs s ls t l s' l' abs_not_cas HO Hn Hs) as (o & r & Po & Ec & Et & Ecell & Ec' & Et').
    split; [eapply (OnlyP_step is_abs abs_not_cas); eauto|]. cbn [fst snd].
    destruct o as [|v| | |]; try discriminate. cbn [rmw] in Ecell. unfold fetch_max in Ecell.
    assert (Pl : pendmax l = N.max v (pendmax l')).
    { unfold pendmax, rest, cur. rewrite Ec, Et, Ec', Et'. reflexivity. }
    pose proof (maxN_upd pendmax ls t l l' v Hn Pl) as Hu.
    rewrite Ecell, <- Hmax, <- Hu. lia.
  Qed.

  (* one step never lowers the cell *)
  Lemma abs_step_mono (c : cfg) t : OnlyP is_abs c -> cell (fst c) <= cell (fst (fst (step_thread (step F) site c t))).
  Proof.
    intros HO. destruct c as [s ls]. unfold step_thread. cbn [fst snd].
    destruct (nth_error ls t) as [l|] eqn:Hn; [|cbn; lia].
    destruct (step F s l) as [[s' l']|] eqn:Hs; [|cbn; lia]. cbn [fst].
    destruct (OnlyP_step_shape is_abs s ls t l s' l' abs_not_cas HO Hn Hs) as (o & r & Po & Ec & Et & Ecell & _).
    destruct o as [|v| | |]; try discriminate. cbn [rmw] in Ecell. unfold fetch_max in Ecell. lia.
  Qed.

  Lemma abs_exec_mono sched : forall (c : cfg), OnlyP is_abs c ->
    cell (fst c) <= cell (fst (fst (exec (step F) site c sched))).
  Proof.
    induction sched as [|t r IH]; intros c HO; [cbn; lia|].
    cbn [exec]. pose proof (abs_step_mono c t HO) as H1.
    pose proof (step_thread_inv (step F) site (OnlyP is_abs) (OnlyP_step is_abs abs_not_cas) c t HO) as H2.
    destruct (step_thread (step F) site c t) as [c1 e]. cbn [fst] in H1, H2.
    specialize (IH c1 H2). destruct (exec (step F) site c1 r) as [c2 es]. cbn [fst] in *. lia.
  Qed.

  Theorem absolute_monotone i ps :
    only is_abs ps ->
    (forall s1 s2,
       cell (fst (fst (exec (step F) site (init_config i ps) s1)))
       <= cell (fst (fst (exec (step F) site (init_config i ps) (s1 ++ s2))))) /\
    (forall sched, let c := fst (exec (step F) site (init_config i ps) sched) in
       i <= cell (fst c) /\
       N.max (cell (fst c)) (maxN pendmax (snd c)) = N.max i (allmax ps) /\
       (all_done (step F) c = true -> cell (fst c) = N.max i (allmax ps))).
  Proof.
    intros H. split.
    - intros s1 s2. rewrite exec_app_fst. apply abs_exec_mono.
      apply invariant_all_schedules; [apply (OnlyP_step is_abs abs_not_cas)|apply OnlyP_init; exact H].
    - intros sched c.
      assert (HI : InvMax i (allmax ps) c).
      { apply invariant_all_schedules; [apply InvMax_step|apply InvMax_init; assumption]. }
      destruct HI as (HO & Hmax). split; [|split; [exact Hmax|]].
      + apply (abs_exec_mono sched (init_config i ps)). apply OnlyP_init. exact H.
      + intros Hd. rewrite maxN_zero in Hmax; [lia|].
        intros x Hx. apply In_nth_error in Hx. destruct Hx as [u Hu].
        destruct (all_done_nth F c u x Hd Hu) as [E1 E2]. unfold pendmax, rest, cur. rewrite E1, E2. reflexivity.
  Qed.

  (* in any mix of operations, a single absolute(v) leaves the cell >= its old value and >= v *)
  Lemma absolute_step_any v c : c <= rmw (CAbs v) c /\ v <= rmw (CAbs v) c.
  Proof. cbn. unfold fetch_max. lia. Qed.
End Counters.
