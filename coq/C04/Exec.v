(* C04 — executable entry points used by the correspondence check (cases.v).
   The f64 arithmetic is instantiated with Coq's primitive floats (evaluated natively by
   vm_compute); every NaN result is the canonical quiet NaN (F64bits.canon).                  *)
From Coq Require Import List NArith ZArith Bool Floats.
Import ListNotations.
Require Export MV.C04.F64bits MV.C04.Model MV.C04.Spec.
Open Scope N_scope.

Definition prim_ops : FloatOps :=
  {| fadd := fun a b => f2bits (PrimFloat.add (bits2f a) (bits2f b));
     fsub := fun a b => f2bits (PrimFloat.sub (bits2f a) (bits2f b)) |}.

(* a case: initial bit pattern of the AtomicU64 and a sequence of calls *)
Definition case := (N * list sop)%type.
Definition OUT := list obs.

(* generic in the float arithmetic (theorems are stated for every F) ... *)
Definition grun_case (F : FloatOps) (c : case) : OUT := srun F (fst c) (snd c).
Definition gspec_ok (F : FloatOps) (c : case) (o : OUT) : bool := spec_run F (fst c) (snd c) o.

(* ... and instantiated with the native floats for evaluation *)
Definition run_case (c : case) : OUT := grun_case prim_ops c.

Fixpoint evs_eqb (a b : list (hev * N)) : bool :=
  match a, b with
  | [], [] => true
  | (e, k) :: r, (e', k') :: r' => hev_eqb e e' && (k =? k') && evs_eqb r r'
  | _, _ => false
  end.

(* model output vs implementation output: bit-exact, except that two NaN patterns are the same
   observation (Coq's floats have one NaN; the model keeps the canonical one in its cell) *)
Definition obs_eqb (a b : obs) : bool :=
  match a, b with
  | OCell x, OCell y | OVal x, OVal y => same_f64 x y
  | OHist x, OHist y => evs_eqb x y
  | OPanic, OPanic => true
  | _, _ => false
  end.
Fixpoint out_eqb (a b : OUT) : bool :=
  match a, b with
  | [], [] => true
  | x :: r, y :: r' => obs_eqb x y && out_eqb r r'
  | _, _ => false
  end.

(* counter cells never go through float arithmetic: there the comparison must be bit-exact *)
Definition is_counter_case (c : case) : bool :=
  forallb (fun s => match s with SCounter _ _ _ => true | _ => false end) (snd c).
Fixpoint out_eqb_exact (a b : OUT) : bool :=
  match a, b with
  | [], [] => true
  | OCell x :: r, OCell y :: r' => (x =? y) && out_eqb_exact r r'
  | _, _ => false
  end.
Definition agree (c : case) (o : OUT) : bool :=
  if is_counter_case c then out_eqb_exact (run_case c) o else out_eqb (run_case c) o.

(* the property in executable form, on an observed output *)
Definition spec_ok (c : case) (o : OUT) : bool := gspec_ok prim_ops c o.
Definition known_class (c : case) : option N := None.

Definition verdicts (l : list (N * case * OUT)) : list (N * bool * bool * option N) :=
  map (fun '(i, c, o) => (i, agree c o, spec_ok c o, known_class c)) l.
