(* C04 — the sequential handle layer: the model satisfies the per-call specification for every
   case and every FloatOps instance; record / record_many deliveries; no-op handles; totality. *)
From Coq Require Import List NArith ZArith Bool Arith Lia.
Import ListNotations.
Require Import MV.Common.Interleave MV.C04.F64bits MV.C04.Model MV.C04.Spec MV.C04.Exec.
Open Scope N_scope.

(* deliveries as a list of values *)
Definition expand1 (e : hev) : list N :=
  match e with ERec v => [v] | EMany v n => repeat v (N.to_nat n) end.
Definition expand (l : list hev) : list N := flat_map expand1 l.

Definition cnt1 (e : hev) : N := match e with ERec _ => 1 | EMany _ n => n end.
Definition val1 (e : hev) : N := match e with ERec v => v | EMany v _ => v end.
Definition totalc (l : list hev) : N := fold_right (fun e a => cnt1 e + a) 0 l.

Lemma hev_eqb_eq a b : hev_eqb a b = true -> a = b.
Proof.
  destruct a, b; cbn; try discriminate.
  - intros H. apply N.eqb_eq in H. congruence.
  - intros H. apply andb_prop in H. destruct H as [H1 H2]. apply N.eqb_eq in H1, H2. congruence.
Qed.

Lemma delivered_cons e k t : delivered ((e, k) :: t) = cnt1 e * k + delivered t.
Proof. unfold delivered. cbn [fold_right]. destruct e; cbn [deliveries1 fst snd cnt1]; lia. Qed.

Lemma delivered_rle l : delivered (rle l) = totalc l.
Proof.
  induction l as [|e r IH]; [reflexivity|]. cbn [rle totalc fold_right]. fold (totalc r). rewrite <- IH.
  destruct (rle r) as [|[e' k] t] eqn:E.
  - rewrite delivered_cons. unfold delivered. cbn [fold_right]. lia.
  - destruct (hev_eqb e e') eqn:Eq.
    + apply hev_eqb_eq in Eq. subst e'. rewrite !delivered_cons. lia.
    + rewrite !delivered_cons. lia.
Qed.

Lemma all_value_cons v e k t : val1 e = v -> all_value v ((e, k) :: t) = all_value v t.
Proof.
  intros H. unfold all_value. cbn [forallb].
  assert (E : fst (deliveries1 (e, k)) = v) by (destruct e; cbn [deliveries1 fst snd val1] in *; exact H).
  rewrite E, N.eqb_refl, orb_true_r. reflexivity.
Qed.

Lemma all_value_rle v l : (forall e, In e l -> val1 e = v) -> all_value v (rle l) = true.
Proof.
  induction l as [|e r IH]; intros H; [reflexivity|]. cbn [rle].
  assert (He : val1 e = v) by (apply H; left; reflexivity).
  assert (Hr : all_value v (rle r) = true) by (apply IH; intros y Hy; apply H; right; exact Hy).
  destruct (rle r) as [|[e' k] t] eqn:E.
  - rewrite all_value_cons by exact He. reflexivity.
  - destruct (hev_eqb e e') eqn:Eq.
    + apply hev_eqb_eq in Eq. subst e'. rewrite all_value_cons in * by exact He. exact Hr.
    + rewrite all_value_cons by exact He. exact Hr.
Qed.

(* the default record_many loop *)
Lemma drm_succ record v n :
  default_record_many record v (N.succ n) = record v ++ default_record_many record v n.
Proof. unfold default_record_many. rewrite N.iter_succ. reflexivity. Qed.

Lemma drm_expand v n : expand (default_record_many (fun x => [ERec x]) v n) = repeat v (N.to_nat n).
Proof.
  induction n as [|n IH] using N.peano_ind; [reflexivity|].
  rewrite drm_succ, N2Nat.inj_succ. cbn [app expand flat_map expand1 repeat]. unfold expand in IH. rewrite IH. reflexivity.
Qed.
Lemma drm_total v n : totalc (default_record_many (fun x => [ERec x]) v n) = n.
Proof.
  induction n as [|n IH] using N.peano_ind; [reflexivity|].
  rewrite drm_succ. cbn [app totalc fold_right cnt1]. fold (totalc (default_record_many (fun x => [ERec x]) v n)). rewrite IH. lia.
Qed.
Lemma drm_vals v n e : In e (default_record_many (fun x => [ERec x]) v n) -> val1 e = v.
Proof.
  induction n as [|n IH] using N.peano_ind; [intros []|].
  rewrite drm_succ. cbn [app]. intros [<-|H]; [reflexivity|auto].
Qed.

Theorem record_many_exact d r v n :
  has_storage r = true ->
  expand (hist_record_many d r v n) = repeat v (N.to_nat n) /\
  expand (hist_record d r v) = [v].
Proof.
  intros H. split.
  - destruct r; try discriminate; destruct d; cbn [hist_record_many dbl_record_many arc_record_many];
      unfold arc_record, dbl_record; try apply drm_expand; cbn; rewrite app_nil_r; reflexivity.
  - destruct r; try discriminate; reflexivity.
Qed.

Lemma hist_many_total d r v n : totalc (hist_record_many d r v n) = if has_storage r then n else 0.
Proof.
  destruct r, d; cbn [hist_record_many dbl_record_many arc_record_many has_storage];
    unfold arc_record, dbl_record; try apply drm_total; cbn; lia.
Qed.
Lemma hist_many_vals d r v n e : In e (hist_record_many d r v n) -> val1 e = v.
Proof.
  destruct r, d; cbn [hist_record_many dbl_record_many arc_record_many];
    unfold arc_record, dbl_record; try apply drm_vals; cbn [In]; intros H; decompose [or] H; try contradiction; subst; reflexivity.
Qed.
Lemma hist_rec_total d r v : totalc (hist_record d r v) = if has_storage r then 1 else 0.
Proof. destruct r; reflexivity. Qed.
Lemma hist_rec_vals d r v e : In e (hist_record d r v) -> val1 e = v.
Proof. destruct r; cbn [hist_record arc_record dbl_record In]; intros H; decompose [or] H; try contradiction; subst; reflexivity. Qed.

Section SeqProofs.
  Variable F : FloatOps.

  Lemma same_refl x : same_f64 x x = true.
  Proof. apply N.eqb_refl. Qed.

  Lemma sstep_ok p s : obs_ok F p s (snd (sstep F p s)) = true /\ next_prev p (snd (sstep F p s)) = fst (sstep F p s).
  Proof.
    destruct s as [r abs v|r k a|k a|d r a|d r a n]; cbn [sstep].
    - destruct r; cbn; destruct abs; cbn; rewrite ?N.eqb_refl; auto.
    - destruct r; cbn; destruct k; cbn; rewrite ?N.eqb_refl, ?same_refl; auto.
    - cbn. destruct k; cbn; rewrite ?N.eqb_refl, ?same_refl; auto.
    - cbn [snd fst obs_ok next_prev]. split; [|reflexivity].
      rewrite delivered_rle, hist_rec_total, N.eqb_refl. cbn [andb].
      apply all_value_rle. apply hist_rec_vals.
    - cbn [snd fst obs_ok next_prev]. split; [|reflexivity].
      rewrite delivered_rle, hist_many_total, N.eqb_refl. cbn [andb].
      apply all_value_rle. apply hist_many_vals.
  Qed.

  Theorem spec_run_on_model l : forall p, spec_run F p l (srun F p l) = true.
  Proof.
    induction l as [|s r IH]; intros p; [reflexivity|].
    cbn [srun]. destruct (sstep_ok p s) as [H1 H2]. destruct (sstep F p s) as [c o]. cbn [fst snd] in *.
    cbn [spec_run]. rewrite H1, H2. apply IH.
  Qed.

  Theorem spec_run_iff l : forall p os, spec_run F p l os = true <-> SpecRun F p l os.
  Proof.
    induction l as [|s r IH]; intros p os; destruct os as [|o r']; cbn [spec_run]; split; intros H;
      try discriminate; try constructor; try (inversion H; fail).
    - apply andb_prop in H. tauto.
    - apply IH. apply andb_prop in H. tauto.
    - inversion H; subst. apply andb_true_intro. split; [assumption|apply IH; assumption].
  Qed.

  (* what one accepted observation means *)
  Theorem obs_ok_counter p r abs v q :
    obs_ok F p (SCounter r abs v) (OCell q) = true ->
    q = match inner r with
        | None => p
        | Some _ => if abs then N.max p v else (p + v) mod two64
        end.
  Proof. destruct r, abs; cbn; intros H; apply N.eqb_eq in H; exact H. Qed.

  Theorem obs_ok_gauge_set p r a q :
    obs_ok F p (SGauge r KSet a) (OCell q) = true ->
    q = match inner r with None => p | Some _ => into_f64 a end.
  Proof. destruct r; cbn; intros H; apply N.eqb_eq in H; exact H. Qed.

  Theorem obs_ok_gauge_arith p r k a q :
    k <> KSet -> obs_ok F p (SGauge r k a) (OCell q) = true ->
    match inner r with
    | None => q = p
    | Some _ => canon q = canon (apply_op F (gop k (into_f64 a)) p)
    end.
  Proof. destruct r, k; cbn; intros Hk H; try congruence; apply N.eqb_eq in H; exact H. Qed.

  Theorem obs_ok_hist p d r a n evs :
    obs_ok F p (SRecordMany d r a n) (OHist evs) = true ->
    delivered evs = (if has_storage r then n else 0) /\ all_value (into_f64 a) evs = true.
  Proof. cbn. intros H. apply andb_prop in H. destruct H as [H1 H2]. apply N.eqb_eq in H1. auto. Qed.

  (* no-op handles *)
  Theorem noop_inert_seq p s :
    match s with
    | SCounter RNoop _ _ | SGauge RNoop _ _ => sstep F p s = (p, OCell p)
    | SRecord _ RNoop _ | SRecordMany _ RNoop _ _ => sstep F p s = (p, OHist [])
    | _ => True
    end.
  Proof. destruct s as [r abs v|r k a|k a|d r a|d r a n]; try destruct r; try exact I; reflexivity. Qed.

  Theorem total_seq l : forall p, ~ In OPanic (srun F p l) /\ ~ In OHang (srun F p l) /\ length (srun F p l) = length l.
  Proof.
    induction l as [|s r IH]; intros p; [cbn; auto|].
    cbn [srun]. destruct (sstep F p s) as [c o] eqn:E. destruct (IH c) as (H1 & H2 & H3).
    assert (Ho : o <> OPanic /\ o <> OHang).
    { destruct s as [r0 abs v|r0 k a|k a|d r0 a|d r0 a n]; cbn in E; try destruct (inner r0); inversion E; split; discriminate. }
    destruct Ho as [Ho1 Ho2]. split; [|split].
    - cbn [In]. intros [H|H]; [exact (Ho1 H)|exact (H1 H)].
    - cbn [In]. intros [H|H]; [exact (Ho2 H)|exact (H2 H)].
    - cbn [length]. rewrite H3. reflexivity.
  Qed.
End SeqProofs.

Theorem noop_inert_lower p1 o p2 : lower (p1 ++ (RNoop, o) :: p2) = lower (p1 ++ p2).
Proof. unfold lower. rewrite !flat_map_app. reflexivity. Qed.

Lemma lower_all_storage p : (forall ro, In ro p -> has_storage (fst ro) = true) -> lower p = map snd p.
Proof.
  induction p as [|[r o] t IH]; intros H; [reflexivity|]. unfold lower in *. cbn [flat_map map].
  rewrite IH by (intros ro Hro; apply H; right; exact Hro).
  specialize (H (r, o) (or_introl eq_refl)). destruct r; try discriminate; reflexivity.
Qed.

Theorem spec_ok_on_model F c : gspec_ok F c (grun_case F c) = true.
Proof. unfold gspec_ok, grun_case. exact (spec_run_on_model F (snd c) (fst c)). Qed.

Theorem spec_ok_iff F c o : gspec_ok F c o = true <-> SpecRun F (fst c) (snd c) o.
Proof. unfold gspec_ok. exact (spec_run_iff F (snd c) (fst c) o). Qed.

(* the hypotheses are satisfiable / the definitions compute: a wrap-around, an absolute, gauge
   arithmetic through every route, a NaN, a record_many through a handle on both doubles *)
Example example_case :
  run_case (18446744073709551615,
            [SCounter RHandle false 2; SCounter RNoop false 5; SCounter RClone true 7;
             SGauge RFrom KSet (AInt (-1)); SGauge RArc KInc (AF64 4607182418800017408);
             SGauge RTrait KDec (AF64 9218868437227405312); SGauge RHandle KInc (AF64 9218868437227405312);
             SRecordMany D1 RHandle (AInt 3) 4; SRecordMany D2 RHandle (AInt 3) 4; SRecordMany D2 RArcArc (AInt 3) 4])
  = [OCell 1; OCell 1; OCell 7; OCell 13830554455654793216; OCell 0; OCell 18442240474082181120;
     OCell 9221120237041090560;
     OHist [(ERec 4613937818241073152, 4)]; OHist [(EMany 4613937818241073152 4, 1)]; OHist [(ERec 4613937818241073152, 4)]].
Proof. vm_compute. reflexivity. Qed.

(* the concurrent machine computes: two threads increment a gauge (1.0 and 2.0) from 0.5; the
   schedule makes both load 0.5, thread 1 wins its CAS, thread 0's CAS fails (it receives 2.5),
   suffers one spurious failure, then succeeds: final 3.5, two log entries, neither update lost *)
Example example_cas_race :
  let c := fst (exec (step prim_ops) site
                  (init_config 4602678819172646912
                     [([GInc 4607182418800017408], [false; true]); ([GInc 4611686018427387904], [])])
                  [0; 1; 1; 0; 0; 0; 0]%nat) in
  cell (fst c) = 4615063718147915776 /\
  map (fun e => (w_tid e, w_before e, w_after e)) (rev (wlog (fst c)))
  = [(1, 4602678819172646912, 4612811918334230528); (0, 4612811918334230528, 4615063718147915776)] /\
  all_done (step prim_ops) c = true.
Proof. vm_compute. repeat split; reflexivity. Qed.

(* wrap-around and absolute under three threads *)
Example example_counter_wrap :
  let c := fst (exec (step prim_ops) site
                  (init_config 18446744073709551615 [([CInc 2; CInc 3], []); ([CInc 18446744073709551615], []); ([CAbs 1], [])])
                  [2; 0; 1; 0; 2]%nat) in
  cell (fst c) = 3 /\ all_done (step prim_ops) c = true.
Proof. vm_compute. split; reflexivity. Qed.
