(* C04 — model of metrics/src/atomics.rs (CounterFn / GaugeFn for AtomicU64), handles.rs
   (Counter / Gauge / Histogram over Option<Arc<dyn Fn>>, default record_many, the Arc<T>
   forwarding impls) and common.rs (IntoF64 for the integer types, GaugeValue::update_value).

   Part 1: the atomic read-modify-write functions, generic over the f64 arithmetic [FloatOps]
           (bit patterns in, bit patterns out; no algebraic law is assumed anywhere).
   Part 2: the interleaving machine — one [step] per atomic access of the AtomicU64 cell:
             401 fetch_add   402 fetch_max   403 swap   404 load (fetch_update)   405 CAS
           std's fetch_update(set, fetch, f) is
               let mut prev = self.load(fetch);
               while let Some(next) = f(prev) {
                 match self.compare_exchange_weak(prev, next, set, fetch) {
                   Ok(x) => return Ok(x), Err(next_prev) => prev = next_prev } }
               Err(prev)
           The closure in atomics.rs always returns Some, so fetch_update never returns Err and
           the outer `loop` of atomics.rs runs exactly once.  compare_exchange_weak may fail
           spuriously: each thread carries an arbitrary script [oracle] of spurious failures
           (theorems quantify over all scripts).  A failed CAS hands back the current value (it
           IS the next load); "failure -> go back to a separate load" is the special case of a
           spurious failure at the instant of that later load.
           Ghost state (never read by control flow): [wlog], one entry per successful write.
   Part 3: the sequential handle layer used by the correspondence check.                      *)
From Coq Require Import List NArith ZArith Bool.
Import ListNotations.
Require Import MV.Common.Interleave MV.C04.F64bits.
Open Scope N_scope.

Definition two64 : N := 18446744073709551616.

(* f64 `+` and `-` on bit patterns *)
Record FloatOps := { fadd : N -> N -> N; fsub : N -> N -> N }.

(* ---------------------------------------------------------------- Part 1: atomics.rs *)
Definition fetch_add (cur v : N) : N := (cur + v) mod two64.       (* wrapping *)
Definition fetch_max (cur v : N) : N := N.max cur v.
Definition swap (cur v : N) : N := v.

(* an operation on the cell (the trait methods of CounterFn / GaugeFn on AtomicU64) *)
Inductive op :=
| CInc (v : N)      (* CounterFn::increment(v) *)
| CAbs (v : N)      (* CounterFn::absolute(v) *)
| GInc (x : N)      (* GaugeFn::increment(f64::from_bits(x)) *)
| GDec (x : N)      (* GaugeFn::decrement(f64::from_bits(x)) *)
| GSet (x : N).     (* GaugeFn::set(f64::from_bits(x)) *)

Definition is_cas_op (o : op) : bool := match o with GInc _ | GDec _ => true | _ => false end.

Section Machine.
  Variable F : FloatOps.

  (* the closure passed to fetch_update: |curr| Some((from_bits(curr) +/- value).to_bits()) *)
  Definition closure (o : op) (curr : N) : N :=
    match o with
    | GInc x => fadd F curr x
    | GDec x => fsub F curr x
    | _ => curr
    end.

  (* the single read-modify-write instruction of the non-loop operations *)
  Definition rmw (o : op) (cur : N) : N :=
    match o with
    | CInc v => fetch_add cur v
    | CAbs v => fetch_max cur v
    | GSet x => swap cur x
    | _ => cur
    end.

  (* ------------------------------------------------------------ Part 2: the machine *)
  Record wev := { w_tid : N; w_op : op; w_before : N; w_after : N }.
  Record shared := { cell : N; wlog : list wev (* newest first; ghost *) }.
  Record local := {
    me : N;
    todo : list op;                 (* calls still to make *)
    cas : option (op * N);          (* inside fetch_update: the operation and [prev] *)
    oracle : list bool;             (* script of spurious compare_exchange_weak failures *)
    done : list op                  (* completed calls, newest first; ghost *)
  }.

  Definition step (s : shared) (l : local) : option (shared * local) :=
    match cas l with
    | Some (o, prev) =>
        (* 405: compare_exchange_weak(prev, next) with next = closure(prev) *)
        let next := closure o prev in
        if (cell s =? prev) && negb (hd false (oracle l))
        then Some ({| cell := next;
                      wlog := {| w_tid := me l; w_op := o; w_before := cell s; w_after := next |} :: wlog s |},
                   {| me := me l; todo := todo l; cas := None; oracle := tl (oracle l); done := o :: done l |})
        else Some (s, {| me := me l; todo := todo l; cas := Some (o, cell s); oracle := tl (oracle l);
                         done := done l |})
    | None =>
        match todo l with
        | [] => None
        | o :: rest =>
            if is_cas_op o
            then (* 404: prev = self.load() *)
                 Some (s, {| me := me l; todo := rest; cas := Some (o, cell s); oracle := oracle l; done := done l |})
            else (* 401/402/403: one atomic instruction *)
                 let next := rmw o (cell s) in
                 Some ({| cell := next;
                          wlog := {| w_tid := me l; w_op := o; w_before := cell s; w_after := next |} :: wlog s |},
                       {| me := me l; todo := rest; cas := None; oracle := oracle l; done := o :: done l |})
        end
    end.

  Definition site (l : local) : N :=
    match cas l with
    | Some _ => 405
    | None => match todo l with
              | [] => 0
              | CInc _ :: _ => 401 | CAbs _ :: _ => 402 | GSet _ :: _ => 403 | _ :: _ => 404
              end
    end.

  Definition init_shared (i : N) : shared := {| cell := i; wlog := [] |}.
  Definition init_local (m : N) (p : list op * list bool) : local :=
    {| me := m; todo := fst p; cas := None; oracle := snd p; done := [] |}.
  Fixpoint init_locals (m : N) (ps : list (list op * list bool)) : list local :=
    match ps with [] => [] | p :: r => init_local m p :: init_locals (m + 1) r end.
  (* threads: (program, spurious-failure script) *)
  Definition init_config (i : N) (ps : list (list op * list bool)) : @config shared local :=
    (init_shared i, init_locals 0 ps).
End Machine.

(* ------------------------------------------------- Part 3: handles.rs / common.rs, sequential *)
(* how the call reaches the storage *)
Inductive route :=
| RTrait      (* the trait method on the storage itself: CounterFn::increment(&*cell, v) *)
| RArc        (* the trait method on Arc<T> (impl<T> XFn for Arc<T>) *)
| RHandle     (* Counter/Gauge/Histogram::from_arc(arc) *)
| RClone      (* a clone of that handle *)
| RFrom       (* handle built with From<Arc<T>> *)
| RArcArc     (* X::from_arc(Arc::new(arc.clone())): the dyn object is Arc<T>, forwarding impl *)
| RNoop.      (* X::noop() *)

(* Option<Arc<dyn Fn>>: does the handle hold a storage? *)
Definition inner (r : route) : option unit := match r with RNoop => None | _ => Some tt end.

(* a thread's calls on handles (each with its route) become machine calls: a call through a
   handle without storage performs no access at all *)
Definition lower (p : list (route * op)) : list op :=
  flat_map (fun ro => match inner (fst ro) with Some _ => [snd ro] | None => [] end) p.

(* a value passed to a generic handle method (T: IntoF64) *)
Inductive arg :=
| AF64 (bits : N)              (* f64: identity *)
| AInt (z : Z).                (* i8 u8 i16 u16 i32 u32: f64::from(z), exact *)

Definition into_f64 (a : arg) : N :=
  match a with AF64 b => b | AInt z => bits_of_int z end.

Inductive gkind := KInc | KDec | KSet.

(* histogram doubles: D1 implements only `record` (record_many = the trait's default);
   D2 also overrides `record_many` and logs the call as one event *)
Inductive dbl := D1 | D2.
Inductive hev := ERec (v : N) | EMany (v : N) (n : N).

Inductive sop :=
| SCounter (r : route) (abs : bool) (v : N)
| SGauge (r : route) (k : gkind) (a : arg)
| SUpdate (k : gkind) (a : arg)                 (* GaugeValue::X(a).update_value(current) — pure *)
| SRecord (d : dbl) (r : route) (a : arg)
| SRecordMany (d : dbl) (r : route) (a : arg) (n : N).

Inductive obs :=
| OCell (b : N)                 (* the cell after the call *)
| OVal (b : N)                  (* value returned by update_value *)
| OHist (evs : list (hev * N))  (* events the double logged during the call, run-length encoded *)
| OPanic                       (* the call panicked *)
| OHang.                       (* the call did not return (driver watchdog) *)

Section Seq.
  Variable F : FloatOps.

  Definition gop (k : gkind) (x : N) : op :=
    match k with KInc => GInc x | KDec => GDec x | KSet => GSet x end.

  (* one uncontended call on the cell: the machine's steps for a single thread
     (401/402/403, or 404 followed by a successful 405) *)
  Definition call (o : op) (cur : N) : N :=
    if is_cas_op o then closure F o cur else rmw o cur.

  Definition update_value (k : gkind) (x input : N) : N :=
    match k with KSet => x | KInc => fadd F input x | KDec => fsub F input x end.

  (* HistogramFn::record_many default: for _ in 0..count { self.record(value) } *)
  Definition default_record_many (record : N -> list hev) (v n : N) : list hev :=
    N.iter n (fun acc => record v ++ acc) [].

  Definition dbl_record (d : dbl) (v : N) : list hev := [ERec v].
  Definition dbl_record_many (d : dbl) (v n : N) : list hev :=
    match d with D1 => default_record_many (dbl_record D1) v n | D2 => [EMany v n] end.
  (* impl<T: HistogramFn> HistogramFn for Arc<T> forwards `record` only *)
  Definition arc_record (d : dbl) (v : N) : list hev := dbl_record d v.
  Definition arc_record_many (d : dbl) (v n : N) : list hev := default_record_many (arc_record d) v n.

  Definition hist_record (d : dbl) (r : route) (v : N) : list hev :=
    match r with
    | RNoop => []
    | RArc | RArcArc => arc_record d v
    | _ => dbl_record d v
    end.
  Definition hist_record_many (d : dbl) (r : route) (v n : N) : list hev :=
    match r with
    | RNoop => []
    | RArc | RArcArc => arc_record_many d v n
    | _ => dbl_record_many d v n
    end.

  Definition hev_eqb (a b : hev) : bool :=
    match a, b with
    | ERec v, ERec v' => v =? v'
    | EMany v n, EMany v' n' => (v =? v') && (n =? n')
    | _, _ => false
    end.
  (* run-length encoding of adjacent equal events (what the driver prints) *)
  Fixpoint rle (l : list hev) : list (hev * N) :=
    match l with
    | [] => []
    | e :: r => match rle r with
                | (e', k) :: t => if hev_eqb e e' then (e', k + 1) :: t else (e, 1) :: (e', k) :: t
                | [] => [(e, 1)]
                end
    end.

  Definition sstep (cur : N) (s : sop) : N * obs :=
    match s with
    | SCounter r abs v =>
        match inner r with
        | Some _ => let c := call (if abs then CAbs v else CInc v) cur in (c, OCell c)
        | None => (cur, OCell cur)
        end
    | SGauge r k a =>
        match inner r with
        | Some _ => let c := call (gop k (into_f64 a)) cur in (c, OCell c)
        | None => (cur, OCell cur)
        end
    | SUpdate k a => (cur, OVal (update_value k (into_f64 a) cur))
    | SRecord d r a => (cur, OHist (rle (hist_record d r (into_f64 a))))
    | SRecordMany d r a n => (cur, OHist (rle (hist_record_many d r (into_f64 a) n)))
    end.

  Fixpoint srun (cur : N) (l : list sop) : list obs :=
    match l with
    | [] => []
    | s :: r => let '(c, o) := sstep cur s in o :: srun c r
    end.
End Seq.
