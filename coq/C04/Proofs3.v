(* C04 — every call returns: a thread that is left alone finishes its whole program (every
   fetch_update loop included) within a number of its own steps bounded by an explicit measure,
   for every finite script of spurious compare_exchange_weak failures.  (Under unbounded
   interference the CAS loop is lock-free, not wait-free: some OTHER call succeeds each time this
   one fails — that is the linearisation invariant of Proofs.v, not a termination claim.)        *)
From Coq Require Import List NArith ZArith Bool Arith Lia.
Import ListNotations.
Require Import MV.Common.Interleave MV.C04.F64bits MV.C04.Model MV.C04.Spec MV.C04.Proofs.
Open Scope N_scope.

Section Solo.
  Variable F : FloatOps.

  (* n steps of one thread with nobody else running *)
  Fixpoint solo (n : nat) (s : shared) (l : local) : shared * local :=
    match n with
    | O => (s, l)
    | S n' => match step F s l with None => (s, l) | Some (s', l') => solo n' s' l' end
    end.

  Definition casw (s : shared) (l : local) : nat :=
    match cas l with None => 0%nat | Some (_, prev) => if N.eqb (cell s) prev then 1%nat else 2%nat end.
  Definition measure (s : shared) (l : local) : nat :=
    (2 * length (todo l) + length (oracle l) + casw s l)%nat.

  Lemma tl_length {A} (x : list A) : (length (tl x) <= length x)%nat.
  Proof. destruct x; cbn; lia. Qed.

  Lemma step_decreases s l s' l' : step F s l = Some (s', l') -> (measure s' l' < measure s l)%nat.
  Proof.
    unfold step, measure, casw. destruct (cas l) as [[o prev]|] eqn:Ec.
    - destruct (cell s =? prev) eqn:Eq; cbn [andb].
      + destruct (oracle l) as [|b orc] eqn:Eo; cbn [hd tl negb].
        * intros H. inversion H; subst. cbn. lia.
        * destruct b; cbn [negb]; intros H; inversion H; subst; cbn [todo oracle cas cell length].
          -- rewrite N.eqb_refl. lia.
          -- lia.
      + intros H. inversion H; subst. cbn [todo oracle cas cell]. rewrite N.eqb_refl.
        pose proof (tl_length (oracle l)). lia.
    - destruct (todo l) as [|o rest] eqn:Et; [discriminate|].
      destruct (is_cas_op o); intros H; inversion H; subst; cbn [todo oracle cas cell length].
      + rewrite N.eqb_refl. lia.
      + lia.
  Qed.

  Lemma solo_finishes n : forall s l, (measure s l <= n)%nat ->
    step F (fst (solo n s l)) (snd (solo n s l)) = None.
  Proof.
    induction n as [|n IH]; intros s l Hm; cbn [solo].
    - destruct (step F s l) as [[s' l']|] eqn:E; [|exact E].
      pose proof (step_decreases _ _ _ _ E). lia.
    - destruct (step F s l) as [[s' l']|] eqn:E; [|exact E].
      apply IH. pose proof (step_decreases _ _ _ _ E). lia.
  Qed.

  (* the program order bookkeeping of one thread's own steps *)
  Lemma step_prog s l s' l' : step F s l = Some (s', l') -> prog_of l' = prog_of l.
  Proof.
    unfold step, prog_of, cur. destruct (cas l) as [[o prev]|] eqn:Ec.
    - destruct ((cell s =? prev) && negb (hd false (oracle l))); intros H; inversion H; subst; cbn [done cas todo].
      + cbn [rev]. rewrite <- app_assoc. reflexivity.
      + reflexivity.
    - destruct (todo l) as [|o rest] eqn:Et; [discriminate|].
      destruct (is_cas_op o); intros H; inversion H; subst; cbn [done cas todo].
      + reflexivity.
      + cbn [rev app]. rewrite <- app_assoc. reflexivity.
  Qed.

  Lemma solo_prog n : forall s l, prog_of (snd (solo n s l)) = prog_of l.
  Proof.
    induction n as [|n IH]; intros s l; cbn [solo]; [reflexivity|].
    destruct (step F s l) as [[s' l']|] eqn:E; [|reflexivity].
    rewrite IH. eapply step_prog; eauto.
  Qed.

  (* every call of the thread returns: after [measure] solo steps nothing is pending and the
     completed calls are exactly the calls that were in progress or still to make, in order *)
  Theorem solo_terminates s l :
    let r := solo (measure s l) s l in
    step F (fst r) (snd r) = None /\
    cas (snd r) = None /\ todo (snd r) = [] /\
    rev (done (snd r)) = rev (done l) ++ cur l ++ todo l.
  Proof.
    intros r. pose proof (solo_finishes (measure s l) s l (le_n _)) as H. fold r in H.
    destruct (step_none F _ _ H) as [E1 E2]. repeat split; auto.
    pose proof (solo_prog (measure s l) s l) as P. fold r in P. unfold prog_of, cur in P.
    rewrite E1, E2 in P. cbn in P. rewrite app_nil_r in P. exact P.
  Qed.
End Solo.
