(* C04 — the linearisation invariant of the machine, preserved by every atomic step, hence along
   every schedule (Interleave.invariant_all_schedules), for every FloatOps instance. *)
From Coq Require Import List NArith ZArith Bool Arith Lia.
Import ListNotations.
Require Import MV.Common.Interleave MV.C04.F64bits MV.C04.Model MV.C04.Spec.
Open Scope N_scope.

Definition cfg := @config shared local.

Definition cur (l : local) : list op := match cas l with Some (o, _) => [o] | None => [] end.
Definition prog_of (l : local) : list op := rev (done l) ++ cur l ++ todo l.
Definition by_tid (t : N) (e : wev) : bool := w_tid e =? t.
Definition proj (t : N) (log : list wev) : list op := map w_op (filter (by_tid t) log).

(* value at the end of a list of writes (oldest first) *)
Fixpoint endv (i : N) (ws : list wev) : N :=
  match ws with [] => i | w :: r => endv (w_after w) r end.

Lemma step_none F s l : step F s l = None -> cas l = None /\ todo l = [].
Proof.
  unfold step. destruct (cas l) as [[o p]|].
  - destruct ((cell s =? p) && negb (hd false (oracle l))); discriminate.
  - destruct (todo l) as [|o r]; [auto|]. destruct (is_cas_op o); discriminate.
Qed.

Lemma filter_rev {A} (f : A -> bool) l : filter f (rev l) = rev (filter f l).
Proof.
  induction l as [|x r IH]; [reflexivity|]. cbn [rev filter]. rewrite filter_app, IH. cbn [filter].
  destruct (f x); cbn [rev]; [reflexivity|]. rewrite app_nil_r. reflexivity.
Qed.

Section Lin.
  Variable F : FloatOps.

  (* newest-first form of Spec.LinChain, with the current cell value *)
  Fixpoint chain (init : N) (log : list wev) (c : N) : Prop :=
    match log with
    | [] => c = init
    | e :: older => w_after e = c /\ w_after e = apply_op F (w_op e) (w_before e) /\ chain init older (w_before e)
    end.

  Lemma LinChain_snoc i ws w :
    LinChain F i ws -> w_before w = endv i ws -> w_after w = apply_op F (w_op w) (w_before w) ->
    LinChain F i (ws ++ [w]).
  Proof.
    revert i. induction ws as [|a r IH]; intros i H Hb Ha; cbn in *.
    - auto.
    - destruct H as (H1 & H2 & H3). repeat split; auto.
  Qed.

  Lemma endv_snoc i ws w : endv i (ws ++ [w]) = w_after w.
  Proof. revert i. induction ws as [|a r IH]; intros i; cbn; auto. Qed.

  Lemma chain_LinChain i log c : chain i log c -> LinChain F i (rev log) /\ endv i (rev log) = c.
  Proof.
    revert c. induction log as [|e older IH]; intros c H; cbn in H.
    - subst. cbn. auto.
    - destruct H as (H1 & H2 & H3). destruct (IH _ H3) as [L E]. cbn [rev]. split.
      + apply LinChain_snoc; auto.
      + rewrite endv_snoc. exact H1.
  Qed.

  Lemma LinChain_replay i ws : LinChain F i ws -> endv i ws = replay F i (map w_op ws).
  Proof.
    revert i. induction ws as [|w r IH]; intros i H; [reflexivity|].
    cbn in H. destruct H as (H1 & H2 & H3). cbn [endv map]. unfold replay. cbn [fold_left].
    rewrite (IH _ H3). unfold replay. rewrite H2, H1. reflexivity.
  Qed.

  Lemma LinChain_In i ws e : LinChain F i ws -> In e ws -> w_after e = apply_op F (w_op e) (w_before e).
  Proof.
    revert i. induction ws as [|w r IH]; intros i H Hin; [destruct Hin|].
    cbn in H. destruct H as (H1 & H2 & H3). destruct Hin as [->|Hin]; [exact H2|eauto].
  Qed.

  Lemma rmw_apply o c : is_cas_op o = false -> rmw o c = apply_op F o c.
  Proof. destruct o; cbn; intros; try discriminate; reflexivity. Qed.
  Lemma closure_apply o c : is_cas_op o = true -> closure F o c = apply_op F o c.
  Proof. destruct o; cbn; intros; try discriminate; reflexivity. Qed.
  Lemma call_apply o c : call F o c = apply_op F o c.
  Proof. unfold call. destruct (is_cas_op o) eqn:E; [apply closure_apply|apply rmw_apply]; exact E. Qed.

  (* per-thread facts *)
  Definition tok (ps : list (list op)) (log : list wev) (u : nat) (x : local) : Prop :=
    me x = N.of_nat u /\ proj (me x) log = done x /\ nth_error ps u = Some (prog_of x) /\
    (forall o v, cas x = Some (o, v) -> is_cas_op o = true).

  Definition InvLin (i : N) (ps : list (list op)) (c : cfg) : Prop :=
    chain i (wlog (fst c)) (cell (fst c)) /\
    (forall u x, nth_error (snd c) u = Some x -> tok ps (wlog (fst c)) u x) /\
    (forall e, In e (wlog (fst c)) -> exists u, w_tid e = N.of_nat u /\ (u < length (snd c))%nat) /\
    length (snd c) = length ps.

  Lemma init_locals_nth ps : forall m u x, nth_error (init_locals m ps) u = Some x ->
    exists p, nth_error ps u = Some p /\ x = init_local (m + N.of_nat u) p.
  Proof.
    induction ps as [|p r IH]; intros m [|u] x H; cbn in H; try discriminate.
    - inversion H; subst. exists p. split; [reflexivity|]. f_equal. lia.
    - destruct (IH _ _ _ H) as (q & Hq & E). exists q. split; [exact Hq|]. rewrite E. f_equal. lia.
  Qed.

  Lemma init_locals_length ps : forall m, length (init_locals m ps) = length ps.
  Proof. induction ps as [|p r IH]; intros m; cbn; auto. Qed.

  Lemma InvLin_init i ps : InvLin i (map fst ps) (init_config i ps).
  Proof.
    unfold InvLin, init_config. cbn [fst snd init_shared cell wlog chain]. split; [reflexivity|].
    split; [|split].
    - intros u x H. destruct (init_locals_nth ps 0 u x H) as (p & Hp & ->).
      unfold tok, init_local, prog_of, cur, proj. cbn. repeat split.
      + rewrite nth_error_map, Hp. reflexivity.
      + intros o v E; discriminate.
    - intros e [].
    - rewrite init_locals_length, map_length. reflexivity.
  Qed.

  Lemma proj_cons_same t e log : w_tid e = t -> proj t (e :: log) = w_op e :: proj t log.
  Proof. intros E. unfold proj, by_tid. cbn [filter]. rewrite E, N.eqb_refl. reflexivity. Qed.
  Lemma proj_cons_other t e log : w_tid e <> t -> proj t (e :: log) = proj t log.
  Proof. intros E. unfold proj, by_tid. cbn [filter]. apply N.eqb_neq in E. rewrite E. reflexivity. Qed.

  (* a step that does not write: shared state unchanged, thread t's program decomposition kept *)
  Lemma InvLin_quiet i ps s ls t l l' :
    InvLin i ps (s, ls) -> nth_error ls t = Some l ->
    me l' = me l -> done l' = done l -> prog_of l' = prog_of l ->
    (forall o v, cas l' = Some (o, v) -> is_cas_op o = true) ->
    InvLin i ps (s, upd ls t l').
  Proof.
    intros (Hch & Hth & Hlt & Hlen) Hn Eme Edone Eprog Hcas. unfold InvLin. cbn [fst snd] in *.
    split; [exact Hch|]. split; [|split].
    - intros u x Hu. destruct (nth_error_upd_cases ls t l' u x Hu) as [[-> ->]|[Hne E]].
      + destruct (Hth t l Hn) as (A & B & C & D). unfold tok. rewrite Eme, Edone, Eprog. auto.
      + apply Hth. exact E.
    - intros e He. destruct (Hlt e He) as (u & E & L). exists u. rewrite upd_length. auto.
    - rewrite upd_length. exact Hlen.
  Qed.

  (* a step that writes *)
  Lemma InvLin_write i ps s ls t l l' o next :
    InvLin i ps (s, ls) -> nth_error ls t = Some l ->
    next = apply_op F o (cell s) ->
    me l' = me l -> done l' = o :: done l -> prog_of l' = prog_of l -> cas l' = None ->
    InvLin i ps ({| cell := next; wlog := {| w_tid := me l; w_op := o; w_before := cell s; w_after := next |} :: wlog s |},
                 upd ls t l').
  Proof.
    intros (Hch & Hth & Hlt & Hlen) Hn Enext Eme Edone Eprog Ecas. unfold InvLin. cbn [fst snd cell wlog] in *.
    destruct (Hth t l Hn) as (A & B & C & D).
    split; [|split; [|split]].
    - cbn [chain w_after w_op w_before]. auto.
    - intros u x Hu. destruct (nth_error_upd_cases ls t l' u x Hu) as [[-> ->]|[Hne E]].
      + unfold tok. rewrite Eme, Edone, Eprog, Ecas. repeat split; auto.
        * rewrite proj_cons_same by reflexivity. cbn [w_op]. rewrite B. reflexivity.
        * intros o0 v0 E0; discriminate.
      + destruct (Hth u x E) as (A' & B' & C' & D'). unfold tok. repeat split; auto.
        rewrite proj_cons_other; [exact B'|]. cbn [w_tid]. rewrite A, A'. lia.
    - intros e [<-|He].
      + exists t. cbn [w_tid]. split; [exact A|]. rewrite upd_length. apply nth_error_Some. congruence.
      + destruct (Hlt e He) as (u & E & L). exists u. rewrite upd_length. auto.
    - rewrite upd_length. exact Hlen.
  Qed.

  Lemma InvLin_step i ps : step_preserves (step F) (InvLin i ps).
  Proof.
    intros s ls t l s' l' HI Hn Hs.
    pose proof HI as (_ & Hth & _ & _). cbn [fst snd] in Hth.
    destruct (Hth t l Hn) as (A & B & C & D).
    unfold step in Hs. destruct (cas l) as [[o prev]|] eqn:Ec.
    - pose proof (D o prev eq_refl) as Ho.
      destruct ((cell s =? prev) && negb (hd false (oracle l))) eqn:Eb; inversion Hs; subst; clear Hs.
      + apply andb_prop in Eb. destruct Eb as [Eb _]. apply N.eqb_eq in Eb.
        eapply InvLin_write; eauto.
        * rewrite <- Eb. apply closure_apply. exact Ho.
        * unfold prog_of, cur. cbn [done cas todo]. rewrite Ec. cbn [rev]. rewrite <- app_assoc. reflexivity.
      + eapply InvLin_quiet; eauto.
        * unfold prog_of, cur. cbn [done cas todo]. rewrite Ec. reflexivity.
        * cbn [cas]. intros o0 v0 E0. inversion E0; subst. exact Ho.
    - destruct (todo l) as [|o rest] eqn:Et; [discriminate|].
      destruct (is_cas_op o) eqn:Eo; inversion Hs; subst; clear Hs.
      + eapply InvLin_quiet; eauto.
        * unfold prog_of, cur. cbn [done cas todo]. rewrite Ec, Et. reflexivity.
        * cbn [cas]. intros o0 v0 E0. inversion E0; subst. exact Eo.
      + eapply InvLin_write; eauto.
        * apply rmw_apply. exact Eo.
        * unfold prog_of, cur. cbn [done cas todo]. rewrite Ec, Et. cbn [rev app]. rewrite <- app_assoc. reflexivity.
  Qed.

  Theorem lin_all_schedules i ps sched :
    InvLin i (map fst ps) (fst (exec (step F) site (init_config i ps) sched)).
  Proof. apply invariant_all_schedules; [apply InvLin_step|apply InvLin_init]. Qed.

  Lemma all_done_nth (c : cfg) u x :
    all_done (step F) c = true -> nth_error (snd c) u = Some x -> cas x = None /\ todo x = [].
  Proof.
    unfold all_done. rewrite forallb_forall. intros H Hn.
    assert (L : (u < length (snd c))%nat) by (apply nth_error_Some; congruence).
    specialize (H u). rewrite in_seq in H. specialize (H ltac:(lia)).
    unfold finished in H. rewrite Hn in H. destruct (step F (fst c) x) eqn:E; [discriminate|].
    eapply step_none; eauto.
  Qed.

  (* the packaged statement *)
  Theorem gauge_linearizable i ps sched :
    let c := fst (exec (step F) site (init_config i ps) sched) in
    let ws := rev (wlog (fst c)) in
    LinChain F i ws /\
    cell (fst c) = replay F i (map w_op ws) /\
    (forall e, In e ws -> exists u, w_tid e = N.of_nat u /\ (u < length ps)%nat) /\
    (forall u x, nth_error (snd c) u = Some x ->
       map w_op (filter (by_tid (N.of_nat u)) ws) = rev (done x) /\
       nth_error (map fst ps) u = Some (rev (done x) ++ cur x ++ todo x)) /\
    (forall e x, In e ws -> w_op e = GSet x -> w_after e = x) /\
    (all_done (step F) c = true ->
       forall u p, nth_error (map fst ps) u = Some p -> map w_op (filter (by_tid (N.of_nat u)) ws) = p).
  Proof.
    intros c ws. pose proof (lin_all_schedules i ps sched) as (Hch & Hth & Hlt & Hlen).
    fold c in Hch, Hth, Hlt, Hlen. destruct (chain_LinChain _ _ _ Hch) as [HL HE]. fold ws in HL, HE.
    assert (Hproj : forall u x, nth_error (snd c) u = Some x ->
              map w_op (filter (by_tid (N.of_nat u)) ws) = rev (done x) /\
              nth_error (map fst ps) u = Some (rev (done x) ++ cur x ++ todo x)).
    { intros u x Hu. destruct (Hth u x Hu) as (A & B & C & D). split; [|exact C].
      unfold ws. rewrite filter_rev, map_rev. f_equal. rewrite <- A. exact B. }
    split; [exact HL|]. split; [rewrite <- HE; apply LinChain_replay; exact HL|].
    split; [|split; [exact Hproj|split]].
    - intros e He. apply in_rev in He. destruct (Hlt e He) as (u & E & L). exists u.
      rewrite Hlen, map_length in L. auto.
    - intros e x He Eo. rewrite (LinChain_In _ _ _ HL He), Eo. reflexivity.
    - intros Hd u p Hp.
      assert (L : (u < length (snd c))%nat).
      { rewrite Hlen. apply nth_error_Some. congruence. }
      destruct (nth_error (snd c) u) as [x|] eqn:Hu; [|apply nth_error_None in Hu; lia].
      destruct (Hproj u x Hu) as [P1 P2]. destruct (all_done_nth c u x Hd Hu) as [E1 E2].
      rewrite P1. rewrite P2 in Hp. inversion Hp. unfold cur. rewrite E1, E2. cbn. rewrite app_nil_r. reflexivity.
  Qed.

  (* one thread: the sequential semantics of the handle layer ([call]) *)
  Lemma filter_all {A} (f : A -> bool) l : (forall x, In x l -> f x = true) -> filter f l = l.
  Proof.
    induction l as [|x r IH]; intros H; [reflexivity|]. cbn [filter]. rewrite (H x (or_introl eq_refl)).
    f_equal. apply IH. intros y Hy. apply H. right. exact Hy.
  Qed.

  Lemma fold_call_replay p : forall i, fold_left (fun a o => call F o a) p i = replay F i p.
  Proof.
    unfold replay. induction p as [|o r IH]; intros i; [reflexivity|]. cbn [fold_left].
    rewrite call_apply. apply IH.
  Qed.

  Theorem single_thread_sequential i p orc sched :
    let c := fst (exec (step F) site (init_config i [(p, orc)]) sched) in
    all_done (step F) c = true -> cell (fst c) = fold_left (fun a o => call F o a) p i.
  Proof.
    intros c Hd. destruct (gauge_linearizable i [(p, orc)] sched) as (_ & Hc & Ht & _ & _ & Hall).
    fold c in Hc, Ht, Hall. rewrite fold_call_replay, Hc. f_equal.
    specialize (Hall Hd 0%nat p eq_refl). rewrite filter_all in Hall; [exact Hall|].
    intros e He. destruct (Ht e He) as (u & E & L). cbn in L. unfold by_tid. rewrite E.
    assert (u = 0%nat) by lia. subst u. reflexivity.
  Qed.
End Lin.
