(* C04 — the property, written without reference to the machine or the handle layer.

   [apply_op]   what ONE operation does to the value current at the instant it takes effect
                (counter: + mod 2^64 / max; gauge: f64 + / - / replace — GaugeValue semantics).
   [LinChain]   a list of writes is a linearisation: each write's after-value is apply_op of its
                before-value, the first before-value is the initial value and each later one is
                the previous write's after-value (none lost, none applied twice).
   [ObsOK]      per-call specification of the sequential observations (handles, clones, no-op
                handles, record / record_many deliveries), evaluated against the PREVIOUS
                OBSERVED value, not against the model.                                          *)
From Coq Require Import List NArith ZArith Bool.
Import ListNotations.
Require Import MV.C04.F64bits MV.C04.Model.
Open Scope N_scope.

Section Spec.
  Variable F : FloatOps.

  Definition apply_op (o : op) (cur : N) : N :=
    match o with
    | CInc v => (cur + v) mod two64
    | CAbs v => N.max cur v
    | GInc x => fadd F cur x
    | GDec x => fsub F cur x
    | GSet x => x
    end.

  (* oldest first *)
  Fixpoint LinChain (init : N) (ws : list wev) : Prop :=
    match ws with
    | [] => True
    | w :: r => w_before w = init /\ w_after w = apply_op (w_op w) (w_before w) /\ LinChain (w_after w) r
    end.

  (* value after a linearisation: the fold of the operations in that order *)
  Definition replay (init : N) (os : list op) : N := fold_left (fun a o => apply_op o a) os init.

  (* deliveries made by a logged event *)
  Definition deliveries1 (e : hev * N) : N * N :=   (* (value, how many times) *)
    match fst e with ERec v => (v, snd e) | EMany v n => (v, n * snd e) end.
  Definition delivered (evs : list (hev * N)) : N := fold_right (fun e a => snd (deliveries1 e) + a) 0 evs.
  Definition all_value (v : N) (evs : list (hev * N)) : bool :=
    forallb (fun e => (snd (deliveries1 e) =? 0) || (fst (deliveries1 e) =? v)) evs.

  (* NaN results: compared as "is NaN" (payload and sign of a NaN are not specified) *)
  Definition same_f64 (a b : N) : bool := canon a =? canon b.

  Definition has_storage (r : route) : bool := match r with RNoop => false | _ => true end.

  (* [p] = cell before the call (as observed), [o] = observation of the call *)
  Definition obs_ok (p : N) (s : sop) (o : obs) : bool :=
    match s, o with
    | SCounter r abs v, OCell q =>
        if has_storage r then (if abs then q =? N.max p v else q =? (p + v) mod two64) else q =? p
    | SGauge r k a, OCell q =>
        if has_storage r then
          match k with
          | KSet => q =? into_f64 a                                  (* exactly the value given *)
          | KInc => same_f64 q (fadd F p (into_f64 a))
          | KDec => same_f64 q (fsub F p (into_f64 a))
          end
        else q =? p
    | SUpdate k a, OVal q =>
        match k with
        | KSet => q =? into_f64 a
        | KInc => same_f64 q (fadd F p (into_f64 a))
        | KDec => same_f64 q (fsub F p (into_f64 a))
        end
    | SRecord d r a, OHist evs =>
        (delivered evs =? (if has_storage r then 1 else 0)) && all_value (into_f64 a) evs
    | SRecordMany d r a n, OHist evs =>
        (delivered evs =? (if has_storage r then n else 0)) && all_value (into_f64 a) evs
    | _, _ => false                                                   (* OPanic, or a wrong shape *)
    end.

  Definition next_prev (p : N) (o : obs) : N := match o with OCell q => q | _ => p end.

  Fixpoint spec_run (p : N) (l : list sop) (os : list obs) : bool :=
    match l, os with
    | [], [] => true
    | s :: r, o :: r' => obs_ok p s o && spec_run (next_prev p o) r r'
    | _, _ => false
    end.

  (* the same thing as a relation *)
  Inductive SpecRun : N -> list sop -> list obs -> Prop :=
  | SR_nil p : SpecRun p [] []
  | SR_cons p s o r r' : obs_ok p s o = true -> SpecRun (next_prev p o) r r' -> SpecRun p (s :: r) (o :: r').
End Spec.
