(* C04 — IEEE-754 binary64 <-> 64-bit pattern helpers.  Doubles travel as 64-bit patterns (N).
   [bits2f] turns a pattern into a Coq primitive float, [f2bits] a primitive float into its
   pattern; Coq's primitive floats have ONE NaN, so [f2bits] of a NaN is the canonical quiet NaN
   0x7FF8000000000000 and [canon] maps every NaN pattern to it (payloads and the sign of a NaN are
   not modelled).  Nothing is axiomatised: vm_compute evaluates the kernel's native floats.       *)
From Coq Require Import Floats NArith ZArith Bool SpecFloat.
Open Scope N_scope.

Definition two52 : N := 4503599627370496.
Definition two63 : N := 9223372036854775808.
Definition qnan : N := 9221120237041090560.      (* 0x7FF8000000000000 *)
Definition expmask : N := 9218868437227405312.   (* 0x7FF0000000000000 *)

Definition sign_of (b : N) : bool := N.testbit b 63.
Definition exp_of (b : N) : N := N.land (N.shiftr b 52) 2047.
Definition frac_of (b : N) : N := N.land b (two52 - 1).
Definition is_nan_bits (b : N) : bool := (exp_of b =? 2047) && negb (frac_of b =? 0).
Definition canon (b : N) : N := if is_nan_bits b then qnan else b.

Definition sf_of_bits (b : N) : spec_float :=
  let s := sign_of b in
  let e := exp_of b in
  let m := frac_of b in
  if e =? 0 then (match m with Npos p => S754_finite s p (-1074) | N0 => S754_zero s end)
  else if e =? 2047 then (if m =? 0 then S754_infinity s else S754_nan)
  else match m + two52 with Npos p => S754_finite s p (Z.of_N e - 1075) | N0 => S754_nan end.

Definition sbit (s : bool) : N := if s then two63 else 0.

Definition bits_of_sf (x : spec_float) : N :=
  match x with
  | S754_zero s => sbit s
  | S754_infinity s => sbit s + expmask
  | S754_nan => qnan
  | S754_finite s m e =>
      let m := Npos m in
      if m <? two52 then sbit s + m                                   (* subnormal: e = -1074 *)
      else sbit s + N.shiftl (Z.to_N (e + 1075)) 52 + (m - two52)
  end.

Definition bits2f (b : N) : float := SF2Prim (sf_of_bits b).
Definition f2bits (f : float) : N := bits_of_sf (Prim2SF f).

(* exact embedding of an integer |z| < 2^53 (all of i8..u32) as a binary64 pattern; pure
   integer arithmetic, independent of the primitive floats *)
Definition bits_of_int (z : Z) : N :=
  match z with
  | Z0 => 0
  | _ => let a := Z.abs_N z in
         let k := N.log2 a in
         sbit (Z.ltb z 0) + N.shiftl (1023 + k) 52 + (N.shiftl a (52 - k) - two52)
  end.
