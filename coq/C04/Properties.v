(* C04 — property theorems (statements only; proofs are in Proofs.v / Proofs2.v / ExecProofs.v).

   Reading guide.  [exec (step F) site (init_config i ps) sched] runs the machine of Model.v
   (one step per atomic access of the AtomicU64: fetch_add, fetch_max, swap, and the load / CAS
   of std's fetch_update with arbitrary spurious CAS failures) from initial cell value [i] with
   thread programs and spurious-failure scripts [ps], along the ARBITRARY schedule [sched]
   (any number of threads, any programs).  [F] is an arbitrary implementation of f64 + and - on
   bit patterns: no theorem needs an algebraic law of floating point.  [wlog] is the ghost log
   of successful writes, newest first.                                                        *)
From Coq Require Import List NArith ZArith Bool.
Import ListNotations.
Require Import MV.Common.Interleave MV.C04.F64bits MV.C04.Model MV.C04.Spec MV.C04.Exec
               MV.C04.Proofs MV.C04.Proofs2 MV.C04.Proofs3 MV.C04.ExecProofs.
Open Scope N_scope.

(* Exec.run_case / Exec.spec_ok are [grun_case prim_ops] / [gspec_ok prim_ops] (native floats) *)
Theorem C04_spec_ok_on_model : forall F c, gspec_ok F c (grun_case F c) = true.
Proof. exact spec_ok_on_model. Qed.

Theorem C04_spec_ok_iff : forall F c o, gspec_ok F c o = true <-> SpecRun F (fst c) (snd c) o.
Proof. exact spec_ok_iff. Qed.

Theorem C04_spec_meaning_counter : forall F p r abs v q,
  obs_ok F p (SCounter r abs v) (OCell q) = true ->
  q = match inner r with
      | None => p
      | Some _ => if abs then N.max p v else (p + v) mod two64
      end.
Proof. exact obs_ok_counter. Qed.

Theorem C04_spec_meaning_gauge_set : forall F p r a q,
  obs_ok F p (SGauge r KSet a) (OCell q) = true ->
  q = match inner r with None => p | Some _ => into_f64 a end.
Proof. exact obs_ok_gauge_set. Qed.

Theorem C04_spec_meaning_gauge_arith : forall F p r k a q,
  k <> KSet -> obs_ok F p (SGauge r k a) (OCell q) = true ->
  match inner r with
  | None => q = p
  | Some _ => canon q = canon (apply_op F (gop k (into_f64 a)) p)
  end.
Proof. exact obs_ok_gauge_arith. Qed.

Theorem C04_spec_meaning_record_many : forall F p d r a n evs,
  obs_ok F p (SRecordMany d r a n) (OHist evs) = true ->
  delivered evs = (if has_storage r then n else 0) /\ all_value (into_f64 a) evs = true.
Proof. exact obs_ok_hist. Qed.

(* only increments: cell + pending = initial + all, modulo 2^64, at every point of every
   schedule; when every thread is done the cell is the sum modulo 2^64 *)
Theorem C04_counter_sum_mod_2_64 : forall F i ps sched,
  i < two64 -> only is_inc ps ->
  let c := fst (exec (step F) site (init_config i ps) sched) in
  (cell (fst c) + sumN pend (snd c)) mod two64 = (i + total ps) mod two64 /\
  (all_done (step F) c = true -> cell (fst c) = (i + total ps) mod two64).
Proof. exact counter_sum. Qed.

(* only absolutes: the cell never decreases along any execution (any prefix s1 of any schedule
   s1 ++ s2), is never below its initial value, and when every thread is done it is the maximum
   of the initial value and all arguments *)
Theorem C04_absolute_monotone : forall F i ps,
  only is_abs ps ->
  (forall s1 s2,
     cell (fst (fst (exec (step F) site (init_config i ps) s1)))
     <= cell (fst (fst (exec (step F) site (init_config i ps) (s1 ++ s2))))) /\
  (forall sched, let c := fst (exec (step F) site (init_config i ps) sched) in
     i <= cell (fst c) /\
     N.max (cell (fst c)) (maxN pendmax (snd c)) = N.max i (allmax ps) /\
     (all_done (step F) c = true -> cell (fst c) = N.max i (allmax ps))).
Proof. exact absolute_monotone. Qed.

(* any mix of counter and gauge operations, every schedule: the successful writes form a
   linearisation (each applies its operation to the value left by the previous write), the cell
   is the fold of the logged operations in that order, every log entry belongs to a thread, the
   entries of thread u are exactly its completed calls in program order (each once), a set
   leaves exactly its value, and when all threads are done the log is a merge of the programs *)
Theorem C04_gauge_linearizable : forall F i ps sched,
  let c := fst (exec (step F) site (init_config i ps) sched) in
  let ws := rev (wlog (fst c)) in
  LinChain F i ws /\
  cell (fst c) = replay F i (map w_op ws) /\
  (forall e, In e ws -> exists u, w_tid e = N.of_nat u /\ (u < length ps)%nat) /\
  (forall u x, nth_error (snd c) u = Some x ->
     map w_op (filter (by_tid (N.of_nat u)) ws) = rev (done x) /\
     nth_error (map fst ps) u = Some (rev (done x) ++ cur x ++ todo x)) /\
  (forall e x, In e ws -> w_op e = GSet x -> w_after e = x) /\
  (all_done (step F) c = true ->
     forall u p, nth_error (map fst ps) u = Some p -> map w_op (filter (by_tid (N.of_nat u)) ws) = p).
Proof. exact gauge_linearizable. Qed.

(* one thread, any schedule and spurious failures: the sequential semantics of the handle layer *)
Theorem C04_single_thread_sequential : forall F i p orc sched,
  let c := fst (exec (step F) site (init_config i [(p, orc)]) sched) in
  all_done (step F) c = true -> cell (fst c) = fold_left (fun a o => call F o a) p i.
Proof. exact single_thread_sequential. Qed.

Theorem C04_record_many_exact : forall d r v n,
  has_storage r = true ->
  expand (hist_record_many d r v n) = repeat v (N.to_nat n) /\
  expand (hist_record d r v) = [v].
Proof. exact record_many_exact. Qed.

(* a handle without storage: the sequential call changes nothing and delivers nothing, and in a
   thread's program it contributes no atomic access at all (so the machine cannot tell) *)
Theorem C04_noop_inert :
  (forall F p s,
     match s with
     | SCounter RNoop _ _ | SGauge RNoop _ _ => sstep F p s = (p, OCell p)
     | SRecord _ RNoop _ | SRecordMany _ RNoop _ _ => sstep F p s = (p, OHist [])
     | _ => True
     end) /\
  (forall p1 o p2, lower (p1 ++ (RNoop, o) :: p2) = lower (p1 ++ p2)).
Proof. split; [exact noop_inert_seq|exact noop_inert_lower]. Qed.

(* the model has no Panic and no Hang outcome (the driver reports a panic of the real code as
   OPanic and a call that does not return as OHang: both disagree with the model and fail spec_ok) *)
Theorem C04_total : forall F l p,
  ~ In OPanic (srun F p l) /\ ~ In OHang (srun F p l) /\ length (srun F p l) = length l.
Proof. exact total_seq. Qed.

(* every call returns: a thread left alone (from ANY state: inside a CAS loop, with any finite
   script of spurious CAS failures, any remaining program) is finished after [measure] of its own
   steps, and has then completed exactly the call in progress and the calls still to make *)
Theorem C04_solo_terminates : forall F s l,
  let r := solo F (measure s l) s l in
  step F (fst r) (snd r) = None /\
  cas (snd r) = None /\ todo (snd r) = [] /\
  rev (done (snd r)) = rev (done l) ++ cur l ++ todo l.
Proof. exact solo_terminates. Qed.
