From Coq Require Import List NArith ZArith Bool.
Import ListNotations.
Require Import MV.Common.Interleave MV.C04.F64bits MV.C04.Model MV.C04.Spec MV.C04.Exec
               MV.C04.Proofs MV.C04.Proofs2 MV.C04.Proofs3 MV.C04.ExecProofs.
Open Scope N_scope.
Require Import MV.C04.Properties.

Check (C04_spec_ok_on_model : forall F c, gspec_ok F c (grun_case F c) = true).
Print Assumptions C04_spec_ok_on_model.
Check (C04_spec_ok_iff : forall F c o, gspec_ok F c o = true <-> SpecRun F (fst c) (snd c) o).
Print Assumptions C04_spec_ok_iff.
Check (C04_spec_meaning_counter : forall F p r abs v q,
  obs_ok F p (SCounter r abs v) (OCell q) = true ->
  q = match inner r with
      | None => p
      | Some _ => if abs then N.max p v else (p + v) mod two64
      end).
Print Assumptions C04_spec_meaning_counter.
Check (C04_spec_meaning_gauge_set : forall F p r a q,
  obs_ok F p (SGauge r KSet a) (OCell q) = true ->
  q = match inner r with None => p | Some _ => into_f64 a end).
Print Assumptions C04_spec_meaning_gauge_set.
Check (C04_spec_meaning_gauge_arith : forall F p r k a q,
  k <> KSet -> obs_ok F p (SGauge r k a) (OCell q) = true ->
  match inner r with
  | None => q = p
  | Some _ => canon q = canon (apply_op F (gop k (into_f64 a)) p)
  end).
Print Assumptions C04_spec_meaning_gauge_arith.
Check (C04_spec_meaning_record_many : forall F p d r a n evs,
  obs_ok F p (SRecordMany d r a n) (OHist evs) = true ->
  delivered evs = (if has_storage r then n else 0) /\ all_value (into_f64 a) evs = true).
Print Assumptions C04_spec_meaning_record_many.
Check (C04_counter_sum_mod_2_64 : forall F i ps sched,
  i < two64 -> only is_inc ps ->
  let c := fst (exec (step F) site (init_config i ps) sched) in
  (cell (fst c) + sumN pend (snd c)) mod two64 = (i + total ps) mod two64 /\
  (all_done (step F) c = true -> cell (fst c) = (i + total ps) mod two64)).
Print Assumptions C04_counter_sum_mod_2_64.
Check (C04_absolute_monotone : forall F i ps,
  only is_abs ps ->
  (forall s1 s2,
     cell (fst (fst (exec (step F) site (init_config i ps) s1)))
     <= cell (fst (fst (exec (step F) site (init_config i ps) (s1 ++ s2))))) /\
  (forall sched, let c := fst (exec (step F) site (init_config i ps) sched) in
     i <= cell (fst c) /\
     N.max (cell (fst c)) (maxN pendmax (snd c)) = N.max i (allmax ps) /\
     (all_done (step F) c = true -> cell (fst c) = N.max i (allmax ps)))).
Print Assumptions C04_absolute_monotone.
Check (C04_gauge_linearizable : forall F i ps sched,
  let c := fst (exec (step F) site (init_config i ps) sched) in
  let ws := rev (wlog (fst c)) in
  LinChain F i ws /\
  cell (fst c) = replay F i (map w_op ws) /\
  (forall e, In e ws -> exists u, w_tid e = N.of_nat u /\ (u < length ps)%nat) /\
  (forall u x, nth_error (snd c) u = Some x ->
     map w_op (filter (by_tid (N.of_nat u)) ws) = rev (done x) /\
     nth_error (map fst ps) u = Some (rev (done x) ++ cur x ++ todo x)) /\
  (forall e x, In e ws -> w_op e = GSet x -> w_after e = x) /\
  (all_done (step F) c = true ->
     forall u p, nth_error (map fst ps) u = Some p -> map w_op (filter (by_tid (N.of_nat u)) ws) = p)).
Print Assumptions C04_gauge_linearizable.
Check (C04_single_thread_sequential : forall F i p orc sched,
  let c := fst (exec (step F) site (init_config i [(p, orc)]) sched) in
  all_done (step F) c = true -> cell (fst c) = fold_left (fun a o => call F o a) p i).
Print Assumptions C04_single_thread_sequential.
Check (C04_record_many_exact : forall d r v n,
  has_storage r = true ->
  expand (hist_record_many d r v n) = repeat v (N.to_nat n) /\
  expand (hist_record d r v) = [v]).
Print Assumptions C04_record_many_exact.
Check (C04_noop_inert : (forall F p s,
     match s with
     | SCounter RNoop _ _ | SGauge RNoop _ _ => sstep F p s = (p, OCell p)
     | SRecord _ RNoop _ | SRecordMany _ RNoop _ _ => sstep F p s = (p, OHist [])
     | _ => True
     end) /\
  (forall p1 o p2, lower (p1 ++ (RNoop, o) :: p2) = lower (p1 ++ p2))).
Print Assumptions C04_noop_inert.
Check (C04_total : forall F l p,
  ~ In OPanic (srun F p l) /\ ~ In OHang (srun F p l) /\ length (srun F p l) = length l).
Print Assumptions C04_total.
Check (C04_solo_terminates : forall F s l,
  let r := solo F (measure s l) s l in
  step F (fst r) (snd r) = None /\
  cas (snd r) = None /\ todo (snd r) = [] /\
  rev (done (snd r)) = rev (done l) ++ cur l ++ todo l).
Print Assumptions C04_solo_terminates.
