(* C01 — executable entry points used by the correspondence check (cases.v). *)
From Coq Require Import List NArith Bool.
Import ListNotations.
Require Export MV.C01.Model MV.C01.Spec MV.C01.Sites.
Open Scope N_scope.

(* a case is a surface program; OUT is, per emission in program order, the calls the recorder
   doubles received while it ran *)
Definition case := list sop.
Definition OUT := list (list obs).

Definition prog (c : case) : list op := lower linit c.

Definition obs_of (d : dispatch) : list obs :=
  match d_target d with
  | TLocal r => [{| o_rid := r; o_tid := d_tid d; o_payload := d_payload d; o_dead := d_dead d |}]
  | TGlobal r => [{| o_rid := r; o_tid := d_tid d; o_payload := d_payload d; o_dead := d_dead d |}]
  | TNoop => []
  end.
Definition run_case (c : case) : OUT := map obs_of (run init (prog c)).
Definition spec_outs (c : case) : OUT := srun sinit (prog c).

Definition call_eq_dec : forall a b : call, {a = b} + {a <> b}.
Proof. decide equality. Defined.
Definition str_eq_dec : forall a b : str, {a = b} + {a <> b} := list_eq_dec N.eq_dec.
Definition metadata_eq_dec : forall a b : metadata, {a = b} + {a <> b}.
Proof. decide equality; try apply str_eq_dec; try apply N.eq_dec. decide equality; apply str_eq_dec. Defined.
Definition payload_eq_dec : forall a b : payload, {a = b} + {a <> b}.
Proof.
  decide equality; try apply str_eq_dec; try apply call_eq_dec.
  - decide equality; apply N.eq_dec.
  - decide equality; apply metadata_eq_dec.
  - apply list_eq_dec. decide equality; apply str_eq_dec.
Defined.
Definition obs_eq_dec : forall a b : obs, {a = b} + {a <> b}.
Proof. decide equality; try apply N.eq_dec; try apply payload_eq_dec; apply bool_dec. Defined.
Definition out_eq_dec : forall a b : OUT, {a = b} + {a <> b} := list_eq_dec (list_eq_dec obs_eq_dec).
Definition out_eqb (a b : OUT) : bool := if out_eq_dec a b then true else false.

(* the property in executable form, evaluated on an observed output: on a program safe Rust admits,
   every emission was received exactly as the scope semantics specifies (receiver, thread, payload,
   never by a recorder whose borrow had ended) *)
Definition spec_ok (c : case) (o : OUT) : bool := negb (wf_prog (prog c)) || out_eqb (spec_outs c) o.

(* open known findings: 1 = C01-fifo-drop (a guard dropped while a younger guard of the thread is
   alive), 2 = C01-forget (a guard leaked with mem::forget).  99 is not a finding: it marks a case
   that is not a program safe Rust admits (the property says nothing about it; the python side
   treats a generated case of this class as broken machinery). *)
Definition known_class (c : case) : option N :=
  if negb (wf_prog (prog c)) then Some 99
  else if non_lifo_drop (prog c) then Some 1 else if has_forget (prog c) then Some 2 else None.

(* some emission was dispatched to a recorder whose borrow had ended *)
Definition dead_dispatch (p : list op) : bool := existsb d_dead (run init p).

Definition verdicts (l : list (N * case * OUT)) : list (N * bool * bool * option N) :=
  map (fun '(i, c, o) => (i, out_eqb (run_case c) o, spec_ok c o, known_class c)) l.
