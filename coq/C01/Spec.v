(* C01 — the property as a reference semantics of SCOPES, with no saved pointers.

   The specification machine keeps the list of open local scopes (newest first).  A scope is opened
   by installing a recorder on a thread and closed by dropping its guard; the receiver of an
   emission on thread t is the recorder of t's innermost open scope, else the global recorder,
   else nobody; what is received is what the call site spells ([spelled]); and a receiver is never
   a recorder whose borrow has ended (every specified entry has dead = false).
   [wf_prog] says which operation sequences safe Rust admits, [lifo_prog] which of them close
   scopes innermost-first and never leak a guard.                                                  *)
From Coq Require Import List NArith Bool.
Import ListNotations.
Require Import MV.C01.Model.
Open Scope N_scope.

(* ------------------------------------------------------------------ what a call site spells *)
Definition default {A} (d : A) (o : option A) : A := match o with Some x => x | None => d end.
Definition spelled_labels (f : form) (a : args) : list (str * str) :=
  match f_labels f with
  | LNone => []
  | LPairs l => map (fun kv => (ev a (fst kv), ev a (snd kv))) l
  | LColl _ => a_lbls a
  end.
Definition spelled_unit (f : form) (a : args) : option N :=
  match f_unit f with UNone => None | ULit u => Some u | UArg => Some (a_unit a) end.
Definition spelled (f : form) (a : args) : payload :=
  if is_reg (f_call f) then
    {| p_call := f_call f; p_name := ev a (f_name f); p_labels := spelled_labels f a;
       p_meta := Some {| m_target := default here (f_target f); m_level := default level_info (f_level f);
                         m_module := Some here |};
       p_unit := None; p_desc := [] |}
  else
    {| p_call := f_call f; p_name := ev a (f_name f); p_labels := []; p_meta := None;
       p_unit := spelled_unit f a; p_desc := ev a (f_desc f) |}.

(* --------------------------------------------------------------------------- scope machine *)
Record scope := { sc_g : gid; sc_t : tid; sc_r : rid; sc_forgot : bool }.
Record sst := { scopes : list scope; snext : gid; sglobal : option rid; slive : rid -> bool }.
Definition sinit : sst := {| scopes := []; snext := 0; sglobal := None; slive := fun _ => true |}.

Definition of_thread (t : tid) (sc : scope) : bool := sc_t sc =? t.
Definition is_tg (t : tid) (g : gid) (sc : scope) : bool := (sc_t sc =? t) && (sc_g sc =? g).
(* the innermost open scope of thread t *)
Definition top (t : tid) (l : list scope) : option scope := find (of_thread t) l.

Fixpoint close (t : tid) (g : gid) (l : list scope) : list scope :=
  match l with
  | [] => []
  | sc :: r => if is_tg t g sc then r else sc :: close t g r
  end.
Fixpoint leak (t : tid) (g : gid) (l : list scope) : list scope :=
  match l with
  | [] => []
  | sc :: r => if is_tg t g sc
               then {| sc_g := sc_g sc; sc_t := sc_t sc; sc_r := sc_r sc; sc_forgot := true |} :: r
               else sc :: leak t g r
  end.
(* thread t holds guard g (not yet dropped or forgotten) *)
Definition holds (t : tid) (g : gid) (l : list scope) : bool :=
  existsb (fun sc => is_tg t g sc && negb (sc_forgot sc)) l.

Definition sstep (x : sst) (o : op) : sst :=
  match o with
  | Install t r =>
      {| scopes := {| sc_g := snext x; sc_t := t; sc_r := r; sc_forgot := false |} :: scopes x;
         snext := snext x + 1; sglobal := sglobal x; slive := slive x |}
  | DropGuard t g =>
      if holds t g (scopes x)
      then {| scopes := close t g (scopes x); snext := snext x; sglobal := sglobal x; slive := slive x |} else x
  | Forget t g =>
      (* the guard is never dropped: its scope stays open *)
      if holds t g (scopes x)
      then {| scopes := leak t g (scopes x); snext := snext x; sglobal := sglobal x; slive := slive x |} else x
  | EndBorrow r => {| scopes := scopes x; snext := snext x; sglobal := sglobal x; slive := upd (slive x) r false |}
  | SetGlobal r =>
      {| scopes := scopes x; snext := snext x;
         sglobal := match sglobal x with None => Some r | Some g => Some g end; slive := slive x |}
  | Emit _ _ _ => x
  end.
Definition sexec (x : sst) (p : list op) : sst := fold_left sstep p x.

(* the observable of one emission: the calls received by recorder doubles while it ran *)
Record obs := { o_rid : rid; o_tid : tid; o_payload : payload; o_dead : bool }.

Definition receiver (x : sst) (t : tid) : option rid :=
  match top t (scopes x) with
  | Some sc => Some (sc_r sc)
  | None => sglobal x
  end.
Definition spec_emit (x : sst) (t : tid) (f : form) (a : args) : list obs :=
  match receiver x t with
  | Some r => [{| o_rid := r; o_tid := t; o_payload := spelled f a; o_dead := false |}]
  | None => []
  end.
Fixpoint srun (x : sst) (p : list op) : list (list obs) :=
  match p with
  | [] => []
  | Emit t f a :: r => spec_emit x t f a :: srun x r
  | o :: r => srun (sstep x o) r
  end.

(* ------------------------------------------------------------------ what safe Rust admits *)
Definition opt_is (o : option rid) (r : rid) : bool := match o with Some g => g =? r | None => false end.
Definition op_wf (x : sst) (o : op) : bool :=
  match o with
  | Install t r => slive x r                              (* a reference to r can still be taken *)
  | DropGuard t g => holds t g (scopes x)                 (* the guard is !Send and is consumed once *)
  | Forget t g => holds t g (scopes x)
  | EndBorrow r =>                                        (* PhantomData<&'a dyn Recorder>: no guard borrows r; 'static never ends *)
      forallb (fun sc => sc_forgot sc || negb (sc_r sc =? r)) (scopes x) && negb (opt_is (sglobal x) r)
  | SetGlobal r => slive x r
  | Emit _ _ _ => true
  end.
Fixpoint wf_from (x : sst) (p : list op) : bool :=
  match p with
  | [] => true
  | o :: r => op_wf x o && wf_from (sstep x o) r
  end.
Definition wf_prog (p : list op) : bool := wf_from sinit p.

(* scope discipline *)
Definition is_forget (o : op) : bool := match o with Forget _ _ => true | _ => false end.
Definition has_forget (p : list op) : bool := existsb is_forget p.
Definition bad_drop (x : sst) (o : op) : bool :=
  match o with
  | DropGuard t g => match top t (scopes x) with Some sc => negb (sc_g sc =? g) | None => true end
  | _ => false
  end.
Fixpoint non_lifo_from (x : sst) (p : list op) : bool :=
  match p with
  | [] => false
  | o :: r => bad_drop x o || non_lifo_from (sstep x o) r
  end.
Definition non_lifo_drop (p : list op) : bool := non_lifo_from sinit p.
Definition lifo_prog (p : list op) : bool := negb (has_forget p) && negb (non_lifo_drop p).
