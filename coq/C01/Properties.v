(* C01 — property theorems (statements only; proofs are in Proofs.v / Proofs2.v / Proofs3.v).

   Reading guide.  A program is a list of [op] (Install / DropGuard / Forget / EndBorrow / SetGlobal /
   Emit, each naming its thread); with_local_recorder closures and panics are surface forms that
   [lower] resolves to these (Model.v), so every theorem below covers them.  [run init p] is the
   dispatch log of the model of recorder/mod.rs + macros.rs; [srun sinit p] the log the scope
   semantics of Spec.v specifies; [wf_prog] = what safe Rust admits; [lifo_prog] = guards closed
   innermost-first and never leaked (what every with_local_recorder nesting produces).            *)
From Coq Require Import List NArith Bool.
Import ListNotations.
Require Import MV.C01.Model MV.C01.Spec MV.C01.Exec MV.C01.Proofs MV.C01.Proofs2 MV.C01.Proofs3 MV.C01.Proofs4.
Open Scope N_scope.

Theorem C01_model_meets_spec : forall p, wf_prog p = true -> lifo_prog p = true ->
  map obs_of (run init p) = srun sinit p.
Proof. exact model_meets_spec. Qed.

Theorem C01_spec_ok_on_model : forall c, known_class c = None -> spec_ok c (run_case c) = true.
Proof. exact spec_ok_on_model. Qed.

Theorem C01_known_class_none_iff : forall c, known_class c = None <-> (wf_prog (prog c) = true /\ lifo_prog (prog c) = true).
Proof. exact known_class_none_iff. Qed.

Theorem C01_spec_ok_iff : forall c o, spec_ok c o = true <-> (wf_prog (prog c) = true -> o = spec_outs c).
Proof. exact spec_ok_iff. Qed.

Theorem C01_expand_is_what_the_site_spells : forall f a, expand f a = spelled f a.
Proof. exact expand_spelled. Qed.

Theorem C01_dispatch_once_to_precedence : forall p1 t f a p2,
  let s := exec init p1 in
  run init (p1 ++ Emit t f a :: p2) = run init p1 ++ dispatch_of s t f a :: run s p2 /\
  d_tid (dispatch_of s t f a) = t /\
  d_payload (dispatch_of s t f a) = spelled f a /\
  d_target (dispatch_of s t f a) =
    match tls s t with
    | Some r => TLocal r
    | None => match global s with Some g => TGlobal g | None => TNoop end
    end.
Proof. exact dispatch_once_to_precedence. Qed.

Theorem C01_one_log_entry_per_emit : forall p s, length (run s p) = count_emits p.
Proof. exact one_entry_per_emit. Qed.

Theorem C01_thread_isolation : forall s o t', actor o <> Some t' -> tls (step s o) t' = tls s t'.
Proof. exact step_isolation. Qed.

Theorem C01_local_target_only_from_own_guard : forall p t r,
  tls (exec init p) t = Some r ->
  exists x, In x (guards (exec init p)) /\ g_owner x = t /\ g_rec x = r.
Proof. exact local_only_from_own_guard. Qed.

Theorem C01_scope_end_restores : forall p1 t r p2,
  let s1 := exec init p1 in
  let g := next s1 in
  let s2 := exec init (p1 ++ Install t r :: p2) in
  held s2 t g <> None -> tls (step s2 (DropGuard t g)) t = tls s1 t.
Proof. exact drop_restores. Qed.

Theorem C01_pointer_is_innermost_open_scope : forall p1 p2 t,
  wf_prog (p1 ++ p2) = true -> lifo_prog (p1 ++ p2) = true ->
  tls (exec init p1) t = option_map sc_r (top t (scopes (sexec sinit p1))).
Proof. exact pointer_is_innermost_scope. Qed.

Theorem C01_with_local_nesting_is_lifo : forall c, only_scoped c = true ->
  wf_prog (prog c) = true /\ lifo_prog (prog c) = true.
Proof. exact with_local_nesting_is_lifo. Qed.

Theorem C01_no_dispatch_after_scope_end_lifo : forall p, wf_prog p = true -> lifo_prog p = true ->
  forall d, In d (run init p) -> d_dead d = false.
Proof. exact no_dispatch_after_scope_end_lifo. Qed.

Theorem C01_dead_dispatch_only_in_known_classes : forall p,
  wf_prog p = true -> dead_dispatch p = true -> non_lifo_drop p = true \/ has_forget p = true.
Proof. exact dead_dispatch_only_in_known_classes. Qed.

Theorem C01_fifo_refutes : exists c, wf_prog (prog c) = true /\ known_class c = Some 1 /\
  dead_dispatch (prog c) = true /\ spec_ok c (run_case c) = false.
Proof. exact fifo_refutes. Qed.

Theorem C01_forget_refutes : exists c, wf_prog (prog c) = true /\ known_class c = Some 2 /\
  dead_dispatch (prog c) = true /\ spec_ok c (run_case c) = false.
Proof. exact forget_refutes. Qed.
