(* C01 — proofs, part 1: macro layer, per-step facts, the refinement invariant between the
   save/restore-pointer model (Model.v) and the scope machine (Spec.v). *)
From Coq Require Import List NArith Bool Lia.
Import ListNotations.
Require Import MV.C01.Model MV.C01.Spec.
Open Scope N_scope.

(* ------------------------------------------------------------------------------ macro layer *)
Lemma expand_spelled f a : expand f a = spelled f a.
Proof.
  unfold expand, spelled. destruct (is_reg (f_call f)).
  - unfold reg_macro, key_var, key_var_arm, pairs_of, spelled_labels, metadata_var, default.
    destruct (f_target f), (f_level f), (f_labels f) as [|l|k]; cbn [fst snd];
      try destruct (is_lit (f_name f)); try destruct (forallb _ l); reflexivity.
  - unfold describe_macro, spelled_unit. destruct (f_unit f); reflexivity.
Qed.

(* --------------------------------------------------------------------------- thread isolation *)
Definition actor (o : op) : option tid :=
  match o with
  | Install t _ | DropGuard t _ | Forget t _ | Emit t _ _ => Some t
  | EndBorrow _ | SetGlobal _ => None
  end.

Lemma upd_same {A} (f : N -> A) k v : upd f k v k = v.
Proof. unfold upd. rewrite N.eqb_refl. reflexivity. Qed.
Lemma upd_other {A} (f : N -> A) k v x : x <> k -> upd f k v x = f x.
Proof. unfold upd. intros H. destruct (x =? k) eqn:E; [apply N.eqb_eq in E; contradiction|reflexivity]. Qed.

Lemma step_isolation s o t' : actor o <> Some t' -> tls (step s o) t' = tls s t'.
Proof.
  destruct o; cbn [actor step]; intros H; try reflexivity.
  - cbn [tls]. apply upd_other. intros ->. apply H. reflexivity.
  - destruct (held s t g); [|reflexivity]. cbn [tls]. apply upd_other. intros ->. apply H. reflexivity.
  - destruct (held s t g); reflexivity.
Qed.

(* ------------------------------------------------------------------------- lists of guards *)
Definition gprev (l : list guard) (g : gid) : option rid :=
  match lookup g l with Some x => g_prev x | None => None end.

Lemma lookup_set_status_other g st l g' : g' <> g -> lookup g' (set_status g st l) = lookup g' l.
Proof.
  intros H. induction l as [|x r IH]; cbn [set_status lookup]; [reflexivity|].
  destruct (g_id x =? g) eqn:E.
  - cbn [lookup with_status g_id]. apply N.eqb_eq in E.
    destruct (g_id x =? g') eqn:E'; [apply N.eqb_eq in E'; congruence|reflexivity].
  - cbn [lookup]. destruct (g_id x =? g'); [reflexivity|exact IH].
Qed.

Lemma gprev_set_status g st l g' : gprev (set_status g st l) g' = gprev l g'.
Proof.
  unfold gprev. induction l as [|x r IH]; cbn [set_status lookup]; [reflexivity|].
  destruct (g_id x =? g) eqn:E.
  - cbn [lookup with_status g_id]. destruct (g_id x =? g'); reflexivity.
  - cbn [lookup]. destruct (g_id x =? g'); [reflexivity|exact IH].
Qed.

(* ------------------------------------------------------------------------------- invariant *)
Fixpoint chain (gs : list guard) (t : tid) (cur : option rid) (l : list scope) : Prop :=
  match l with
  | [] => cur = None
  | sc :: r => if sc_t sc =? t then cur = Some (sc_r sc) /\ chain gs t (gprev gs (sc_g sc)) r
               else chain gs t cur r
  end.

Definition scope_ok (gs : list guard) (sc : scope) : Prop :=
  sc_forgot sc = false /\
  exists x, lookup (sc_g sc) gs = Some x /\ g_owner x = sc_t sc /\ g_status x = Alive.

Fixpoint desc (b : N) (l : list scope) : Prop :=
  match l with
  | [] => True
  | sc :: r => sc_g sc < b /\ desc (sc_g sc) r
  end.

Record Inv (s : st) (x : sst) : Prop := {
  inv_next : next s = snext x;
  inv_glob : global s = sglobal x;
  inv_live : forall r, live s r = slive x r;
  inv_desc : desc (snext x) (scopes x);
  inv_ok : Forall (scope_ok (guards s)) (scopes x);
  inv_chain : forall t, chain (guards s) t (tls s t) (scopes x);
  inv_scl : Forall (fun sc => slive x (sc_r sc) = true) (scopes x);
  inv_gl : forall g, sglobal x = Some g -> slive x g = true
}.

Lemma inv_init : Inv init sinit.
Proof. constructor; cbn; auto. Qed.

Lemma desc_weaken l : forall b b', desc b l -> b <= b' -> desc b' l.
Proof. destruct l as [|sc r]; cbn; auto. intros b b' [H1 H2] H. split; [lia|exact H2]. Qed.

Lemma desc_lt l : forall b sc, desc b l -> In sc l -> sc_g sc < b.
Proof.
  induction l as [|a r IH]; cbn; intros b sc H HI; [contradiction|].
  destruct H as [H1 H2]. destruct HI as [<-|HI]; [exact H1|].
  specialize (IH _ _ H2 HI). lia.
Qed.

Lemma close_incl t g l sc : In sc (close t g l) -> In sc l.
Proof.
  induction l as [|a r IH]; cbn; [auto|]. destruct (is_tg t g a); cbn; intuition.
Qed.

Lemma desc_close t g l : forall b, desc b l -> desc b (close t g l).
Proof.
  induction l as [|a r IH]; cbn; intros b H; [exact I|]. destruct H as [H1 H2].
  destruct (is_tg t g a).
  - apply desc_weaken with (b := sc_g a); [exact H2|lia].
  - cbn. split; [exact H1|apply IH; exact H2].
Qed.

Lemma top_in t l sc : top t l = Some sc -> In sc l /\ sc_t sc = t.
Proof.
  unfold top. intros H. apply find_some in H. destruct H as [H1 H2]. split; [exact H1|].
  unfold of_thread in H2. apply N.eqb_eq in H2. exact H2.
Qed.

(* gids are unique: after closing the top scope (t, g) nothing with gid g remains *)
Lemma close_top_no_g t g l : forall b sc0, desc b l -> top t l = Some sc0 -> sc_g sc0 = g ->
  forall sc, In sc (close t g l) -> sc_g sc <> g.
Proof.
  induction l as [|a r IH]; cbn [close]; intros b sc0 HD HT HG sc HI; [contradiction|].
  destruct HD as [H1 H2]. unfold is_tg in HI. unfold top in HT. cbn [find] in HT. unfold of_thread at 1 in HT.
  destruct (sc_t a =? t) eqn:Et.
  - inversion HT; subst sc0. rewrite HG, N.eqb_refl in HI. cbn [andb] in HI.
    pose proof (desc_lt _ _ _ H2 HI). lia.
  - cbn [andb] in HI. destruct HI as [<-|HI].
    + apply find_some in HT. destruct HT as [HT _]. pose proof (desc_lt _ _ _ H2 HT). lia.
    + eapply IH; eauto.
Qed.

Lemma chain_ext gs gs' t l : forall c,
  (forall sc, In sc l -> gprev gs' (sc_g sc) = gprev gs (sc_g sc)) -> chain gs t c l -> chain gs' t c l.
Proof.
  induction l as [|a r IH]; cbn [chain]; intros c HE H; [exact H|].
  destruct (sc_t a =? t).
  - destruct H as [H1 H2]. split; [exact H1|]. rewrite HE by (left; reflexivity).
    apply IH; [intros; apply HE; right; assumption|exact H2].
  - apply IH; [intros; apply HE; right; assumption|exact H].
Qed.

Lemma chain_top gs t l : forall c, chain gs t c l -> c = option_map sc_r (top t l).
Proof.
  induction l as [|a r IH]; cbn [chain top find]; intros c H; [exact H|].
  unfold of_thread at 1. destruct (sc_t a =? t).
  - destruct H as [H _]. exact H.
  - apply IH. exact H.
Qed.

Lemma chain_close_same gs t g l : forall c sc0, top t l = Some sc0 -> sc_g sc0 = g ->
  chain gs t c l -> chain gs t (gprev gs g) (close t g l).
Proof.
  induction l as [|a r IH]; cbn [chain close]; intros c sc0 HT HG H; [discriminate|].
  unfold is_tg. unfold top in HT. cbn [find] in HT. unfold of_thread at 1 in HT. destruct (sc_t a =? t) eqn:Et.
  - inversion HT; subst sc0. rewrite HG, N.eqb_refl. cbn [andb]. destruct H as [_ H]. rewrite HG in H. exact H.
  - cbn [andb chain]. rewrite Et. eapply IH; eauto.
Qed.

Lemma chain_close_other gs t t' g l : forall c, t' <> t -> chain gs t' c l -> chain gs t' c (close t g l).
Proof.
  induction l as [|a r IH]; cbn [chain close]; intros c HN H; [exact H|].
  unfold is_tg. destruct (sc_t a =? t) eqn:Et.
  - apply N.eqb_eq in Et. destruct (sc_g a =? g) eqn:Eg; cbn [andb].
    + destruct (sc_t a =? t') eqn:Et'; [apply N.eqb_eq in Et'; congruence|exact H].
    + cbn [chain]. destruct (sc_t a =? t'); [destruct H; split; auto|auto].
  - cbn [andb chain]. destruct (sc_t a =? t'); [destruct H; split; auto|auto].
Qed.

Lemma holds_false_forget l t g : holds t g l = true -> exists sc, In sc l /\ sc_t sc = t /\ sc_g sc = g.
Proof.
  unfold holds. intros H. apply existsb_exists in H. destruct H as [sc [H1 H2]].
  exists sc. apply andb_prop in H2. destruct H2 as [H2 _]. unfold is_tg in H2.
  apply andb_prop in H2. destruct H2 as [Ha Hb]. apply N.eqb_eq in Ha, Hb. auto.
Qed.

(* one step preserves the invariant, for operations safe Rust admits that respect the discipline *)
Lemma inv_step s x o :
  Inv s x -> op_wf x o = true -> is_forget o = false -> bad_drop x o = false -> Inv (step s o) (sstep x o).
Proof.
  intros I HW HF HB. destruct I as [In_ Ig Il Id Iok Ich Iscl Igl].
  destruct o as [t r|t g|t g|r|r|t f a]; cbn [op_wf is_forget bad_drop] in *; try discriminate.
  - (* Install *)
    assert (Hfresh : forall sc, In sc (scopes x) ->
              lookup (sc_g sc) ({| g_id := next s; g_owner := t; g_rec := r; g_prev := tls s t; g_status := Alive |} :: guards s)
              = lookup (sc_g sc) (guards s)).
    { intros sc HI. cbn [lookup g_id]. pose proof (desc_lt _ _ _ Id HI) as HL. rewrite <- In_ in HL.
      destruct (next s =? sc_g sc) eqn:E; [apply N.eqb_eq in E; lia|reflexivity]. }
    constructor; cbn [step sstep next snext global sglobal live slive scopes guards tls].
    + rewrite In_. reflexivity.
    + exact Ig.
    + exact Il.
    + cbn [desc sc_g]. split; [lia|exact Id].
    + constructor.
      * split; [reflexivity|]. cbn [sc_g sc_t].
        exists {| g_id := next s; g_owner := t; g_rec := r; g_prev := tls s t; g_status := Alive |}.
        split; [|split; reflexivity]. cbn [lookup g_id]. rewrite <- In_, N.eqb_refl. reflexivity.
      * rewrite Forall_forall in *. intros sc HI. destruct (Iok sc HI) as [H1 [y [H2 H3]]].
        split; [exact H1|]. exists y. rewrite Hfresh by exact HI. auto.
    + intros t'. cbn [chain sc_t sc_r sc_g].
      assert (HE : forall c, chain (guards s) t' c (scopes x) ->
                chain ({| g_id := next s; g_owner := t; g_rec := r; g_prev := tls s t; g_status := Alive |} :: guards s) t' c (scopes x)).
      { intros c. apply chain_ext. intros sc HI. unfold gprev. rewrite Hfresh by exact HI. reflexivity. }
      destruct (t =? t') eqn:E.
      * apply N.eqb_eq in E. subst t'. rewrite upd_same. split; [reflexivity|].
        unfold gprev at 1. cbn [lookup g_id].
        replace (next s =? snext x) with true by (symmetry; apply N.eqb_eq; exact In_).
        cbn [g_prev]. apply HE. apply Ich.
      * rewrite upd_other by (intros ->; rewrite N.eqb_refl in E; discriminate). apply HE. apply Ich.
    + constructor; [exact HW|exact Iscl].
    + exact Igl.
  - (* DropGuard *)
    destruct (top t (scopes x)) as [sc0|] eqn:HT; [|discriminate].
    apply negb_false_iff in HB. apply N.eqb_eq in HB.
    destruct (top_in _ _ _ HT) as [HIn Ht0].
    pose proof Iok as Iok'. rewrite Forall_forall in Iok'. destruct (Iok' _ HIn) as [_ [y [Hy1 [Hy2 Hy3]]]].
    rewrite HB in Hy1.
    assert (Hheld : held s t g = Some y).
    { unfold held. rewrite Hy1, Hy2, Ht0, N.eqb_refl, Hy3. reflexivity. }
    cbn [step sstep]. rewrite Hheld, HW.
    constructor; cbn [next snext global sglobal live slive scopes guards tls].
    + exact In_.
    + exact Ig.
    + exact Il.
    + apply desc_close. exact Id.
    + rewrite Forall_forall. intros sc HI.
      pose proof (close_top_no_g _ _ _ _ _ Id HT HB _ HI) as HNg.
      destruct (Iok' _ (close_incl _ _ _ _ HI)) as [H1 [z [H2 H3]]].
      split; [exact H1|]. exists z. rewrite lookup_set_status_other by exact HNg. auto.
    + intros t'. apply chain_ext with (gs := guards s); [intros; apply gprev_set_status|].
      destruct (N.eq_dec t' t) as [->|HN].
      * rewrite upd_same. replace (g_prev y) with (gprev (guards s) g) by (unfold gprev; rewrite Hy1; reflexivity).
        eapply chain_close_same; eauto.
      * rewrite upd_other by exact HN. apply chain_close_other; [exact HN|apply Ich].
    + rewrite Forall_forall in *. intros sc HI. apply Iscl. eapply close_incl; eauto.
    + exact Igl.
  - (* EndBorrow *)
    apply andb_prop in HW. destruct HW as [HW1 HW2].
    constructor; cbn [step sstep next snext global sglobal live slive scopes guards tls]; auto.
    + intros r'. unfold upd. rewrite Il. reflexivity.
    + rewrite Forall_forall in *. intros sc HI. rewrite forallb_forall in HW1.
      specialize (HW1 _ HI). destruct (Iok _ HI) as [Hf _]. rewrite Hf in HW1. cbn [orb] in HW1.
      apply negb_true_iff in HW1. rewrite upd_other; [apply Iscl; exact HI|].
      intros E. rewrite E, N.eqb_refl in HW1. discriminate.
    + intros g Hg. rewrite Hg in HW2. cbn [opt_is] in HW2. apply negb_true_iff in HW2.
      rewrite upd_other; [apply Igl; exact Hg|]. intros E. rewrite E, N.eqb_refl in HW2. discriminate.
  - (* SetGlobal *)
    constructor; cbn [step sstep next snext global sglobal live slive scopes guards tls]; auto.
    + rewrite Ig. reflexivity.
    + intros g. destruct (sglobal x) as [g0|] eqn:E; intros Hg; inversion Hg; subst; auto.
  - (* Emit *)
    constructor; auto.
Qed.
