(* C01 — proofs, part 2: program-level theorems. *)
From Coq Require Import List NArith Bool Lia.
Import ListNotations.
Require Import MV.C01.Model MV.C01.Spec MV.C01.Exec MV.C01.Proofs.
Open Scope N_scope.

(* ----------------------------------------------------------------------- programs, prefixes *)
Lemma exec_app s p1 p2 : exec s (p1 ++ p2) = exec (exec s p1) p2.
Proof. unfold exec. apply fold_left_app. Qed.
Lemma sexec_app x p1 p2 : sexec x (p1 ++ p2) = sexec (sexec x p1) p2.
Proof. unfold sexec. apply fold_left_app. Qed.

Lemma run_app p1 : forall s p2, run s (p1 ++ p2) = run s p1 ++ run (exec s p1) p2.
Proof.
  induction p1 as [|o r IH]; intros s p2; [reflexivity|].
  destruct o; cbn [app run exec fold_left]; rewrite IH; reflexivity.
Qed.

Lemma wf_from_app p1 : forall x p2, wf_from x (p1 ++ p2) = wf_from x p1 && wf_from (sexec x p1) p2.
Proof.
  induction p1 as [|o r IH]; intros x p2; [reflexivity|].
  cbn [app wf_from sexec fold_left]. rewrite IH, andb_assoc. reflexivity.
Qed.
Lemma non_lifo_from_app p1 : forall x p2,
  non_lifo_from x (p1 ++ p2) = non_lifo_from x p1 || non_lifo_from (sexec x p1) p2.
Proof.
  induction p1 as [|o r IH]; intros x p2; [reflexivity|].
  cbn [app non_lifo_from sexec fold_left]. rewrite IH, orb_assoc. reflexivity.
Qed.
Lemma has_forget_app p1 p2 : has_forget (p1 ++ p2) = has_forget p1 || has_forget p2.
Proof. unfold has_forget. apply existsb_app. Qed.

(* the hypotheses of the refinement, from a state on *)
Definition disciplined (x : sst) (p : list op) : Prop :=
  wf_from x p = true /\ has_forget p = false /\ non_lifo_from x p = false.

Lemma disciplined_cons x o p : disciplined x (o :: p) ->
  op_wf x o = true /\ is_forget o = false /\ bad_drop x o = false /\ disciplined (sstep x o) p.
Proof.
  unfold disciplined, has_forget. cbn [wf_from existsb non_lifo_from]. intros [H1 [H2 H3]].
  apply andb_prop in H1. apply orb_false_iff in H2, H3. intuition.
Qed.

Lemma disciplined_prog p : wf_prog p = true -> lifo_prog p = true -> disciplined sinit p.
Proof.
  unfold wf_prog, lifo_prog, non_lifo_drop, disciplined. intros H1 H2.
  apply andb_prop in H2. destruct H2 as [H2 H3]. apply negb_true_iff in H2, H3. auto.
Qed.

Lemma disciplined_prefix x p1 p2 : disciplined x (p1 ++ p2) -> disciplined x p1.
Proof.
  unfold disciplined. rewrite wf_from_app, has_forget_app, non_lifo_from_app. intros [H1 [H2 H3]].
  apply andb_prop in H1. apply orb_false_iff in H2, H3. intuition.
Qed.

Lemma inv_exec p : forall s x, Inv s x -> disciplined x p -> Inv (exec s p) (sexec x p).
Proof.
  induction p as [|o r IH]; intros s x I D; [exact I|].
  apply disciplined_cons in D. destruct D as [H1 [H2 [H3 H4]]].
  cbn [exec sexec fold_left]. apply IH; [apply inv_step; assumption|exact H4].
Qed.

(* ------------------------------------------------- one emission, model against specification *)
Lemma emit_refines s x t f a : Inv s x ->
  obs_of (dispatch_of s t f a) = spec_emit x t f a /\ d_dead (dispatch_of s t f a) = false.
Proof.
  intros I. destruct I as [In_ Ig Il Id Iok Ich Iscl Igl].
  pose proof (chain_top _ _ _ _ (Ich t)) as HT.
  unfold obs_of, dispatch_of, spec_emit, receiver, target_of. cbn [d_target d_tid d_payload d_dead].
  rewrite HT. destruct (top t (scopes x)) as [sc|] eqn:E; cbn [option_map].
  - cbn [target_dead]. apply top_in in E. destruct E as [E _]. rewrite Forall_forall in Iscl.
    rewrite Il, (Iscl _ E), expand_spelled. cbn [negb]. split; reflexivity.
  - rewrite Ig. destruct (sglobal x) as [g|] eqn:Eg; cbn [target_dead].
    + rewrite Il, (Igl _ eq_refl), expand_spelled. cbn [negb]. split; reflexivity.
    + split; reflexivity.
Qed.

Lemma refine_run p : forall s x, Inv s x -> disciplined x p ->
  map obs_of (run s p) = srun x p /\ Forall (fun d => d_dead d = false) (run s p).
Proof.
  induction p as [|o r IH]; intros s x I D; [split; [reflexivity|constructor]|].
  pose proof (disciplined_cons _ _ _ D) as [H1 [H2 [H3 H4]]].
  pose proof (inv_step _ _ _ I H1 H2 H3) as I'.
  destruct o; cbn [run srun]; try (apply IH; assumption).
  cbn [step sstep] in *. destruct (IH _ _ I' H4) as [E1 E2].
  destruct (emit_refines s x t f a I) as [E3 E4].
  cbn [map]. rewrite E1, E3. split; [reflexivity|constructor; assumption].
Qed.

Theorem model_meets_spec p : wf_prog p = true -> lifo_prog p = true -> map obs_of (run init p) = srun sinit p.
Proof. intros H1 H2. apply refine_run; [apply inv_init|apply disciplined_prog; assumption]. Qed.

Theorem no_dispatch_after_scope_end_lifo p : wf_prog p = true -> lifo_prog p = true ->
  forall d, In d (run init p) -> d_dead d = false.
Proof.
  intros H1 H2. destruct (refine_run p init sinit inv_init (disciplined_prog _ H1 H2)) as [_ H].
  rewrite Forall_forall in H. exact H.
Qed.

Theorem dead_dispatch_only_in_known_classes p :
  wf_prog p = true -> dead_dispatch p = true -> non_lifo_drop p = true \/ has_forget p = true.
Proof.
  intros H1 H2. destruct (non_lifo_drop p) eqn:E1; [left; reflexivity|].
  destruct (has_forget p) eqn:E2; [right; reflexivity|]. exfalso.
  unfold dead_dispatch in H2. apply existsb_exists in H2. destruct H2 as [d [Hd1 Hd2]].
  assert (HL : lifo_prog p = true) by (unfold lifo_prog; rewrite E1, E2; reflexivity).
  rewrite (no_dispatch_after_scope_end_lifo p H1 HL d Hd1) in Hd2. discriminate.
Qed.

(* --------------------------------------------------------------------- the executable check *)
Lemma out_eqb_true a b : out_eqb a b = true <-> a = b.
Proof. unfold out_eqb. destruct (out_eq_dec a b); split; intros; congruence. Qed.

Theorem spec_ok_iff c o : spec_ok c o = true <-> (wf_prog (prog c) = true -> o = spec_outs c).
Proof.
  unfold spec_ok. destruct (wf_prog (prog c)); cbn [negb orb].
  - rewrite out_eqb_true. split; [intros H _; symmetry; exact H|intros H; symmetry; apply H; reflexivity].
  - split; [intros _ H; discriminate|reflexivity].
Qed.

Theorem spec_ok_on_model c : known_class c = None -> spec_ok c (run_case c) = true.
Proof.
  unfold known_class. intros H. apply spec_ok_iff. intros HW. unfold run_case, spec_outs.
  rewrite HW in H. cbn [negb] in H.
  destruct (non_lifo_drop (prog c)) eqn:E1; [discriminate|].
  destruct (has_forget (prog c)) eqn:E2; [discriminate|].
  apply model_meets_spec; [exact HW|]. unfold lifo_prog. rewrite E1, E2. reflexivity.
Qed.

Theorem known_class_none_iff c : known_class c = None <-> (wf_prog (prog c) = true /\ lifo_prog (prog c) = true).
Proof.
  unfold known_class, lifo_prog.
  destruct (wf_prog (prog c)), (non_lifo_drop (prog c)), (has_forget (prog c)); cbn; split; intros H;
    try discriminate; try (destruct H; discriminate); auto.
Qed.

(* ------------------------------------------------------- exactly once, precedence, payload *)
Theorem dispatch_once_to_precedence p1 t f a p2 :
  let s := exec init p1 in
  run init (p1 ++ Emit t f a :: p2) = run init p1 ++ dispatch_of s t f a :: run s p2 /\
  d_tid (dispatch_of s t f a) = t /\
  d_payload (dispatch_of s t f a) = spelled f a /\
  d_target (dispatch_of s t f a) =
    match tls s t with
    | Some r => TLocal r
    | None => match global s with Some g => TGlobal g | None => TNoop end
    end.
Proof.
  cbn zeta. rewrite run_app. cbn [run]. repeat split. apply expand_spelled.
Qed.

Fixpoint count_emits (p : list op) : nat :=
  match p with [] => 0%nat | Emit _ _ _ :: r => S (count_emits r) | _ :: r => count_emits r end.
Theorem one_entry_per_emit p : forall s, length (run s p) = count_emits p.
Proof. induction p as [|o r IH]; intros s; [reflexivity|]. destruct o; cbn [run count_emits length]; rewrite IH; reflexivity. Qed.

(* ---------------------------------------------------------------------------- scope end *)
(* dropping a guard writes back the pointer that was current when the guard was installed *)
Lemma gprev_stable g P : forall p s, g < next s -> gprev (guards s) g = P ->
  g < next (exec s p) /\ gprev (guards (exec s p)) g = P.
Proof.
  induction p as [|o r IH]; intros s H1 H2; [split; assumption|].
  cbn [exec fold_left]. apply IH.
  - destruct o; cbn [step]; try exact H1; cbn [next]; try lia.
    + destruct (held s t g0); exact H1.
    + destruct (held s t g0); exact H1.
  - destruct o; cbn [step]; try exact H2.
    + cbn [guards]. unfold gprev. cbn [lookup g_id].
      destruct (next s =? g) eqn:E; [apply N.eqb_eq in E; lia|exact H2].
    + destruct (held s t g0); [cbn [guards]; rewrite gprev_set_status|]; exact H2.
    + destruct (held s t g0); [cbn [guards]; rewrite gprev_set_status|]; exact H2.
Qed.

Lemma drop_restores_from s1 t r p2 s2 : s2 = exec (step s1 (Install t r)) p2 ->
  held s2 t (next s1) <> None -> tls (step s2 (DropGuard t (next s1))) t = tls s1 t.
Proof.
  intros Es H.
  destruct (gprev_stable (next s1) (tls s1 t) p2 (step s1 (Install t r))) as [_ HP].
  - cbn [step next]. lia.
  - cbn [step guards]. unfold gprev. cbn [lookup g_id]. rewrite N.eqb_refl. reflexivity.
  - rewrite <- Es in HP. cbn [step]. destruct (held s2 t (next s1)) as [y|] eqn:E; [|contradiction].
    cbn [tls]. rewrite upd_same. unfold held in E. unfold gprev in HP.
    destruct (lookup (next s1) (guards s2)) as [z|]; [|discriminate].
    destruct ((g_owner z =? t) && is_alive (g_status z)); [|discriminate]. inversion E; subst y. exact HP.
Qed.

Theorem drop_restores p1 t r p2 :
  let s1 := exec init p1 in
  let g := next s1 in
  let s2 := exec init (p1 ++ Install t r :: p2) in
  held s2 t g <> None -> tls (step s2 (DropGuard t g)) t = tls s1 t.
Proof.
  cbn zeta. intros H. apply drop_restores_from with (r := r) (p2 := p2); [|exact H].
  rewrite exec_app. reflexivity.
Qed.

(* under the discipline the thread-local pointer is, at every point of the program, the recorder
   of the thread's innermost open scope (None when it has none) *)
Theorem pointer_is_innermost_scope p1 p2 t : wf_prog (p1 ++ p2) = true -> lifo_prog (p1 ++ p2) = true ->
  tls (exec init p1) t = option_map sc_r (top t (scopes (sexec sinit p1))).
Proof.
  intros H1 H2. pose proof (disciplined_prefix _ _ _ (disciplined_prog _ H1 H2)) as D.
  pose proof (inv_exec p1 init sinit inv_init D) as I. apply (chain_top (guards (exec init p1))). apply I.
Qed.

(* -------------------------------------------------------------------------- refutations *)
Definition no_args : args := {| a_strs := []; a_lbls := []; a_unit := 0 |}.
Definition fifo_witness : case :=
  [SInstall 0 1; SInstall 0 2; SDrop 0 0; SDrop 0 1; SEndBorrow 1; SEndBorrow 2; SEmit 0 (site 0) no_args].
Definition forget_witness : case :=
  [SInstall 0 1; SForget 0 0; SEndBorrow 1; SEmit 0 (site 0) no_args].

Theorem fifo_refutes : exists c, wf_prog (prog c) = true /\ known_class c = Some 1 /\
  dead_dispatch (prog c) = true /\ spec_ok c (run_case c) = false.
Proof. exists fifo_witness. vm_compute. repeat split. Qed.

Theorem forget_refutes : exists c, wf_prog (prog c) = true /\ known_class c = Some 2 /\
  dead_dispatch (prog c) = true /\ spec_ok c (run_case c) = false.
Proof. exists forget_witness. vm_compute. repeat split. Qed.

(* ------------------------------------------------------------------------- non-vacuity *)
(* three-deep nesting on two threads, a panic in the middle, a global recorder: well-formed, LIFO,
   and the log has entries on all three kinds of target *)
Definition nest_example : case :=
  [SEmit 1 (site 0) no_args;
   SEnter 0 1; SInstall 0 2; SEmit 0 (site 5) no_args; SDrop 0 1;
   SEnter 0 3; SEnter 0 4; SEnter 1 2; SEmit 0 (site 100) no_args; SEmit 1 (site 7) no_args;
   SPanic 0; SEmit 0 (site 190) no_args; SSetGlobal 5; SEmit 0 (site 1) no_args; SExit 1; SEmit 1 (site 2) no_args;
   SEndBorrow 1; SEndBorrow 3; SEmit 0 (site 3) no_args].
Example nest_example_ok :
  wf_prog (prog nest_example) = true /\ lifo_prog (prog nest_example) = true /\
  map d_target (run init (prog nest_example)) = [TNoop; TLocal 2; TLocal 4; TLocal 2; TNoop; TGlobal 5; TGlobal 5; TGlobal 5] /\
  spec_ok nest_example (run_case nest_example) = true.
Proof. vm_compute. repeat split. Qed.
