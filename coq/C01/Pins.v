From Coq Require Import List NArith Bool.
Import ListNotations.
Require Import MV.C01.Model MV.C01.Spec MV.C01.Exec MV.C01.Proofs MV.C01.Proofs2 MV.C01.Proofs3 MV.C01.Proofs4.
Open Scope N_scope.
Require Import MV.C01.Properties.

Check (C01_model_meets_spec : forall p, wf_prog p = true -> lifo_prog p = true ->
  map obs_of (run init p) = srun sinit p).
Print Assumptions C01_model_meets_spec.
Check (C01_spec_ok_on_model : forall c, known_class c = None -> spec_ok c (run_case c) = true).
Print Assumptions C01_spec_ok_on_model.
Check (C01_known_class_none_iff : forall c, known_class c = None <-> (wf_prog (prog c) = true /\ lifo_prog (prog c) = true)).
Print Assumptions C01_known_class_none_iff.
Check (C01_spec_ok_iff : forall c o, spec_ok c o = true <-> (wf_prog (prog c) = true -> o = spec_outs c)).
Print Assumptions C01_spec_ok_iff.
Check (C01_expand_is_what_the_site_spells : forall f a, expand f a = spelled f a).
Print Assumptions C01_expand_is_what_the_site_spells.
Check (C01_dispatch_once_to_precedence : forall p1 t f a p2,
  let s := exec init p1 in
  run init (p1 ++ Emit t f a :: p2) = run init p1 ++ dispatch_of s t f a :: run s p2 /\
  d_tid (dispatch_of s t f a) = t /\
  d_payload (dispatch_of s t f a) = spelled f a /\
  d_target (dispatch_of s t f a) =
    match tls s t with
    | Some r => TLocal r
    | None => match global s with Some g => TGlobal g | None => TNoop end
    end).
Print Assumptions C01_dispatch_once_to_precedence.
Check (C01_one_log_entry_per_emit : forall p s, length (run s p) = count_emits p).
Print Assumptions C01_one_log_entry_per_emit.
Check (C01_thread_isolation : forall s o t', actor o <> Some t' -> tls (step s o) t' = tls s t').
Print Assumptions C01_thread_isolation.
Check (C01_local_target_only_from_own_guard : forall p t r,
  tls (exec init p) t = Some r ->
  exists x, In x (guards (exec init p)) /\ g_owner x = t /\ g_rec x = r).
Print Assumptions C01_local_target_only_from_own_guard.
Check (C01_scope_end_restores : forall p1 t r p2,
  let s1 := exec init p1 in
  let g := next s1 in
  let s2 := exec init (p1 ++ Install t r :: p2) in
  held s2 t g <> None -> tls (step s2 (DropGuard t g)) t = tls s1 t).
Print Assumptions C01_scope_end_restores.
Check (C01_pointer_is_innermost_open_scope : forall p1 p2 t,
  wf_prog (p1 ++ p2) = true -> lifo_prog (p1 ++ p2) = true ->
  tls (exec init p1) t = option_map sc_r (top t (scopes (sexec sinit p1)))).
Print Assumptions C01_pointer_is_innermost_open_scope.
Check (C01_with_local_nesting_is_lifo : forall c, only_scoped c = true ->
  wf_prog (prog c) = true /\ lifo_prog (prog c) = true).
Print Assumptions C01_with_local_nesting_is_lifo.
Check (C01_no_dispatch_after_scope_end_lifo : forall p, wf_prog p = true -> lifo_prog p = true ->
  forall d, In d (run init p) -> d_dead d = false).
Print Assumptions C01_no_dispatch_after_scope_end_lifo.
Check (C01_dead_dispatch_only_in_known_classes : forall p,
  wf_prog p = true -> dead_dispatch p = true -> non_lifo_drop p = true \/ has_forget p = true).
Print Assumptions C01_dead_dispatch_only_in_known_classes.
Check (C01_fifo_refutes : exists c, wf_prog (prog c) = true /\ known_class c = Some 1 /\
  dead_dispatch (prog c) = true /\ spec_ok c (run_case c) = false).
Print Assumptions C01_fifo_refutes.
Check (C01_forget_refutes : exists c, wf_prog (prog c) = true /\ known_class c = Some 2 /\
  dead_dispatch (prog c) = true /\ spec_ok c (run_case c) = false).
Print Assumptions C01_forget_refutes.
