(* C01 — proofs, part 3: a local target always comes from a guard of the same thread; every nesting
   of with_local_recorder closures (with or without panics) lowers to a well-formed LIFO program. *)
From Coq Require Import List NArith Bool Lia.
Import ListNotations.
Require Import MV.C01.Model MV.C01.Spec MV.C01.Exec MV.C01.Proofs MV.C01.Proofs2.
Open Scope N_scope.

(* ----------------------------------------------------------- locals come from own guards *)
Definition own (gs : list guard) (t : tid) (r : rid) : Prop :=
  exists x, In x gs /\ g_owner x = t /\ g_rec x = r.

Definition K (s : st) : Prop :=
  (forall t r, tls s t = Some r -> own (guards s) t r) /\
  (forall x, In x (guards s) -> forall r, g_prev x = Some r -> own (guards s) (g_owner x) r).

Lemma lookup_in g l x : lookup g l = Some x -> In x l.
Proof.
  induction l as [|a r IH]; cbn [lookup]; [discriminate|].
  destruct (g_id a =? g); [intros H; inversion H; left; reflexivity|intros H; right; auto].
Qed.

Lemma set_status_in g st l x : In x (set_status g st l) ->
  exists x0, In x0 l /\ g_owner x = g_owner x0 /\ g_rec x = g_rec x0 /\ g_prev x = g_prev x0.
Proof.
  induction l as [|a r IH]; cbn [set_status]; [intros []|].
  destruct (g_id a =? g).
  - intros [E|H]; [subst x; exists a; cbn; auto|exists x; cbn; auto].
  - intros [E|H]; [subst x; exists a; cbn; auto|].
    destruct (IH H) as [x0 [H1 H2]]. exists x0. cbn. auto.
Qed.

Lemma own_set_status g st l t r : own l t r -> own (set_status g st l) t r.
Proof.
  intros [x [H1 [H2 H3]]]. induction l as [|a l' IH]; [destruct H1|].
  cbn [set_status]. destruct (g_id a =? g) eqn:E.
  - destruct H1 as [->|H1].
    + exists (with_status x st). cbn. auto.
    + exists x. cbn. auto.
  - destruct H1 as [->|H1].
    + exists x. cbn. auto.
    + destruct (IH H1) as [y [Hy1 Hy2]]. exists y. cbn. auto.
Qed.

Lemma own_cons a l t r : own l t r -> own (a :: l) t r.
Proof. intros [x [H1 H2]]. exists x. cbn. auto. Qed.

Lemma held_some s t g y : held s t g = Some y -> In y (guards s) /\ g_owner y = t.
Proof.
  unfold held. destruct (lookup g (guards s)) as [z|] eqn:E; [|discriminate].
  destruct (g_owner z =? t) eqn:Eo; cbn [andb]; [|discriminate].
  destruct (is_alive (g_status z)); [|discriminate]. intros H; inversion H; subst.
  split; [eapply lookup_in; eauto|apply N.eqb_eq; exact Eo].
Qed.

Lemma K_set_status s g st : K s ->
  forall x, In x (set_status g st (guards s)) -> forall r, g_prev x = Some r ->
  own (set_status g st (guards s)) (g_owner x) r.
Proof.
  intros [_ K2] x HI r HP. destruct (set_status_in _ _ _ _ HI) as [x0 [H0 [Ho [_ Hp]]]].
  rewrite Ho. apply own_set_status. apply K2; [exact H0|congruence].
Qed.

Lemma K_step s o : K s -> K (step s o).
Proof.
  intros HK. pose proof HK as [K1 K2].
  destruct o as [t r|t g|t g|r|r|t f a]; cbn [step]; try exact HK.
  - split; cbn [tls guards].
    + intros t' r' H. unfold upd in H. destruct (t' =? t) eqn:E.
      * apply N.eqb_eq in E. inversion H; subst. eexists. split; [left; reflexivity|cbn; auto].
      * apply own_cons. apply K1. exact H.
    + intros x [<-|HI] r' HP; cbn [g_prev g_owner] in *; apply own_cons; auto.
  - destruct (held s t g) as [y|] eqn:E; [|exact HK]. destruct (held_some _ _ _ _ E) as [Hy1 Hy2].
    split; cbn [tls guards].
    + intros t' r' H. unfold upd in H. destruct (t' =? t) eqn:E'.
      * apply N.eqb_eq in E'. subst t'. apply own_set_status. rewrite <- Hy2. apply K2; assumption.
      * apply own_set_status. apply K1. exact H.
    + apply K_set_status. exact HK.
  - destruct (held s t g) as [y|] eqn:E; [|exact HK].
    split; cbn [tls guards].
    + intros t' r' H. apply own_set_status. apply K1. exact H.
    + apply K_set_status. exact HK.
Qed.

Theorem local_only_from_own_guard p t r :
  tls (exec init p) t = Some r -> exists x, In x (guards (exec init p)) /\ g_owner x = t /\ g_rec x = r.
Proof.
  assert (H : forall p s, K s -> K (exec s p)).
  { induction p0 as [|o q IH]; intros s HK; [exact HK|]. cbn [exec fold_left]. apply IH. apply K_step. exact HK. }
  assert (K0 : K init) by (split; cbn; [discriminate|contradiction]).
  intros E. destruct (H p init K0) as [K1 _]. exact (K1 t r E).
Qed.
