(* C01 — proofs, part 4: every nesting of with_local_recorder closures, on any number of threads,
   with or without panics (and with emissions / set_global_recorder anywhere), lowers to a program
   that safe Rust admits and that closes its scopes innermost-first. *)
From Coq Require Import List NArith Bool Lia.
Import ListNotations.
Require Import MV.C01.Model MV.C01.Spec MV.C01.Exec MV.C01.Proofs MV.C01.Proofs2.
Open Scope N_scope.

Definition scoped_op (o : sop) : bool :=
  match o with
  | SEnter _ _ | SExit _ | SPanic _ | SEmit _ _ _ | SSetGlobal _ => true
  | SInstall _ _ | SDrop _ _ | SForget _ _ | SEndBorrow _ => false
  end.
Definition only_scoped (c : list sop) : bool := forallb scoped_op c.

(* the open scopes of thread t, innermost first *)
Definition stack (t : tid) (l : list scope) : list gid := map sc_g (filter (of_thread t) l).

Record R (ls : lst) (x : sst) : Prop := {
  r_next : l_next ls = snext x;
  r_live : forall r, slive x r = true;
  r_stack : forall t, stack t (scopes x) = l_frames ls t;
  r_forgot : Forall (fun sc => sc_forgot sc = false) (scopes x)
}.

Lemma disciplined_app x p1 p2 : disciplined x p1 -> disciplined (sexec x p1) p2 -> disciplined x (p1 ++ p2).
Proof.
  unfold disciplined. rewrite wf_from_app, has_forget_app, non_lifo_from_app.
  intros [A1 [A2 A3]] [B1 [B2 B3]]. rewrite A1, A2, A3, B1, B2, B3. auto.
Qed.

Lemma stack_top t l g fs : stack t l = g :: fs -> exists sc, top t l = Some sc /\ sc_g sc = g.
Proof.
  unfold stack, top. induction l as [|a r IH]; cbn [filter find map]; [discriminate|].
  destruct (of_thread t a); cbn [map].
  - intros H. inversion H. exists a. auto.
  - exact IH.
Qed.

Lemma stack_close_same t l : forall g fs, stack t l = g :: fs -> stack t (close t g l) = fs.
Proof.
  unfold stack. induction l as [|a r IH]; cbn [filter close map]; intros g fs H; [discriminate|].
  unfold is_tg. unfold of_thread in *. destruct (sc_t a =? t) eqn:Et; cbn [map andb] in *.
  - inversion H. rewrite N.eqb_refl. reflexivity.
  - cbn [filter]. unfold of_thread. rewrite Et. apply IH. exact H.
Qed.

Lemma stack_close_other t t' g l : t' <> t -> stack t' (close t g l) = stack t' l.
Proof.
  intros HN. unfold stack. induction l as [|a r IH]; cbn [filter close map]; [reflexivity|].
  unfold is_tg. unfold of_thread in *. destruct (sc_t a =? t) eqn:Et; cbn [andb].
  - apply N.eqb_eq in Et. destruct (sc_g a =? g).
    + destruct (sc_t a =? t') eqn:Et'; [apply N.eqb_eq in Et'; congruence|reflexivity].
    + cbn [filter]. unfold of_thread. destruct (sc_t a =? t'); cbn [map]; rewrite IH; reflexivity.
  - cbn [filter]. unfold of_thread. destruct (sc_t a =? t'); cbn [map]; rewrite IH; reflexivity.
Qed.

(* closing the innermost scope of t is admitted, is LIFO, and pops t's stack *)
Lemma drop_top_ok x t g fs :
  Forall (fun sc => sc_forgot sc = false) (scopes x) -> stack t (scopes x) = g :: fs ->
  op_wf x (DropGuard t g) = true /\ bad_drop x (DropGuard t g) = false /\
  sstep x (DropGuard t g) = {| scopes := close t g (scopes x); snext := snext x; sglobal := sglobal x; slive := slive x |}.
Proof.
  intros HF HS. destruct (stack_top _ _ _ _ HS) as [sc [HT HG]].
  destruct (top_in _ _ _ HT) as [HI Ht].
  assert (HH : holds t g (scopes x) = true).
  { unfold holds. apply existsb_exists. exists sc. split; [exact HI|].
    rewrite Forall_forall in HF. rewrite (HF _ HI). unfold is_tg. rewrite Ht, HG, !N.eqb_refl. reflexivity. }
  cbn [op_wf bad_drop sstep]. rewrite HH, HT, HG, N.eqb_refl. auto.
Qed.

Lemma forgot_close t g l : Forall (fun sc => sc_forgot sc = false) l -> Forall (fun sc => sc_forgot sc = false) (close t g l).
Proof. rewrite !Forall_forall. intros H sc HI. apply H. eapply close_incl; eauto. Qed.

(* a panic on t: every open with_local_recorder frame of t is closed, innermost first *)
Lemma unwind_ok t : forall fs x,
  Forall (fun sc => sc_forgot sc = false) (scopes x) -> stack t (scopes x) = fs ->
  disciplined x (map (DropGuard t) fs) /\
  let x' := sexec x (map (DropGuard t) fs) in
  stack t (scopes x') = [] /\ (forall t', t' <> t -> stack t' (scopes x') = stack t' (scopes x)) /\
  slive x' = slive x /\ Forall (fun sc => sc_forgot sc = false) (scopes x').
Proof.
  induction fs as [|g fs IH]; intros x HF HS.
  - cbn. unfold disciplined. cbn. auto.
  - destruct (drop_top_ok x t g fs HF HS) as [W [B E]].
    set (x1 := sstep x (DropGuard t g)).
    assert (HF1 : Forall (fun sc => sc_forgot sc = false) (scopes x1)).
    { unfold x1. rewrite E. cbn [scopes]. apply forgot_close. exact HF. }
    assert (HS1 : stack t (scopes x1) = fs).
    { unfold x1. rewrite E. cbn [scopes]. apply stack_close_same. exact HS. }
    destruct (IH x1 HF1 HS1) as [D [S1 [S2 [S3 S4]]]].
    split.
    + destruct D as [D1 [D2 D3]]. unfold disciplined, has_forget in *.
      cbn [map wf_from existsb non_lifo_from is_forget]. fold x1. rewrite W, B, D1, D3.
      cbn [andb orb]. auto.
    + cbn zeta in *. cbn [map sexec fold_left]. fold x1. fold (sexec x1 (map (DropGuard t) fs)).
      split; [exact S1|]. split; [|split; [|exact S4]].
      * intros t' HN. rewrite (S2 t' HN). unfold x1. rewrite E. cbn [scopes]. apply stack_close_other. exact HN.
      * rewrite S3. unfold x1. rewrite E. reflexivity.
Qed.

Lemma scoped_step ls x o : R ls x -> scoped_op o = true ->
  disciplined x (snd (lower1 ls o)) /\ R (fst (lower1 ls o)) (sexec x (snd (lower1 ls o))).
Proof.
  intros [RN RL RS RF] HO. destruct o as [t r|t g|t g|r|r|t f a|t r|t|t]; try discriminate; cbn [lower1 fst snd].
  - (* SSetGlobal *)
    split; [unfold disciplined, has_forget; cbn; rewrite RL; auto|].
    constructor; cbn; auto.
  - (* SEmit *)
    split; [unfold disciplined, has_forget; cbn; auto|]. constructor; cbn; auto.
  - (* SEnter *)
    split; [unfold disciplined, has_forget; cbn; rewrite RL; auto|].
    constructor; cbn [sexec fold_left sstep scopes slive snext l_frames l_next]; auto.
    + rewrite RN. reflexivity.
    + intros t'. unfold stack. cbn [filter]. unfold of_thread at 1. cbn [sc_t]. unfold upd.
      destruct (t =? t') eqn:E.
      * apply N.eqb_eq in E. subst t'. rewrite N.eqb_refl. cbn [map sc_g]. rewrite RN. f_equal. apply RS.
      * rewrite N.eqb_sym, E. apply RS.
  - (* SExit *)
    destruct (l_frames ls t) as [|g fs] eqn:EF; cbn [fst snd].
    + split; [unfold disciplined, has_forget; cbn; auto|]. constructor; cbn; auto.
    + assert (HS : stack t (scopes x) = g :: fs) by (rewrite RS; exact EF).
      destruct (drop_top_ok x t g fs RF HS) as [W [B E]].
      split; [unfold disciplined, has_forget; cbn [wf_from existsb non_lifo_from is_forget]; rewrite W, B; auto|].
      cbn [sexec fold_left]. rewrite E.
      constructor; cbn [scopes slive snext l_frames l_next]; auto.
      * intros t'. unfold upd. destruct (t' =? t) eqn:Et.
        -- apply N.eqb_eq in Et. subst t'. apply stack_close_same. exact HS.
        -- rewrite stack_close_other; [apply RS|]. intros ->. rewrite N.eqb_refl in Et. discriminate.
      * apply forgot_close. exact RF.
  - (* SPanic *)
    destruct (unwind_ok t (l_frames ls t) x RF (RS t)) as [D [S1 [S2 [S3 S4]]]].
    split; [exact D|]. cbn zeta in *.
    constructor; cbn [l_frames l_next]; auto.
    + rewrite RN. clear. generalize x. induction (l_frames ls t) as [|g fs IH]; intros x0; [reflexivity|].
      cbn [map sexec fold_left]. fold (sexec (sstep x0 (DropGuard t g)) (map (DropGuard t) fs)). rewrite <- IH.
      cbn [sstep]. destruct (holds t g (scopes x0)); reflexivity.
    + intros r. rewrite S3. apply RL.
    + intros t'. unfold upd. destruct (t' =? t) eqn:Et.
      * apply N.eqb_eq in Et. subst t'. exact S1.
      * rewrite S2; [apply RS|]. intros ->. rewrite N.eqb_refl in Et. discriminate.
Qed.

Lemma scoped_prog c : forall ls x, R ls x -> only_scoped c = true -> disciplined x (lower ls c).
Proof.
  induction c as [|o r IH]; intros ls x HR HO; [unfold disciplined; cbn; auto|].
  cbn [only_scoped forallb] in HO. apply andb_prop in HO. destruct HO as [HO1 HO2].
  destruct (scoped_step ls x o HR HO1) as [D HR'].
  cbn [lower]. destruct (lower1 ls o) as [ls' ops]. cbn [fst snd] in *.
  apply disciplined_app; [exact D|]. apply IH; assumption.
Qed.

Theorem with_local_nesting_is_lifo c : only_scoped c = true ->
  wf_prog (prog c) = true /\ lifo_prog (prog c) = true.
Proof.
  intros H. assert (R0 : R linit sinit) by (constructor; cbn; auto).
  destruct (scoped_prog c linit sinit R0 H) as [D1 [D2 D3]].
  unfold wf_prog, lifo_prog, non_lifo_drop, prog. rewrite D1, D2, D3. auto.
Qed.
