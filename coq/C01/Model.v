(* C01 — model of metrics/src/recorder/mod.rs (LOCAL_RECORDER, LocalRecorderGuard::new / Drop,
   set_default_local_recorder, with_local_recorder, with_recorder, set_global_recorder) and of the
   macro layer of metrics/src/macros.rs (key_var!, metadata_var!, counter!/gauge!/histogram!,
   describe!, describe_*!).  Definitions only.

   Recorders are identifiers.  The thread-local `Cell<Option<NonNull<dyn Recorder>>>` is
   [tls : tid -> option rid]; a guard is a record holding `prev_recorder`; `live r` says that the
   borrow `&'a dyn Recorder` the recorder was installed through is still running (the harness
   double's "in scope" flag).  The unsafe transmute is not modelled: a dispatch to a recorder with
   [live r = false] is what a dangling dereference is in the real program.                          *)
From Coq Require Import List NArith Bool.
Import ListNotations.
Open Scope N_scope.

Definition tid := N.
Definition rid := N.
Definition gid := N.
Definition str := list N.          (* UTF-8 bytes *)

(* ------------------------------------------------------------------------------ macro layer *)
Inductive call := RegCounter | RegGauge | RegHistogram | DescCounter | DescGauge | DescHistogram.

(* what is written at a macro argument position: a literal token, a constant expression (takes the
   `$x:expr` arms), or a String computed at run time (the i-th string of the arguments) *)
Inductive vsrc := VLit (s : str) | VConst (s : str) | VArg (i : N).
Inductive lsrc :=
| LNone                                  (* no labels *)
| LPairs (l : list (vsrc * vsrc))        (* `k => v, ...` *)
| LColl (kind : N).                      (* one expression implementing IntoLabels *)
Inductive usrc := UNone | ULit (u : N) | UArg.

(* a call site: which macro, and what is written in each position (None = prefix not written) *)
Record form := { f_call : call; f_name : vsrc; f_labels : lsrc; f_target : option str; f_level : option N;
                 f_unit : usrc; f_desc : vsrc }.
(* the run-time values a call site may read *)
Record args := { a_strs : list str; a_lbls : list (str * str); a_unit : N }.

Record metadata := { m_target : str; m_level : N; m_module : option str }.
(* what the recorder method receives *)
Record payload := { p_call : call; p_name : str; p_labels : list (str * str); p_meta : option metadata;
                    p_unit : option N; p_desc : str }.

(* ::std::module_path!() at the call sites of the table: "c01::sites" *)
Definition here : str := [99; 48; 49; 58; 58; 115; 105; 116; 101; 115].
Definition level_info : N := 2.     (* TRACE 0, DEBUG 1, INFO 2, WARN 3, ERROR 4 *)

Definition ev (a : args) (v : vsrc) : str :=
  match v with VLit s => s | VConst s => s | VArg i => nth (N.to_nat i) (a_strs a) [] end.
Definition is_lit (v : vsrc) : bool := match v with VLit _ => true | _ => false end.

(* key_var!: the arm is selected by the token classes; each arm builds a Key from the name and the
   labels in the order written *)
Inductive key_arm := KStaticName | KFromName | KStaticParts | KStaticLabels | KFromPartsPairs | KFromPartsColl.
Definition key_var_arm (f : form) : key_arm :=
  match f_labels f with
  | LNone => if is_lit (f_name f) then KStaticName else KFromName
  | LPairs l =>
      if forallb (fun kv => is_lit (fst kv) && is_lit (snd kv)) l
      then (if is_lit (f_name f) then KStaticParts else KStaticLabels)
      else KFromPartsPairs
  | LColl _ => KFromPartsColl
  end.
Definition pairs_of (f : form) : list (vsrc * vsrc) := match f_labels f with LPairs l => l | _ => [] end.
Definition key_var (f : form) (a : args) : str * list (str * str) :=
  match key_var_arm f with
  | KStaticName => (ev a (f_name f), [])                         (* Key::from_static_name($name) *)
  | KFromName => (ev a (f_name f), [])                           (* Key::from_name($name) *)
  | KStaticParts                                                  (* Key::from_static_parts($name, &LABELS) *)
  | KStaticLabels                                                 (* Key::from_static_labels($name, &LABELS) *)
  | KFromPartsPairs =>                                            (* Key::from_parts($name, vec![Label::new(k, v), ..]) *)
      (ev a (f_name f), map (fun kv => (ev a (fst kv), ev a (snd kv))) (pairs_of f))
  | KFromPartsColl => (ev a (f_name f), a_lbls a)                (* Key::from_parts($name, $labels) : into_labels keeps order *)
  end.

(* metadata_var!($target, $level) *)
Definition metadata_var (target : str) (level : N) : metadata :=
  {| m_target := target; m_level := level; m_module := Some here |}.

(* counter!/gauge!/histogram!: the three short arms forward to the first one *)
Definition reg_macro (f : form) (a : args) : payload :=
  let '(target, level) :=
    match f_target f, f_level f with
    | Some t, Some l => (t, l)
    | Some t, None => (t, level_info)
    | None, Some l => (here, l)
    | None, None => (here, level_info)
    end in
  let '(name, labels) := key_var f a in
  {| p_call := f_call f; p_name := name; p_labels := labels; p_meta := Some (metadata_var target level);
     p_unit := None; p_desc := [] |}.

(* describe!: the arm with a unit passes Some($unit), the other None *)
Definition describe_macro (f : form) (a : args) : payload :=
  match f_unit f with
  | UNone => {| p_call := f_call f; p_name := ev a (f_name f); p_labels := []; p_meta := None;
                p_unit := None; p_desc := ev a (f_desc f) |}
  | ULit u => {| p_call := f_call f; p_name := ev a (f_name f); p_labels := []; p_meta := None;
                 p_unit := Some u; p_desc := ev a (f_desc f) |}
  | UArg => {| p_call := f_call f; p_name := ev a (f_name f); p_labels := []; p_meta := None;
               p_unit := Some (a_unit a); p_desc := ev a (f_desc f) |}
  end.

Definition is_reg (c : call) : bool :=
  match c with RegCounter | RegGauge | RegHistogram => true | _ => false end.
Definition expand (f : form) (a : args) : payload :=
  if is_reg (f_call f) then reg_macro f a else describe_macro f a.

(* --------------------------------------------------------------------------- recorder layer *)
Inductive gstatus := Alive | Dropped | Forgotten.
Record guard := { g_id : gid; g_owner : tid; g_rec : rid; g_prev : option rid; g_status : gstatus }.

Inductive target := TLocal (r : rid) | TGlobal (r : rid) | TNoop.
Record dispatch := { d_target : target; d_tid : tid; d_payload : payload; d_dead : bool }.

Record st := { tls : tid -> option rid; guards : list guard; next : gid; global : option rid; live : rid -> bool }.
Definition init : st :=
  {| tls := fun _ => None; guards := []; next := 0; global := None; live := fun _ => true |}.

Inductive op :=
| Install (t : tid) (r : rid)        (* let g = set_default_local_recorder(&rec_r), g = next guard id *)
| DropGuard (t : tid) (g : gid)      (* drop(g) *)
| Forget (t : tid) (g : gid)         (* mem::forget(g) *)
| EndBorrow (r : rid)                (* the lifetime 'a of `&'a rec_r` ends *)
| SetGlobal (r : rid)                (* set_global_recorder(rec_r) *)
| Emit (t : tid) (f : form) (a : args).

Definition upd {A} (f : N -> A) (k : N) (v : A) : N -> A := fun x => if x =? k then v else f x.

Fixpoint lookup (g : gid) (l : list guard) : option guard :=
  match l with
  | [] => None
  | x :: r => if g_id x =? g then Some x else lookup g r
  end.
Definition with_status (x : guard) (s : gstatus) : guard :=
  {| g_id := g_id x; g_owner := g_owner x; g_rec := g_rec x; g_prev := g_prev x; g_status := s |}.
Fixpoint set_status (g : gid) (s : gstatus) (l : list guard) : list guard :=
  match l with
  | [] => []
  | x :: r => if g_id x =? g then with_status x s :: r else x :: set_status g s r
  end.
Definition is_alive (s : gstatus) : bool := match s with Alive => true | _ => false end.

(* a guard operation is possible only for the thread that holds the guard (it is !Send) and only
   once; anything else is not a program and leaves the state alone *)
Definition held (s : st) (t : tid) (g : gid) : option guard :=
  match lookup g (guards s) with
  | Some x => if (g_owner x =? t) && is_alive (g_status x) then Some x else None
  | None => None
  end.

Definition step (s : st) (o : op) : st :=
  match o with
  | Install t r =>
      (* LocalRecorderGuard::new: prev_recorder = LOCAL_RECORDER.replace(Some(ptr)) *)
      {| tls := upd (tls s) t (Some r);
         guards := {| g_id := next s; g_owner := t; g_rec := r; g_prev := tls s t; g_status := Alive |} :: guards s;
         next := next s + 1; global := global s; live := live s |}
  | DropGuard t g =>
      match held s t g with
      | Some x =>
          (* Drop: LOCAL_RECORDER.replace(self.prev_recorder.take()) *)
          {| tls := upd (tls s) t (g_prev x); guards := set_status g Dropped (guards s);
             next := next s; global := global s; live := live s |}
      | None => s
      end
  | Forget t g =>
      match held s t g with
      | Some x => {| tls := tls s; guards := set_status g Forgotten (guards s);
                     next := next s; global := global s; live := live s |}
      | None => s
      end
  | EndBorrow r =>
      {| tls := tls s; guards := guards s; next := next s; global := global s; live := upd (live s) r false |}
  | SetGlobal r =>
      (* RecorderOnceCell::set: only the first call installs (C02) *)
      {| tls := tls s; guards := guards s; next := next s;
         global := match global s with None => Some r | Some g => Some g end; live := live s |}
  | Emit _ _ _ => s
  end.

(* with_recorder: local, else global, else the no-op recorder *)
Definition target_of (s : st) (t : tid) : target :=
  match tls s t with
  | Some r => TLocal r
  | None => match global s with Some g => TGlobal g | None => TNoop end
  end.
Definition target_dead (s : st) (x : target) : bool :=
  match x with TLocal r => negb (live s r) | TGlobal r => negb (live s r) | TNoop => false end.
Definition dispatch_of (s : st) (t : tid) (f : form) (a : args) : dispatch :=
  {| d_target := target_of s t; d_tid := t; d_payload := expand f a; d_dead := target_dead s (target_of s t) |}.

Definition exec (s : st) (p : list op) : st := fold_left step p s.

(* the dispatch log: one entry per Emit, in program order *)
Fixpoint run (s : st) (p : list op) : list dispatch :=
  match p with
  | [] => []
  | Emit t f a :: r => dispatch_of s t f a :: run s r
  | o :: r => run (step s o) r
  end.

(* ------------------------------------------------------------- surface programs and lowering *)
(* with_local_recorder(&rec_r, || body) is `SEnter t r; body; SExit t`: the guard is a local of
   with_local_recorder, dropped when the closure returns; a panic in the closure unwinds every
   with_local_recorder frame of the thread, innermost first.  Guards made by SInstall live in a
   table outside all closures.  [lower] resolves these forms to the six operations above. *)
Inductive sop :=
| SInstall (t : tid) (r : rid) | SDrop (t : tid) (g : gid) | SForget (t : tid) (g : gid)
| SEndBorrow (r : rid) | SSetGlobal (r : rid) | SEmit (t : tid) (f : form) (a : args)
| SEnter (t : tid) (r : rid) | SExit (t : tid) | SPanic (t : tid).

Record lst := { l_next : gid; l_frames : tid -> list gid; l_fgids : list gid }.
Definition linit : lst := {| l_next := 0; l_frames := fun _ => []; l_fgids := [] |}.
Definition mem (g : gid) (l : list gid) : bool := existsb (N.eqb g) l.

Definition lower1 (ls : lst) (o : sop) : lst * list op :=
  match o with
  | SInstall t r => ({| l_next := l_next ls + 1; l_frames := l_frames ls; l_fgids := l_fgids ls |}, [Install t r])
  | SEnter t r =>
      ({| l_next := l_next ls + 1; l_frames := upd (l_frames ls) t (l_next ls :: l_frames ls t);
          l_fgids := l_next ls :: l_fgids ls |}, [Install t r])
  | SExit t =>
      match l_frames ls t with
      | [] => (ls, [])
      | g :: fs => ({| l_next := l_next ls; l_frames := upd (l_frames ls) t fs; l_fgids := l_fgids ls |}, [DropGuard t g])
      end
  | SPanic t =>
      ({| l_next := l_next ls; l_frames := upd (l_frames ls) t []; l_fgids := l_fgids ls |},
       map (DropGuard t) (l_frames ls t))
  (* the guard of a with_local_recorder frame cannot be named by the program *)
  | SDrop t g => (ls, if mem g (l_fgids ls) then [] else [DropGuard t g])
  | SForget t g => (ls, if mem g (l_fgids ls) then [] else [Forget t g])
  | SEndBorrow r => (ls, [EndBorrow r])
  | SSetGlobal r => (ls, [SetGlobal r])
  | SEmit t f a => (ls, [Emit t f a])
  end.
Fixpoint lower (ls : lst) (p : list sop) : list op :=
  match p with
  | [] => []
  | o :: r => let '(ls', ops) := lower1 ls o in ops ++ lower ls' r
  end.
