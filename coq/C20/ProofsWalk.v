(* C20 — the trace walker of Exec.spec_ok (clause 7) in left-fold form, and the facts about
   last_idx_of_site needed to follow it along an execution (trace extended one entry at a time). *)
From Coq Require Import List NArith Bool Arith Lia.
Import ListNotations.
Require Import MV.Common.Interleave MV.C20.Model MV.C20.Exec.
Open Scope N_scope.

(* ---- last_idx_of_site, with its local fixpoint named *)
Section LastIdx.
  Variable s : N.
  Fixpoint lgo (l : list (N * N)) (i : nat) (acc : option nat) : option nat :=
    match l with [] => acc | (_, s') :: r => lgo r (S i) (if s' =? s then Some i else acc) end.

  Lemma lgo_snoc l : forall i acc t s',
    lgo (l ++ [(t, s')]) i acc = if s' =? s then Some (i + length l)%nat else lgo l i acc.
  Proof.
    induction l as [|[t0 s0] r IH]; intros i acc t s'; cbn [app lgo length].
    - rewrite Nat.add_0_r. reflexivity.
    - rewrite IH. replace (S i + length r)%nat with (i + S (length r))%nat by lia. reflexivity.
  Qed.

  Lemma lgo_bound l : forall i acc j,
    lgo l i acc = Some j -> acc = Some j \/ (i <= j < i + length l)%nat.
  Proof.
    induction l as [|[t0 s0] r IH]; intros i acc j Hj; cbn [lgo length] in *; [left; exact Hj|].
    destruct (IH _ _ _ Hj) as [E|E]; [|right; lia].
    destruct (s0 =? s); [inversion E; subst; right; lia|left; exact E].
  Qed.
End LastIdx.

Lemma last_idx_lgo tr s : last_idx_of_site tr s = lgo s tr O None.
Proof. reflexivity. Qed.

Lemma last_idx_snoc tr t s' s :
  last_idx_of_site (tr ++ [(t, s')]) s = if s' =? s then Some (length tr) else last_idx_of_site tr s.
Proof. rewrite !last_idx_lgo, lgo_snoc. reflexivity. Qed.

Lemma last_idx_lt tr s j : last_idx_of_site tr s = Some j -> (j < length tr)%nat.
Proof. rewrite last_idx_lgo. intros Hj. destruct (lgo_bound _ _ _ _ _ Hj) as [E|E]; [discriminate|lia]. Qed.

(* ---- the walker as a left fold over the trace *)
Definition gone (x : option nat) (i : nat) : bool :=
  match x with Some j => Nat.ltb j i | None => false end.

Lemma gone_mono x i : gone x (S i) = false -> gone x i = false.
Proof.
  destruct x as [j|]; cbn [gone]; [|reflexivity].
  rewrite !Nat.ltb_ge. lia.
Qed.

Definition walive (ta da : option nat) (i : nat) (inflight : N) : bool :=
  (negb (gone ta i) && negb (gone da i)) || (0 <? inflight).

Definition wok (rsF : list (list res)) (ta da : option nat) (i : nat) (started : list N) (inflight : N) (t : N) : bool :=
  match nth_error (nth (N.to_nat t) rsF []) (count_tid t started) with
  | Some RReached => walive ta da i inflight
  | Some RInert => negb (walive ta da i inflight)
  | Some _ => false
  | None => true
  end && (if gone ta i then inflight =? 0 else true).

Lemma walk_cons rsF t s r i ta da st inf :
  walk rsF ((t, s) :: r) i ta da st inf =
  if s =? 2001 then
    wok rsF ta da i st inf t && walk rsF r (S i) ta da (t :: st) (if walive ta da i inf then inf + 1 else inf)
  else if s =? 2003 then walk rsF r (S i) ta da st (inf - 1)
  else walk rsF r (S i) ta da st inf.
Proof. reflexivity. Qed.

Definition wstate := (nat * list N * N)%type.

Definition wstep (rsF : list (list res)) (ta da : option nat) (st : option wstate) (e : N * N) : option wstate :=
  match st with
  | None => None
  | Some (i, started, inflight) =>
      if snd e =? 2001 then
        if wok rsF ta da i started inflight (fst e)
        then Some (S i, fst e :: started, if walive ta da i inflight then inflight + 1 else inflight)
        else None
      else if snd e =? 2003 then Some (S i, started, inflight - 1)
      else Some (S i, started, inflight)
  end.

Lemma fold_wstep_none rsF ta da tr : fold_left (wstep rsF ta da) tr None = None.
Proof. induction tr as [|e r IH]; [reflexivity|exact IH]. Qed.

Lemma walk_fold rsF ta da tr : forall i st inf,
  walk rsF tr i ta da st inf =
  match fold_left (wstep rsF ta da) tr (Some (i, st, inf)) with Some _ => true | None => false end.
Proof.
  induction tr as [|[t s] r IH]; intros i st inf; [reflexivity|].
  rewrite walk_cons. cbn [fold_left]. unfold wstep at 2. cbn [fst snd].
  destruct (s =? 2001).
  - destruct (wok rsF ta da i st inf t); cbn [andb]; [apply IH|rewrite fold_wstep_none; reflexivity].
  - destruct (s =? 2003); apply IH.
Qed.

Lemma walk_fold_true rsF ta da tr w :
  fold_left (wstep rsF ta da) tr (Some (O, [], 0)) = Some w -> walk rsF tr O ta da [] 0 = true.
Proof. intros H. rewrite walk_fold, H. reflexivity. Qed.

Lemma wstep_other rsF ta da i st inf t s :
  s <> 2001 -> s <> 2003 -> wstep rsF ta da (Some (i, st, inf)) (t, s) = Some (S i, st, inf).
Proof.
  intros H1 H3. unfold wstep. cbn [fst snd].
  destruct (N.eqb_spec s 2001); [contradiction|]. destruct (N.eqb_spec s 2003); [contradiction|]. reflexivity.
Qed.

Lemma wstep_2003 rsF ta da i st inf t :
  wstep rsF ta da (Some (i, st, inf)) (t, 2003) = Some (S i, st, inf - 1).
Proof. reflexivity. Qed.

Lemma wstep_2001 rsF ta da i st inf t :
  wstep rsF ta da (Some (i, st, inf)) (t, 2001) =
  if wok rsF ta da i st inf t then Some (S i, t :: st, if walive ta da i inf then inf + 1 else inf) else None.
Proof. reflexivity. Qed.

Lemma count_tid_cons_same t st : count_tid t (t :: st) = S (count_tid t st).
Proof. cbn [count_tid]. rewrite N.eqb_refl. reflexivity. Qed.

Lemma count_tid_cons_other t u st : t <> u -> count_tid u (t :: st) = count_tid u st.
Proof. intros H. cbn [count_tid]. destruct (N.eqb_spec t u); [contradiction|reflexivity]. Qed.
