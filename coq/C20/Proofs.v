(* C20 — invariants of the recoverable-recorder machine, preserved by every atomic step, hence
   along every schedule. *)
From Coq Require Import List NArith Bool Arith Lia.
Import ListNotations.
Require Import MV.Common.Interleave MV.C20.Model.
Open Scope N_scope.

Definition cfg := @config shared local.

Definition holder (l : local) : nat := match pcl l with K1 _ | K2 _ | D _ => 1 | _ => 0 end.
Definition insider (l : local) : nat := match pcl l with K2 _ => 1 | _ => 0 end.
Definition owner_active (l : local) : nat :=
  match pcl l with Done => 0 | _ => if is_owner (prg l) then 1 else 0 end.
Definition b2n (b : bool) : N := if b then 1 else 0.

(* per-thread facts *)
Definition lok (s : shared) (l : local) : Prop :=
  (pcl l = T \/ pcl l = H -> is_owner (prg l) = true /\ handle_alive s = true) /\
  (pcl l = Start -> is_owner (prg l) = true -> handle_alive s = true) /\
  (forall i d, In (RRecovered i d) (results l) -> i = 0 /\ d = 0 /\ prg l = PRecover) /\
  (pcl l = T -> prg l = PRecover) /\ (pcl l = H -> prg l = PDropHandle) /\
  (forall n, pcl l = U n \/ pcl l = K1 n \/ pcl l = K2 n \/ pcl l = D n -> is_owner (prg l) = false).

Definition Inv (c : cfg) : Prop :=
  let s := fst c in let ls := snd c in
  strong s = b2n (handle_alive s) + N.of_nat (sumf holder ls) /\
  inside s = N.of_nat (sumf insider ls) /\
  match rs s with
  | Live => drops s = 0 /\ 0 < strong s
  | Taken => drops s = 0 /\ strong s = 0 /\ handle_alive s = false /\ exists u x, nth_error ls u = Some x /\ prg x = PRecover
  | Finalised => drops s = 1 /\ strong s = 0 /\ handle_alive s = false
  end /\
  late_entry s = false /\
  (sumf owner_active ls <= 1)%nat /\
  (forall u x, nth_error ls u = Some x -> lok s x).

Lemma insider_le_holder ls : (sumf insider ls <= sumf holder ls)%nat.
Proof.
  induction ls as [|x r IH]; cbn [sumf]; [lia|].
  assert (insider x <= holder x)%nat by (unfold insider, holder; destruct (pcl x); lia). lia.
Qed.

Definition wf (ps : list prog) : Prop := (length (filter is_owner ps) <= 1)%nat.

Lemma init_sum_zero (f : local -> nat) ps : (forall p, f (init_local p) = 0%nat) -> sumf f (map init_local ps) = 0%nat.
Proof. intros Hf. induction ps as [|p r IH]; cbn; [reflexivity|]. rewrite Hf, IH. reflexivity. Qed.

Lemma init_owner_sum ps : sumf owner_active (map init_local ps) = length (filter is_owner ps).
Proof.
  induction ps as [|p r IH]; cbn [map sumf filter]; [reflexivity|].
  unfold owner_active at 1. cbn [pcl prg init_local]. destruct (is_owner p); cbn [length]; lia.
Qed.

Lemma Inv_init ps : wf ps -> Inv (init_config ps).
Proof.
  intros Hwf. unfold Inv, init_config. cbn [fst snd init_shared strong handle_alive inside rs drops late_entry].
  rewrite !init_sum_zero by reflexivity. rewrite init_owner_sum.
  split; [reflexivity|]. split; [reflexivity|]. split; [split; [reflexivity|lia]|].
  split; [reflexivity|]. split; [exact Hwf|].
  intros u x Hu. rewrite nth_error_map in Hu. destruct (nth_error ps u); [|discriminate]. inversion Hu; subst.
  unfold lok, init_local. cbn [pcl prg results].
  split; [intros [E|E]; discriminate|]. split; [reflexivity|]. split; [intros i d []|].
  split; [discriminate|]. split; [discriminate|]. intros n [E|[E|[E|E]]]; discriminate.
Qed.

(* ------------------------------------------------------------------ every step preserves Inv *)
Lemma lok_alive s s' x : handle_alive s' = handle_alive s -> lok s x -> lok s' x.
Proof. intros E Hx. unfold lok in *. rewrite E. exact Hx. Qed.

Lemma lok_nonowner s s' x : owner_active x = 0%nat -> lok s x -> lok s' x.
Proof.
  intros Ho (A & B & C & D0 & E0 & F). unfold owner_active in Ho.
  unfold lok. split; [|split; [|split; [exact C|split; [exact D0|split; [exact E0|exact F]]]]].
  - intros [E|E]; destruct (A (or_intror E)) as [Io _] || destruct (A (or_introl E)) as [Io _];
      rewrite E, Io in Ho; discriminate.
  - intros E Io. rewrite E, Io in Ho. discriminate.
Qed.

Lemma step_preserves_Inv : step_preserves step Inv.
Proof.
  intros s ls t l s' l' (I1 & I2 & I3 & I4 & I5 & I6) Hnth Hstep. unfold Inv. cbn [fst snd] in *.
  pose proof (I6 t l Hnth) as Hl.
  assert (Hsum : forall (f : local -> nat) a b, f l = a -> f l' = b -> (sumf f (upd ls t l') + a = sumf f ls + b)%nat)
    by (intros f a b <- <-; apply sumf_upd; exact Hnth).
  assert (Hothers : forall (P : local -> Prop),
            P l' -> (forall u x, u <> t -> nth_error ls u = Some x -> P x) ->
            forall u x, nth_error (upd ls t l') u = Some x -> P x).
  { intros P Hl' Ho u x Hu. destruct (nth_error_upd_cases ls t l' u x Hu) as [[-> ->]|[Hne E]]; eauto. }
  assert (Hge : forall f : local -> nat, (f l <= sumf f ls)%nat) by (intros f; eapply sumf_ge; eauto).
  assert (Hins := insider_le_holder ls).
  (* the witness of the Taken clause survives an update that keeps prg *)
  assert (Hwit : prg l' = prg l -> (exists u x, nth_error ls u = Some x /\ prg x = PRecover) ->
                 exists u x, nth_error (upd ls t l') u = Some x /\ prg x = PRecover).
  { intros Ep (u & x & Hu & Hp). destruct (Nat.eq_dec u t) as [->|Hne].
    - exists t, l'. split; [eapply nth_error_upd_same; eauto|]. rewrite Ep. congruence.
    - exists u, x. split; [rewrite nth_error_upd_other by congruence; exact Hu|exact Hp]. }
  destruct Hl as (LA & LB & LC & LD & LE & LF).
  unfold step in Hstep. destruct (pcl l) eqn:Hpc.
  - (* Start *)
    inversion Hstep; subst s' l'; clear Hstep.
    set (p0 := match prg l with PEmit n => next_emit n | PRecover => T | PDropHandle => H end).
    assert (Hh : holder {| pcl := p0; prg := prg l; results := results l |} = 0%nat)
      by (unfold holder, p0; cbn [pcl]; destruct (prg l) as [[|k]| |]; reflexivity).
    assert (Hi : insider {| pcl := p0; prg := prg l; results := results l |} = 0%nat)
      by (unfold insider, p0; cbn [pcl]; destruct (prg l) as [[|k]| |]; reflexivity).
    assert (Ho : (owner_active {| pcl := p0; prg := prg l; results := results l |} <= owner_active l)%nat)
      by (unfold owner_active, p0; cbn [pcl prg]; rewrite Hpc; destruct (prg l) as [[|k]| |]; cbn; lia).
    subst p0.
    pose proof (Hsum holder 0%nat 0%nat ltac:(unfold holder; rewrite Hpc; reflexivity) Hh) as S1.
    pose proof (Hsum insider 0%nat 0%nat ltac:(unfold insider; rewrite Hpc; reflexivity) Hi) as S2.
    pose proof (Hsum owner_active _ _ eq_refl eq_refl) as S3.
    split; [lia|]. split; [lia|].
    split; [destruct (rs s); try exact I3; destruct I3 as (? & ? & ? & W); repeat split; auto|].
    split; [exact I4|]. split; [lia|].
    apply Hothers; [|intros u x _ Hu; eapply I6; eauto].
    unfold lok. cbn [pcl prg results].
    split; [intros [E|E]; destruct (prg l) as [[|k]| |] eqn:Ep; try discriminate; (split; [reflexivity|apply LB; reflexivity])|].
    split; [intros E; destruct (prg l) as [[|k]| |]; discriminate|].
    split; [exact LC|].
    split; [intros E; destruct (prg l) as [[|k]| |]; try discriminate; reflexivity|].
    split; [intros E; destruct (prg l) as [[|k]| |]; try discriminate; reflexivity|].
    intros n E; destruct (prg l) as [[|k]| |]; cbn in E; try reflexivity; destruct E as [E|[E|[E|E]]]; discriminate.
  - (* U n : upgrade *)
    pose proof (LF n (or_introl eq_refl)) as Hno.
    destruct (N.ltb_spec 0 (strong s)) as [Hpos|Hzero]; inversion Hstep; subst s' l'; clear Hstep.
    + pose proof (Hsum holder 0%nat 1%nat ltac:(unfold holder; rewrite Hpc; reflexivity) eq_refl) as S1.
      pose proof (Hsum insider 0%nat 0%nat ltac:(unfold insider; rewrite Hpc; reflexivity) eq_refl) as S2.
      pose proof (Hsum owner_active 0%nat 0%nat ltac:(unfold owner_active; rewrite Hpc, Hno; reflexivity)
                    ltac:(unfold owner_active; cbn [pcl prg]; rewrite Hno; reflexivity)) as S3.
      cbn [strong handle_alive inside rs drops late_entry].
      split; [lia|]. split; [lia|].
      split; [destruct (rs s); [destruct I3; split; [assumption|lia]|lia|lia]|].
      split; [exact I4|]. split; [lia|].
      apply Hothers; [|intros u x _ Hu; eapply lok_alive; [|eapply I6; eauto]; reflexivity].
      unfold lok. cbn [pcl prg results handle_alive].
      split; [intros [E|E]; discriminate|]. split; [discriminate|]. split; [exact LC|].
      split; [discriminate|]. split; [discriminate|]. intros; exact Hno.
    + pose proof (Hsum holder 0%nat 0%nat ltac:(unfold holder; rewrite Hpc; reflexivity)
                    ltac:(unfold holder; cbn [pcl]; destruct n; reflexivity)) as S1.
      pose proof (Hsum insider 0%nat 0%nat ltac:(unfold insider; rewrite Hpc; reflexivity)
                    ltac:(unfold insider; cbn [pcl]; destruct n; reflexivity)) as S2.
      pose proof (Hsum owner_active 0%nat 0%nat ltac:(unfold owner_active; rewrite Hpc, Hno; reflexivity)
                    ltac:(unfold owner_active; cbn [pcl prg]; rewrite Hno; destruct n; reflexivity)) as S3.
      split; [lia|]. split; [lia|].
      split; [destruct (rs s); try exact I3; destruct I3 as (? & ? & ? & W); repeat split; auto|].
      split; [exact I4|]. split; [lia|].
      apply Hothers; [|intros u x _ Hu; eapply I6; eauto].
      unfold lok. cbn [pcl prg results].
      split; [intros [E|E]; destruct n; discriminate|]. split; [destruct n; discriminate|].
      split; [intros i d [E|E]; [discriminate|eapply LC; eauto]|].
      split; [destruct n; discriminate|]. split; [destruct n; discriminate|]. intros; exact Hno.
  - (* K1 n : enter the recorder *)
    pose proof (LF n (or_intror (or_introl eq_refl))) as Hno.
    inversion Hstep; subst s' l'; clear Hstep.
    pose proof (Hsum holder 1%nat 1%nat ltac:(unfold holder; rewrite Hpc; reflexivity) eq_refl) as S1.
    pose proof (Hsum insider 0%nat 1%nat ltac:(unfold insider; rewrite Hpc; reflexivity) eq_refl) as S2.
    pose proof (Hsum owner_active 0%nat 0%nat ltac:(unfold owner_active; rewrite Hpc, Hno; reflexivity)
                  ltac:(unfold owner_active; cbn [pcl prg]; rewrite Hno; reflexivity)) as S3.
    pose proof (Hge holder) as G. unfold holder at 1 in G. rewrite Hpc in G.
    cbn [strong handle_alive inside rs drops late_entry].
    assert (Hlive : rs s = Live) by (destruct (rs s); [reflexivity|destruct I3 as (_ & ? & _); lia|destruct I3 as (_ & ? & _); lia]).
    split; [lia|]. split; [lia|].
    split; [rewrite Hlive in *; exact I3|].
    split; [rewrite I4, Hlive; reflexivity|]. split; [lia|].
    apply Hothers; [|intros u x _ Hu; eapply lok_alive; [|eapply I6; eauto]; reflexivity].
    unfold lok. cbn [pcl prg results handle_alive].
    split; [intros [E|E]; discriminate|]. split; [discriminate|]. split; [exact LC|].
    split; [discriminate|]. split; [discriminate|]. intros; exact Hno.
  - (* K2 n : leave the recorder *)
    pose proof (LF n (or_intror (or_intror (or_introl eq_refl)))) as Hno.
    inversion Hstep; subst s' l'; clear Hstep.
    pose proof (Hsum holder 1%nat 1%nat ltac:(unfold holder; rewrite Hpc; reflexivity) eq_refl) as S1.
    pose proof (Hsum insider 1%nat 0%nat ltac:(unfold insider; rewrite Hpc; reflexivity) eq_refl) as S2.
    pose proof (Hsum owner_active 0%nat 0%nat ltac:(unfold owner_active; rewrite Hpc, Hno; reflexivity)
                  ltac:(unfold owner_active; cbn [pcl prg]; rewrite Hno; reflexivity)) as S3.
    cbn [strong handle_alive inside rs drops late_entry].
    split; [lia|]. split; [lia|].
    split; [destruct (rs s); try exact I3; destruct I3 as (? & ? & ? & W); repeat split; auto|].
    split; [exact I4|]. split; [lia|].
    apply Hothers; [|intros u x _ Hu; eapply lok_alive; [|eapply I6; eauto]; reflexivity].
    unfold lok. cbn [pcl prg results handle_alive].
    split; [intros [E|E]; discriminate|]. split; [discriminate|].
    split; [intros i d [E|E]; [discriminate|eapply LC; eauto]|].
    split; [discriminate|]. split; [discriminate|]. intros; exact Hno.
  - (* D n : release the upgraded reference *)
    pose proof (LF n (or_intror (or_intror (or_intror eq_refl)))) as Hno.
    inversion Hstep; subst s' l'; clear Hstep.
    pose proof (Hsum holder 1%nat 0%nat ltac:(unfold holder; rewrite Hpc; reflexivity)
                  ltac:(unfold holder; cbn [pcl]; destruct n; reflexivity)) as S1.
    pose proof (Hsum insider 0%nat 0%nat ltac:(unfold insider; rewrite Hpc; reflexivity)
                  ltac:(unfold insider; cbn [pcl]; destruct n; reflexivity)) as S2.
    pose proof (Hsum owner_active 0%nat 0%nat ltac:(unfold owner_active; rewrite Hpc, Hno; reflexivity)
                  ltac:(unfold owner_active; cbn [pcl prg]; rewrite Hno; destruct n; reflexivity)) as S3.
    assert (Hlive : rs s = Live) by (destruct (rs s); [reflexivity|destruct I3 as (_ & ? & _); lia|destruct I3 as (_ & ? & _); lia]).
    rewrite Hlive in I3. destruct I3 as [Hd0 Hpos].
    assert (Hlok' : forall sx, handle_alive sx = handle_alive s ->
              forall u x, nth_error (upd ls t {| pcl := next_emit n; prg := prg l; results := results l |}) u = Some x -> lok sx x).
    { intros sx Ea. apply Hothers; [|intros u x _ Hu; eapply lok_alive; [exact Ea|eapply I6; eauto]].
      unfold lok. cbn [pcl prg results].
      split; [intros [E|E]; destruct n; discriminate|]. split; [destruct n; discriminate|]. split; [exact LC|].
      split; [destruct n; discriminate|]. split; [destruct n; discriminate|]. intros; exact Hno. }
    unfold release. destruct (N.eqb_spec (strong s) 1) as [H1|H1];
      cbn [strong handle_alive inside rs drops late_entry].
    + assert (Ha : handle_alive s = false) by (destruct (handle_alive s); [cbn [b2n] in I1; lia|reflexivity]).
      split; [rewrite Ha; cbn [b2n]; rewrite Ha in I1; cbn [b2n] in I1; lia|]. split; [lia|].
      split; [repeat split; [lia|exact Ha]|]. split; [exact I4|]. split; [lia|].
      apply Hlok'. reflexivity.
    + split; [lia|]. split; [lia|].
      rewrite Hlive. split; [split; [exact Hd0|lia]|]. split; [exact I4|]. split; [lia|].
      apply Hlok'. reflexivity.
  - (* T : try_unwrap *)
    destruct (LA (or_introl eq_refl)) as [Hown Halive]. pose proof (LD eq_refl) as Hprg.
    assert (Hoa : owner_active l = 1%nat) by (unfold owner_active; rewrite Hpc, Hown; reflexivity).
    destruct (N.eqb_spec (strong s) 1) as [H1|H1]; inversion Hstep; subst s' l'; clear Hstep.
    + rewrite Halive in I1. cbn [b2n] in I1.
      assert (Hh0 : sumf holder ls = 0%nat) by lia.
      assert (Hlive : rs s = Live) by (destruct (rs s); [reflexivity|destruct I3 as (_ & ? & _); lia|destruct I3 as (_ & ? & _); lia]).
      rewrite Hlive in I3. destruct I3 as [Hd0 _].
      pose proof (Hsum holder 0%nat 0%nat ltac:(unfold holder; rewrite Hpc; reflexivity) eq_refl) as S1.
      pose proof (Hsum insider 0%nat 0%nat ltac:(unfold insider; rewrite Hpc; reflexivity) eq_refl) as S2.
      pose proof (Hsum owner_active 1%nat 0%nat Hoa eq_refl) as S3.
      cbn [strong handle_alive inside rs drops late_entry b2n].
      split; [lia|]. split; [lia|].
      split; [repeat split; auto; exists t, {| pcl := Done; prg := prg l; results := RRecovered (inside s) (drops s) :: results l |};
              split; [eapply nth_error_upd_same; eauto|exact Hprg]|].
      split; [exact I4|]. split; [lia|].
      apply Hothers.
      * unfold lok. cbn [pcl prg results].
        split; [intros [E|E]; discriminate|]. split; [discriminate|].
        split; [intros i d [E|E]; [inversion E; subst; repeat split; [lia|exact Hd0|exact Hprg]|eapply LC; eauto]|].
        split; [discriminate|]. split; [discriminate|]. intros n [E|[E|[E|E]]]; discriminate.
      * intros u x Hne Hu. apply (lok_nonowner s); [|eapply I6; eauto].
        eapply (sumf_unique owner_active ls t l Hnth); eauto. pose proof (Hge owner_active). lia.
    + (* spin *)
      pose proof (Hsum holder _ _ eq_refl eq_refl) as S1. pose proof (Hsum insider _ _ eq_refl eq_refl) as S2.
      pose proof (Hsum owner_active _ _ eq_refl eq_refl) as S3.
      split; [lia|]. split; [lia|].
      split; [destruct (rs s); try exact I3; destruct I3 as (? & ? & ? & W); repeat split; auto|].
      split; [exact I4|]. split; [lia|].
      apply Hothers; [eapply I6; eauto|intros u x _ Hu; eapply I6; eauto].
  - (* H : drop the handle *)
    destruct (LA (or_intror eq_refl)) as [Hown Halive]. pose proof (LE eq_refl) as Hprg.
    assert (Hoa : owner_active l = 1%nat) by (unfold owner_active; rewrite Hpc, Hown; reflexivity).
    inversion Hstep; subst s' l'; clear Hstep.
    rewrite Halive in I1. cbn [b2n] in I1.
    assert (Hlive : rs s = Live) by (destruct (rs s); [reflexivity|destruct I3 as (_ & ? & _); lia|destruct I3 as (_ & ? & _); lia]).
    rewrite Hlive in I3. destruct I3 as [Hd0 _].
    pose proof (Hsum holder 0%nat 0%nat ltac:(unfold holder; rewrite Hpc; reflexivity) eq_refl) as S1.
    pose proof (Hsum insider 0%nat 0%nat ltac:(unfold insider; rewrite Hpc; reflexivity) eq_refl) as S2.
    pose proof (Hsum owner_active 1%nat 0%nat Hoa eq_refl) as S3.
    assert (Hlok' : forall sx,
              forall u x, nth_error (upd ls t {| pcl := Done; prg := prg l; results := RHandleDropped :: results l |}) u = Some x -> lok sx x).
    { intros sx. apply Hothers.
      - unfold lok. cbn [pcl prg results].
        split; [intros [E|E]; discriminate|]. split; [discriminate|].
        split; [intros i d [E|E]; [discriminate|eapply LC; eauto]|].
        split; [discriminate|]. split; [discriminate|]. intros n [E|[E|[E|E]]]; discriminate.
      - intros u x Hne Hu. apply (lok_nonowner s); [|eapply I6; eauto].
        eapply (sumf_unique owner_active ls t l Hnth); eauto. pose proof (Hge owner_active). lia. }
    unfold release. destruct (N.eqb_spec (strong s) 1) as [H1|H1];
      cbn [strong handle_alive inside rs drops late_entry b2n].
    + split; [lia|]. split; [lia|].
      split; [repeat split; lia|]. split; [exact I4|]. split; [lia|]. apply Hlok'.
    + split; [lia|]. split; [lia|].
      rewrite Hlive. split; [split; [exact Hd0|lia]|]. split; [exact I4|]. split; [lia|]. apply Hlok'.
  - discriminate.
Qed.
