(* C20 — RecoverableRecorder / WeakRecorder / RecoveryHandle (metrics-util/src/recoverable.rs) as
   an interleaving machine over the Arc's strong count.

   Atomic steps = yield sites:
     2001 Weak::upgrade            (every WeakRecorder method)   strong > 0 ? strong++ : inert
     2002 entry into the wrapped recorder's method               inside++
     2006 (inside the recorder double's method; harness-side)    inside--   (the method returns)
     2003 drop of the upgraded Arc                               strong--, reaching 0 finalises
     2004 Arc::try_unwrap in RecoveryHandle::into_inner (spin)   strong = 1 ? take : retry
     2005 drop of the RecoveryHandle (harness-side)              strong--, reaching 0 finalises
   Thread programs: an emitter runs a number of emissions; at most one thread owns the handle and
   either recovers (into_inner) or drops it.                                                     *)
From Coq Require Import List NArith Bool.
Import ListNotations.
Require Import MV.Common.Interleave.
Open Scope N_scope.

Inductive rstate := Live | Taken | Finalised.

Inductive res :=
| RReached          (* the emission entered the wrapped recorder *)
| RInert            (* upgrade failed: no-op handle / ignored description *)
| RRecovered (inside_at_take : N) (drops_at_take : N)   (* into_inner returned the recorder *)
| RHandleDropped.

Inductive pc :=
| Start
| U (n : nat)            (* about to upgrade; n emissions left after this one *)
| K1 (n : nat) | K2 (n : nat) | D (n : nat)
| T                      (* spinning in into_inner *)
| H                      (* about to drop the handle *)
| Done.

Inductive prog := PEmit (n : nat) | PRecover | PDropHandle.

Record local := { pcl : pc; prg : prog; results : list res }.
Record shared := {
  strong : N; handle_alive : bool; rs : rstate; inside : N; drops : N;
  late_entry : bool   (* ghost: some call entered the recorder when it was not Live *)
}.

Definition next_emit (n : nat) : pc := match n with O => Done | S k => U k end.

Definition release (s : shared) : shared :=
  (* strong-- ; reaching 0 drops the recorder *)
  if strong s =? 1
  then {| strong := 0; handle_alive := handle_alive s; rs := Finalised; inside := inside s;
          drops := drops s + 1; late_entry := late_entry s |}
  else {| strong := strong s - 1; handle_alive := handle_alive s; rs := rs s; inside := inside s;
          drops := drops s; late_entry := late_entry s |}.

Definition step (s : shared) (l : local) : option (shared * local) :=
  let mk p r := {| pcl := p; prg := prg l; results := r |} in
  match pcl l with
  | Start =>
      Some (s, mk (match prg l with PEmit n => next_emit n | PRecover => T | PDropHandle => H end) (results l))
  | U n =>
      if 0 <? strong s
      then Some ({| strong := strong s + 1; handle_alive := handle_alive s; rs := rs s; inside := inside s;
                    drops := drops s; late_entry := late_entry s |}, mk (K1 n) (results l))
      else Some (s, mk (next_emit n) (RInert :: results l))
  | K1 n =>
      Some ({| strong := strong s; handle_alive := handle_alive s; rs := rs s; inside := inside s + 1;
               drops := drops s;
               late_entry := late_entry s || match rs s with Live => false | _ => true end |},
            mk (K2 n) (results l))
  | K2 n =>
      Some ({| strong := strong s; handle_alive := handle_alive s; rs := rs s; inside := inside s - 1;
               drops := drops s; late_entry := late_entry s |}, mk (D n) (RReached :: results l))
  | D n => Some (release s, mk (next_emit n) (results l))
  | T =>
      if strong s =? 1
      then Some ({| strong := 0; handle_alive := false; rs := Taken; inside := inside s; drops := drops s;
                    late_entry := late_entry s |}, mk Done (RRecovered (inside s) (drops s) :: results l))
      else Some (s, l)                                  (* try_unwrap failed: spin *)
  | H =>
      let s1 := release s in
      Some ({| strong := strong s1; handle_alive := false; rs := rs s1; inside := inside s1; drops := drops s1;
               late_entry := late_entry s1 |}, mk Done (RHandleDropped :: results l))
  | Done => None
  end.

Definition site (l : local) : N :=
  match pcl l with
  | Start => 0 | U _ => 2001 | K1 _ => 2002 | K2 _ => 2006 | D _ => 2003 | T => 2004 | H => 2005 | Done => 0
  end.

Definition init_shared : shared :=
  {| strong := 1; handle_alive := true; rs := Live; inside := 0; drops := 0; late_entry := false |}.
Definition init_local (p : prog) : local := {| pcl := Start; prg := p; results := [] |}.
Definition init_config (ps : list prog) : config := (init_shared, map init_local ps).

(* well-formed thread set: at most one thread touches the handle (it is a unique owned value) *)
Definition is_owner (p : prog) : bool := match p with PEmit _ => false | _ => true end.
Definition wf_progs (ps : list prog) : bool := Nat.leb (length (filter is_owner ps)) 1.
