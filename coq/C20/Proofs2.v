(* C20 — property clauses derived from the invariant, for every schedule. *)
From Coq Require Import List NArith Bool Arith Lia.
Import ListNotations.
Require Import MV.Common.Interleave MV.C20.Model MV.C20.Proofs.
Open Scope N_scope.

Definition reach (ps : list prog) (c : cfg) : Prop :=
  exists sched, c = fst (exec step site (init_config ps) sched).

Theorem reachable_Inv ps sched : wf ps -> Inv (fst (exec step site (init_config ps) sched)).
Proof. intros H. apply invariant_all_schedules; [apply step_preserves_Inv|apply Inv_init; exact H]. Qed.

Theorem reachable_full_Inv ps fuel sched : wf ps -> Inv (fst (exec_full step site fuel (init_config ps) sched)).
Proof. intros H. apply invariant_exec_full; [apply step_preserves_Inv|apply Inv_init; exact H]. Qed.

(* while the handle is alive the recorder is Live and every upgrade succeeds (the emission goes on
   to enter the wrapped recorder) *)
Theorem live_until_recovered ps c : wf ps -> reach ps c ->
  handle_alive (fst c) = true ->
  rs (fst c) = Live /\
  forall l n, pcl l = U n ->
    exists s' , step (fst c) l = Some (s', {| pcl := K1 n; prg := prg l; results := results l |}).
Proof.
  intros Hwf [sched ->] Ha. destruct (reachable_Inv ps sched Hwf) as (I1 & _ & I3 & _).
  set (c := fst (exec step site (init_config ps) sched)) in *.
  rewrite Ha in I1. cbn [b2n] in I1.
  assert (Hpos : 0 < strong (fst c)) by lia.
  split.
  - destruct (rs (fst c)); [reflexivity|destruct I3 as (_ & ? & _); lia|destruct I3 as (_ & ? & _); lia].
  - intros l n Hpc. unfold step. rewrite Hpc. destruct (N.ltb_spec 0 (strong (fst c))); [eauto|lia].
Qed.

(* into_inner returns only when no emission holds an upgraded reference, hence nobody is inside the
   recorder, and the recorder has not been dropped *)
Theorem into_inner_waits ps c : wf ps -> reach ps c ->
  forall l, In l (snd c) -> pcl l = T -> strong (fst c) = 1 ->
  sumf holder (snd c) = 0%nat /\ inside (fst c) = 0 /\ drops (fst c) = 0 /\ rs (fst c) = Live.
Proof.
  intros Hwf [sched ->] l Hin Hpc H1. destruct (reachable_Inv ps sched Hwf) as (I1 & I2 & I3 & _ & _ & I6).
  set (c := fst (exec step site (init_config ps) sched)) in *.
  apply In_nth_error in Hin as [u Hu]. destruct (I6 u l Hu) as (LA & _).
  destruct (LA (or_introl Hpc)) as [_ Ha]. rewrite Ha in I1. cbn [b2n] in I1.
  assert (Hh : sumf holder (snd c) = 0%nat) by lia.
  pose proof (insider_le_holder (snd c)).
  split; [exact Hh|]. split; [lia|].
  destruct (rs (fst c)); [destruct I3; auto|destruct I3 as (_ & ? & _); lia|destruct I3 as (_ & ? & _); lia].
Qed.

Theorem recovered_results_clean ps c : wf ps -> reach ps c ->
  forall l i d, In l (snd c) -> In (RRecovered i d) (results l) -> i = 0 /\ d = 0.
Proof.
  intros Hwf [sched ->] l i d Hin Hr. destruct (reachable_Inv ps sched Hwf) as (_ & _ & _ & _ & _ & I6).
  apply In_nth_error in Hin as [u Hu]. destruct (I6 u l Hu) as (_ & _ & LC & _).
  destruct (LC i d Hr) as (? & ? & _). auto.
Qed.

(* after recovery, or after the last reference is gone, every upgrade fails: registrations yield
   inert handles, descriptions are ignored; nobody holds a reference or is inside *)
Theorem inert_after ps c : wf ps -> reach ps c ->
  rs (fst c) <> Live ->
  strong (fst c) = 0 /\ sumf holder (snd c) = 0%nat /\ inside (fst c) = 0 /\
  forall l n, pcl l = U n ->
    step (fst c) l = Some (fst c, {| pcl := next_emit n; prg := prg l; results := RInert :: results l |}).
Proof.
  intros Hwf [sched ->] Hnl. destruct (reachable_Inv ps sched Hwf) as (I1 & I2 & I3 & _).
  set (c := fst (exec step site (init_config ps) sched)) in *.
  pose proof (insider_le_holder (snd c)).
  assert (Hs0 : strong (fst c) = 0)
    by (destruct (rs (fst c)); [congruence|destruct I3 as (_ & ? & _); assumption|destruct I3 as (_ & ? & _); assumption]).
  assert (Hh : sumf holder (snd c) = 0%nat) by (destruct (handle_alive (fst c)); cbn [b2n] in I1; lia).
  split; [exact Hs0|]. split; [exact Hh|]. split; [lia|].
  intros l n Hpc. unfold step. rewrite Hpc, Hs0. reflexivity.
Qed.

(* no call enters the recorder after its finalisation began *)
Theorem nothing_enters_after_finalisation ps c : wf ps -> reach ps c -> late_entry (fst c) = false.
Proof. intros Hwf [sched ->]. destruct (reachable_Inv ps sched Hwf) as (_ & _ & _ & I4 & _). exact I4. Qed.

(* the recorder is dropped at most once; exactly once iff finalised by the release of the last
   reference; never when it was recovered (the caller owns it then) *)
Theorem dropped_exactly_once ps c : wf ps -> reach ps c ->
  drops (fst c) <= 1 /\ (drops (fst c) = 1 <-> rs (fst c) = Finalised) /\ (rs (fst c) = Taken -> drops (fst c) = 0).
Proof.
  intros Hwf [sched ->]. destruct (reachable_Inv ps sched Hwf) as (_ & _ & I3 & _).
  destruct (rs (fst (fst (exec step site (init_config ps) sched)))).
  - destruct I3 as [E _]. rewrite E. split; [lia|]. split; [split; [lia|discriminate]|discriminate].
  - destruct I3 as (E & _). rewrite E. split; [lia|]. split; [split; [lia|discriminate]|reflexivity].
  - destruct I3 as (E & _). rewrite E. split; [lia|]. split; [split; reflexivity|discriminate].
Qed.

(* ---- a second invariant about finished threads: a finished owner has given the handle up; a
   finished recoverer means the recorder was Taken *)
Definition InvX (c : cfg) : Prop :=
  Inv c /\
  forall u x, nth_error (snd c) u = Some x -> pcl x = Done ->
    (is_owner (prg x) = true -> handle_alive (fst c) = false) /\
    (prg x = PRecover -> rs (fst c) = Taken).

Lemma InvX_step : step_preserves step InvX.
Proof.
  intros s ls t l s' l' [Hinv Hq] Hn Hs. split; [eapply step_preserves_Inv; eauto|].
  intros u0 x0 Hu0 Hd0. cbn [fst snd] in *.
  pose proof Hinv as (I1 & _ & I3 & _ & _ & I6). cbn [fst snd] in *.
  destruct (I6 t l Hn) as (LA & LB & LC & LD & LE & LF).
  destruct (nth_error_upd_cases ls t l' u0 x0 Hu0) as [[-> ->]|[Hne E]].
  - (* the stepping thread just finished *)
    revert Hs Hd0. unfold step, release.
    destruct (pcl l) eqn:Hpc.
    + intros E; inversion E; subst s' l'; cbn [pcl prg]. destruct (prg l) as [[|k]| |]; cbn; try discriminate.
      intros _. split; discriminate.
    + pose proof (LF n (or_introl eq_refl)) as Hno.
      destruct (0 <? strong s); intros E; inversion E; subst s' l'; cbn [pcl prg]; [discriminate|].
      intros _. split; intros Hx; [congruence|rewrite Hx in Hno; discriminate].
    + intros E; inversion E; subst s' l'; cbn [pcl]; discriminate.
    + intros E; inversion E; subst s' l'; cbn [pcl]; discriminate.
    + pose proof (LF n (or_intror (or_intror (or_intror eq_refl)))) as Hno.
      intros E; inversion E; subst s' l'; cbn [pcl prg].
      intros _. split; intros Hx; [congruence|rewrite Hx in Hno; discriminate].
    + destruct (strong s =? 1); intros E; inversion E; subst s' l'; cbn [pcl prg handle_alive rs].
      * intros _. split; reflexivity.
      * rewrite Hpc. discriminate.
    + pose proof (LE eq_refl) as Hp.
      intros E; inversion E; subst s' l'; cbn [pcl prg handle_alive rs].
      intros _. split; [reflexivity|rewrite Hp; discriminate].
    + discriminate.
  - (* another thread stepped *)
    destruct (Hq u0 x0 E Hd0) as [Q1 Q2].
    assert (Hmono : handle_alive s = false -> handle_alive s' = false).
    { revert Hs. unfold step, release. destruct (pcl l); try destruct (0 <? strong s); try destruct (strong s =? 1);
        intros E'; inversion E'; subst s' l'; cbn [handle_alive]; auto. }
    split; [intros Hio; apply Hmono; auto|].
    intros Hp. specialize (Q2 Hp). rewrite Q2 in I3. destruct I3 as (_ & Hs0 & Ha' & _).
    rewrite Ha' in I1. cbn [b2n] in I1.
    pose proof (sumf_ge holder ls t l Hn) as G. unfold holder in G.
    revert Hs. unfold step, release. rewrite Hs0.
    destruct (pcl l) eqn:Hpc; cbn; intros E'; inversion E'; subst s' l'; cbn [rs]; try exact Q2; try (exfalso; lia).
Qed.

Lemma InvX_init ps : wf ps -> InvX (init_config ps).
Proof.
  intros Hwf. split; [apply Inv_init; exact Hwf|]. intros u x Hu Hd. cbn [snd init_config] in Hu.
  rewrite nth_error_map in Hu. destruct (nth_error ps u); [|discriminate]. inversion Hu; subst. discriminate.
Qed.

Lemma prg_constant ps sched : map prg (snd (fst (exec step site (init_config ps) sched))) = ps.
Proof.
  apply (invariant_all_schedules step site (fun c1 => map prg (snd c1) = ps)).
  - intros s ls t l s' l' Hm Hn Hs. cbn [snd] in *.
    destruct (upd_split ls t l l' Hn) as (l1 & l2 & E1 & E2 & _). rewrite E2. rewrite E1 in Hm.
    rewrite map_app in *. cbn [map] in *. rewrite <- Hm. f_equal. f_equal.
    revert Hs. unfold step. destruct (pcl l); try destruct (0 <? strong s); try destruct (strong s =? 1);
      intros E; inversion E; subst s' l'; reflexivity.
  - cbn [snd init_config]. rewrite map_map. cbn. apply map_id.
Qed.

Lemma all_done_pcs (c : cfg) : all_done step c = true -> forall u x, nth_error (snd c) u = Some x -> pcl x = Done.
Proof.
  unfold all_done. rewrite forallb_forall. intros Hd u x Hu.
  assert (Hlt : (u < length (snd c))%nat) by (apply nth_error_Some; congruence).
  specialize (Hd u). rewrite in_seq in Hd. specialize (Hd ltac:(lia)).
  unfold finished in Hd. rewrite Hu in Hd. unfold step in Hd.
  destruct (pcl x); try discriminate; try reflexivity.
  - destruct (0 <? strong (fst c)); discriminate.
  - destruct (strong (fst c) =? 1); discriminate.
Qed.

(* when everybody is done: the recorder was dropped exactly once if the handle was dropped, and
   not at all (the caller owns it) if it was recovered *)
Theorem dropped_iff_handle_dropped_when_done ps c : wf ps -> reach ps c ->
  all_done step c = true ->
  (In PDropHandle ps -> drops (fst c) = 1 /\ rs (fst c) = Finalised) /\
  (In PRecover ps -> drops (fst c) = 0 /\ rs (fst c) = Taken).
Proof.
  intros Hwf [sched ->] Hd.
  assert (HX : InvX (fst (exec step site (init_config ps) sched)))
    by (apply invariant_all_schedules; [apply InvX_step|apply InvX_init; exact Hwf]).
  pose proof (prg_constant ps sched) as Hprg.
  set (c := fst (exec step site (init_config ps) sched)) in *.
  destruct HX as [(I1 & I2 & I3 & I4 & I5 & I6) Hq].
  pose proof (all_done_pcs c Hd) as Hdone.
  assert (Hh : sumf holder (snd c) = 0%nat).
  { assert (F : Forall (fun l => holder l = 0%nat) (snd c)).
    { rewrite Forall_forall. intros l Hl. apply In_nth_error in Hl as [k Hk]. unfold holder. rewrite (Hdone k l Hk). reflexivity. }
    clear - F. induction F; cbn; lia. }
  assert (Hfind : forall p, In p ps -> exists u x, nth_error (snd c) u = Some x /\ prg x = p).
  { intros p Hin. rewrite <- Hprg in Hin. apply in_map_iff in Hin as (x & Hp & Hx).
    apply In_nth_error in Hx as [u Hu]. eauto. }
  split.
  - intros Hin. destruct (Hfind _ Hin) as (u & x & Hu & Hp).
    destruct (Hq u x Hu (Hdone u x Hu)) as [Q1 _]. rewrite Hp in Q1. specialize (Q1 eq_refl).
    rewrite Q1 in I1. cbn [b2n] in I1.
    destruct (rs (fst c)) eqn:Ers.
    + destruct I3; lia.
    + (* Taken needs a PRecover thread, but wf allows one owner only and it is the PDropHandle one *)
      destruct I3 as (_ & _ & _ & (u' & x' & Hu' & Hp')).
      exfalso. unfold wf in Hwf.
      assert (HinR : In PRecover ps) by (rewrite <- Hprg; apply in_map_iff; exists x'; split; [exact Hp'|eapply nth_error_In; eauto]).
      clear - Hwf Hin HinR. induction ps as [|p r IH]; [destruct Hin|].
      cbn [filter] in Hwf. destruct Hin as [->|Hin], HinR as [E|H']; subst; try discriminate; cbn [is_owner length] in Hwf.
      * assert (In PRecover (filter is_owner r)) by (apply filter_In; auto). destruct (filter is_owner r); [destruct H|cbn in Hwf; lia].
      * assert (In PDropHandle (filter is_owner r)) by (apply filter_In; auto). destruct (filter is_owner r); [destruct H|cbn in Hwf; lia].
      * destruct (is_owner p); cbn [length] in Hwf; apply IH; auto; lia.
    + destruct I3 as (E & _). split; [exact E|reflexivity].
  - intros Hin. destruct (Hfind _ Hin) as (u & x & Hu & Hp).
    destruct (Hq u x Hu (Hdone u x Hu)) as [_ Q2]. specialize (Q2 Hp).
    rewrite Q2 in I3. destruct I3 as (E & _). split; [exact E|exact Q2].
Qed.

(* non-vacuity *)
Example recover_example :
  let c := fst (exec step site (init_config [PEmit 2; PRecover])
                     [0; 1; 0; 1; 0; 1; 0; 0; 1; 1; 0; 0; 0; 0; 0]%nat) in
  map (fun l => rev (results l)) (snd c) = [[RReached; RInert]; [RRecovered 0 0]] /\ rs (fst c) = Taken.
Proof. vm_compute. split; reflexivity. Qed.
