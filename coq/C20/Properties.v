(* C20 — property theorems.  [reach ps c]: configuration c is reached from the initial configuration
   of thread programs ps by SOME schedule ([wf ps]: at most one thread owns the RecoveryHandle, which
   is a unique owned value); every theorem therefore holds for every interleaving of emitting threads
   with into_inner / handle drop, at the granularity of upgrade / entry / exit / release / try_unwrap. *)
From Coq Require Import List NArith Bool Arith.
Import ListNotations.
Require Import MV.Common.Interleave MV.C20.Model MV.C20.Proofs MV.C20.Proofs2 MV.C20.Exec MV.C20.ExecProofs.
Open Scope N_scope.

Theorem C20_invariant_every_schedule : forall ps sched, wf ps ->
  Inv (fst (exec step site (init_config ps) sched)).
Proof. exact reachable_Inv. Qed.

Theorem C20_live_until_recovered : forall ps c, wf ps -> reach ps c ->
  handle_alive (fst c) = true ->
  rs (fst c) = Live /\
  forall l n, pcl l = U n ->
    exists s' , step (fst c) l = Some (s', {| pcl := K1 n; prg := prg l; results := results l |}).
Proof. exact live_until_recovered. Qed.

Theorem C20_into_inner_waits : forall ps c, wf ps -> reach ps c ->
  forall l, In l (snd c) -> pcl l = T -> strong (fst c) = 1 ->
  sumf holder (snd c) = 0%nat /\ inside (fst c) = 0 /\ drops (fst c) = 0 /\ rs (fst c) = Live.
Proof. exact into_inner_waits. Qed.

Theorem C20_recovered_results_clean : forall ps c, wf ps -> reach ps c ->
  forall l i d, In l (snd c) -> In (RRecovered i d) (results l) -> i = 0 /\ d = 0.
Proof. exact recovered_results_clean. Qed.

Theorem C20_inert_after : forall ps c, wf ps -> reach ps c ->
  rs (fst c) <> Live ->
  strong (fst c) = 0 /\ sumf holder (snd c) = 0%nat /\ inside (fst c) = 0 /\
  forall l n, pcl l = U n ->
    step (fst c) l = Some (fst c, {| pcl := next_emit n; prg := prg l; results := RInert :: results l |}).
Proof. exact inert_after. Qed.

Theorem C20_nothing_enters_after_finalisation : forall ps c, wf ps -> reach ps c -> late_entry (fst c) = false.
Proof. exact nothing_enters_after_finalisation. Qed.

Theorem C20_dropped_exactly_once : forall ps c, wf ps -> reach ps c ->
  drops (fst c) <= 1 /\ (drops (fst c) = 1 <-> rs (fst c) = Finalised) /\ (rs (fst c) = Taken -> drops (fst c) = 0).
Proof. exact dropped_exactly_once. Qed.

Theorem C20_dropped_iff_handle_dropped_when_done : forall ps c, wf ps -> reach ps c ->
  all_done step c = true ->
  (In PDropHandle ps -> drops (fst c) = 1 /\ rs (fst c) = Finalised) /\
  (In PRecover ps -> drops (fst c) = 0 /\ rs (fst c) = Taken).
Proof. exact dropped_iff_handle_dropped_when_done. Qed.

(* the executable property evaluated by the check, on the model's own run of ANY well-formed case
   (programs + schedule, round-robin tail included): clauses (1)-(6) of Exec.spec_ok hold.  Clause
   (7), the walk over the step trace that decides for each upgrade whether it had to succeed, is the
   executable counterpart of C20_live_until_recovered / C20_inert_after; it is evaluated on every run
   and not proved of the model here (so there is no single C20_spec_ok_on_model theorem). *)
Theorem C20_spec_clauses_on_model_partial : forall c : case, wf (fst c) ->
  let '(tr, rs0, done, dr, late) := run_case c in
  late = false /\
  forallb (forallb (fun x => match x with RRecovered i d => (i =? 0) && (d =? 0) | _ => true end)) rs0 = true /\
  dr <= 1 /\
  (has_res is_recovered rs0 = true -> dr = 0) /\
  (has_res is_hdrop rs0 = true -> done = true -> dr = 1) /\
  (has_res is_hdrop rs0 = false -> dr = 0).
Proof. exact spec_clauses_on_model. Qed.
