(* C20 — property theorems.  [reach ps c]: configuration c is reached from the initial configuration
   of thread programs ps by SOME schedule ([wf ps]: at most one thread owns the RecoveryHandle, which
   is a unique owned value); every theorem therefore holds for every interleaving of emitting threads
   with into_inner / handle drop, at the granularity of upgrade / entry / exit / release / try_unwrap. *)
From Coq Require Import List NArith Bool Arith.
Import ListNotations.
Require Import MV.Common.Interleave MV.C20.Model MV.C20.Proofs MV.C20.Proofs2 MV.C20.Exec MV.C20.ExecProofs MV.C20.ProofsWalk2.
Open Scope N_scope.

Theorem C20_invariant_every_schedule : forall ps sched, wf ps ->
  Inv (fst (exec step site (init_config ps) sched)).
Proof. exact reachable_Inv. Qed.

Theorem C20_live_until_recovered : forall ps c, wf ps -> reach ps c ->
  handle_alive (fst c) = true ->
  rs (fst c) = Live /\
  forall l n, pcl l = U n ->
    exists s' , step (fst c) l = Some (s', {| pcl := K1 n; prg := prg l; results := results l |}).
Proof. exact live_until_recovered. Qed.

Theorem C20_into_inner_waits : forall ps c, wf ps -> reach ps c ->
  forall l, In l (snd c) -> pcl l = T -> strong (fst c) = 1 ->
  sumf holder (snd c) = 0%nat /\ inside (fst c) = 0 /\ drops (fst c) = 0 /\ rs (fst c) = Live.
Proof. exact into_inner_waits. Qed.

Theorem C20_recovered_results_clean : forall ps c, wf ps -> reach ps c ->
  forall l i d, In l (snd c) -> In (RRecovered i d) (results l) -> i = 0 /\ d = 0.
Proof. exact recovered_results_clean. Qed.

Theorem C20_inert_after : forall ps c, wf ps -> reach ps c ->
  rs (fst c) <> Live ->
  strong (fst c) = 0 /\ sumf holder (snd c) = 0%nat /\ inside (fst c) = 0 /\
  forall l n, pcl l = U n ->
    step (fst c) l = Some (fst c, {| pcl := next_emit n; prg := prg l; results := RInert :: results l |}).
Proof. exact inert_after. Qed.

Theorem C20_nothing_enters_after_finalisation : forall ps c, wf ps -> reach ps c -> late_entry (fst c) = false.
Proof. exact nothing_enters_after_finalisation. Qed.

Theorem C20_dropped_exactly_once : forall ps c, wf ps -> reach ps c ->
  drops (fst c) <= 1 /\ (drops (fst c) = 1 <-> rs (fst c) = Finalised) /\ (rs (fst c) = Taken -> drops (fst c) = 0).
Proof. exact dropped_exactly_once. Qed.

Theorem C20_dropped_iff_handle_dropped_when_done : forall ps c, wf ps -> reach ps c ->
  all_done step c = true ->
  (In PDropHandle ps -> drops (fst c) = 1 /\ rs (fst c) = Finalised) /\
  (In PRecover ps -> drops (fst c) = 0 /\ rs (fst c) = Taken).
Proof. exact dropped_iff_handle_dropped_when_done. Qed.

(* the executable property evaluated by the check, on the model's own run of ANY well-formed case
   (programs + schedule, round-robin tail included): every clause of Exec.spec_ok holds, including
   clause (7), the walk over the step trace that decides for each upgrade (site 2001) whether it had
   to succeed from the FINAL per-thread results and the positions of the last 2004 / 2005 steps of the
   full trace (proved in ProofsWalk2.v by a trace-indexed invariant, Common/InterleaveTrace.v). *)
Theorem C20_spec_ok_on_model : forall c : case, wf (fst c) -> spec_ok c (run_case c) = true.
Proof. exact spec_ok_on_model. Qed.
