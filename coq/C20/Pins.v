From Coq Require Import List NArith Bool Arith.
Import ListNotations.
Require Import MV.Common.Interleave MV.C20.Model MV.C20.Proofs MV.C20.Proofs2 MV.C20.Exec MV.C20.ExecProofs MV.C20.ProofsWalk2.
Open Scope N_scope.
Require Import MV.C20.Properties.

Check (C20_invariant_every_schedule : forall ps sched, wf ps ->
  Inv (fst (exec step site (init_config ps) sched))).
Print Assumptions C20_invariant_every_schedule.
Check (C20_live_until_recovered : forall ps c, wf ps -> reach ps c ->
  handle_alive (fst c) = true ->
  rs (fst c) = Live /\
  forall l n, pcl l = U n ->
    exists s' , step (fst c) l = Some (s', {| pcl := K1 n; prg := prg l; results := results l |})).
Print Assumptions C20_live_until_recovered.
Check (C20_into_inner_waits : forall ps c, wf ps -> reach ps c ->
  forall l, In l (snd c) -> pcl l = T -> strong (fst c) = 1 ->
  sumf holder (snd c) = 0%nat /\ inside (fst c) = 0 /\ drops (fst c) = 0 /\ rs (fst c) = Live).
Print Assumptions C20_into_inner_waits.
Check (C20_recovered_results_clean : forall ps c, wf ps -> reach ps c ->
  forall l i d, In l (snd c) -> In (RRecovered i d) (results l) -> i = 0 /\ d = 0).
Print Assumptions C20_recovered_results_clean.
Check (C20_inert_after : forall ps c, wf ps -> reach ps c ->
  rs (fst c) <> Live ->
  strong (fst c) = 0 /\ sumf holder (snd c) = 0%nat /\ inside (fst c) = 0 /\
  forall l n, pcl l = U n ->
    step (fst c) l = Some (fst c, {| pcl := next_emit n; prg := prg l; results := RInert :: results l |})).
Print Assumptions C20_inert_after.
Check (C20_nothing_enters_after_finalisation : forall ps c, wf ps -> reach ps c -> late_entry (fst c) = false).
Print Assumptions C20_nothing_enters_after_finalisation.
Check (C20_dropped_exactly_once : forall ps c, wf ps -> reach ps c ->
  drops (fst c) <= 1 /\ (drops (fst c) = 1 <-> rs (fst c) = Finalised) /\ (rs (fst c) = Taken -> drops (fst c) = 0)).
Print Assumptions C20_dropped_exactly_once.
Check (C20_dropped_iff_handle_dropped_when_done : forall ps c, wf ps -> reach ps c ->
  all_done step c = true ->
  (In PDropHandle ps -> drops (fst c) = 1 /\ rs (fst c) = Finalised) /\
  (In PRecover ps -> drops (fst c) = 0 /\ rs (fst c) = Taken)).
Print Assumptions C20_dropped_iff_handle_dropped_when_done.
Check (C20_spec_ok_on_model : forall c : case, wf (fst c) -> spec_ok c (run_case c) = true).
Print Assumptions C20_spec_ok_on_model.
