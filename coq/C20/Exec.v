(* C20 — executable entry points for the correspondence check (schedule replay). *)
From Coq Require Import List NArith Bool.
Import ListNotations.
Require Export MV.Common.Interleave MV.C20.Model.
Open Scope N_scope.

Definition case := (list prog * list N)%type.
(* trace, per-thread results (oldest first), all finished, recorder drops at the end, late entry *)
Definition OUT := (list (N * N) * list (list res) * bool * N * bool)%type.

Definition rr_fuel : nat := 200.

Definition run_case (c : case) : OUT :=
  let '(cf, tr) := exec_full step site rr_fuel (init_config (fst c)) (map N.to_nat (snd c)) in
  (tr, map (fun l => rev (results l)) (snd cf), all_done step cf, drops (fst cf), late_entry (fst cf)).

Definition res_eqb (a b : res) : bool :=
  match a, b with
  | RReached, RReached | RInert, RInert | RHandleDropped, RHandleDropped => true
  | RRecovered i d, RRecovered i' d' => (i =? i') && (d =? d')
  | _, _ => false
  end.
Fixpoint list_eqb {A} (eqb : A -> A -> bool) (a b : list A) : bool :=
  match a, b with
  | [], [] => true
  | x :: r, y :: r' => eqb x y && list_eqb eqb r r'
  | _, _ => false
  end.
Definition pair_eqb (a b : N * N) : bool := (fst a =? fst b) && (snd a =? snd b).
Definition out_eqb (a b : OUT) : bool :=
  let '(t1, r1, d1, n1, l1) := a in let '(t2, r2, d2, n2, l2) := b in
  list_eqb pair_eqb t1 t2 && list_eqb (list_eqb res_eqb) r1 r2 && Bool.eqb d1 d2 && (n1 =? n2) && Bool.eqb l1 l2.

(* ---- the property on an observed run ------------------------------------------------------
   Walk the step trace in order, tracking whether the recorder has been recovered (a 2004 step of
   the owner that ended its spin = the owner's result is RRecovered and this is its last 2004 step)
   or the handle dropped (2005):
   (1) no call entered the recorder after its finalisation began (late_entry = false);
   (2) into_inner returned with nobody inside and the recorder not dropped (RRecovered 0 0);
   (3) the recorder is dropped at most once; exactly once at the end iff the handle was dropped
       (and everybody finished), never when it was recovered (the caller owns it then);
   (4) every emission whose upgrade step (2001) happens while the handle is alive and not yet
       recovered reaches the recorder; every emission whose upgrade step happens after the
       recovery completed, or after the handle was dropped and every emission in flight at that
       moment finished, is inert.                                                               *)
Fixpoint count_tid (t : N) (l : list N) : nat :=
  match l with [] => O | x :: r => (if x =? t then 1 else 0)%nat + count_tid t r end.

Definition last_idx_of_site (tr : list (N * N)) (s : N) : option nat :=
  (* index of the last step with site s *)
  let fix go (l : list (N * N)) (i : nat) (acc : option nat) :=
    match l with [] => acc | (_, s') :: r => go r (S i) (if s' =? s then Some i else acc) end
  in go tr O None.

(* walk: [i] step index, [started] tids of emissions started so far (one entry per 2001 step),
   [inflight] number of emissions between their successful upgrade and their 2003 step.
   An upgrade must succeed iff the handle is still alive at that moment or some emission is in
   flight (those keep the recorder alive; a new emission that upgrades then extends that). *)
Fixpoint walk (rs : list (list res)) (tr : list (N * N)) (i : nat) (take_at drop_at : option nat)
         (started : list N) (inflight : N) : bool :=
  match tr with
  | [] => true
  | (t, s) :: r =>
      let res_t := nth (N.to_nat t) rs [] in
      if s =? 2001 then
        let k := count_tid t started in
        let outcome := nth_error res_t k in     (* emitters' results are exactly one per emission *)
        let gone_take := match take_at with Some j => Nat.ltb j i | None => false end in
        let gone_drop := match drop_at with Some j => Nat.ltb j i | None => false end in
        let alive := (negb gone_take && negb gone_drop) || (0 <? inflight) in
        let ok := match outcome with
                  | Some RReached => alive
                  | Some RInert => negb alive
                  | Some _ => false
                  | None => true          (* emission did not complete within the observed run *)
                  end in
        (* after a completed recovery nothing can be in flight *)
        let ok2 := if gone_take then inflight =? 0 else true in
        ok && ok2 && walk rs r (S i) take_at drop_at (t :: started) (if alive then inflight + 1 else inflight)
      else if s =? 2003 then walk rs r (S i) take_at drop_at started (inflight - 1)
      else walk rs r (S i) take_at drop_at started inflight
  end.

Definition has_res (p : res -> bool) (rs : list (list res)) : bool := existsb (existsb p) rs.
Definition is_recovered (x : res) : bool := match x with RRecovered _ _ => true | _ => false end.
Definition is_hdrop (x : res) : bool := match x with RHandleDropped => true | _ => false end.

Definition spec_ok (c : case) (o : OUT) : bool :=
  let '(tr, rs, done, dr, late) := o in
  let recovered := has_res is_recovered rs in
  let hdropped := has_res is_hdrop rs in
  negb late
  && forallb (forallb (fun x => match x with RRecovered i d => (i =? 0) && (d =? 0) | _ => true end)) rs
  && (dr <=? 1)
  && (if recovered then dr =? 0 else true)
  && (if hdropped && done then dr =? 1 else true)
  && (if negb hdropped then dr =? 0 else true)
  && walk rs tr O (if recovered then last_idx_of_site tr 2004 else None)
          (last_idx_of_site tr 2005) [] 0.

Definition known_class (c : case) : option N := None.

Definition verdicts (l : list (N * case * OUT)) : list (N * bool * bool * option N) :=
  map (fun '(i, c, o) => (i, out_eqb (run_case c) o, spec_ok c o, known_class c)) l.
