(* C20 — the executable property on the model's own runs: clauses (1)-(6) of Exec.spec_ok are proved
   for every well-formed case; clause (7) (the walk over the step trace deciding for each upgrade
   whether it had to succeed) is the executable counterpart of live_until_recovered / inert_after and
   is evaluated per run; it is proved of the model in ProofsWalk2.v (spec_ok_on_model). *)
From Coq Require Import List NArith Bool Arith Lia.
Import ListNotations.
Require Import MV.Common.Interleave MV.C20.Model MV.C20.Proofs MV.C20.Proofs2 MV.C20.Exec.
Open Scope N_scope.

(* results only ever name what happened: a thread with a Recovered / HandleDropped result is Done *)
Definition res_done (l : local) : Prop :=
  ((exists i d, In (RRecovered i d) (results l)) \/ In RHandleDropped (results l)) -> pcl l = Done.

Definition InvY (c : cfg) : Prop :=
  InvX c /\
  Forall res_done (snd c) /\
  (handle_alive (fst c) = false ->
     rs (fst c) = Taken \/ exists u x, nth_error (snd c) u = Some x /\ In RHandleDropped (results x)).

Lemma InvY_step : step_preserves step InvY.
Proof.
  intros s ls t l s' l' (HX & HR & HA) Hn Hs.
  assert (HX' : InvX (s', upd ls t l')) by (eapply InvX_step; eauto).
  split; [exact HX'|].
  pose proof (Forall_nth_error _ _ _ _ HR Hn) as Hrl.
  destruct HX as [Hinv _]. pose proof Hinv as (I1 & _ & I3 & _ & _ & I6). cbn [fst snd] in *.
  destruct (I6 t l Hn) as (LA & _).
  (* the stepping thread is not Done, so it has neither special result yet *)
  assert (Hnd : pcl l <> Done) by (intros E; unfold step in Hs; rewrite E in Hs; discriminate).
  assert (Hno : ~ ((exists i d, In (RRecovered i d) (results l)) \/ In RHandleDropped (results l)))
    by (intros H; apply Hnd, Hrl, H).
  split.
  - apply Forall_upd; [exact HR|]. unfold res_done. revert Hs. unfold step, release.
    destruct (pcl l) eqn:Hpc; try destruct (0 <? strong s); try destruct (strong s =? 1);
      intros E; inversion E; subst s' l'; cbn [pcl results]; intros H; try reflexivity;
      try (exfalso; apply Hno; exact H);
      try (exfalso; apply Hno; destruct H as [(i & d & [Hx|Hx])|[Hx|Hx]]; try discriminate; [left; eauto|right; exact Hx]).
  - intros Ha'.
    (* witnesses survive: results only grow *)
    assert (Hgrow : forall r, In r (results l) -> In r (results l')).
    { intros r Hr. revert Hs. unfold step, release.
      destruct (pcl l); try destruct (0 <? strong s); try destruct (strong s =? 1);
        intros E; inversion E; subst s' l'; cbn [results]; auto; right; exact Hr. }
    assert (Hwit : (exists u x, nth_error ls u = Some x /\ In RHandleDropped (results x)) ->
                   exists u x, nth_error (upd ls t l') u = Some x /\ In RHandleDropped (results x)).
    { intros (u & x & Hu & Hx). destruct (Nat.eq_dec u t) as [->|Hne].
      - exists t, l'. split; [eapply nth_error_upd_same; eauto|]. rewrite Hn in Hu. inversion Hu; subst. apply Hgrow, Hx.
      - exists u, x. split; [rewrite nth_error_upd_other by congruence; exact Hu|exact Hx]. }
    destruct (handle_alive s) eqn:Ea.
    + (* the handle was alive: this step gave it up *)
      revert Hs Ha'. unfold step, release.
      destruct (pcl l) eqn:Hpc; try destruct (0 <? strong s); try destruct (strong s =? 1);
        intros E; inversion E; subst s' l'; cbn [handle_alive rs results]; intros Ha'; try congruence;
        try (left; reflexivity);
        try (right; exists t; eexists; split; [eapply nth_error_upd_same; eauto|left; reflexivity]).
    + destruct (HA eq_refl) as [Ht|Hw]; [|right; apply Hwit, Hw].
      (* Taken is absorbing *)
      left. rewrite Ht in I3. destruct I3 as (_ & Hs0 & _ & _). cbn [b2n] in I1.
      pose proof (sumf_ge holder ls t l Hn) as G. unfold holder in G.
      revert Hs. unfold step, release. rewrite Hs0.
      destruct (pcl l) eqn:Hpc; cbn; intros E; inversion E; subst s' l'; cbn [rs]; try exact Ht; try (exfalso; lia).
Qed.

Lemma InvY_init ps : wf ps -> InvY (init_config ps).
Proof.
  intros Hwf. split; [apply InvX_init; exact Hwf|]. split.
  - cbn [snd init_config]. rewrite Forall_forall. intros l Hin. apply in_map_iff in Hin as (p & <- & _).
    intros [(i & d & [])|[]].
  - cbn. discriminate.
Qed.

Definition final (c : case) : cfg :=
  fst (exec_full step site rr_fuel (init_config (fst c)) (map N.to_nat (snd c))).

Lemma final_InvY c : wf (fst c) -> InvY (final c).
Proof. intros H. unfold final. apply invariant_exec_full; [apply InvY_step|apply InvY_init; exact H]. Qed.

Lemma final_reach c : reach (fst c) (final c).
Proof.
  unfold final, reach. destruct (exec_full_is_exec step site rr_fuel (init_config (fst c)) (map N.to_nat (snd c))) as [s Hs].
  exists (map N.to_nat (snd c) ++ s). exact Hs.
Qed.

Lemma has_res_in p ls : has_res p (map (fun l => rev (results l)) ls) = true ->
  exists u x r, nth_error ls u = Some x /\ In r (results x) /\ p r = true.
Proof.
  unfold has_res. rewrite existsb_exists. intros (rl & Hin & Hex). apply in_map_iff in Hin as (x & <- & Hx).
  rewrite existsb_exists in Hex. destruct Hex as (r & Hr & Hp). apply in_rev in Hr.
  apply In_nth_error in Hx as [u Hu]. eauto 7.
Qed.

Theorem spec_clauses_on_model c : wf (fst c) ->
  let '(tr, rs0, done, dr, late) := run_case c in
  late = false /\
  forallb (forallb (fun x => match x with RRecovered i d => (i =? 0) && (d =? 0) | _ => true end)) rs0 = true /\
  dr <= 1 /\
  (has_res is_recovered rs0 = true -> dr = 0) /\
  (has_res is_hdrop rs0 = true -> done = true -> dr = 1) /\
  (has_res is_hdrop rs0 = false -> dr = 0).
Proof.
  intros Hwf. unfold run_case. fold (final c).
  pose proof (final_InvY c Hwf) as (HX & HR & HA). pose proof (final_reach c) as Hreach.
  destruct (exec_full step site rr_fuel (init_config (fst c)) (map N.to_nat (snd c))) as [cf tr] eqn:E.
  unfold final in *. rewrite E in *. cbn [fst] in *.
  destruct HX as [Hinv Hq]. pose proof Hinv as (I1 & I2 & I3 & I4 & I5 & I6).
  split; [exact I4|]. split.
  - rewrite forallb_forall. intros rl Hin. apply in_map_iff in Hin as (x & <- & Hx).
    rewrite forallb_forall. intros r Hr. apply in_rev in Hr. destruct r; auto.
    apply In_nth_error in Hx as [u Hu]. destruct (I6 u x Hu) as (_ & _ & LC & _).
    destruct (LC _ _ Hr) as (-> & -> & _). reflexivity.
  - split; [destruct (rs (fst cf)); [destruct I3 as [-> _]|destruct I3 as (-> & _)|destruct I3 as (-> & _)]; lia|].
    split; [|split].
    + intros Hrec. apply has_res_in in Hrec as (u & x & r & Hu & Hr & Hp). destruct r; try discriminate.
      destruct (I6 u x Hu) as (_ & _ & LC & _). destruct (LC _ _ Hr) as (_ & _ & Hprg).
      rewrite Forall_forall in HR. assert (Hd : pcl x = Done) by (apply (HR x (nth_error_In _ _ Hu)); left; eauto).
      destruct (Hq u x Hu Hd) as [_ Q2]. specialize (Q2 Hprg). rewrite Q2 in I3. destruct I3 as (E0 & _). exact E0.
    + intros Hh Hdone. apply has_res_in in Hh as (u & x & r & Hu & Hr & Hp). destruct r; try discriminate.
      rewrite Forall_forall in HR. pose proof (HR x (nth_error_In _ _ Hu) (or_intror Hr)) as Hd.
      (* the thread that dropped the handle ran PDropHandle *)
      assert (Hprg : prg x = PDropHandle).
      { (* only the H step adds RHandleDropped, and lok at H gives prg = PDropHandle; carried by an invariant *)
        destruct Hreach as [sched ->].
        assert (HI : forall u x, nth_error (snd (fst (exec step site (init_config (fst c)) sched))) u = Some x ->
                                 In RHandleDropped (results x) -> prg x = PDropHandle).
        { apply (invariant_all_schedules step site
             (fun c1 => Inv c1 /\ forall u x, nth_error (snd c1) u = Some x -> In RHandleDropped (results x) -> prg x = PDropHandle)).
          - intros s ls t l s' l' [Hi Hp0] Hn Hs. split; [eapply step_preserves_Inv; eauto|].
            intros u0 x0 Hu0 Hr0. cbn [snd] in *.
            destruct (nth_error_upd_cases ls t l' u0 x0 Hu0) as [[-> ->]|[Hne E']]; [|eapply Hp0; eauto].
            destruct Hi as (_ & _ & _ & _ & _ & I6'). cbn [snd] in I6'. destruct (I6' t l Hn) as (_ & _ & _ & _ & LE & _).
            revert Hs Hr0. unfold step, release.
            destruct (pcl l) eqn:Hpc; try destruct (0 <? strong s); try destruct (strong s =? 1);
              intros E'; inversion E'; subst s' l'; cbn [prg results]; intros Hr0;
              try (eapply Hp0; eauto; fail);
              try (destruct Hr0 as [Hr0|Hr0]; [discriminate|eapply Hp0; eauto]).
            all: try (apply LE; reflexivity).
            all: cbn in Hr0; destruct Hr0 as [Hr0|Hr0]; [discriminate|eapply Hp0; [exact Hn|exact Hr0]].
          - split; [apply Inv_init; exact Hwf|]. intros u0 x0 Hu0 Hr0. cbn [snd init_config] in Hu0.
            rewrite nth_error_map in Hu0. destruct (nth_error (fst c) u0); [|discriminate]. inversion Hu0; subst. destruct Hr0. }
        eapply HI; eauto. }
      assert (Hin : In PDropHandle (fst c)).
      { destruct Hreach as [sched Ec]. pose proof (prg_constant (fst c) sched) as Hpc. rewrite <- Ec in Hpc.
        rewrite <- Hpc. apply in_map_iff. exists x. split; [exact Hprg|eapply nth_error_In; eauto]. }
      destruct (dropped_iff_handle_dropped_when_done (fst c) cf Hwf Hreach Hdone) as [H1 _].
      destruct (H1 Hin) as [E1 _]. exact E1.
    + intros Hno. destruct (rs (fst cf)) eqn:Ers.
      * destruct I3 as [E0 _]. exact E0.
      * destruct I3 as (E0 & _). exact E0.
      * exfalso. destruct I3 as (_ & _ & Ha). destruct (HA Ha) as [Ht|(u & x & Hu & Hx)]; [congruence|].
        assert (has_res is_hdrop (map (fun l => rev (results l)) (snd cf)) = true).
        { unfold has_res. rewrite existsb_exists. exists (rev (results x)). split.
          - apply in_map_iff. exists x. split; [reflexivity|eapply nth_error_In; eauto].
          - rewrite existsb_exists. exists RHandleDropped. split; [rewrite <- in_rev; exact Hx|reflexivity]. }
        congruence.
Qed.
