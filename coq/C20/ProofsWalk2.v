(* C20 — clause (7) of Exec.spec_ok (the trace walk) on the model's own runs: a relation RW between
   the configuration reached and the trace emitted so far, preserved by every step and every no-op
   entry, hence (Common/InterleaveTrace.exec_full_trace) true of the final configuration and the full
   trace of exec_full, for every schedule.

   The walker consults FINAL data: the per-thread result lists, the index of the last 2004 step (when
   somebody recovered) and the index of the last 2005 step.  RW quantifies over every such final
   data [rsF, ta, da] that is COMPATIBLE with the present (compat): results recorded so far are a
   prefix of rsF; an emission in flight is recorded in rsF, if at all, as RReached; ta names the
   successful try_unwrap step if it has happened and otherwise a step not yet taken (or none); da
   likewise for the handle drop.  For all of them the walker accepts the trace so far, its
   [inflight] is the number of threads holding an upgraded reference, and its [started] counts each
   thread's emissions.  Compatibility with the successor configuration implies compatibility with
   the present one (compat_back), which is what makes the relation inductive. *)
From Coq Require Import List NArith Bool Arith Lia.
Import ListNotations.
Require Import MV.Common.Interleave MV.Common.InterleaveTrace MV.C20.Model MV.C20.Proofs MV.C20.Proofs2 MV.C20.Exec MV.C20.ExecProofs MV.C20.ProofsWalk.
Open Scope N_scope.

Definition inprog (l : local) : nat := match pcl l with K1 _ | K2 _ => 1 | _ => 0 end.
Definition emitted (l : local) : nat := if is_owner (prg l) then 0 else (length (results l) + inprog l)%nat.

Lemma step_facts s l s' l' : step s l = Some (s', l') ->
  prg l' = prg l /\
  (results l' = results l \/ exists r, results l' = r :: results l) /\
  (inprog l = 1%nat -> (inprog l' = 1%nat /\ results l' = results l) \/ results l' = RReached :: results l) /\
  (rs s' = Taken -> rs s = Taken \/ (site l = 2004 /\ exists i d, results l' = RRecovered i d :: results l)) /\
  (handle_alive s' = handle_alive s \/
     (handle_alive s' = false /\
      (site l = 2005 \/ (site l = 2004 /\ rs s' = Taken /\ exists i d, results l' = RRecovered i d :: results l)))) /\
  (site l = 2004 -> pcl l = T) /\
  (site l = 2005 -> pcl l = H /\ handle_alive s' = false) /\
  (site l <> 2001 -> (pcl l = T \/ pcl l = H -> is_owner (prg l) = true) -> emitted l' = emitted l) /\
  (site l <> 2001 -> site l <> 2003 -> holder l' = holder l) /\
  (site l = 2003 -> holder l = 1%nat /\ holder l' = 0%nat) /\
  (site l = 2001 -> exists n, pcl l = U n /\ inprog l = 0%nat /\ holder l = 0%nat /\
       ((0 <? strong s = true /\ holder l' = 1%nat /\ inprog l' = 1%nat /\ results l' = results l) \/
        (0 <? strong s = false /\ holder l' = 0%nat /\ inprog l' = 0%nat /\ results l' = RInert :: results l))).
Proof.
  intros Hs. unfold step, release in Hs. destruct l as [p g r]. cbn [pcl prg results] in Hs.
  unfold emitted. unfold site, inprog, holder.
  destruct p; try destruct (0 <? strong s) eqn:Hpos; try destruct (strong s =? 1) eqn:H1;
    inversion Hs; subst s' l'; clear Hs; cbn [pcl prg results rs handle_alive strong length];
    repeat match goal with |- _ /\ _ => split end; intros; try discriminate; try reflexivity; try congruence;
    try (left; reflexivity); try (right; eexists; reflexivity); auto.
  all: try (destruct g as [[|k]| |]; cbn; reflexivity).
  all: try (destruct n; reflexivity).
  all: try (destruct (is_owner g); cbn; lia).
  all: try (match goal with Hx : _ \/ _ -> is_owner _ = true |- _ => rewrite Hx by auto; reflexivity end).
  all: try (split; [reflexivity|destruct n; reflexivity]).
  all: try (right; split; [reflexivity|right; repeat split; eauto]).
  all: try (eexists; split; [reflexivity|split; [reflexivity|split; [reflexivity|]]]).
  all: try (left; repeat split; reflexivity).
  all: try (right; destruct n; repeat split; reflexivity).
  all: try (right; split; [reflexivity|eauto]).
Qed.


Definition agrees (x cur : option nat) (len : nat) : Prop :=
  match cur with Some j => x = Some j | None => gone x len = false end.

Definition compat (c : cfg) (tr : list (N * N)) (rsF : list (list res)) (ta da : option nat) : Prop :=
  (forall u x k r, nth_error (snd c) u = Some x -> nth_error (rev (results x)) k = Some r ->
                   nth_error (nth u rsF []) k = Some r) /\
  (forall u x, nth_error (snd c) u = Some x -> inprog x = 1%nat ->
     nth_error (nth u rsF []) (length (results x)) = None \/
     nth_error (nth u rsF []) (length (results x)) = Some RReached) /\
  (match rs (fst c) with Taken => ta = last_idx_of_site tr 2004 | _ => gone ta (length tr) = false end) /\
  agrees da (last_idx_of_site tr 2005) (length tr).

Definition Aux (c : cfg) (tr : list (N * N)) : Prop :=
  Inv c /\
  (rs (fst c) = Taken -> exists j, last_idx_of_site tr 2004 = Some j) /\
  (rs (fst c) = Taken -> exists u x i d, nth_error (snd c) u = Some x /\ In (RRecovered i d) (results x)) /\
  (handle_alive (fst c) = true -> last_idx_of_site tr 2005 = None) /\
  (handle_alive (fst c) = false -> rs (fst c) = Taken \/ exists j, last_idx_of_site tr 2005 = Some j).

Definition WS (c : cfg) (tr : list (N * N)) : Prop :=
  forall rsF ta da, compat c tr rsF ta da ->
  exists started,
    fold_left (wstep rsF ta da) tr (Some (O, [], 0)) = Some (length tr, started, N.of_nat (sumf holder (snd c))) /\
    forall u x, nth_error (snd c) u = Some x -> count_tid (N.of_nat u) started = emitted x.

Definition RW (c : cfg) (tr : list (N * N)) : Prop := Aux c tr /\ WS c tr.

Lemma Taken_absorbing s ls t l s' l' :
  Inv (s, ls) -> nth_error ls t = Some l -> step s l = Some (s', l') -> rs s = Taken -> rs s' = Taken.
Proof.
  intros (I1 & _ & I3 & _) Hn Hs Ht. cbn [fst snd] in *.
  rewrite Ht in I3. destruct I3 as (_ & Hs0 & Ha & _). rewrite Ha in I1. cbn [b2n] in I1.
  pose proof (sumf_ge holder ls t l Hn) as G. unfold holder in G.
  revert Hs. unfold step, release. rewrite Hs0.
  destruct (pcl l) eqn:Hpc; cbn; intros E; inversion E; subst s' l'; cbn [rs]; try exact Ht; try (exfalso; lia).
Qed.

Lemma Aux_step s ls t l s' l' tr :
  Aux (s, ls) tr -> nth_error ls t = Some l -> step s l = Some (s', l') ->
  Aux (s', upd ls t l') (tr ++ [(N.of_nat t, site l)]).
Proof.
  intros (Hinv & B1 & B2 & B3 & B4) Hn Hs. cbn [fst snd] in *.
  pose proof (step_facts _ _ _ _ Hs) as (G1 & G2 & G3 & G4 & G5 & G6 & G7 & _).
  pose proof (Taken_absorbing _ _ _ _ _ _ Hinv Hn Hs) as Habs.
  split; [eapply step_preserves_Inv; eauto|]. cbn [fst snd]. rewrite !last_idx_snoc.
  split; [|split; [|split]].
  - intros Ht. destruct (N.eqb_spec (site l) 2004); [eauto|].
    destruct (G4 Ht) as [E|[E _]]; [auto|contradiction].
  - intros Ht. destruct (G4 Ht) as [E|[_ (i & d & E)]].
    + destruct (B2 E) as (u & x & i & d & Hu & Hin). destruct (Nat.eq_dec u t) as [->|Hne].
      * exists t, l', i, d. split; [eapply nth_error_upd_same; eauto|].
        rewrite Hn in Hu. inversion Hu; subst x. destruct G2 as [E2|[r0 E2]]; rewrite E2; [exact Hin|right; exact Hin].
      * exists u, x, i, d. split; [rewrite nth_error_upd_other by congruence; exact Hu|exact Hin].
    + exists t, l', i, d. split; [eapply nth_error_upd_same; eauto|rewrite E; left; reflexivity].
  - intros Ha. destruct (N.eqb_spec (site l) 2005) as [E|E].
    + destruct (G7 E) as [_ E']. congruence.
    + destruct G5 as [E5|[E5 _]]; [apply B3; congruence|congruence].
  - intros Ha. destruct (N.eqb_spec (site l) 2005) as [E|E]; [right; eauto|].
    destruct G5 as [E5|[_ [E5|(_ & E5 & _)]]].
    + destruct (B4 ltac:(congruence)) as [Ht|Hj]; [left; auto|right; exact Hj].
    + contradiction.
    + left; exact E5.
Qed.

Lemma lok_owner_site s ls t l : Inv (s, ls) -> nth_error ls t = Some l ->
  (pcl l = T \/ pcl l = H -> is_owner (prg l) = true /\ handle_alive s = true) /\
  (forall n, pcl l = U n -> is_owner (prg l) = false).
Proof.
  intros (_ & _ & _ & _ & _ & I6) Hn. cbn [fst snd] in I6. destruct (I6 t l Hn) as (LA & _ & _ & _ & _ & LF).
  split; [exact LA|]. intros n E. apply (LF n). left; exact E.
Qed.

Lemma compat_back s ls t l s' l' tr rsF ta da :
  Aux (s, ls) tr -> nth_error ls t = Some l -> step s l = Some (s', l') ->
  compat (s', upd ls t l') (tr ++ [(N.of_nat t, site l)]) rsF ta da -> compat (s, ls) tr rsF ta da.
Proof.
  intros (Hinv & B1 & B2 & B3 & B4) Hn Hs (C1 & C2 & C3 & C4). cbn [fst snd] in *.
  pose proof (step_facts _ _ _ _ Hs) as (G1 & G2 & G3 & G4 & G5 & G6 & G7 & _).
  pose proof (Taken_absorbing _ _ _ _ _ _ Hinv Hn Hs) as Habs.
  destruct (lok_owner_site _ _ _ _ Hinv Hn) as [LA _].
  pose proof (nth_error_upd_same ls t l' l Hn) as Hn'.
  rewrite app_length in C3, C4. cbn [length] in C3, C4. rewrite Nat.add_1_r in C3, C4.
  rewrite last_idx_snoc in C3, C4.
  split; [|split; [|split]]; cbn [fst snd].
  - intros u x k r Hu Hk. destruct (Nat.eq_dec u t) as [->|Hne].
    + rewrite Hn in Hu; inversion Hu; subst x. apply (C1 t l' k r Hn').
      destruct G2 as [E|[r0 E]]; rewrite E; [exact Hk|]. cbn [rev]. rewrite nth_error_app1; [exact Hk|].
      apply nth_error_Some. congruence.
    + apply (C1 u x k r); [rewrite nth_error_upd_other by congruence; exact Hu|exact Hk].
  - intros u x Hu Hp. destruct (Nat.eq_dec u t) as [->|Hne].
    + rewrite Hn in Hu; inversion Hu; subst x. destruct (G3 Hp) as [[Hp' E]|E].
      * rewrite <- E. apply (C2 t l' Hn' Hp').
      * right. apply (C1 t l' _ RReached Hn'). rewrite E. cbn [rev].
        rewrite nth_error_app2 by (rewrite rev_length; lia). rewrite rev_length, Nat.sub_diag. reflexivity.
    + apply C2; [rewrite nth_error_upd_other by congruence; exact Hu|exact Hp].
  - assert (Hnt : rs s <> Taken -> gone ta (length tr) = false).
    { intros Hnt. destruct (rs s') eqn:Ers'; try (apply gone_mono; exact C3).
      destruct (G4 eq_refl) as [E|[E _]]; [contradiction|]. rewrite E in C3. cbn in C3. subst ta.
      cbn [gone]. apply Nat.ltb_irrefl. }
    destruct (rs s) eqn:Ers; try (apply Hnt; discriminate).
    rewrite (Habs eq_refl) in C3. destruct (N.eqb_spec (site l) 2004) as [E|E]; [|exact C3].
    exfalso. destruct (LA (or_introl (G6 E))) as [_ Ha]. destruct Hinv as (_ & _ & I3 & _). cbn [fst snd] in I3.
    rewrite Ers in I3. destruct I3 as (_ & _ & Ha' & _). congruence.
  - unfold agrees in *. destruct (N.eqb_spec (site l) 2005) as [E|E].
    + destruct (G7 E) as [Hp _]. destruct (LA (or_intror Hp)) as [_ Ha]. rewrite (B3 Ha). subst da.
      cbn [gone]. apply Nat.ltb_irrefl.
    + destruct (last_idx_of_site tr 2005); [exact C4|apply gone_mono; exact C4].
Qed.

Lemma of_nat_ne t u : u <> t -> N.of_nat t <> N.of_nat u.
Proof. intros H E. apply Nat2N.inj in E. congruence. Qed.

Lemma WS_step s ls t l s' l' tr :
  Aux (s, ls) tr -> WS (s, ls) tr -> nth_error ls t = Some l -> step s l = Some (s', l') ->
  WS (s', upd ls t l') (tr ++ [(N.of_nat t, site l)]).
Proof.
  intros HA HW Hn Hs rsF ta da Hc'.
  pose proof (compat_back _ _ _ _ _ _ _ _ _ _ HA Hn Hs Hc') as Hc.
  destruct (HW rsF ta da Hc) as (st & Hf & Hcnt). cbn [fst snd] in *.
  rewrite fold_left_app, Hf. cbn [fold_left]. rewrite app_length; cbn [length]; rewrite Nat.add_1_r.
  destruct HA as (Hinv & B1 & B2 & B3 & B4). cbn [fst snd] in *.
  pose proof (step_facts _ _ _ _ Hs) as (G1 & G2 & G3 & G4 & G5 & G6 & G7 & G8 & G9 & G10 & G11).
  destruct (lok_owner_site _ _ _ _ Hinv Hn) as [LA LF].
  pose proof (nth_error_upd_same ls t l' l Hn) as Hn'.
  pose proof (sumf_upd holder ls t l l' Hn) as Hsum.
  pose proof (Hcnt t l Hn) as Hct.
  destruct Hinv as (I1 & _ & I3 & _). cbn [fst snd] in I1, I3.
  destruct Hc as (C1 & C2 & C3 & C4). destruct Hc' as (C1' & C2' & _ & _). cbn [fst snd] in *.
  destruct (N.eq_dec (site l) 2001) as [E1|N1]; [|destruct (N.eq_dec (site l) 2003) as [E3|N3]].
  - (* upgrade *)
    rewrite E1, wstep_2001. destruct (G11 E1) as (n & Hpc & Hip & Hh & Hcase).
    pose proof (LF n Hpc) as Hno.
    assert (Hk : count_tid (N.of_nat t) st = length (results l))
      by (rewrite Hct; unfold emitted; rewrite Hno, Hip; lia).
    unfold wok. rewrite Nat2N.id, Hk.
    destruct Hcase as [(Hpos & Hh' & Hip' & Er)|(Hpos & Hh' & Hip' & Er)].
    + (* the upgrade succeeded: the walker agrees it had to *)
      apply N.ltb_lt in Hpos.
      assert (Hnt : rs s <> Taken) by (intros Ht; rewrite Ht in I3; destruct I3 as (_ & Hs0 & _); lia).
      assert (Hgt : gone ta (length tr) = false) by (destruct (rs s); [exact C3|congruence|exact C3]).
      assert (Hal : walive ta da (length tr) (N.of_nat (sumf holder ls)) = true).
      { unfold walive. destruct (N.ltb_spec 0 (N.of_nat (sumf holder ls))) as [Hl|Hl]; [apply orb_true_r|].
        assert (Ha : handle_alive s = true) by (destruct (handle_alive s); [reflexivity|cbn [b2n] in I1; lia]).
        rewrite Hgt. unfold agrees in C4. rewrite (B3 Ha) in C4. rewrite C4. reflexivity. }
      rewrite Hal, Hgt.
      assert (Hout : match nth_error (nth t rsF []) (length (results l)) with
                     | Some RReached => true | Some RInert => negb true | Some _ => false | None => true end = true).
      { destruct (C2' t l' Hn' Hip') as [E|E]; rewrite Er in E; rewrite E; reflexivity. }
      rewrite Hout. cbn [andb]. exists (N.of_nat t :: st). split.
      * f_equal. f_equal. lia.
      * intros u x Hu. destruct (nth_error_upd_cases ls t l' u x Hu) as [[-> ->]|[Hne Hu']].
        -- rewrite count_tid_cons_same, Hk. unfold emitted. rewrite G1, Hno, Er, Hip'. lia.
        -- rewrite count_tid_cons_other by (apply of_nat_ne; exact Hne). apply Hcnt; exact Hu'.
    + (* the upgrade failed: the walker agrees it could not succeed *)
      apply N.ltb_ge in Hpos.
      assert (Hh0 : sumf holder ls = 0%nat) by lia.
      assert (Ha : handle_alive s = false) by (destruct (handle_alive s); [cbn [b2n] in I1; lia|reflexivity]).
      rewrite Hh0 in *. cbn [N.of_nat].
      assert (Hal : walive ta da (length tr) 0 = false).
      { unfold walive. rewrite orb_false_r. destruct (B4 Ha) as [Ht|[j Hj]].
        - rewrite Ht in C3. destruct (B1 Ht) as [j Hj]. rewrite Hj in C3. subst ta. cbn [gone].
          apply last_idx_lt in Hj. apply Nat.ltb_lt in Hj. rewrite Hj. reflexivity.
        - unfold agrees in C4. rewrite Hj in C4. subst da. cbn [gone].
          apply last_idx_lt in Hj. apply Nat.ltb_lt in Hj. rewrite Hj. apply andb_false_r. }
      rewrite Hal.
      assert (Hout : nth_error (nth t rsF []) (length (results l)) = Some RInert).
      { apply (C1' t l' _ RInert Hn'). rewrite Er. cbn [rev].
        rewrite nth_error_app2 by (rewrite rev_length; lia). rewrite rev_length, Nat.sub_diag. reflexivity. }
      rewrite Hout. cbn [negb andb]. replace (if gone ta (length tr) then 0 =? 0 else true) with true by (destruct (gone ta (length tr)); reflexivity).
      exists (N.of_nat t :: st). split.
      * f_equal. f_equal. lia.
      * intros u x Hu. destruct (nth_error_upd_cases ls t l' u x Hu) as [[-> ->]|[Hne Hu']].
        -- rewrite count_tid_cons_same, Hk. unfold emitted. rewrite G1, Hno, Er, Hip'. cbn [length]. lia.
        -- rewrite count_tid_cons_other by (apply of_nat_ne; exact Hne). apply Hcnt; exact Hu'.
  - (* release of the upgraded reference *)
    rewrite E3, wstep_2003. destruct (G10 E3) as [Hh Hh']. exists st. split.
    + f_equal. f_equal. lia.
    + intros u x Hu. destruct (nth_error_upd_cases ls t l' u x Hu) as [[-> ->]|[Hne Hu']].
      * rewrite Hct. symmetry. apply G8; [exact N1|]. intros Hp. apply LA; exact Hp.
      * apply Hcnt; exact Hu'.
  - rewrite wstep_other by assumption. exists st. split.
    + f_equal. f_equal. rewrite (G9 N1 N3) in Hsum. f_equal. lia.
    + intros u x Hu. destruct (nth_error_upd_cases ls t l' u x Hu) as [[-> ->]|[Hne Hu']].
      * rewrite Hct. symmetry. apply G8; [exact N1|]. intros Hp. apply LA; exact Hp.
      * apply Hcnt; exact Hu'.
Qed.

(* ---- RW is a trace-indexed invariant *)
Lemma RW_step : trace_step_preserves step site RW.
Proof.
  intros s ls t l s' l' tr [HA HW] Hn Hs. split; [eapply Aux_step; eauto|eapply WS_step; eauto].
Qed.

Lemma RW_noop : trace_noop_preserves RW.
Proof.
  intros [s ls] tr t [(Hinv & B1 & B2 & B3 & B4) HW]. cbn [fst snd] in *.
  assert (E4 : last_idx_of_site (tr ++ [(N.of_nat t, noop_site)]) 2004 = last_idx_of_site tr 2004)
    by (rewrite last_idx_snoc; reflexivity).
  assert (E5 : last_idx_of_site (tr ++ [(N.of_nat t, noop_site)]) 2005 = last_idx_of_site tr 2005)
    by (rewrite last_idx_snoc; reflexivity).
  split.
  - split; [exact Hinv|]. cbn [fst snd]. rewrite E4, E5. auto.
  - intros rsF ta da (C1 & C2 & C3 & C4). cbn [fst snd] in *.
    rewrite E4 in C3. rewrite E5 in C4. rewrite app_length in C3, C4. cbn [length] in C3, C4.
    rewrite Nat.add_1_r in C3, C4.
    assert (Hc : compat (s, ls) tr rsF ta da).
    { split; [exact C1|]. split; [exact C2|]. cbn [fst snd]. split.
      - destruct (rs s); [apply gone_mono; exact C3|exact C3|apply gone_mono; exact C3].
      - unfold agrees in *. destruct (last_idx_of_site tr 2005); [exact C4|apply gone_mono; exact C4]. }
    destruct (HW rsF ta da Hc) as (st & Hf & Hcnt). cbn [fst snd] in *.
    rewrite fold_left_app, Hf. cbn [fold_left]. rewrite app_length; cbn [length]; rewrite Nat.add_1_r.
    rewrite wstep_other by (unfold noop_site; discriminate). exists st. split; [reflexivity|exact Hcnt].
Qed.

Lemma RW_init ps : wf ps -> RW (init_config ps) [].
Proof.
  intros Hwf. split.
  - split; [apply Inv_init; exact Hwf|]. cbn.
    split; [discriminate|]. split; [discriminate|]. split; [reflexivity|discriminate].
  - intros rsF ta da _. exists []. cbn [fold_left length snd init_config].
    rewrite init_sum_zero by reflexivity. split; [reflexivity|].
    intros u x Hu. rewrite nth_error_map in Hu. destruct (nth_error ps u) as [p|]; [|discriminate].
    inversion Hu; subst x. unfold emitted, init_local, inprog. cbn [prg pcl results length count_tid].
    destruct (is_owner p); reflexivity.
Qed.

(* ---- the final data the walker is run with is compatible with the final configuration *)
Lemma recovered_Taken (c : cfg) : InvY c ->
  has_res is_recovered (map (fun l => rev (results l)) (snd c)) = true -> rs (fst c) = Taken.
Proof.
  intros ([Hinv Hq] & HR & _) Hrec. destruct Hinv as (_ & _ & _ & _ & _ & I6).
  apply has_res_in in Hrec as (u & x & r & Hu & Hr & Hp). destruct r; try discriminate.
  destruct (I6 u x Hu) as (_ & _ & LC & _). destruct (LC _ _ Hr) as (_ & _ & Hprg).
  rewrite Forall_forall in HR. assert (Hd : pcl x = Done) by (apply (HR x (nth_error_In _ _ Hu)); left; eauto).
  destruct (Hq u x Hu Hd) as [_ Q2]. exact (Q2 Hprg).
Qed.

Lemma compat_final (c : cfg) tr : InvY c -> Aux c tr ->
  let rsF := map (fun l => rev (results l)) (snd c) in
  compat c tr rsF (if has_res is_recovered rsF then last_idx_of_site tr 2004 else None) (last_idx_of_site tr 2005).
Proof.
  intros HY (Hinv & B1 & B2 & B3 & B4) rsF.
  assert (Hnth : forall u x, nth_error (snd c) u = Some x -> nth u rsF [] = rev (results x)).
  { intros u x Hu. apply nth_error_nth. unfold rsF. exact (map_nth_error (fun l => rev (results l)) u (snd c) Hu). }
  split; [|split; [|split]].
  - intros u x k r Hu Hk. rewrite (Hnth u x Hu). exact Hk.
  - intros u x Hu _. left. rewrite (Hnth u x Hu). apply nth_error_None. rewrite rev_length. lia.
  - destruct (rs (fst c)) eqn:Ers.
    + destruct (has_res is_recovered rsF) eqn:Er; [|reflexivity].
      pose proof (recovered_Taken c HY Er). congruence.
    + destruct (B2 eq_refl) as (u & x & i & d & Hu & Hin).
      assert (Er : has_res is_recovered rsF = true).
      { unfold has_res. rewrite existsb_exists. exists (rev (results x)). split.
        - unfold rsF. apply in_map_iff. exists x. split; [reflexivity|eapply nth_error_In; eauto].
        - rewrite existsb_exists. exists (RRecovered i d). split; [rewrite <- in_rev; exact Hin|reflexivity]. }
      rewrite Er. reflexivity.
    + destruct (has_res is_recovered rsF) eqn:Er; [|reflexivity].
      pose proof (recovered_Taken c HY Er). congruence.
  - unfold agrees. destruct (last_idx_of_site tr 2005); reflexivity.
Qed.

Theorem walk_on_model c : wf (fst c) ->
  let '(tr, rs0, done, dr, late) := run_case c in
  walk rs0 tr O (if has_res is_recovered rs0 then last_idx_of_site tr 2004 else None)
       (last_idx_of_site tr 2005) [] 0 = true.
Proof.
  intros Hwf. unfold run_case.
  pose proof (final_InvY c Hwf) as HY. unfold final in HY.
  pose proof (exec_full_trace step site RW RW_step RW_noop rr_fuel (map N.to_nat (snd c)) (init_config (fst c))
                (RW_init (fst c) Hwf)) as HR.
  destruct (exec_full step site rr_fuel (init_config (fst c)) (map N.to_nat (snd c))) as [cf tr].
  cbn [fst snd] in *. destruct HR as [HA HW].
  destruct (HW _ _ _ (compat_final cf tr HY HA)) as (st & Hf & _).
  eapply walk_fold_true. exact Hf.
Qed.

Theorem spec_ok_on_model c : wf (fst c) -> spec_ok c (run_case c) = true.
Proof.
  intros Hwf. pose proof (spec_clauses_on_model c Hwf) as Hcl. pose proof (walk_on_model c Hwf) as Hw.
  unfold spec_ok. destruct (run_case c) as [[[[tr rs0] done] dr] late].
  destruct Hcl as (L1 & L2 & L3 & L4 & L5 & L6). subst late. rewrite L2, Hw. apply N.leb_le in L3. rewrite L3.
  cbn [negb andb]. rewrite !andb_true_r.
  destruct (has_res is_recovered rs0).
  - rewrite (L4 eq_refl) in *. cbn [N.eqb andb].
    destruct (has_res is_hdrop rs0); cbn [negb andb]; [|reflexivity].
    destruct done; cbn [andb]; [|reflexivity]. specialize (L5 eq_refl eq_refl). discriminate.
  - cbn [andb]. destruct (has_res is_hdrop rs0); cbn [negb andb].
    + destruct done; [rewrite (L5 eq_refl eq_refl)|]; reflexivity.
    + rewrite (L6 eq_refl). reflexivity.
Qed.

(* non-vacuity: a racing case (two emitters with two emissions each, the owner recovering in the
   middle of the first emissions; the round-robin tail finishes the run) is well-formed, and its run
   shows an emission that reached the recorder, emissions made inert by the recovery, and a clean
   recovery; a second one with the handle dropped while an emission is in flight *)
Example spec_ok_example_recover :
  let c : case := ([PEmit 2; PRecover; PEmit 2], [0; 0; 1; 2; 2; 1; 0; 1; 0; 2; 1; 2; 1; 0; 2; 1; 0]) in
  wf (fst c) /\
  (let '(_, rs0, done, dr, _) := run_case c in
   rs0 = [[RReached; RInert]; [RRecovered 0 0]; [RReached; RInert]] /\ done = true /\ dr = 0) /\
  spec_ok c (run_case c) = true.
Proof. vm_compute. repeat split; try reflexivity; lia. Qed.

Example spec_ok_example_drop :
  let c : case := ([PEmit 2; PDropHandle; PEmit 1], [0; 0; 1; 1; 2; 2; 0; 0; 2; 0; 2; 2; 0; 0]) in
  wf (fst c) /\
  (let '(_, rs0, done, dr, _) := run_case c in
   rs0 = [[RReached; RInert]; [RHandleDropped]; [RReached]] /\ done = true /\ dr = 1) /\
  spec_ok c (run_case c) = true.
Proof. vm_compute. repeat split; try reflexivity; lia. Qed.
