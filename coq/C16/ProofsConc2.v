(* C16 — proofs about the interleaving machine, part 2: for EVERY schedule, consumers exclude each
   other (at most one thread is between swap.lock and the unlock), and while a drain is between
   its side swap (1606) and its count reset (1609) use_primary selects the OTHER side — so a push
   that starts (1601) during a drain can never select the side being drained.  This is why only
   pushes already in flight at the swap (the late-push class) can disturb a drain.              *)
From Coq Require Import List NArith Bool Arith Lia.
Import ListNotations.
Require Import MV.Common.Interleave MV.C16.Model MV.C16.Conc.
Open Scope N_scope.

Definition region (p : pc) : bool :=
  match p with K5 _ | K6 _ _ | K7 _ _ | K8 _ _ _ _ _ _ _ _ _ | K9 _ _ _ _ _ _ _ | K10 _ _ _ _ => true | _ => false end.

Definition drain_side (p : pc) : option bool :=
  match p with K7 _ up => Some up | K8 _ sd _ _ _ _ _ _ _ => Some sd | K9 _ sd _ _ _ _ _ => Some sd | _ => None end.

Definition Inv2 (c : config) : Prop :=
  (forall t l, nth_error (snd c) t = Some l -> me l = N.of_nat t) /\
  (forall t l, nth_error (snd c) t = Some l -> region (pcl l) = true -> lock (fst c) = Some (me l)) /\
  (forall t l sd, nth_error (snd c) t = Some l -> drain_side (pcl l) = Some sd -> usep (fst c) = negb sd).

Lemma enter_frame m td rs : me (enter m td rs) = m /\ region (pcl (enter m td rs)) = false
                            /\ drain_side (pcl (enter m td rs)) = None.
Proof. destruct td as [|[v c|k|] r]; cbn; auto. Qed.

Lemma set_side_frame s sd r : lock (set_side s sd r) = lock s /\ usep (set_side s sd r) = usep s.
Proof. destruct sd; cbn; auto. Qed.

(* every step is one of: frame (lock and use_primary untouched, the thread does not enter the
   critical region and keeps its drain side), acquire, swap, release *)
Lemma step_class s l s' l' :
  step s l = Some (s', l') ->
  me l' = me l /\
  ( (lock s' = lock s /\ usep s' = usep s /\
     (region (pcl l') = true -> region (pcl l) = true) /\
     (forall sd, drain_side (pcl l') = Some sd -> drain_side (pcl l) = Some sd \/ (region (pcl l) = true /\ usep s = negb sd /\ exists k, pcl l = K7 k sd)))
  \/ (lock s = None /\ lock s' = Some (me l) /\ usep s' = usep s /\ drain_side (pcl l') = None)
  \/ (region (pcl l) = true /\ lock s' = lock s /\ exists k up, pcl l = K6 k up /\ pcl l' = K7 k up /\ usep s' = negb up)
  \/ (region (pcl l) = true /\ lock s' = None /\ usep s' = usep s /\ region (pcl l') = false /\ drain_side (pcl l') = None) ).
Proof.
  intros E. unfold step in E. destruct l as [m p td rs]. cbn [pcl me todo results] in *.
  destruct p.
  - inversion E; subst s' l'. destruct (enter_frame m td rs) as (A & B & C). split; [exact A|].
    left. rewrite B, C. repeat split; auto; discriminate.
  - inversion E; subst s' l'. split; [reflexivity|]. left. match goal with |- context [set_side s ?a ?b] => destruct (set_side_frame s a b) as [A B] end.
    rewrite A, B. cbn. repeat split; auto; discriminate.
  - inversion E; subst s' l'. split; [reflexivity|]. left. match goal with |- context [set_side s ?a ?b] => destruct (set_side_frame s a b) as [A B] end.
    rewrite A, B. cbn. repeat split; auto; discriminate.
  - destruct (store_step (res (side s sd)) idx v c) as [r' p]. inversion E; subst s' l'.
    unfold finish. cbn [me todo results]. destruct (enter_frame m td (MPush p :: rs)) as (A & B & C).
    split; [exact A|]. left. rewrite B, C.
    match goal with |- context [set_side s ?a ?b] => destruct (set_side_frame s a b) as [A1 B1] end. rewrite A1, B1.
    repeat split; auto; discriminate.
  - destruct (lock s) eqn:L; inversion E; subst s' l'; (split; [reflexivity|]).
    + left. repeat split; auto.
    + right; left. cbn. auto.
  - inversion E; subst s' l'. split; [reflexivity|]. left. cbn. repeat split; auto; discriminate.
  - inversion E; subst s' l'. split; [reflexivity|]. right; right; left. cbn. split; [reflexivity|]. split; [reflexivity|].
    exists k, up. auto.
  - inversion E; subst s' l'. split; [reflexivity|]. left. cbn [goto pcl me].
    split; [reflexivity|]. split; [reflexivity|]. split; [auto|].
    intros sd H. left. match type of H with context [if ?b then _ else _] => destruct b end; cbn in H; inversion H; reflexivity.
  - inversion E; subst s' l'. split; [reflexivity|]. left. cbn [goto pcl me].
    split; [reflexivity|]. split; [reflexivity|]. split; [auto|].
    intros sd0 H. left. destruct (i + 1 <? take); cbn in H; inversion H; reflexivity.
  - inversion E; subst s' l'. split; [reflexivity|]. left.
    match goal with |- context [set_side s ?a ?b] => destruct (set_side_frame s a b) as [A B] end. rewrite A, B.
    cbn. repeat split; auto; discriminate.
  - inversion E; subst s' l'. unfold finish. cbn [me todo results].
    destruct (enter_frame m td (MConsume d :: rs)) as (A & B & C). split; [exact A|].
    right; right; right. cbn. auto.
  - inversion E; subst s' l'. split; [reflexivity|]. left. cbn. repeat split; auto; discriminate.
  - inversion E; subst s' l'. unfold finish. cbn [me todo results].
    destruct (enter_frame m td (MEmpty (count (res (side s up)) =? 0) :: rs)) as (A & B & C). split; [exact A|].
    left. rewrite B, C. repeat split; auto; discriminate.
  - discriminate.
Qed.

Lemma Inv2_step : step_preserves step Inv2.
Proof.
  intros s ls t l s' l' (HM & HL & HU) Hn E. cbn [fst snd] in *.
  destruct (step_class s l s' l' E) as [Hme Hc].
  assert (Huniq : forall u x, nth_error ls u = Some x -> me x = me l -> u = t).
  { intros u x Hx Hm. rewrite (HM u x Hx), (HM t l Hn) in Hm. lia. }
  split; [|split]; cbn [fst snd].
  - intros u x Hx. destruct (nth_error_upd_cases ls t l' u x Hx) as [[-> ->]|[Hne Hx']].
    + rewrite Hme. apply (HM t l Hn).
    + apply (HM u x Hx').
  - intros u x Hx Hr. destruct (nth_error_upd_cases ls t l' u x Hx) as [[-> ->]|[Hne Hx']].
    + rewrite Hme. destruct Hc as [(A & B & C & D)|[(A & B & C & D)|[(A & B & C)|(A & B & C & D & F)]]].
      * rewrite A. apply (HL t l Hn). apply C. exact Hr.
      * exact B.
      * rewrite B. apply (HL t l Hn). exact A.
      * rewrite D in Hr. discriminate.
    + pose proof (HL u x Hx' Hr) as Lx.
      destruct Hc as [(A & B & C & D)|[(A & B & C & D)|[(A & B & C)|(A & B & C & D & F)]]].
      * rewrite A. exact Lx.
      * rewrite A in Lx. discriminate.
      * rewrite B. exact Lx.
      * exfalso. apply Hne. apply (Huniq u x Hx'). pose proof (HL t l Hn A) as Ll. rewrite Ll in Lx. inversion Lx. reflexivity.
  - intros u x sd Hx Hd. destruct (nth_error_upd_cases ls t l' u x Hx) as [[-> ->]|[Hne Hx']].
    + destruct Hc as [(A & B & C & D)|[(A & B & C & D)|[(A & B & C)|(A & B & C & D & F)]]].
      * rewrite B. destruct (D sd Hd) as [H|(_ & H & _)]; [apply (HU t l sd Hn H)|exact H].
      * rewrite D in Hd. discriminate.
      * destruct C as (k & up & P1 & P2 & P3). rewrite P2 in Hd. cbn in Hd. inversion Hd; subst. exact P3.
      * rewrite F in Hd. discriminate.
    + pose proof (HU u x sd Hx' Hd) as Ux.
      assert (Rx : region (pcl x) = true) by (destruct (pcl x); cbn in Hd; try discriminate; reflexivity).
      pose proof (HL u x Hx' Rx) as Lx.
      destruct Hc as [(A & B & C & D)|[(A & B & C & D)|[(A & B & C)|(A & B & C & D & F)]]].
      * rewrite B. exact Ux.
      * rewrite C. exact Ux.
      * exfalso. apply Hne. apply (Huniq u x Hx'). pose proof (HL t l Hn A) as Ll. rewrite Ll in Lx. inversion Lx. reflexivity.
      * rewrite C. exact Ux.
Qed.

Lemma init_locals_me ps : forall m t l, nth_error (init_locals m ps) t = Some l -> me l = m + N.of_nat t /\ pcl l = Start.
Proof.
  induction ps as [|p r IH]; intros m [|t] l H; cbn in H; try discriminate.
  - inversion H; subst. cbn. split; [lia|reflexivity].
  - destruct (IH (m + 1) t l H) as [A B]. split; [lia|exact B].
Qed.

Lemma Inv2_init cap ps : Inv2 (init_config cap ps).
Proof.
  unfold Inv2, init_config. cbn [fst snd]. split; [|split].
  - intros t l H. destruct (init_locals_me ps 0 t l H) as [A _]. lia.
  - intros t l H R. destruct (init_locals_me ps 0 t l H) as [_ B]. rewrite B in R. discriminate.
  - intros t l sd H D. destruct (init_locals_me ps 0 t l H) as [_ B]. rewrite B in D. discriminate.
Qed.

Theorem consumers_exclusive_and_side_stable : forall cap ps sched,
  let c := fst (exec step site (init_config cap ps) sched) in
  (forall t u l l', nth_error (snd c) t = Some l -> nth_error (snd c) u = Some l' ->
                    region (pcl l) = true -> region (pcl l') = true -> t = u) /\
  (forall t l sd, nth_error (snd c) t = Some l -> drain_side (pcl l) = Some sd -> usep (fst c) = negb sd).
Proof.
  intros cap ps sched c.
  pose proof (invariant_all_schedules step site Inv2 Inv2_step sched _ (Inv2_init cap ps)) as (HM & HL & HU).
  fold c in HM, HL, HU. split; [|exact HU].
  intros t u l l' Ht Hu Rt Ru. pose proof (HL t l Ht Rt) as A. pose proof (HL u l' Hu Ru) as B.
  rewrite A in B. inversion B as [Q]. rewrite (HM t l Ht), (HM u l' Hu) in Q. lia.
Qed.
