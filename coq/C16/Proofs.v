(* C16 — proofs, part 1: the model (after the fix) refines the reference semantics of Spec.v for
   every capacity and every history; pushing never panics. *)
From Coq Require Import List NArith Bool Arith Lia.
Import ListNotations.
Require Import MV.C16.Model MV.C16.Spec.
Open Scope N_scope.

(* ---- list lemmas *)
Lemma set_nth_length l i v : length (set_nth l i v) = length l.
Proof. revert i. induction l as [|x r IH]; intros [|i]; cbn; auto. Qed.

Lemma set_nth_replace_at l i v : set_nth l i v = replace_at l i v.
Proof. revert i. induction l as [|x r IH]; intros [|i]; cbn; auto. Qed.

Lemma firstn_set_nth_snoc l i v :
  (i < length l)%nat -> firstn (S i) (set_nth l i v) = firstn i l ++ [v].
Proof.
  revert i. induction l as [|x r IH]; intros [|i] H; cbn in *; try lia; auto.
  f_equal. apply IH. lia.
Qed.

Lemma firstn_all' {A} (l : list A) n : (length l <= n)%nat -> firstn n l = l.
Proof. intros H. apply firstn_all2. exact H. Qed.

(* ---- push never panics after the fix *)
Lemma push_no_panic v c r u : snd (push true v c r) <> PPanic u.
Proof.
  unfold push, bound. destruct (count r <? capacity r); cbn; [discriminate|].
  destruct (count r + 1 =? 0) eqn:E; [apply N.eqb_eq in E; lia|].
  destruct (c mod (count r + 1) <? capacity r); cbn; discriminate.
Qed.

Lemma apush_no_panic v c a u : snd (apush true v c a) <> PPanic u.
Proof.
  unfold apush. destruct (use_primary a).
  - pose proof (push_no_panic v c (primary a) u). destruct (push true v c (primary a)). exact H.
  - pose proof (push_no_panic v c (secondary a) u). destruct (push true v c (secondary a)). exact H.
Qed.

Lemma run_no_panic h : forall a u, ~ In (MPush (PPanic u)) (snd (run true a h)).
Proof.
  induction h as [|o r IH]; intros a u; cbn; auto.
  destruct (step true a o) as [a1 x] eqn:E. specialize (IH a1 u).
  destruct (run true a1 r) as [a2 xs]. cbn in *. intros [H|H]; [|auto].
  subst x. destruct o; cbn in E.
  - pose proof (apush_no_panic v choice a u) as P. destruct (apush true v choice a) as [a' p].
    inversion E; subst. cbn in P. congruence.
  - destruct (consume k a). inversion E.
  - inversion E.
Qed.

(* ---- one reservoir against one cycle *)
Definition cap_of (r : reservoir) : nat := length (values r).

(* [kept] of a cycle = the first min(i, cap) slots of the reservoir *)
Definition rel (r : reservoir) (s : cycle) : Prop :=
  count r = snd s /\ fst s = firstn (N.to_nat (N.min (snd s) (capacity r))) (values r).

Lemma push_refines v c r s :
  rel r s ->
  let '(r', p) := push true v c r in
  let '(s', p') := cycle_push (capacity r) s v c in
  p = p' /\ rel r' s' /\ cap_of r' = cap_of r.
Proof.
  destruct s as [kept i]. unfold rel, push, cycle_push, bound, capacity, cap_of. cbn [fst snd].
  intros [Hc Hk]. rewrite Hc.
  destruct (i <? N.of_nat (length (values r))) eqn:E.
  - apply N.ltb_lt in E. cbn [store values count]. rewrite set_nth_length.
    repeat split; auto. cbn [fst snd].
    replace (N.to_nat (N.min (i + 1) (N.of_nat (length (values r))))) with (S (N.to_nat i)) by lia.
    rewrite firstn_set_nth_snoc by lia. rewrite Hk. f_equal. f_equal. lia.
  - apply N.ltb_ge in E.
    destruct (i + 1 =? 0) eqn:E0; [apply N.eqb_eq in E0; lia|].
    assert (Hfull : kept = values r).
    { rewrite Hk. apply firstn_all'. lia. }
    clear E0.
    all: destruct (c mod (i + 1) <? N.of_nat (length (values r))) eqn:Ej.
    all: cbn [store values count]; rewrite ?set_nth_length; repeat split; auto; cbn [fst snd].
    all: replace (N.to_nat (N.min (i + 1) (N.of_nat (length (values r))))) with (length (values r)) by lia.
    all: try (rewrite firstn_all' by (rewrite set_nth_length; lia); rewrite Hfull; symmetry; apply set_nth_replace_at).
    all: rewrite firstn_all' by lia; exact Hfull.
Qed.

Lemma rel_cycle0_irrelevant r : count r = 0 -> rel r cycle0.
Proof. intros H. unfold rel, cycle0. cbn [fst snd]. rewrite N.min_0_l. split; [exact H|reflexivity]. Qed.

Lemma drain_refines k r s :
  rel r s ->
  let '(r', d) := drain k r in
  d = cycle_drain (capacity r) k s /\ rel r' cycle0 /\ cap_of r' = cap_of r.
Proof.
  destruct s as [kept i]. unfold rel, drain, cycle_drain, capacity, cap_of, cycle0. cbn [fst snd values count].
  intros [Hc Hk]. rewrite Hc. split; [|split; [rewrite N.min_0_l; split; reflexivity|reflexivity]].
  - assert (Hlen : (if N.of_nat (length (values r)) <? i then N.of_nat (length (values r)) else i)
                   = N.min i (N.of_nat (length (values r)))).
    { destruct (N.of_nat (length (values r)) <? i) eqn:E;
        [apply N.ltb_lt in E|apply N.ltb_ge in E]; lia. }
    rewrite Hlen. f_equal. destruct k as [k'|].
    + rewrite Hk. rewrite firstn_firstn. f_equal. lia.
    + rewrite Hk. reflexivity.
Qed.

(* ---- the A/B pair against the current cycle *)
Definition active (a : asr) : reservoir := if use_primary a then primary a else secondary a.
Definition inactive (a : asr) : reservoir := if use_primary a then secondary a else primary a.

Definition arel (cap : nat) (a : asr) (s : cycle) : Prop :=
  cap_of (primary a) = cap /\ cap_of (secondary a) = cap /\ rel (active a) s /\ rel (inactive a) cycle0.

Lemma capacity_cap_of r : capacity r = N.of_nat (cap_of r).
Proof. reflexivity. Qed.

Lemma new_arel cap : arel cap (new cap) cycle0.
Proof.
  unfold arel, new, active, inactive, cap_of, with_capacity. cbn. rewrite repeat_length.
  repeat split; apply rel_cycle0_irrelevant; reflexivity.
Qed.

Lemma step_refines cap a s o :
  arel cap a s ->
  let '(a', x) := step true a o in
  match o with
  | Push v c => let '(s', p) := cycle_push (N.of_nat cap) s v c in x = MPush p /\ arel cap a' s'
  | Consume k => x = MConsume (cycle_drain (N.of_nat cap) k s) /\ arel cap a' cycle0
  | IsEmpty => x = MEmpty (snd s =? 0) /\ arel cap a' s
  end.
Proof.
  intros (H1 & H2 & Ha & Hi). destruct o as [v c|k|]; cbn [step].
  - unfold apush. unfold active, inactive in *. destruct (use_primary a) eqn:U.
    + pose proof (push_refines v c (primary a) s Ha) as P.
      destruct (push true v c (primary a)) as [r' p]. rewrite capacity_cap_of, H1 in P.
      destruct (cycle_push (N.of_nat cap) s v c) as [s' p']. destruct P as (-> & P2 & P3).
      split; [reflexivity|]. unfold arel, active, inactive. cbn. rewrite ?U. split; [|split; [|split]]; auto; congruence.
    + pose proof (push_refines v c (secondary a) s Ha) as P.
      destruct (push true v c (secondary a)) as [r' p]. rewrite capacity_cap_of, H2 in P.
      destruct (cycle_push (N.of_nat cap) s v c) as [s' p']. destruct P as (-> & P2 & P3).
      split; [reflexivity|]. unfold arel, active, inactive. cbn. rewrite ?U. split; [|split; [|split]]; auto; congruence.
  - unfold consume. unfold active, inactive in *. destruct (use_primary a) eqn:U.
    + pose proof (drain_refines k (primary a) s Ha) as P.
      destruct (drain k (primary a)) as [r' d]. rewrite capacity_cap_of, H1 in P.
      destruct P as (-> & P2 & P3). split; [reflexivity|].
      unfold arel, active, inactive. cbn. split; [|split; [|split]]; auto; congruence.
    + pose proof (drain_refines k (secondary a) s Ha) as P.
      destruct (drain k (secondary a)) as [r' d]. rewrite capacity_cap_of, H2 in P.
      destruct P as (-> & P2 & P3). split; [reflexivity|].
      unfold arel, active, inactive. cbn. split; [|split; [|split]]; auto; congruence.
  - split; [|split; [|split; [|split]]; auto]. unfold is_empty. unfold active in Ha.
    destruct Ha as [Hc _]. destruct (use_primary a); rewrite Hc; reflexivity.
Qed.

Lemma run_refines cap h : forall a s, arel cap a s -> snd (run true a h) = spec_run (N.of_nat cap) s h.
Proof.
  induction h as [|o r IH]; intros a s Ha; [reflexivity|].
  cbn [run spec_run]. pose proof (step_refines cap a s o Ha) as P.
  destruct (step true a o) as [a1 x]. specialize (IH a1).
  destruct (run true a1 r) as [a2 xs] eqn:E. cbn [snd] in *.
  destruct o as [v c|k|].
  - destruct (cycle_push (N.of_nat cap) s v c) as [s' p]. destruct P as [-> P]. f_equal. apply IH. exact P.
  - destruct P as [-> P]. f_equal. apply IH. exact P.
  - destruct P as [-> P]. f_equal. apply IH. exact P.
Qed.

Theorem model_meets_spec cap h : snd (run true (new cap) h) = spec_outs (N.of_nat cap) h.
Proof. apply run_refines. apply new_arel. Qed.
